// C17 harness, part 8 (round 5): ERROR PROPAGATION through the pool.
//
// A failure is injected into a real estimator through its public constructor: a component estimator whose
// Estimate returns an error, an emission density whose LogPdf returns an error, a batch estimator whose
// NewObservation returns an error (wrappers around the library's own objects, implementing the library's
// interfaces).  The estimation runs on the zero-value pool and on real pools; the property: whenever the
// failing call was reached, the entry point returns an error - for EVERY pool size.
//   correspondence (ecases_*.v): the path of scopes the error travels, evaluated by the Coq model on the
//                                inventory generated from the source, must predict the returned flag
//   oracle (hunt / --extra errflow): error flag on pool k == error flag on the zero-value pool == "fired"
package main

import (
	"encoding/json"
	"errors"
	"fmt"
	"os"
	"path/filepath"
	"strings"
	"sync/atomic"

	. "adharness/common"

	ad "github.com/pbenner/autodiff"
	"github.com/pbenner/autodiff/statistics"
	"github.com/pbenner/autodiff/statistics/generic"
	"github.com/pbenner/autodiff/statistics/matrixEstimator"
	"github.com/pbenner/autodiff/statistics/scalarDistribution"
	"github.com/pbenner/autodiff/statistics/scalarEstimator"
	"github.com/pbenner/autodiff/statistics/vectorEstimator"
	tp "github.com/pbenner/threadpool"
)

var errInjected = errors.New("c17: injected failure")

type failCtl struct {
	mode  string // est | logpdf | batch | none
	comp  int
	fired int32
}

func (c *failCtl) fire() error {
	atomic.AddInt32(&c.fired, 1)
	return errInjected
}

// ---- scalar
type fScalarEst struct {
	statistics.ScalarEstimator
	ctl *failCtl
	idx int
}

func (e *fScalarEst) Estimate(gamma ad.ConstVector, p tp.ThreadPool) error {
	if e.ctl.mode == "est" && e.idx == e.ctl.comp {
		return e.ctl.fire()
	}
	return e.ScalarEstimator.Estimate(gamma, p)
}
func (e *fScalarEst) CloneScalarEstimator() statistics.ScalarEstimator {
	return &fScalarEst{e.ScalarEstimator.CloneScalarEstimator(), e.ctl, e.idx}
}
func (e *fScalarEst) GetEstimate() (statistics.ScalarPdf, error) {
	d, err := e.ScalarEstimator.GetEstimate()
	if err != nil {
		return nil, err
	}
	if e.ctl.mode == "logpdf" && e.idx == e.ctl.comp {
		return &fScalarPdf{d, e.ctl}, nil
	}
	return d, nil
}

type fScalarPdf struct {
	statistics.ScalarPdf
	ctl *failCtl
}

func (d *fScalarPdf) LogPdf(r ad.Scalar, x ad.ConstScalar) error { return d.ctl.fire() }
func (d *fScalarPdf) CloneScalarPdf() statistics.ScalarPdf {
	return &fScalarPdf{d.ScalarPdf.CloneScalarPdf(), d.ctl}
}

// ---- vector
type fVectorEst struct {
	statistics.VectorEstimator
	ctl *failCtl
	idx int
}

func (e *fVectorEst) Estimate(gamma ad.ConstVector, p tp.ThreadPool) error {
	if e.ctl.mode == "est" && e.idx == e.ctl.comp {
		return e.ctl.fire()
	}
	return e.VectorEstimator.Estimate(gamma, p)
}
func (e *fVectorEst) CloneVectorEstimator() statistics.VectorEstimator {
	return &fVectorEst{e.VectorEstimator.CloneVectorEstimator(), e.ctl, e.idx}
}

// ---- matrix
type fMatrixEst struct {
	statistics.MatrixEstimator
	ctl *failCtl
	idx int
}

func (e *fMatrixEst) Estimate(gamma ad.ConstVector, p tp.ThreadPool) error {
	if e.ctl.mode == "est" && e.idx == e.ctl.comp {
		return e.ctl.fire()
	}
	return e.MatrixEstimator.Estimate(gamma, p)
}
func (e *fMatrixEst) CloneMatrixEstimator() statistics.MatrixEstimator {
	return &fMatrixEst{e.MatrixEstimator.CloneMatrixEstimator(), e.ctl, e.idx}
}

// ---- matrix batch (shape HMM)
type fMatrixBatchEst struct {
	statistics.MatrixBatchEstimator
	ctl *failCtl
	idx int
}

func (e *fMatrixBatchEst) NewObservation(x ad.ConstMatrix, gamma ad.ConstScalar, p tp.ThreadPool) error {
	if e.ctl.mode == "est" && e.idx == e.ctl.comp {
		return e.ctl.fire()
	}
	return e.MatrixBatchEstimator.NewObservation(x, gamma, p)
}
func (e *fMatrixBatchEst) CloneMatrixBatchEstimator() statistics.MatrixBatchEstimator {
	return &fMatrixBatchEst{e.MatrixBatchEstimator.CloneMatrixBatchEstimator(), e.ctl, e.idx}
}
func (e *fMatrixBatchEst) GetEstimate() (statistics.MatrixPdf, error) {
	d, err := e.MatrixBatchEstimator.GetEstimate()
	if err != nil {
		return nil, err
	}
	if e.ctl.mode == "logpdf" && e.idx == e.ctl.comp {
		return &fMatrixPdf{d, e.ctl}, nil
	}
	return d, nil
}

type fMatrixPdf struct {
	statistics.MatrixPdf
	ctl *failCtl
}

func (d *fMatrixPdf) LogPdf(r ad.Scalar, x ad.ConstMatrix) error { return d.ctl.fire() }
func (d *fMatrixPdf) CloneMatrixPdf() statistics.MatrixPdf {
	return &fMatrixPdf{d.MatrixPdf.CloneMatrixPdf(), d.ctl}
}

// ---- scalar batch (log transform)
type fScalarBatchEst struct {
	statistics.ScalarBatchEstimator
	ctl *failCtl
}

func (e *fScalarBatchEst) NewObservation(x, gamma ad.ConstScalar, p tp.ThreadPool) error {
	if e.ctl.mode == "batch" {
		return e.ctl.fire()
	}
	return e.ScalarBatchEstimator.NewObservation(x, gamma, p)
}
func (e *fScalarBatchEst) CloneScalarBatchEstimator() statistics.ScalarBatchEstimator {
	return &fScalarBatchEst{e.ScalarBatchEstimator.CloneScalarBatchEstimator(), e.ctl}
}

// ---------------------------------------------------------------- configurations

type ErrFlowCfg struct {
	Kind  string      `json:"kind"` // hmm | smix | vmix | mhmm | mmix | shapehmm | numeric | logt
	Mode  string      `json:"mode"` // est | logpdf | batch | none
	Comp  int         `json:"comp"`
	Seqs  [][]float64 `json:"seqs"`
	Steps int         `json:"steps"`
}

// the first nErrFlowClean kinds have a clean error path on the unchanged tree; the last three are the known losses
var errFlowKinds = [][2]string{{"hmm", "est"}, {"hmm", "logpdf"}, {"smix", "est"}, {"smix", "logpdf"}, {"vmix", "est"}, {"mhmm", "est"},
	{"mmix", "est"}, {"shapehmm", "logpdf"}, {"numeric", "logpdf"}, {"logt", "batch"}}

const nErrFlowClean = 7

func genErrFlow(r *Rng, i int) *ErrFlowCfg {
	km := errFlowKinds[i%len(errFlowKinds)]
	c := &ErrFlowCfg{Kind: km[0], Mode: km[1], Comp: r.Intn(2), Steps: r.Range(1, 2)}
	if r.Intn(6) == 0 {
		c.Mode = "none" // control: nothing fails, no error expected
	}
	f := &FullCfg{}
	switch c.Kind {
	case "hmm":
		f.Kind = "hmm"
	case "smix", "numeric", "logt":
		f.Kind = "mixture"
	case "vmix":
		f.Kind = "vmixture"
	case "mhmm":
		f.Kind = "mhmm"
	case "mmix":
		f.Kind = "mmixture"
	case "shapehmm":
		f.Kind = "shapehmm"
	}
	for {
		g := genFull(r)
		if g.Kind == f.Kind {
			c.Seqs = g.Seqs
			break
		}
	}
	if c.Kind == "logt" {
		for i := range c.Seqs[0] {
			if c.Seqs[0][i] < 0 {
				c.Seqs[0][i] = -c.Seqs[0][i]
			}
			c.Seqs[0][i] += 0.5
		}
	}
	return c
}

// scope names as printed by go2coq_c17 -errflow
const (
	sBWA  = "statistics/generic/hmm_baumWelch_generic.go:"
	sEMA  = "statistics/generic/mixture_em_generic.go:"
	sVHmm = "statistics/vectorEstimator/hmm.go:HmmEstimator."
	sVHd  = "statistics/vectorEstimator/hmm_data.go:HmmStdDataSet."
	sSMix = "statistics/scalarEstimator/mixture.go:MixtureEstimator."
	sSMd  = "statistics/scalarEstimator/mixture_data.go:MixtureStdDataSet."
	sVMix = "statistics/vectorEstimator/mixture.go:MixtureEstimator."
	sMHmm = "statistics/matrixEstimator/hmm.go:HmmEstimator."
	sMMix = "statistics/matrixEstimator/mixture.go:MixtureEstimator."
	sSHmm = "statistics/matrixEstimator/shapeHmm.go:ShapeHmmEstimator."
	sSHd  = "statistics/matrixEstimator/shapeHmm_data.go:ShapeHmmDataSet."
	sNum  = "statistics/scalarEstimator/numeric.go:NumericEstimator."
	scLogT = "statistics/scalarEstimator/logTransform.go:LogTransformEstimator."
)

type pathEl struct {
	Job    bool
	Callee string
	NJobs  int
	JobIdx int
	Scope  string
}

func call(callee, scope string) pathEl { return pathEl{Callee: callee, Scope: scope} }
func job(callee string, n, i int, scope string) pathEl {
	return pathEl{Job: true, Callee: callee, NJobs: n, JobIdx: i, Scope: scope}
}

// the scopes an injected error travels, innermost first
func (c *ErrFlowCfg) path() []pathEl {
	hmmUp := func(pre string) []pathEl {
		return []pathEl{call("baumWelchAlgorithm", sBWA+"BaumWelchAlgorithm"), call("BaumWelchAlgorithm", pre+"Estimate"), call("Estimate", pre+"EstimateOnData")}
	}
	emUp := func(pre string) []pathEl {
		return []pathEl{call("emAlgorithm", sEMA+"EmAlgorithm"), call("EmAlgorithm", pre+"Estimate"), call("Estimate", pre+"EstimateOnData")}
	}
	est := func(pre string, hmm bool) []pathEl {
		p := []pathEl{call("Estimate", pre+"Emissions#lit1"), job("AddRangeJob", 2, c.Comp, pre+"Emissions")}
		if hmm {
			return append(append(p, call("Emissions", sBWA+"baumWelchAlgorithm")), hmmUp(pre)...)
		}
		return append(append(p, call("Emissions", sEMA+"emAlgorithm")), emUp(pre)...)
	}
	switch c.Kind + "/" + c.Mode {
	case "hmm/est":
		return est(sVHmm, true)
	case "smix/est":
		return est(sSMix, false)
	case "vmix/est":
		return est(sVMix, false)
	case "mhmm/est":
		return est(sMHmm, true)
	case "mmix/est":
		return est(sMMix, false)
	case "hmm/logpdf":
		p := []pathEl{call("LogPdf", sVHd+"EvaluateLogPdf#lit1"), job("AddRangeJob", 2, 0, sVHd+"EvaluateLogPdf"), call("EvaluateLogPdf", sVHmm+"EvaluateLogPdf"),
			call("EvaluateLogPdf", sBWA+"baumWelchAlgorithm")}
		return append(p, hmmUp(sVHmm)...)
	case "smix/logpdf":
		p := []pathEl{call("LogPdf", sSMd+"EvaluateLogPdf#lit1"), job("AddRangeJob", 2, 0, sSMd+"EvaluateLogPdf"), call("EvaluateLogPdf", sSMix+"EvaluateLogPdf"),
			call("EvaluateLogPdf", sEMA+"emAlgorithm")}
		return append(p, emUp(sSMix)...)
	case "shapehmm/logpdf":
		p := []pathEl{call("LogPdf", sSHd+"EvaluateLogPdf#lit1"), job("AddRangeJob", 2, 0, sSHd+"EvaluateLogPdf"), call("EvaluateLogPdf", sSHmm+"EvaluateLogPdf"),
			call("EvaluateLogPdf", sBWA+"baumWelchAlgorithm")}
		return append(p, hmmUp(sSHmm)...)
	case "numeric/logpdf":
		// the objective closure (#lit2) is called by the optimiser through a function value: its (lost) status does not
		// reach RunMin as an error; the path continues with the status of the closure
		return []pathEl{call("LogPdf", sNum+"Estimate#lit3"), job("AddRangeJob", 2, 0, sNum+"Estimate#lit2"), call("RunMin", sNum+"Estimate"), call("Estimate", sNum+"EstimateOnData")}
	case "logt/batch":
		return []pathEl{call("NewObservation", scLogT+"NewObservation"), call("NewObservation", scLogT+"Estimate#lit1"), job("AddRangeJob", 2, 0, scLogT+"Estimate"),
			call("Estimate", scLogT+"EstimateOnData")}
	}
	return nil
}

func (c *ErrFlowCfg) coqPath() string {
	var s []string
	for _, e := range c.path() {
		if e.Job {
			s = append(s, fmt.Sprintf("(ViaJob %q %d %d %d, %q)", e.Callee, 0, e.NJobs, e.JobIdx, e.Scope))
		} else {
			s = append(s, fmt.Sprintf("(ViaCall %q %d, %q)", e.Callee, 0, e.Scope))
		}
	}
	return "[" + strings.Join(s, ";\n     ") + "]"
}

// runs the estimation; fired = the injected failure was reached
func runErrFlow(cfg *ErrFlowCfg, pc PoolCfg) (errd bool, fired bool, panicked string) {
	defer func() {
		if r := recover(); r != nil {
			panicked = fmt.Sprint(r)
		}
	}()
	ctl := &failCtl{mode: cfg.Mode, comp: cfg.Comp}
	pool := newPool(pc)
	defer pool.Stop()
	var aerr error
	pi := ad.NewDenseFloat64Vector([]float64{0.6, 0.4})
	tr := ad.NewDenseFloat64Matrix([]float64{0.7, 0.3, 0.4, 0.6}, 2, 2)
	vecs := func() []ad.ConstVector {
		xs := make([]ad.ConstVector, len(cfg.Seqs))
		for i, s := range cfg.Seqs {
			xs[i] = ad.NewDenseFloat64Vector(append([]float64{}, s...))
		}
		return xs
	}
	vpair := func() (statistics.VectorEstimator, statistics.VectorEstimator) {
		a1, _ := scalarEstimator.NewNormalEstimator(-2.0, 2.0, 1e-4)
		a2, _ := scalarEstimator.NewNormalEstimator(3.0, 2.0, 1e-4)
		v1, err := vectorEstimator.NewScalarId(a1, a2)
		must(err)
		v2, err := vectorEstimator.NewScalarId(a2, a1)
		must(err)
		return v1, v2
	}
	switch cfg.Kind {
	case "hmm":
		s1, s2 := scalarPair(false)
		est, err := vectorEstimator.NewHmmEstimator(pi, tr, nil, nil, nil, []statistics.ScalarEstimator{&fScalarEst{s1, ctl, 0}, &fScalarEst{s2, ctl, 1}}, 0.0, cfg.Steps)
		must(err)
		xs := vecs()
		inPool(pool, pc.Nested, func(q tp.ThreadPool) { aerr = est.EstimateOnData(xs, nil, q) })
	case "smix":
		s1, s2 := scalarPair(false)
		est, err := scalarEstimator.NewMixtureEstimator([]float64{0.5, 0.5}, []statistics.ScalarEstimator{&fScalarEst{s1, ctl, 0}, &fScalarEst{s2, ctl, 1}}, 0.0, cfg.Steps)
		must(err)
		x := ad.NewDenseFloat64Vector(append([]float64{}, cfg.Seqs[0]...))
		inPool(pool, pc.Nested, func(q tp.ThreadPool) { aerr = est.EstimateOnData(x, nil, q) })
	case "vmix":
		v1, v2 := vpair()
		est, err := vectorEstimator.NewMixtureEstimator([]float64{0.5, 0.5}, []statistics.VectorEstimator{&fVectorEst{v1, ctl, 0}, &fVectorEst{v2, ctl, 1}}, 0.0, cfg.Steps)
		must(err)
		xs := vecs()
		inPool(pool, pc.Nested, func(q tp.ThreadPool) { aerr = est.EstimateOnData(xs, nil, q) })
	case "mhmm":
		v1, v2 := vpair()
		est, err := matrixEstimator.NewHmmEstimator(pi, tr, nil, nil, nil, []statistics.VectorEstimator{&fVectorEst{v1, ctl, 0}, &fVectorEst{v2, ctl, 1}}, 0.0, cfg.Steps)
		must(err)
		xs := make([]ad.ConstMatrix, len(cfg.Seqs))
		for i, s := range cfg.Seqs {
			xs[i] = ad.NewDenseFloat64Matrix(append([]float64{}, s...), len(s)/2, 2)
		}
		inPool(pool, pc.Nested, func(q tp.ThreadPool) { aerr = est.EstimateOnData(xs, nil, q) })
	case "mmix":
		v1, v2 := vpair()
		m1, err := matrixEstimator.NewVectorId(v1, v2)
		must(err)
		m2, err := matrixEstimator.NewVectorId(v2, v1)
		must(err)
		est, err := matrixEstimator.NewMixtureEstimator([]float64{0.5, 0.5}, []statistics.MatrixEstimator{&fMatrixEst{m1, ctl, 0}, &fMatrixEst{m2, ctl, 1}}, 0.0, cfg.Steps)
		must(err)
		xs := make([]ad.ConstMatrix, len(cfg.Seqs))
		for i, s := range cfg.Seqs {
			xs[i] = ad.NewDenseFloat64Matrix(append([]float64{}, s...), 2, 2)
		}
		inPool(pool, pc.Nested, func(q tp.ThreadPool) { aerr = est.EstimateOnData(xs, nil, q) })
	case "shapehmm":
		c1, _ := scalarEstimator.NewCategoricalEstimator([]float64{0.2, 0.8})
		c2, _ := scalarEstimator.NewCategoricalEstimator([]float64{0.7, 0.3})
		d1, err := vectorEstimator.NewScalarBatchId(c1)
		must(err)
		d2, err := vectorEstimator.NewScalarBatchId(c2)
		must(err)
		e1, err := matrixEstimator.NewVectorBatchId(d1, d1)
		must(err)
		e2, err := matrixEstimator.NewVectorBatchId(d2, d2)
		must(err)
		est, err := matrixEstimator.NewShapeHmmEstimator(pi, tr, nil, []statistics.MatrixBatchEstimator{&fMatrixBatchEst{e1, ctl, 0}, &fMatrixBatchEst{e2, ctl, 1}}, 0.0, cfg.Steps,
			// the emission update of the shape HMM rejects every record longer than the window ("data has invalid dimension",
			// ShapeHmmAdapter.newObservation): only the batch evaluation and the Baum-Welch step are driven
			generic.BaumWelchOptimizeEmissions{Value: false})
		must(err)
		xs := make([]ad.ConstMatrix, len(cfg.Seqs))
		for i, s := range cfg.Seqs {
			xs[i] = ad.NewDenseFloat64Matrix(append([]float64{}, s...), len(s), 1)
		}
		inPool(pool, pc.Nested, func(q tp.ThreadPool) { aerr = est.EstimateOnData(xs, nil, q) })
	case "numeric":
		d, err := scalarDistribution.NewNormalDistribution(ad.NewReal64(0.5), ad.NewReal64(2.0))
		must(err)
		var pdf statistics.ScalarPdf = d
		if cfg.Mode == "logpdf" {
			pdf = &fScalarPdf{d, ctl}
		}
		est, err := scalarEstimator.NewNumericEstimator(pdf)
		must(err)
		est.MaxIterations = 3
		x := ad.NewDenseFloat64Vector(append([]float64{}, cfg.Seqs[0]...))
		inPool(pool, pc.Nested, func(q tp.ThreadPool) { aerr = est.EstimateOnData(x, nil, q) })
	case "logt":
		n1, err := scalarEstimator.NewNormalEstimator(1.0, 2.0, 1e-4)
		must(err)
		est, err := scalarEstimator.NewLogTransformEstimator(&fScalarBatchEst{n1, ctl}, 1.0)
		must(err)
		x := ad.NewDenseFloat64Vector(append([]float64{}, cfg.Seqs[0]...))
		inPool(pool, pc.Nested, func(q tp.ThreadPool) { aerr = est.EstimateOnData(x, nil, q) })
	default:
		panic("unknown errflow kind " + cfg.Kind)
	}
	if os.Getenv("C17_DEBUG") != "" && aerr != nil {
		fmt.Fprintf(os.Stderr, "%s/%s k=%d: %v\n", cfg.Kind, cfg.Mode, pc.K, aerr)
	}
	return aerr != nil, atomic.LoadInt32(&ctl.fired) > 0, ""
}

// the threadpool's rare late error (F-TP-ERRLATE) must not be mistaken for a dropped result: a lost error on a real
// pool is re-run; only a loss that repeats is reported.  Returns the flag, fired and how many runs lost the error.
func runErrFlowStable(cfg *ErrFlowCfg, pc PoolCfg) (errd, fired bool, pn string, lost int) {
	errd, fired, pn = runErrFlow(cfg, pc)
	if pc.K < 2 || errd || !fired || pn != "" {
		return
	}
	lost = 1
	for i := 0; i < 3; i++ {
		e2, f2, p2 := runErrFlow(cfg, pc)
		if p2 != "" {
			return e2, f2, p2, lost
		}
		if e2 {
			return e2, f2, p2, lost // rare loss
		}
		lost++
	}
	return
}

const eheader = "From Coq Require Import List Bool String.\nFrom ADV Require Import Base.Corr C17.ModelErrFlow C17.ErrFlow_gen C17.CorrErrFlow.\nImport ListNotations.\nOpen Scope string_scope.\n"

func (g *gen) errFlowCases(cfg *ErrFlowCfg) {
	for _, pc := range poolSet(g.rng, g.tier, 2) {
		errd, fired, pn, lost := runErrFlowStable(cfg, pc)
		raw := RawCase{Site: "errflow", Pool: pc, ErrFlow: cfg, Out: fmt.Sprintf("err=%v fired=%v lost_runs=%d", errd, fired, lost), Panic: pn}
		coq := fmt.Sprintf("mkECase %s %s\n    %s\n    %s", B(pc.K == 1), B(fired), cfg.coqPath(), B(errd))
		if pn != "" {
			coq = "mkECase true true [] true" // an always-failing case: the run itself went wrong
		}
		if cfg.Mode == "none" {
			coq = fmt.Sprintf("mkECase %s false [] %s", B(pc.K == 1), B(errd))
		}
		g.ew.Add(coq, raw, fmt.Sprintf("errflow/%s/%s/c%d/k%d", cfg.Kind, cfg.Mode, cfg.Comp, pc.K), cfg.Mode != "none")
		g.ew.Count("errflow:" + cfg.Kind + "/" + cfg.Mode)
		g.ew.Count("errflow:" + rel(pc.K, 2))
		if fired && !errd {
			g.ew.Count("errflow:error-lost:" + cfg.Kind + "/" + cfg.Mode + ":" + rel(pc.K, 2))
		}
	}
}

// property-level oracle for the hunt: the error flag of the parallel run equals the flag of the run on the zero-value
// pool, and an injected failure that was reached is reported
func errFlowOracle(cfg *ErrFlowCfg, pc PoolCfg) string {
	serr, sfired, spn, _ := runErrFlowStable(cfg, PoolCfg{K: 1})
	perr, pfired, ppn, lost := runErrFlowStable(cfg, pc)
	switch {
	case ppn != "" && spn == "":
		return "panic in the parallel run only: " + ppn
	case serr != perr:
		return fmt.Sprintf("error flag differs: sequential=%v parallel=%v (injected failure reached: sequential=%v parallel=%v; %d of %d parallel runs lost it)", serr, perr, sfired, pfired, lost, lost+0)
	case pfired && !perr:
		return fmt.Sprintf("a failing component was reached and the estimation returned no error on a pool of %d threads (and none on the zero-value pool)", pc.K)
	}
	return ""
}

// --extra errflow: every kind x mode, with and without the failure, on the zero-value pool and on real pools:
// a table of error flags (errflow.json) - the demonstration runs of the known losses and the positive controls
func errFlowMain(o Opts) {
	type row struct {
		Kind  string         `json:"kind"`
		Mode  string         `json:"mode"`
		Comp  int            `json:"comp"`
		Fired map[string]bool `json:"fired"`
		Err   map[string]bool `json:"err"`
		Panic string         `json:"panic,omitempty"`
		Cfg   *ErrFlowCfg    `json:"config"`
	}
	r := NewRng(o.Seed + 7919)
	var rows []row
	for i := range errFlowKinds {
		cfg := genErrFlow(r.Split(), i)
		cfg.Mode = errFlowKinds[i][1]
		rw := row{Kind: cfg.Kind, Mode: cfg.Mode, Comp: cfg.Comp, Fired: map[string]bool{}, Err: map[string]bool{}, Cfg: cfg}
		for _, k := range []int{1, 2, 4, 8} {
			e, f, pn, _ := runErrFlowStable(cfg, PoolCfg{K: k, Buf: 2})
			rw.Err[fmt.Sprint(k)], rw.Fired[fmt.Sprint(k)] = e, f
			if pn != "" {
				rw.Panic = pn
			}
		}
		rows = append(rows, rw)
	}
	b, _ := json.MarshalIndent(rows, "", " ")
	os.WriteFile(filepath.Join(o.Out, "errflow.json"), b, 0644)
}
