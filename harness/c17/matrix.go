// C17 harness, part 4 (round 2): the option matrix of BaumWelchStep / EmStep — every
// configuration of the optional accumulators on real pools, every returned observable against
// the configuration model (coq/C17/ModelCfg.v, cases ocases_*.v) and the sequential run.
package main

import (
	"fmt"
	"math"
	"strings"

	. "adharness/common"
)

const oheader = "From Coq Require Import ZArith List Bool QArith.\nFrom ADV Require Import Base.Corr C17.Model C17.ModelCfg C17.Corr C17.CorrCfg.\nImport ListNotations.\nOpen Scope Z_scope.\n"

type ocase struct {
	bw                       bool
	hasF, hasI, nilPanics    bool
	k, n                     int
	staleFlag                bool
	stale                    float64
	sch                      [][2]int
	lik                      []float64
	gam                      [][]float64 // per job, flattened; nil when gamma is nil
	glen                     int
	goPanic                  bool
	goLik                    float64
	goGam                    []float64 // nil: Emissions not called
	goGamPresent             bool
	goF                      bool
	near                     [][3]float64
	fail                     bool // the run itself went wrong: an always failing case
}

func cellList(xs []float64) string {
	s := make([]string, len(xs))
	for i, x := range xs {
		s[i] = qcell(x)
	}
	return "[" + strings.Join(s, "; ") + "]"
}

func (c *ocase) coq() string {
	if c.fail {
		// n = 1 with an empty schedule is not a valid schedule: fails
		return "mkOCase true true true true 1 1 false (0#1) []%nat [] [] 0 false (0#1) None false []"
	}
	gs := make([]string, len(c.gam))
	for i, g := range c.gam {
		gs[i] = cellList(g)
	}
	gg := "None"
	if c.goGamPresent {
		gg = "(Some " + cellList(c.goGam) + ")"
	}
	nr := make([]string, len(c.near))
	for i, t := range c.near {
		nr[i] = fmt.Sprintf("(%s, %s, %s)", qq(t[0]), qq(t[1]), Q(t[2]))
	}
	return fmt.Sprintf("mkOCase %s %s %s %s %d %d %s %s %s\n    %s\n    [%s] %d %s %s %s %s\n    [%s]",
		B(c.bw), B(c.hasF), B(c.hasI), B(c.nilPanics), c.k, c.n, B(c.staleFlag), Q(c.stale), schStr(c.sch)+"%nat",
		qlist(c.lik), strings.Join(gs, "; "), c.glen, B(c.goPanic), qq(c.goLik), gg, B(c.goF),
		strings.Join(nr, "; "))
}

func tol9(a, b float64) float64 {
	t := math.Max(1, math.Max(math.Abs(a), math.Abs(b))) * 1e-9
	if math.IsNaN(t) || math.IsInf(t, 0) {
		return 0
	}
	return t
}

func flatten(g [][]float64) []float64 {
	var out []float64
	for _, r := range g {
		out = append(out, r...)
	}
	return out
}

var optMatrix = [][2]bool{{false, false}, {true, false}, {false, true}, {true, true}}

func cfgName(a, b bool) string {
	on := func(x bool) string {
		if x {
			return "off"
		}
		return "on"
	}
	return "emissions=" + on(a) + ",F=" + on(b)
}

// ---------------------------------------------------------------- EM

func (g *gen) emOptCases(base *EmCfg, certify bool) {
	m, n := len(base.Weights), len(base.Lp[0])
	full := *base
	full.NoEmis, full.NoWeights = false, false
	ref, rpn := runEM(&full, -1, PoolCfg{K: 1})
	for _, oc := range optMatrix {
		cfg := *base
		cfg.NoEmis, cfg.NoWeights = oc[0], oc[1]
		bad := func(site, pn string) {
			g.ow.Add((&ocase{fail: true}).coq(), RawCase{Site: site, Em: &cfg, Panic: pn}, site+"-fail", false)
			g.ow.Count("em-opt:run-failed")
		}
		if rpn != "" || ref.Err {
			bad("em-opt-ref", rpn)
			return
		}
		lik := make([]float64, n)
		var gam [][]float64
		lw0 := make([][]float64, n)
		glen := 0
		if !cfg.NoEmis {
			glen = m * n
		}
		okc := true
		for l := 0; l < n; l++ {
			o, pn := runEM(&cfg, l, PoolCfg{K: 1})
			if pn != "" || o.Err || (!cfg.NoEmis && len(o.Gamma) != m) || (cfg.NoEmis && o.Gamma != nil) {
				bad("em-opt-contrib", pn)
				okc = false
				break
			}
			lik[l] = o.Lik
			lw0[l] = o.Lw0
			if !cfg.NoEmis {
				t := make([]float64, m*n)
				for i := range t {
					t[i] = math.Inf(-1)
				}
				for i := 0; i < m; i++ {
					t[i*n+l] = o.Gamma[i][0]
				}
				gam = append(gam, t)
			} else {
				gam = append(gam, nil)
			}
		}
		if !okc {
			continue
		}
		seq, spn := runEM(&cfg, -1, PoolCfg{K: 1})
		if spn != "" || seq.Err {
			bad("em-opt-seq", spn)
			continue
		}
		pools := poolSet(g.rng, g.tier, nChunks(8, n))
		for pi, pc := range pools {
			o, pn := runEM(&cfg, -1, pc)
			g.noteUsed(o.Used)
			raw := RawCase{Site: "em-opt", Pool: pc, Em: &cfg, Out: fmt.Sprintf("%+v", o), Panic: pn}
			c := &ocase{bw: false, hasF: !cfg.NoWeights, hasI: !cfg.NoEmis, nilPanics: false, k: pc.K, n: n,
				staleFlag: cfg.StaleFlag, stale: cfg.Stale, sch: genSchedule(g.rng, pc.K, nChunks(pc.K, n)),
				lik: lik, gam: gam, glen: glen}
			if pn != "" || o.Err {
				c.fail = true
			} else {
				c.goLik = o.Lik
				c.near = append(c.near, [3]float64{o.Lik, seq.Lik, tol9(o.Lik, seq.Lik)}, [3]float64{o.Lik, ref.Lik, tol9(o.Lik, ref.Lik)})
				if o.Gamma != nil {
					c.goGamPresent = true
					c.goGam = flatten(o.Gamma)
				}
				for i := 0; i < m; i++ {
					if o.Lw[i] != -77.0 {
						c.goF = true
					}
				}
				if c.goF {
					for i := 0; i < m; i++ {
						c.near = append(c.near, [3]float64{o.Lw[i], seq.Lw[i], 1e-9}, [3]float64{o.Lw[i], ref.Lw[i], 1e-9})
					}
				}
				// certified against the contributions: the configuration without gamma, largest pool
				if certify && cfg.NoEmis && !cfg.NoWeights && pi == len(pools)-1 {
					var all []float64
					for l := 0; l < n; l++ {
						all = append(all, lw0[l]...)
					}
					for i := 0; i < m; i++ {
						var num []float64
						for l := 0; l < n; l++ {
							if len(lw0[l]) == m {
								num = append(num, lw0[l][i])
							}
						}
						if goal, ok := tolGoal(num, all, o.Lw[i]); ok {
							g.tol.add(goal, map[string]interface{}{"site": "em-opt", "what": fmt.Sprintf("logWeights[%d] (%s)", i, cfgName(cfg.NoEmis, cfg.NoWeights)), "pool": pc, "em": &cfg, "go": o.Lw[i]})
						}
					}
				}
			}
			key := fmt.Sprintf("emopt/m%d/n%d/k%d/%v%v", m, n, pc.K, cfg.NoEmis, cfg.NoWeights)
			g.ow.Add(c.coq(), raw, key, n >= 2 && pc.K >= 2)
			g.ow.Count("em-opt:" + cfgName(cfg.NoEmis, cfg.NoWeights) + ":" + rel(pc.K, nChunks(pc.K, n)))
		}
	}
}

// ---------------------------------------------------------------- Baum-Welch

// does the configuration without transition accumulators panic on this tree?  (sequential probe:
// a panic on the caller's goroutine is recoverable, one on a worker goroutine kills the process)
func bwNoTransPanics() (bool, string) {
	cfg := &BwCfg{Pi: []float64{1, 1}, Tr: [][]float64{{1, 1}, {1, 1}}, StateMap: []int{0, 1}, Lens: []int{2},
		Lp: [][]float64{{-0.5, -1.5}, {-1.25, -0.75}}, FailRec: -1, FailPos: -1, NoTrans: true}
	_, pn := runBW(cfg, -1, PoolCfg{K: 1})
	return pn != "", pn
}

func (g *gen) bwOptCases(base *BwCfg, certify bool) {
	m, nrec, ne := len(base.Pi), len(base.Lens), base.nE()
	nm := len(base.Lp[0])
	full := *base
	full.NoEmis, full.NoTrans = false, false
	ref, rpn := runBW(&full, -1, PoolCfg{K: 1})
	for _, oc := range optMatrix {
		cfg := *base
		cfg.NoEmis, cfg.NoTrans = oc[0], oc[1]
		bad := func(site, pn string) {
			g.ow.Add((&ocase{fail: true}).coq(), RawCase{Site: site, Bw: &cfg, Panic: pn}, site+"-fail", false)
			g.ow.Count("bw-opt:run-failed")
		}
		if rpn != "" || ref.Err {
			bad("bw-opt-ref", rpn)
			return
		}
		glen := 0
		if !cfg.NoEmis {
			glen = ne * nm
		}
		if cfg.NoTrans && g.noTransPanics {
			// known finding: only the pool of one thread can be driven (recoverable panic); the model
			// must predict the panic
			o, pn := runBW(&cfg, -1, PoolCfg{K: 1})
			c := &ocase{bw: true, hasF: false, hasI: !cfg.NoEmis, nilPanics: true, k: 1, n: nrec, staleFlag: cfg.StaleFlag, stale: cfg.Stale,
				sch: genSchedule(g.rng, 1, nrec), lik: make([]float64, nrec), glen: glen, goPanic: pn != ""}
			for d := 0; d < nrec; d++ {
				t := make([]float64, glen)
				for i := range t {
					t[i] = math.Inf(-1)
				}
				c.gam = append(c.gam, t)
			}
			g.ow.Add(c.coq(), RawCase{Site: "bw-opt", Pool: PoolCfg{K: 1}, Bw: &cfg, Out: fmt.Sprintf("%+v", o), Panic: pn}, fmt.Sprintf("bwopt/notrans/r%d", nrec), false)
			g.ow.Count("bw-opt:" + cfgName(cfg.NoEmis, cfg.NoTrans) + ":nil-deref-panic(k=1 only)")
			continue
		}
		lik := make([]float64, nrec)
		pis := make([][]float64, nrec)
		trs := make([][][]float64, nrec)
		var gam [][]float64
		okc := true
		for d := 0; d < nrec; d++ {
			o, pn := runBW(&cfg, d, PoolCfg{K: 1})
			if pn != "" || o.Err || o.Pi0 == nil || (!cfg.NoEmis && len(o.Gamma) != ne) || (cfg.NoEmis && o.Gamma != nil) {
				bad("bw-opt-contrib", pn)
				okc = false
				break
			}
			lik[d], pis[d], trs[d] = o.Lik, o.Pi0, o.Tr0
			if !cfg.NoEmis {
				gam = append(gam, flatten(o.Gamma))
			} else {
				gam = append(gam, nil)
			}
		}
		if !okc {
			continue
		}
		seq, spn := runBW(&cfg, -1, PoolCfg{K: 1})
		if spn != "" || seq.Err {
			bad("bw-opt-seq", spn)
			continue
		}
		pools := poolSet(g.rng, g.tier, nrec)
		for pi, pc := range pools {
			o, pn := runBW(&cfg, -1, pc)
			g.noteUsed(o.Used)
			raw := RawCase{Site: "bw-opt", Pool: pc, Bw: &cfg, Out: fmt.Sprintf("%+v", o), Panic: pn}
			c := &ocase{bw: true, hasF: !cfg.NoTrans, hasI: !cfg.NoEmis, nilPanics: g.noTransPanics, k: pc.K, n: nrec,
				staleFlag: cfg.StaleFlag, stale: cfg.Stale, sch: genSchedule(g.rng, pc.K, nrec), lik: lik, gam: gam, glen: glen}
			if pn != "" || o.Err {
				c.fail = true
			} else {
				c.goLik = o.Lik
				c.near = append(c.near, [3]float64{o.Lik, seq.Lik, tol9(o.Lik, seq.Lik)}, [3]float64{o.Lik, ref.Lik, tol9(o.Lik, ref.Lik)})
				if o.Gamma != nil {
					c.goGamPresent = true
					c.goGam = flatten(o.Gamma)
				}
				c.goF = !cfg.NoTrans
				for i := 0; i < m; i++ {
					c.near = append(c.near, [3]float64{o.Pi[i], seq.Pi[i], 1e-9}, [3]float64{o.Pi[i], ref.Pi[i], 1e-9})
					if !cfg.NoTrans {
						for j := 0; j < m; j++ {
							c.near = append(c.near, [3]float64{o.Tr[i][j], seq.Tr[i][j], 1e-9}, [3]float64{o.Tr[i][j], ref.Tr[i][j], 1e-9})
						}
					}
				}
				if certify && cfg.NoEmis && !cfg.NoTrans && pi == len(pools)-1 {
					var allpi []float64
					for d := 0; d < nrec; d++ {
						allpi = append(allpi, pis[d]...)
					}
					for i := 0; i < m; i++ {
						var num, row []float64
						for d := 0; d < nrec; d++ {
							num = append(num, pis[d][i])
							row = append(row, trs[d][i]...)
						}
						if goal, ok := tolGoal(num, allpi, o.Pi[i]); ok {
							g.tol.add(goal, map[string]interface{}{"site": "bw-opt", "what": fmt.Sprintf("Pi[%d] (%s)", i, cfgName(cfg.NoEmis, cfg.NoTrans)), "pool": pc, "bw": &cfg, "go": o.Pi[i]})
						}
						for j := 0; j < m; j++ {
							var nu []float64
							for d := 0; d < nrec; d++ {
								nu = append(nu, trs[d][i][j])
							}
							if goal, ok := tolGoal(nu, row, o.Tr[i][j]); ok {
								g.tol.add(goal, map[string]interface{}{"site": "bw-opt", "what": fmt.Sprintf("Tr[%d][%d] (%s)", i, j, cfgName(cfg.NoEmis, cfg.NoTrans)), "pool": pc, "bw": &cfg, "go": o.Tr[i][j]})
							}
						}
					}
				}
			}
			key := fmt.Sprintf("bwopt/m%d/r%d/k%d/%v%v/%v", m, nrec, pc.K, cfg.NoEmis, cfg.NoTrans, cfg.Lens)
			g.ow.Add(c.coq(), raw, key, nrec >= 2 && pc.K >= 2)
			g.ow.Count("bw-opt:" + cfgName(cfg.NoEmis, cfg.NoTrans) + ":" + rel(pc.K, nrec))
		}
	}
}
