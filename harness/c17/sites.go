// C17 harness, part 1: drivers for the parallel call sites of /repo (real code, real
// threadpool), data sets implemented here so that per-job contributions are controlled.
package main

import (
	"fmt"
	"math"
	"runtime"

	ad "github.com/pbenner/autodiff"
	"github.com/pbenner/autodiff/statistics/generic"
	"github.com/pbenner/autodiff/statistics/scalarEstimator"
	"github.com/pbenner/autodiff/statistics/vectorEstimator"
	tp "github.com/pbenner/threadpool"
)

// ---------------------------------------------------------------- pools

type PoolCfg struct {
	K      int  `json:"k"`      // number of threads
	Buf    int  `json:"buf"`    // channel buffer of the pool
	Nested int  `json:"nested"` // 0: call the step directly; 1: from inside a job, caller in Wait (may work too);
	// 2: from inside a job while the caller blocks outside the pool, so thread 0 is never used
	Yield  bool `json:"yield"`  // runtime.Gosched() inside the data set's LogPdf
}

func newPool(c PoolCfg) tp.ThreadPool {
	if c.K <= 1 {
		return tp.Nil()
	}
	b := c.Buf
	if b < 1 {
		b = 1
	}
	return tp.New(c.K, b)
}

// run f with the pool, optionally from inside a job
func inPool(p tp.ThreadPool, nested int, f func(p tp.ThreadPool)) {
	if nested == 0 || p.NumberOfThreads() == 1 {
		f(p)
		return
	}
	g := p.NewJobGroup()
	done := make(chan bool, 1)
	p.AddJob(g, func(pool tp.ThreadPool, erf func() error) error {
		f(pool)
		done <- true
		return nil
	})
	if nested == 2 {
		<-done // the caller (thread 0) does not serve the queue meanwhile
	}
	p.Wait(g)
}

func maybeYield(on bool, a, b int) {
	if on && (a*7+b*3)%2 == 0 {
		runtime.Gosched()
	}
}

// ---------------------------------------------------------------- EM (generic.Mixture.EmStep)

type EmCfg struct {
	Weights []float64   `json:"weights"` // component weights (normalised by NewMixture)
	Lp      [][]float64 `json:"lp"`      // lp[c][l] log density of observation l under component c
	Counts  []int       `json:"counts"`  // nil or multiplicities
	FailAt  int         `json:"fail_at"` // observation whose LogPdf fails, -1 none
	Stale   float64     `json:"stale"`
	StaleFlag bool      `json:"stale_flag"`
	// option matrix (zero value = the default configuration: everything optimised)
	NoEmis    bool      `json:"no_emissions,omitempty"` // EmOptimizeEmissions{false}: tmp[.].gamma is nil
	NoWeights bool      `json:"no_weights,omitempty"`   // EmOptimizeWeights{false}: tmp[.].logWeights is nil
}

type emData struct {
	cfg   *EmCfg
	only  int // -1: all observations; otherwise the data set consists of this single observation
	yield bool
}

func (d *emData) idx(i int) int {
	if d.only >= 0 {
		return d.only
	}
	return i
}
func (d *emData) LogPdf(r ad.Scalar, c, i int) error {
	l := d.idx(i)
	maybeYield(d.yield, c, l)
	if l == d.cfg.FailAt {
		return fmt.Errorf("c17: injected failure at observation %d", l)
	}
	r.SetFloat64(d.cfg.Lp[c][l])
	return nil
}
func (d *emData) GetCounts() []int {
	if d.cfg.Counts == nil {
		return nil
	}
	if d.only >= 0 {
		return []int{d.cfg.Counts[d.only]}
	}
	return d.cfg.Counts
}
func (d *emData) GetN() int {
	if d.only >= 0 {
		return 1
	}
	return len(d.cfg.Lp[0])
}

type emCore struct {
	m1, m2 *generic.Mixture
	data   *emData
	cfg    *EmCfg
	lik    float64
	err    error
	gamma  [][]float64
	snaps  []generic.VerifC17ThreadSnap
}

func (c *emCore) EvaluateLogPdf(p tp.ThreadPool) error    { return nil }
func (c *emCore) GetBasicMixture() generic.BasicMixture { return nil }
func (c *emCore) Swap()                                   {}
func (c *emCore) Step(meta ad.ConstVector, tmp []generic.EmTmp, p tp.ThreadPool) (float64, error) {
	generic.VerifC17EmStale(tmp, c.cfg.Stale, c.cfg.StaleFlag)
	lik, err := c.m1.EmStep(c.m1, c.m2, c.data, meta, tmp, p)
	c.lik, c.err = lik, err
	c.snaps = generic.VerifC17EmSnap(tmp)
	return lik, err
}
func (c *emCore) Emissions(gamma []ad.DenseFloat64Vector, p tp.ThreadPool) error {
	c.gamma = make([][]float64, len(gamma))
	for i := range gamma {
		c.gamma[i] = append([]float64{}, []float64(gamma[i])...)
	}
	return nil
}

type EmOut struct {
	Err   bool        `json:"err"`
	Lik   float64     `json:"lik"`
	Gamma [][]float64 `json:"gamma"` // [c][l]
	Lw    []float64   `json:"lw"`    // normalised log weights of mixture1
	Used  []bool      `json:"used"`  // per thread: accumulators were touched by the step
	Lw0   []float64   `json:"lw0"`   // tmp[0].logWeights after the step (of a sequential single-job run: the job's contribution)
}

func runEM(cfg *EmCfg, only int, pc PoolCfg) (out EmOut, panicked string) {
	defer func() {
		if r := recover(); r != nil {
			panicked = fmt.Sprint(r)
		}
	}()
	m := len(cfg.Weights)
	mix, err := generic.NewMixture(ad.NewDenseFloat64Vector(append([]float64{}, cfg.Weights...)))
	if err != nil {
		panic(err)
	}
	core := &emCore{m1: mix.Clone(), m2: mix.Clone(), cfg: cfg}
	core.data = &emData{cfg: cfg, only: only, yield: pc.Yield}
	// something recognisable in mixture1 (it is overwritten by the step)
	core.m1.LogWeights.Map(func(x ad.Scalar) { x.SetFloat64(-77.0) })
	pool := newPool(pc)
	defer pool.Stop()
	var aerr error
	inPool(pool, pc.Nested, func(p tp.ThreadPool) {
		aerr = generic.EmAlgorithm(core, nil, core.data.GetN(), m, 0.0, 1, p,
			generic.EmOptimizeEmissions{Value: !cfg.NoEmis}, generic.EmOptimizeWeights{Value: !cfg.NoWeights})
	})
	out.Err = aerr != nil
	out.Lik = core.lik
	out.Gamma = core.gamma
	out.Lw = make([]float64, m)
	for i := 0; i < m; i++ {
		out.Lw[i] = core.m1.LogWeights.ConstAt(i).GetFloat64()
	}
	if len(core.snaps) > 0 {
		out.Lw0 = core.snaps[0].LogWeights
	}
	for t := range core.snaps {
		s := core.snaps[t]
		if cfg.NoWeights {
			out.Used = append(out.Used, t > 0 && s.Init)
		} else {
			out.Used = append(out.Used, len(s.LogWeights) > 0 && s.LogWeights[0] != cfg.Stale)
		}
	}
	return
}

// ---------------------------------------------------------------- Baum-Welch (generic.Hmm.BaumWelchStep)

type BwCfg struct {
	Pi       []float64   `json:"pi"`
	Tr       [][]float64 `json:"tr"`
	StateMap []int       `json:"state_map"`
	Lens     []int       `json:"lens"` // record lengths
	Lp       [][]float64 `json:"lp"`   // lp[c][mapped index]
	FailRec  int         `json:"fail_rec"`
	FailPos  int         `json:"fail_pos"`
	Stale    float64     `json:"stale"`
	StaleFlag bool       `json:"stale_flag"`
	// option matrix (zero value = the default configuration)
	NoEmis  bool `json:"no_emissions,omitempty"`   // BaumWelchOptimizeEmissions{false}: tmp[.].gamma is nil
	NoTrans bool `json:"no_transitions,omitempty"` // BaumWelchOptimizeTransitions{false}: tmp[.].tr and xi are nil
}

func (c *BwCfg) offsets() []int {
	o := make([]int, len(c.Lens))
	n := 0
	for i, l := range c.Lens {
		o[i] = n
		n += l
	}
	return o
}
func (c *BwCfg) nE() int {
	k := 0
	for _, s := range c.StateMap {
		if s+1 > k {
			k = s + 1
		}
	}
	return k
}

type bwData struct {
	cfg   *BwCfg
	offs  []int
	only  int
	yield bool
}
type bwRecord struct {
	d   *bwData
	rec int
}

func (r bwRecord) MapIndex(k int) int { return r.d.offs[r.rec] + k }
func (r bwRecord) GetN() int          { return r.d.cfg.Lens[r.rec] }
func (r bwRecord) LogPdf(s ad.Scalar, c, k int) error {
	maybeYield(r.d.yield, c, k+r.rec)
	if r.rec == r.d.cfg.FailRec && k == r.d.cfg.FailPos {
		return fmt.Errorf("c17: injected failure at record %d position %d", r.rec, k)
	}
	s.SetFloat64(r.d.cfg.Lp[c][r.MapIndex(k)])
	return nil
}
func (d *bwData) GetRecord(i int) generic.HmmDataRecord {
	if d.only >= 0 {
		return bwRecord{d, d.only}
	}
	return bwRecord{d, i}
}
func (d *bwData) GetNMapped() int { return len(d.cfg.Lp[0]) }
func (d *bwData) GetNRecords() int {
	if d.only >= 0 {
		return 1
	}
	return len(d.cfg.Lens)
}
func (d *bwData) GetN() int { return len(d.cfg.Lp[0]) }

type bwCore struct {
	h1, h2 *generic.Hmm
	data   *bwData
	cfg    *BwCfg
	lik    float64
	err    error
	gamma  [][]float64
	snaps  []generic.VerifC17ThreadSnap
}

func (c *bwCore) EvaluateLogPdf(p tp.ThreadPool) error { return nil }
func (c *bwCore) GetBasicHmm() generic.BasicHmm       { return nil }
func (c *bwCore) Swap()                                {}
func (c *bwCore) Step(meta ad.ConstVector, tmp []generic.BaumWelchTmp, p tp.ThreadPool) (float64, error) {
	generic.VerifC17BaumWelchStale(tmp, c.cfg.Stale, c.cfg.StaleFlag)
	lik, err := c.h1.BaumWelchStep(c.h1, c.h2, c.data, meta, tmp, p)
	c.lik, c.err = lik, err
	c.snaps = generic.VerifC17BaumWelchSnap(tmp)
	return lik, err
}
func (c *bwCore) Emissions(gamma []ad.DenseFloat64Vector, p tp.ThreadPool) error {
	c.gamma = make([][]float64, len(gamma))
	for i := range gamma {
		c.gamma[i] = append([]float64{}, []float64(gamma[i])...)
	}
	return nil
}

type BwOut struct {
	Err   bool        `json:"err"`
	Lik   float64     `json:"lik"`
	Gamma [][]float64 `json:"gamma"`
	Pi    []float64   `json:"pi"`
	Tr    [][]float64 `json:"tr"`
	// thread 0 accumulators of a sequential run (= the contribution of a single record)
	Pi0  []float64   `json:"pi0"`
	Tr0  [][]float64 `json:"tr0"`
	Used []bool      `json:"used"`
}

func newHmm(cfg *BwCfg) *generic.Hmm {
	m := len(cfg.Pi)
	pi, err := generic.NewHmmProbabilityVector(ad.NewDenseFloat64Vector(append([]float64{}, cfg.Pi...)), false)
	if err != nil {
		panic(err)
	}
	flat := make([]float64, 0, m*m)
	for i := 0; i < m; i++ {
		flat = append(flat, cfg.Tr[i]...)
	}
	tr, err := generic.NewHmmTransitionMatrix(ad.NewDenseFloat64Matrix(flat, m, m), false)
	if err != nil {
		panic(err)
	}
	h, err := generic.NewHmm(pi, tr, cfg.StateMap)
	if err != nil {
		panic(err)
	}
	return h
}

func runBW(cfg *BwCfg, only int, pc PoolCfg) (out BwOut, panicked string) {
	defer func() {
		if r := recover(); r != nil {
			panicked = fmt.Sprint(r)
		}
	}()
	m := len(cfg.Pi)
	h := newHmm(cfg)
	core := &bwCore{h1: h.Clone(), h2: h.Clone(), cfg: cfg}
	core.data = &bwData{cfg: cfg, offs: cfg.offsets(), only: only, yield: pc.Yield}
	nData := 0
	for _, l := range cfg.Lens {
		if l > nData {
			nData = l
		}
	}
	pool := newPool(pc)
	defer pool.Stop()
	var aerr error
	inPool(pool, pc.Nested, func(p tp.ThreadPool) {
		aerr = generic.BaumWelchAlgorithm(core, nil, core.data.GetNRecords(), nData, core.data.GetNMapped(), m, cfg.nE(), 0.0, 1, p,
			generic.BaumWelchOptimizeEmissions{Value: !cfg.NoEmis}, generic.BaumWelchOptimizeTransitions{Value: !cfg.NoTrans})
	})
	out.Err = aerr != nil
	out.Lik = core.lik
	out.Gamma = core.gamma
	out.Pi = make([]float64, m)
	out.Tr = make([][]float64, m)
	for i := 0; i < m; i++ {
		out.Pi[i] = core.h1.Pi.ConstAt(i).GetFloat64()
		out.Tr[i] = make([]float64, m)
		for j := 0; j < m; j++ {
			out.Tr[i][j] = core.h1.Tr.ConstAt(i, j).GetFloat64()
		}
	}
	if len(core.snaps) > 0 {
		out.Pi0 = core.snaps[0].Pi
		out.Tr0 = core.snaps[0].Tr
	}
	for t := range core.snaps {
		s := core.snaps[t]
		out.Used = append(out.Used, len(s.Pi) > 0 && s.Pi[0] != cfg.Stale)
	}
	return
}

// ---------------------------------------------------------------- scalar NormalEstimator.Estimate

type NormalCfg struct {
	X        []float64 `json:"x"`
	W        []int     `json:"w"` // nil, or 0/1 weights (passed as log-weights -Inf / 0)
	SigmaMin float64   `json:"sigma_min"`
}
type NormalOut struct {
	Err   bool    `json:"err"`
	Mu    float64 `json:"mu"`
	Sigma float64 `json:"sigma"`
}

func runNormal(cfg *NormalCfg, pc PoolCfg) (out NormalOut, panicked string) {
	defer func() {
		if r := recover(); r != nil {
			panicked = fmt.Sprint(r)
		}
	}()
	est, err := scalarEstimator.NewNormalEstimator(0.0, 1.0, cfg.SigmaMin)
	if err != nil {
		panic(err)
	}
	x := ad.NewDenseFloat64Vector(append([]float64{}, cfg.X...))
	var gamma ad.ConstVector
	if cfg.W != nil {
		g := make([]float64, len(cfg.W))
		for i, w := range cfg.W {
			if w == 0 {
				g[i] = math.Inf(-1)
			}
		}
		gamma = ad.NewDenseFloat64Vector(g)
	}
	pool := newPool(pc)
	defer pool.Stop()
	var aerr error
	inPool(pool, pc.Nested, func(p tp.ThreadPool) {
		aerr = est.EstimateOnData(x, gamma, p)
	})
	out.Err = aerr != nil
	par := est.GetParameters()
	out.Mu = par.ConstAt(0).GetFloat64()
	out.Sigma = par.ConstAt(1).GetFloat64()
	return
}

// ---------------------------------------------------------------- cross-pool stream: other estimators through the public API

type XCfg struct {
	Kind string    `json:"kind"`
	X    []float64 `json:"x"`
	G    []float64 `json:"g"`
}

func runX(cfg *XCfg, pc PoolCfg) (par []float64, errd bool, panicked string) {
	defer func() {
		if r := recover(); r != nil {
			panicked = fmt.Sprint(r)
		}
	}()
	pool := newPool(pc)
	defer pool.Stop()
	x := ad.NewDenseFloat64Vector(append([]float64{}, cfg.X...))
	var gamma ad.ConstVector
	if cfg.G != nil {
		gamma = ad.NewDenseFloat64Vector(append([]float64{}, cfg.G...))
	}
	var aerr error
	var p ad.Vector
	switch cfg.Kind {
	case "exponential":
		est, err := scalarEstimator.NewExponentialEstimator(1.0, 1e10)
		if err != nil {
			panic(err)
		}
		inPool(pool, pc.Nested, func(q tp.ThreadPool) { aerr = est.EstimateOnData(x, gamma, q) })
		p = est.GetParameters()
	case "poisson":
		est, err := scalarEstimator.NewPoissonEstimator(1.0)
		if err != nil {
			panic(err)
		}
		inPool(pool, pc.Nested, func(q tp.ThreadPool) { aerr = est.EstimateOnData(x, gamma, q) })
		p = est.GetParameters()
	case "geometric":
		est, err := scalarEstimator.NewGeometricEstimator(0.5)
		if err != nil {
			panic(err)
		}
		inPool(pool, pc.Nested, func(q tp.ThreadPool) { aerr = est.EstimateOnData(x, gamma, q) })
		p = est.GetParameters()
	case "categorical":
		est, err := scalarEstimator.NewCategoricalEstimator([]float64{0.25, 0.25, 0.25, 0.25})
		if err != nil {
			panic(err)
		}
		inPool(pool, pc.Nested, func(q tp.ThreadPool) { aerr = est.EstimateOnData(x, gamma, q) })
		p = est.GetParameters()
	case "negbin":
		est, err := scalarEstimator.NewNegativeBinomialEstimator(3.0, 0.5)
		if err != nil {
			panic(err)
		}
		inPool(pool, pc.Nested, func(q tp.ThreadPool) { aerr = est.EstimateOnData(x, gamma, q) })
		p = est.GetParameters()
	case "vnormal":
		est, err := vectorEstimator.NewNormalEstimator([]float64{0, 0}, []float64{1, 0, 0, 1}, 1e-8)
		if err != nil {
			panic(err)
		}
		xs := make([]ad.ConstVector, 0, len(cfg.X)/2)
		for i := 0; i+1 < len(cfg.X); i += 2 {
			xs = append(xs, ad.NewDenseFloat64Vector([]float64{cfg.X[i], cfg.X[i+1]}))
		}
		var g2 ad.ConstVector
		if cfg.G != nil {
			g2 = ad.NewDenseFloat64Vector(append([]float64{}, cfg.G[:len(xs)]...))
		}
		inPool(pool, pc.Nested, func(q tp.ThreadPool) { aerr = est.EstimateOnData(xs, g2, q) })
		p = est.GetParameters()
	case "iid-normal":
		sc, err := scalarEstimator.NewNormalEstimator(0.0, 1.0, 1e-8)
		if err != nil {
			panic(err)
		}
		est, err := vectorEstimator.NewScalarIid(sc, -1)
		if err != nil {
			panic(err)
		}
		half := len(cfg.X) / 2
		xs := []ad.ConstVector{ad.NewDenseFloat64Vector(append([]float64{}, cfg.X[:half]...)),
			ad.NewDenseFloat64Vector(append([]float64{}, cfg.X[half:]...))}
		inPool(pool, pc.Nested, func(q tp.ThreadPool) { aerr = est.EstimateOnData(xs, gamma, q) })
		p = est.GetParameters()
	default:
		panic("unknown kind " + cfg.Kind)
	}
	errd = aerr != nil
	if p != nil {
		for i := 0; i < p.Dim(); i++ {
			par = append(par, p.ConstAt(i).GetFloat64())
		}
	}
	return
}

// ---------------------------------------------------------------- AddRangeJob chunk probe

// Observe the chunks the real threadpool.AddRangeJob queues for [from,to) on a pool of k
// threads: a job body that fails at index s stops its own chunk only, so the first index
// above s that is still visited starts the next chunk.
func probeChunks(k, from, to int) (chs [][2]int, panicked string) {
	defer func() {
		if r := recover(); r != nil {
			panicked = fmt.Sprint(r)
		}
	}()
	if k < 2 {
		// the nil pool runs chunks in place and AddRangeJob returns at the first error
		k = 2
	}
	start := from
	for start < to {
		pool := tp.New(k, 1000)
		visited := make([]int32, to-from)
		g := pool.NewJobGroup()
		s := start
		pool.AddRangeJob(from, to, g, func(i int, p tp.ThreadPool, erf func() error) error {
			visited[i-from] = 1 // one writer per cell
			if i == s {
				return fmt.Errorf("probe")
			}
			return nil
		})
		pool.Wait(g)
		pool.Stop()
		e := start + 1
		for e < to && visited[e-from] == 0 {
			e++
		}
		chs = append(chs, [2]int{start, e})
		start = e
	}
	return
}

func isNegInf(x float64) bool { return math.IsInf(x, -1) }
