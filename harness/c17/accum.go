// C17 harness, round 6: the BATCH interface of the estimators (Initialize / NewObservation / GetEstimate) driven on a
// real pool with the schedule OBSERVED: every job appends its observation index to the log of its own thread
// (p.GetThreadId()), so the Coq side (CorrAccum.v) replays exactly the reduction order the run had - bit for bit for
// the scalar and vector NormalEstimator - and checks that the log is a schedule (every observation once, ids in range).
// Mode "spread": k chunk jobs that wait for each other at a barrier, so every thread of the pool (thread 0 included)
// holds exactly one partial sum: a fold that skips or repeats a thread is decided deterministically.
package main

import (
	"encoding/json"
	"fmt"
	"math"
	"strings"
	"sync"

	. "adharness/common"

	ad "github.com/pbenner/autodiff"
	"github.com/pbenner/autodiff/statistics/scalarEstimator"
	"github.com/pbenner/autodiff/statistics/vectorEstimator"
	tp "github.com/pbenner/threadpool"
)

const aheader = "From Coq Require Import ZArith List Bool QArith Floats.\nFrom ADV Require Import Base.Corr C17.Model C17.Corr C17.CorrAccum.\nImport ListNotations.\nOpen Scope Z_scope.\n"

type BatchCfg struct {
	Kind     string    `json:"kind"` // normal | vnormal | exponential | poisson | geometric | categorical | negbin
	X        []float64 `json:"x"`    // observations (vnormal: D consecutive entries per observation)
	D        int       `json:"d"`
	G        JFloats   `json:"g"` // log weights (nil: gamma == nil); JSON-safe: -Inf / +Inf / NaN as strings
	SigmaMin float64   `json:"sigma_min"`
	Spread   bool      `json:"spread"`
}

// a []float64 whose JSON form survives the non-finite values the generators use (round 7: a failing configuration
// with a -Inf log-weight made json.Marshal fail and the race / hunt summaries came out empty)
type JFloats []float64

func (f JFloats) MarshalJSON() ([]byte, error) {
	if f == nil {
		return []byte("null"), nil
	}
	parts := make([]string, len(f))
	for i, v := range f {
		switch {
		case math.IsInf(v, -1):
			parts[i] = `"-Inf"`
		case math.IsInf(v, 1):
			parts[i] = `"+Inf"`
		case math.IsNaN(v):
			parts[i] = `"NaN"`
		default:
			b, err := json.Marshal(v)
			if err != nil {
				return nil, err
			}
			parts[i] = string(b)
		}
	}
	return []byte("[" + strings.Join(parts, ",") + "]"), nil
}

func (f *JFloats) UnmarshalJSON(b []byte) error {
	if string(b) == "null" {
		*f = nil
		return nil
	}
	var raw []interface{}
	if err := json.Unmarshal(b, &raw); err != nil {
		return err
	}
	out := make(JFloats, len(raw))
	for i, v := range raw {
		switch t := v.(type) {
		case float64:
			out[i] = t
		case string:
			switch t {
			case "-Inf":
				out[i] = math.Inf(-1)
			case "+Inf":
				out[i] = math.Inf(1)
			default:
				out[i] = math.NaN()
			}
		}
	}
	*f = out
	return nil
}

func (c *BatchCfg) n() int {
	if c.Kind == "vnormal" {
		return len(c.X) / c.D
	}
	return len(c.X)
}

var batchKinds = []string{"normal", "vnormal", "exponential", "poisson", "geometric", "categorical", "negbin"}

func genBatch(r *Rng) *BatchCfg {
	c := &BatchCfg{Kind: batchKinds[r.Intn(len(batchKinds))], D: 2, SigmaMin: []float64{1e-8, 0.5}[r.Intn(2)]}
	if r.Intn(3) == 0 {
		c.Kind = []string{"normal", "vnormal"}[r.Intn(2)]
	}
	n := []int{1, 2, 3, 4, 5, 7, 8, 9, 13, 16, 24, 8, 12, 32}[r.Intn(14)]
	if c.Kind == "vnormal" {
		c.D = r.Range(1, 3)
		if n < c.D+2 {
			n = c.D + 2
		}
		n *= c.D
	}
	for i := 0; i < n; i++ {
		switch c.Kind {
		case "categorical":
			c.X = append(c.X, float64(r.Range(0, 3)))
		case "exponential":
			c.X = append(c.X, 0.25+8*r.Float())
		case "negbin":
			c.X = append(c.X, float64(r.Range(1, 9)))
		case "poisson", "geometric":
			c.X = append(c.X, float64(r.Range(0, 9)))
		default:
			// arbitrary binary64 values: no partial sum is exactly representable, the result depends on the reduction order
			c.X = append(c.X, (r.Float()-0.5)*16)
		}
	}
	if r.Intn(2) == 0 {
		for i := 0; i < c.n(); i++ {
			c.G = append(c.G, -3*r.Float())
		}
		if r.Intn(3) == 0 {
			c.G[r.Intn(len(c.G))] = math.Inf(-1)
		}
		c.G[r.Intn(len(c.G))] = 0
	}
	c.Spread = r.Intn(2) == 0
	return c
}

type batchEst struct {
	init func(p tp.ThreadPool) error
	obs  func(i int, p tp.ThreadPool) error
	get  func() ([]float64, error)
}

func params(v ad.Vector) []float64 {
	var out []float64
	for i := 0; i < v.Dim(); i++ {
		out = append(out, v.ConstAt(i).GetFloat64())
	}
	return out
}

func newBatchEst(c *BatchCfg) batchEst {
	gam := func(i int) ad.ConstScalar {
		if c.G == nil {
			return nil
		}
		return ad.ConstFloat64(c.G[i])
	}
	scalar := func(e interface {
		Initialize(p tp.ThreadPool) error
		NewObservation(x, gamma ad.ConstScalar, p tp.ThreadPool) error
		GetParameters() ad.Vector
	}, get func() error) batchEst {
		return batchEst{
			init: e.Initialize,
			obs:  func(i int, p tp.ThreadPool) error { return e.NewObservation(ad.ConstFloat64(c.X[i]), gam(i), p) },
			get: func() ([]float64, error) {
				if err := get(); err != nil {
					return nil, err
				}
				return params(e.GetParameters()), nil
			}}
	}
	must := func(err error) {
		if err != nil {
			panic(err)
		}
	}
	switch c.Kind {
	case "normal":
		e, err := scalarEstimator.NewNormalEstimator(0.0, 1.0, c.SigmaMin)
		must(err)
		return scalar(e, func() error { _, err := e.GetEstimate(); return err })
	case "exponential":
		e, err := scalarEstimator.NewExponentialEstimator(1.0, 1e10)
		must(err)
		return scalar(e, func() error { _, err := e.GetEstimate(); return err })
	case "poisson":
		e, err := scalarEstimator.NewPoissonEstimator(1.0)
		must(err)
		return scalar(e, func() error { _, err := e.GetEstimate(); return err })
	case "geometric":
		e, err := scalarEstimator.NewGeometricEstimator(0.5)
		must(err)
		return scalar(e, func() error { _, err := e.GetEstimate(); return err })
	case "categorical":
		e, err := scalarEstimator.NewCategoricalEstimator([]float64{0.25, 0.25, 0.25, 0.25})
		must(err)
		return scalar(e, func() error { _, err := e.GetEstimate(); return err })
	case "negbin":
		e, err := scalarEstimator.NewNegativeBinomialEstimator(3.0, 0.5)
		must(err)
		return scalar(e, func() error { _, err := e.GetEstimate(); return err })
	case "vnormal":
		mu := make([]float64, c.D)
		si := make([]float64, c.D*c.D)
		for i := 0; i < c.D; i++ {
			si[i*c.D+i] = 1
		}
		e, err := vectorEstimator.NewNormalEstimator(mu, si, c.SigmaMin)
		must(err)
		return batchEst{
			init: e.Initialize,
			obs: func(i int, p tp.ThreadPool) error {
				return e.NewObservation(ad.NewDenseFloat64Vector(append([]float64{}, c.X[i*c.D:(i+1)*c.D]...)), gam(i), p)
			},
			get: func() ([]float64, error) {
				if _, err := e.GetEstimate(); err != nil {
					return nil, err
				}
				return params(e.GetParameters()), nil
			}}
	}
	panic("unknown batch kind " + c.Kind)
}

type BatchOut struct {
	Par   []float64 `json:"par"`
	Err   bool      `json:"err"`
	Sched [][2]int  `json:"sched"` // (thread, observation), thread by thread in execution order
	K     int       `json:"k"`     // NumberOfThreads() of the handle the run saw
}

func runBatch(c *BatchCfg, pc PoolCfg) (out BatchOut, panicked string) {
	defer func() {
		if r := recover(); r != nil {
			panicked = fmt.Sprint(r)
		}
	}()
	est := newBatchEst(c)
	n := c.n()
	spread := c.Spread && pc.K >= 2 && n >= pc.K
	if spread {
		pc.Buf, pc.Nested = 100, 0 // all chunk jobs must be queued before anyone waits at the barrier
	}
	pool := newPool(pc)
	defer pool.Stop()
	var aerr error
	inPool(pool, pc.Nested, func(p tp.ThreadPool) {
		k := p.NumberOfThreads()
		out.K = k
		logs := make([][]int, k)
		if aerr = est.init(p); aerr != nil {
			return
		}
		g := p.NewJobGroup()
		job := func(i int, p tp.ThreadPool, erf func() error) error {
			id := p.GetThreadId()
			logs[id] = append(logs[id], i) // thread-owned
			return est.obs(i, p)
		}
		if spread {
			var barrier sync.WaitGroup
			barrier.Add(k)
			for t := 0; t < k && aerr == nil; t++ {
				lo, hi := t*n/k, (t+1)*n/k
				aerr = p.AddJob(g, func(p tp.ThreadPool, erf func() error) error {
					barrier.Done()
					barrier.Wait()
					for i := lo; i < hi; i++ {
						if err := job(i, p, erf); err != nil {
							return err
						}
					}
					return nil
				})
			}
		} else {
			aerr = p.AddRangeJob(0, n, g, job)
		}
		if err := p.Wait(g); err != nil && aerr == nil {
			aerr = err
		}
		for t := range logs {
			for _, i := range logs[t] {
				out.Sched = append(out.Sched, [2]int{t, i})
			}
		}
		if aerr == nil {
			out.Par, aerr = est.get()
		}
	})
	out.Err = aerr != nil
	return
}

func fflist(xs []float64) string {
	s := make([]string, len(xs))
	for i, x := range xs {
		s[i] = F(x)
	}
	return "[" + strings.Join(s, "; ") + "]"
}

func (g *gen) batchCases(cfg *BatchCfg) {
	n := cfg.n()
	ref, rpn := runBatch(cfg, PoolCfg{K: 1})
	// the weights NewObservation computes: math.Exp(gamma - gamma_max), gamma_max = 0 after Initialize
	var ws []float64
	for _, gm := range cfg.G {
		ws = append(ws, math.Exp(gm-0.0))
	}
	pcs := poolSet(g.rng, g.tier, n)
	if cfg.Kind == "vnormal" && cfg.D >= 2 {
		// round 7: the second-moment accumulators sum_s[id][i][j] (a symmetric quantity, every entry stored and merged) on
		// pools of 1, 2, 3, 4 and 7 threads for every vector case of dimension >= 2
		have := map[int]bool{}
		for _, pc := range pcs {
			have[pc.K] = true
		}
		for _, k := range []int{3, 4, 7} {
			if !have[k] {
				pcs = append(pcs, PoolCfg{K: k, Buf: []int{1, 2, 100}[k%3], Nested: 0, Yield: k%2 == 1})
				g.aw.Count("batch:vnormal-extra-pool")
			}
		}
	}
	for _, pc := range pcs {
		o, pn := runBatch(cfg, pc)
		raw := RawCase{Site: "batch", Pool: pc, Batch: cfg, Out: fmt.Sprintf("par=%v err=%v ref=%v referr=%v sched=%v", o.Par, o.Err, ref.Par, ref.Err, o.Sched), Panic: pn + rpn}
		var checks []string
		switch {
		case pn != "" || rpn != "" || o.Err != ref.Err || len(o.Par) != len(ref.Par):
			checks = []string{"ANear (1#1) (0#1) (0#1)"}
		case o.Err:
			// both runs failed alike (e.g. a singular covariance matrix): only the schedule is checked
		case cfg.Kind == "normal":
			checks = []string{fmt.Sprintf("ANormal %s %s %s %s %s", fflist(cfg.X), fflist(ws), F(cfg.SigmaMin), F(o.Par[0]), F(o.Par[1]))}
		case cfg.Kind == "vnormal":
			rows := make([]string, n)
			for i := 0; i < n; i++ {
				rows[i] = fflist(cfg.X[i*cfg.D : (i+1)*cfg.D])
			}
			checks = []string{fmt.Sprintf("AVNormal %d [%s] %s %s %s", cfg.D, strings.Join(rows, "; "), fflist(ws), F(cfg.SigmaMin), fflist(o.Par))}
		default:
			for i := range o.Par {
				tol := math.Max(1, math.Max(math.Abs(o.Par[i]), math.Abs(ref.Par[i]))) * 1e-9
				if math.IsNaN(tol) || math.IsInf(tol, 0) {
					tol = 0
				}
				checks = append(checks, fmt.Sprintf("ANear %s %s %s", qq(o.Par[i]), qq(ref.Par[i]), Q(tol)))
			}
		}
		used := map[int]bool{}
		for _, e := range o.Sched {
			used[e[0]] = true
		}
		g.aw.Add(fmt.Sprintf("mkACase %d %d %s\n    [%s]", o.K, n, schStr(o.Sched)+"%nat", strings.Join(checks, ";\n     ")), raw,
			fmt.Sprintf("batch/%s/n%d/k%d/g%v/s%v", cfg.Kind, n, pc.K, cfg.G != nil, cfg.Spread), pc.K >= 2 && len(used) >= 2)
		g.aw.Count("batch:" + cfg.Kind)
		g.aw.Count("batch:" + rel(pc.K, n))
		if cfg.G != nil {
			g.aw.Count("batch:weighted")
		}
		if pc.K >= 2 {
			if len(used) == pc.K {
				g.aw.Count("batch:every-thread-holds-a-partial-sum")
			}
			if !used[0] {
				g.aw.Count("batch:thread0-never-used")
			}
		}
	}
}
