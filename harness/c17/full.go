// C17 harness, part 5 (round 2): whole estimators through the public API over their option
// matrix (OptimizeEmissions / OptimizeTransitions / OptimizeWeights on and off), including the
// matrixEstimator sites, the SAGA logistic regression and the NumericEstimator.
package main

import (
	"fmt"
	"math"
	"math/rand"
	"sort"
	"strings"

	. "adharness/common"

	ad "github.com/pbenner/autodiff"
	"github.com/pbenner/autodiff/statistics"
	"github.com/pbenner/autodiff/statistics/matrixEstimator"
	"github.com/pbenner/autodiff/statistics/scalarDistribution"
	"github.com/pbenner/autodiff/statistics/scalarEstimator"
	"github.com/pbenner/autodiff/statistics/vectorEstimator"
	tp "github.com/pbenner/threadpool"
)

// ---------------------------------------------------------------- full estimators

type FullCfg struct {
	Kind   string      `json:"kind"` // hmm | mixture | hmm-poisson | mixture-poisson | vmixture | mhmm | mmixture | shapehmm
	Seqs   [][]float64 `json:"seqs"`
	Steps  int         `json:"steps"`
	NoEmis bool        `json:"no_emissions,omitempty"` // OptimizeEmissions = false
	NoF    bool        `json:"no_f,omitempty"`         // OptimizeTransitions = false (hmm kinds) / OptimizeWeights = false (mixture kinds)
}

var fullKinds = []string{"hmm", "mixture", "hmm-poisson", "mixture-poisson", "vmixture", "mhmm", "mmixture", "shapehmm",
	// round 3: composite models (emissions / components with scratch state of their own), see composite.go
	// ("mhmm-vmix", an HMM over vector mixtures, is implemented there but NOT driven: vectorDistribution.Mixture.SetParameters
	// calls itself unconditionally - fatal stack overflow in every run, sequential or not: F-VMIX-SETPARAMS-RECURSION)
	"hmm-smix", "mix-smix", "hmm-logt", "hmm-transl"}

func isHmmKind(k string) bool { return strings.Contains(k, "hmm") }

// set by main(): whether BaumWelchOptimizeTransitions{false} panics on this tree (known finding);
// a panic on a worker goroutine cannot be recovered, so the configuration is then not driven
var noTransUnsafe = true

func genFull(r *Rng) *FullCfg {
	c := &FullCfg{Kind: fullKinds[r.Intn(len(fullKinds))], Steps: r.Range(1, 3)}
	c.NoEmis = r.Intn(3) == 0
	c.NoF = r.Intn(3) == 0
	if isHmmKind(c.Kind) && noTransUnsafe {
		c.NoF = false
	}
	if isCompositeFull(c.Kind) {
		genCompositeFull(r, c)
		return c
	}
	ns := []int{1, 2, 3, 5, 9}[r.Intn(5)]
	poisson := strings.HasSuffix(c.Kind, "-poisson")
	single := c.Kind == "mixture" || c.Kind == "mixture-poisson"
	if single {
		ns = 1
	}
	if c.Kind == "vmixture" || c.Kind == "mmixture" {
		ns = []int{3, 4, 6, 9, 12}[r.Intn(5)]
	}
	for s := 0; s < ns; s++ {
		l := r.Range(2, 7)
		if single {
			l = []int{3, 5, 8, 12, 17}[r.Intn(5)]
		}
		switch c.Kind {
		case "vmixture":
			l = 2
		case "mmixture":
			l = 4
		case "mhmm":
			l = 2 * r.Range(2, 5)
		case "shapehmm":
			l = r.Range(4, 9)
		}
		seq := make([]float64, l)
		for i := range seq {
			base := -2.0
			if r.Bool() {
				base = 3.0
			}
			seq[i] = base + dy(r, -1, 1, 4)
			if poisson {
				seq[i] = float64(r.Range(0, 3))
				if r.Bool() {
					seq[i] = float64(r.Range(5, 12))
				}
			}
			if c.Kind == "shapehmm" {
				seq[i] = float64(r.Intn(2))
			}
		}
		c.Seqs = append(c.Seqs, seq)
	}
	return c
}

func scalarPair(poisson bool) (statistics.ScalarEstimator, statistics.ScalarEstimator) {
	if poisson {
		p1, _ := scalarEstimator.NewPoissonEstimator(1.5)
		p2, _ := scalarEstimator.NewPoissonEstimator(7.0)
		return p1, p2
	}
	e1, _ := scalarEstimator.NewNormalEstimator(-1.0, 2.0, 1e-4)
	e2, _ := scalarEstimator.NewNormalEstimator(2.0, 2.0, 1e-4)
	return e1, e2
}

func must(err error) {
	if err != nil {
		panic(err)
	}
}

func runFull(cfg *FullCfg, pc PoolCfg) (par []float64, errd bool, panicked string) {
	defer func() {
		if r := recover(); r != nil {
			panicked = fmt.Sprint(r)
		}
	}()
	if isHmmKind(cfg.Kind) && cfg.NoF && noTransUnsafe && pc.K > 1 {
		return nil, false, "not driven: OptimizeTransitions=false panics on worker goroutines (known finding)"
	}
	pool := newPool(pc)
	defer pool.Stop()
	var p ad.Vector
	var aerr error
	poisson := strings.HasSuffix(cfg.Kind, "-poisson")
	s1, s2 := scalarPair(poisson)
	pi := ad.NewDenseFloat64Vector([]float64{0.6, 0.4})
	tr := ad.NewDenseFloat64Matrix([]float64{0.7, 0.3, 0.4, 0.6}, 2, 2)
	kind := strings.TrimSuffix(cfg.Kind, "-poisson")
	switch kind {
	case "hmm":
		est, err := vectorEstimator.NewHmmEstimator(pi, tr, nil, nil, nil, []statistics.ScalarEstimator{s1, s2}, 0.0, cfg.Steps)
		must(err)
		est.OptimizeEmissions, est.OptimizeTransitions = !cfg.NoEmis, !cfg.NoF
		xs := make([]ad.ConstVector, len(cfg.Seqs))
		for i, s := range cfg.Seqs {
			xs[i] = ad.NewDenseFloat64Vector(append([]float64{}, s...))
		}
		inPool(pool, pc.Nested, func(q tp.ThreadPool) { aerr = est.EstimateOnData(xs, nil, q) })
		p = est.GetParameters()
	case "mixture":
		est, err := scalarEstimator.NewMixtureEstimator([]float64{0.5, 0.5}, []statistics.ScalarEstimator{s1, s2}, 0.0, cfg.Steps)
		must(err)
		est.OptimizeEmissions, est.OptimizeWeights = !cfg.NoEmis, !cfg.NoF
		x := ad.NewDenseFloat64Vector(append([]float64{}, cfg.Seqs[0]...))
		inPool(pool, pc.Nested, func(q tp.ThreadPool) { aerr = est.EstimateOnData(x, nil, q) })
		p = est.GetParameters()
	case "vmixture":
		a1, _ := scalarEstimator.NewNormalEstimator(-2.0, 2.0, 1e-4)
		a2, _ := scalarEstimator.NewNormalEstimator(3.0, 2.0, 1e-4)
		v1, err := vectorEstimator.NewScalarId(a1, a2)
		must(err)
		v2, err := vectorEstimator.NewScalarId(a2, a1)
		must(err)
		est, err := vectorEstimator.NewMixtureEstimator([]float64{0.5, 0.5}, []statistics.VectorEstimator{v1, v2}, 0.0, cfg.Steps)
		must(err)
		est.OptimizeEmissions, est.OptimizeWeights = !cfg.NoEmis, !cfg.NoF
		xs := make([]ad.ConstVector, len(cfg.Seqs))
		for i, s := range cfg.Seqs {
			xs[i] = ad.NewDenseFloat64Vector(append([]float64{}, s...))
		}
		inPool(pool, pc.Nested, func(q tp.ThreadPool) { aerr = est.EstimateOnData(xs, nil, q) })
		p = est.GetParameters()
	case "mhmm":
		a1, _ := scalarEstimator.NewNormalEstimator(-2.0, 2.0, 1e-4)
		a2, _ := scalarEstimator.NewNormalEstimator(3.0, 2.0, 1e-4)
		v1, err := vectorEstimator.NewScalarId(a1, a2)
		must(err)
		v2, err := vectorEstimator.NewScalarId(a2, a1)
		must(err)
		est, err := matrixEstimator.NewHmmEstimator(pi, tr, nil, nil, nil, []statistics.VectorEstimator{v1, v2}, 0.0, cfg.Steps)
		must(err)
		est.OptimizeEmissions, est.OptimizeTransitions = !cfg.NoEmis, !cfg.NoF
		xs := make([]ad.ConstMatrix, len(cfg.Seqs))
		for i, s := range cfg.Seqs {
			xs[i] = ad.NewDenseFloat64Matrix(append([]float64{}, s...), len(s)/2, 2)
		}
		inPool(pool, pc.Nested, func(q tp.ThreadPool) { aerr = est.EstimateOnData(xs, nil, q) })
		p = est.GetParameters()
	case "mmixture":
		a1, _ := scalarEstimator.NewNormalEstimator(-2.0, 2.0, 1e-4)
		a2, _ := scalarEstimator.NewNormalEstimator(3.0, 2.0, 1e-4)
		v1, err := vectorEstimator.NewScalarId(a1, a2)
		must(err)
		v2, err := vectorEstimator.NewScalarId(a2, a1)
		must(err)
		m1, err := matrixEstimator.NewVectorId(v1, v2)
		must(err)
		m2, err := matrixEstimator.NewVectorId(v2, v1)
		must(err)
		est, err := matrixEstimator.NewMixtureEstimator([]float64{0.5, 0.5}, []statistics.MatrixEstimator{m1, m2}, 0.0, cfg.Steps)
		must(err)
		est.OptimizeEmissions, est.OptimizeWeights = !cfg.NoEmis, !cfg.NoF
		xs := make([]ad.ConstMatrix, len(cfg.Seqs))
		for i, s := range cfg.Seqs {
			xs[i] = ad.NewDenseFloat64Matrix(append([]float64{}, s...), 2, 2)
		}
		inPool(pool, pc.Nested, func(q tp.ThreadPool) { aerr = est.EstimateOnData(xs, nil, q) })
		p = est.GetParameters()
	case "shapehmm":
		c1, _ := scalarEstimator.NewCategoricalEstimator([]float64{0.2, 0.8})
		c2, _ := scalarEstimator.NewCategoricalEstimator([]float64{0.7, 0.3})
		d1, err := vectorEstimator.NewScalarBatchId(c1)
		must(err)
		d2, err := vectorEstimator.NewScalarBatchId(c2)
		must(err)
		e1, err := matrixEstimator.NewVectorBatchId(d1, d1)
		must(err)
		e2, err := matrixEstimator.NewVectorBatchId(d2, d2)
		must(err)
		est, err := matrixEstimator.NewShapeHmmEstimator(pi, tr, nil, []statistics.MatrixBatchEstimator{e1, e2}, 0.0, cfg.Steps)
		must(err)
		xs := make([]ad.ConstMatrix, len(cfg.Seqs))
		for i, s := range cfg.Seqs {
			xs[i] = ad.NewDenseFloat64Matrix(append([]float64{}, s...), len(s), 1)
		}
		inPool(pool, pc.Nested, func(q tp.ThreadPool) { aerr = est.EstimateOnData(xs, nil, q) })
		p = est.GetParameters()
	default:
		p, aerr = runCompositeFull(cfg, pc, pool)
	}
	errd = aerr != nil
	if p != nil {
		for i := 0; i < p.Dim(); i++ {
			par = append(par, p.ConstAt(i).GetFloat64())
		}
	}
	return
}

func (g *gen) crossCases(site, key string, raw func(pc PoolCfg, out, pn string) RawCase, run func(pc PoolCfg) ([]float64, bool, string), njobs int, rtol float64) {
	ref, rerr, rpn := run(PoolCfg{K: 1})
	for _, pc := range poolSet(g.rng, g.tier, njobs) {
		if pc.K == 1 {
			continue
		}
		par, errd, pn := run(pc)
		var checks []string
		if pn != "" || rpn != "" || errd != rerr || len(par) != len(ref) {
			checks = []string{failQ}
		} else {
			for i := range par {
				tol := math.Max(1, math.Max(math.Abs(par[i]), math.Abs(ref[i]))) * rtol
				if math.IsNaN(tol) || math.IsInf(tol, 0) {
					tol = 0
				}
				checks = append(checks, fmt.Sprintf("KNear %s %s %s", qq(par[i]), qq(ref[i]), Q(tol)))
			}
		}
		g.w.Add(caseStr(false, pc.K, 0, true, 0, nil, checks), raw(pc, fmt.Sprintf("par=%v ref=%v err=%v referr=%v", par, ref, errd, rerr), pn+rpn),
			fmt.Sprintf("%s/k%d", key, pc.K), true)
		g.w.Count(site)
	}
}

func (g *gen) fullCases(cfg *FullCfg) {
	opt := "default"
	if cfg.NoEmis || cfg.NoF {
		opt = fmt.Sprintf("noemis=%v,noF=%v", cfg.NoEmis, cfg.NoF)
	}
	g.crossCases("full:"+cfg.Kind+":"+opt, fmt.Sprintf("full/%s/%s/n%d", cfg.Kind, opt, len(cfg.Seqs)),
		func(pc PoolCfg, out, pn string) RawCase { return RawCase{Site: "full", Pool: pc, Full: cfg, Out: out, Panic: pn} },
		func(pc PoolCfg) ([]float64, bool, string) { return runFull(cfg, pc) }, len(cfg.Seqs), 1e-9)
}

// ---------------------------------------------------------------- SAGA (vectorEstimator.LogisticRegression, sparse, L1)

type SagaCfg struct {
	X      [][]float64 `json:"x"` // rows (1, x1..xd, label)
	L1     float64     `json:"l1"`
	Epochs int         `json:"epochs"`
	Seed   int64       `json:"seed"`
}
type SagaOut struct {
	Err   bool      `json:"err"`
	Theta []float64 `json:"theta"`
	Parts [][2]int  `json:"parts"`
}

func genSaga(r *Rng) *SagaCfg {
	n := []int{1, 2, 3, 4, 5, 7, 8, 9, 13, 16}[r.Intn(10)]
	d := r.Range(1, 3)
	c := &SagaCfg{L1: []float64{0, 0.5, 2}[r.Intn(3)], Epochs: r.Range(1, 4), Seed: int64(r.Range(1, 1000))}
	for i := 0; i < n; i++ {
		row := []float64{1}
		for j := 0; j < d; j++ {
			v := dy(r, -2, 2, 2)
			if r.Intn(4) == 0 {
				v = 0
			}
			row = append(row, v)
		}
		row = append(row, float64(r.Intn(2)))
		c.X = append(c.X, row)
	}
	return c
}

// sequential = the same partition (worker slices of a pool of pc.K threads) executed on the nil pool
func runSaga(cfg *SagaCfg, pc PoolCfg, sequential bool) (out SagaOut, panicked string) {
	defer func() {
		if r := recover(); r != nil {
			panicked = fmt.Sprint(r)
		}
	}()
	d := len(cfg.X[0]) - 1
	est, err := vectorEstimator.NewLogisticRegression(d, true)
	must(err)
	est.L1Reg = cfg.L1
	est.MaxIterations = cfg.Epochs
	est.Epsilon = 0
	est.Seed = cfg.Seed
	xs := make([]ad.ConstVector, len(cfg.X))
	for i, row := range cfg.X {
		xs[i] = ad.AsSparseConstFloat64Vector(ad.NewDenseFloat64Vector(append([]float64{}, row...)))
	}
	must(est.SetData(xs, len(xs)))
	pool := newPool(pc)
	defer pool.Stop()
	var aerr error
	if sequential {
		aerr = vectorEstimator.VerifC17SagaSequential(est, pool)
	} else {
		inPool(pool, pc.Nested, func(q tp.ThreadPool) { aerr = est.Estimate(nil, q) })
	}
	out.Err = aerr != nil
	p := est.GetParameters()
	for i := 0; i < p.Dim(); i++ {
		out.Theta = append(out.Theta, p.ConstAt(i).GetFloat64())
	}
	out.Parts = vectorEstimator.VerifC17SagaPartition(est)
	return
}

func bitsEqual(a, b []float64) bool {
	if len(a) != len(b) {
		return false
	}
	for i := range a {
		if math.Float64bits(a[i]) != math.Float64bits(b[i]) {
			return false
		}
	}
	return true
}

func (g *gen) sagaCases(cfg *SagaCfg) {
	n := len(cfg.X)
	// round 7: every pool size 1..8 (the runs are tiny), so that n mod min(k, n) != 0 occurs for every n >= 3
	pcs := poolSet(g.rng, g.tier, n)
	have := map[int]bool{}
	for _, pc := range pcs {
		have[pc.K] = true
	}
	for k := 1; k <= 8; k++ {
		if !have[k] {
			pcs = append(pcs, PoolCfg{K: k, Buf: []int{1, 2, 100}[k%3], Nested: 0, Yield: k%2 == 0})
		}
	}
	for _, pc := range pcs {
		seq, spn := runSaga(cfg, pc, true)
		var par SagaOut
		var pn string
		same := false
		// known finding F-SAGA-THETA-RACE: the workers share obj.Theta inside f_sparse, so a parallel run can
		// (rarely) differ from the sequential execution of the same partition; a deterministic difference
		// survives the retries
		for try := 0; try < 6 && !same; try++ {
			par, pn = runSaga(cfg, pc, false)
			same = pn == "" && spn == "" && par.Err == seq.Err && bitsEqual(par.Theta, seq.Theta) && fmt.Sprint(par.Parts) == fmt.Sprint(seq.Parts)
			if !same {
				g.sw.Count("saga:differs-from-sequential(retry)")
			}
		}
		ps := make([]string, len(par.Parts))
		for i, p := range par.Parts {
			ps[i] = fmt.Sprintf("(%d,%d)", p[0], p[1])
		}
		// round 7: which samples every epoch evaluates (hook VerifC17SagaTrace), on the nil pool and on the real pool,
		// against the list drawn (recomputed here from the seed)
		seqLog, spn2 := runSagaTrace(cfg, pc, true)
		parLog, ppn2 := runSagaTrace(cfg, pc, false)
		ne := len(seqLog)
		if len(parLog) != ne || spn2 != "" || ppn2 != "" {
			g.sw.Count("saga:trace-epochs-differ-or-panic")
			if len(parLog) > ne {
				ne = len(parLog)
			}
		}
		drawn := sagaDrawn(cfg, ne)
		eps := make([]string, ne)
		for e := 0; e < ne; e++ {
			var sl, pl []int
			if e < len(seqLog) {
				sl = seqLog[e]
			}
			if e < len(parLog) {
				pl = parLog[e]
			}
			eps[e] = fmt.Sprintf("(%s, %s, %s)", zlist(drawn[e]), zlist(sl), zlist(pl))
			if n%minInt(pc.K, n) != 0 {
				g.sw.Count("saga:epoch-with-remainder")
			} else {
				g.sw.Count("saga:epoch-divisible")
			}
		}
		if msg := sagaEvalOracle(cfg, pc); msg != "" {
			g.sw.Count("saga:evaluated-multiset-differs-from-drawn")
		}
		g.sw.Add(fmt.Sprintf("mkSaga %d %d [%s] %s [%s]", pc.K, n, strings.Join(ps, "; "), B(same), strings.Join(eps, "; ")),
			RawCase{Site: "saga", Pool: pc, Saga: cfg, Out: fmt.Sprintf("par=%+v seq=%+v", par, seq), Panic: pn + spn},
			fmt.Sprintf("saga/n%d/k%d", n, pc.K), pc.K >= 2)
		g.sw.Count("saga:" + rel(pc.K, n))
	}
}

// ---------------------------------------------------------------- scalarEstimator.NumericEstimator

type NumericCfg struct {
	X []float64 `json:"x"`
	W []int     `json:"w"` // nil or 0/1 weights
}
type NumericOut struct {
	Err   bool      `json:"err"`
	Par   []float64 `json:"par"`
	First float64   `json:"first"` // objective value of the first evaluation (merged over the threads)
	Evals int       `json:"evals"`
}

func genNumeric(r *Rng) *NumericCfg {
	n := []int{1, 2, 3, 5, 8, 9, 12}[r.Intn(7)]
	c := &NumericCfg{}
	for i := 0; i < n; i++ {
		c.X = append(c.X, dy(r, 0.25, 6, 3))
	}
	if r.Intn(3) == 0 {
		c.W = make([]int, n)
		for i := range c.W {
			if r.Intn(3) != 0 {
				c.W[i] = 1
			}
		}
		c.W[r.Intn(n)] = 1
	}
	return c
}

func runNumeric(cfg *NumericCfg, only int, pc PoolCfg) (out NumericOut, panicked string) {
	defer func() {
		if r := recover(); r != nil {
			panicked = fmt.Sprint(r)
		}
	}()
	dist, err := scalarDistribution.NewGammaDistribution(ad.NewReal64(2.0), ad.NewReal64(1.5))
	must(err)
	est, err := scalarEstimator.NewNumericEstimator(dist)
	must(err)
	est.MaxIterations = 3
	est.Hook = func(variables ad.ConstVector, r ad.ConstScalar) error {
		if out.Evals == 0 {
			out.First = r.GetFloat64()
		}
		out.Evals++
		return nil
	}
	xs, ws := cfg.X, cfg.W
	if only >= 0 {
		xs = []float64{cfg.X[only]}
		if ws != nil {
			ws = []int{cfg.W[only]}
		}
	}
	x := ad.NewDenseFloat64Vector(append([]float64{}, xs...))
	var gamma ad.ConstVector
	if ws != nil {
		gv := make([]float64, len(ws))
		for i, w := range ws {
			if w == 0 {
				gv[i] = math.Inf(-1)
			}
		}
		gamma = ad.NewDenseFloat64Vector(gv)
	}
	pool := newPool(pc)
	defer pool.Stop()
	var aerr error
	inPool(pool, pc.Nested, func(q tp.ThreadPool) { aerr = est.EstimateOnData(x, gamma, q) })
	out.Err = aerr != nil
	p := est.GetParameters()
	for i := 0; i < p.Dim(); i++ {
		out.Par = append(out.Par, p.ConstAt(i).GetFloat64())
	}
	return
}

func (g *gen) numericCases(cfg *NumericCfg) {
	n := len(cfg.X)
	// per-observation contribution to the first objective evaluation
	cs := make([]float64, n)
	for l := 0; l < n; l++ {
		o, pn := runNumeric(cfg, l, PoolCfg{K: 1})
		if pn != "" || o.Evals == 0 {
			g.w.Add(caseStr(true, 1, n, false, 0, nil, []string{failQ}), RawCase{Site: "numeric-contrib", Num: cfg, Panic: pn}, "numeric-contrib-fail", false)
			g.w.Count("numeric:contribution-run-failed")
			return
		}
		cs[l] = o.First
	}
	ref, rpn := runNumeric(cfg, -1, PoolCfg{K: 1})
	for _, pc := range poolSet(g.rng, g.tier, nChunks(8, n)) {
		o, pn := runNumeric(cfg, -1, pc)
		var checks []string
		if pn != "" || rpn != "" || o.Err != ref.Err || len(o.Par) != len(ref.Par) || o.Evals == 0 {
			checks = []string{failQ}
		} else {
			// r[id] += t per observation, then r[0] += r[i]: eager accumulators merged into thread 0 (style 3)
			checks = append(checks, fmt.Sprintf("KPlus 3 %s %s", qlist(cs), qq(o.First)))
			checks = append(checks, fmt.Sprintf("KNear %s %s %s", qq(o.First), qq(ref.First), Q(tol9(o.First, ref.First))))
			for i := range o.Par {
				t := math.Max(1, math.Abs(ref.Par[i])) * 1e-6
				checks = append(checks, fmt.Sprintf("KNear %s %s %s", qq(o.Par[i]), qq(ref.Par[i]), Q(t)))
			}
		}
		g.w.Add(caseStr(true, pc.K, n, true, 0, genSchedule(g.rng, pc.K, nChunks(pc.K, n)), checks),
			RawCase{Site: "numeric", Pool: pc, Num: cfg, Out: fmt.Sprintf("%+v ref=%+v", o, ref), Panic: pn + rpn},
			fmt.Sprintf("numeric/n%d/k%d/w%v", n, pc.K, cfg.W != nil), n >= 2 && pc.K >= 2)
		g.w.Count("numeric:" + rel(pc.K, nChunks(pc.K, n)))
	}
}


// ---------------------------------------------------------------- round 7: the samples a SAGA epoch evaluates

func minInt(a, b int) int {
	if a < b {
		return a
	}
	return b
}

func zlist(xs []int) string {
	ss := make([]string, len(xs))
	for i, x := range xs {
		ss[i] = ZI(x)
	}
	return "[" + strings.Join(ss, "; ") + "]"
}

// the index lists Execute draws: rand.New(rand.NewSource(seed)), per epoch n times Intn(n) - recomputed with
// math/rand, independently of the library
func sagaDrawn(cfg *SagaCfg, epochs int) [][]int {
	rg := rand.New(rand.NewSource(cfg.Seed))
	n := len(cfg.X)
	out := make([][]int, epochs)
	for e := range out {
		out[e] = make([]int, n)
		for i := 0; i < n; i++ {
			out[e][i] = rg.Intn(n)
		}
	}
	return out
}

// evaluation log per epoch; sequential = the workers of a pool of pc.K threads iterated on the nil pool
func runSagaTrace(cfg *SagaCfg, pc PoolCfg, sequential bool) (logs [][]int, panicked string) {
	defer func() {
		if r := recover(); r != nil {
			panicked = fmt.Sprint(r)
		}
	}()
	d := len(cfg.X[0]) - 1
	est, err := vectorEstimator.NewLogisticRegression(d, true)
	must(err)
	est.L1Reg = cfg.L1
	est.MaxIterations = cfg.Epochs
	est.Epsilon = 0
	est.Seed = cfg.Seed
	xs := make([]ad.ConstVector, len(cfg.X))
	for i, row := range cfg.X {
		xs[i] = ad.AsSparseConstFloat64Vector(ad.NewDenseFloat64Vector(append([]float64{}, row...)))
	}
	must(est.SetData(xs, len(xs)))
	pool := newPool(pc)
	defer pool.Stop()
	if sequential {
		logs, _ = vectorEstimator.VerifC17SagaTrace(est, pool, true)
	} else {
		inPool(pool, pc.Nested, func(q tp.ThreadPool) { logs, _ = vectorEstimator.VerifC17SagaTrace(est, q, false) })
	}
	return
}

// property-level oracle (independent of the Coq model): in every epoch the multiset of evaluated sample indices is the
// multiset drawn - nothing dropped, nothing evaluated twice - on the pool pc
func sagaEvalOracle(cfg *SagaCfg, pc PoolCfg) string {
	logs, pn := runSagaTrace(cfg, pc, false)
	if pn != "" {
		return "panic while tracing the SAGA epochs: " + pn
	}
	if len(logs) == 0 {
		return "no SAGA epoch was executed"
	}
	drawn := sagaDrawn(cfg, len(logs))
	for e := range logs {
		a := append([]int{}, logs[e]...)
		b := append([]int{}, drawn[e]...)
		sort.Ints(a)
		sort.Ints(b)
		if fmt.Sprint(a) != fmt.Sprint(b) {
			return fmt.Sprintf("SAGA epoch %d on a pool of %d threads (n=%d samples): the workers evaluated the samples %v (sorted) but the epoch drew %v (sorted): %d evaluations instead of %d - samples of the epoch are dropped or evaluated twice",
				e, pc.K, len(cfg.X), a, b, len(a), len(b))
		}
	}
	return ""
}
