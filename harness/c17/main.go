// C17 harness: parallel estimation is schedule independent.
//
//   (default)        correspondence: configurations x pool sizes, per-job contributions from
//                    sequential single-job runs, Coq case files cases_*.v (exact) and tol_*.v
//                    (log-add results, decided by Coq-Interval)
//   --extra race     runtime sampling (build with -race): every configuration on many pools
//                    under a deadline; prints a JSON summary
//   --extra hunt     property-level oracle on the implementation: parallel result vs the
//                    sequential result over many schedules, with shrinking
//   --replay f.json  re-execute one configuration
//   --extra fresh    deep-copy freshness of every Clone* method of the distribution packages (fresh.go)
// Round 3: composite models (composite.go) in the correspondence (site comp, full kinds hmm-smix ...), race and hunt streams.
package main

import (
	"encoding/json"
	"fmt"
	"math"
	"os"
	"path/filepath"
	"runtime"
	"strings"
	"time"

	. "adharness/common"
)

// ---------------------------------------------------------------- generators

func dy(r *Rng, lo, hi float64, bits uint) float64 {
	// dyadic value in [lo,hi] with `bits` fractional bits
	s := float64(uint64(1) << bits)
	a, b := int(math.Ceil(lo*s)), int(math.Floor(hi*s))
	return float64(r.Range(a, b)) / s
}

func genEm(r *Rng) *EmCfg {
	m := r.Pick([]int{3, 4, 3}) + 1
	n := []int{1, 2, 3, 4, 5, 7, 8, 9, 12, 16, 17}[r.Intn(11)]
	c := &EmCfg{FailAt: -1}
	c.Weights = make([]float64, m)
	for i := range c.Weights {
		c.Weights[i] = float64(r.Range(1, 4))
	}
	c.Lp = make([][]float64, m)
	for i := range c.Lp {
		c.Lp[i] = make([]float64, n)
		for l := range c.Lp[i] {
			c.Lp[i][l] = dy(r, -6, 0, 3)
		}
	}
	if r.Intn(3) == 0 {
		c.Counts = make([]int, n)
		for l := range c.Counts {
			c.Counts[l] = r.Range(1, 3)
		}
	}
	c.Stale = []float64{1234.5, -3.25, 40.0}[r.Intn(3)]
	c.StaleFlag = r.Bool()
	return c
}

func genBw(r *Rng) *BwCfg {
	m := r.Range(1, 3)
	c := &BwCfg{FailRec: -1, FailPos: -1}
	c.Pi = make([]float64, m)
	c.Tr = make([][]float64, m)
	for i := 0; i < m; i++ {
		c.Pi[i] = float64(r.Range(1, 4))
		c.Tr[i] = make([]float64, m)
		for j := 0; j < m; j++ {
			c.Tr[i][j] = float64(r.Range(1, 4))
		}
	}
	c.StateMap = make([]int, m)
	if m > 1 && r.Intn(4) == 0 {
		// two states share an emission
		for i := range c.StateMap {
			c.StateMap[i] = i / 2
		}
	} else {
		for i := range c.StateMap {
			c.StateMap[i] = i
		}
	}
	nrec := []int{1, 2, 3, 4, 5, 8, 9}[r.Intn(7)]
	tot := 0
	for d := 0; d < nrec; d++ {
		l := r.Range(1, 4)
		if r.Intn(3) > 0 && l < 2 {
			l = 2
		}
		c.Lens = append(c.Lens, l)
		tot += l
	}
	ne := c.nE()
	c.Lp = make([][]float64, ne)
	for e := range c.Lp {
		c.Lp[e] = make([]float64, tot)
		for l := range c.Lp[e] {
			c.Lp[e][l] = dy(r, -5, 0, 3)
		}
	}
	c.Stale = []float64{1234.5, -3.25, 40.0}[r.Intn(3)]
	c.StaleFlag = r.Bool()
	return c
}

func genNormal(r *Rng) *NormalCfg {
	n := []int{1, 2, 3, 4, 5, 7, 8, 9, 13, 16, 24}[r.Intn(11)]
	c := &NormalCfg{SigmaMin: []float64{1e-8, 0.5, 2.0}[r.Intn(3)]}
	bits := uint(r.Range(0, 6))
	for i := 0; i < n; i++ {
		c.X = append(c.X, dy(r, -40, 40, bits))
	}
	if r.Intn(3) == 0 {
		c.W = make([]int, n)
		for i := range c.W {
			if r.Intn(3) != 0 {
				c.W[i] = 1
			}
		}
		c.W[r.Intn(n)] = 1
	}
	return c
}

func genX(r *Rng) *XCfg {
	kinds := []string{"exponential", "poisson", "geometric", "categorical", "vnormal", "iid-normal", "negbin"}
	c := &XCfg{Kind: kinds[r.Intn(len(kinds))]}
	n := []int{2, 3, 4, 6, 8, 10, 16, 18}[r.Intn(8)]
	for i := 0; i < n; i++ {
		switch c.Kind {
		case "categorical":
			c.X = append(c.X, float64(r.Range(0, 3)))
		case "exponential":
			c.X = append(c.X, dy(r, 0.25, 8, 2))
		case "poisson", "geometric":
			c.X = append(c.X, float64(r.Range(0, 9)))
		case "negbin":
			c.X = append(c.X, float64(r.Range(1, 9)))
		default:
			c.X = append(c.X, dy(r, -8, 8, 3))
		}
	}
	// round 6: the weighted branch of NewObservation (gamma != nil) in half of the configurations
	if c.Kind != "iid-normal" && r.Bool() {
		for i := 0; i < n; i++ {
			c.G = append(c.G, dy(r, -3, 0, 3))
		}
		c.G[r.Intn(n)] = 0
	}
	return c
}

func poolSet(r *Rng, tier string, njobs int) []PoolCfg {
	ks := map[int]bool{1: true, 2: true}
	ks[r.Range(3, 8)] = true
	if njobs >= 1 && njobs <= 8 {
		ks[njobs] = true // pool size equal to the number of jobs
	}
	if njobs+1 <= 8 {
		ks[njobs+1] = true // pool larger than the number of jobs
	}
	if tier == "thorough" {
		for k := 1; k <= 8; k++ {
			ks[k] = true
		}
	}
	var out []PoolCfg
	for k := 1; k <= 8; k++ {
		if ks[k] {
			out = append(out, PoolCfg{K: k, Buf: []int{1, 2, 100}[r.Intn(3)], Nested: []int{0, 0, 1, 2}[r.Intn(4)], Yield: r.Intn(3) == 0})
		}
	}
	return out
}

// a valid schedule for the model: every job once, in a random order, on random threads;
// regularly with thread 0 unused / all on one thread
func genSchedule(r *Rng, k, nj int) [][2]int {
	perm := make([]int, nj)
	for i := range perm {
		perm[i] = i
	}
	for i := nj - 1; i > 0; i-- {
		j := r.Intn(i + 1)
		perm[i], perm[j] = perm[j], perm[i]
	}
	mode := r.Intn(4)
	one := r.Intn(k)
	out := make([][2]int, nj)
	for i, j := range perm {
		t := r.Intn(k)
		switch mode {
		case 0:
			if k > 1 {
				t = 1 + r.Intn(k-1) // thread 0 never used
			}
		case 1:
			t = one
		}
		out[i] = [2]int{t, j}
	}
	return out
}

// number of chunks AddRangeJob(0,n) queues on k threads (only to size the schedule; the Coq side
// recomputes the chunks with its own model and rejects a schedule that is not a permutation)
func nChunks(k, n int) int {
	if n <= 0 {
		return 0
	}
	m := k
	if m > n {
		m = n
	}
	w := n / m
	return (n + w - 1) / w
}

// ---------------------------------------------------------------- Coq printing

func qcell(x float64) string {
	switch {
	case math.IsInf(x, -1):
		return "NegInf"
	case math.IsNaN(x) || math.IsInf(x, 1):
		return "Clash"
	}
	return "(Val " + Q(x) + ")"
}
func qlist(xs []float64) string {
	s := make([]string, len(xs))
	for i, x := range xs {
		s[i] = Q(x)
	}
	return "[" + strings.Join(s, "; ") + "]"
}
func qq(x float64) string {
	if math.IsNaN(x) || math.IsInf(x, 0) {
		return "(999999999#1)" // never equal to a finite expectation
	}
	return Q(x)
}
func schStr(s [][2]int) string {
	p := make([]string, len(s))
	for i, e := range s {
		p[i] = fmt.Sprintf("(%d,%d)", e[0], e[1])
	}
	return "[" + strings.Join(p, "; ") + "]"
}
func caseStr(rng bool, k, n int, staleFlag bool, stale float64, sch [][2]int, checks []string) string {
	return fmt.Sprintf("mkCase %s %d %d %s %s %s\n    [%s]", B(rng), k, n, B(staleFlag), Q(stale), schStr(sch)+"%nat",
		strings.Join(checks, ";\n     "))
}

// exact real literal for the tol shards
func rlit(x float64) string {
	if x == 0 {
		return "0"
	}
	fr, e := math.Frexp(x)
	m := int64(fr * (1 << 53))
	e -= 53
	for m%2 == 0 {
		m /= 2
		e++
	}
	switch {
	case e == 0:
		return fmt.Sprintf("(IZR (%d))", m)
	case e > 0:
		return fmt.Sprintf("(IZR (%d) * 2^%d)", m, e)
	}
	return fmt.Sprintf("(IZR (%d) / 2^%d)", m, -e)
}

// goal: | ln(sum exp num) - ln(sum exp den) - v | <= 1e-9
func tolGoal(num, den []float64, v float64) (string, bool) {
	var a, b []string
	for _, x := range num {
		if !math.IsInf(x, -1) {
			a = append(a, "exp "+rlit(x))
		}
	}
	for _, x := range den {
		if !math.IsInf(x, -1) {
			b = append(b, "exp "+rlit(x))
		}
	}
	if len(a) == 0 || len(b) == 0 || math.IsNaN(v) || math.IsInf(v, 0) {
		return "", false
	}
	return fmt.Sprintf("Rabs (ln (%s) - ln (%s) - %s) <= 1/1000000000", strings.Join(a, " + "), strings.Join(b, " + "), rlit(v)), true
}

type tolWriter struct {
	dir    string
	goals  []string
	raws   []interface{}
	per    int
	nshard int
}

func (t *tolWriter) add(goal string, raw interface{}) {
	t.goals = append(t.goals, goal)
	t.raws = append(t.raws, raw)
}
func (t *tolWriter) flush() error {
	for s := 0; s*t.per < len(t.goals); s++ {
		var sb strings.Builder
		sb.WriteString("From Coq Require Import Reals List Bool.\nFrom Interval Require Import Tactic.\nFrom ADV Require Import Base.Corr.\nImport ListNotations.\nOpen Scope R_scope.\n")
		hi := (s + 1) * t.per
		if hi > len(t.goals) {
			hi = len(t.goals)
		}
		var names []string
		for i := s * t.per; i < hi; i++ {
			nm := fmt.Sprintf("b%d", i-s*t.per)
			names = append(names, nm)
			sb.WriteString(fmt.Sprintf("Definition %s : bool := ltac:(tryif (assert (%s) by (interval with (i_prec 60))) then exact true else exact false).\n", nm, t.goals[i]))
		}
		sb.WriteString("Definition M := Eval vm_compute in (mismatches (fun b : bool => b) [" + strings.Join(names, "; ") + "]).\nPrint M.\n")
		if err := os.WriteFile(filepath.Join(t.dir, fmt.Sprintf("tol_%d.v", s)), []byte(sb.String()), 0644); err != nil {
			return err
		}
		t.nshard++
	}
	f, err := os.Create(filepath.Join(t.dir, "tol.jsonl"))
	if err != nil {
		return err
	}
	enc := json.NewEncoder(f)
	for _, r := range t.raws {
		enc.Encode(r)
	}
	return f.Close()
}

// ---------------------------------------------------------------- correspondence

type RawCase struct {
	Site  string      `json:"site"`
	Pool  PoolCfg     `json:"pool"`
	Em    *EmCfg      `json:"em,omitempty"`
	Bw    *BwCfg      `json:"bw,omitempty"`
	Nm    *NormalCfg  `json:"normal,omitempty"`
	X     *XCfg       `json:"x,omitempty"`
	Chunk *[3]int     `json:"chunk,omitempty"`
	Full  *FullCfg    `json:"full,omitempty"`
	Saga  *SagaCfg    `json:"saga,omitempty"`
	Num   *NumericCfg `json:"numeric,omitempty"`
	Comp  *CompCfg    `json:"comp,omitempty"`
	ErrFlow *ErrFlowCfg `json:"errflow,omitempty"`
	Batch *BatchCfg   `json:"batch,omitempty"`
	Out   string      `json:"out,omitempty"`
	Panic string      `json:"panic,omitempty"`
}

const header = "From Coq Require Import ZArith List Bool QArith Floats.\nFrom ADV Require Import Base.Corr C17.Model C17.Corr.\nImport ListNotations.\nOpen Scope Z_scope.\n"

type gen struct {
	w    *CaseWriter
	ow   *CaseWriter // option-matrix cases (CorrCfg.ocase)
	sw   *CaseWriter // SAGA cases (CorrCfg.sagacase)
	ew   *CaseWriter // error-flow cases (CorrErrFlow.ecase)
	aw   *CaseWriter // batch-estimator cases with the observed schedule (CorrAccum.acase)
	noTransPanics bool
	tol  *tolWriter
	rng  *Rng
	tier string
	used0, unused0, unusedAny, runs int
}

func (g *gen) noteUsed(used []bool) {
	if len(used) <= 1 {
		return
	}
	g.runs++
	if used[0] {
		g.used0++
	} else {
		g.unused0++
	}
	for _, u := range used[1:] {
		if !u {
			g.unusedAny++
			break
		}
	}
}

const failQ = "KNear (1#1) (0#1) (0#1)" // an always-failing check: the run itself went wrong (panic / unexpected error)

func (g *gen) emCases(cfg *EmCfg, reps int) {
	m, n := len(cfg.Weights), len(cfg.Lp[0])
	// per-job contributions: sequential runs on the single observation l
	lik := make([]float64, n)
	gam := make([][]float64, m) // gam[i][l]
	for i := range gam {
		gam[i] = make([]float64, n)
	}
	for l := 0; l < n; l++ {
		o, pn := runEM(cfg, l, PoolCfg{K: 1})
		if pn != "" || o.Err || len(o.Gamma) != m {
			g.w.Add(caseStr(true, 1, n, false, 0, nil, []string{failQ}), RawCase{Site: "em-contrib", Em: cfg, Panic: pn}, "em-contrib-fail", false)
			g.w.Count("em:contribution-run-failed")
			return
		}
		lik[l] = o.Lik
		for i := 0; i < m; i++ {
			gam[i][l] = o.Gamma[i][0]
		}
	}
	pools := poolSet(g.rng, g.tier, nChunks(8, n))
	var ref *EmOut
	for pi, pc := range pools {
		for rep := 0; rep < reps; rep++ {
			o, pn := runEM(cfg, -1, pc)
			g.noteUsed(o.Used)
			raw := RawCase{Site: "em", Pool: pc, Em: cfg, Out: fmt.Sprintf("%+v", o), Panic: pn}
			sch := genSchedule(g.rng, pc.K, nChunks(pc.K, n))
			var checks []string
			if pn != "" || o.Err || len(o.Gamma) != m {
				checks = []string{failQ}
			} else {
				checks = append(checks, fmt.Sprintf("KPlus 1 %s %s", qlist(lik), qq(o.Lik)))
				for i := 0; i < m; i++ {
					for l := 0; l < n; l++ {
						cs := make([]string, n)
						for j := range cs {
							cs[j] = "NegInf"
						}
						cs[l] = qcell(gam[i][l])
						checks = append(checks, fmt.Sprintf("KCell 1 [%s] %s", strings.Join(cs, "; "), qcell(o.Gamma[i][l])))
					}
				}
				// weights: certified against the contributions for two pools, compared with those elsewhere
				if ref == nil || (pi == len(pools)-1 && rep == 0) {
					var all []float64
					for i := 0; i < m; i++ {
						all = append(all, gam[i]...)
					}
					for i := 0; i < m; i++ {
						if goal, ok := tolGoal(gam[i], all, o.Lw[i]); ok {
							g.tol.add(goal, map[string]interface{}{"site": "em", "what": fmt.Sprintf("logWeights[%d]", i), "pool": pc, "em": cfg, "go": o.Lw[i]})
						}
					}
					if ref == nil {
						oo := o
						ref = &oo
					}
				}
				for i := 0; i < m; i++ {
					checks = append(checks, fmt.Sprintf("KNear %s %s (1#1000000000)", qq(o.Lw[i]), qq(ref.Lw[i])))
				}
			}
			key := fmt.Sprintf("em/m%d/n%d/k%d/c%v", m, n, pc.K, cfg.Counts != nil)
			g.w.Add(caseStr(true, pc.K, n, cfg.StaleFlag, cfg.Stale, sch, checks), raw, key, n >= 2 && pc.K >= 2)
			g.w.Count("em:" + rel(pc.K, nChunks(pc.K, n)))
			g.w.Count(fmt.Sprintf("pool:k=%d", pc.K))
		}
	}
}

func rel(k, njobs int) string {
	switch {
	case k == 1:
		return "sequential"
	case njobs < k:
		return "jobs<pool"
	case njobs == k:
		return "jobs=pool"
	}
	return "jobs>pool"
}

func (g *gen) bwCases(cfg *BwCfg, reps int) {
	m, nrec, ne := len(cfg.Pi), len(cfg.Lens), cfg.nE()
	nm := len(cfg.Lp[0])
	lik := make([]float64, nrec)
	pis := make([][]float64, nrec)
	trs := make([][][]float64, nrec)
	gams := make([][][]float64, nrec)
	for d := 0; d < nrec; d++ {
		o, pn := runBW(cfg, d, PoolCfg{K: 1})
		if pn != "" || o.Err || len(o.Gamma) != ne || o.Pi0 == nil || o.Tr0 == nil {
			g.w.Add(caseStr(false, 1, nrec, false, 0, nil, []string{failQ}), RawCase{Site: "bw-contrib", Bw: cfg, Panic: pn}, "bw-contrib-fail", false)
			g.w.Count("bw:contribution-run-failed")
			return
		}
		lik[d], pis[d], trs[d], gams[d] = o.Lik, o.Pi0, o.Tr0, o.Gamma
	}
	pools := poolSet(g.rng, g.tier, nrec)
	var ref *BwOut
	for pi, pc := range pools {
		for rep := 0; rep < reps; rep++ {
			o, pn := runBW(cfg, -1, pc)
			g.noteUsed(o.Used)
			raw := RawCase{Site: "bw", Pool: pc, Bw: cfg, Out: fmt.Sprintf("%+v", o), Panic: pn}
			sch := genSchedule(g.rng, pc.K, nrec)
			var checks []string
			if pn != "" || o.Err || len(o.Gamma) != ne {
				checks = []string{failQ}
			} else {
				checks = append(checks, fmt.Sprintf("KPlus 1 %s %s", qlist(lik), qq(o.Lik)))
				for c := 0; c < ne; c++ {
					for l := 0; l < nm; l++ {
						cs := make([]string, nrec)
						for d := range cs {
							cs[d] = qcell(gams[d][c][l])
						}
						checks = append(checks, fmt.Sprintf("KCell 1 [%s] %s", strings.Join(cs, "; "), qcell(o.Gamma[c][l])))
					}
				}
				if ref == nil || (pi == len(pools)-1 && rep == 0) {
					var allpi []float64
					for d := 0; d < nrec; d++ {
						allpi = append(allpi, pis[d]...)
					}
					for i := 0; i < m; i++ {
						var num []float64
						for d := 0; d < nrec; d++ {
							num = append(num, pis[d][i])
						}
						if goal, ok := tolGoal(num, allpi, o.Pi[i]); ok {
							g.tol.add(goal, map[string]interface{}{"site": "bw", "what": fmt.Sprintf("Pi[%d]", i), "pool": pc, "bw": cfg, "go": o.Pi[i]})
						}
						var row []float64
						for d := 0; d < nrec; d++ {
							row = append(row, trs[d][i]...)
						}
						for j := 0; j < m; j++ {
							var nu []float64
							for d := 0; d < nrec; d++ {
								nu = append(nu, trs[d][i][j])
							}
							if goal, ok := tolGoal(nu, row, o.Tr[i][j]); ok {
								g.tol.add(goal, map[string]interface{}{"site": "bw", "what": fmt.Sprintf("Tr[%d][%d]", i, j), "pool": pc, "bw": cfg, "go": o.Tr[i][j]})
							}
						}
					}
					if ref == nil {
						oo := o
						ref = &oo
					}
				}
				for i := 0; i < m; i++ {
					checks = append(checks, fmt.Sprintf("KNear %s %s (1#1000000000)", qq(o.Pi[i]), qq(ref.Pi[i])))
					for j := 0; j < m; j++ {
						checks = append(checks, fmt.Sprintf("KNear %s %s (1#1000000000)", qq(o.Tr[i][j]), qq(ref.Tr[i][j])))
					}
				}
			}
			key := fmt.Sprintf("bw/m%d/r%d/k%d/%v", m, nrec, pc.K, cfg.Lens)
			g.w.Add(caseStr(false, pc.K, nrec, cfg.StaleFlag, cfg.Stale, sch, checks), raw, key, nrec >= 2 && pc.K >= 2)
			g.w.Count("bw:" + rel(pc.K, nrec))
			g.w.Count(fmt.Sprintf("pool:k=%d", pc.K))
		}
	}
}

func flist(xs []float64) string {
	s := make([]string, len(xs))
	for i, x := range xs {
		s[i] = F(x)
	}
	return "[" + strings.Join(s, "; ") + "]"
}

func (g *gen) normalCases(cfg *NormalCfg) {
	n := len(cfg.X)
	var gs []float64
	for _, w := range cfg.W {
		gs = append(gs, float64(w)) // math.Exp(0 - 0) = 1, math.Exp(-Inf - 0) = 0: exact
	}
	for _, pc := range poolSet(g.rng, g.tier, nChunks(8, n)) {
		o, pn := runNormal(cfg, pc)
		raw := RawCase{Site: "normal", Pool: pc, Nm: cfg, Out: fmt.Sprintf("%+v", o), Panic: pn}
		sch := genSchedule(g.rng, pc.K, nChunks(pc.K, n))
		var checks []string
		if pn != "" || o.Err {
			checks = []string{failQ}
		} else {
			checks = []string{fmt.Sprintf("KNormal %s %s %s %s %s", flist(cfg.X), flist(gs), F(cfg.SigmaMin), F(o.Mu), F(o.Sigma))}
		}
		g.w.Add(caseStr(true, pc.K, n, true, 0, sch, checks), raw, fmt.Sprintf("normal/n%d/k%d/g%v", n, pc.K, cfg.W != nil), n >= 2 && pc.K >= 2)
		g.w.Count("normal:" + rel(pc.K, nChunks(pc.K, n)))
		g.w.Count(fmt.Sprintf("pool:k=%d", pc.K))
	}
}

func (g *gen) xCases(cfg *XCfg) {
	ref, rerr, rpn := runX(cfg, PoolCfg{K: 1})
	for _, pc := range poolSet(g.rng, g.tier, len(cfg.X)) {
		if pc.K == 1 {
			continue
		}
		par, errd, pn := runX(cfg, pc)
		raw := RawCase{Site: "xpool", Pool: pc, X: cfg, Out: fmt.Sprintf("par=%v ref=%v err=%v referr=%v", par, ref, errd, rerr), Panic: pn + rpn}
		var checks []string
		if pn != "" || rpn != "" || errd != rerr || len(par) != len(ref) {
			checks = []string{failQ}
		} else {
			for i := range par {
				tol := math.Max(1, math.Max(math.Abs(par[i]), math.Abs(ref[i]))) * 1e-9
				if math.IsNaN(tol) || math.IsInf(tol, 0) {
					tol = 0
				}
				checks = append(checks, fmt.Sprintf("KNear %s %s %s", qq(par[i]), qq(ref[i]), Q(tol)))
			}
		}
		g.w.Add(caseStr(false, pc.K, 0, true, 0, nil, checks), raw, fmt.Sprintf("x/%s/n%d/k%d", cfg.Kind, len(cfg.X), pc.K), true)
		g.w.Count("xpool:" + cfg.Kind)
	}
}

func (g *gen) errCases(r *Rng) {
	// Baum-Welch: a record whose LogPdf fails at a position >= 1 (reached by the xi loop of the job)
	bw := genBw(r)
	for len(bw.Lens) < 2 {
		bw = genBw(r)
	}
	bw.FailRec = r.Intn(len(bw.Lens))
	if bw.Lens[bw.FailRec] < 2 {
		bw.Lens[bw.FailRec] = 2
		for e := range bw.Lp {
			bw.Lp[e] = append(bw.Lp[e], -1.0)
		}
	}
	bw.FailPos = 1
	control := r.Intn(4) == 0
	if control {
		bw.FailRec = -1
	}
	nrec := len(bw.Lens)
	fails := make([]string, nrec)
	for d := range fails {
		fails[d] = B(d == bw.FailRec)
	}
	for _, pc := range poolSet(r, g.tier, nrec) {
		o, pn := runBW(bw, -1, pc)
		checks := []string{fmt.Sprintf("KErr true [%s] %s", strings.Join(fails, "; "), B(o.Err))}
		if pn != "" {
			checks = []string{failQ}
		}
		g.w.Add(caseStr(false, pc.K, nrec, bw.StaleFlag, bw.Stale, genSchedule(r, pc.K, nrec), checks),
			RawCase{Site: "bw-err", Pool: pc, Bw: bw, Out: fmt.Sprintf("%+v", o), Panic: pn}, fmt.Sprintf("bwerr/r%d/k%d/f%d", nrec, pc.K, bw.FailRec), !control)
		g.w.Count("err:bw:" + rel(pc.K, nrec))
	}
	em := genEm(r)
	n := len(em.Lp[0])
	em.FailAt = r.Intn(n)
	if control {
		em.FailAt = -1
	}
	fl := make([]string, n)
	for l := range fl {
		fl[l] = B(l == em.FailAt)
	}
	for _, pc := range poolSet(r, g.tier, nChunks(8, n)) {
		o, pn := runEM(em, -1, pc)
		checks := []string{fmt.Sprintf("KErr false [%s] %s", strings.Join(fl, "; "), B(o.Err))}
		if pn != "" {
			checks = []string{failQ}
		}
		g.w.Add(caseStr(true, pc.K, n, em.StaleFlag, em.Stale, genSchedule(r, pc.K, nChunks(pc.K, n)), checks),
			RawCase{Site: "em-err", Pool: pc, Em: em, Out: fmt.Sprintf("%+v", o), Panic: pn}, fmt.Sprintf("emerr/n%d/k%d/f%d", n, pc.K, em.FailAt), !control)
		g.w.Count("err:em:" + rel(pc.K, nChunks(pc.K, n)))
	}
}

func (g *gen) chunkCases(r *Rng, cnt int) {
	for i := 0; i < cnt; i++ {
		k := r.Range(2, 8)
		from := r.Range(-3, 5)
		n := []int{1, 2, 3, 5, 7, 8, 9, 15, 16, 17, 23}[r.Intn(11)]
		if i%5 == 0 {
			n = k + r.Range(-1, 1)
			if n < 1 {
				n = 1
			}
		}
		chs, pn := probeChunks(k, from, from+n)
		s := make([]string, len(chs))
		for j, c := range chs {
			s[j] = fmt.Sprintf("(%s,%s)", ZI(c[0]), ZI(c[1]))
		}
		checks := []string{fmt.Sprintf("KChunks %s %s [%s]", ZI(from), ZI(from+n), strings.Join(s, "; "))}
		if pn != "" {
			checks = []string{failQ}
		}
		g.w.Add(caseStr(false, k, 0, true, 0, nil, checks), RawCase{Site: "chunks", Pool: PoolCfg{K: k}, Chunk: &[3]int{k, from, from + n}, Out: fmt.Sprintf("%+v", chs), Panic: pn},
			fmt.Sprintf("chunks/k%d/n%d", k, n), true)
		g.w.Count("chunks:" + rel(k, n))
	}
}

func corr(o Opts) {
	r := NewRng(o.Seed)
	w := NewCaseWriter(o.Out, "cases", header, "mism", 40)
	w.Type = "case"
	w.Rule = "a case is non-trivial iff the pool has >= 2 threads and the step has >= 2 jobs (or it is an error-injection / chunk-probe / cross-pool case)"
	g := &gen{w: w, tol: &tolWriter{dir: o.Out, per: 12}, rng: r, tier: o.Tier}
	g.ow = NewCaseWriter(o.Out, "ocases", oheader, "omism", 30)
	g.ow.Type = "ocase"
	g.ow.Rule = "an option-matrix case is non-trivial iff the pool has >= 2 threads and the step has >= 2 jobs"
	g.sw = NewCaseWriter(o.Out, "sagacases", oheader, "sagamism", 100)
	g.sw.Type = "sagacase"
	g.sw.Rule = "a SAGA case is non-trivial iff the pool has >= 2 threads"
	g.ew = NewCaseWriter(o.Out, "ecases", eheader, "emism", 60)
	g.ew.Type = "ecase"
	g.ew.Rule = "an error-flow case is non-trivial iff a failure is injected (mode != none)"
	g.aw = NewCaseWriter(o.Out, "acases", aheader, "amism", 40)
	g.aw.Type = "acase"
	g.aw.Rule = "a batch case is non-trivial iff the pool has >= 2 threads and at least two of them hold a partial sum"
	var ntp string
	g.noTransPanics, ntp = bwNoTransPanics()
	g.ow.Extra["bw_no_transitions_panics"] = map[string]interface{}{"panics": g.noTransPanics, "message": ntp}
	// corpus first
	if o.Extra != "" {
		if b, err := os.ReadFile(o.Extra); err == nil {
			for _, line := range strings.Split(string(b), "\n") {
				line = strings.TrimSpace(line)
				if line == "" {
					continue
				}
				var rc RawCase
				if json.Unmarshal([]byte(line), &rc) == nil {
					g.replayInto(&rc)
					w.Count("corpus")
				}
			}
		}
	}
	unit := o.N / 10
	if unit < 1 {
		unit = 1
	}
	efi := 0
	for i := 0; i < unit; i++ {
		g.emCases(genEm(r.Split()), 2)
		g.bwCases(genBw(r.Split()), 2)
		g.normalCases(genNormal(r.Split()))
		g.normalCases(genNormal(r.Split()))
		g.xCases(genX(r.Split()))
		if i%2 == 0 {
			g.errCases(r.Split())
		}
		g.emOptCases(genEm(r.Split()), i%2 == 0)
		g.bwOptCases(genBw(r.Split()), i%2 == 1)
		g.fullCases(genFull(r.Split()))
		g.fullCases(genFull(r.Split()))
		g.sagaCases(genSaga(r.Split()))
		g.numericCases(genNumeric(r.Split()))
		g.compCases(genComp(r.Split()))
		g.compCases(genComp(r.Split()))
		for j := 0; j < 3; j++ {
			g.batchCases(genBatch(r.Split()))
		}
		for j := 0; j < 4; j++ {
			g.errFlowCases(genErrFlow(r.Split(), efi))
			efi++
		}
	}
	g.chunkCases(r.Split(), 3*unit)
	w.Extra["threads_observed"] = map[string]int{"parallel_steps": g.runs, "thread0_used": g.used0, "thread0_never_used": g.unused0, "some_worker_never_used": g.unusedAny}
	w.Extra["tol_goals"] = len(g.tol.goals)
	if err := w.Flush(); err != nil {
		Die("flush: %v", err)
	}
	if err := g.tol.flush(); err != nil {
		Die("tol flush: %v", err)
	}
	if err := g.ow.Flush(); err != nil {
		Die("flush: %v", err)
	}
	if err := g.sw.Flush(); err != nil {
		Die("flush: %v", err)
	}
	if err := g.ew.Flush(); err != nil {
		Die("flush: %v", err)
	}
	if err := g.aw.Flush(); err != nil {
		Die("flush: %v", err)
	}
}

func (g *gen) replayInto(rc *RawCase) {
	switch {
	case rc.Em != nil && rc.Em.FailAt < 0 && (rc.Em.NoEmis || rc.Em.NoWeights || rc.Site == "em-opt"):
		g.emOptCases(rc.Em, true)
	case rc.Bw != nil && rc.Bw.FailRec < 0 && (rc.Bw.NoEmis || rc.Bw.NoTrans || rc.Site == "bw-opt"):
		g.bwOptCases(rc.Bw, true)
	case rc.Full != nil:
		g.fullCases(rc.Full)
	case rc.Saga != nil:
		g.sagaCases(rc.Saga)
	case rc.Num != nil:
		g.numericCases(rc.Num)
	case rc.Comp != nil:
		g.compCases(rc.Comp)
	case rc.ErrFlow != nil:
		g.errFlowCases(rc.ErrFlow)
	case rc.Batch != nil:
		g.batchCases(rc.Batch)
	case rc.Em != nil && rc.Em.FailAt < 0:
		g.emCases(rc.Em, 1)
	case rc.Bw != nil && rc.Bw.FailRec < 0:
		g.bwCases(rc.Bw, 1)
	case rc.Nm != nil:
		g.normalCases(rc.Nm)
	case rc.X != nil:
		g.xCases(rc.X)
	}
}

// ---------------------------------------------------------------- entry

func main() {
	o := ParseFlags()
	if runtime.GOARCH != "amd64" {
		Die("c17: bit-exact float replay assumes amd64 (no fused multiply-add)")
	}
	noTransUnsafe, _ = bwNoTransPanics()
	switch {
	case o.Extra == "race":
		raceMain(o)
	case o.Extra == "hunt":
		huntMain(o)
	case o.Extra == "errrate":
		errRateMain(o)
	case o.Extra == "tpprobe":
		tpProbeMain(o)
	case o.Extra == "fresh":
		freshMain(o)
	case o.Extra == "errflow":
		errFlowMain(o)
	case o.Replay != "":
		replayMain(o)
	default:
		corr(o)
	}
}

var _ = time.Now
