// C17 harness, part 7 (round 3): deep-copy FRESHNESS of every clone the parallel routines make.
//
// The batch evaluation routines and the estimators call CloneXxx() on a distribution once per
// thread and then use the clones concurrently.  That is race free only if the clone shares no
// mutable storage with its original (and hence with the other clones).  This check needs no race
// to fire: for every Clone* method found in the SOURCE of statistics/{scalarDistribution,
// vectorDistribution,matrixDistribution,generic} (go/parser inventory of the library given by
// $C17_REPO) an instance with nested, stateful content is built, the method is called through
// reflection, and original and clone are walked field by field (unexported fields and values
// held in interfaces included).  Every pointer / slice / map storage reachable from both is
// reported with its two access paths.
//
// Not storage (ignored): reflect.Type values (ScalarType descriptors: immutable run-time type
// records), function values (code), strings, zero-capacity slices, zero-size objects.
//
//   --extra fresh   writes fresh.json {inventory, checked, uncovered, shared}
package main

import (
	"encoding/json"
	"fmt"
	"go/ast"
	"go/parser"
	"go/token"
	"os"
	"path/filepath"
	"reflect"
	"sort"
	"strings"

	. "adharness/common"

	ad "github.com/pbenner/autodiff"
	"github.com/pbenner/autodiff/statistics"
	"github.com/pbenner/autodiff/statistics/generic"
	"github.com/pbenner/autodiff/statistics/matrixDistribution"
	"github.com/pbenner/autodiff/statistics/scalarDistribution"
	"github.com/pbenner/autodiff/statistics/vectorDistribution"
)

// ---------------------------------------------------------------- inventory (source)

type cloneMethod struct {
	Pkg    string `json:"pkg"`
	Type   string `json:"type"`
	Method string `json:"method"`
	Pos    string `json:"pos"`
}

var freshPkgs = []string{"scalarDistribution", "vectorDistribution", "matrixDistribution", "generic"}

func cloneInventory(repo string) ([]cloneMethod, []string) {
	var out []cloneMethod
	var errs []string
	for _, pkg := range freshPkgs {
		dir := filepath.Join(repo, "statistics", pkg)
		files, _ := filepath.Glob(filepath.Join(dir, "*.go"))
		sort.Strings(files)
		if len(files) == 0 {
			errs = append(errs, "no sources in "+dir)
		}
		for _, f := range files {
			base := filepath.Base(f)
			if strings.HasSuffix(base, "_test.go") || strings.HasPrefix(base, "verif_") {
				continue
			}
			fset := token.NewFileSet()
			af, err := parser.ParseFile(fset, f, nil, 0)
			if err != nil {
				errs = append(errs, err.Error())
				continue
			}
			for _, d := range af.Decls {
				fd, ok := d.(*ast.FuncDecl)
				if !ok || fd.Recv == nil || len(fd.Recv.List) != 1 || !strings.HasPrefix(fd.Name.Name, "Clone") {
					continue
				}
				if fd.Type.Params != nil && len(fd.Type.Params.List) != 0 {
					continue
				}
				rt := fd.Recv.List[0].Type
				if st, ok := rt.(*ast.StarExpr); ok {
					rt = st.X
				}
				id, ok := rt.(*ast.Ident)
				if !ok {
					continue
				}
				out = append(out, cloneMethod{pkg, id.Name, fd.Name.Name, fmt.Sprintf("statistics/%s/%s:%d", pkg, base, fset.Position(fd.Pos()).Line)})
			}
		}
	}
	return out, errs
}

// ---------------------------------------------------------------- instances (nested, stateful content)

func dv(xs ...float64) ad.Vector { return ad.NewDenseFloat64Vector(xs) }
func dm(r, c int, xs ...float64) ad.Matrix {
	return ad.NewDenseFloat64Matrix(xs, r, c)
}

func chk(x interface{}, err error) interface{} {
	if err != nil {
		panic(err)
	}
	return x
}

func freshInstances() map[string]func() interface{} {
	S := scalarComposites
	smix := func() statistics.ScalarPdf { return sMix([]float64{0.5, 0.5}, S(0)[0], sLogT(sNormal(0.5, 1), 1.0)) }
	vmix := func() statistics.VectorPdf {
		return vMix([]float64{0.5, 0.5}, vId(S(0)[0], S(0)[1]), vId(S(1)[0], sTransl(sNormal(0, 1), 0.5)))
	}
	mmix := func() statistics.MatrixPdf { return mMix([]float64{0.5, 0.5}, mId(vmix(), vmix()), mId(vmix(), vmix())) }
	pi, tr := func() ad.Vector { return dv(0.6, 0.4) }, func() ad.Matrix { return dm(2, 2, 0.7, 0.3, 0.4, 0.6) }
	m := map[string]func() interface{}{
		// scalar families
		"scalarDistribution.NormalDistribution":  func() interface{} { return chk(scalarDistribution.NewNormalDistribution(f64(1), f64(2))) },
		"scalarDistribution.BetaDistribution":    func() interface{} { return chk(scalarDistribution.NewBetaDistribution(f64(2), f64(3), false)) },
		"scalarDistribution.BinomialDistribution": func() interface{} { return chk(scalarDistribution.NewBinomialDistribution(f64(0.25), 7)) },
		"scalarDistribution.CategoricalDistribution": func() interface{} {
			return chk(scalarDistribution.NewCategoricalDistribution(dv(0.2, 0.3, 0.5)))
		},
		"scalarDistribution.CauchyDistribution":     func() interface{} { return chk(scalarDistribution.NewCauchyDistribution(f64(1), f64(2))) },
		"scalarDistribution.ChiSquaredDistribution": func() interface{} { return chk(scalarDistribution.NewChiSquaredDistribution(ad.Float64Type, 3)) },
		"scalarDistribution.DeltaDistribution":      func() interface{} { return chk(scalarDistribution.NewDeltaDistribution(f64(1.5))) },
		"scalarDistribution.ExponentialDistribution": func() interface{} { return chk(scalarDistribution.NewExponentialDistribution(f64(1.5))) },
		"scalarDistribution.GammaDistribution":       func() interface{} { return chk(scalarDistribution.NewGammaDistribution(f64(2), f64(3))) },
		"scalarDistribution.GeneralizedGammaDistribution": func() interface{} {
			return chk(scalarDistribution.NewGeneralizedGammaDistribution(f64(2), f64(3), f64(1.5)))
		},
		"scalarDistribution.GeometricDistribution": func() interface{} { return chk(scalarDistribution.NewGeometricDistribution(f64(0.25))) },
		"scalarDistribution.GevDistribution":       func() interface{} { return chk(scalarDistribution.NewGevDistribution(f64(1), f64(2), f64(0.25))) },
		"scalarDistribution.GParetoDistribution":   func() interface{} { return chk(scalarDistribution.NewGParetoDistribution(f64(1), f64(2), f64(0.25))) },
		"scalarDistribution.LaplaceDistribution":   func() interface{} { return chk(scalarDistribution.NewLaplaceDistribution(f64(1), f64(2))) },
		"scalarDistribution.NegativeBinomialDistribution": func() interface{} {
			return chk(scalarDistribution.NewNegativeBinomialDistribution(f64(3), f64(0.25)))
		},
		"scalarDistribution.ParetoDistribution":   func() interface{} { return chk(scalarDistribution.NewParetoDistribution(f64(1), f64(2))) },
		"scalarDistribution.PoissonDistribution":  func() interface{} { return chk(scalarDistribution.NewPoissonDistribution(f64(2.5))) },
		"scalarDistribution.PowerLawDistribution": func() interface{} { return chk(scalarDistribution.NewPowerLawDistribution(f64(2.5), f64(1))) },
		// composite scalar
		"scalarDistribution.Mixture":         func() interface{} { return sMix([]float64{0.5, 0.5}, smix(), S(1)[0]) },
		"scalarDistribution.PdfLogTransform": func() interface{} { return sLogT(smix(), 0.5) },
		"scalarDistribution.PdfTranslation":  func() interface{} { return sTransl(smix(), 0.5) },
		// vector families
		"vectorDistribution.NormalDistribution": func() interface{} {
			return chk(vectorDistribution.NewNormalDistribution(dv(1, 2), dm(2, 2, 2, 0.5, 0.5, 1)))
		},
		"vectorDistribution.SkewNormalDistribution": func() interface{} {
			return chk(vectorDistribution.NewSkewNormalDistribution(dv(1, 2), dm(2, 2, 2, 0.5, 0.5, 1), dv(0.5, -0.5), dv(1, 1)))
		},
		"vectorDistribution.TDistribution": func() interface{} {
			return chk(vectorDistribution.NewTDistribution(f64(3), dv(1, 2), dm(2, 2, 2, 0.5, 0.5, 1)))
		},
		"vectorDistribution.LogisticRegression": func() interface{} { return chk(vectorDistribution.NewLogisticRegression(dv(0.5, -1, 2))) },
		"vectorDistribution.ScalarId":           func() interface{} { return vId(smix(), S(1)[1]) },
		"vectorDistribution.ScalarIid":          func() interface{} { return chk(vectorDistribution.NewScalarIid(smix(), 3)) },
		"vectorDistribution.VectorId":           func() interface{} { return chk(vectorDistribution.NewVectorId(vmix(), vId(smix()))) },
		"vectorDistribution.VectorIid":          func() interface{} { return chk(vectorDistribution.NewVectorIid(vmix(), 2)) },
		"vectorDistribution.Mixture":            func() interface{} { return vMix([]float64{0.25, 0.75}, vmix(), vId(smix(), smix())) },
		"vectorDistribution.Hmm": func() interface{} {
			h := chk(vectorDistribution.NewHmm(pi(), tr(), nil, []statistics.ScalarPdf{smix(), sTransl(smix(), 1)})).(*vectorDistribution.Hmm)
			h.SetStartStates([]int{0})
			h.SetFinalStates([]int{1})
			return h
		},
		// matrix families
		"matrixDistribution.InverseWishartDistribution": func() interface{} {
			return chk(matrixDistribution.NewInverseWishartDistribution(f64(4), dm(2, 2, 2, 0.5, 0.5, 1)))
		},
		"matrixDistribution.NormalIWishartDistribution": func() interface{} {
			return chk(matrixDistribution.NewNormalIWishartDistribution(f64(2), f64(4), dv(1, 2), dm(2, 2, 2, 0.5, 0.5, 1)))
		},
		"matrixDistribution.VectorId":  func() interface{} { return mId(vmix(), vmix()) },
		"matrixDistribution.VectorIid": func() interface{} { return chk(matrixDistribution.NewVectorIid(vmix(), 2)) },
		"matrixDistribution.Mixture":   func() interface{} { return mMix([]float64{0.5, 0.5}, mmix(), mId(vmix(), vId(smix(), smix()))) },
		"matrixDistribution.Hmm": func() interface{} {
			return chk(matrixDistribution.NewHmm(pi(), tr(), nil, []statistics.VectorPdf{vmix(), vmix()}))
		},
		"matrixDistribution.ShapeHmm": func() interface{} {
			return chk(matrixDistribution.NewShapeHmm(pi(), tr(), nil, []statistics.MatrixPdf{mId(vmix()), mId(vmix())}))
		},
		// generic
		"generic.Mixture": func() interface{} { return chk(generic.NewMixture(dv(0.25, 0.75))) },
		"generic.Hmm": func() interface{} {
			p := chk(generic.NewHmmProbabilityVector(pi(), false)).(generic.HmmProbabilityVector)
			t := chk(generic.NewHmmTransitionMatrix(tr(), false)).(generic.HmmTransitionMatrix)
			h := chk(generic.NewHmm(p, t, []int{0, 1})).(*generic.Hmm)
			h.SetStartStates([]int{0})
			h.SetFinalStates([]int{1})
			return h
		},
		"generic.HmmProbabilityVector": func() interface{} { return chk(generic.NewHmmProbabilityVector(pi(), false)) },
		"generic.HmmTransitionMatrix":  func() interface{} { return chk(generic.NewHmmTransitionMatrix(tr(), false)) },
		"generic.ChmmTransitionMatrix": func() interface{} {
			c := chk(generic.NewEqualityConstraint([]int{0, 1, 1, 0})).(generic.EqualityConstraint)
			return chk(generic.NewChmmTransitionMatrix(tr(), []generic.EqualityConstraint{c}, false))
		},
		"generic.HhmmTransitionMatrix": func() interface{} {
			tree := generic.NewHmmNode(generic.NewHmmLeaf(0, 1), generic.NewHmmLeaf(1, 2))
			return chk(generic.NewHhmmTransitionMatrix(tr(), tree, false))
		},
	}
	return m
}

// ---------------------------------------------------------------- storage walk

var reflectTypeType = reflect.TypeOf((*reflect.Type)(nil)).Elem()

type storage struct {
	kind string
	path string
}

// walk records every storage identity (address of a pointee / slice array / map) reachable from v
func walkStorage(v reflect.Value, path string, seen map[uintptr]storage, depth int) {
	if !v.IsValid() || depth > 60 {
		return
	}
	t := v.Type()
	if t.Implements(reflectTypeType) && (t.Kind() == reflect.Ptr || t.Kind() == reflect.Interface) {
		return // run-time type descriptor (ScalarType): immutable
	}
	switch v.Kind() {
	case reflect.Ptr:
		if v.IsNil() || t.Elem().Size() == 0 {
			return
		}
		a := v.Pointer()
		if _, ok := seen[a]; ok {
			return
		}
		seen[a] = storage{"pointer to " + t.Elem().String(), path}
		walkStorage(v.Elem(), path, seen, depth+1)
	case reflect.Interface:
		if v.IsNil() {
			return
		}
		walkStorage(v.Elem(), path+".("+v.Elem().Type().String()+")", seen, depth+1)
	case reflect.Struct:
		for i := 0; i < v.NumField(); i++ {
			walkStorage(v.Field(i), path+"."+t.Field(i).Name, seen, depth+1)
		}
	case reflect.Slice:
		if v.IsNil() || v.Cap() == 0 || t.Elem().Size() == 0 {
			return
		}
		a := v.Pointer()
		if _, ok := seen[a]; !ok {
			seen[a] = storage{"array of " + t.String(), path}
		}
		for i := 0; i < v.Len(); i++ {
			walkStorage(v.Index(i), fmt.Sprintf("%s[%d]", path, i), seen, depth+1)
		}
	case reflect.Array:
		for i := 0; i < v.Len(); i++ {
			walkStorage(v.Index(i), fmt.Sprintf("%s[%d]", path, i), seen, depth+1)
		}
	case reflect.Map:
		if v.IsNil() {
			return
		}
		a := v.Pointer()
		if _, ok := seen[a]; ok {
			return
		}
		seen[a] = storage{"map " + t.String(), path}
		it := v.MapRange()
		for it.Next() {
			walkStorage(it.Value(), path+"[key]", seen, depth+1)
		}
	}
}

type sharedObj struct {
	Type      string `json:"type"`
	Method    string `json:"method"`
	Pos       string `json:"pos"`
	Kind      string `json:"kind"`
	PathOrig  string `json:"path_original"`
	PathClone string `json:"path_clone"`
}

func sharedBetween(orig, clone reflect.Value) []storage2 {
	so, sc := map[uintptr]storage{}, map[uintptr]storage{}
	walkStorage(orig, "orig", so, 0)
	walkStorage(clone, "clone", sc, 0)
	var out []storage2
	for a, s := range sc {
		if o, ok := so[a]; ok {
			out = append(out, storage2{s.kind, o.path, s.path})
		}
	}
	sort.Slice(out, func(i, j int) bool { return out[i].po+out[i].pc < out[j].po+out[j].pc })
	return out
}

type storage2 struct{ kind, po, pc string }

// Shared data that is IMMUTABLE after construction (read by the source: assigned only by the constructors
// newChmmTransitionMatrix / NewHhmmTransitionMatrix, read-only in every method that a job can reach):
// the structure descriptions of the constrained / hierarchical transition matrices.  Sharing them between
// clones is not a write-set overlap; they are reported separately (shared_immutable) and not as a defect.
var immutableShared = []struct{ typ, field, why string }{
	{"generic.ChmmTransitionMatrix", ".constraints", "equality constraints: list of index pairs fixed by newChmmTransitionMatrix"},
	{"generic.ChmmTransitionMatrix", ".counts", "occurrence counts derived from the constraints by newChmmTransitionMatrix"},
	{"generic.HhmmTransitionMatrix", ".Tree", "HmmNode tree describing the hierarchy, fixed by NewHhmmTransitionMatrix"},
}

func isImmutableShared(typ, pathOrig string) string {
	for _, e := range immutableShared {
		if e.typ != typ {
			continue
		}
		// path = orig[.(Type)]<field>...
		p := strings.TrimPrefix(pathOrig, "orig")
		if strings.HasPrefix(p, ".(") {
			if i := strings.Index(p, ")"); i >= 0 {
				p = p[i+1:]
			}
		}
		if strings.HasPrefix(p, e.field) {
			return e.why
		}
	}
	return ""
}

func freshMain(o Opts) {
	repo := os.Getenv("C17_REPO")
	if repo == "" {
		repo = "/repo"
	}
	inv, errs := cloneInventory(repo)
	inst := freshInstances()
	var uncovered []cloneMethod
	var shared, sharedImm []sharedObj
	var problems []string
	note := func(so sharedObj) {
		if why := isImmutableShared(so.Type, so.PathOrig); why != "" {
			so.Kind += " [immutable: " + why + "]"
			sharedImm = append(sharedImm, so)
			return
		}
		shared = append(shared, so)
	}
	checked, objects := 0, 0
	used := map[string]bool{}
	for _, cm := range inv {
		key := cm.Pkg + "." + cm.Type
		mk, ok := inst[key]
		if !ok {
			uncovered = append(uncovered, cm)
			continue
		}
		used[key] = true
		func() {
			defer func() {
				if r := recover(); r != nil {
					problems = append(problems, fmt.Sprintf("%s.%s: %v", key, cm.Method, r))
				}
			}()
			obj := reflect.ValueOf(mk())
			m := obj.MethodByName(cm.Method)
			if !m.IsValid() && obj.Kind() != reflect.Ptr {
				p := reflect.New(obj.Type())
				p.Elem().Set(obj)
				m = p.MethodByName(cm.Method)
			}
			if !m.IsValid() {
				problems = append(problems, fmt.Sprintf("%s has no method %s at run time", key, cm.Method))
				return
			}
			res := m.Call(nil)
			if len(res) == 0 {
				problems = append(problems, fmt.Sprintf("%s.%s returns nothing", key, cm.Method))
				return
			}
			checked++
			so := map[uintptr]storage{}
			walkStorage(obj, "orig", so, 0)
			objects += len(so)
			for _, s := range sharedBetween(obj, res[0]) {
				note(sharedObj{key, cm.Method, cm.Pos, s.kind, s.po, s.pc})
			}
			// the clones of ONE original must also be fresh with respect to each other (per-thread clones)
			res2 := m.Call(nil)
			for _, s := range sharedBetween(res[0], res2[0]) {
				note(sharedObj{key, cm.Method + " (two clones of one original)", cm.Pos, s.kind, s.po, s.pc})
			}
		}()
	}
	var stale []string
	for k := range inst {
		if !used[k] {
			stale = append(stale, k)
		}
	}
	sort.Strings(stale)
	// the shortest access path is the best witness of the root cause; keep at most 60 entries
	sort.SliceStable(shared, func(i, j int) bool { return len(shared[i].PathClone) < len(shared[j].PathClone) })
	sharedTotal := len(shared)
	if len(shared) > 60 {
		shared = shared[:60]
	}
	out := map[string]interface{}{"repo": repo, "shared_total": sharedTotal, "inventory": len(inv), "checked": checked, "uncovered": uncovered, "shared": shared, "shared_immutable": sharedImm,
		"problems": problems, "parse_errors": errs, "instances_without_clone_method": stale, "storage_objects_walked": objects,
		"ignored": "reflect.Type descriptors, function values, strings, zero-capacity slices, zero-size objects"}
	b, _ := json.MarshalIndent(out, "", " ")
	if err := os.WriteFile(filepath.Join(o.Out, "fresh.json"), b, 0644); err != nil {
		Die("fresh: %v", err)
	}
}
