// C17 harness, part 6 (round 3): COMPOSITE models - distributions whose emissions / components are
// themselves stateful distributions (mixtures with scratch scalars, transformed densities with a
// work cell).  The batch evaluation routines clone every emission once per thread and call LogPdf
// on the clones concurrently: a clone that is not deep shares its scratch cells between threads.
//
//   site "comp"  (kind eval-*) : XxxStdDataSet.EvaluateLogPdf on pools 1..8 against the table
//                                obtained by calling LogPdf on the original distributions
//                                sequentially - BITWISE equal
//   full kinds hmm-smix, mix-smix, mhmm-vmix, hmm-logt, hmm-transl : whole Baum-Welch / EM
//                                estimations of composite models across pools (runFull)
package main

import (
	"fmt"
	"math"
	"strings"

	. "adharness/common"

	ad "github.com/pbenner/autodiff"
	"github.com/pbenner/autodiff/statistics"
	"github.com/pbenner/autodiff/statistics/matrixDistribution"
	"github.com/pbenner/autodiff/statistics/matrixEstimator"
	"github.com/pbenner/autodiff/statistics/scalarDistribution"
	"github.com/pbenner/autodiff/statistics/scalarEstimator"
	"github.com/pbenner/autodiff/statistics/vectorDistribution"
	"github.com/pbenner/autodiff/statistics/vectorEstimator"
	tp "github.com/pbenner/threadpool"
)

// ---------------------------------------------------------------- composite distributions

func f64(x float64) ad.Scalar { return ad.NewFloat64(x) }

func sNormal(mu, sigma float64) statistics.ScalarPdf {
	d, err := scalarDistribution.NewNormalDistribution(f64(mu), f64(sigma))
	must(err)
	return d
}

func sMix(w []float64, e ...statistics.ScalarPdf) statistics.ScalarPdf {
	d, err := scalarDistribution.NewMixture(ad.NewDenseFloat64Vector(w), e)
	must(err)
	return d
}

func sLogT(e statistics.ScalarPdf, c float64) statistics.ScalarPdf {
	d, err := scalarDistribution.NewPdfLogTransform(e, c)
	must(err)
	return d
}

func sTransl(e statistics.ScalarPdf, c float64) statistics.ScalarPdf {
	d, err := scalarDistribution.NewPdfTranslation(e, c)
	must(err)
	return d
}

func vId(e ...statistics.ScalarPdf) statistics.VectorPdf {
	d, err := vectorDistribution.NewScalarId(e...)
	must(err)
	return d
}

func vMix(w []float64, e ...statistics.VectorPdf) statistics.VectorPdf {
	d, err := vectorDistribution.NewMixture(ad.NewDenseFloat64Vector(w), e)
	must(err)
	return d
}

func vHmm(e ...statistics.ScalarPdf) statistics.VectorPdf {
	pi := ad.NewDenseFloat64Vector([]float64{0.6, 0.4})
	tr := ad.NewDenseFloat64Matrix([]float64{0.7, 0.3, 0.4, 0.6}, 2, 2)
	d, err := vectorDistribution.NewHmm(pi, tr, nil, e)
	must(err)
	return d
}

func mId(e ...statistics.VectorPdf) statistics.MatrixPdf {
	d, err := matrixDistribution.NewVectorId(e...)
	must(err)
	return d
}

func mMix(w []float64, e ...statistics.MatrixPdf) statistics.MatrixPdf {
	d, err := matrixDistribution.NewMixture(ad.NewDenseFloat64Vector(w), e)
	must(err)
	return d
}

func mHmm(e ...statistics.VectorPdf) statistics.MatrixPdf {
	pi := ad.NewDenseFloat64Vector([]float64{0.6, 0.4})
	tr := ad.NewDenseFloat64Matrix([]float64{0.7, 0.3, 0.4, 0.6}, 2, 2)
	d, err := matrixDistribution.NewHmm(pi, tr, nil, e)
	must(err)
	return d
}

// the scalar emissions of the composite kinds: every one carries scratch state below its top level
func scalarComposites(variant int) []statistics.ScalarPdf {
	m1 := sMix([]float64{0.3, 0.7}, sNormal(-2.5, 0.75), sNormal(-1.25, 1.5))
	m2 := sMix([]float64{0.5, 0.25, 0.25}, sNormal(2.5, 1.0), sNormal(3.5, 0.5), sNormal(0.25, 2.0))
	switch variant % 4 {
	case 0: // mixtures of normals
		return []statistics.ScalarPdf{m1, m2}
	case 1: // mixture of mixtures
		return []statistics.ScalarPdf{sMix([]float64{0.5, 0.5}, m1, m2), sMix([]float64{0.2, 0.8}, m2, sNormal(0, 3))}
	case 2: // transformed densities (positive data), also inside a mixture
		return []statistics.ScalarPdf{sLogT(sNormal(0.5, 1.0), 1.0), sMix([]float64{0.5, 0.5}, sLogT(sNormal(1.0, 0.5), 0.5), sLogT(sNormal(0.0, 1.0), 2.0)),
			sTransl(sLogT(sNormal(0.75, 1.25), 0.25), 0.5)}
	}
	// translations of mixtures
	return []statistics.ScalarPdf{sTransl(m1, 0.5), sTransl(m2, -0.25), sMix([]float64{0.5, 0.5}, sTransl(sNormal(0, 1), 1.0), sNormal(1, 2))}
}

// ---------------------------------------------------------------- batch evaluation

type CompCfg struct {
	Kind    string `json:"kind"`    // eval-hmm-s | eval-mix-s | eval-hmm-v | eval-mix-v | eval-mix-m
	Variant int    `json:"variant"` // which composite emissions
	N       int    `json:"n"`       // number of observations (columns of the log-pdf table)
	Seed    int    `json:"seed"`
}

var compKinds = []string{"eval-hmm-s", "eval-mix-s", "eval-hmm-v", "eval-mix-v", "eval-mix-m"}

func genComp(r *Rng) *CompCfg {
	return &CompCfg{Kind: compKinds[r.Intn(len(compKinds))], Variant: r.Intn(4), N: []int{1, 2, 3, 7, 8, 9, 40, 150}[r.Intn(8)], Seed: r.Intn(1 << 20)}
}

func compData(cfg *CompCfg) []float64 {
	r := NewRng(uint64(cfg.Seed)*1000003 + 17)
	x := make([]float64, cfg.N)
	for i := range x {
		base := -2.0
		if r.Bool() {
			base = 3.0
		}
		x[i] = base + dy(r, -1, 1, 6)
		if cfg.Variant%4 == 2 && (cfg.Kind == "eval-hmm-s" || cfg.Kind == "eval-mix-s") {
			x[i] = math.Abs(x[i]) + 0.125 // log transforms: positive data
		}
	}
	return x
}

// runComp returns the table p[j][i] = log pdf of emission j on observation i, flattened:
// direct = true: LogPdf called on the original distributions one after the other (no pool, no clone);
// otherwise through EvaluateLogPdf of the data set on the pool.
func runComp(cfg *CompCfg, pc PoolCfg, direct bool) (tab []float64, errd bool, panicked string) {
	defer func() {
		if r := recover(); r != nil {
			panicked = fmt.Sprint(r)
		}
	}()
	x := compData(cfg)
	n := len(x)
	t := ad.Float64Type
	var pool tp.ThreadPool
	if !direct {
		pool = newPool(pc)
		defer pool.Stop()
	}
	r := ad.NullFloat64()
	var aerr error
	switch cfg.Kind {
	case "eval-hmm-s", "eval-mix-s":
		ed := scalarComposites(cfg.Variant)
		if direct {
			for j := range ed {
				for i := 0; i < n; i++ {
					if err := ed[j].LogPdf(r, ad.ConstFloat64(x[i])); err != nil {
						return nil, true, ""
					}
					tab = append(tab, r.GetFloat64())
				}
			}
			return
		}
		if cfg.Kind == "eval-hmm-s" {
			// two records so that the offsets are exercised
			cut := n / 2
			xs := []ad.ConstVector{ad.NewDenseFloat64Vector(append([]float64{}, x[:cut]...)), ad.NewDenseFloat64Vector(append([]float64{}, x[cut:]...))}
			if cut == 0 {
				xs = xs[1:]
			}
			ds, err := vectorEstimator.NewHmmStdDataSet(t, xs, len(ed))
			must(err)
			inPool(pool, pc.Nested, func(q tp.ThreadPool) { aerr = ds.EvaluateLogPdf(ed, q) })
			if aerr != nil {
				return nil, true, ""
			}
			for j := range ed {
				for d := 0; d < ds.GetNRecords(); d++ {
					rec := ds.GetRecord(d)
					for k := 0; k < rec.GetN(); k++ {
						must(rec.LogPdf(r, j, k))
						tab = append(tab, r.GetFloat64())
					}
				}
			}
			return
		}
		ds, err := scalarEstimator.NewMixtureStdDataSet(t, ad.NewDenseFloat64Vector(append([]float64{}, x...)), len(ed))
		must(err)
		inPool(pool, pc.Nested, func(q tp.ThreadPool) { aerr = ds.EvaluateLogPdf(ed, q) })
		if aerr != nil {
			return nil, true, ""
		}
		for j := range ed {
			for i := 0; i < n; i++ {
				must(ds.LogPdf(r, j, i))
				tab = append(tab, r.GetFloat64())
			}
		}
		return
	case "eval-hmm-v", "eval-mix-v":
		// vector observations of dimension 2; emissions: vector mixtures over products of composite scalars,
		// and (mixture data set) an HMM with mixture emissions as a component
		sc := scalarComposites(cfg.Variant &^ 2) // variants 0 / 1: defined on the whole line
		sd := scalarComposites((cfg.Variant &^ 2) ^ 1)
		ed := []statistics.VectorPdf{
			vMix([]float64{0.5, 0.5}, vId(sc[0], sc[1]), vId(sc[1], sc[0])),
			vMix([]float64{0.25, 0.75}, vId(sd[0], sc[0]), vId(sc[1], sd[1])),
			vHmm(sc[0], sc[1])}
		obs := make([]ad.ConstVector, 0, n)
		for i := 0; i < n; i++ {
			obs = append(obs, ad.NewDenseFloat64Vector([]float64{x[i], x[(i+1)%n] * 0.5}))
		}
		if direct {
			for j := range ed {
				for i := 0; i < n; i++ {
					if err := ed[j].LogPdf(r, obs[i]); err != nil {
						return nil, true, ""
					}
					tab = append(tab, r.GetFloat64())
				}
			}
			return
		}
		if cfg.Kind == "eval-hmm-v" {
			// matrixEstimator.HmmStdDataSet: records are matrices whose rows are the observations
			flatx := []float64{}
			for i := 0; i < n; i++ {
				flatx = append(flatx, x[i], x[(i+1)%n]*0.5)
			}
			ds, err := matrixEstimator.NewHmmStdDataSet(t, []ad.ConstMatrix{ad.NewDenseFloat64Matrix(flatx, n, 2)}, len(ed))
			must(err)
			inPool(pool, pc.Nested, func(q tp.ThreadPool) { aerr = ds.EvaluateLogPdf(ed, q) })
			if aerr != nil {
				return nil, true, ""
			}
			rec := ds.GetRecord(0)
			for j := range ed {
				for k := 0; k < rec.GetN(); k++ {
					must(rec.LogPdf(r, j, k))
					tab = append(tab, r.GetFloat64())
				}
			}
			return
		}
		ds, err := vectorEstimator.NewMixtureStdDataSet(t, obs, len(ed))
		must(err)
		inPool(pool, pc.Nested, func(q tp.ThreadPool) { aerr = ds.EvaluateLogPdf(ed, q) })
		if aerr != nil {
			return nil, true, ""
		}
		for j := range ed {
			for i := 0; i < n; i++ {
				must(ds.LogPdf(r, j, i))
				tab = append(tab, r.GetFloat64())
			}
		}
		return
	case "eval-mix-m":
		// matrix observations 2 x 2; components: matrix mixtures and an HMM with vector-mixture emissions
		sc := scalarComposites(cfg.Variant &^ 2)
		v1 := vMix([]float64{0.5, 0.5}, vId(sc[0], sc[1]), vId(sc[1], sc[0]))
		v2 := vId(sc[1], sc[1])
		ed := []statistics.MatrixPdf{
			mMix([]float64{0.5, 0.5}, mId(v1, v2), mId(v2, v1)),
			mHmm(v1, v2)}
		obs := make([]ad.ConstMatrix, 0, n)
		for i := 0; i < n; i++ {
			obs = append(obs, ad.NewDenseFloat64Matrix([]float64{x[i], x[(i+1)%n] * 0.5, x[(i+2)%n], -x[i]}, 2, 2))
		}
		if direct {
			for j := range ed {
				for i := 0; i < n; i++ {
					if err := ed[j].LogPdf(r, obs[i]); err != nil {
						return nil, true, ""
					}
					tab = append(tab, r.GetFloat64())
				}
			}
			return
		}
		ds, err := matrixEstimator.NewMixtureStdDataSet(t, obs, len(ed))
		must(err)
		inPool(pool, pc.Nested, func(q tp.ThreadPool) { aerr = ds.EvaluateLogPdf(ed, q) })
		if aerr != nil {
			return nil, true, ""
		}
		for j := range ed {
			for i := 0; i < n; i++ {
				must(ds.LogPdf(r, j, i))
				tab = append(tab, r.GetFloat64())
			}
		}
		return
	}
	panic("unknown composite kind " + cfg.Kind)
}

func bitsSame(a, b float64) bool {
	return math.Float64bits(a) == math.Float64bits(b) || (math.IsNaN(a) && math.IsNaN(b))
}

// number of positions where the two tables differ bitwise (and the first such position)
func tabDiff(a, b []float64) (int, int) {
	if len(a) != len(b) {
		return len(a) + len(b) + 1, 0
	}
	nd, first := 0, -1
	for i := range a {
		if !bitsSame(a[i], b[i]) {
			nd++
			if first < 0 {
				first = i
			}
		}
	}
	return nd, first
}

// correspondence cases: one per pool; checks: the number of bitwise differences is 0, and the first
// differing entry (or a sample of entries) equal as rationals
func (g *gen) compCases(cfg *CompCfg) {
	ref, rerr, rpn := runComp(cfg, PoolCfg{K: 1}, true)
	pools := poolSet(g.rng, g.tier, cfg.N)
	for _, pc := range pools {
		par, errd, pn := runComp(cfg, pc, false)
		var checks []string
		out := ""
		if pn != "" || rpn != "" || errd != rerr || len(par) != len(ref) {
			checks = []string{failQ}
			out = fmt.Sprintf("err=%v referr=%v len=%d reflen=%d", errd, rerr, len(par), len(ref))
		} else {
			nd, first := tabDiff(par, ref)
			checks = append(checks, fmt.Sprintf("KNear (%d#1) (0#1) (0#1)", nd))
			idx := []int{}
			if first >= 0 {
				idx = append(idx, first)
			}
			for s := 0; s < 6 && len(par) > 0; s++ {
				idx = append(idx, (s*len(par))/6)
			}
			for _, i := range idx {
				checks = append(checks, fmt.Sprintf("KNear %s %s (0#1)", qq(par[i]), qq(ref[i])))
			}
			out = fmt.Sprintf("bitwise differences=%d of %d", nd, len(par))
			if first >= 0 {
				out += fmt.Sprintf(" first at %d: pool=%v direct=%v", first, par[first], ref[first])
			}
		}
		g.w.Add(caseStr(false, pc.K, 0, true, 0, nil, checks), RawCase{Site: "comp", Pool: pc, Comp: cfg, Out: out, Panic: pn + rpn},
			fmt.Sprintf("comp/%s/v%d/n%d/k%d", cfg.Kind, cfg.Variant, cfg.N, pc.K), pc.K >= 2 && cfg.N >= 2)
		g.w.Count("comp:" + cfg.Kind + ":" + rel(pc.K, cfg.N))
	}
}

// ---------------------------------------------------------------- composite estimators (kinds of FullCfg)

var compositeFullKinds = []string{"hmm-smix", "mix-smix", "mhmm-vmix", "hmm-logt", "hmm-transl"}

// kinds that kill the process on the unchanged tree (known finding): refused instead of run
var compositeFatal = map[string]string{"mhmm-vmix": "not driven: vectorDistribution.Mixture.SetParameters recurses without end (F-VMIX-SETPARAMS-RECURSION)"}

func isCompositeFull(k string) bool {
	for _, c := range compositeFullKinds {
		if c == k {
			return true
		}
	}
	return false
}

func smixEstimator(mu1, mu2 float64, steps int) statistics.ScalarEstimator {
	e1, _ := scalarEstimator.NewNormalEstimator(mu1, 1.5, 1e-4)
	e2, _ := scalarEstimator.NewNormalEstimator(mu2, 1.5, 1e-4)
	m, err := scalarEstimator.NewMixtureEstimator([]float64{0.5, 0.5}, []statistics.ScalarEstimator{e1, e2}, 0.0, steps)
	must(err)
	return m
}

func genCompositeFull(r *Rng, c *FullCfg) {
	// data: sequences of bimodal observations; positive for the transformed kinds
	ns := []int{1, 2, 3, 5, 9}[r.Intn(5)]
	if c.Kind == "mix-smix" {
		ns = 1
	}
	c.Seqs = nil
	for s := 0; s < ns; s++ {
		l := r.Range(3, 8)
		if c.Kind == "mix-smix" {
			l = []int{4, 7, 8, 12, 17}[r.Intn(5)]
		}
		if c.Kind == "mhmm-vmix" {
			l = 2 * r.Range(2, 5)
		}
		seq := make([]float64, l)
		for i := range seq {
			base := -2.0
			if r.Bool() {
				base = 3.0
			}
			seq[i] = base + dy(r, -1, 1, 4)
			if c.Kind == "hmm-logt" || c.Kind == "hmm-transl" {
				seq[i] = math.Abs(seq[i]) + 0.25
			}
		}
		c.Seqs = append(c.Seqs, seq)
	}
}

// the estimator of a composite kind; returns its parameters after cfg.Steps steps on the pool
func runCompositeFull(cfg *FullCfg, pc PoolCfg, pool tp.ThreadPool) (p ad.Vector, aerr error) {
	pi := ad.NewDenseFloat64Vector([]float64{0.6, 0.4})
	tr := ad.NewDenseFloat64Matrix([]float64{0.7, 0.3, 0.4, 0.6}, 2, 2)
	vecs := func() []ad.ConstVector {
		xs := make([]ad.ConstVector, len(cfg.Seqs))
		for i, s := range cfg.Seqs {
			xs[i] = ad.NewDenseFloat64Vector(append([]float64{}, s...))
		}
		return xs
	}
	if why, bad := compositeFatal[cfg.Kind]; bad {
		panic(why)
	}
	switch cfg.Kind {
	case "hmm-smix":
		est, err := vectorEstimator.NewHmmEstimator(pi, tr, nil, nil, nil,
			[]statistics.ScalarEstimator{smixEstimator(-2.5, -1.0, 2), smixEstimator(2.0, 3.5, 2)}, 0.0, cfg.Steps)
		must(err)
		est.OptimizeEmissions, est.OptimizeTransitions = !cfg.NoEmis, !cfg.NoF
		inPool(pool, pc.Nested, func(q tp.ThreadPool) { aerr = est.EstimateOnData(vecs(), nil, q) })
		p = est.GetParameters()
	case "mix-smix":
		est, err := scalarEstimator.NewMixtureEstimator([]float64{0.5, 0.5},
			[]statistics.ScalarEstimator{smixEstimator(-2.5, -1.0, 2), smixEstimator(2.0, 3.5, 2)}, 0.0, cfg.Steps)
		must(err)
		est.OptimizeEmissions, est.OptimizeWeights = !cfg.NoEmis, !cfg.NoF
		x := ad.NewDenseFloat64Vector(append([]float64{}, cfg.Seqs[0]...))
		inPool(pool, pc.Nested, func(q tp.ThreadPool) { aerr = est.EstimateOnData(x, nil, q) })
		p = est.GetParameters()
	case "mhmm-vmix":
		mk := func(a, b float64) statistics.VectorEstimator {
			a1, _ := scalarEstimator.NewNormalEstimator(a, 2.0, 1e-4)
			a2, _ := scalarEstimator.NewNormalEstimator(b, 2.0, 1e-4)
			v1, err := vectorEstimator.NewScalarId(a1, a2)
			must(err)
			b1, _ := scalarEstimator.NewNormalEstimator(b, 1.5, 1e-4)
			b2, _ := scalarEstimator.NewNormalEstimator(a, 1.5, 1e-4)
			v2, err := vectorEstimator.NewScalarId(b1, b2)
			must(err)
			m, err := vectorEstimator.NewMixtureEstimator([]float64{0.5, 0.5}, []statistics.VectorEstimator{v1, v2}, 0.0, 2)
			must(err)
			return m
		}
		est, err := matrixEstimator.NewHmmEstimator(pi, tr, nil, nil, nil, []statistics.VectorEstimator{mk(-2, 3), mk(2.5, -1)}, 0.0, cfg.Steps)
		must(err)
		est.OptimizeEmissions, est.OptimizeTransitions = !cfg.NoEmis, !cfg.NoF
		xs := make([]ad.ConstMatrix, len(cfg.Seqs))
		for i, s := range cfg.Seqs {
			xs[i] = ad.NewDenseFloat64Matrix(append([]float64{}, s...), len(s)/2, 2)
		}
		inPool(pool, pc.Nested, func(q tp.ThreadPool) { aerr = est.EstimateOnData(xs, nil, q) })
		p = est.GetParameters()
	case "hmm-logt", "hmm-transl":
		mk := func(mu float64) statistics.ScalarEstimator {
			n, _ := scalarEstimator.NewNormalEstimator(mu, 1.0, 1e-4)
			if cfg.Kind == "hmm-logt" {
				e, err := scalarEstimator.NewLogTransformEstimator(n, 0.5)
				must(err)
				return e
			}
			e, err := scalarEstimator.NewTranslationEstimator(n, 0.5)
			must(err)
			return e
		}
		a, b := mk(0.5), mk(1.5)
		if cfg.Kind == "hmm-transl" {
			a, b = mk(2.0), mk(3.5)
		}
		est, err := vectorEstimator.NewHmmEstimator(pi, tr, nil, nil, nil, []statistics.ScalarEstimator{a, b}, 0.0, cfg.Steps)
		must(err)
		est.OptimizeEmissions, est.OptimizeTransitions = !cfg.NoEmis, !cfg.NoF
		inPool(pool, pc.Nested, func(q tp.ThreadPool) { aerr = est.EstimateOnData(vecs(), nil, q) })
		p = est.GetParameters()
	default:
		panic("unknown kind " + cfg.Kind)
	}
	return
}

var _ = strings.HasPrefix
