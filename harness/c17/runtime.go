// C17 harness, part 3: whole estimators through the public API, runtime sampling under the
// race detector with a deadline, the property-level hunt and replay.
package main

import (
	"encoding/json"
	"fmt"
	"math"
	"os"
	"path/filepath"
	"runtime"
	"time"

	. "adharness/common"

	tp "github.com/pbenner/threadpool"
)

// ---------------------------------------------------------------- full estimators (EvaluateLogPdf + step + nested Emissions)

func near(a, b []float64, rel float64) bool {
	if len(a) != len(b) {
		return false
	}
	for i := range a {
		if math.IsNaN(a[i]) && math.IsNaN(b[i]) {
			continue
		}
		if a[i] == b[i] {
			continue
		}
		if math.IsNaN(a[i]) != math.IsNaN(b[i]) {
			return false // NaN on one side only (every comparison with NaN is false: it would pass the test below)
		}
		if math.Abs(a[i]-b[i]) > rel*math.Max(1, math.Max(math.Abs(a[i]), math.Abs(b[i]))) {
			return false
		}
	}
	return true
}

// ---------------------------------------------------------------- a configuration of any site, with its property-level oracle

type Config struct {
	Site string     `json:"site"`
	Em   *EmCfg     `json:"em,omitempty"`
	Bw   *BwCfg     `json:"bw,omitempty"`
	Nm   *NormalCfg `json:"normal,omitempty"`
	X    *XCfg      `json:"x,omitempty"`
	Full *FullCfg   `json:"full,omitempty"`
	Saga *SagaCfg   `json:"saga,omitempty"`
	Num  *NumericCfg `json:"numeric,omitempty"`
	Comp *CompCfg   `json:"comp,omitempty"`
	ErrFlow *ErrFlowCfg `json:"errflow,omitempty"`
	Batch *BatchCfg `json:"batch,omitempty"`
}

func flat(xs ...interface{}) []float64 {
	var out []float64
	for _, x := range xs {
		switch v := x.(type) {
		case float64:
			out = append(out, v)
		case []float64:
			out = append(out, v...)
		case [][]float64:
			for _, r := range v {
				out = append(out, r...)
			}
		}
	}
	return out
}

// observable vector of one run (error flag first)
func (c *Config) run(pc PoolCfg) (obs []float64, errd bool, panicked string) {
	switch c.Site {
	case "em":
		o, pn := runEM(c.Em, -1, pc)
		if o.Err {
			return nil, true, pn
		}
		return flat(o.Lik, o.Gamma, o.Lw), false, pn
	case "bw":
		o, pn := runBW(c.Bw, -1, pc)
		if o.Err {
			return nil, true, pn
		}
		return flat(o.Lik, o.Gamma, o.Pi, o.Tr), false, pn
	case "normal":
		o, pn := runNormal(c.Nm, pc)
		return flat(o.Mu, o.Sigma), o.Err, pn
	case "x":
		return runX(c.X, pc)
	case "full":
		return runFull(c.Full, pc)
	case "saga":
		// only the schedule-independent observables: the worker partition and the error flag (the estimate
		// itself is subject to the known finding F-SAGA-THETA-RACE and is compared, with retries, by the
		// correspondence stream); reference = the same partition executed sequentially
		o, pn := runSaga(c.Saga, pc, pc.K == 1)
		return []float64{float64(len(o.Theta))}, o.Err, pn
	case "numeric":
		o, pn := runNumeric(c.Num, -1, pc)
		return o.Par, o.Err, pn
	case "errflow":
		e, fired, pn, _ := runErrFlowStable(c.ErrFlow, pc)
		f := 0.0
		if fired {
			f = 1
		}
		return []float64{f}, e, pn
	case "batch":
		o, pn := runBatch(c.Batch, pc)
		return o.Par, o.Err, pn
	case "comp":
		// batch evaluation of composite emissions; the sequential reference (pool of one thread) is the table
		// obtained by direct LogPdf calls on the original distributions
		return runComp(c.Comp, pc, pc.K == 1)
	}
	return nil, false, "unknown site"
}

// the property on the implementation: the parallel run returns what the sequential run returns
// (same error flag; observables within the reassociation tolerance)
func (c *Config) oracle(pc PoolCfg, deadline time.Duration) string {
	if c.Site == "errflow" {
		ch := make(chan string, 1)
		go func() { ch <- errFlowOracle(c.ErrFlow, pc) }()
		select {
		case m := <-ch:
			return m
		case <-time.After(deadline):
			return fmt.Sprintf("deadline of %v exceeded (deadlock in Wait?)", deadline)
		}
	}
	if c.Site == "saga" {
		// round 7: every epoch evaluates exactly the samples it drew (multiset), on this pool
		ch := make(chan string, 1)
		go func() { ch <- sagaEvalOracle(c.Saga, pc) }()
		select {
		case m := <-ch:
			if m != "" {
				return m
			}
		case <-time.After(deadline):
			return fmt.Sprintf("deadline of %v exceeded (deadlock in Wait?)", deadline)
		}
	}
	ref, rerr, rpn := c.run(PoolCfg{K: 1})
	type res struct {
		obs []float64
		err bool
		pn  string
	}
	ch := make(chan res, 1)
	go func() {
		o, e, p := c.run(pc)
		ch <- res{o, e, p}
	}()
	select {
	case r := <-ch:
		switch {
		case r.pn != "" && rpn == "":
			return "panic in the parallel run only: " + r.pn
		case r.err != rerr:
			return fmt.Sprintf("error flag differs: sequential=%v parallel=%v", rerr, r.err)
		case !r.err && c.Site == "comp" && func() bool { nd, _ := tabDiff(r.obs, ref); return nd != 0 }():
			nd, first := tabDiff(r.obs, ref)
			if len(r.obs) != len(ref) {
				return fmt.Sprintf("result differs from the sequential run: %d table entries instead of %d", len(r.obs), len(ref))
			}
			return fmt.Sprintf("result differs from the sequential run: %d of %d log-densities differ bitwise, first at %d: sequential=%v parallel=%v",
				nd, len(ref), first, ref[first], r.obs[first])
		case !r.err && !near(r.obs, ref, 1e-9):
			return fmt.Sprintf("result differs from the sequential run: sequential=%v parallel=%v", ref, r.obs)
		}
		if c.Site == "batch" && c.Batch.G == nil && r.pn == "" {
			// nothing lost, nothing counted twice, independently of the model: an unweighted observation counts like one
			// of log-weight 0 (the two branches of NewObservation use different accumulators: counts vs. log-sums)
			alt := *c.Batch
			alt.G = make(JFloats, alt.n())
			if ao, apn := runBatch(&alt, PoolCfg{K: 1}); apn == "" {
				switch {
				case ao.Err != r.err:
					return fmt.Sprintf("unweighted estimation error=%v but the sequential estimation with all log-weights 0 error=%v (a partial sum is lost or counted twice)", r.err, ao.Err)
				case !r.err && !near(r.obs, ao.Par, 1e-9):
					return fmt.Sprintf("unweighted estimate differs from the sequential estimate with all log-weights 0 (a partial sum is lost or counted twice): log-weights 0=%v unweighted on the pool=%v", ao.Par, r.obs)
				}
			}
		}
		return ""
	case <-time.After(deadline):
		return fmt.Sprintf("deadline of %v exceeded (deadlock in Wait?)", deadline)
	}
}

func genConfig(r *Rng) *Config {
	if r.Intn(4) == 0 {
		// error propagation: a failing component on the kinds whose error path is clean on the unchanged tree
		// (the known losses numeric / shapehmm-logpdf / logt are demonstrated by --extra errflow)
		c := genErrFlow(r, r.Intn(nErrFlowClean))
		return &Config{Site: "errflow", ErrFlow: c}
	}
	switch r.Intn(12) {
	case 11:
		return &Config{Site: "batch", Batch: genBatch(r)}
	case 9, 10:
		return &Config{Site: "comp", Comp: genComp(r)}
	case 6:
		return &Config{Site: "saga", Saga: genSaga(r)}
	case 7:
		return &Config{Site: "numeric", Num: genNumeric(r)}
	case 0:
		c := &Config{Site: "em", Em: genEm(r)}
		c.Em.NoEmis, c.Em.NoWeights = r.Intn(3) == 0, r.Intn(3) == 0
		return c
	case 1:
		c := &Config{Site: "bw", Bw: genBw(r)}
		c.Bw.NoEmis = r.Intn(3) == 0
		return c
	case 2:
		return &Config{Site: "normal", Nm: genNormal(r)}
	case 3:
		return &Config{Site: "x", X: genX(r)}
	case 4:
		c := &Config{Site: "bw", Bw: genBw(r)}
		if len(c.Bw.Lens) >= 2 && r.Bool() { // error injection
			c.Bw.FailRec = r.Intn(len(c.Bw.Lens))
			if c.Bw.Lens[c.Bw.FailRec] < 2 {
				c.Bw.FailRec = -1
			} else {
				c.Bw.FailPos = 1
			}
		}
		return c
	}
	return &Config{Site: "full", Full: genFull(r)}
}

func genPool(r *Rng) PoolCfg {
	return PoolCfg{K: r.Range(2, 8), Buf: []int{1, 2, 100}[r.Intn(3)], Nested: []int{0, 0, 1, 2}[r.Intn(4)], Yield: r.Intn(2) == 0}
}

// ---------------------------------------------------------------- race / deadline sampling

func raceMain(o Opts) {
	r := NewRng(o.Seed + 7919)
	hist := map[string]int{}
	fails := []map[string]interface{}{}
	t0 := time.Now()
	old := runtime.GOMAXPROCS(0)
	for i := 0; i < o.N; i++ {
		c := genConfig(r.Split())
		pc := genPool(r)
		gmp := []int{1, 2, 4, 16}[r.Intn(4)]
		runtime.GOMAXPROCS(gmp)
		// marker for the driver: race reports printed after this line belong to this configuration
		if cb, err := json.Marshal(map[string]interface{}{"config": c, "pool": pc, "gomaxprocs": gmp}); err == nil {
			fmt.Fprintf(os.Stderr, "@@C17CFG %s\n", cb)
		}
		msg := c.oracle(pc, 20*time.Second)
		hist[c.Site]++
		hist[fmt.Sprintf("gomaxprocs=%d", gmp)]++
		if msg != "" {
			fails = append(fails, map[string]interface{}{"config": c, "pool": pc, "gomaxprocs": gmp, "failure": msg})
			if len(fails) > 5 {
				break
			}
		}
	}
	runtime.GOMAXPROCS(old)
	out := map[string]interface{}{"runs": o.N, "histogram": hist, "failures": fails, "secs": time.Since(t0).Seconds()}
	b, _ := json.MarshalIndent(out, "", " ")
	os.WriteFile(filepath.Join(o.Out, "race.json"), b, 0644)
}

// ---------------------------------------------------------------- hunt

func shrinkConfig(c *Config, pc PoolCfg, fails func(*Config) bool) *Config {
	cur := c
	for changed := true; changed; {
		changed = false
		switch cur.Site {
		case "em":
			n := len(cur.Em.Lp[0])
			for l := n - 1; l >= 0 && n > 1; l-- {
				cand := *cur.Em
				cand.Lp = make([][]float64, len(cur.Em.Lp))
				for i := range cand.Lp {
					cand.Lp[i] = append(append([]float64{}, cur.Em.Lp[i][:l]...), cur.Em.Lp[i][l+1:]...)
				}
				if cur.Em.Counts != nil {
					cand.Counts = append(append([]int{}, cur.Em.Counts[:l]...), cur.Em.Counts[l+1:]...)
				}
				if cand.FailAt == l {
					continue
				} else if cand.FailAt > l {
					cand.FailAt--
				}
				cc := &Config{Site: "em", Em: &cand}
				if fails(cc) {
					cur, changed = cc, true
					break
				}
			}
		case "bw":
			nrec := len(cur.Bw.Lens)
			for d := nrec - 1; d >= 0 && nrec > 1; d-- {
				if d == cur.Bw.FailRec {
					continue
				}
				cand := *cur.Bw
				offs := cur.Bw.offsets()
				cand.Lens = append(append([]int{}, cur.Bw.Lens[:d]...), cur.Bw.Lens[d+1:]...)
				cand.Lp = make([][]float64, len(cur.Bw.Lp))
				for e := range cand.Lp {
					cand.Lp[e] = append(append([]float64{}, cur.Bw.Lp[e][:offs[d]]...), cur.Bw.Lp[e][offs[d]+cur.Bw.Lens[d]:]...)
				}
				if cand.FailRec > d {
					cand.FailRec--
				}
				cc := &Config{Site: "bw", Bw: &cand}
				if fails(cc) {
					cur, changed = cc, true
					break
				}
			}
		case "normal":
			n := len(cur.Nm.X)
			for l := n - 1; l >= 0 && n > 1; l-- {
				cand := *cur.Nm
				cand.X = append(append([]float64{}, cur.Nm.X[:l]...), cur.Nm.X[l+1:]...)
				if cur.Nm.W != nil {
					cand.W = append(append([]int{}, cur.Nm.W[:l]...), cur.Nm.W[l+1:]...)
					any := false
					for _, w := range cand.W {
						any = any || w == 1
					}
					if !any {
						continue
					}
				}
				cc := &Config{Site: "normal", Nm: &cand}
				if fails(cc) {
					cur, changed = cc, true
					break
				}
			}
		case "saga":
			// round 7: fewer epochs, then fewer samples
			if cur.Saga.Epochs > 1 {
				cand := *cur.Saga
				cand.Epochs = 1
				if cc := (&Config{Site: "saga", Saga: &cand}); fails(cc) {
					cur, changed = cc, true
					continue
				}
			}
			n := len(cur.Saga.X)
			for l := n - 1; l >= 0 && n > 1; l-- {
				cand := *cur.Saga
				cand.X = append(append([][]float64{}, cur.Saga.X[:l]...), cur.Saga.X[l+1:]...)
				cc := &Config{Site: "saga", Saga: &cand}
				if fails(cc) {
					cur, changed = cc, true
					break
				}
			}
		case "batch":
			// round 7: fewer observations (a vector observation is D consecutive entries)
			d := 1
			if cur.Batch.Kind == "vnormal" {
				d = cur.Batch.D
			}
			n := cur.Batch.n()
			for l := n - 1; l >= 0 && n > 2; l-- {
				cand := *cur.Batch
				cand.X = append(append([]float64{}, cur.Batch.X[:l*d]...), cur.Batch.X[(l+1)*d:]...)
				if cur.Batch.G != nil {
					cand.G = append(append(JFloats{}, cur.Batch.G[:l]...), cur.Batch.G[l+1:]...)
				}
				cc := &Config{Site: "batch", Batch: &cand}
				if fails(cc) {
					cur, changed = cc, true
					break
				}
			}
		}
	}
	return cur
}

type HuntIn struct {
	Cases []RawCase `json:"cases"`
}

func fromRaw(rc *RawCase) *Config {
	switch {
	case rc.Em != nil:
		return &Config{Site: "em", Em: rc.Em}
	case rc.Bw != nil:
		return &Config{Site: "bw", Bw: rc.Bw}
	case rc.Nm != nil:
		return &Config{Site: "normal", Nm: rc.Nm}
	case rc.X != nil:
		return &Config{Site: "x", X: rc.X}
	case rc.Full != nil:
		return &Config{Site: "full", Full: rc.Full}
	case rc.Saga != nil:
		return &Config{Site: "saga", Saga: rc.Saga}
	case rc.Num != nil:
		return &Config{Site: "numeric", Num: rc.Num}
	case rc.Comp != nil:
		return &Config{Site: "comp", Comp: rc.Comp}
	case rc.ErrFlow != nil:
		return &Config{Site: "errflow", ErrFlow: rc.ErrFlow}
	case rc.Batch != nil:
		return &Config{Site: "batch", Batch: rc.Batch}
	}
	return nil
}

// repeat a configuration over many schedules: pool sizes, buffers, nesting, yields, GOMAXPROCS
func sweep(c *Config, r *Rng, n int, first *PoolCfg) (string, PoolCfg, int) {
	old := runtime.GOMAXPROCS(0)
	defer runtime.GOMAXPROCS(old)
	for i := 0; i < n; i++ {
		pc := genPool(r)
		if first != nil && i < 8 {
			pc = *first
			pc.Yield = i%2 == 1
		}
		gmp := 1 + (i*5)%16
		runtime.GOMAXPROCS(gmp)
		if msg := c.oracle(pc, 20*time.Second); msg != "" {
			return msg, pc, gmp
		}
	}
	return "", PoolCfg{}, 0
}

func huntMain(o Opts) {
	r := NewRng(o.Seed + 104729)
	var seeds []*Config
	var firsts []*PoolCfg
	if o.Replay != "" {
		var in HuntIn
		if b, err := os.ReadFile(o.Replay); err == nil {
			json.Unmarshal(b, &in)
		}
		for i := range in.Cases {
			if c := fromRaw(&in.Cases[i]); c != nil {
				seeds = append(seeds, c)
				pc := in.Cases[i].Pool
				firsts = append(firsts, &pc)
			}
		}
	}
	res := map[string]interface{}{"found": false}
	try := func(c *Config, first *PoolCfg, n int) bool {
		msg, pc, gmp := sweep(c, r, n, first)
		if msg == "" {
			return false
		}
		small := shrinkConfig(c, pc, func(cc *Config) bool {
			m, _, _ := sweep(cc, r, 24, &pc)
			return m != ""
		})
		m2, pc2, gmp2 := sweep(small, r, 64, &pc)
		if m2 == "" {
			small, m2, pc2, gmp2 = c, msg, pc, gmp
		}
		res = map[string]interface{}{"found": true, "config": small, "pool": pc2, "gomaxprocs": gmp2, "failure": m2, "site": small.Site}
		return true
	}
	found := false
	for i, c := range seeds {
		if try(c, firsts[i], 40) {
			found = true
			break
		}
	}
	for i := 0; !found && i < o.N; i++ {
		if try(genConfig(r.Split()), nil, 6) {
			found = true
		}
	}
	b, _ := json.MarshalIndent(res, "", " ")
	os.WriteFile(filepath.Join(o.Out, "hunt.json"), b, 0644)
}

// ---------------------------------------------------------------- replay

type ReplayFile struct {
	Config *Config  `json:"config"`
	Case   *RawCase `json:"case"`
	Pool   *PoolCfg `json:"pool"`
}

func replayMain(o Opts) {
	var rf ReplayFile
	b, err := os.ReadFile(o.Replay)
	if err != nil {
		Die("replay: %v", err)
	}
	json.Unmarshal(b, &rf)
	c := rf.Config
	if c == nil && rf.Case != nil {
		c = fromRaw(rf.Case)
		if rf.Pool == nil {
			rf.Pool = &rf.Case.Pool
		}
	}
	if c == nil {
		Die("replay file holds no configuration")
	}
	r := NewRng(o.Seed)
	msg, pc, gmp := sweep(c, r, 200, rf.Pool)
	seq, serr, spn := c.run(PoolCfg{K: 1})
	par, perr, ppn := c.run(PoolCfg{K: 4, Buf: 2})
	res := map[string]interface{}{"found": msg != "", "failure": msg, "pool": pc, "gomaxprocs": gmp, "config": c,
		"sequential": fmt.Sprint(seq, serr, spn), "pool4": fmt.Sprint(par, perr, ppn)}
	bb, _ := json.MarshalIndent(res, "", " ")
	os.WriteFile(filepath.Join(o.Out, "hunt.json"), bb, 0644)
	// and the correspondence cases of this configuration
	w := NewCaseWriter(o.Out, "replay", header, "mism", 40)
	w.Type = "case"
	g := &gen{w: w, tol: &tolWriter{dir: o.Out, per: 12}, rng: r, tier: "quick"}
	g.ow = NewCaseWriter(o.Out, "oreplay", oheader, "omism", 30)
	g.ow.Type = "ocase"
	g.sw = NewCaseWriter(o.Out, "sreplay", oheader, "sagamism", 200)
	g.sw.Type = "sagacase"
	g.noTransPanics, _ = bwNoTransPanics()
	rc := RawCase{Em: c.Em, Bw: c.Bw, Nm: c.Nm, X: c.X, Full: c.Full, Saga: c.Saga, Num: c.Num, Comp: c.Comp, ErrFlow: c.ErrFlow, Batch: c.Batch}
	g.aw = NewCaseWriter(o.Out, "areplay", aheader, "amism", 40)
	g.aw.Type = "acase"
	defer g.aw.Flush()
	g.ew = NewCaseWriter(o.Out, "ereplay", eheader, "emism", 60)
	g.ew.Type = "ecase"
	defer g.ew.Flush()
	g.replayInto(&rc)
	w.Flush()
	g.ow.Flush()
	g.sw.Flush()
	g.tol.flush()
}

// ---------------------------------------------------------------- known finding F-TP-ERRLATE

// how often does a failing configuration lose its error on its pool?  (the threadpool's
// Done-before-setError race loses it rarely; a step that drops Wait's error loses it always)
func errRateMain(o Opts) {
	var rf ReplayFile
	b, err := os.ReadFile(o.Replay)
	if err != nil {
		Die("errrate: %v", err)
	}
	json.Unmarshal(b, &rf)
	c := rf.Config
	if c == nil && rf.Case != nil {
		c = fromRaw(rf.Case)
		if rf.Pool == nil {
			rf.Pool = &rf.Case.Pool
		}
	}
	if c == nil || rf.Pool == nil {
		Die("errrate: no configuration")
	}
	_, serr, _ := c.run(PoolCfg{K: 1})
	lost := 0
	for i := 0; i < o.N; i++ {
		pc := *rf.Pool
		pc.Yield = i%2 == 1
		runtime.GOMAXPROCS(1 + (i*5)%16)
		_, perr, _ := c.run(pc)
		if serr && !perr {
			lost++
		}
	}
	bb, _ := json.Marshal(map[string]interface{}{"runs": o.N, "lost": lost, "sequential_fails": serr})
	os.WriteFile(filepath.Join(o.Out, "errrate.json"), bb, 0644)
}

// the witness of F-TP-ERRLATE on the threadpool itself: single failing jobs, Wait must return the error
func tpProbeMain(o Opts) {
	lost, n := 0, 0
	for _, gmp := range []int{2, 4, 16} {
		runtime.GOMAXPROCS(gmp)
		p := tp.New(4, 1)
		for i := 0; i < o.N; i++ {
			g := p.NewJobGroup()
			p.AddJob(g, func(pool tp.ThreadPool, erf func() error) error { return fmt.Errorf("fail") })
			if err := p.Wait(g); err == nil {
				lost++
			}
			n++
		}
		p.Stop()
	}
	bb, _ := json.Marshal(map[string]interface{}{"groups": n, "lost": lost})
	os.WriteFile(filepath.Join(o.Out, "tpprobe.json"), bb, 0644)
}
