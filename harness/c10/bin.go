package main

// Second stream of the C10 harness: binary operations whose receiver AND operands may all be
// views of ONE parent storage (disjoint, identical, overlapping, transposed windows; fresh matrices
// mixed in): r.MaddM/MsubM/MmulM(a, b), r.MdotM(a, b), r.Set(a), and the dense joint iterator
// r.JointIterator(a).  Replayed exactly by coq/C10/ModelBin.v (CorrBin.mismB); the hunt compares the
// call on the views with the call on independent deep copies wherever the receiver's cells are
// disjoint from (or position-wise identical to) the operands' cells.

import (
	"fmt"
	"reflect"

	. "adharness/common"

	ad "github.com/pbenner/autodiff"
)

type Operand struct {
	Views []View  `json:"views"`
	Fresh bool    `json:"fresh,omitempty"`
	N     int     `json:"n,omitempty"`
	K     int     `json:"k,omitempty"`
	Vals  []int64 `json:"vals,omitempty"`
}
type BCase struct {
	Type string  `json:"type"`
	Rows int     `json:"rows"`
	Cols int     `json:"cols"`
	Vals []int64 `json:"vals"`
	R    Operand `json:"r"`
	A    Operand `json:"a"`
	B    Operand `json:"b"`
	Op   string  `json:"op"` // Ew, MdotM, Set, Joint
	F    int     `json:"f"`
	Obs  *BObs   `json:"obs,omitempty"`
}
type BObs struct {
	Hdrs      [][]int   `json:"hdrs"`
	Panic     bool      `json:"panic"`
	Res       []int64   `json:"res"`
	Recv      []int64   `json:"recv"`
	RecvPanic bool      `json:"recv_panic"`
	Heap      [][]int64 `json:"heap"`
}

func mkOperand(t ad.ScalarType, base ad.Matrix, p Operand) ad.Matrix {
	if p.Fresh {
		return newMatrix(false, t, p.N, p.K, p.Vals)
	}
	v, failed := applyViews(base, p.Views)
	if failed {
		panic("constructing a dense view panicked")
	}
	return v
}

func isNilScalar(s interface{}) bool {
	if s == nil {
		return true
	}
	v := reflect.ValueOf(s)
	switch v.Kind() {
	case reflect.Ptr, reflect.Interface, reflect.Map, reflect.Slice:
		return v.IsNil()
	}
	return false
}

// execBin runs the operation; res is the joint iterator's report (empty otherwise)
func execBin(op string, f int, r ad.Matrix, a, b ad.Matrix) (res []int64, panicked bool) {
	defer func() {
		if e := recover(); e != nil {
			res, panicked = nil, true
		}
	}()
	res = []int64{}
	switch op {
	case "Ew":
		switch f {
		case 0:
			r.MaddM(a, b)
		case 1:
			r.MsubM(a, b)
		default:
			r.MmulM(a, b)
		}
	case "MdotM":
		r.MdotM(a, b)
	case "Set":
		r.Set(a)
	case "Equals":
		// both sides may be views of ONE storage: shifted windows, a square window and its own T()
		e, done := false, false
		if f == 1 {
			if out, ok := callUpper(r, "EQUALS", a, 1e-12); ok {
				e, done = out[0].Bool(), true
			}
		}
		if !done {
			e = r.Equals(a, 1e-12)
		}
		if e {
			res = []int64{1}
		} else {
			res = []int64{0}
		}
	case "Joint":
		steps := 0
		for it := r.JointIterator(a); it.Ok() && steps < iterLimit; it.Next() {
			i, j := it.Index()
			s1, s2 := it.GetConst()
			h, v1 := int64(0), int64(0)
			if !isNilScalar(s1) {
				h, v1 = 1, int64(s1.GetFloat64())
			}
			res = append(res, int64(i), int64(j), h, v1, int64(s2.GetFloat64()))
			steps++
		}
		if steps >= iterLimit {
			res = append(res, -999999)
		}
	default:
		Die("unknown binary op %s", op)
	}
	return res, false
}

func executeBin(c BCase) *BObs {
	t := types[c.Type]
	base := newMatrix(false, t, c.Rows, c.Cols, c.Vals)
	r, a, b := mkOperand(t, base, c.R), mkOperand(t, base, c.A), mkOperand(t, base, c.B)
	o := &BObs{Hdrs: [][]int{header(r), header(a), header(b)}}
	res, p := execBin(c.Op, c.F, r, a, b)
	if p {
		o.Panic = true
		return o
	}
	o.Res = res
	o.Recv, o.RecvPanic = matElems(r)
	o.Heap = [][]int64{storage(false, base)}
	for _, x := range []struct {
		p Operand
		m ad.Matrix
	}{{c.R, r}, {c.A, a}, {c.B, b}} {
		if x.p.Fresh {
			o.Heap = append(o.Heap, storage(false, x.m))
		}
	}
	return o
}

// ---------------------------------------------------------------- Coq syntax

func coqOperand(p Operand) string {
	if p.Fresh {
		return fmt.Sprintf("(PFresh %s %s %s)", ZI(p.N), ZI(p.K), ZList(p.Vals))
	}
	return "(PView " + coqViews(p.Views) + ")"
}
func coqBop(c BCase) string {
	switch c.Op {
	case "Ew":
		return fmt.Sprintf("(BEw %s)", ZI(c.F))
	case "MdotM":
		return "BMdotM"
	case "Set":
		return "BSet"
	case "Joint":
		return "BJoint"
	case "Equals":
		return "BEquals"
	}
	Die("coqBop: unknown op %s", c.Op)
	return ""
}
func zll(xs [][]int64) string {
	s := make([]string, len(xs))
	for i, x := range xs {
		s[i] = ZList(x)
	}
	return List(s)
}
func zllI(xs [][]int) string {
	s := make([]string, len(xs))
	for i, x := range xs {
		s[i] = ZListI(x)
	}
	return List(s)
}
func coqBObs(o *BObs) string {
	if o.Panic {
		return "(BObsPanic " + zllI(o.Hdrs) + ")"
	}
	v := "None"
	if !o.RecvPanic {
		v = "(Some " + ZList(o.Recv) + ")"
	}
	return fmt.Sprintf("(BObsOk %s (mkBObs %s %s %s))", zllI(o.Hdrs), ZList(o.Res), v, zll(o.Heap))
}
func coqBCase(c BCase) string {
	return fmt.Sprintf("mkBCase %s %s %s %s %s %s %s %s %s", B(isReal(c.Type)), ZI(c.Rows), ZI(c.Cols), ZList(c.Vals),
		coqOperand(c.R), coqOperand(c.A), coqOperand(c.B), coqBop(c), coqBObs(c.Obs))
}

const hdrB = "From Coq Require Import ZArith List Bool. Import ListNotations.\nFrom ADV Require Import C10.Gen C10.Model C10.ModelBin C10.CorrBin.\nOpen Scope Z_scope.\n"

// ---------------------------------------------------------------- generators

// a window of shape x*y inside an n*k parent, possibly as the transpose of a y*x window, possibly nested
func genWindow(r *Rng, n, k, x, y int) ([]View, bool) {
	tr := r.Intn(3) == 0
	wx, wy := x, y
	if tr {
		wx, wy = y, x
	}
	if wx > n || wy > k {
		if tr {
			tr = false
			wx, wy = x, y
		}
		if wx > n || wy > k {
			return nil, false
		}
	}
	r0, c0 := r.Range(0, n-wx), r.Range(0, k-wy)
	if r.Intn(3) == 0 { // favour the corners: disjoint blocks and touching windows
		r0 = []int{0, n - wx}[r.Intn(2)]
		c0 = []int{0, k - wy}[r.Intn(2)]
	}
	var vs []View
	switch {
	case tr && r.Bool(): // T() first, then the window in transposed coordinates
		vs = []View{{K: "T"}, {K: "S", A: [4]int{c0, c0 + wy, r0, r0 + wx}}}
	case r.Intn(4) == 0 && wx < n && wy < k: // nested: an enclosing window first
		e0, f0 := r.Range(0, r0), r.Range(0, c0)
		e1, f1 := r.Range(r0+wx, n), r.Range(c0+wy, k)
		vs = []View{{K: "S", A: [4]int{e0, e1, f0, f1}}, {K: "C", A: [4]int{r0 - e0, r0 - e0 + wx, c0 - f0, c0 - f0 + wy}}}
		if tr {
			vs = append(vs, View{K: "T"})
		}
	default:
		vs = []View{{K: "S", A: [4]int{r0, r0 + wx, c0, c0 + wy}}}
		if tr {
			vs = append(vs, View{K: "T"})
		}
	}
	return vs, true
}

func genOperand(r *Rng, n, k, x, y int, freshProb int) Operand {
	if r.Intn(100) < freshProb {
		return Operand{Fresh: true, N: x, K: y, Vals: smallVals(r, x*y, 1, 6)}
	}
	if vs, ok := genWindow(r, n, k, x, y); ok {
		return Operand{Views: vs}
	}
	return Operand{Fresh: true, N: x, K: y, Vals: smallVals(r, x*y, 1, 6)}
}

func genBCase(r *Rng, seq int) BCase {
	c := BCase{Type: typeNames[r.Pick([]int{5, 4, 4, 1, 1, 1, 1, 1})]}
	c.Rows, c.Cols = r.Range(2, 6), r.Range(2, 6)
	c.Vals = make([]int64, c.Rows*c.Cols)
	for i := range c.Vals {
		c.Vals[i] = int64(i%9 + 1)
		if r.Intn(6) == 0 {
			c.Vals[i] = 0
		}
	}
	c.Op = []string{"Ew", "MdotM", "MdotM", "Set", "Joint", "Equals"}[r.Intn(6)]
	c.F = r.Intn(3)
	if c.Op == "Equals" {
		// contents that make different windows of one parent EQUAL some of the time: constant, periodic, symmetric
		switch r.Intn(4) {
		case 0:
			for i := range c.Vals {
				c.Vals[i] = 5
			}
		case 1:
			for i := range c.Vals {
				c.Vals[i] = int64((i/c.Cols+i%c.Cols)%2 + 1)
			}
		case 2:
			for i := range c.Vals {
				x, y := i/c.Cols, i%c.Cols
				if x > y {
					x, y = y, x
				}
				c.Vals[i] = int64(x*7 + y + 1)
			}
		}
	}
	mx := 3
	dim := func() int {
		if r.Intn(20) == 0 {
			return 0
		}
		return r.Range(1, mx)
	}
	n, m, p := dim(), dim(), dim()
	whole := Operand{Views: []View{}}
	switch c.Op {
	case "MdotM":
		c.R = genOperand(r, c.Rows, c.Cols, n, m, 10)
		c.A = genOperand(r, c.Rows, c.Cols, n, p, 15)
		c.B = genOperand(r, c.Rows, c.Cols, p, m, 15)
		if n == p { // aliasing patterns: the receiver is the left factor / the right factor / both
			switch r.Intn(6) {
			case 0:
				c.A = c.R
			}
		}
		if p == m {
			switch r.Intn(6) {
			case 0:
				c.B = c.R
			}
		}
	case "Ew":
		c.R = genOperand(r, c.Rows, c.Cols, n, m, 10)
		c.A = genOperand(r, c.Rows, c.Cols, n, m, 15)
		c.B = genOperand(r, c.Rows, c.Cols, n, m, 15)
		switch r.Intn(6) {
		case 0:
			c.A = c.R
		case 1:
			c.B = c.R
		case 2:
			c.A, c.B = c.R, c.R
		}
	case "Set":
		c.R = genOperand(r, c.Rows, c.Cols, n, m, 10)
		c.A = genOperand(r, c.Rows, c.Cols, n, m, 10)
		c.B = whole
	case "Equals":
		if r.Intn(2) == 0 {
			m = n // square windows: a window and its own transpose have one shape
		}
		c.R = genOperand(r, c.Rows, c.Cols, n, m, 12)
		c.A = genOperand(r, c.Rows, c.Cols, n, m, 12)
		c.B = whole
		if !c.R.Fresh {
			switch r.Intn(5) {
			case 0: // the receiver itself
				c.A = c.R
			case 1, 2: // the receiver's own transpose (same storage, same offsets, other flag)
				if n == m {
					c.A = Operand{Views: append(append([]View{}, c.R.Views...), View{K: "T"})}
				}
			}
		}
	default: // Joint: the two sides need not have the same shape
		c.R = genOperand(r, c.Rows, c.Cols, n, m, 10)
		if r.Intn(5) == 0 {
			c.A = genOperand(r, c.Rows, c.Cols, dim(), dim(), 20)
		} else {
			c.A = genOperand(r, c.Rows, c.Cols, n, m, 20)
		}
		c.B = whole
	}
	if r.Intn(25) == 0 { // malformed stream: one operand of another shape (dimension panic)
		c.A = genOperand(r, c.Rows, c.Cols, dim(), dim(), 30)
	}
	return c
}

func bcaseKey(c BCase) string {
	return fmt.Sprint(c.Type, c.Rows, c.Cols, c.R.Views, c.R.Fresh, c.A.Views, c.A.Fresh, c.B.Views, c.B.Fresh, c.Op, c.F)
}

// ---------------------------------------------------------------- cell sets (plain 2-D array semantics)

type cellInfo struct {
	fresh bool
	co    coordArr
	n, k  int
}

func cellsOf(c BCase, p Operand) (cellInfo, bool) {
	if p.Fresh {
		return cellInfo{fresh: true, n: p.N, k: p.K}, true
	}
	co, n, k, ok := applyOracle(c.Rows, c.Cols, p.Views)
	return cellInfo{co: co, n: n, k: k}, ok
}
func sameCells(x, y cellInfo) bool {
	if x.fresh || y.fresh || x.n != y.n || x.k != y.k {
		return false
	}
	for i := 0; i < x.n; i++ {
		for j := 0; j < x.k; j++ {
			if x.co[i][j] != y.co[i][j] {
				return false
			}
		}
	}
	return true
}
func disjointCells(x, y cellInfo) bool {
	if x.fresh || y.fresh {
		return true
	}
	seen := map[[2]int]bool{}
	for i := 0; i < x.n; i++ {
		for j := 0; j < x.k; j++ {
			seen[x.co[i][j]] = true
		}
	}
	for i := 0; i < y.n; i++ {
		for j := 0; j < y.k; j++ {
			if seen[y.co[i][j]] {
				return false
			}
		}
	}
	return true
}

// a bin case shares the receiver's parent storage with an operand: the class this stream is for
func bNontrivial(c BCase) bool {
	nv := 0
	for _, p := range []Operand{c.R, c.A, c.B} {
		if !p.Fresh && len(p.Views) > 0 {
			nv++
		}
	}
	return nv >= 2
}

func countBCase(w *CaseWriter, c BCase) {
	w.Count("op:" + c.Op)
	w.Count("type:" + c.Type)
	if c.Obs.Panic {
		w.Count("outcome:panic")
	} else {
		w.Count("outcome:ok")
	}
	ri, ok1 := cellsOf(c, c.R)
	ai, ok2 := cellsOf(c, c.A)
	bi, ok3 := cellsOf(c, c.B)
	if !(ok1 && ok2 && ok3) {
		return
	}
	rel := func(x cellInfo) string {
		switch {
		case x.fresh || ri.fresh:
			return "fresh"
		case sameCells(ri, x):
			return "identical"
		case disjointCells(ri, x):
			return "disjoint"
		}
		return "overlap"
	}
	w.Count("r~a:" + rel(ai))
	if c.Op == "Ew" || c.Op == "MdotM" {
		w.Count("r~b:" + rel(bi))
	}
	if c.Op == "Equals" && !c.Obs.Panic && len(c.Obs.Res) == 1 {
		w.Count(fmt.Sprintf("Equals:%s:result=%d", rel(ai), c.Obs.Res[0]))
		if n, m := len(c.R.Views), len(c.A.Views); !c.R.Fresh && !c.A.Fresh && m == n+1 && c.A.Views[m-1].K == "T" {
			w.Count("Equals:window-vs-own-T")
		}
	}
	for _, p := range []Operand{c.R, c.A, c.B} {
		for _, v := range p.Views {
			if v.K == "T" {
				w.Count("transposed-operand")
				break
			}
		}
	}
	if bNontrivial(c) {
		w.Count("nontrivial")
	}
}

// ---------------------------------------------------------------- hunt: the call on views vs on deep copies

// binPropCheck returns "" when the property holds (or promises nothing) on this case
func binPropCheck(c BCase) (what string, flags map[string]bool) {
	flags = map[string]bool{}
	defer func() {
		if e := recover(); e != nil {
			what = fmt.Sprintf("harness-level panic: %v", e)
		}
	}()
	t := types[c.Type]
	ri, ok1 := cellsOf(c, c.R)
	ai, ok2 := cellsOf(c, c.A)
	bi, ok3 := cellsOf(c, c.B)
	if !(ok1 && ok2 && ok3) {
		return "", flags
	}
	binary := c.Op == "Ew" || c.Op == "MdotM"
	if c.Op == "MdotM" && (ri.n == 0 || ri.k == 0 || ai.k == 0 || ai.n == 0 || bi.k == 0 || bi.n == 0) {
		return "", flags // &values[0] of an empty storage: C20's business
	}
	ra, rb := sameCells(ri, ai), sameCells(ri, bi)
	da, db := disjointCells(ri, ai), disjointCells(ri, bi)
	switch c.Op {
	case "Ew":
		if !((ra || da) && (rb || db)) {
			return "", flags // a shifted / transposed overlap with the receiver: receiver aliasing is C08's
		}
	case "Set":
		if !(ra || da) {
			return "", flags
		}
	case "MdotM":
		switch {
		case da && db: // receiver disjoint from both factors
		case ra && db && !rb: // r = a: needs the row schedule, chosen only when b lives in another storage
			if !bi.fresh {
				flags["sibling_right"] = true
			}
		case rb && da && !ra: // r = b: the column schedule, chosen because r shares b's storage
		default:
			return "", flags
		}
	}
	base := newMatrix(false, t, c.Rows, c.Cols, c.Vals)
	r, a, b := mkOperand(t, base, c.R), mkOperand(t, base, c.A), mkOperand(t, base, c.B)
	er, ea, eb := mustElems(r), mustElems(a), mustElems(b)
	// independent deep copies holding the same elements (identical operands share one copy)
	cr := newMatrix(false, t, ri.n, ri.k, er)
	var ca, cb ad.Matrix
	if ra {
		ca = cr
	} else {
		ca = newMatrix(false, t, ai.n, ai.k, ea)
	}
	if rb {
		cb = cr
	} else if !c.R.Fresh && !c.A.Fresh && !c.B.Fresh && sameCells(ai, bi) {
		cb = ca
	} else {
		cb = newMatrix(false, t, bi.n, bi.k, eb)
	}
	res1, p1 := execBin(c.Op, c.F, r, a, b)
	res2, p2 := execBin(c.Op, c.F, cr, ca, cb)
	if p1 != p2 {
		return fmt.Sprintf("%s on the views panics=%v, on deep copies panics=%v", c.Op, p1, p2), flags
	}
	if p1 {
		return "", flags
	}
	if !eq64(res1, res2) {
		return fmt.Sprintf("%s on the views reported %v, on deep copies %v", c.Op, res1, res2), flags
	}
	if c.Op == "Equals" {
		// independent oracle: the two element arrays read through At
		exp := int64(1)
		for i := range er {
			if i >= len(ea) || er[i] != ea[i] {
				exp = 0
			}
		}
		if len(res1) != 1 || res1[0] != exp {
			return fmt.Sprintf("Equals of the views reported %v, their elements are %v and %v", res1, er, ea), flags
		}
	}
	if c.Op == "Joint" {
		// independent oracle: the union of the non-zero positions of both element arrays in row-major order
		exp := []int64{}
		mr, mk := ri.n, ri.k
		if ai.n > mr {
			mr = ai.n
		}
		if ai.k > mk {
			mk = ai.k
		}
		for i := 0; i < mr; i++ {
			for j := 0; j < mk; j++ {
				v1, v2 := int64(0), int64(0)
				if i < ri.n && j < ri.k {
					v1 = er[i*ri.k+j]
				}
				if i < ai.n && j < ai.k {
					v2 = ea[i*ai.k+j]
				}
				if v1 != 0 || v2 != 0 {
					h := int64(0)
					if v1 != 0 {
						h = 1
					}
					exp = append(exp, int64(i), int64(j), h, v1, v2)
				}
			}
		}
		if !eq64(res1, exp) {
			return fmt.Sprintf("joint iteration of the views reported %v, the union of the non-zero elements is %v", res1, exp), flags
		}
	}
	if v1, d2 := mustElems(r), mustElems(cr); !eq64(v1, d2) {
		return fmt.Sprintf("after %s the receiver view holds %v, the receiver copy %v", c.Op, v1, d2), flags
	}
	// operands that are not the receiver keep their elements
	if !ra {
		if x := mustElems(a); !eq64(x, ea) {
			return fmt.Sprintf("%s changed its left operand: %v, was %v", c.Op, x, ea), flags
		}
	}
	if binary && !rb {
		if x := mustElems(b); !eq64(x, eb) {
			return fmt.Sprintf("%s changed its right operand: %v, was %v", c.Op, x, eb), flags
		}
	}
	// frame of the parent: everything the receiver does not denote is unchanged
	den := map[[2]int]bool{}
	if !ri.fresh {
		for i := 0; i < ri.n; i++ {
			for j := 0; j < ri.k; j++ {
				den[ri.co[i][j]] = true
			}
		}
	}
	b1 := mustElems(base)
	for i := 0; i < c.Rows; i++ {
		for j := 0; j < c.Cols; j++ {
			if !den[[2]int{i, j}] && b1[i*c.Cols+j] != c.Vals[i*c.Cols+j] {
				return fmt.Sprintf("after %s the parent holds %v, was %v: element (%d,%d) outside the receiver changed", c.Op, b1, c.Vals, i, j), flags
			}
		}
	}
	return "", flags
}

func (h *hunter) checkBin(c BCase) {
	h.tried++
	c.Obs = nil
	w, fl := binPropCheck(c)
	if w == "" {
		return
	}
	site := "dense:Bin" + c.Op
	tr := false
	for _, p := range []Operand{c.R, c.A, c.B} {
		for _, v := range p.Views {
			if v.K == "T" {
				tr = true
			}
		}
	}
	key := fmt.Sprintf("%s|%v|%v|%v", site, fl["sibling_right"], tr, isReal(c.Type))
	wrap := Case{Type: c.Type, Rows: c.Rows, Cols: c.Cols, Vals: c.Vals, Op: Op{Name: "Bin" + c.Op}, Bin: &c}
	fo := Flags{Op: "Bin" + c.Op, Real: isReal(c.Type), HasT: tr, SiblingRight: fl["sibling_right"], Proper: true}
	if f, ok := h.fails[key]; ok {
		f.Count++
		if bcaseSize(c) < bcaseSize(*f.Case.Bin) {
			f.Case, f.What, f.Flags = wrap, w, fo
		}
		return
	}
	h.fails[key] = &Failure{Site: site, What: w, Case: wrap, Flags: fo, Count: 1}
}
func bcaseSize(c BCase) int {
	return c.Rows*c.Cols*10 + 3*(len(c.R.Views)+len(c.A.Views)+len(c.B.Views)) + len(c.R.Vals) + len(c.A.Vals) + len(c.B.Vals)
}

// exhaustive: every window (and transposed window) of the given shapes of a small parent, as r, a, b
func (h *hunter) exhaustiveBin(rows, cols int, tn string) {
	vals := make([]int64, rows*cols)
	for i := range vals {
		vals[i] = int64(i%7 + 1)
		if i%5 == 3 {
			vals[i] = 0
		}
	}
	eqVals := make([]int64, rows*cols) // symmetric and periodic: many different windows hold equal elements
	for i := range eqVals {
		eqVals[i] = int64((i/cols+i%cols)%2 + 1)
	}
	windows := func(x, y int) []Operand {
		var r []Operand
		for r0 := 0; r0+x <= rows; r0++ {
			for c0 := 0; c0+y <= cols; c0++ {
				r = append(r, Operand{Views: []View{{K: "S", A: [4]int{r0, r0 + x, c0, c0 + y}}}})
			}
		}
		for r0 := 0; r0+y <= rows; r0++ {
			for c0 := 0; c0+x <= cols; c0++ {
				r = append(r, Operand{Views: []View{{K: "S", A: [4]int{r0, r0 + y, c0, c0 + x}}, {K: "T"}}})
			}
		}
		r = append(r, Operand{Fresh: true, N: x, K: y, Vals: distinctVals(x*y, false)})
		return r
	}
	whole := Operand{Views: []View{}}
	for _, sh := range [][3]int{{1, 1, 1}, {2, 2, 2}, {1, 2, 2}, {2, 1, 2}, {2, 2, 1}} {
		n, m, p := sh[0], sh[1], sh[2]
		for _, r := range windows(n, m) {
			for _, a := range windows(n, p) {
				for _, b := range windows(p, m) {
					h.checkBin(BCase{Type: tn, Rows: rows, Cols: cols, Vals: vals, R: r, A: a, B: b, Op: "MdotM"})
				}
			}
			if p != m {
				continue
			}
			for _, a := range windows(n, m) {
				for _, b := range windows(n, m) {
					h.checkBin(BCase{Type: tn, Rows: rows, Cols: cols, Vals: vals, R: r, A: a, B: b, Op: "Ew", F: (n + len(a.Views)) % 3})
				}
				h.checkBin(BCase{Type: tn, Rows: rows, Cols: cols, Vals: vals, R: r, A: a, B: whole, Op: "Set"})
				h.checkBin(BCase{Type: tn, Rows: rows, Cols: cols, Vals: vals, R: r, A: a, B: whole, Op: "Joint"})
				for f := 0; f < 2; f++ {
					h.checkBin(BCase{Type: tn, Rows: rows, Cols: cols, Vals: vals, R: r, A: a, B: whole, Op: "Equals", F: f})
					h.checkBin(BCase{Type: tn, Rows: rows, Cols: cols, Vals: eqVals, R: r, A: a, B: whole, Op: "Equals", F: f})
				}
			}
		}
	}
}

// exhaustiveEquals: r.Equals(a) / r.EQUALS(a) for every pair of windows / transposed windows of equal shape of one
// small parent, with an asymmetric and a periodic-symmetric content (both outcomes occur for shifted windows and for
// a window against its own transpose)
func (h *hunter) exhaustiveEquals(rows, cols int, tn string) {
	asym := make([]int64, rows*cols)
	sym := make([]int64, rows*cols)
	for i := range asym {
		asym[i] = int64(i + 1)
		sym[i] = int64((i/cols+i%cols)%2 + 1)
	}
	whole := Operand{Views: []View{}}
	for _, sh := range [][2]int{{1, 1}, {1, 2}, {2, 1}, {2, 2}, {3, 3}} {
		x, y := sh[0], sh[1]
		var ws []Operand
		for r0 := 0; r0+x <= rows; r0++ {
			for c0 := 0; c0+y <= cols; c0++ {
				ws = append(ws, Operand{Views: []View{{K: "S", A: [4]int{r0, r0 + x, c0, c0 + y}}}})
			}
		}
		for r0 := 0; r0+y <= rows; r0++ {
			for c0 := 0; c0+x <= cols; c0++ {
				ws = append(ws, Operand{Views: []View{{K: "S", A: [4]int{r0, r0 + y, c0, c0 + x}}, {K: "T"}}})
				ws = append(ws, Operand{Views: []View{{K: "T"}, {K: "S", A: [4]int{c0, c0 + x, r0, r0 + y}, P: 1}}})
			}
		}
		for _, r := range ws {
			for _, a := range ws {
				for f := 0; f < 2; f++ {
					h.checkBin(BCase{Type: tn, Rows: rows, Cols: cols, Vals: asym, R: r, A: a, B: whole, Op: "Equals", F: f})
					h.checkBin(BCase{Type: tn, Rows: rows, Cols: cols, Vals: sym, R: r, A: a, B: whole, Op: "Equals", F: f})
				}
			}
		}
	}
}
