#!/bin/bash
out=$1
{
echo '//go:build verif'
echo
echo '// Add-only verification hook for property C10 (views and transposes): exposes the'
echo '// matrix header, the raw backing storage and the private index/ij kernels.'
echo 'package autodiff'
echo
echo 'import "sort"'
echo
echo 'type VerifC10Hdr struct {'
echo '  Sparse bool'
echo '  Len, Rows, Cols, RowOffset, RowMax, ColOffset, ColMax int'
echo '  Transposed bool'
echo '}'
echo
echo 'func VerifC10Header(m ConstMatrix) (VerifC10Hdr, bool) {'
echo '  switch a := m.(type) {'
for T in Float64 Float32 Int Int8 Int16 Int32 Int64 Real64 Real32; do
echo "  case *Dense${T}Matrix:"
echo '    return VerifC10Hdr{false, len(a.values), a.rows, a.cols, a.rowOffset, a.rowMax, a.colOffset, a.colMax, a.transposed}, true'
echo "  case *Sparse${T}Matrix:"
echo '    return VerifC10Hdr{true, a.values.n, a.rows, a.cols, a.rowOffset, a.rowMax, a.colOffset, a.colMax, false}, true'
done
echo '  }'
echo '  return VerifC10Hdr{}, false'
echo '}'
echo
echo '// raw dense storage, element k as float64'
echo 'func VerifC10Storage(m ConstMatrix) []float64 {'
echo '  var r []float64'
echo '  switch a := m.(type) {'
for T in Float64 Float32 Int Int8 Int16 Int32 Int64; do
echo "  case *Dense${T}Matrix:"
echo '    for _, v := range a.values { r = append(r, float64(v)) }'
done
for T in Real64 Real32; do
echo "  case *Dense${T}Matrix:"
echo '    for _, v := range a.values { r = append(r, v.GetFloat64()) }'
done
echo '  }'
echo '  return r'
echo '}'
echo
echo '// raw sparse storage: the stored (index, value) pairs in ascending index order, and the length'
echo 'func VerifC10SparseStorage(m ConstMatrix) ([]int, []float64, int) {'
echo '  idx := []int{}'
echo '  val := map[int]float64{}'
echo '  n := 0'
echo '  switch a := m.(type) {'
for T in Float64 Float32 Int Int8 Int16 Int32 Int64 Real64 Real32; do
echo "  case *Sparse${T}Matrix:"
echo '    n = a.values.n'
echo '    for k, v := range a.values.values { idx = append(idx, k); val[k] = v.GetFloat64() }'
done
echo '  }'
echo '  sort.Ints(idx)'
echo '  r := make([]float64, len(idx))'
echo '  for i, k := range idx { r[i] = val[k] }'
echo '  return idx, r, n'
echo '}'
echo
echo '// the private kernels; VerifC10Index panics exactly when index() does'
echo 'func VerifC10Index(m ConstMatrix, i, j int) int {'
echo '  switch a := m.(type) {'
for T in Float64 Float32 Int Int8 Int16 Int32 Int64 Real64 Real32; do
echo "  case *Dense${T}Matrix:"
echo '    return a.index(i, j)'
echo "  case *Sparse${T}Matrix:"
echo '    return a.index(i, j)'
done
echo '  }'
echo '  panic("VerifC10Index: unknown matrix type")'
echo '}'
echo 'func VerifC10IJ(m ConstMatrix, k int) (int, int) {'
echo '  switch a := m.(type) {'
for T in Float64 Float32 Int Int8 Int16 Int32 Int64 Real64 Real32; do
echo "  case *Dense${T}Matrix:"
echo '    return a.ij(k)'
echo "  case *Sparse${T}Matrix:"
echo '    return a.ij(k)'
done
echo '  }'
echo '  panic("VerifC10IJ: unknown matrix type")'
echo '}'
} > $out
