// C10 harness: view programs (base matrix, a composition of Slice / ConstSlice / T,
// then one public operation) executed on the dense and sparse matrices of /repo;
// what the implementation returned is written as Coq case files for the model
// in coq/C10 (exact replay, carrier Z: the entries are small distinct integers).
//
//   --extra hunt : property-level oracle on the implementation, independent of
//                  the Coq model (plain 2-D array semantics + "operation on the
//                  view = operation on an independent deep copy"), exhaustive
//                  over small shapes, all slice bounds and T, then random.
package main

import (
	"encoding/json"
	"fmt"
	"os"
	"strings"

	. "adharness/common"

	ad "github.com/pbenner/autodiff"
)

// ---------------------------------------------------------------- case description

type View struct {
	K string `json:"k"` // "S" Slice, "C" ConstSlice, "T"
	A [4]int `json:"a"`
	// P: probe calls made on the CURRENT object before this step, results discarded (bit 1: T(), bit 2: Slice of
	// the whole window, bit 4: T().T()): view constructors are pure functions of the header, so a discarded call
	// must not influence any later view (no state cached in the header and carried along by `m := *matrix`)
	P int `json:"p,omitempty"`
}
type Op struct {
	Name string  `json:"name"`
	I    []int   `json:"i,omitempty"`
	B    []int64 `json:"b,omitempty"`
	U    bool    `json:"u,omitempty"` // third stream: call the concrete upper-case twin (MADDS, OUTER, EQUALS) by reflection
}
type Case struct {
	Sparse bool    `json:"sparse"`
	Type   string  `json:"type"`
	Rows   int     `json:"rows"`
	Cols   int     `json:"cols"`
	Vals   []int64 `json:"vals"`
	Views  []View  `json:"views"`
	Op     Op      `json:"op"`
	Obs    *Obs    `json:"obs,omitempty"`
	Bin    *BCase  `json:"bin,omitempty"` // second stream (bin.go): the case is this binary operation
}
type Obs struct {
	Hdr0      []int   `json:"hdr0"`
	ViewsFail bool    `json:"views_fail"` // constructing the view panicked (sparse T of a slice)
	Panic     bool    `json:"panic"`
	Res       []int64 `json:"res"`
	Hdr1      []int   `json:"hdr1"`
	View      []int64 `json:"view"`
	ViewPanic bool    `json:"view_panic"`
	Store     []int64 `json:"store"`  // dense: raw base storage; sparse: index,value pairs (non-zero)
}

var types = map[string]ad.ScalarType{}
var typeNames = []string{"Float64", "Real64", "Int", "Float32", "Real32", "Int64", "Int32", "Int16"}

func init() {
	types["Float64"] = ad.Float64Type
	types["Float32"] = ad.Float32Type
	types["Int"] = ad.IntType
	types["Int64"] = ad.Int64Type
	types["Int32"] = ad.Int32Type
	types["Int16"] = ad.Int16Type
	types["Real64"] = ad.Real64Type
	types["Real32"] = ad.Real32Type
}
func isReal(t string) bool { return strings.HasPrefix(t, "Real") }

// ---------------------------------------------------------------- running the implementation

func newMatrix(sparse bool, t ad.ScalarType, n, m int, vals []int64) ad.Matrix {
	var r ad.Matrix
	if sparse {
		r = ad.NullSparseMatrix(t, n, m)
	} else {
		r = ad.NullDenseMatrix(t, n, m)
	}
	for i := 0; i < n; i++ {
		for j := 0; j < m; j++ {
			if v := vals[i*m+j]; v != 0 {
				r.At(i, j).SetFloat64(float64(v))
			}
		}
	}
	return r
}
func newVector(t ad.ScalarType, vals []int64) ad.Vector {
	r := ad.NullDenseVector(t, len(vals))
	for i, v := range vals {
		r.At(i).SetFloat64(float64(v))
	}
	return r
}
func vecElems(v ad.ConstVector) []int64 {
	r := make([]int64, v.Dim())
	for i := range r {
		r[i] = int64(v.Float64At(i))
	}
	return r
}
func matElems(m ad.ConstMatrix) (r []int64, panicked bool) {
	defer func() {
		if e := recover(); e != nil {
			r, panicked = nil, true
		}
	}()
	n, k := m.Dims()
	r = []int64{}
	for i := 0; i < n; i++ {
		for j := 0; j < k; j++ {
			r = append(r, int64(m.Float64At(i, j)))
		}
	}
	return r, false
}
func mustElems(m ad.ConstMatrix) []int64 {
	r, p := matElems(m)
	if p {
		panic("element read panicked")
	}
	return r
}
func header(m ad.ConstMatrix) []int {
	h, _ := ad.VerifC10Header(m)
	t := 0
	if h.Transposed {
		t = 1
	}
	return []int{h.Rows, h.Cols, h.RowOffset, h.RowMax, h.ColOffset, h.ColMax, t}
}
func storage(sparse bool, m ad.ConstMatrix) []int64 {
	r := []int64{}
	if sparse {
		idx, val, _ := ad.VerifC10SparseStorage(m)
		for i, k := range idx {
			if val[i] != 0 {
				r = append(r, int64(k), int64(val[i]))
			}
		}
		return r
	}
	for _, v := range ad.VerifC10Storage(m) {
		r = append(r, int64(v))
	}
	return r
}

func applyViews(base ad.Matrix, views []View) (v ad.Matrix, failed bool) {
	defer func() {
		if e := recover(); e != nil {
			v, failed = nil, true
		}
	}()
	v = base
	for _, w := range views {
		if w.P != 0 {
			probe(v, w.P)
		}
		switch w.K {
		case "S":
			v = v.Slice(w.A[0], w.A[1], w.A[2], w.A[3])
		case "C":
			v = v.ConstSlice(w.A[0], w.A[1], w.A[2], w.A[3]).(ad.Matrix)
		case "T":
			v = v.T()
		default:
			Die("unknown view %s", w.K)
		}
	}
	return v, false
}

// probe calls view constructors on v and discards the results
func probe(v ad.Matrix, p int) {
	if p&1 != 0 {
		_ = v.T()
	}
	if p&2 != 0 {
		n, m := v.Dims()
		_ = v.Slice(0, n, 0, m)
	}
	if p&4 != 0 {
		_ = v.T().T()
	}
}

func arg(o Op, k int) int {
	if k < len(o.I) {
		return o.I[k]
	}
	return 0
}

const iterLimit = 400

// execOp runs one public operation with the view as receiver or operand.
// fresh(n,k,vals) builds an independent operand of the same storage kind/type.
func execOp(sparse bool, tname string, view ad.Matrix, o Op, outdir string) (res []int64, panicked bool) {
	defer func() {
		if e := recover(); e != nil {
			res, panicked = nil, true
		}
	}()
	t := types[tname]
	n, k := view.Dims()
	res = []int64{}
	fresh := func(a, b int) ad.Matrix { return newMatrix(sparse, t, a, b, o.B) }
	errz := func(e error) int64 {
		if e != nil {
			return 1
		}
		return 0
	}
	switch o.Name {
	case "SetAt":
		view.At(arg(o, 0), arg(o, 1)).SetFloat64(float64(arg(o, 2)))
	case "Iter", "IterFrom":
		var it ad.MatrixConstIterator
		if o.Name == "Iter" {
			it = view.ConstIterator()
		} else {
			it = view.ConstIteratorFrom(arg(o, 0), arg(o, 1))
		}
		steps := 0
		for ; it.Ok() && steps < iterLimit; it.Next() {
			i, j := it.Index()
			res = append(res, int64(i), int64(j), int64(it.GetConst().GetFloat64()))
			steps++
		}
		if steps >= iterLimit {
			res = append(res, -999999)
		}
	case "Reset":
		view.Reset()
	case "SetIdentity":
		view.SetIdentity()
	case "Set":
		view.Set(fresh(n, k))
	case "Ew":
		fr := fresh(n, k)
		call := func(r ad.Matrix, a, b ad.ConstMatrix) {
			switch arg(o, 0) {
			case 0:
				r.MaddM(a, b)
			case 1:
				r.MsubM(a, b)
			default:
				r.MmulM(a, b)
			}
		}
		switch arg(o, 1) {
		case 0:
			call(view, view, fr)
		case 1:
			call(fr, view, fr)
			res = mustElems(fr)
		default:
			call(view, fr, view)
		}
	case "MdotM":
		switch arg(o, 0) {
		case 0:
			fr := fresh(n, n)
			fr.MdotM(view, view.T())
			res = mustElems(fr)
		case 1:
			fr := fresh(k, k)
			fr.MdotM(view.T(), view)
			res = mustElems(fr)
		case 2:
			view.MdotM(view, fresh(n, k))
		default:
			view.MdotM(fresh(n, k), view)
		}
	case "MdotV":
		r := ad.NullDenseVector(t, n)
		r.MdotV(view, newVector(t, o.B))
		res = vecElems(r)
	case "VdotM":
		r := ad.NullDenseVector(t, k)
		r.VdotM(newVector(t, o.B), view)
		res = vecElems(r)
	case "Row", "Col", "Diag":
		var v ad.Vector
		switch o.Name {
		case "Row":
			v = view.Row(arg(o, 0))
		case "Col":
			v = view.Col(arg(o, 0))
		default:
			v = view.Diag()
		}
		res = vecElems(v)
		if v.Dim() > 0 { // a copy: writing to it must not reach the matrix
			v.At(0).SetFloat64(999)
		}
	case "ConstRow", "ConstCol":
		var v ad.ConstVector
		i, j := arg(o, 0), 0
		if o.Name == "ConstRow" {
			v = view.ConstRow(i)
		} else {
			i, j = 0, arg(o, 0)
			v = view.ConstCol(j)
		}
		res = vecElems(v)
		if v.Dim() > 0 {
			view.At(i, j).SetFloat64(777)
			if v.Float64At(0) == 777 {
				res = append(res, 1)
			} else {
				res = append(res, 0)
			}
		} else {
			res = []int64{0}
		}
	case "Swap":
		view.Swap(arg(o, 0), arg(o, 1), arg(o, 2), arg(o, 3))
	case "SwapRows":
		res = []int64{errz(view.SwapRows(arg(o, 0), arg(o, 1)))}
	case "SwapCols":
		res = []int64{errz(view.SwapColumns(arg(o, 0), arg(o, 1)))}
	case "Permute":
		pi := make([]int, len(o.B))
		for i, v := range o.B {
			pi[i] = int(v)
		}
		switch arg(o, 0) {
		case 0:
			res = []int64{errz(view.PermuteRows(pi))}
		case 1:
			res = []int64{errz(view.PermuteColumns(pi))}
		default:
			res = []int64{errz(view.SymmetricPermutation(pi))}
		}
	case "Tip":
		view.Tip()
	case "AsVector":
		v := view.AsVector()
		res = vecElems(v)
		if v.Dim() > 0 {
			v.At(0).SetFloat64(555)
		}
	case "AsVecMat":
		w := view.AsVector().AsMatrix(arg(o, 0), arg(o, 1))
		e := mustElems(w)
		res = append([]int64{int64(arg(o, 0)), int64(arg(o, 1))}, e...)
	case "Clone":
		c := view.CloneMatrix()
		for _, x := range header(c) {
			res = append(res, int64(x))
		}
		e := mustElems(c)
		res = append(res, e...)
		if n*k > 0 {
			c.At(0, 0).SetFloat64(444)
		}
	case "JSON":
		b, err := view.MarshalJSON()
		if err != nil {
			panic(err)
		}
		var nm ad.Matrix
		if sparse {
			nm = ad.NullSparseMatrix(t, 0, 0)
		} else {
			nm = ad.NullDenseMatrix(t, 0, 0)
		}
		if err := nm.(json.Unmarshaler).UnmarshalJSON(b); err != nil {
			// UnmarshalJSON rejects len(Values) != Rows*Cols (d37b260): on a MALFORMED dense view whose header takes the
			// raw-storage branch of MarshalJSON (cols > colMax after T / overreaching slice / T) the text is still what
			// MarshalJSON wrote -- the observable of this operation -- so it is decoded field by field instead
			if r2, ok := decodeDenseJSON(t, b); ok && !sparse {
				res = r2
				break
			}
			panic(err)
		}
		h := header(nm)
		res = append([]int64{int64(h[0]), int64(h[1])}, storage(sparse, nm)...)
	case "String":
		s := view.(fmt.Stringer).String()
		res = append([]int64{int64(strings.Count(s, "[") - 1)}, numbers(s)...)
	case "Table":
		res = numbers(view.Table())
	case "Export":
		fn := fmt.Sprintf("%s/export_%d.table", outdir, os.Getpid())
		if err := view.Export(fn); err != nil {
			panic(err)
		}
		var nm ad.Matrix
		if sparse {
			nm = ad.NullSparseMatrix(t, 0, 0)
		} else {
			nm = ad.NullDenseMatrix(t, 0, 0)
		}
		if err := nm.(interface{ Import(string) error }).Import(fn); err != nil {
			panic(err)
		}
		os.Remove(fn)
		a, b := nm.Dims()
		e := mustElems(nm)
		res = append([]int64{int64(a), int64(b)}, e...)
	case "IsSym":
		if view.IsSymmetric(1e-12) {
			res = []int64{1}
		} else {
			res = []int64{0}
		}
	default:
		r, known := execXOp(tname, view, o) // third stream (xop.go)
		if !known {
			Die("unknown op %s", o.Name)
		}
		res = r
	}
	return res, false
}

// numbers extracts the integers printed in a String()/Table() output
// decodeDenseJSON reads {"Values": [...], "Rows": r, "Cols": c} as written by the dense MarshalJSON: r, c, values
func decodeDenseJSON(t ad.ScalarType, b []byte) ([]int64, bool) {
	var raw struct {
		Values []json.RawMessage
		Rows   int
		Cols   int
	}
	if json.Unmarshal(b, &raw) != nil {
		return nil, false
	}
	res := []int64{int64(raw.Rows), int64(raw.Cols)}
	for _, rm := range raw.Values {
		var f float64
		if json.Unmarshal(rm, &f) == nil {
			res = append(res, int64(f))
			continue
		}
		sc := ad.NullScalar(t)
		if u, ok := sc.(json.Unmarshaler); ok && u.UnmarshalJSON(rm) == nil {
			res = append(res, int64(sc.GetFloat64()))
			continue
		}
		return nil, false
	}
	return res, true
}

func numbers(s string) []int64 {
	r := []int64{}
	f := strings.FieldsFunc(s, func(c rune) bool { return c == '[' || c == ']' || c == ',' || c == ' ' || c == '\n' || c == '\t' })
	for _, x := range f {
		var v float64
		if _, err := fmt.Sscanf(x, "%g", &v); err != nil {
			panic(fmt.Sprintf("unparsable number %q", x))
		}
		r = append(r, int64(v))
	}
	return r
}

func execute(c Case, outdir string) *Obs {
	t := types[c.Type]
	base := newMatrix(c.Sparse, t, c.Rows, c.Cols, c.Vals)
	o := &Obs{}
	view, failed := applyViews(base, c.Views)
	if failed {
		o.ViewsFail = true
		return o
	}
	o.Hdr0 = header(view)
	res, p := execOp(c.Sparse, c.Type, view, c.Op, outdir)
	if p {
		o.Panic = true
		return o
	}
	o.Res = res
	o.Hdr1 = header(view)
	o.View, o.ViewPanic = matElems(view)
	o.Store = storage(c.Sparse, base)
	return o
}

// ---------------------------------------------------------------- Coq syntax

func coqViews(vs []View) string {
	s := make([]string, len(vs))
	for i, v := range vs {
		switch v.K {
		case "S":
			s[i] = fmt.Sprintf("VSlice %s %s %s %s", ZI(v.A[0]), ZI(v.A[1]), ZI(v.A[2]), ZI(v.A[3]))
		case "C":
			s[i] = fmt.Sprintf("VCSlice %s %s %s %s", ZI(v.A[0]), ZI(v.A[1]), ZI(v.A[2]), ZI(v.A[3]))
		default:
			s[i] = "VT"
		}
	}
	return List(s)
}
func coqOp(o Op) string {
	a := func(k int) string { return ZI(arg(o, k)) }
	switch o.Name {
	case "SetAt":
		return fmt.Sprintf("(OSetAt %s %s %s)", a(0), a(1), a(2))
	case "Iter":
		return "OIter"
	case "IterFrom":
		return fmt.Sprintf("(OIterFrom %s %s)", a(0), a(1))
	case "Reset":
		return "OReset"
	case "SetIdentity":
		return "OSetIdentity"
	case "Set":
		return "(OSet " + ZList(o.B) + ")"
	case "Ew":
		return fmt.Sprintf("(OEw %s %s %s)", a(0), a(1), ZList(o.B))
	case "MdotM":
		return fmt.Sprintf("(OMdotM %s %s)", a(0), ZList(o.B))
	case "MdotV":
		return "(OMdotV " + ZList(o.B) + ")"
	case "VdotM":
		return "(OVdotM " + ZList(o.B) + ")"
	case "Row":
		return "(ORow " + a(0) + ")"
	case "Col":
		return "(OCol " + a(0) + ")"
	case "Diag":
		return "ODiag"
	case "ConstRow":
		return "(OConstRow " + a(0) + ")"
	case "ConstCol":
		return "(OConstCol " + a(0) + ")"
	case "Swap":
		return fmt.Sprintf("(OSwap %s %s %s %s)", a(0), a(1), a(2), a(3))
	case "SwapRows":
		return fmt.Sprintf("(OSwapRows %s %s)", a(0), a(1))
	case "SwapCols":
		return fmt.Sprintf("(OSwapCols %s %s)", a(0), a(1))
	case "Permute":
		return fmt.Sprintf("(OPermute %s %s)", a(0), ZList(o.B))
	case "Tip":
		return "OTip"
	case "AsVector":
		return "OAsVector"
	case "AsVecMat":
		return fmt.Sprintf("(OAsVecMat %s %s)", a(0), a(1))
	case "Clone":
		return "OClone"
	case "JSON":
		return "OJSON"
	case "String":
		return "OString"
	case "Table":
		return "OTable"
	case "Export":
		return "OExport"
	case "IsSym":
		return "OIsSym"
	}
	Die("coqOp: unknown op %s", o.Name)
	return ""
}
func coqObs(o *Obs) string {
	if o.ViewsFail {
		return "ObsViewsFail"
	}
	if o.Panic {
		return "(ObsPanic " + ZListI(o.Hdr0) + ")"
	}
	v := "None"
	if !o.ViewPanic {
		v = "(Some " + ZList(o.View) + ")"
	}
	return fmt.Sprintf("(ObsOk %s (mkObs %s %s %s %s))", ZListI(o.Hdr0), ZList(o.Res), ZListI(o.Hdr1), v, ZList(o.Store))
}
func coqCase(c Case) string {
	return fmt.Sprintf("mkCase %s %s %s %s %s %s %s %s", B(c.Sparse), B(isReal(c.Type)), ZI(c.Rows), ZI(c.Cols), ZList(c.Vals),
		coqViews(c.Views), coqOp(c.Op), coqObs(c.Obs))
}

// ---------------------------------------------------------------- main

const hdr = "From Coq Require Import ZArith List Bool. Import ListNotations.\nFrom ADV Require Import C10.Gen C10.Model C10.ModelSparse C10.Corr.\nOpen Scope Z_scope.\n"

func main() {
	o := ParseFlags()
	os.MkdirAll(o.Out, 0755)
	if o.Extra == "hunt" {
		hunt(o)
		return
	}
	if o.Extra == "probediff" {
		// diagnostic: every case of a cases.jsonl (--replay) that carries discarded constructor calls is executed with
		// and without them; the observations must be identical
		b, err := os.ReadFile(o.Replay)
		if err != nil {
			Die("%v", err)
		}
		nd, np := 0, 0
		for _, line := range strings.Split(string(b), "\n") {
			if strings.TrimSpace(line) == "" {
				continue
			}
			var c Case
			if err := json.Unmarshal([]byte(line), &c); err != nil {
				Die("probediff: %v", err)
			}
			if c.Bin != nil {
				continue
			}
			c2 := c
			c2.Views = append([]View{}, c.Views...)
			has := false
			for i := range c2.Views {
				has = has || c2.Views[i].P != 0
				c2.Views[i].P = 0
			}
			if !has {
				continue
			}
			np++
			o1, o2 := execute(c, o.Out), execute(c2, o.Out)
			j1, _ := json.Marshal(o1)
			j2, _ := json.Marshal(o2)
			if string(j1) != string(j2) {
				nd++
				fmt.Printf("DIFF %s\n  with: %s\n  without: %s\n", line, j1, j2)
			}
		}
		fmt.Printf("probediff: %d cases with discarded calls, %d differ\n", np, nd)
		return
	}
	if o.Replay != "" {
		b, err := os.ReadFile(o.Replay)
		if err != nil {
			Die("%v", err)
		}
		var rp struct {
			Case Case `json:"case"`
		}
		if err := json.Unmarshal(b, &rp); err != nil {
			Die("%v", err)
		}
		c := rp.Case
		if c.Bin != nil {
			bc := *c.Bin
			bc.Obs = executeBin(bc)
			w := NewCaseWriter(o.Out, "replay", hdrB, "mismB", 1000)
			w.Type = "bcase"
			w.Add(coqBCase(bc), bc, "replay", true)
			w.Flush()
			return
		}
		c.Obs = execute(c, o.Out)
		if isXOp(c.Op.Name) {
			w := NewCaseWriter(o.Out, "replay", hdrX, "mismX", 1000)
			w.Type = "xcase"
			w.Add(coqXCase(c), c, "replay", true)
			w.Flush()
			return
		}
		w := NewCaseWriter(o.Out, "replay", hdr, "mism", 1000)
		w.Type = "case"
		w.Add(coqCase(c), c, "replay", true)
		w.Flush()
		return
	}
	w := NewCaseWriter(o.Out, "cases", hdr, "mism", 150)
	w.Type = "case"
	var corpusBin []BCase
	var corpusX []Case
	w.Rule = "base matrix <= 7x7 (distinct integer entries, ~15% zeros), a composition of 0-4 Slice/ConstSlice/T " +
		"(10% of the slices overreach their parent: malformed stream; dense: before 1/3 of the steps T() / Slice(whole) / T().T() are " +
		"called on the object the step starts from and DISCARDED -- constructors are pure header functions), then one public operation, dense and sparse, " +
		"element types Float64 Real64 Int Float32 Real32 Int64 Int32 Int16; observed: header before/after, result, elements " +
		"through the view and raw storage of the parent. A case is non-trivial iff the view is a proper window or " +
		"transposed (header differs from a fresh matrix of the same shape) and has at least 2 elements; distinct = distinct (type, shape, views, op)"
	// committed corpus first
	if corpus, _ := os.ReadFile(o.Extra); len(corpus) > 0 {
		for _, line := range strings.Split(string(corpus), "\n") {
			line = strings.TrimSpace(line)
			if line == "" || strings.HasPrefix(line, "#") {
				continue
			}
			var c Case
			if err := json.Unmarshal([]byte(line), &c); err != nil {
				Die("corpus: %v", err)
			}
			if c.Bin != nil {
				corpusBin = append(corpusBin, *c.Bin)
				continue
			}
			if isXOp(c.Op.Name) {
				corpusX = append(corpusX, c)
				continue
			}
			c.Obs = execute(c, o.Out)
			w.Add(coqCase(c), c, "corpus:"+line, true)
			w.Count("corpus")
		}
	}
	rng := NewRng(o.Seed).Split() // Split: streams of neighbouring seeds are unrelated
	for k := 0; k < o.N; k++ {
		c := genCase(rng.Split(), k)
		c.Obs = execute(c, o.Out)
		key := caseKey(c)
		w.Add(coqCase(c), c, key, nontrivial(c))
		countCase(w, c)
	}
	if err := w.Flush(); err != nil {
		Die("%v", err)
	}
	// second stream: binary operations on several views of one parent, joint iterator
	wb := NewCaseWriter(o.Out, "bcases", hdrB, "mismB", 150)
	wb.Type = "bcase"
	wb.Rule = "parent matrix 2..6 x 2..6, receiver and both operands drawn as windows / transposed windows / nested windows " +
		"of THAT parent (10-20% fresh matrices, 1/6 identical to the receiver), then MaddM/MsubM/MmulM, MdotM, Set, the joint " +
		"iterator, or Equals/EQUALS between two windows of the parent (shifted windows, a square window against its own T(); constant, " +
		"periodic and symmetric parents so that both outcomes occur); observed: the three headers, panic, the joint report, the receiver's elements and every storage. " +
		"Non-trivial iff at least two of receiver/operands are proper views of the parent; distinct = distinct (type, shape, view programs, op)"
	for _, bc := range corpusBin {
		bc.Obs = executeBin(bc)
		wb.Add(coqBCase(bc), bc, "corpus:"+bcaseKey(bc), true)
		wb.Count("corpus")
	}
	rb := NewRng(o.Seed*1000003 + 17).Split()
	for k := 0; k < o.N*3/7; k++ {
		bc := genBCase(rb.Split(), k)
		bc.Obs = executeBin(bc)
		wb.Add(coqBCase(bc), bc, bcaseKey(bc), bNontrivial(bc))
		countBCase(wb, bc)
	}
	if err := wb.Flush(); err != nil {
		Die("%v", err)
	}
	// third stream: callbacks (Map / MapSet / Reduce / writing iterator), matrix-scalar, Outer, Equals, ConstDiag,
	// typed readers on dense views
	wx := NewCaseWriter(o.Out, "xcases", hdrX, "mismX", 150)
	wx.Type = "xcase"
	wx.Rule = "dense base matrix <= 7x7, a composition of 0-4 Slice/ConstSlice/T (10% overreaching), then Map / MapSet / the writing " +
		"iterator with an order-sensitive stateful callback (state and new element depend on the old element and on the state), " +
		"Reduce with a non-commutative callback, MaddS/MsubS/MmulS (receiver = operand, fresh receiver, fresh operand), Outer " +
		"(1/12 wrong vector length), Equals against the denoted elements (2/3 with one element changed), ConstDiag with its " +
		"alias test, all typed element readers; eight element types; observed as in the first stream. Non-trivial iff the view is a " +
		"proper window or transposed and has at least 2 elements; distinct = distinct (type, shape, views, op, parameters)"
	for _, c := range corpusX {
		c.Obs = execute(c, o.Out)
		wx.Add(coqXCase(c), c, "corpus:"+caseKey(c), true)
		wx.Count("corpus")
	}
	rx := NewRng(o.Seed*1000003 + 4242).Split()
	for k := 0; k < o.N*3/7; k++ {
		c := genXCase(rx.Split(), k)
		c.Obs = execute(c, o.Out)
		wx.Add(coqXCase(c), c, caseKey(c), nontrivial(c))
		countCase(wx, c)
	}
	wx.CountN("concrete-twin-calls(MADDS/MSUBS/MMULS/OUTER/EQUALS)", upperCalls)
	if err := wx.Flush(); err != nil {
		Die("%v", err)
	}
}

func caseKey(c Case) string {
	return fmt.Sprint(c.Sparse, c.Type, c.Rows, c.Cols, c.Views, c.Op.Name, c.Op.I, c.Op.U)
}
func nontrivial(c Case) bool {
	if c.Obs == nil || c.Obs.ViewsFail || len(c.Obs.Hdr0) < 7 {
		return false
	}
	h := c.Obs.Hdr0
	proper := h[6] == 1 || h[0] != h[3] || h[1] != h[5] || h[2] != 0 || h[4] != 0
	return proper && h[0]*h[1] >= 2
}
func countCase(w *CaseWriter, c Case) {
	kind := "dense"
	if c.Sparse {
		kind = "sparse"
	}
	w.Count("kind:" + kind)
	w.Count("type:" + c.Type)
	w.Count("op:" + c.Op.Name)
	w.Count(fmt.Sprintf("depth:%d", len(c.Views)))
	switch {
	case c.Obs.ViewsFail:
		w.Count("outcome:view-construction-panic")
	case c.Obs.Panic:
		w.Count("outcome:panic")
	default:
		w.Count("outcome:ok")
	}
	if nontrivial(c) {
		w.Count("nontrivial")
	}
	nt := 0
	for _, v := range c.Views {
		if v.K == "T" {
			nt++
		}
	}
	w.Count(fmt.Sprintf("transposes:%d", nt))
	np, tst := 0, false
	for i, v := range c.Views {
		if v.P != 0 {
			np++
			if v.P&1 != 0 && v.K != "T" && i+1 < len(c.Views) && c.Views[i+1].K == "T" {
				tst = true
			}
		}
	}
	if np > 0 {
		w.Count("discarded-constructor-calls-before-a-step")
	}
	if tst {
		w.Count("T()-discarded-then-Slice-then-T()")
	}
}
