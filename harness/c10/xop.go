package main

// Third stream (round 6): the remaining public operations of the dense matrices that take a view as
// receiver or operand and reach the storage cell by cell -- the ScalarContainer callbacks Map / MapSet /
// Reduce, the writing iterator, matrix (op) scalar, Outer, Equals, ConstDiag and the typed element
// readers.  Model: coq/C10/ModelMap.v (run_xcase), compared by CorrMap.mismX.  The same Case / Op / Obs
// records as the first stream, so the hunt's "operation on the view = operation on a deep copy" oracle and
// the replay cover these operations without further code.

import (
	"fmt"
	"reflect"

	. "adharness/common"

	ad "github.com/pbenner/autodiff"
)

var denseXOps = []string{"Map", "MapSet", "IterMap", "Reduce", "EwS", "Outer", "Equals", "TypedAt", "ConstDiag"}

func isXOp(name string) bool {
	for _, n := range denseXOps {
		if n == name {
			return true
		}
	}
	return false
}

const hdrX = "From Coq Require Import ZArith List Bool. Import ListNotations.\nFrom ADV Require Import C10.Gen C10.Model C10.ModelMap C10.Corr C10.CorrMap.\nOpen Scope Z_scope.\n"

// callUpper calls the concrete twin recv.NAME(args...) (e.g. (*DenseFloat64Matrix).MADDS(*DenseFloat64Matrix, Float64))
// by reflection; false when the type has no such method or an argument is of another concrete type.
func callUpper(recv interface{}, name string, args ...interface{}) (out []reflect.Value, ok bool) {
	m := reflect.ValueOf(recv).MethodByName(name)
	if !m.IsValid() || m.Type().NumIn() != len(args) {
		return nil, false
	}
	in := make([]reflect.Value, len(args))
	for i, a := range args {
		in[i] = reflect.ValueOf(a)
		if !in[i].Type().AssignableTo(m.Type().In(i)) {
			return nil, false
		}
	}
	upperCalls++
	return m.Call(in), true
}

var upperCalls int

func euclid997(x int64) int64 { return ((x % 997) + 997) % 997 }

// the callbacks of the replay: cb_affine / red_affine of ModelMap.v
func cbAffine(o Op, s *int64, v int64) int64 {
	*s = euclid997(int64(arg(o, 0))**s + v + int64(arg(o, 1)))
	return int64(arg(o, 2))*v + *s
}

// execXOp is called by execOp (inside its recover) for the operations of this stream
func execXOp(tname string, view ad.Matrix, o Op) (res []int64, known bool) {
	t := types[tname]
	n, k := view.Dims()
	res = []int64{}
	fresh := func(a, b int) ad.Matrix { return newMatrix(false, t, a, b, o.B) }
	switch o.Name {
	case "Map":
		s := int64(arg(o, 3))
		view.Map(func(x ad.Scalar) {
			x.SetFloat64(float64(cbAffine(o, &s, int64(x.GetFloat64()))))
		})
		res = []int64{s}
	case "MapSet":
		s := int64(arg(o, 3))
		view.MapSet(func(x ad.ConstScalar) ad.Scalar {
			return ad.NewScalar(t, float64(cbAffine(o, &s, int64(x.GetFloat64()))))
		})
		res = []int64{s}
	case "IterMap":
		s := int64(arg(o, 3))
		steps := 0
		for it := view.Iterator(); it.Ok() && steps < iterLimit; it.Next() {
			x := it.Get()
			x.SetFloat64(float64(cbAffine(o, &s, int64(x.GetFloat64()))))
			steps++
		}
		if steps >= iterLimit {
			panic("writing iterator does not terminate")
		}
		res = []int64{s}
	case "Reduce":
		r := view.Reduce(func(r ad.Scalar, x ad.ConstScalar) ad.Scalar {
			r.SetFloat64(float64(euclid997(int64(arg(o, 0))*int64(r.GetFloat64()) + int64(x.GetFloat64()) + int64(arg(o, 1)))))
			return r
		}, ad.NewScalar(t, float64(arg(o, 2))))
		res = []int64{int64(r.GetFloat64())}
	case "EwS":
		fr := fresh(n, k)
		c := ad.NewScalar(t, float64(arg(o, 2)))
		call := func(r ad.Matrix, a ad.ConstMatrix) {
			if o.U {
				if _, ok := callUpper(r, []string{"MADDS", "MSUBS", "MMULS", "MDIVS"}[arg(o, 0)%4], a, c); ok {
					return
				}
			}
			switch arg(o, 0) {
			case 0:
				r.MaddS(a, c)
			case 1:
				r.MsubS(a, c)
			case 2:
				r.MmulS(a, c)
			default:
				r.MdivS(a, c)
			}
		}
		switch arg(o, 1) {
		case 0:
			call(view, view)
		case 1:
			call(fr, view)
			res = mustElems(fr)
		default:
			call(view, fr)
		}
	case "Outer":
		b := make([]int64, len(o.I))
		for i, x := range o.I {
			b[i] = int64(x)
		}
		if o.U {
			if _, ok := callUpper(view, "OUTER", newVector(t, o.B), newVector(t, b)); ok {
				break
			}
		}
		view.Outer(newVector(t, o.B), newVector(t, b))
	case "Equals":
		fr := fresh(n, k)
		var e bool
		a, b := ad.Matrix(view), fr
		if arg(o, 0) != 0 {
			a, b = fr, view
		}
		done := false
		if o.U {
			if out, ok := callUpper(a, "EQUALS", b, 1e-12); ok {
				e, done = out[0].Bool(), true
			}
		}
		if !done {
			e = a.Equals(b, 1e-12)
		}
		if e {
			res = []int64{1}
		} else {
			res = []int64{0}
		}
	case "TypedAt":
		// every typed reader must address the same element
		for i := 0; i < n; i++ {
			for j := 0; j < k; j++ {
				v := int64(view.Float64At(i, j))
				got := []int64{int64(view.Int16At(i, j)), int64(view.Int32At(i, j)), view.Int64At(i, j), int64(view.IntAt(i, j)),
					int64(view.Float32At(i, j)), int64(view.ConstAt(i, j).GetFloat64()), int64(view.At(i, j).GetFloat64())}
				for q, g := range got {
					if g != v {
						v = -900000 - int64(q) // visible in the replay as a wrong element
					}
				}
				res = append(res, v)
			}
		}
	case "ConstDiag":
		v := view.ConstDiag()
		res = vecElems(v)
		if v.Dim() > 0 {
			view.At(0, 0).SetFloat64(777)
			if v.Float64At(0) == 777 {
				res = append(res, 1)
			} else {
				res = append(res, 0)
			}
		} else {
			res = []int64{0}
		}
	default:
		return nil, false
	}
	return res, true
}

func coqXOp(o Op) string {
	a := func(k int) string { return ZI(arg(o, k)) }
	switch o.Name {
	case "Map":
		return fmt.Sprintf("(XMap %s %s %s %s)", a(0), a(1), a(2), a(3))
	case "MapSet":
		return fmt.Sprintf("(XMapSet %s %s %s %s)", a(0), a(1), a(2), a(3))
	case "IterMap":
		return fmt.Sprintf("(XIterMap %s %s %s %s)", a(0), a(1), a(2), a(3))
	case "Reduce":
		return fmt.Sprintf("(XReduce %s %s %s)", a(0), a(1), a(2))
	case "EwS":
		return fmt.Sprintf("(XEwS %s %s %s %s)", a(0), a(1), a(2), ZList(o.B))
	case "Outer":
		return fmt.Sprintf("(XOuter %s %s)", ZList(o.B), ZListI(o.I))
	case "Equals":
		return fmt.Sprintf("(XEquals %s %s)", a(0), ZList(o.B))
	case "TypedAt":
		return "XTypedAt"
	case "ConstDiag":
		return "XConstDiag"
	}
	Die("coqXOp: unknown op %s", o.Name)
	return ""
}
func coqXCase(c Case) string {
	return fmt.Sprintf("mkXCase %s %s %s %s %s %s %s", B(isReal(c.Type)), ZI(c.Rows), ZI(c.Cols), ZList(c.Vals),
		coqViews(c.Views), coqXOp(c.Op), coqObs(c.Obs))
}

// dimensions of the view a program denotes (no guard applied: the malformed stream overreaches)
func viewDims(c Case) (int, int) {
	n, k := c.Rows, c.Cols
	for _, v := range c.Views {
		if v.K == "T" {
			n, k = k, n
		} else {
			n, k = v.A[1]-v.A[0], v.A[3]-v.A[2]
		}
	}
	return n, k
}

func genXOp(r *Rng, name string, c Case, n, k int) Op {
	o := Op{Name: name}
	switch name {
	case "Map", "MapSet", "IterMap":
		o.I = []int{r.Range(0, 3), r.Range(0, 9), r.Range(0, 2), r.Range(0, 20)}
	case "Reduce":
		o.I = []int{r.Range(0, 3), r.Range(0, 9), r.Range(0, 20)}
	case "EwS":
		o.I = []int{r.Intn(4), r.Intn(3), r.Range(2, 7)}
		o.B = smallVals(r, n*k, 1, 9)
		if o.I[0] == 3 { // MdivS: larger dividends, the observed quotient is truncated
			o.B = smallVals(r, n*k, 10, 60)
		}
		o.U = r.Bool()
	case "Outer":
		la, lb := n, k
		if r.Intn(12) == 0 { // malformed stream: a vector of the wrong length
			if r.Bool() {
				la++
			} else {
				lb++
			}
		}
		o.B = smallVals(r, la, 1, 9)
		o.U = r.Bool()
		if lb < 0 {
			lb = 0
		}
		o.I = make([]int, lb)
		for i := range o.I {
			o.I[i] = r.Range(1, 9)
		}
	case "Equals":
		o.I = []int{r.Intn(2)}
		o.U = r.Bool()
		// an operand holding the elements the view denotes, in two of three cases with one element changed
		co, on, ok2, ok := applyOracle(c.Rows, c.Cols, c.Views)
		if ok && on*ok2 > 0 {
			o.B = make([]int64, 0, on*ok2)
			for i := 0; i < on; i++ {
				for j := 0; j < ok2; j++ {
					p := co[i][j]
					o.B = append(o.B, c.Vals[p[0]*c.Cols+p[1]])
				}
			}
			if r.Intn(3) > 0 {
				o.B[r.Intn(len(o.B))] += 1
			}
		} else {
			o.B = smallVals(r, n*k, 1, 9)
		}
	}
	return o
}

func genXCase(r *Rng, seq int) Case {
	save := sparseEnabled
	sparseEnabled = false
	c := genCase(r.Split(), seq)
	sparseEnabled = save
	n, k := viewDims(c)
	name := denseXOps[r.Intn(len(denseXOps))]
	if name == "ConstDiag" && n != k && n > 0 && k > 0 && r.Intn(6) > 0 {
		// ConstDiag panics on a non-square matrix: mostly cut a square window out of the view
		q := n
		if k < q {
			q = k
		}
		a, b := r.Intn(n-q+1), r.Intn(k-q+1)
		c.Views = append(c.Views, View{K: "S", A: [4]int{a, a + q, b, b + q}})
		n, k = q, q
	}
	c.Op = genXOp(r, name, c, n, k)
	return c
}

// deterministic instances for the hunt (opInstances)
func xopInstances(n, k int) []Op {
	seqv := func(l, from int) []int64 {
		if l < 0 {
			l = 0
		}
		v := make([]int64, l)
		for i := range v {
			v[i] = int64(from + i%7)
		}
		return v
	}
	ones := make([]int, k)
	for i := range ones {
		ones[i] = 2 + i
	}
	ops := []Op{
		{Name: "Map", I: []int{2, 1, 1, 5}}, {Name: "MapSet", I: []int{3, 0, 2, 1}}, {Name: "IterMap", I: []int{2, 1, 1, 5}},
		{Name: "Reduce", I: []int{3, 1, 2}}, {Name: "TypedAt"}, {Name: "ConstDiag"},
		{Name: "Outer", B: seqv(n, 1), I: ones}, {Name: "Outer", B: seqv(n, 1), I: ones, U: true},
		{Name: "Equals", I: []int{0}, U: true}, {Name: "Equals", I: []int{1}, U: true},
		{Name: "Equals", I: []int{0}}, {Name: "Equals", I: []int{1}}, {Name: "Equals", I: []int{0}, B: seqv(n*k, 1)},
	}
	for f := 0; f < 4; f++ {
		ops = append(ops, Op{Name: "EwS", I: []int{f, f % 3, 3}, B: seqv(n*k, 2)}, Op{Name: "EwS", I: []int{f, (f + 1) % 3, 3}, B: seqv(n*k, 12), U: true})
	}
	return ops
}
