package main

import (
	. "adharness/common"
)

var denseOps = []string{"SetAt", "Iter", "IterFrom", "Reset", "SetIdentity", "Set", "Ew", "MdotM", "MdotV", "VdotM",
	"Row", "Col", "Diag", "ConstRow", "ConstCol", "Swap", "SwapRows", "SwapCols", "Permute", "Tip", "AsVector",
	"AsVecMat", "Clone", "JSON", "String", "Table", "Export", "IsSym"}

// operations modelled for sparse matrices (ModelSparse.v)
var sparseOps = []string{"SetAt", "Iter", "IterFrom", "Reset", "Row", "Col", "Diag", "ConstRow", "AsVector", "JSON",
	"String", "Table", "Export", "Clone", "Swap", "MdotV", "VdotM", "Tip"}

func gcd(a, b int) int {
	if a < 0 {
		a = -a
	}
	if b < 0 {
		b = -b
	}
	for b != 0 {
		a, b = b, a%b
	}
	return a
}

// Tip follows cycles of k -> rows*k mod (mn-1); on a view whose row count is not
// coprime to mn-1 the loop of the implementation never returns, so the generators avoid it.
func tipTerminates(rows, mn int) bool { return mn <= 2 || gcd(rows, mn-1) == 1 }

func pickIndex(r *Rng, n int) int {
	// mostly valid, boundaries favoured, sometimes just outside
	switch r.Intn(10) {
	case 0:
		return -1
	case 1:
		return n
	case 2:
		return 0
	case 3:
		if n > 0 {
			return n - 1
		}
		return 0
	}
	if n <= 0 {
		return 0
	}
	return r.Intn(n)
}
func pickValid(r *Rng, n int) int {
	if n <= 0 {
		return 0
	}
	return r.Intn(n)
}

func genSlice(r *Rng, n, k int, malformed bool) View {
	bounds := func(n int) (int, int) {
		a, b := 0, n
		if n <= 0 {
			return 0, 0
		}
		switch r.Intn(12) {
		case 0, 1, 2: // full
		case 3, 4: // prefix
			b = r.Range(1, n)
		case 5, 6: // suffix
			a = r.Range(0, n-1)
		case 7: // empty
			a = r.Range(0, n)
			b = a
		default: // non-empty window
			a = r.Range(0, n-1)
			b = r.Range(a+1, n)
		}
		return a, b
	}
	r0, r1 := bounds(n)
	c0, c1 := bounds(k)
	if malformed && r.Intn(10) == 0 { // malformed stream: the arguments overreach the parent
		switch r.Intn(4) {
		case 0:
			r1 = n + 1
		case 1:
			c1 = k + 1
		case 2:
			if r0 == 0 {
				r0 = -1
			}
		default:
			if c0 == 0 {
				c0 = -1
			}
		}
	}
	kind := "S"
	if r.Intn(4) == 0 {
		kind = "C"
	}
	return View{K: kind, A: [4]int{r0, r1, c0, c1}}
}

func smallVals(r *Rng, n, lo, hi int) []int64 {
	if n < 0 {
		n = 0
	}
	v := make([]int64, n)
	for i := range v {
		v[i] = int64(r.Range(lo, hi))
	}
	return v
}

func genOp(r *Rng, name string, n, k, baseLen int, real bool) Op {
	o := Op{Name: name}
	switch name {
	case "SetAt":
		o.I = []int{pickIndex(r, n), pickIndex(r, k), r.Range(100, 120)}
	case "IterFrom":
		o.I = []int{pickValid(r, n+1), pickValid(r, k+2)}
	case "Set":
		o.B = smallVals(r, n*k, 50, 99)
	case "Ew":
		o.I = []int{r.Intn(3), r.Intn(3)}
		o.B = smallVals(r, n*k, 1, 9)
	case "MdotM":
		mode := r.Intn(4)
		if n != k && mode >= 2 && r.Intn(4) > 0 {
			mode = r.Intn(2)
		}
		o.I = []int{mode}
		switch mode {
		case 0:
			o.B = smallVals(r, n*n, 1, 5)
		case 1:
			o.B = smallVals(r, k*k, 1, 5)
		default:
			o.B = smallVals(r, n*k, 1, 5)
		}
	case "MdotV":
		o.B = smallVals(r, k, -3, 5)
	case "VdotM":
		o.B = smallVals(r, n, -3, 5)
	case "Row", "ConstRow":
		o.I = []int{pickIndex(r, n)}
	case "Col", "ConstCol":
		o.I = []int{pickIndex(r, k)}
	case "Swap":
		o.I = []int{pickIndex(r, n), pickIndex(r, k), pickIndex(r, n), pickIndex(r, k)}
	case "SwapRows":
		o.I = []int{pickIndex(r, n), pickIndex(r, n)}
	case "SwapCols":
		o.I = []int{pickIndex(r, k), pickIndex(r, k)}
	case "Permute":
		o.I = []int{r.Intn(3)}
		l := n
		if k > l {
			l = k
		}
		o.B = make([]int64, l)
		for i := range o.B {
			o.B[i] = int64(r.Range(0, l-1))
			if r.Intn(3) == 0 {
				o.B[i] = int64(i)
			}
			if r.Intn(25) == 0 {
				o.B[i] = int64([]int{-1, l, l + 1}[r.Intn(3)])
			}
		}
	case "AsVecMat":
		tot := baseLen
		if r.Bool() {
			tot = n * k
		}
		a := 1
		if tot > 0 {
			ds := []int{}
			for d := 1; d <= tot; d++ {
				if tot%d == 0 {
					ds = append(ds, d)
				}
			}
			a = ds[r.Intn(len(ds))]
			o.I = []int{a, tot / a}
		} else {
			o.I = []int{0, r.Intn(3)}
		}
	}
	return o
}

var sparseEnabled = true

func genCase(r *Rng, seq int) Case {
	c := Case{}
	c.Sparse = sparseEnabled && r.Intn(3) == 0
	c.Type = typeNames[r.Pick([]int{5, 4, 4, 1, 1, 1, 1, 1})]
	dim := func() int {
		if r.Intn(8) == 0 {
			return r.Range(0, 7)
		}
		return r.Range(1, 7)
	}
	c.Rows, c.Cols = dim(), dim()
	c.Vals = make([]int64, c.Rows*c.Cols)
	for i := range c.Vals {
		c.Vals[i] = int64(i + 1)
		p := 7
		if c.Sparse {
			p = 3
		}
		if r.Intn(p) == 0 {
			c.Vals[i] = 0
		}
	}
	n, k := c.Rows, c.Cols
	depth := r.Pick([]int{2, 4, 5, 4, 3})
	// sparse T() re-lays the storage out (a new vector sharing the existing cells): it appears at
	// most once, as the last constructor of a sparse view program, and then the slices before it
	// stay within their guard
	sparseT := c.Sparse && depth > 0 && r.Intn(3) == 0
	for d := 0; d < depth; d++ {
		if c.Sparse {
			if sparseT && d == depth-1 {
				c.Views = append(c.Views, View{K: "T"})
				n, k = k, n
				continue
			}
		} else if r.Intn(3) == 0 {
			c.Views = append(c.Views, View{K: "T"})
			n, k = k, n
			continue
		}
		v := genSlice(r, n, k, !sparseT)
		if c.Sparse {
			v.K = "S"
			if r.Intn(4) == 0 {
				v.K = "C"
			}
		}
		c.Views = append(c.Views, v)
		n, k = v.A[1]-v.A[0], v.A[3]-v.A[2]
	}
	if !c.Sparse {
		// discarded constructor calls on the object a step starts from (dense: T()/Slice are pure header functions)
		for i := range c.Views {
			if r.Intn(3) == 0 {
				c.Views[i].P = 1 + r.Intn(7)
			}
		}
	}
	ops := denseOps
	if c.Sparse {
		ops = sparseOps
	}
	for try := 0; ; try++ {
		name := ops[r.Intn(len(ops))]
		if name == "Tip" && !tipTerminates(n, c.Rows*c.Cols) {
			continue
		}
		if c.Sparse && name == "Swap" {
			// the sparse vector Swap has no bounds check at all: on an overreaching window it moves
			// entries beyond the vector's length, a state no operation is specified on
			n, k = clampViews(&c)
		}
		c.Op = genOp(r, name, n, k, c.Rows*c.Cols, isReal(c.Type))
		break
	}
	return c
}

// clampViews forces every slice of the view program into its guard; returns the final dimensions
func clampViews(c *Case) (int, int) {
	n, k := c.Rows, c.Cols
	cl := func(x, lo, hi int) int {
		if x < lo {
			return lo
		}
		if x > hi {
			return hi
		}
		return x
	}
	for i := range c.Views {
		v := &c.Views[i]
		if v.K == "T" {
			n, k = k, n
			continue
		}
		v.A[0] = cl(v.A[0], 0, n)
		v.A[1] = cl(v.A[1], v.A[0], n)
		v.A[2] = cl(v.A[2], 0, k)
		v.A[3] = cl(v.A[3], v.A[2], k)
		n, k = v.A[1]-v.A[0], v.A[3]-v.A[2]
	}
	return n, k
}
