package main

// Hunt: a property-level oracle on the IMPLEMENTATION, independent of the Coq
// model.  Plain 2-D array semantics say which element of the base every view
// position denotes; the property then demands, for every public operation,
//   (a) reading the view gives exactly those elements, out-of-range reads panic,
//   (b) the operation applied to the view gives the same result and leaves the
//       view with the same elements as the operation applied to an independent
//       deep copy holding the same elements,
//   (c) afterwards the parent holds the deep copy's elements at the denoted
//       positions (reference views write through) and is unchanged elsewhere
//       (copying accessors do not write through; nothing else is touched).
// It is a search, never the decision.

import (
	"encoding/json"
	"fmt"
	"os"
	"sort"

	. "adharness/common"

	ad "github.com/pbenner/autodiff"
)

type Failure struct {
	Site    string `json:"site"` // "<dense|sparse>:<op>"
	What    string `json:"what"`
	Case    Case   `json:"case"`
	Flags   Flags  `json:"flags"`
	Count   int    `json:"count"`
	Example string `json:"example"`
}
type Flags struct {
	Sparse     bool   `json:"sparse"`
	Op         string `json:"op"`
	Proper     bool   `json:"proper_window"` // the view does not cover its whole storage
	Transposed bool   `json:"transposed"`    // odd number of T()
	Square     bool   `json:"square"`
	Depth      int    `json:"depth"`
	SliceThenT bool   `json:"slice_then_t"` // a T() is applied to a proper window (sparse T re-layout)
	HasT       bool   `json:"has_t"`
	Real       bool   `json:"real"`
	// bin.go: r.MdotM(r, b) with b another view of the receiver's parent (C08's F-MDOTM-T seen from C10)
	SiblingRight bool `json:"sibling_right"`
}

type coordArr [][][2]int

func baseCoords(n, m int) coordArr {
	c := make(coordArr, n)
	for i := range c {
		c[i] = make([][2]int, m)
		for j := range c[i] {
			c[i][j] = [2]int{i, j}
		}
	}
	return c
}
func dimsOf(c coordArr, cols int) (int, int) {
	if len(c) == 0 {
		return 0, cols
	}
	return len(c), len(c[0])
}

// applyOracle: plain 2-D array semantics of the view constructors (guards assumed)
func applyOracle(rows, cols int, views []View) (c coordArr, n, k int, ok bool) {
	c = baseCoords(rows, cols)
	n, k = rows, cols
	for _, v := range views {
		switch v.K {
		case "T":
			t := make(coordArr, k)
			for j := 0; j < k; j++ {
				t[j] = make([][2]int, n)
				for i := 0; i < n; i++ {
					t[j][i] = c[i][j]
				}
			}
			c = t
			n, k = k, n
		default:
			r0, r1, c0, c1 := v.A[0], v.A[1], v.A[2], v.A[3]
			if r0 < 0 || r0 > r1 || r1 > n || c0 < 0 || c0 > c1 || c1 > k {
				return nil, 0, 0, false
			}
			s := make(coordArr, r1-r0)
			for i := range s {
				s[i] = append([][2]int{}, c[r0+i][c0:c1]...)
			}
			c = s
			n, k = r1-r0, c1-c0
		}
	}
	return c, n, k, true
}

func eq64(a, b []int64) bool {
	if len(a) != len(b) {
		return false
	}
	for i := range a {
		if a[i] != b[i] {
			return false
		}
	}
	return true
}

func readPanics(m ad.ConstMatrix, i, j int) (p bool) {
	defer func() {
		if e := recover(); e != nil {
			p = true
		}
	}()
	m.Float64At(i, j)
	return false
}

func flagsOf(c Case, n, k int) Flags {
	f := Flags{Sparse: c.Sparse, Op: c.Op.Name, Depth: len(c.Views), Square: n == k}
	nt := 0
	proper := false
	rn, rk := c.Rows, c.Cols
	for _, v := range c.Views {
		if v.K == "T" {
			nt++
			rn, rk = rk, rn
			if proper {
				f.SliceThenT = true
			}
		} else {
			if v.A[0] != 0 || v.A[2] != 0 || v.A[1] != rn || v.A[3] != rk {
				proper = true
			}
			rn, rk = v.A[1]-v.A[0], v.A[3]-v.A[2]
		}
	}
	f.Proper = proper
	f.HasT = nt > 0
	f.Real = isReal(c.Type)
	f.Transposed = nt%2 == 1
	return f
}

// propCheck returns "" when the property holds on this case, else a description.
func propCheck(c Case, outdir string) (what string) {
	defer func() {
		if e := recover(); e != nil {
			what = fmt.Sprintf("harness-level panic: %v", e)
		}
	}()
	t := types[c.Type]
	co, n, k, ok := applyOracle(c.Rows, c.Cols, c.Views)
	if !ok {
		return "" // arguments outside the guard: nothing is promised
	}
	base := newMatrix(c.Sparse, t, c.Rows, c.Cols, c.Vals)
	view, failed := applyViews(base, c.Views)
	if failed {
		return "constructing the view panicked"
	}
	// (a) dims and elements
	vn, vk := view.Dims()
	if vn != n || vk != k {
		return fmt.Sprintf("Dims() = %dx%d, denoted window is %dx%d", vn, vk, n, k)
	}
	want := make([]int64, 0, n*k)
	for i := 0; i < n; i++ {
		for j := 0; j < k; j++ {
			p := co[i][j]
			want = append(want, c.Vals[p[0]*c.Cols+p[1]])
		}
	}
	got, p := matElems(view)
	if p {
		return "reading an in-range element of the view panicked"
	}
	if !eq64(got, want) {
		return fmt.Sprintf("elements through the view %v, denoted sub-array %v", got, want)
	}
	for _, ij := range [][2]int{{-1, 0}, {0, -1}, {n, 0}, {0, k}} {
		if !readPanics(view, ij[0], ij[1]) {
			return fmt.Sprintf("out-of-range read (%d,%d) of a %dx%d view did not panic", ij[0], ij[1], n, k)
		}
	}
	if c.Op.Name == "" {
		return ""
	}
	if n == 0 || k == 0 {
		// on an empty view the guards of these operations depend on the storage layout
		// (index(i,0) of a 0-column row, &values[0] of an empty storage): C20's business
		switch c.Op.Name {
		case "Row", "Col", "ConstRow", "ConstCol", "MdotM":
			return ""
		}
	}
	tipWindow := false
	if fl := flagsOf(c, n, k); c.Op.Name == "Tip" && fl.Proper && (c.Sparse || !fl.Transposed) {
		// Tip on a transposed window merely clears the flag (2ffe99c), which is checked like any
		// other case.  On a NON-transposed proper window of a dense matrix the code permutes the
		// parent's whole storage with the window's row count (F-TIP-VIEW): checked like any other
		// operation, plus the frame of the parent, whenever that loop terminates at all.
		if c.Sparse || !tipTerminates(n, c.Rows*c.Cols) {
			return ""
		}
		tipWindow = true
	}
	if c.Op.Name == "Equals" && len(c.Op.B) == 0 {
		// compare against the elements the view denotes: both calls must answer "equal"
		c.Op.B = append([]int64{}, want...)
	}
	// (b) operation on the view vs on an independent deep copy
	dc := newMatrix(c.Sparse, t, n, k, want)
	res1, p1 := execOp(c.Sparse, c.Type, view, c.Op, outdir)
	res2, p2 := execOp(c.Sparse, c.Type, dc, c.Op, outdir)
	if p1 != p2 {
		return fmt.Sprintf("%s on the view panics=%v, on a deep copy panics=%v", c.Op.Name, p1, p2)
	}
	if p1 {
		return ""
	}
	switch c.Op.Name {
	case "Clone": // the first 7 numbers are the clone's header
		res1, res2 = res1[7:], res2[7:]
	case "ConstRow", "ConstCol", "ConstDiag": // the last number says whether the result aliases the storage
		res1, res2 = res1[:len(res1)-1], res2[:len(res2)-1]
	}
	if !eq64(res1, res2) {
		return fmt.Sprintf("%s on the view returned %v, on a deep copy %v", c.Op.Name, res1, res2)
	}
	v1, pv1 := matElems(view)
	d2, pd2 := matElems(dc)
	if pv1 || pd2 {
		return "reading after the operation panicked"
	}
	if !eq64(v1, d2) {
		return fmt.Sprintf("after %s the view holds %v, the deep copy %v", c.Op.Name, v1, d2)
	}
	if c.Op.Name == "Tip" {
		if tipWindow { // the parent keeps its shape: what the window does not denote must not move
			denoted := map[[2]int]bool{}
			for i := 0; i < n; i++ {
				for j := 0; j < k; j++ {
					denoted[co[i][j]] = true
				}
			}
			b1, pb := matElems(base)
			if pb {
				return "reading the parent after Tip on a window panicked"
			}
			for i := 0; i < c.Rows; i++ {
				for j := 0; j < c.Cols; j++ {
					if !denoted[[2]int{i, j}] && b1[i*c.Cols+j] != c.Vals[i*c.Cols+j] {
						return fmt.Sprintf("after Tip on a window the parent holds %v, was %v: element (%d,%d) outside the window moved", b1, c.Vals, i, j)
					}
				}
			}
		}
		return "" // whole storage: the parent handle keeps its old shape over permuted storage
	}
	// (c) the parent: denoted positions hold the deep copy's elements, the rest is unchanged
	exp := append([]int64{}, c.Vals...)
	for i := 0; i < n; i++ {
		for j := 0; j < k; j++ {
			p := co[i][j]
			exp[p[0]*c.Cols+p[1]] = d2[i*k+j]
		}
	}
	b1, pb := matElems(base)
	if pb {
		return "reading the parent after the operation panicked"
	}
	if !eq64(b1, exp) {
		return fmt.Sprintf("after %s the parent holds %v, expected %v", c.Op.Name, b1, exp)
	}
	return ""
}

// deterministic operation instances for a view of n x k
func opInstances(sparse bool, n, k int, baseLen int) []Op {
	var ops []Op
	names := denseOps
	if sparse {
		names = sparseOps
	}
	seqv := func(l, from int) []int64 {
		if l < 0 {
			l = 0
		}
		v := make([]int64, l)
		for i := range v {
			v[i] = int64(from + i%7)
		}
		return v
	}
	for _, name := range names {
		if n == 0 || k == 0 {
			// on an empty view the guards of these operations depend on the storage layout
			// (index(i,0) of a 0-column row, &values[0] of an empty storage): C20's business
			switch name {
			case "Row", "Col", "ConstRow", "ConstCol", "MdotM":
				continue
			}
		}
		switch name {
		case "SetAt":
			ops = append(ops, Op{Name: name, I: []int{0, 0, 101}}, Op{Name: name, I: []int{n - 1, k - 1, 102}}, Op{Name: name, I: []int{n, 0, 103}})
		case "IterFrom":
			ops = append(ops, Op{Name: name, I: []int{n / 2, k / 2}}, Op{Name: name, I: []int{n - 1, k}})
		case "Set":
			ops = append(ops, Op{Name: name, B: seqv(n*k, 50)})
		case "Ew":
			for f := 0; f < 3; f++ {
				ops = append(ops, Op{Name: name, I: []int{f, f}, B: seqv(n*k, 2)})
			}
		case "MdotM":
			ops = append(ops, Op{Name: name, I: []int{0}, B: seqv(n*n, 1)}, Op{Name: name, I: []int{1}, B: seqv(k*k, 1)})
			if n == k {
				ops = append(ops, Op{Name: name, I: []int{2}, B: seqv(n*k, 1)}, Op{Name: name, I: []int{3}, B: seqv(n*k, 1)})
			}
		case "MdotV":
			ops = append(ops, Op{Name: name, B: seqv(k, 1)})
		case "VdotM":
			ops = append(ops, Op{Name: name, B: seqv(n, 1)})
		case "Row", "ConstRow":
			ops = append(ops, Op{Name: name, I: []int{0}}, Op{Name: name, I: []int{n - 1}})
		case "Col", "ConstCol":
			ops = append(ops, Op{Name: name, I: []int{0}}, Op{Name: name, I: []int{k - 1}})
		case "Swap":
			ops = append(ops, Op{Name: name, I: []int{0, 0, n - 1, k - 1}})
		case "SwapRows":
			ops = append(ops, Op{Name: name, I: []int{0, n - 1}})
		case "SwapCols":
			ops = append(ops, Op{Name: name, I: []int{0, k - 1}})
		case "Permute":
			l := n
			if k > l {
				l = k
			}
			pi := make([]int64, l)
			for i := range pi {
				pi[i] = int64(l - 1 - i)
			}
			for w := 0; w < 3; w++ {
				ops = append(ops, Op{Name: name, I: []int{w}, B: pi})
			}
		case "AsVecMat":
			ops = append(ops, Op{Name: name, I: []int{k, n}}, Op{Name: name, I: []int{1, baseLen}})
		case "Tip":
			if tipTerminates(n, baseLen) {
				ops = append(ops, Op{Name: name})
			}
		default:
			ops = append(ops, Op{Name: name})
		}
	}
	if !sparse {
		ops = append(ops, xopInstances(n, k)...)
	}
	return ops
}

type hunter struct {
	out   string
	fails map[string]*Failure
	tried int
}

// ijCheck: ij(index(i,j)) = (i,j) on the private kernels, through the verif hook
func ijCheck(c Case) (what string) {
	defer func() {
		if e := recover(); e != nil {
			what = ""
		}
	}()
	_, n, k, ok := applyOracle(c.Rows, c.Cols, c.Views)
	if !ok {
		return ""
	}
	base := newMatrix(c.Sparse, types[c.Type], c.Rows, c.Cols, c.Vals)
	view, failed := applyViews(base, c.Views)
	if failed {
		return ""
	}
	for i := 0; i < n; i++ {
		for j := 0; j < k; j++ {
			kk := ad.VerifC10Index(view, i, j)
			i2, j2 := ad.VerifC10IJ(view, kk)
			if i2 != i || j2 != j {
				return fmt.Sprintf("index(%d,%d)=%d but ij(%d)=(%d,%d), header %v", i, j, kk, kk, i2, j2, header(view))
			}
		}
	}
	return ""
}

func (h *hunter) check(c Case) {
	h.tried++
	if c.Op.Name == "" {
		if w := ijCheck(c); w != "" {
			c2 := c
			c2.Op.Name = "ij"
			h.record(c2, w)
		}
	}
	w := propCheck(c, h.out)
	if w == "" {
		return
	}
	h.record(c, w)
}
func (h *hunter) record(c Case, w string) {
	_, n, k, _ := applyOracle(c.Rows, c.Cols, c.Views)
	fl := flagsOf(c, n, k)
	kind := "dense"
	if c.Sparse {
		kind = "sparse"
	}
	site := kind + ":" + c.Op.Name
	if c.Op.Name == "" {
		site = kind + ":view"
	}
	key := fmt.Sprintf("%s|%v|%v|%v|%v", site, fl.Proper, fl.Transposed, fl.SliceThenT, isReal(c.Type))
	if f, ok := h.fails[key]; ok {
		f.Count++
		// keep the smallest witness
		if caseSize(c) < caseSize(f.Case) {
			f.Case, f.What, f.Flags = c, w, fl
		}
		return
	}
	h.fails[key] = &Failure{Site: site, What: w, Case: c, Flags: fl, Count: 1}
}
func caseSize(c Case) int { return c.Rows*c.Cols*10 + len(c.Views)*3 + len(c.Op.B) }

func distinctVals(n int, zeros bool) []int64 {
	v := make([]int64, n)
	for i := range v {
		v[i] = int64(i + 1)
		if zeros && i%5 == 3 {
			v[i] = 0
		}
	}
	return v
}

func allSlices(n, k int) [][4]int {
	var r [][4]int
	for r0 := 0; r0 <= n; r0++ {
		for r1 := r0; r1 <= n; r1++ {
			for c0 := 0; c0 <= k; c0++ {
				for c1 := c0; c1 <= k; c1++ {
					r = append(r, [4]int{r0, r1, c0, c1})
				}
			}
		}
	}
	return r
}

func (h *hunter) exhaustive(maxDim int, typesDense, typesSparse []string) {
	for rows := 0; rows <= maxDim; rows++ {
		for cols := 0; cols <= maxDim; cols++ {
			if (rows == 0 || cols == 0) && rows+cols > 2 {
				continue
			}
			for _, sparse := range []bool{false, true} {
				tl := typesDense
				if sparse {
					tl = typesSparse
				}
				for _, tn := range tl {
					vals := distinctVals(rows*cols, true)
					// shapes of view programs: [], [T], [S], [T,S], [S,T], [T,S,T], [S,S]
					var progs [][]View
					progs = append(progs, nil, []View{{K: "T"}})
					for _, s := range allSlices(rows, cols) {
						progs = append(progs, []View{{K: "S", A: s}}, []View{{K: "S", A: s}, {K: "T"}})
					}
					for _, s := range allSlices(cols, rows) {
						progs = append(progs, []View{{K: "T"}, {K: "C", A: s}}, []View{{K: "T"}, {K: "S", A: s}, {K: "T"}})
					}
					// nested windows: every slice of every slice (elements, ij, and two writing operations)
					for _, s1 := range allSlices(rows, cols) {
						for _, s2 := range allSlices(s1[1]-s1[0], s1[3]-s1[2]) {
							for _, pr := range [][]View{{{K: "S", A: s1}, {K: "C", A: s2}}, {{K: "S", A: s1}, {K: "T"}, {K: "S", A: [4]int{s2[2], s2[3], s2[0], s2[1]}}}} {
								if sparse && len(pr) == 3 {
									continue
								}
								c := Case{Sparse: sparse, Type: tn, Rows: rows, Cols: cols, Vals: vals, Views: pr}
								h.check(c)
								c.Op = Op{Name: "Reset"}
								h.check(c)
								c.Op = Op{Name: "SetAt", I: []int{0, 0, 101}}
								h.check(c)
							}
						}
					}
					if !sparse {
						// the same programs with discarded T()/Slice()/T().T() calls on the object each step starts from
						for _, pr := range append([][]View{}, progs...) {
							if len(pr) == 0 {
								continue
							}
							q := append([]View{}, pr...)
							for i := range q {
								q[i].P = 7
							}
							progs = append(progs, q)
						}
					}
					for _, pr := range progs {
						_, n, k, ok := applyOracle(rows, cols, pr)
						if !ok {
							continue
						}
						base := Case{Sparse: sparse, Type: tn, Rows: rows, Cols: cols, Vals: vals, Views: pr}
						h.check(base) // elements only
						for _, o := range opInstances(sparse, n, k, rows*cols) {
							c := base
							c.Op = o
							h.check(c)
						}
					}
				}
			}
		}
	}
}

func hunt(o Opts) {
	h := &hunter{out: o.Out, fails: map[string]*Failure{}}
	var extraTypes []string
	// 1. the cases handed over by the driver (mismatching correspondence cases, corpus, replay)
	if o.Replay != "" {
		if b, err := os.ReadFile(o.Replay); err == nil {
			var rp struct {
				Cases []Case   `json:"cases"`
				Types []string `json:"types"` // element types whose source the translator found deviating: exhaustive small shapes on them
			}
			json.Unmarshal(b, &rp)
			extraTypes = rp.Types
			for _, c := range rp.Cases {
				if c.Bin != nil {
					h.checkBin(*c.Bin)
					continue
				}
				h.check(c)
			}
		}
	}
	// 1b. shrink: every (element type, operation) that failed on a handed-over case is re-tried on all shapes <= 3x3 x all
	// slice bounds x T with the deterministic instances of that operation (record() keeps the smallest witness per site)
	h.shrinkSeeds()
	// 1c. element types whose instantiation the translator reported as deviating from its family
	{
		var td []string
		for _, tn := range extraTypes {
			if _, ok := types[tn]; ok {
				td = append(td, tn)
			}
		}
		if len(td) > 0 {
			h.exhaustive(3, td, nil)
		}
	}
	if o.N > 0 {
		// 2. exhaustive small shapes x all slice bounds x T
		maxDim := 3
		td, ts := []string{"Float64", "Real64", "Int"}, []string{"Float64", "Real64"}
		if o.Tier == "thorough" {
			maxDim = 4
			td, ts = typeNames, []string{"Float64", "Real64", "Int"}
		}
		h.exhaustive(maxDim, td, ts)
		if o.Tier != "thorough" {
			// 4x4 for one dense and one sparse type
			h.exhaustiveOne(4, 4)
		}
		// 2b. binary operations on windows of one parent: every placement of 1x1 / 1x2 / 2x1 / 2x2 windows
		h.exhaustiveBin(3, 3, "Float64")
		h.exhaustiveBin(3, 4, "Real64")
		if o.Tier == "thorough" {
			h.exhaustiveBin(4, 4, "Int")
			h.exhaustiveBin(4, 3, "Float32")
		}
		// 2c. Equals / EQUALS between every two equally shaped windows (and transposed windows) of one 3x3 parent,
		// every dense element type: the result is decided by the elements, not by the storage the sides share
		for _, tn := range typeNames {
			h.exhaustiveEquals(3, 3, tn)
		}
		rngB := NewRng(o.Seed*1000003 + 7927).Split()
		for i := 0; i < o.N; i++ {
			h.checkBin(genBCase(rngB.Split(), i))
		}
		// 3. random deeper compositions (guarded slices only)
		rng := NewRng(o.Seed + 7919).Split()
		for i := 0; i < o.N; i++ {
			c := genCase(rng.Split(), i)
			c.Obs = nil
			h.check(c)
		}
	}
	keys := make([]string, 0, len(h.fails))
	for k := range h.fails {
		keys = append(keys, k)
	}
	sort.Strings(keys)
	res := struct {
		Tried    int        `json:"tried"`
		Failures []*Failure `json:"failures"`
	}{Tried: h.tried, Failures: []*Failure{}}
	for _, k := range keys {
		res.Failures = append(res.Failures, h.fails[k])
	}
	b, _ := json.MarshalIndent(res, "", " ")
	os.WriteFile(o.Out+"/hunt.json", b, 0644)
}

func (h *hunter) shrinkSeeds() {
	type key struct {
		sparse bool
		tn, op string
	}
	todo := []key{}
	seen := map[key]bool{}
	ks := make([]string, 0, len(h.fails))
	for k := range h.fails {
		ks = append(ks, k)
	}
	sort.Strings(ks)
	for _, k := range ks {
		f := h.fails[k]
		if f.Case.Bin != nil || f.Case.Op.Name == "" || f.Case.Op.Name == "ij" {
			continue
		}
		q := key{f.Case.Sparse, f.Case.Type, f.Case.Op.Name}
		if !seen[q] {
			seen[q] = true
			todo = append(todo, q)
		}
	}
	for _, q := range todo {
		for rows := 1; rows <= 3; rows++ {
			for cols := 1; cols <= 3; cols++ {
				vals := distinctVals(rows*cols, true)
				progs := [][]View{nil, {{K: "T"}}}
				for _, s := range allSlices(rows, cols) {
					progs = append(progs, []View{{K: "S", A: s}}, []View{{K: "S", A: s}, {K: "T"}})
				}
				if !q.sparse {
					for _, s := range allSlices(cols, rows) {
						progs = append(progs, []View{{K: "T"}, {K: "C", A: s}})
					}
				}
				for _, pr := range progs {
					_, n, k, ok := applyOracle(rows, cols, pr)
					if !ok {
						continue
					}
					for _, o := range opInstances(q.sparse, n, k, rows*cols) {
						if o.Name != q.op {
							continue
						}
						h.check(Case{Sparse: q.sparse, Type: q.tn, Rows: rows, Cols: cols, Vals: vals, Views: pr, Op: o})
					}
				}
			}
		}
	}
}

func (h *hunter) exhaustiveOne(rows, cols int) {
	for _, sparse := range []bool{false, true} {
		vals := distinctVals(rows*cols, true)
		var progs [][]View
		progs = append(progs, nil, []View{{K: "T"}})
		for _, s := range allSlices(rows, cols) {
			progs = append(progs, []View{{K: "S", A: s}}, []View{{K: "S", A: s}, {K: "T"}})
		}
		for _, pr := range progs {
			_, n, k, ok := applyOracle(rows, cols, pr)
			if !ok {
				continue
			}
			base := Case{Sparse: sparse, Type: "Float64", Rows: rows, Cols: cols, Vals: vals, Views: pr}
			h.check(base)
			for _, o := range opInstances(sparse, n, k, rows*cols) {
				c := base
				c.Op = o
				h.check(c)
			}
		}
	}
}
