// Objective families for the C07 harness, evaluated through the library's own
// AD scalars (Real64), plus the logging wrapper ("oracle log").
package main

import (
	"fmt"
	"math"

	ad "github.com/pbenner/autodiff"
)

// ObjSpec describes a smooth objective from a parametrised family.
//
//	quad : 0.5 x'Ax - b'x           (A symmetric positive definite, row major)
//	rosen: sum_i (a - x_i)^2 + b (x_{i+1} - x_i^2)^2      (n = 1: (a - x)^2)
//	sep  : sum_i c_i (x_i - d_i)^2 + e_i (x_i - d_i)^4    (c_i = e_i = 0: flat coordinate)
//	poly4: sum_i a_i u + c_i u^2 + b_i u^3 + e_i u^4, u = x_i - d_i
//	poly : scalar c0 + c1 a + c2 a^2 + c3 a^3 + c4 a^4    (line search)
type ObjSpec struct {
	Kind string    `json:"kind"`
	N    int       `json:"n"`
	A    []float64 `json:"a,omitempty"`
	B    []float64 `json:"b,omitempty"`
	C    []float64 `json:"c,omitempty"`
	D    []float64 `json:"d,omitempty"`
	E    []float64 `json:"e,omitempty"`
	// failure injection
	ErrAfter int     `json:"err_after"` // >= 0: return an error from this call on
	NaNAfter int     `json:"nan_after"` // >= 0: return NaN value and derivatives from this call on
	ErrAbove float64 `json:"err_above"` // != 0: return an error when some |x_i| exceeds it
}

func cf(v float64) ad.ConstFloat64 { return ad.ConstFloat64(v) }

// evalPure evaluates the objective through AD at x (whatever variables x carries).
func evalPure(o *ObjSpec, x ad.ConstVector) ad.MagicScalar {
	n := x.Dim()
	s := ad.NullReal64()
	switch o.Kind {
	case "quad":
		for i := 0; i < n; i++ {
			u := ad.NullReal64()
			for j := 0; j < n; j++ {
				t := ad.NullReal64()
				t.Mul(x.ConstAt(j), cf(o.A[i*n+j]))
				u.Add(u, t)
			}
			u.Mul(u, cf(0.5))
			u.Sub(u, cf(o.B[i]))
			u.Mul(u, x.ConstAt(i))
			s.Add(s, u)
		}
	case "rosen":
		a, b := cf(o.A[0]), cf(o.B[0])
		if n == 1 {
			t := ad.NullReal64()
			t.Sub(a, x.ConstAt(0))
			t.Mul(t, t)
			s.Add(s, t)
		}
		for i := 0; i+1 < n; i++ {
			t := ad.NullReal64()
			u := ad.NullReal64()
			t.Mul(x.ConstAt(i), x.ConstAt(i))
			t.Sub(x.ConstAt(i+1), t)
			t.Mul(t, t)
			t.Mul(t, b)
			u.Sub(a, x.ConstAt(i))
			u.Mul(u, u)
			s.Add(s, t)
			s.Add(s, u)
		}
	case "sep":
		for i := 0; i < n; i++ {
			t := ad.NullReal64()
			u := ad.NullReal64()
			t.Sub(x.ConstAt(i), cf(o.D[i]))
			t.Mul(t, t) // (x-d)^2
			u.Mul(t, t) // (x-d)^4
			t.Mul(t, cf(o.C[i]))
			u.Mul(u, cf(o.E[i]))
			s.Add(s, t)
			s.Add(s, u)
		}
	case "poly4": // sum_i a_i u + c_i u^2 + b_i u^3 + e_i u^4, u = x_i - d_i (round 3: newton_min)
		for i := 0; i < n; i++ {
			u := ad.NullReal64()
			p := ad.NullReal64()
			t := ad.NullReal64()
			u.Sub(x.ConstAt(i), cf(o.D[i]))
			t.Mul(u, cf(o.A[i]))
			s.Add(s, t)
			p.Mul(u, u)
			t.Mul(p, cf(o.C[i]))
			s.Add(s, t)
			p.Mul(p, u)
			t.Mul(p, cf(o.B[i]))
			s.Add(s, t)
			p.Mul(p, u)
			t.Mul(p, cf(o.E[i]))
			s.Add(s, t)
		}
	default:
		panic("unknown objective kind " + o.Kind)
	}
	return s
}

func evalPoly(o *ObjSpec, a ad.ConstScalar) ad.MagicScalar {
	s := ad.NewReal64(o.C[0])
	p := ad.NewReal64(1.0)
	for k := 1; k < len(o.C); k++ {
		t := ad.NullReal64()
		p.Mul(p, a)
		t.Mul(p, cf(o.C[k]))
		s.Add(s, t)
	}
	return s
}

// ---------------------------------------------------------------- log

type Ev struct {
	K     string      // eval | hook | cons
	X     []float64   // point
	Seeds [][]float64 // eval: d x_i / d var_j as seen by the objective
	Err   bool        // eval: objective returned an error
	Y     float64     // eval: value; hook: value passed
	G     []float64   // eval: derivatives returned; hook: gradient passed
	HasY  bool        // hook: a scalar was passed
	Step  []float64   // hook (rprop): step sizes passed
	B     bool        // hook: verdict (stop); cons: verdict (ok)
	// newton (round 2): K = evalv | hookv | dir
	YV    []float64   // evalv/hookv: y (RunRoot: f(x); RunCrit: gradient)
	J     [][]float64 // evalv/hookv: Jacobian / Hessian
	Panic bool        // dir: the solver panicked (Err: it returned an error; G: the direction)
	Idx   int         // saga: sample index j (sev) / epoch (shook)
}

type capSentinel struct{}

type Log struct {
	Ev      []Ev
	Calls   int // objective calls
	Cap     int // total callback budget
	Total   int
	Subnorm bool
}

func (l *Log) tick() {
	l.Total++
	if l.Total > l.Cap {
		panic(capSentinel{})
	}
}

func vecVals(x ad.ConstVector) []float64 {
	r := make([]float64, x.Dim())
	for i := range r {
		r[i] = x.ConstAt(i).GetFloat64()
	}
	return r
}
func seedsOf(x ad.ConstVector) [][]float64 {
	r := make([][]float64, x.Dim())
	for i := range r {
		xi := x.ConstAt(i)
		if xi.GetOrder() >= 1 {
			r[i] = make([]float64, xi.GetN())
			for j := range r[i] {
				r[i][j] = xi.GetDerivative(j)
			}
		} else {
			r[i] = []float64{}
		}
	}
	return r
}
func derivsOf(z ad.ConstScalar) []float64 {
	if z.GetOrder() < 1 {
		return []float64{}
	}
	g := make([]float64, z.GetN())
	for j := range g {
		g[j] = z.GetDerivative(j)
	}
	return g
}

func (l *Log) noteGrad(g []float64) {
	for _, v := range g {
		if v != 0 && math.Abs(v) < 1e-150 {
			l.Subnorm = true // math.Pow(v,2) is not the correctly rounded square here
		}
	}
}

// vector objective with logging and failure injection
func (l *Log) objective(o *ObjSpec) func(ad.ConstVector) (ad.MagicScalar, error) {
	return func(x ad.ConstVector) (ad.MagicScalar, error) {
		l.tick()
		k := l.Calls
		l.Calls++
		e := Ev{K: "eval", X: vecVals(x), Seeds: seedsOf(x)}
		fail := o.ErrAfter >= 0 && k >= o.ErrAfter
		if o.ErrAbove != 0 {
			for _, v := range e.X {
				if math.Abs(v) > o.ErrAbove || math.IsNaN(v) {
					fail = true
				}
			}
		}
		if fail {
			e.Err = true
			e.G = []float64{}
			l.Ev = append(l.Ev, e)
			return nil, fmt.Errorf("objective failed")
		}
		z := evalPure(o, x)
		if o.NaNAfter >= 0 && k >= o.NaNAfter {
			r := ad.NullReal64()
			r.Mul(z, cf(math.NaN()))
			z = r
		}
		e.Y = z.GetFloat64()
		e.G = derivsOf(z)
		l.noteGrad(e.G)
		l.Ev = append(l.Ev, e)
		return z, nil
	}
}

// scalar objective (line search) with logging and failure injection
func (l *Log) scalarObjective(o *ObjSpec) func(ad.ConstScalar) (ad.MagicScalar, error) {
	return func(a ad.ConstScalar) (ad.MagicScalar, error) {
		l.tick()
		k := l.Calls
		l.Calls++
		e := Ev{K: "eval", X: []float64{a.GetFloat64()}}
		if a.GetOrder() >= 1 {
			sd := make([]float64, a.GetN())
			for j := range sd {
				sd[j] = a.GetDerivative(j)
			}
			e.Seeds = [][]float64{sd}
		} else {
			e.Seeds = [][]float64{{}}
		}
		if o.ErrAfter >= 0 && k >= o.ErrAfter {
			e.Err = true
			e.G = []float64{}
			l.Ev = append(l.Ev, e)
			return nil, fmt.Errorf("objective failed")
		}
		z := evalPoly(o, a)
		if o.NaNAfter >= 0 && k >= o.NaNAfter {
			r := ad.NullReal64()
			r.Mul(z, cf(math.NaN()))
			z = r
		}
		e.Y = z.GetFloat64()
		e.G = derivsOf(z)
		l.Ev = append(l.Ev, e)
		return z, nil
	}
}

// gradient-only objective for rprop.RunGradient
func (l *Log) gradObjective(o *ObjSpec) func(x, g ad.DenseFloat64Vector) error {
	return func(x, g ad.DenseFloat64Vector) error {
		l.tick()
		k := l.Calls
		l.Calls++
		n := x.Dim()
		e := Ev{K: "eval", X: vecVals(x)}
		e.Seeds = make([][]float64, n)
		for i := range e.Seeds { // the caller works on plain floats: identity by convention
			e.Seeds[i] = make([]float64, n)
			e.Seeds[i][i] = 1
		}
		fail := o.ErrAfter >= 0 && k >= o.ErrAfter
		if o.ErrAbove != 0 {
			for _, v := range e.X {
				if math.Abs(v) > o.ErrAbove || math.IsNaN(v) {
					fail = true
				}
			}
		}
		if fail {
			e.Err = true
			e.G = []float64{}
			l.Ev = append(l.Ev, e)
			return fmt.Errorf("objective failed")
		}
		xr := ad.AsDenseReal64Vector(x)
		xr.Variables(1)
		z := evalPure(o, xr)
		for i := 0; i < n; i++ {
			v := z.GetDerivative(i)
			if o.NaNAfter >= 0 && k >= o.NaNAfter {
				v = math.NaN()
			}
			g[i] = v
		}
		e.G = append([]float64{}, g...)
		l.noteGrad(e.G)
		l.Ev = append(l.Ev, e)
		return nil
	}
}

// value and gradient of the pure objective at a point (property oracle of the hunt)
func pureAt(o *ObjSpec, x []float64) (float64, []float64) {
	xr := ad.AsDenseReal64Vector(ad.NewDenseFloat64Vector(append([]float64{}, x...)))
	xr.Variables(1)
	z := evalPure(o, xr)
	return z.GetFloat64(), derivsOf(z)
}
func polyAt(o *ObjSpec, a float64) (float64, float64) {
	X := ad.NewReal64(a)
	ad.Variables(1, X)
	z := evalPoly(o, X)
	return z.GetFloat64(), z.GetDerivative(0)
}
