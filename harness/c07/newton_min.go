// C07 round 3: newton.RunMin (newton_min with getPhi != nil: lineSearch.Run on
// phi(alpha) = f_(x1 - alpha*t1) with the closure constraints_line) and, through the
// add-only hook newton.VerifC07RunMinBacktrack, newton_min with getPhi == nil (its own
// back-tracking loop), under the oracle log.  The two kinds of objective calls are told
// apart by what the callback sees: f is called with Variables(2) (order 2, identity
// seeds), phi with one independent variable alpha (order 1, seeds -t1).
package main

import (
	"fmt"
	"math"
	"strings"

	. "adharness/common"

	ad "github.com/pbenner/autodiff"
	"github.com/pbenner/autodiff/algorithm/newton"
)

func isNewtonMin(rt string) bool { return rt == "newton_min" || rt == "newton_min_bt" }

// error kinds (Run.Kind): 20 invalid initial value, 21 objective error (f), 22 NaN,
// 23 getDirection error, 24 back-tracking loop failed (getPhi == nil), 25 lineSearch.Run
// returned an error (getPhi != nil)
func runNewtonMin(s *Spec) (run *Run) {
	run = &Run{}
	lg := &Log{Cap: s.Cap}
	if lg.Cap <= 0 {
		lg.Cap = 2500
	}
	inS := &newton.InSitu{}
	pending := false
	flushDir := func() {
		if pending && inS.T1 != nil {
			lg.Ev = append(lg.Ev, Ev{K: "dir", G: vecVals(inS.T1)})
		}
		pending = false
	}
	hookCalls := 0
	n := len(s.X0)
	x0 := ad.NewDenseFloat64Vector(append([]float64{}, s.X0...))
	var res ad.Vector
	var err error
	defer func() {
		run.X0After = append([]float64{}, []float64(x0)...)
		if r := recover(); r != nil {
			run.Ev = lg.Ev
			if _, ok := r.(capSentinel); ok {
				run.Dropped = "callback_cap"
				return
			}
			if pending && solverPanic(s.Mode, fmt.Sprint(r)) {
				run.Ev = append(run.Ev, Ev{K: "dir", Panic: true, G: []float64{}})
			}
			run.Kind = 3
			run.Point = []float64{}
			run.PanicMsg = fmt.Sprint(r)
			return
		}
		neval := 0
		lastK, lastErr := "", false
		for _, e := range lg.Ev {
			if e.K == "evalm" {
				neval++
			}
			if e.K == "evalm" || e.K == "phi" {
				lastK, lastErr = e.K, e.Err
			}
		}
		nilres := res == nil || isNilVec(res)
		switch {
		case err == nil && run.Hooked:
			run.Kind = 1
		case err == nil:
			run.Kind = 0
		case neval == 0:
			run.Kind = 20
		case lastK == "evalm" && lastErr:
			run.Kind = 21
		case lastK == "phi" && lastErr:
			run.Kind = 25
		case strings.Contains(err.Error(), "NaN value detected"):
			run.Kind = 22
		case strings.Contains(err.Error(), "line search failed"):
			if s.Routine == "newton_min_bt" {
				run.Kind = 24
			} else {
				run.Kind = 25
			}
			flushDir()
		default:
			run.Kind = 23
			if pending {
				lg.Ev = append(lg.Ev, Ev{K: "dir", Err: true, G: []float64{}})
			}
		}
		run.Ev = lg.Ev
		if nilres {
			run.Point = []float64{}
		} else {
			run.Point = vecVals(res)
		}
		if lg.Subnorm {
			run.Dropped = "subnormal_square"
		}
		if len(run.Ev) > 1200 {
			run.Dropped = "too_long"
		}
	}()
	args := []interface{}{newton.Epsilon{Value: s.Eps}, newton.MaxIterations{Value: s.MaxIt}, inS}
	if s.Mode != "" {
		args = append(args, newton.HessianModification{Value: s.Mode})
	}
	if s.Hook {
		args = append(args, newton.HookMin{Value: func(x, g ad.ConstVector, H ad.ConstMatrix, y ad.ConstScalar) bool {
			lg.tick()
			e := Ev{K: "hookm", X: vecVals(x), G: vecVals(g), J: matVals(H), Y: y.GetFloat64()}
			e.B = s.StopAt >= 0 && hookCalls >= s.StopAt
			hookCalls++
			if e.B {
				run.Hooked = true
			}
			lg.Ev = append(lg.Ev, e)
			return e.B
		}})
	}
	if s.Cons {
		args = append(args, newton.Constraints{Value: func(x ad.Vector) bool {
			lg.tick()
			flushDir()
			v := vecVals(x)
			ok := inBox(s, v)
			lg.Ev = append(lg.Ev, Ev{K: "cons", X: v, B: ok})
			return ok
		}})
	}
	o := &s.Obj
	obj := func(x ad.ConstVector) (ad.MagicScalar, error) {
		lg.tick()
		flushDir()
		k := lg.Calls
		lg.Calls++
		isPhi := x.ConstAt(0).GetOrder() < 2
		e := Ev{K: "evalm", X: vecVals(x), Seeds: seedsOf(x)}
		if isPhi {
			e.K = "phi"
		}
		if lg.failNow(o, k, e.X) {
			e.Err = true
			e.G, e.J = []float64{}, [][]float64{}
			lg.Ev = append(lg.Ev, e)
			return nil, fmt.Errorf("objective failed")
		}
		z := evalPure(o, x)
		if o.NaNAfter >= 0 && k >= o.NaNAfter {
			r := ad.NullReal64()
			r.Mul(z, cf(math.NaN()))
			z = r
		}
		e.Y = z.GetFloat64()
		if isPhi {
			e.G = []float64{z.GetDerivative(0)}
		} else {
			e.G = make([]float64, n)
			e.J = make([][]float64, n)
			for i := 0; i < n; i++ {
				e.G[i] = z.GetDerivative(i)
				e.J[i] = make([]float64, n)
				for j := 0; j < n; j++ {
					e.J[i][j] = z.GetHessian(i, j)
				}
			}
			lg.noteGrad(e.G)
			pending = true
		}
		lg.Ev = append(lg.Ev, e)
		return z, nil
	}
	if s.Routine == "newton_min_bt" {
		res, err = newton.VerifC07RunMinBacktrack(obj, x0, args...)
	} else {
		res, err = newton.RunMin(obj, x0, args...)
	}
	return
}

// ---------------------------------------------------------------- Coq terms

func coqEvNewtonMin(e Ev) string {
	switch e.K {
	case "evalm":
		return fmt.Sprintf("LEvalM %s %s %s %s %s %s", FList(e.X), fmat(e.Seeds), B(e.Err), F(e.Y), FList(e.G), fmat(e.J))
	case "phi":
		d := 0.0
		if len(e.G) > 0 {
			d = e.G[0]
		}
		return fmt.Sprintf("LPhi %s %s %s %s %s", FList(e.X), fmat(e.Seeds), B(e.Err), F(e.Y), F(d))
	case "hookm":
		return fmt.Sprintf("LHookM %s %s %s %s %s", FList(e.X), FList(e.G), fmat(e.J), F(e.Y), B(e.B))
	default:
		return coqEvNewton(e)
	}
}

func coqCaseNewtonMin(s *Spec, r *Run) string {
	rt := fmt.Sprintf("RNewtonMin (mkNm %s %s %s %s %s NWC_F %s 1%%float 20)", F(s.Eps), ZI(s.MaxIt), B(s.Hook), B(s.Cons),
		ZI(modeCode(s.Mode)), B(s.Routine == "newton_min"))
	evs := make([]string, len(r.Ev))
	for i, e := range r.Ev {
		evs[i] = coqEvNewtonMin(e)
	}
	return fmt.Sprintf("mkCase (%s) %s\n   [%s]\n   %d %s %s", rt, FList(s.X0), strings.Join(evs, ";\n    "), r.Kind, FList(r.Point), FList(r.X0After))
}

// ---------------------------------------------------------------- generators

// u-polynomials whose Newton step undershoots (the line search doubles the step: the
// path on which constraints_line's in-place rescaling of t1 matters) or overshoots (zoom)
func genPoly4(r *Rng, n int) ObjSpec {
	o := ObjSpec{Kind: "poly4", N: n, ErrAfter: -1, NaNAfter: -1}
	o.D = genPoint(r, n)
	o.A, o.B, o.C, o.E = make([]float64, n), make([]float64, n), make([]float64, n), make([]float64, n)
	for i := 0; i < n; i++ {
		switch r.Pick([]int{3, 2, 2}) {
		case 0: // g(u) = -1 + u - 1.2 u^2 + c u^3 with a minimiser near u = 4 (c = 0.253125) or none
			o.A[i], o.C[i], o.B[i] = -1, 0.5, -0.4
			o.E[i] = pickF(r, 0.06328125, 0.06328125, 0.05, 0.1, 0)
		case 1: // convex quartic
			o.A[i] = pickF(r, -1, 1, 0, 2)
			o.C[i] = pickF(r, 0.5, 1, 2)
			o.B[i] = pickF(r, 0, 0, 0.1, -0.1)
			o.E[i] = pickF(r, 0, 0.1, 1)
		default: // negative curvature at the centre
			o.A[i] = pickF(r, -1, 1, 0.5)
			o.C[i] = pickF(r, -0.5, -1, 0.5)
			o.B[i] = pickF(r, 0, 0.3, -0.3)
			o.E[i] = pickF(r, 0.1, 0.5, 1)
		}
	}
	return o
}

// the Newton step undershoots (phi'(1) < -0.9 |phi'(0)|), the line search doubles the step, and the
// minimiser along the doubled direction lies outside a box that still contains x1 - 2 t1
func genUndershoot(r *Rng) Spec {
	s := Spec{StopAt: -1, Cap: 2500, Routine: "newton_min"}
	n := 1 + r.Pick([]int{5, 3, 1})
	o := ObjSpec{Kind: "poly4", N: n, ErrAfter: -1, NaNAfter: -1}
	o.D = genPoint(r, n)
	o.A, o.B, o.C, o.E = make([]float64, n), make([]float64, n), make([]float64, n), make([]float64, n)
	for i := 0; i < n; i++ {
		o.A[i], o.C[i], o.B[i], o.E[i] = -1, 0.5, -0.4, pickF(r, 0.06328125, 0.06328125, 0.064, 0.0625)
	}
	s.Obj = o
	s.X0 = append([]float64{}, o.D...)
	s.Eps = pickF(r, 1e-1, 1e-4, 1e-8)
	s.MaxIt = []int{1, 2, 30, 30}[r.Intn(4)]
	s.Hook = r.Bool()
	if r.Bool() {
		s.Mode = "None"
	}
	s.Cons = true
	s.Lo, s.Hi = make([]float64, n), make([]float64, n)
	for i := 0; i < n; i++ {
		s.Lo[i] = s.X0[i] - 100
		s.Hi[i] = s.X0[i] + pickF(r, 2.5, 2, 3, 3.5, 100)
	}
	return s
}

func genNewtonMinSpec(r *Rng) Spec {
	if r.Intn(10) == 0 {
		return genUndershoot(r)
	}
	s := Spec{StopAt: -1, Cap: 2500}
	n := 1 + r.Pick([]int{10, 10, 5, 1, 1}) // round 6: up to 5 dimensions (pivoting in the solves of getDirection)
	if r.Intn(3) == 0 {
		s.Routine = "newton_min_bt"
	} else {
		s.Routine = "newton_min"
	}
	if r.Intn(5) < 2 {
		s.Obj = genPoly4(r, n)
	} else {
		s.Obj = genObj(r, n)
		s.Obj.ErrAfter, s.Obj.NaNAfter, s.Obj.ErrAbove = -1, -1, 0
	}
	if s.Obj.Kind == "quad" && n >= 2 && r.Intn(3) == 0 { // round 6: SPD but not diagonally dominant (pivoting)
		makeNonDominant(s.Obj.A, n, pickF(r, 2, 3, -2))
	}
	injectFailures(r, &s.Obj)
	s.X0 = genPoint(r, n)
	if s.Obj.Kind == "poly4" && r.Intn(3) != 0 {
		s.X0 = append([]float64{}, s.Obj.D...) // u = 0: the designed undershoot
	} else if tg := targetOf(&s.Obj); tg != nil {
		switch r.Pick([]int{6, 1, 3}) {
		case 0:
			for i := range s.X0 {
				s.X0[i] = tg[i] + pickF(r, 0.5, -0.5, 1, -1, 2, 0.125)
			}
		case 1:
			s.X0 = append([]float64{}, tg...)
		}
	}
	if r.Intn(14) == 0 {
		for i := range s.X0 {
			s.X0[i] = pickF(r, 1e6, -1e6, 1e9)
		}
	}
	s.Eps = pickF(r, 1e-1, 1e-2, 1e-4, 1e-6, 1e-8, 1e-12, 0)
	s.MaxIt = []int{-1, 0, 1, 2, 5, 30, 30, 30, 30}[r.Intn(9)]
	s.Hook = r.Intn(10) < 6
	if s.Hook && r.Intn(4) == 0 {
		s.StopAt = r.Range(0, 6)
	}
	switch r.Pick([]int{12, 5, 1, 1}) {
	case 0:
		if r.Bool() {
			s.Mode = "None"
		}
	case 1:
		s.Mode = "LDL"
	case 2:
		if n == 1 {
			s.Mode = "Eigenvalue"
		} else {
			s.Mode = "LDL"
		}
	default:
		s.Mode = "Foo"
	}
	if r.Intn(5) < 2 {
		genNewtonBox(r, &s)
		if s.Obj.Kind == "poly4" && r.Bool() { // a box that the doubled step leaves
			for i := range s.X0 {
				s.Lo[i] = s.X0[i] - 100
				s.Hi[i] = s.X0[i] + pickF(r, 2.5, 1.5, 3, 5)
			}
		}
	}
	return s
}

// ---------------------------------------------------------------- property oracle

func pureMinAt(o *ObjSpec, x []float64) (float64, []float64, [][]float64) {
	xr := ad.AsDenseReal64Vector(ad.NewDenseFloat64Vector(append([]float64{}, x...)))
	xr.Variables(2)
	z := evalPure(o, xr)
	n := len(x)
	g := make([]float64, n)
	H := make([][]float64, n)
	for i := 0; i < n; i++ {
		g[i] = z.GetDerivative(i)
		H[i] = make([]float64, n)
		for j := 0; j < n; j++ {
			H[i][j] = z.GetHessian(i, j)
		}
	}
	return z.GetFloat64(), g, H
}

// newtonMinOracle: the property on the implementation's log of one run of a PURE objective
// (independent of the Coq model; the real objective is re-evaluated at every point that matters)
//  1. a nil-error return that is neither a hook stop nor the iteration cap is at a point
//     where |grad f(x)| < epsilon;
//  2. every hook call got (g, H, y) of the point passed with it;
//  3. no non-error return carries a point outside the constraint box;
//  4. a non-error return carries the point of the last evaluation of f;
//  5. the caller's start vector is unchanged;
//  6. the direction solves the (modified) Newton equation up to rounding (direction.go).
func newtonMinOracle(s *Spec, r *Run) []Failure {
	var fs []Failure
	rt := s.Routine
	if !bitsEq(r.X0After, s.X0) {
		fs = append(fs, Failure{rt + ".x0_written", fmt.Sprintf("caller's x0 %v became %v", s.X0, r.X0After)})
	}
	neval, nhook := 0, 0
	dirFailed := false
	var lastX, lastG []float64
	var lastH [][]float64
	for _, e := range r.Ev {
		switch e.K {
		case "evalm":
			neval++
			lastX, lastG, lastH = e.X, e.G, e.J
		case "dir":
			if !e.Err && !e.Panic && lastH != nil && !dirFailed { // report the first bad direction of a run only
				if msg := directionCheck(s.Mode, lastG, lastH, e.G); msg != "" {
					fs = append(fs, Failure{rt + ".direction_residual", msg})
					dirFailed = true
				}
			}
		case "hookm":
			y, g, H := pureMinAt(&s.Obj, e.X)
			if !bitsEq(g, e.G) || !matBitsEq(H, e.J) || !bitsEq([]float64{y}, []float64{e.Y}) {
				fs = append(fs, Failure{rt + ".hook_args", fmt.Sprintf("hook call %d: passed x=%v g=%v H=%v y=%v but grad f(x)=%v H(x)=%v f(x)=%v", nhook, e.X, e.G, e.J, e.Y, g, H, y)})
			}
			nhook++
		}
	}
	if r.Kind == 0 || r.Kind == 1 {
		if len(r.Point) != len(s.X0) {
			fs = append(fs, Failure{rt + ".returns_no_point", fmt.Sprintf("nil error but point %v", r.Point)})
			return fs
		}
		if s.Cons && !inBox(s, r.Point) {
			fs = append(fs, Failure{rt + ".returns_rejected_point", fmt.Sprintf("returned %v without error, outside the constraint box lo=%v hi=%v", r.Point, s.Lo, s.Hi)})
		}
		if lastX != nil && !bitsEq(lastX, r.Point) {
			fs = append(fs, Failure{rt + ".returns_unevaluated_point", fmt.Sprintf("returned %v without error but the last evaluation of f was at %v", r.Point, lastX)})
		}
	}
	if r.Kind == 0 && neval-1 < s.MaxIt {
		_, g, _ := pureMinAt(&s.Obj, r.Point)
		if !(normOf(g) < s.Eps) {
			fs = append(fs, Failure{rt + ".stop_condition", fmt.Sprintf("returned %v with nil error (no hook stop, %d of %d iterations) but |grad f| there is %v, epsilon = %v", r.Point, neval-1, s.MaxIt, normOf(g), s.Eps)})
		}
	}
	return fs
}
