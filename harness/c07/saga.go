// C07 round 3/4: saga.Run (saga1Dense, saga1Sparse, saga2Dense, saga2Sparse; round 4: sagaJit with
// JitUpdateL1, routine "sagajit", Mode "Jit") under the
// oracle log.  The per-sample objective is least squares on logged data,
// f_j(x) = 0.5 (a_j.x - b_j)^2: saga1 returns (y, w = a_j.x - b_j, g = a_j), saga2
// returns (y, w a_j).  Logged: every call of f (j, x1, answer), every hook call
// (x1, delta, n*lambda/gamma, epoch, verdict), the result.
package main

import (
	"fmt"
	"math"
	"strings"

	. "adharness/common"

	ad "github.com/pbenner/autodiff"
	"github.com/pbenner/autodiff/algorithm/saga"
)

func isSaga(rt string) bool { return strings.HasPrefix(rt, "saga") }

// Spec fields used: Obj{Kind "lsq", N = dimension d, A = data rows (n x d, row major), B = targets},
// Step0 = gamma, Eps, MaxIt, Hook, StopAt, Mode (regulariser) with Eta0 = lambda, Seed.
func runSaga(s *Spec) (run *Run) {
	run = &Run{}
	lg := &Log{Cap: s.Cap}
	if lg.Cap <= 0 {
		lg.Cap = 4000
	}
	o := &s.Obj
	d := o.N
	n := len(o.B)
	hookCalls := 0
	x0 := ad.NewDenseFloat64Vector(append([]float64{}, s.X0...))
	var res ad.Vector
	var err error
	defer func() {
		run.Ev = lg.Ev
		run.X0After = append([]float64{}, []float64(x0)...)
		if r := recover(); r != nil {
			if _, ok := r.(capSentinel); ok {
				run.Dropped = "callback_cap"
				return
			}
			run.Kind = 3
			run.Point = []float64{}
			run.PanicMsg = fmt.Sprint(r)
			return
		}
		switch {
		case err != nil:
			run.Kind = 2
		case run.Hooked:
			run.Kind = 1
		default:
			run.Kind = 0
		}
		if res != nil && !isNilVec(res) {
			run.Point = vecVals(res)
		} else {
			run.Point = []float64{}
		}
		if lg.Subnorm {
			run.Dropped = "subnormal_square"
		}
		if len(run.Ev) > 700 {
			run.Dropped = "too_long"
		}
	}()
	// the user's per-sample objective
	sample := func(j int, x ad.DenseFloat64Vector) (float64, float64, []float64, error) {
		lg.tick()
		k := lg.Calls
		lg.Calls++
		e := Ev{K: "sev", Idx: j, X: append([]float64{}, x...)}
		if o.ErrAfter >= 0 && k >= o.ErrAfter {
			e.Err = true
			e.G = []float64{}
			lg.Ev = append(lg.Ev, e)
			return 0, 0, nil, fmt.Errorf("objective failed")
		}
		row := o.A[j*d : (j+1)*d]
		w := 0.0
		for i := 0; i < d; i++ {
			w += row[i] * x[i]
		}
		w -= o.B[j]
		if o.NaNAfter >= 0 && k >= o.NaNAfter {
			w = math.NaN()
		}
		g := append([]float64{}, row...)
		if s.Routine == "saga2d" || s.Routine == "saga2s" {
			for i := range g {
				g[i] *= w
			}
			e.Y = 1 // the table entry's weight is not used by saga2
		} else {
			e.Y = w
		}
		if s.Routine == "saga2d" || s.Routine == "saga2s" {
			lg.noteGrad(g)
		}
		e.G = append([]float64{}, g...)
		lg.Ev = append(lg.Ev, e)
		return 0.5 * w * w, w, g, nil
	}
	sparse := func(g []float64) ad.SparseConstFloat64Vector {
		idx := make([]int, len(g))
		for i := range idx {
			idx[i] = i
		}
		return ad.NewSparseConstFloat64Vector(idx, append([]float64{}, g...), len(g))
	}
	args := []interface{}{saga.Gamma{Value: s.Step0}, saga.Epsilon{Value: s.Eps}, saga.MaxIterations{Value: s.MaxIt}, saga.Seed{Value: s.Seed}}
	switch s.Mode {
	case "Jit": // sagaJit: JitUpdateL1 with lambda = Eta0, no proximal operator
		args = append(args, saga.JitUpdate{Value: &saga.JitUpdateL1{Lambda: s.Eta0}})
	case "L1":
		args = append(args, saga.L1Regularization{Value: s.Eta0})
	case "L2":
		args = append(args, saga.L2Regularization{Value: s.Eta0})
	case "Ti":
		args = append(args, saga.TikhonovRegularization{Value: s.Eta0})
	}
	if s.Hook {
		args = append(args, saga.Hook{Value: func(x ad.ConstVector, delta, lam ad.ConstScalar, epoch int) bool {
			lg.tick()
			e := Ev{K: "shook", X: vecVals(x), Y: delta.GetFloat64(), G: []float64{lam.GetFloat64()}, Idx: epoch}
			e.B = s.StopAt >= 0 && hookCalls >= s.StopAt
			hookCalls++
			if e.B {
				run.Hooked = true
			}
			lg.Ev = append(lg.Ev, e)
			return e.B
		}})
	}
	var f interface{}
	switch s.Routine {
	case "saga1d":
		f = saga.Objective1Dense(func(j int, x ad.DenseFloat64Vector) (float64, float64, ad.DenseFloat64Vector, error) {
			y, w, g, e := sample(j, x)
			return y, w, ad.DenseFloat64Vector(g), e
		})
	case "saga1s", "sagajit":
		f = saga.Objective1Sparse(func(j int, x ad.DenseFloat64Vector) (float64, float64, ad.SparseConstFloat64Vector, error) {
			y, w, g, e := sample(j, x)
			if e != nil {
				return y, w, ad.SparseConstFloat64Vector{}, e
			}
			return y, w, sparse(g), e
		})
	case "saga2d":
		f = saga.Objective2Dense(func(j int, x ad.DenseFloat64Vector) (float64, ad.DenseFloat64Vector, error) {
			y, _, g, e := sample(j, x)
			return y, ad.DenseFloat64Vector(g), e
		})
	case "saga2s":
		f = saga.Objective2Sparse(func(j int, x ad.DenseFloat64Vector) (float64, ad.SparseConstFloat64Vector, error) {
			y, _, g, e := sample(j, x)
			if e != nil {
				return y, ad.SparseConstFloat64Vector{}, e
			}
			return y, sparse(g), e
		})
	default:
		panic("unknown routine " + s.Routine)
	}
	res, _, err = saga.Run(f, n, x0, args...)
	return
}

// ---------------------------------------------------------------- Coq terms

func coqCaseSaga(s *Spec, r *Run) string {
	prox := "PNone"
	switch s.Mode {
	case "L1", "Jit":
		prox = "(PL1 " + F(s.Eta0) + ")"
	case "L2":
		prox = "(PL2 " + F(s.Eta0) + ")"
	case "Ti":
		prox = "(PTi " + F(s.Eta0) + ")"
	}
	two := s.Routine == "saga2d" || s.Routine == "saga2s"
	ctor := "RSaga"
	if s.Routine == "sagajit" {
		ctor = "RSagaJit"
	}
	rt := fmt.Sprintf("%s (mkSg %d%%nat %s %s %s %s %s %s %s)", ctor, len(s.Obj.B), F(s.Step0), F(s.Eps), ZI(s.MaxIt), B(s.Hook), prox,
		B(two), B(s.Routine == "saga1s" || s.Routine == "sagajit"))
	evs := make([]string, len(r.Ev))
	for i, e := range r.Ev {
		if e.K == "sev" {
			evs[i] = fmt.Sprintf("LSgEval %d %s %s %s %s", e.Idx, FList(e.X), B(e.Err), F(e.Y), FList(e.G))
		} else {
			evs[i] = fmt.Sprintf("LSgHook %s %s %s %s %s", FList(e.X), F(e.Y), F(e.G[0]), ZI(e.Idx), B(e.B))
		}
	}
	return fmt.Sprintf("mkCase (%s) %s\n   [%s]\n   %d %s %s", rt, FList(s.X0), strings.Join(evs, ";\n    "), r.Kind, FList(r.Point), FList(r.X0After))
}

// ---------------------------------------------------------------- generators

func genSagaSpec(r *Rng) Spec {
	s := Spec{StopAt: -1, Cap: 4000}
	s.Routine = []string{"saga1d", "saga1s", "saga2d", "saga2s", "sagajit"}[r.Intn(5)]
	d := 1 + r.Pick([]int{3, 5, 3})
	n := 1 + r.Pick([]int{2, 4, 3, 2})
	o := ObjSpec{Kind: "lsq", N: d, ErrAfter: -1, NaNAfter: -1}
	truth := genPoint(r, d)
	o.A = make([]float64, n*d)
	o.B = make([]float64, n)
	zeroCol := -1
	if r.Intn(3) == 0 {
		zeroCol = r.Intn(d) // a coordinate no sample depends on
	}
	for j := 0; j < n; j++ {
		t := 0.0
		for i := 0; i < d; i++ {
			v := math.Round((r.Float()*2-1)*100) / 100
			if r.Intn(4) == 0 || i == zeroCol {
				v = 0 // zeros: not stored by the sparse table
			}
			o.A[j*d+i] = v
			t += v * truth[i]
		}
		o.B[j] = math.Round(t*1000)/1000 + pickF(r, 0, 0, 0.01, -0.1)
	}
	switch r.Pick([]int{14, 2, 2}) {
	case 1:
		o.ErrAfter = r.Range(0, 3*n)
	case 2:
		o.NaNAfter = r.Range(0, 3*n)
	}
	s.Obj = o
	s.X0 = genPoint(r, d)
	if zeroCol >= 0 && r.Intn(4) != 0 {
		s.X0[zeroCol] = 0 // zero in every iterate: before fix 494d9f3 the joint iterator of the stop test ended here (regression generator)
	}
	if r.Intn(5) == 0 {
		for i := range s.X0 {
			s.X0[i] = 0
		}
	}
	s.Step0 = pickF(r, 1.0/30.0, 0.1, 0.3, 0.5, 0.01)
	s.Eps = pickF(r, 1e-1, 1e-2, 1e-3, 1e-6, 0, 1)
	s.MaxIt = []int{-1, 0, 1, 2, 5, 30, 30, 30, 60}[r.Intn(9)]
	s.Seed = int64(r.Range(0, 1000))
	switch r.Pick([]int{4, 3, 2, 3}) {
	case 1:
		s.Mode, s.Eta0 = "L1", pickF(r, 0.01, 0.1, 1, 10)
	case 2:
		s.Mode, s.Eta0 = "L2", pickF(r, 0.01, 0.1, 1, 10)
	case 3:
		s.Mode, s.Eta0 = "Ti", pickF(r, 0.01, 0.1, 1, 10)
	}
	if s.Routine == "sagajit" { // saga.Run rejects a regulariser together with a JitUpdate
		s.Mode, s.Eta0 = "Jit", pickF(r, 0.01, 0.1, 1, 10, 0.001)
	}
	s.Hook = r.Intn(10) < 6
	if s.Hook && r.Intn(4) == 0 {
		s.StopAt = r.Range(0, 6)
	}
	return s
}

func genHuntSaga(r *Rng) Spec {
	s := genSagaSpec(r)
	s.Obj.ErrAfter, s.Obj.NaNAfter = -1, -1
	if s.Hook && s.Mode == "" { // F-SAGA-HOOK-NIL: panics, nothing to check
		s.Hook = false
	}
	if r.Intn(3) != 0 {
		s.MaxIt = 60
	}
	return s
}

// ---------------------------------------------------------------- property oracle

// the stopping rule over ALL coordinates: max_i |x_i - xs_i| / max_i |x_i| <= eps (both zero: stop)
func sagaFullRule(xs, x []float64, eps float64) (bool, float64) {
	mx, md := 0.0, 0.0
	for i := range x {
		mx = math.Max(mx, math.Abs(x[i]))
		md = math.Max(md, math.Abs(x[i]-xs[i]))
	}
	if mx != 0 {
		return md/mx <= eps, md / mx
	}
	return md == 0, md
}

// sagaOracle checks on the implementation's log of one run of a PURE objective:
//  1. a nil-error return that is neither a hook stop nor the epoch cap satisfies the stopping
//     rule between the returned iterate and the iterate at the start of the last epoch (the
//     point logged with the first call of that epoch), over ALL coordinates;
//  2. every hook call got the current iterate's relative change (same rule) with respect to the
//     previous epoch's iterate, consecutive epoch numbers and the user's lambda (up to rounding);
//  3. at most n + n*MaxIterations calls of f and MaxIterations hook calls;
//  4. the caller's start vector is unchanged.
func sagaOracle(s *Spec, r *Run) []Failure {
	var fs []Failure
	rt := "saga"
	if !bitsEq(r.X0After, s.X0) {
		fs = append(fs, Failure{rt + ".x0_written", fmt.Sprintf("caller's x0 %v became %v", s.X0, r.X0After)})
	}
	n := len(s.Obj.B)
	var evals [][]float64
	nhook := 0
	prev := s.X0
	for _, e := range r.Ev {
		switch e.K {
		case "sev":
			evals = append(evals, e.X)
		case "shook":
			_, delta := sagaFullRule(prev, e.X, 0)
			if !(math.Abs(delta-e.Y) <= 1e-12*math.Max(1, math.Abs(delta))) {
				fs = append(fs, Failure{rt + ".hook_delta", fmt.Sprintf("hook call %d: delta=%v passed with x=%v, previous iterate %v: relative change is %v", nhook, e.Y, e.X, prev, delta)})
			}
			if e.Idx != nhook {
				fs = append(fs, Failure{rt + ".hook_epoch", fmt.Sprintf("hook call %d got epoch %d", nhook, e.Idx)})
			}
			if !(math.Abs(e.G[0]-s.Eta0) <= 1e-12*math.Abs(s.Eta0)) {
				fs = append(fs, Failure{rt + ".hook_lambda", fmt.Sprintf("hook call %d got lambda %v, regularisation constant is %v", nhook, e.G[0], s.Eta0)})
			}
			prev = e.X
			nhook++
		}
	}
	maxit := s.MaxIt
	if maxit < 0 {
		maxit = 0
	}
	if len(evals) > n+n*maxit || nhook > maxit {
		fs = append(fs, Failure{rt + ".cap", fmt.Sprintf("%d calls of f, %d hook calls with n=%d MaxIterations=%d", len(evals), nhook, n, s.MaxIt)})
	}
	if r.Kind == 0 && len(evals) >= 2*n && (len(evals)-n)%n == 0 {
		epochs := (len(evals) - n) / n
		if epochs < s.MaxIt || s.MaxIt >= hugeIt { // not the cap (a stop in the last permitted epoch is not told apart: skipped)
			xs := evals[n+(epochs-1)*n]
			if len(r.Point) == len(xs) {
				ok, delta := sagaFullRule(xs, r.Point, s.Eps*s.Step0)
				if !ok {
					fs = append(fs, Failure{rt + ".stop_condition", fmt.Sprintf("returned %v as converged after %d epochs; previous epoch's iterate %v: relative change %v > epsilon*gamma = %v", r.Point, epochs, xs, delta, s.Eps*s.Step0)})
				}
			}
		}
	}
	return fs
}
