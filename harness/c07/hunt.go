// Property-level oracle on the implementation (independent of the Coq model)
// and the hunt: random restarts, theorems 1-4 checked on the implementation's
// own log by re-evaluating the real objective, shrinking of failing inputs.
package main

import (
	"encoding/json"
	"fmt"
	"math"
	"os"
	"path/filepath"

	. "adharness/common"
)

type Failure struct {
	Site string `json:"site"`
	What string `json:"what"`
}

func pure(o *ObjSpec) bool { return o.ErrAfter < 0 && o.NaNAfter < 0 && o.ErrAbove == 0 }

func normOf(g []float64) float64 {
	s := 0.0
	for _, v := range g {
		s += math.Pow(v, 2.0)
	}
	return math.Sqrt(s)
}
func bitsEq(a, b []float64) bool {
	if len(a) != len(b) {
		return false
	}
	for i := range a {
		if math.Float64bits(a[i]) != math.Float64bits(b[i]) && !(math.IsNaN(a[i]) && math.IsNaN(b[i])) {
			return false
		}
	}
	return true
}

const hugeIt = 100000

// propertyOracle checks, on the implementation's log of one run of a PURE objective:
//  1. a return without error / hook stop / cap is at a point where the re-evaluated
//     objective passes the routine's stop test (strong Wolfe for the line search);
//  2. every hook call got the value and gradient of the point passed with it;
//  3. no non-error return carries a point outside the constraint box;
//  4. the caller's start vector is unchanged.
func propertyOracle(s *Spec, r *Run) []Failure {
	var fs []Failure
	if isSaga(s.Routine) && pure(&s.Obj) {
		fs = append(fs, sagaRegOracle(s)...) // round 7: runs saga.Run itself, independent of the log
	}
	if r.Dropped != "" || !pure(&s.Obj) {
		return fs
	}
	if isNewton(s.Routine) {
		return newtonOracle(s, r)
	}
	if isNewtonMin(s.Routine) {
		return newtonMinOracle(s, r)
	}
	if isSaga(s.Routine) {
		return append(fs, sagaOracle(s, r)...)
	}
	if isBlahut(s.Routine) {
		return blahutOracle(s, r)
	}
	rt := s.Routine
	if !bitsEq(r.X0After, s.X0) {
		fs = append(fs, Failure{rt + ".x0_written", fmt.Sprintf("caller's x0 %v became %v", s.X0, r.X0After)})
	}
	nhook, neval := 0, 0
	for _, e := range r.Ev {
		switch e.K {
		case "eval":
			neval++
		case "hook":
			var y float64
			var g []float64
			if rt == "ls" {
				yy, gg := polyAt(&s.Obj, e.X[0])
				y, g = yy, []float64{gg}
			} else {
				y, g = pureAt(&s.Obj, e.X)
			}
			if !bitsEq(g, e.G) || (e.HasY && !bitsEq([]float64{y}, []float64{e.Y})) {
				site := rt + ".hook_args"
				if rt == "rprop_dense" && nhook == 0 {
					site = "rprop_dense.first_hook_gradient"
				}
				fs = append(fs, Failure{site, fmt.Sprintf("hook call %d: passed x=%v g=%v y=%v(%v) but f(x)=%v grad f(x)=%v", nhook, e.X, e.G, e.Y, e.HasY, y, g)})
			}
			nhook++
		}
	}
	if (r.Kind == 0 || r.Kind == 1) && s.Cons && len(r.Point) == len(s.X0) {
		if !inBox(s, r.Point) {
			fs = append(fs, Failure{rt + ".returns_rejected_point", fmt.Sprintf("returned %v without error, outside the constraint box lo=%v hi=%v", r.Point, s.Lo, s.Hi)})
		}
	}
	if r.Kind == 0 {
		last := ""
		if len(r.Ev) > 0 {
			last = r.Ev[len(r.Ev)-1].K
		}
		conv := false
		switch rt {
		case "rprop":
			conv = s.MaxIt >= hugeIt || (s.Hook && last == "hook")
		case "rprop_dense":
			conv = s.MaxIt >= hugeIt || (s.Hook && nhook < s.MaxIt)
		case "gd":
			conv = true
		case "adam", "adam_generic":
			conv = neval < s.MaxIt
		case "bfgs":
			conv = s.MaxIt >= hugeIt
		case "ls":
			conv = neval-1 < s.MaxIt
		}
		if conv && rt != "ls" && len(r.Point) == len(s.X0) {
			_, g := pureAt(&s.Obj, r.Point)
			if !(normOf(g) < s.Eps) {
				fs = append(fs, Failure{rt + ".stop_condition", fmt.Sprintf("returned %v as converged but |grad f| = %v there, epsilon = %v", r.Point, normOf(g), s.Eps)})
			}
		}
		if conv && rt == "ls" && len(r.Point) == 1 {
			a := r.Point[0]
			y0, g0 := polyAt(&s.Obj, 0)
			ya, ga := polyAt(&s.Obj, a)
			c1, c2 := 1e-4, 0.9
			if ya > y0+c1*a*g0 || !(math.Abs(ga) <= -c2*g0) {
				fs = append(fs, Failure{"ls.stop_condition", fmt.Sprintf("alpha=%v returned as converged; phi(0)=%v phi'(0)=%v phi(a)=%v phi'(a)=%v violates strong Wolfe", a, y0, g0, ya, ga)})
			}
		}
	}
	return fs
}

// ---------------------------------------------------------------- shrinking

func truncSpec(s Spec, n int) (Spec, bool) {
	m := len(s.X0)
	if n < 1 || n >= m || s.Routine == "ls" {
		return s, false
	}
	t := s
	t.X0 = append([]float64{}, s.X0[:n]...)
	t.Obj.N = n
	sub := func(a []float64) []float64 {
		if a == nil {
			return nil
		}
		r := make([]float64, 0, n*n)
		for i := 0; i < n; i++ {
			r = append(r, a[i*m:i*m+n]...)
		}
		return r
	}
	cut := func(a []float64) []float64 {
		if a == nil || len(a) < n {
			return a
		}
		return append([]float64{}, a[:n]...)
	}
	switch s.Obj.Kind {
	case "quad":
		t.Obj.A, t.Obj.B = sub(s.Obj.A), cut(s.Obj.B)
	case "sep", "rsq":
		t.Obj.C, t.Obj.D, t.Obj.E = cut(s.Obj.C), cut(s.Obj.D), cut(s.Obj.E)
	case "rsys":
		t.Obj.A, t.Obj.C, t.Obj.D = sub(s.Obj.A), cut(s.Obj.C), cut(s.Obj.D)
	case "poly4":
		t.Obj.A, t.Obj.B, t.Obj.C, t.Obj.D, t.Obj.E = cut(s.Obj.A), cut(s.Obj.B), cut(s.Obj.C), cut(s.Obj.D), cut(s.Obj.E)
	}
	t.Lo, t.Hi, t.Hess = cut(s.Lo), cut(s.Hi), sub(s.Hess)
	return t, true
}

func failsAt(s *Spec, site string) (bool, string) {
	r := runSpec(s)
	for _, f := range propertyOracle(s, r) {
		if f.Site == site {
			return true, f.What
		}
	}
	return false, ""
}

func shrink(s Spec, site, what string) (Spec, string) {
	for changed, rounds := true, 0; changed && rounds < 40; rounds++ {
		changed = false
		if t, ok := truncSpec(s, len(s.X0)-1); ok {
			if f, w := failsAt(&t, site); f {
				s, what, changed = t, w, true
				continue
			}
		}
		// round the start point
		for i := range s.X0 {
			t := s
			t.X0 = append([]float64{}, s.X0...)
			t.X0[i] = math.Round(s.X0[i])
			if t.X0[i] != s.X0[i] {
				if f, w := failsAt(&t, site); f {
					s, what, changed = t, w, true
				}
			}
		}
		if s.Hess != nil {
			t := s
			t.Hess = nil
			if f, w := failsAt(&t, site); f {
				s, what, changed = t, w, true
			}
		}
		if s.Hook && s.StopAt >= 0 {
			t := s
			t.StopAt = -1
			if f, w := failsAt(&t, site); f {
				s, what, changed = t, w, true
			}
		}
		if s.Eps < 1e-1 && s.Eps > 0 {
			t := s
			t.Eps = s.Eps * 100
			if t.Eps > 1e-1 {
				t.Eps = 1e-1
			}
			if f, w := failsAt(&t, site); f {
				s, what, changed = t, w, true
			}
		}
	}
	return s, what
}

// ---------------------------------------------------------------- hunt

func genHuntSpec(r *Rng) Spec {
	s := genSpec(r)
	s.Obj.ErrAfter, s.Obj.NaNAfter, s.Obj.ErrAbove = -1, -1, 0
	s.Cap = 4000
	switch s.Routine {
	case "adam", "adam_generic":
		if s.Eps == 0 {
			s.Eps = 1e-2
		}
	case "rprop", "rprop_dense", "bfgs":
		if r.Intn(4) != 0 {
			s.MaxIt = 1000000
		}
		if s.Eps == 0 {
			s.Eps = 1e-6
		}
	case "gd":
		if r.Intn(3) != 0 {
			s.StopAt = -1
			if s.Eps < 1e-6 {
				s.Eps = 1e-4
			}
		}
	}
	return s
}

// newton runs for the hunt: pure objectives, mostly no iteration cap so that a nil-error
// return has to come from the stop test
func genHuntNewton(r *Rng) Spec {
	s := genNewtonSpec(r)
	s.Obj.ErrAfter, s.Obj.NaNAfter, s.Obj.ErrAbove = -1, -1, 0
	if r.Intn(4) != 0 {
		s.MaxIt = 1000000
	}
	if s.Eps == 0 && r.Bool() {
		s.Eps = 1e-6
	}
	if s.Mode == "Foo" {
		s.Mode = "None"
	}
	return s
}

func genHuntNewtonMin(r *Rng) Spec {
	s := genNewtonMinSpec(r)
	s.Obj.ErrAfter, s.Obj.NaNAfter, s.Obj.ErrAbove = -1, -1, 0
	if r.Intn(4) != 0 {
		s.MaxIt = 1000000
	}
	if s.Eps == 0 && r.Bool() {
		s.Eps = 1e-6
	}
	if s.Mode == "Foo" {
		s.Mode = "None"
	}
	return s
}

type Finding struct {
	Site    string `json:"site"`
	Failure string `json:"failure"`
	Spec    Spec   `json:"spec"`
	Count   int    `json:"count"`
}

func hunt(o Opts) {
	found := map[string]*Finding{}
	order := []string{}
	runs, checked := 0, 0
	consider := func(s Spec) {
		r := runSpec(&s)
		runs++
		if r.Dropped != "" {
			return
		}
		checked++
		for _, f := range propertyOracle(&s, r) {
			if g, ok := found[f.Site]; ok {
				g.Count++
				continue
			}
			ms, mw := shrink(s, f.Site, f.What)
			found[f.Site] = &Finding{Site: f.Site, Failure: mw, Spec: ms, Count: 1}
			order = append(order, f.Site)
		}
	}
	if o.Replay != "" {
		b, err := os.ReadFile(o.Replay)
		if err == nil {
			var in struct {
				Cases []struct {
					Spec *Spec `json:"spec"`
				} `json:"cases"`
			}
			if json.Unmarshal(b, &in) == nil {
				for _, c := range in.Cases {
					if c.Spec != nil {
						consider(*c.Spec)
						// the same input without failure injection and without a cap
						t := *c.Spec
						t.Obj.ErrAfter, t.Obj.NaNAfter, t.Obj.ErrAbove = -1, -1, 0
						consider(t)
						if t.Routine != "ls" && t.Routine != "gd" {
							t.MaxIt = 1000000
							t.Cap = 4000
							consider(t)
						}
					}
				}
			}
		}
	}
	rng := NewRng(o.Seed ^ 0x5eed)
	r7n := 0
	for i := 0; i < o.N; i++ {
		if i%16 == 14 { // round 7: Norm users in every dimension 1..12, one slow coordinate
			consider(normStreamSpec(rng.Split(), r7n, true))
			r7n++
		} else if i%32 == 9 { // round 7: saga built-in regularisation against twin and closed form
			consider(genSagaRegSpec(rng.Split()))
		} else if i%4 == 3 {
			consider(genHuntNewton(rng.Split()))
		} else if i%8 == 2 {
			consider(genHuntNewtonMin(rng.Split()))
		} else if i%8 == 5 {
			consider(genHuntSaga(rng.Split()))
		} else if i%16 == 6 {
			consider(genBlahutSpec(rng.Split()))
		} else {
			consider(genHuntSpec(rng.Split()))
		}
	}
	out := struct {
		Found    bool       `json:"found"`
		Findings []*Finding `json:"findings"`
		Runs     int        `json:"runs"`
		Checked  int        `json:"checked"`
	}{Found: len(order) > 0, Runs: runs, Checked: checked}
	for _, k := range order {
		out.Findings = append(out.Findings, found[k])
	}
	b, _ := json.MarshalIndent(out, "", " ")
	os.WriteFile(filepath.Join(o.Out, "hunt.json"), b, 0644)
	fmt.Printf("c07 hunt: %d runs, %d checked, %d failing sites\n", runs, checked, len(order))
}
