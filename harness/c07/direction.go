// C07 round 6: property oracle for getDirection (newton.go), independent of the Coq model.
// The direction t that getDirection left in InSitu.T1 must solve the Newton equation
//
//	"None": H t = g
//	"LDL" : (L D L') t = g   with L, D the modified factors the LIBRARY's own
//	        cholesky.Run(H, LDL{true}, ForcePD{true}) returns (public API, fresh buffers),
//
// up to rounding: the residual is formed here in plain float64 together with the sum of the
// absolute values of all terms (scale), and |residual|_max <= 1e-6 * scale_max is required
// (the explicit inverses of getDirection are not backward stable: the residual of t = inv(M) g
// grows with the condition number of M, so systems whose condition number, estimated here as
// |M|_inf |inv(M)|_inf with an own Gaussian elimination, exceeds 1e8 are not judged).  For "LDL" the
// direction must in addition be a descent direction (g't > 0 when g != 0): Q D^-1 Q' is positive
// definite whenever D > 0, which ForcePD guarantees.
package main

import (
	"fmt"
	"math"

	. "adharness/common"

	ad "github.com/pbenner/autodiff"
	"github.com/pbenner/autodiff/algorithm/cholesky"
)

func finiteVec(v []float64) bool {
	for _, x := range v {
		if math.IsNaN(x) || math.IsInf(x, 0) {
			return false
		}
	}
	return true
}

func finiteMat(m [][]float64) bool {
	for _, r := range m {
		if !finiteVec(r) {
			return false
		}
	}
	return true
}

// mulAbs returns M v and |M| a (a = magnitudes accumulated so far)
func mulAbs(M [][]float64, v, a []float64) ([]float64, []float64) {
	n := len(M)
	r, s := make([]float64, n), make([]float64, n)
	for i := 0; i < n; i++ {
		for j := 0; j < len(M[i]) && j < len(v); j++ {
			r[i] += M[i][j] * v[j]
			s[i] += math.Abs(M[i][j]) * a[j]
		}
	}
	return r, s
}

func matMul(a, b [][]float64) ([][]float64, bool) {
	n := len(a)
	r := make([][]float64, n)
	for i := range r {
		r[i] = make([]float64, n)
		for j := 0; j < n; j++ {
			for k := 0; k < n; k++ {
				r[i][j] += a[i][k] * b[k][j]
			}
		}
	}
	return r, true
}

func absVec(v []float64) []float64 {
	a := make([]float64, len(v))
	for i := range v {
		a[i] = math.Abs(v[i])
	}
	return a
}

// own inverse by Gaussian elimination with partial pivoting (condition estimate only)
func invertGE(M [][]float64) [][]float64 {
	n := len(M)
	a := make([][]float64, n)
	for i := range a {
		a[i] = make([]float64, 2*n)
		copy(a[i], M[i])
		a[i][n+i] = 1
	}
	for c := 0; c < n; c++ {
		p := c
		for r := c + 1; r < n; r++ {
			if math.Abs(a[r][c]) > math.Abs(a[p][c]) {
				p = r
			}
		}
		if a[p][c] == 0 || math.IsNaN(a[p][c]) {
			return nil
		}
		a[c], a[p] = a[p], a[c]
		for r := 0; r < n; r++ {
			if r == c {
				continue
			}
			f := a[r][c] / a[c][c]
			for k := c; k < 2*n; k++ {
				a[r][k] -= f * a[c][k]
			}
		}
	}
	inv := make([][]float64, n)
	for i := range inv {
		inv[i] = make([]float64, n)
		for j := range inv[i] {
			inv[i][j] = a[i][n+j] / a[i][i]
		}
	}
	return inv
}

func normInf(M [][]float64) float64 {
	m := 0.0
	for _, r := range M {
		s := 0.0
		for _, x := range r {
			s += math.Abs(x)
		}
		m = math.Max(m, s)
	}
	return m
}

// wellConditioned: |M|_inf |inv(M)|_inf <= 1e8
func wellConditioned(M [][]float64) bool {
	inv := invertGE(M)
	if inv == nil || !finiteMat(inv) {
		return false
	}
	c := normInf(M) * normInf(inv)
	return c <= 1e8
}

// directionCheck returns "" when the direction is acceptable (or cannot be judged)
func directionCheck(mode string, g []float64, H [][]float64, t []float64) string {
	n := len(g)
	if n == 0 || len(H) != n || len(t) != n || !finiteVec(g) || !finiteMat(H) || !finiteVec(t) {
		return ""
	}
	for _, r := range H {
		if len(r) != n {
			return ""
		}
	}
	var w, aw []float64
	what := ""
	switch modeCode(mode) {
	case 0:
		if !wellConditioned(H) {
			return ""
		}
		w, aw = mulAbs(H, t, absVec(t))
		what = "H t = g"
	case 1:
		flat := make([]float64, 0, n*n)
		for _, r := range H {
			flat = append(flat, r...)
		}
		Lm, Dm, err := cholesky.Run(ad.NewDenseFloat64Matrix(flat, n, n), cholesky.LDL{Value: true}, cholesky.ForcePD{Value: true})
		if err != nil || Lm == nil || Dm == nil {
			return ""
		}
		L, D := matVals(Lm), matVals(Dm)
		if !finiteMat(L) || !finiteMat(D) {
			return ""
		}
		Lt := make([][]float64, n)
		for i := range Lt {
			Lt[i] = make([]float64, n)
			for j := range Lt[i] {
				Lt[i][j] = L[j][i]
			}
		}
		DLt, _ := matMul(D, Lt)
		Mm, _ := matMul(L, DLt)
		if !wellConditioned(Mm) {
			return ""
		}
		u, au := mulAbs(Lt, t, absVec(t))
		v, av := mulAbs(D, u, au)
		w, aw = mulAbs(L, v, av)
		what = "(L D L') t = g with the library's own modified factors L=" + fmt.Sprint(L) + " D=" + fmt.Sprint(D)
		gt, gg := 0.0, 0.0
		for i := range g {
			gt += g[i] * t[i]
			gg += g[i] * g[i]
		}
		if gg > 0 && !(gt > 0) && !math.IsInf(gg, 0) {
			return fmt.Sprintf("LDL direction %v is not a descent direction for g=%v H=%v (g't = %v)", t, g, H, gt)
		}
	default:
		return ""
	}
	res, scale := 0.0, 0.0
	for i := range w {
		res = math.Max(res, math.Abs(w[i]-g[i]))
		scale = math.Max(scale, aw[i]+math.Abs(g[i]))
	}
	if math.IsNaN(res) || math.IsInf(scale, 0) || math.IsNaN(scale) {
		return ""
	}
	if res > 1e-6*scale {
		return fmt.Sprintf("direction %v does not solve %s for H=%v g=%v (residual %v, scale %v)", t, what, H, g, res, scale)
	}
	return ""
}

// plain Cholesky succeeds (own code): H is numerically positive definite
func isPD(H [][]float64) bool {
	n := len(H)
	L := make([][]float64, n)
	for i := range L {
		L[i] = make([]float64, n)
	}
	for i := 0; i < n; i++ {
		for j := 0; j <= i; j++ {
			s := H[i][j]
			for k := 0; k < j; k++ {
				s -= L[i][k] * L[j][k]
			}
			if i == j {
				if !(s > 0) {
					return false
				}
				L[i][i] = math.Sqrt(s)
			} else {
				L[i][j] = s / L[j][j]
			}
		}
	}
	return true
}

// histogram of the getDirection calls the tie compares with ModelNewtonDir.get_direction:
// mode, dimension, outcome, and for "LDL" whether the modification had anything to repair
func countDirections(w *CaseWriter, s *Spec, r *Run) {
	var H [][]float64
	for _, e := range r.Ev {
		switch e.K {
		case "evalv", "evalm":
			H = e.J
		case "dir":
			mode := s.Mode
			if mode == "" {
				mode = "None"
			}
			out := "ok"
			if e.Err {
				out = "error"
			}
			if e.Panic {
				out = "panic"
			}
			w.Count(fmt.Sprintf("direction:%s:n=%d:%s", mode, len(H), out))
			if mode == "LDL" && H != nil && finiteMat(H) {
				w.Count(fmt.Sprintf("direction:LDL:hessian_positive_definite:%v", isPD(H)))
			}
			if !finiteVec(e.G) {
				w.Count("direction:non_finite")
			}
			if mode == "None" && len(H) >= 2 && finiteMat(H) {
				ex := false
				for i := 1; i < len(H); i++ {
					if math.Abs(H[i][0]) > math.Abs(H[0][0]) {
						ex = true
					}
				}
				w.Count(fmt.Sprintf("direction:None:first_pivot_needs_row_exchange:%v", ex))
			}
		}
	}
}

// congruence A <- S A S' with S = I + m e_1 e_0' (unit lower triangular): keeps A symmetric positive
// definite but makes |A[1][0]| > |A[0][0]| for m >= 2, so that the Gauss-Jordan inverse of the
// Hessian of a "quad" objective has to exchange rows at the first pivot
func makeNonDominant(a []float64, n int, m float64) {
	if n < 2 {
		return
	}
	for j := 0; j < n; j++ { // row 1 += m * row 0
		a[1*n+j] += m * a[0*n+j]
	}
	for i := 0; i < n; i++ { // column 1 += m * column 0
		a[i*n+1] += m * a[i*n+0]
	}
}
