// C07 round 7: two targeted streams (correspondence AND hunt).
//
//  (a) "normdim": the routines whose stop test goes through the shared helper
//      algorithm.Norm (gd, rprop, rprop_dense, adam, adam generic) in EVERY dimension 1..12
//      on separable convex objectives on which ONE coordinate (mostly the last) converges
//      slowest: all other coordinates start (almost) at their minimiser.  A norm that is wrong
//      for some vector lengths fires the stop test while that coordinate is still far away; the
//      oracle re-evaluates the gradient at the returned point with its own norm.
//  (b) "sagareg": saga.Run with the BUILT-IN regularisation options on well conditioned least
//      squares problems, run directly (no log) to convergence and compared with
//      - the explicit ProximalOperator twin (same seed: bit-identical result), and
//      - the closed form: KKT conditions of  sum_j f_j(x) + lambda*h(x)  at the returned point
//        (h = |x|_1, |x|_2, |x|^2/2), and in one dimension the closed-form minimiser itself.
package main

import (
	"fmt"
	"math"
	"os"

	. "adharness/common"

	ad "github.com/pbenner/autodiff"
	"github.com/pbenner/autodiff/algorithm/saga"
)

// ---------------------------------------------------------------- (a) norm in dimensions 1..12

var normRoutines = []string{"gd", "rprop", "rprop_dense", "adam", "adam_generic"}

// genNormSpec: dimension n, routine k; slow coordinate mostly the last one
func genNormSpec(r *Rng, n int, rt string, hunt bool) Spec {
	s := Spec{StopAt: -1, Cap: 600, Routine: rt}
	slow := n - 1
	switch r.Pick([]int{4, 1, 1}) {
	case 1:
		slow = 0
	case 2:
		slow = r.Intn(n)
	}
	o := ObjSpec{Kind: "sep", N: n, ErrAfter: -1, NaNAfter: -1}
	o.C, o.D, o.E = make([]float64, n), genPoint(r, n), make([]float64, n)
	s.X0 = make([]float64, n)
	for i := 0; i < n; i++ {
		o.C[i] = pickF(r, 1, 2)
		s.X0[i] = o.D[i] + pickF(r, 0, 0, 1e-4, -2e-4)
	}
	s.X0[slow] = o.D[slow] + pickF(r, 1, -1, 2, -2, 3)
	s.Obj = o
	s.Eps = pickF(r, 0.5, 0.1, 1e-2)
	s.Hook = r.Intn(3) == 0
	switch rt {
	case "gd":
		// contraction 1 - 2*step*C: 0.6 / 0.2 on the fast coordinates, 0.8 (C = 0.5) on the slow one
		s.Obj.C[slow] = 0.5
		s.Step0 = 0.2
		s.Hook = true
		s.StopAt = 200
		s.Cap = 450
	case "rprop", "rprop_dense":
		s.Step0 = pickF(r, 0.01, 0.1)
		s.Eta0 = pickF(r, 1.2, 1.5)
		s.Eta1 = 0.5
		s.MaxIt = 60
		if hunt {
			s.MaxIt = 1000000
		}
	case "adam", "adam_generic":
		s.Step0 = 0.001
		if rt == "adam_generic" {
			s.Step0 = pickF(r, 0.05, 0.1)
		}
		s.Eta0, s.Eta1 = 0.9, 0.999
		s.MaxIt = 60
		s.Eps = pickF(r, 0.5, 1)
		if rt == "adam" {
			// fixed step 0.001: start the slow coordinate just outside the stop region
			// (|g| = 1.02 eps) so that the honest run does reach the stop test
			s.MaxIt = 40
			s.Obj.C[slow] = 1
			s.X0[slow] = o.D[slow] + pickF(r, 1, -1)*0.51*s.Eps
		}
	}
	return s
}

// the i-th spec of the stream: dimension cycles through 1..12, routine through the five users of Norm
func normStreamSpec(r *Rng, i int, hunt bool) Spec {
	return genNormSpec(r, 1+i%12, normRoutines[(i/12)%len(normRoutines)], hunt)
}

// ---------------------------------------------------------------- (b) saga built-in regularisation

// genSagaRegSpec: d = 1..3, n = d..d+3 samples, the first d rows close to scaled unit vectors
// (sum_j a_j a_j' is well conditioned), lambda of the same order as the data
func genSagaRegSpec(r *Rng) Spec {
	s := Spec{StopAt: -1, Cap: 4000}
	s.Routine = []string{"saga1d", "saga1s", "saga2d", "saga2s"}[r.Intn(4)]
	d := 1 + r.Intn(3)
	n := d + r.Intn(4)
	o := ObjSpec{Kind: "lsq", N: d, ErrAfter: -1, NaNAfter: -1}
	truth := genPoint(r, d)
	o.A = make([]float64, n*d)
	o.B = make([]float64, n)
	for j := 0; j < n; j++ {
		t := 0.0
		for i := 0; i < d; i++ {
			v := math.Round((r.Float()*2-1)*50) / 100
			if j < d {
				v = math.Round((r.Float()*2-1)*10) / 100
				if i == j {
					v = pickF(r, 1, -1, 0.75)
				}
			}
			o.A[j*d+i] = v
			t += v * truth[i]
		}
		o.B[j] = math.Round(t*1000)/1000 + pickF(r, 0, 0.01, -0.1)
	}
	s.Obj = o
	s.X0 = genPoint(r, d)
	s.Step0 = pickF(r, 0.1, 0.05, 1.0/30.0)
	s.Eps = 1e-3
	s.MaxIt = 4
	s.Seed = int64(r.Range(0, 1000))
	s.Mode = []string{"L1", "L2", "Ti"}[r.Intn(3)]
	s.Eta0 = pickF(r, 0.05, 0.2, 0.5, 1, 3)
	return s
}

type sagaPlain struct {
	point []float64
	err   bool
	panic string
	calls int
}

// runSagaPlain runs saga.Run directly on the least squares data of the spec (no log, no failure
// injection); explicit = pass ProximalOperator{...} instead of the built-in option
func runSagaPlain(s *Spec, eps float64, maxit int, explicit bool) (out sagaPlain) {
	o := &s.Obj
	d := o.N
	n := len(o.B)
	defer func() {
		if r := recover(); r != nil {
			out.panic = fmt.Sprint(r)
		}
	}()
	sample := func(j int, x ad.DenseFloat64Vector) (float64, float64, []float64) {
		out.calls++
		row := o.A[j*d : (j+1)*d]
		w := 0.0
		for i := 0; i < d; i++ {
			w += row[i] * x[i]
		}
		w -= o.B[j]
		g := append([]float64{}, row...)
		if s.Routine == "saga2d" || s.Routine == "saga2s" {
			for i := range g {
				g[i] *= w
			}
		}
		return 0.5 * w * w, w, g
	}
	sparse := func(g []float64) ad.SparseConstFloat64Vector {
		idx := make([]int, len(g))
		for i := range idx {
			idx[i] = i
		}
		return ad.NewSparseConstFloat64Vector(idx, append([]float64{}, g...), len(g))
	}
	args := []interface{}{saga.Gamma{Value: s.Step0}, saga.Epsilon{Value: eps}, saga.MaxIterations{Value: maxit}, saga.Seed{Value: s.Seed}}
	switch s.Mode {
	case "L1":
		if explicit {
			args = append(args, saga.ProximalOperator{Value: &saga.ProximalOperatorL1{Lambda: s.Eta0}})
		} else {
			args = append(args, saga.L1Regularization{Value: s.Eta0})
		}
	case "L2":
		if explicit {
			args = append(args, saga.ProximalOperator{Value: &saga.ProximalOperatorL2{Lambda: s.Eta0}})
		} else {
			args = append(args, saga.L2Regularization{Value: s.Eta0})
		}
	case "Ti":
		if explicit {
			args = append(args, saga.ProximalOperator{Value: &saga.ProximalOperatorTi{Lambda: s.Eta0}})
		} else {
			args = append(args, saga.TikhonovRegularization{Value: s.Eta0})
		}
	}
	var f interface{}
	switch s.Routine {
	case "saga1d":
		f = saga.Objective1Dense(func(j int, x ad.DenseFloat64Vector) (float64, float64, ad.DenseFloat64Vector, error) {
			y, w, g := sample(j, x)
			return y, w, ad.DenseFloat64Vector(g), nil
		})
	case "saga1s":
		f = saga.Objective1Sparse(func(j int, x ad.DenseFloat64Vector) (float64, float64, ad.SparseConstFloat64Vector, error) {
			y, w, g := sample(j, x)
			return y, w, sparse(g), nil
		})
	case "saga2d":
		f = saga.Objective2Dense(func(j int, x ad.DenseFloat64Vector) (float64, ad.DenseFloat64Vector, error) {
			y, _, g := sample(j, x)
			return y, ad.DenseFloat64Vector(g), nil
		})
	case "saga2s":
		f = saga.Objective2Sparse(func(j int, x ad.DenseFloat64Vector) (float64, ad.SparseConstFloat64Vector, error) {
			y, _, g := sample(j, x)
			return y, sparse(g), nil
		})
	default:
		out.panic = "not a saga template instance"
		return
	}
	x0 := ad.NewDenseFloat64Vector(append([]float64{}, s.X0...))
	res, _, err := saga.Run(f, n, x0, args...)
	out.err = err != nil
	if res != nil && !isNilVec(res) {
		out.point = vecVals(res)
	}
	return
}

// gradient of the smooth part sum_j 0.5 (a_j.x - b_j)^2
func lsqGrad(o *ObjSpec, x []float64) []float64 {
	d := o.N
	g := make([]float64, d)
	for j := range o.B {
		w := -o.B[j]
		for i := 0; i < d; i++ {
			w += o.A[j*d+i] * x[i]
		}
		for i := 0; i < d; i++ {
			g[i] += w * o.A[j*d+i]
		}
	}
	return g
}

// well conditioned: smallest Gershgorin bound of S = sum_j a_j a_j' at least 0.4, and the step
// gamma at most 1/(3 max_j |a_j|^2)
func sagaRegEligible(s *Spec) bool {
	o := &s.Obj
	d := o.N
	n := len(o.B)
	if o.Kind != "lsq" || d < 1 || d > 4 || n < 1 || n > 8 || len(o.A) != n*d || len(s.X0) != d {
		return false
	}
	if !(s.Eta0 >= 0.01 && s.Eta0 <= 10) || !(s.Step0 > 0) {
		return false
	}
	L := 0.0
	for j := 0; j < n; j++ {
		q := 0.0
		for i := 0; i < d; i++ {
			q += o.A[j*d+i] * o.A[j*d+i]
		}
		L = math.Max(L, q)
	}
	if !(s.Step0*3*L <= 1.0000001) {
		return false
	}
	for i := 0; i < d; i++ {
		dg, off := 0.0, 0.0
		for k := 0; k < d; k++ {
			v := 0.0
			for j := 0; j < n; j++ {
				v += o.A[j*d+i] * o.A[j*d+k]
			}
			if k == i {
				dg = v
			} else {
				off += math.Abs(v)
			}
		}
		if dg-off < 0.4 {
			return false
		}
	}
	return true
}

const sagaRegCap = 6000 // epochs

// sagaRegOracle: independent of the run log (runs saga.Run itself)
func sagaRegOracle(s *Spec) []Failure {
	var fs []Failure
	if s.Mode != "L1" && s.Mode != "L2" && s.Mode != "Ti" || s.Routine == "sagajit" || !pure(&s.Obj) || s.Obj.Kind != "lsq" {
		return fs
	}
	n := len(s.Obj.B)
	if n < 1 || n > 8 || s.Obj.N > 6 {
		return fs
	}
	// 1. twin: the built-in option against the explicit proximal operator, the spec's own epsilon and cap
	mi := s.MaxIt
	if mi > 200 {
		mi = 200
	}
	a := runSagaPlain(s, s.Eps, mi, false)
	b := runSagaPlain(s, s.Eps, mi, true)
	if a.panic != b.panic || a.err != b.err || a.calls != b.calls || !bitsEq(a.point, b.point) {
		fs = append(fs, Failure{"saga.builtin_vs_proximal_twin", fmt.Sprintf("%s with %sRegularization{%v} returned %v (err %v, %d calls of f, panic %q) but with ProximalOperator{&ProximalOperator%s{%v}} %v (err %v, %d calls, panic %q)",
			s.Routine, s.Mode, s.Eta0, a.point, a.err, a.calls, a.panic, s.Mode, s.Eta0, b.point, b.err, b.calls, b.panic)})
	}
	// 2. closed form on well conditioned problems: run to convergence
	dbg := os.Getenv("C07_R7STAT") != ""
	if !sagaRegEligible(s) {
		if dbg {
			fmt.Fprintln(os.Stderr, "r7stat sagareg not_eligible")
		}
		return fs
	}
	c := runSagaPlain(s, 1e-9, sagaRegCap, false)
	if c.panic != "" || c.err || len(c.point) != s.Obj.N || c.calls >= n+n*sagaRegCap {
		if dbg {
			fmt.Fprintln(os.Stderr, "r7stat sagareg not_converged", c.calls, c.panic, c.err)
		}
		return fs // did not stop by the stop test: nothing is claimed
	}
	if dbg {
		defer func() { fmt.Fprintln(os.Stderr, "r7stat sagareg checked", s.Mode, c.calls/n, len(fs)) }()
	}
	x := c.point
	g := lsqGrad(&s.Obj, x)
	lam := s.Eta0
	scale := lam
	for _, v := range g {
		scale = math.Max(scale, math.Abs(v))
	}
	tol := 1e-5 * math.Max(1, scale)
	res := 0.0
	switch s.Mode {
	case "Ti":
		for i := range x {
			res = math.Max(res, math.Abs(g[i]+lam*x[i]))
		}
	case "L1":
		for i := range x {
			switch {
			case x[i] > 0:
				res = math.Max(res, math.Abs(g[i]+lam))
			case x[i] < 0:
				res = math.Max(res, math.Abs(g[i]-lam))
			default:
				res = math.Max(res, math.Abs(g[i])-lam)
			}
		}
	case "L2":
		nx := normOf(x)
		if nx > 0 {
			for i := range x {
				res = math.Max(res, math.Abs(g[i]+lam*x[i]/nx))
			}
		} else {
			res = normOf(g) - lam
		}
	}
	if !(res <= tol) {
		h := map[string]string{"Ti": "|x|^2/2", "L1": "|x|_1", "L2": "|x|_2"}[s.Mode]
		what := fmt.Sprintf("%s with %sRegularization{%v}, gamma=%v, epsilon=1e-9 returned %v as converged after %d calls of f; gradient of sum_j f_j there is %v: optimality residual of sum_j f_j + %v*%s is %v (tolerance %v)",
			s.Routine, s.Mode, lam, s.Step0, x, c.calls, g, lam, h, res, tol)
		if s.Obj.N == 1 {
			saa, sab := 0.0, 0.0
			for j := range s.Obj.B {
				saa += s.Obj.A[j] * s.Obj.A[j]
				sab += s.Obj.A[j] * s.Obj.B[j]
			}
			xs := sab / (saa + lam)
			if s.Mode != "Ti" {
				xs = math.Copysign(math.Max(math.Abs(sab)-lam, 0), sab) / saa
			}
			what += fmt.Sprintf("; closed-form minimiser %v", xs)
		}
		fs = append(fs, Failure{"saga.regularised_minimiser", what})
	}
	return fs
}
