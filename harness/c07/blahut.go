// C07 round 3: blahut.Run / blahut.RunNaive under the oracle log.  The iteration body uses
// math.Log / Exp / Pow (not bit-exact between Go and Coq), so it is the model's step oracle:
// the harness runs an independent re-implementation of the body (same operation order, Go's
// own math functions) in lock-step and logs, per step, (p, J, p'); the library's hook calls
// (p, J, verdict) and its result are logged next to it.  The Coq model replays the loop with
// the logged step answers and must reproduce every hook argument of the LIBRARY and its
// result bit for bit.
package main

import (
	"fmt"
	"math"
	"strings"

	. "adharness/common"

	ad "github.com/pbenner/autodiff"
	"github.com/pbenner/autodiff/algorithm/blahut"
)

func isBlahut(rt string) bool { return rt == "blahut" || rt == "blahut_naive" }

func normSlice(p []float64) {
	sum := 0.0
	for _, v := range p {
		sum += v
	}
	for i := range p {
		p[i] /= sum
	}
}

// one iteration of the body: returns J (computed from p) and the next p
func refStep(naive bool, ch [][]float64, p []float64, lambda float64) (float64, []float64) {
	n, m := len(ch), len(ch[0])
	q := make([][]float64, m)
	for j := 0; j < m; j++ {
		q[j] = make([]float64, n)
		for i := 0; i < n; i++ {
			q[j][i] = ch[i][j] * p[i]
		}
		normSlice(q[j])
	}
	r := make([]float64, n)
	for i := 0; i < n; i++ {
		r[i] = 0.0
		if naive {
			for j := 0; j < m; j++ {
				r[i] += ch[i][j] * math.Log(q[j][i])
			}
			r[i] = math.Exp(r[i])
		} else {
			for j := 0; j < m; j++ {
				if !math.IsInf(math.Log(ch[i][j]), -1) && !math.IsInf(math.Log(r[i]), 1) {
					r[i] = r[i] - ch[i][j]*math.Log(q[j][i])
				}
			}
			r[i] = math.Exp(-r[i])
		}
	}
	sum := 0.0
	for i := range r {
		sum += r[i]
	}
	J := math.Log(sum) / math.Log(2.0)
	pn := make([]float64, n)
	for i := range pn {
		if !naive && math.IsInf(math.Log(p[i]), -1) {
			pn[i] = r[i]
		} else {
			pn[i] = math.Pow(p[i], 1.0-lambda) * math.Pow(r[i], lambda)
		}
	}
	normSlice(pn)
	return J, pn
}

// Spec fields used: Obj{N = number of inputs n, A = channel (n x m, row major)}, X0 = p_init,
// MaxIt = steps, Eta0 = lambda, Hook, StopAt.
func runBlahut(s *Spec) (run *Run) {
	run = &Run{}
	lg := &Log{Cap: 4000}
	n := s.Obj.N
	m := len(s.Obj.A) / n
	ch := make([][]float64, n)
	for i := range ch {
		ch[i] = append([]float64{}, s.Obj.A[i*m:(i+1)*m]...)
	}
	naive := s.Routine == "blahut_naive"
	hookCalls := 0
	var hooks []Ev
	verdict := func() bool {
		lg.tick()
		b := s.StopAt >= 0 && hookCalls >= s.StopAt
		hookCalls++
		if b {
			run.Hooked = true
		}
		return b
	}
	p0 := append([]float64{}, s.X0...)
	var res []float64
	defer func() {
		run.X0After = p0
		if r := recover(); r != nil {
			if _, ok := r.(capSentinel); ok {
				run.Dropped = "callback_cap"
				return
			}
			run.Kind = 3
			run.Point = []float64{}
			run.PanicMsg = fmt.Sprint(r)
			return
		}
		if run.Hooked {
			run.Kind = 1
		}
		run.Point = res
		// lock-step reference: as many steps as the library made
		steps := s.MaxIt
		if steps < 0 {
			steps = 0
		}
		if s.Hook {
			steps = len(hooks)
		}
		p := append([]float64{}, s.X0...)
		for k := 0; k < steps; k++ {
			J, pn := refStep(naive, ch, p, s.Eta0)
			run.Ev = append(run.Ev, Ev{K: "bstep", X: p, Y: J, G: pn})
			if s.Hook {
				run.Ev = append(run.Ev, hooks[k])
			}
			p = pn
		}
		if len(run.Ev) > 600 {
			run.Dropped = "too_long"
		}
	}()
	if naive {
		args := []interface{}{blahut.Lambda{Value: s.Eta0}}
		if s.Hook {
			args = append(args, blahut.HookNaive{Value: func(p []float64, J float64) bool {
				e := Ev{K: "bhook", X: append([]float64{}, p...), Y: J}
				e.B = verdict()
				hooks = append(hooks, e)
				return e.B
			}})
		}
		res = append([]float64{}, blahut.RunNaive(ch, p0, s.MaxIt, args...)...)
	} else {
		args := []interface{}{blahut.Lambda{Value: s.Eta0}}
		if s.Hook {
			args = append(args, blahut.Hook{Value: func(p ad.Vector, J ad.Scalar) bool {
				e := Ev{K: "bhook", X: vecVals(p), Y: J.GetFloat64()}
				e.B = verdict()
				hooks = append(hooks, e)
				return e.B
			}})
		}
		chm := ad.NewDenseFloat64Matrix(append([]float64{}, s.Obj.A...), n, m)
		pv := ad.NewDenseFloat64Vector(p0)
		res = vecVals(blahut.Run(chm, pv, s.MaxIt, args...))
		p0 = []float64(pv)
	}
	return
}

func coqCaseBlahut(s *Spec, r *Run) string {
	rt := fmt.Sprintf("RBlahut (mkBl %s %s)", ZI(s.MaxIt), B(s.Hook))
	evs := make([]string, len(r.Ev))
	for i, e := range r.Ev {
		if e.K == "bstep" {
			evs[i] = fmt.Sprintf("LBStep %s %s %s", FList(e.X), F(e.Y), FList(e.G))
		} else {
			evs[i] = fmt.Sprintf("LBHook %s %s %s", FList(e.X), F(e.Y), B(e.B))
		}
	}
	return fmt.Sprintf("mkCase (%s) %s\n   [%s]\n   %d %s %s", rt, FList(s.X0), strings.Join(evs, ";\n    "), r.Kind, FList(r.Point), FList(r.X0After))
}

// random channels (rows sum to 1), some with zero entries
func genBlahutSpec(r *Rng) Spec {
	s := Spec{StopAt: -1, Cap: 4000}
	s.Routine = []string{"blahut", "blahut_naive"}[r.Intn(2)]
	n := 2 + r.Intn(3)
	m := 2 + r.Intn(3)
	o := ObjSpec{Kind: "channel", N: n, ErrAfter: -1, NaNAfter: -1}
	o.A = make([]float64, n*m)
	zeros := r.Intn(4) == 0
	for i := 0; i < n; i++ {
		sum := 0.0
		for j := 0; j < m; j++ {
			v := 0.05 + r.Float()
			if zeros && r.Intn(4) == 0 {
				v = 0
			}
			o.A[i*m+j] = v
			sum += v
		}
		if sum == 0 {
			o.A[i*m] = 1
			sum = 1
		}
		for j := 0; j < m; j++ {
			o.A[i*m+j] /= sum
		}
	}
	s.Obj = o
	s.X0 = make([]float64, n)
	sum := 0.0
	for i := range s.X0 {
		s.X0[i] = 0.1 + r.Float()
		if r.Intn(12) == 0 {
			s.X0[i] = 0
		}
		sum += s.X0[i]
	}
	if sum == 0 {
		s.X0[0], sum = 1, 1
	}
	for i := range s.X0 {
		s.X0[i] /= sum
	}
	s.MaxIt = []int{-1, 0, 1, 2, 5, 20, 50}[r.Intn(7)]
	s.Eta0 = pickF(r, 1, 1, 1, 0.5, 1.5)
	s.Hook = r.Intn(10) < 7
	if s.Hook && r.Intn(3) == 0 {
		s.StopAt = r.Range(0, 6)
	}
	return s
}

// J as a function of p: log2 sum_i p_i exp(D(W_i || pW)), independent formula (zero entries skipped)
func capacityBound(ch [][]float64, p []float64) float64 {
	n, m := len(ch), len(ch[0])
	out := make([]float64, m)
	for j := 0; j < m; j++ {
		for i := 0; i < n; i++ {
			out[j] += p[i] * ch[i][j]
		}
	}
	sum := 0.0
	for i := 0; i < n; i++ {
		d := 0.0
		for j := 0; j < m; j++ {
			if ch[i][j] > 0 {
				d += ch[i][j] * math.Log(ch[i][j]/out[j])
			}
		}
		sum += p[i] * math.Exp(d)
	}
	return math.Log2(sum)
}

// blahutOracle, on channels without zero entries and lambda = 1:
//  1. at most `steps` hook calls; without a hook stop exactly `steps`;
//  2. every hook's p is a probability vector; the returned p is the last hook's p;
//  3. the J passed to the hook is the bound at the point passed with it
//     (site blahut.hook_value_lag when it is instead the bound at the PREVIOUS p: known finding).
func blahutOracle(s *Spec, r *Run) []Failure {
	var fs []Failure
	rt := "blahut"
	for _, v := range s.Obj.A {
		if v == 0 {
			return fs
		}
	}
	for _, v := range s.X0 {
		if v == 0 {
			return fs
		}
	}
	if s.Eta0 != 1 {
		return fs
	}
	n := s.Obj.N
	m := len(s.Obj.A) / n
	ch := make([][]float64, n)
	for i := range ch {
		ch[i] = s.Obj.A[i*m : (i+1)*m]
	}
	steps := s.MaxIt
	if steps < 0 {
		steps = 0
	}
	nh := 0
	prev := s.X0
	var last []float64
	for _, e := range r.Ev {
		if e.K != "bhook" {
			continue
		}
		sum := 0.0
		for _, v := range e.X {
			sum += v
		}
		if math.Abs(sum-1) > 1e-9 {
			fs = append(fs, Failure{rt + ".hook_p_not_normalised", fmt.Sprintf("hook call %d: p=%v sums to %v", nh, e.X, sum)})
		}
		jHere, jPrev := capacityBound(ch, e.X), capacityBound(ch, prev)
		tol := 1e-9 * math.Max(1, math.Abs(e.Y))
		if math.Abs(e.Y-jHere) > tol {
			site := rt + ".hook_value"
			if math.Abs(e.Y-jPrev) <= tol {
				site = rt + ".hook_value_lag"
			}
			fs = append(fs, Failure{site, fmt.Sprintf("hook call %d: J=%v passed with p=%v; the bound at p is %v, at the previous p=%v it is %v", nh, e.Y, e.X, jHere, prev, jPrev)})
		}
		prev, last = e.X, e.X
		nh++
	}
	if s.Hook && (nh > steps || (r.Kind == 0 && nh != steps)) {
		fs = append(fs, Failure{rt + ".cap", fmt.Sprintf("%d hook calls with steps=%d kind=%d", nh, s.MaxIt, r.Kind)})
	}
	if last != nil && !bitsEq(last, r.Point) {
		fs = append(fs, Failure{rt + ".returns_other_point", fmt.Sprintf("returned %v, last hook call got %v", r.Point, last)})
	}
	return fs
}
