// C07 round 2: newton.RunRoot / newton.RunCrit (newton_root) under the oracle log.
// The objective (through AD), the hook and the constraint callback are logged as in
// round 1; the answer of getDirection (the linear solve / Hessian modification) is
// read from the caller-supplied InSitu.T1 buffer at the first callback after it was
// computed (before the back-tracking loop scales it), so no hook in /repo is needed.
package main

import (
	"fmt"
	"math"
	"strings"

	. "adharness/common"

	ad "github.com/pbenner/autodiff"
	"github.com/pbenner/autodiff/algorithm/newton"
)

// root-finding objective families (vector valued, evaluated through Real64 AD)
//
//	rsys: F_i(x) = sum_j A_ij (x_j - d_j) + c_i (x_i - d_i)^3     root planted at d
//	rsq : F_i(x) = c_i (x_i - d_i)^2 + e_i                        e_i = 0: double root at d (Jacobian
//	                                                              singular there); e_i > 0: no root
func evalRoot(o *ObjSpec, x ad.ConstVector) ad.MagicVector {
	n := x.Dim()
	y := ad.NullDenseReal64Vector(n)
	switch o.Kind {
	case "rsys":
		for i := 0; i < n; i++ {
			u := ad.NullReal64()
			for j := 0; j < n; j++ {
				t := ad.NullReal64()
				t.Sub(x.ConstAt(j), cf(o.D[j]))
				t.Mul(t, cf(o.A[i*n+j]))
				u.Add(u, t)
			}
			t := ad.NullReal64()
			w := ad.NullReal64()
			t.Sub(x.ConstAt(i), cf(o.D[i]))
			w.Mul(t, t)
			w.Mul(w, t)
			w.Mul(w, cf(o.C[i]))
			y.At(i).Add(u, w)
		}
	case "rsq":
		for i := 0; i < n; i++ {
			t := ad.NullReal64()
			t.Sub(x.ConstAt(i), cf(o.D[i]))
			t.Mul(t, t)
			t.Mul(t, cf(o.C[i]))
			y.At(i).Add(t, cf(o.E[i]))
		}
	default:
		panic("unknown root objective kind " + o.Kind)
	}
	return y
}

func isRootKind(k string) bool { return k == "rsys" || k == "rsq" }

func identSeeds(n int) [][]float64 {
	s := make([][]float64, n)
	for i := range s {
		s[i] = make([]float64, n)
		s[i][i] = 1
	}
	return s
}

func (l *Log) failNow(o *ObjSpec, k int, x []float64) bool {
	fail := o.ErrAfter >= 0 && k >= o.ErrAfter
	if o.ErrAbove != 0 {
		for _, v := range x {
			if math.Abs(v) > o.ErrAbove || math.IsNaN(v) {
				fail = true
			}
		}
	}
	return fail
}

// vector objective for RunRoot: logs x, seeds, y = f(x) and J[i][j] = d y_i / d x_j
func (l *Log) rootObjective(o *ObjSpec, before func()) func(ad.ConstVector) (ad.MagicVector, error) {
	return func(x ad.ConstVector) (ad.MagicVector, error) {
		l.tick()
		before()
		k := l.Calls
		l.Calls++
		e := Ev{K: "evalv", X: vecVals(x), Seeds: seedsOf(x)}
		if l.failNow(o, k, e.X) {
			e.Err = true
			e.YV, e.J = []float64{}, [][]float64{}
			l.Ev = append(l.Ev, e)
			return nil, fmt.Errorf("objective failed")
		}
		y := evalRoot(o, x)
		if o.NaNAfter >= 0 && k >= o.NaNAfter {
			for i := 0; i < y.Dim(); i++ {
				y.At(i).Mul(y.ConstAt(i), cf(math.NaN()))
			}
		}
		n := x.Dim()
		e.YV = make([]float64, y.Dim())
		e.J = make([][]float64, y.Dim())
		for i := 0; i < y.Dim(); i++ {
			e.YV[i] = y.ConstAt(i).GetFloat64()
			e.J[i] = make([]float64, n)
			for j := 0; j < n; j++ {
				e.J[i][j] = y.ConstAt(i).GetDerivative(j)
			}
		}
		l.noteGrad(e.YV)
		l.Ev = append(l.Ev, e)
		return y, nil
	}
}

// scalar objective for RunCrit: logs x, seeds, y = gradient and J = Hessian
func (l *Log) critObjective(o *ObjSpec, before func()) func(ad.ConstVector) (ad.MagicScalar, error) {
	return func(x ad.ConstVector) (ad.MagicScalar, error) {
		l.tick()
		before()
		k := l.Calls
		l.Calls++
		e := Ev{K: "evalv", X: vecVals(x), Seeds: seedsOf(x)}
		if l.failNow(o, k, e.X) {
			e.Err = true
			e.YV, e.J = []float64{}, [][]float64{}
			l.Ev = append(l.Ev, e)
			return nil, fmt.Errorf("objective failed")
		}
		z := evalPure(o, x)
		if o.NaNAfter >= 0 && k >= o.NaNAfter {
			r := ad.NullReal64()
			r.Mul(z, cf(math.NaN()))
			z = r
		}
		n := x.Dim()
		e.Y = z.GetFloat64()
		e.YV = make([]float64, n)
		e.J = make([][]float64, n)
		for i := 0; i < n; i++ {
			e.YV[i] = z.GetDerivative(i)
			e.J[i] = make([]float64, n)
			for j := 0; j < n; j++ {
				e.J[i][j] = z.GetHessian(i, j)
			}
		}
		l.noteGrad(e.YV)
		l.Ev = append(l.Ev, e)
		return z, nil
	}
}

func matVals(m ad.ConstMatrix) [][]float64 {
	r, c := m.Dims()
	out := make([][]float64, r)
	for i := range out {
		out[i] = make([]float64, c)
		for j := range out[i] {
			out[i][j] = m.ConstAt(i, j).GetFloat64()
		}
	}
	return out
}

func modeCode(m string) int {
	switch m {
	case "", "None":
		return 0
	case "LDL":
		return 1
	case "Eigenvalue":
		return 2
	}
	return 3
}

// panics that come out of getDirection's solvers on the unchanged library: the generic
// Gauss-Jordan elimination panics on a singular system; the "Eigenvalue" modification
// always dereferences a nil matrix (qrAlgorithm.Run is called without ComputeU)
func solverPanic(mode, msg string) bool {
	switch modeCode(mode) {
	case 0, 1:
		return strings.Contains(msg, "singular")
	case 2:
		return strings.Contains(msg, "singular") || strings.Contains(msg, "nil pointer")
	}
	return false
}

// error kinds of newton_root (Run.Kind): 20 invalid initial value, 21 objective error,
// 22 NaN, 23 getDirection error, 24 line search failed
func runNewton(s *Spec) (run *Run) {
	run = &Run{}
	lg := &Log{Cap: s.Cap}
	if lg.Cap <= 0 {
		lg.Cap = 2500
	}
	inS := &newton.InSitu{}
	pending := false // getDirection may have run since the last logged event
	flushDir := func() {
		if pending && inS.T1 != nil {
			lg.Ev = append(lg.Ev, Ev{K: "dir", G: vecVals(inS.T1)})
		}
		pending = false
	}
	hookCalls := 0
	x0 := ad.NewDenseFloat64Vector(append([]float64{}, s.X0...))
	var res ad.Vector
	var err error
	defer func() {
		run.X0After = append([]float64{}, []float64(x0)...)
		if r := recover(); r != nil {
			run.Ev = lg.Ev
			if _, ok := r.(capSentinel); ok {
				run.Dropped = "callback_cap"
				return
			}
			if pending && solverPanic(s.Mode, fmt.Sprint(r)) {
				run.Ev = append(run.Ev, Ev{K: "dir", Panic: true, G: []float64{}})
			}
			run.Kind = 3
			run.Point = []float64{}
			run.PanicMsg = fmt.Sprint(r)
			return
		}
		neval := 0
		lastErr := false
		for _, e := range lg.Ev {
			if e.K == "evalv" {
				neval++
				lastErr = e.Err
			}
		}
		nilres := res == nil || isNilVec(res)
		switch {
		case err == nil && run.Hooked:
			run.Kind = 1
		case err == nil:
			run.Kind = 0
		case neval == 0:
			run.Kind = 20
		case lastErr:
			run.Kind = 21
		case strings.Contains(err.Error(), "NaN value detected"):
			run.Kind = 22
		case strings.Contains(err.Error(), "line search failed"):
			run.Kind = 24
			flushDir()
		default:
			run.Kind = 23
			if pending {
				lg.Ev = append(lg.Ev, Ev{K: "dir", Err: true, G: []float64{}})
			}
		}
		run.Ev = lg.Ev
		if nilres {
			run.Point = []float64{}
		} else {
			run.Point = vecVals(res)
		}
		if lg.Subnorm {
			run.Dropped = "subnormal_square"
		}
		if len(run.Ev) > 1200 {
			run.Dropped = "too_long"
		}
	}()
	args := []interface{}{newton.Epsilon{Value: s.Eps}, newton.MaxIterations{Value: s.MaxIt}, inS}
	if s.Mode != "" {
		args = append(args, newton.HessianModification{Value: s.Mode})
	}
	if s.Hook {
		args = append(args, newton.HookRoot{Value: func(x ad.ConstVector, J ad.ConstMatrix, y ad.ConstVector) bool {
			lg.tick()
			e := Ev{K: "hookv", X: vecVals(x), J: matVals(J), YV: vecVals(y)}
			e.B = s.StopAt >= 0 && hookCalls >= s.StopAt
			hookCalls++
			if e.B {
				run.Hooked = true
			}
			lg.Ev = append(lg.Ev, e)
			return e.B
		}})
	}
	if s.Cons {
		args = append(args, newton.Constraints{Value: func(x ad.Vector) bool {
			lg.tick()
			flushDir()
			v := vecVals(x)
			ok := inBox(s, v)
			lg.Ev = append(lg.Ev, Ev{K: "cons", X: v, B: ok})
			return ok
		}})
	}
	after := func(f func()) func() { return f }
	_ = after
	if s.Routine == "newton_crit" {
		obj := lg.critObjective(&s.Obj, flushDir)
		res, err = newton.RunCrit(func(x ad.ConstVector) (ad.MagicScalar, error) {
			z, e := obj(x)
			pending = e == nil
			return z, e
		}, x0, args...)
	} else {
		obj := lg.rootObjective(&s.Obj, flushDir)
		res, err = newton.RunRoot(func(x ad.ConstVector) (ad.MagicVector, error) {
			z, e := obj(x)
			pending = e == nil
			return z, e
		}, x0, args...)
	}
	return
}

// ---------------------------------------------------------------- Coq terms

func coqEvNewton(e Ev) string {
	switch e.K {
	case "evalv":
		return fmt.Sprintf("LEvalV %s %s %s %s %s", FList(e.X), fmat(e.Seeds), B(e.Err), FList(e.YV), fmat(e.J))
	case "hookv":
		return fmt.Sprintf("LHookV %s %s %s %s", FList(e.X), fmat(e.J), FList(e.YV), B(e.B))
	case "dir":
		st := 0
		if e.Err {
			st = 1
		}
		if e.Panic {
			st = 2
		}
		return fmt.Sprintf("LDir %d %s", st, FList(e.G))
	default:
		return fmt.Sprintf("LCons %s %s", FList(e.X), B(e.B))
	}
}

func coqCaseNewton(s *Spec, r *Run) string {
	rt := fmt.Sprintf("RNewton %s (mkNw %s %s %s %s %s NWC_F)", B(s.Routine == "newton_crit"),
		F(s.Eps), ZI(s.MaxIt), B(s.Hook), B(s.Cons), ZI(modeCode(s.Mode)))
	evs := make([]string, len(r.Ev))
	for i, e := range r.Ev {
		evs[i] = coqEvNewton(e)
	}
	return fmt.Sprintf("mkCase (%s) %s\n   [%s]\n   %d %s %s", rt, FList(s.X0), strings.Join(evs, ";\n    "), r.Kind, FList(r.Point), FList(r.X0After))
}

// ---------------------------------------------------------------- generators

// a matrix that is singular: two equal rows, a zero row, or all zero
func genSingular(r *Rng, n int) []float64 {
	a := genSPD(r, n)
	switch r.Intn(3) {
	case 0:
		for j := 0; j < n; j++ {
			a[(n-1)*n+j] = a[j]
		}
		if n == 1 {
			a[0] = 0
		}
	case 1:
		for j := 0; j < n; j++ {
			a[j] = 0
		}
	default:
		for i := range a {
			a[i] = 0
		}
	}
	return a
}

func genRootObj(r *Rng, n int) ObjSpec {
	o := ObjSpec{N: n, ErrAfter: -1, NaNAfter: -1}
	o.D = genPoint(r, n)
	o.C = make([]float64, n)
	switch r.Pick([]int{6, 1, 3}) {
	case 0:
		o.Kind = "rsys"
		o.A = genSPD(r, n)
		if n >= 2 && r.Bool() { // not symmetric
			o.A[1] += pickF(r, 0.25, -0.5, 1)
		}
		if n >= 2 && r.Bool() { // round 6: two rows exchanged, so that the Gauss-Jordan inverse of the Jacobian
			// has to pivot (the planted root stays a root: row i is sum_j A_ij (x_j - d_j) + c_i (x_i - d_i)^3)
			i := r.Intn(n)
			k := (i + 1 + r.Intn(n-1)) % n
			for j := 0; j < n; j++ {
				o.A[i*n+j], o.A[k*n+j] = o.A[k*n+j], o.A[i*n+j]
			}
		}
		for i := 0; i < n; i++ {
			o.C[i] = pickF(r, 0, 0, 0.1, 1)
		}
	case 1:
		o.Kind = "rsys" // singular linear part: the Jacobian is singular at the planted root
		o.A = genSingular(r, n)
		for i := 0; i < n; i++ {
			o.C[i] = pickF(r, 0, 0.1, 1)
		}
	default:
		o.Kind = "rsq"
		o.E = make([]float64, n)
		for i := 0; i < n; i++ {
			o.C[i] = pickF(r, 0.5, 1, 2)
			o.E[i] = pickF(r, 0, 0, -1, -0.25, 1)
		}
	}
	return o
}

func injectFailures(r *Rng, o *ObjSpec) {
	switch r.Pick([]int{16, 2, 2, 2}) {
	case 1:
		o.ErrAfter = r.Range(0, 6)
	case 2:
		o.NaNAfter = r.Range(0, 6)
	case 3:
		o.ErrAbove = pickF(r, 2.5, 3.5, 5)
	}
}

// the point the iteration is heading for (planted root / minimiser), when known
func targetOf(o *ObjSpec) []float64 {
	switch o.Kind {
	case "rsys", "rsq", "sep":
		return o.D
	}
	return nil
}

// constraint boxes aimed at the back-tracking loop
func genNewtonBox(r *Rng, s *Spec) {
	n := len(s.X0)
	s.Cons = true
	s.Lo, s.Hi = make([]float64, n), make([]float64, n)
	for i := 0; i < n; i++ {
		s.Lo[i] = s.X0[i] - pickF(r, 1, 4, 100)
		s.Hi[i] = s.X0[i] + pickF(r, 1, 4, 100)
	}
	tg := targetOf(&s.Obj)
	k := r.Intn(n)
	switch r.Pick([]int{3, 4, 3, 2, 1, 1}) {
	case 0: // wide box
	case 1: // the box EXCLUDES the target: the step is shrunk again and again
		if tg != nil && tg[k] != s.X0[k] {
			fr := pickF(r, 0, 0.25, 0.5, 0.9)
			b := s.X0[k] + fr*(tg[k]-s.X0[k])
			if tg[k] > s.X0[k] {
				s.Hi[k] = b
			} else {
				s.Lo[k] = b
			}
		} else {
			s.Hi[k] = s.X0[k]
		}
	case 2: // the target lies ON the boundary
		if tg != nil {
			if tg[k] >= s.X0[k] {
				s.Hi[k] = tg[k]
			} else {
				s.Lo[k] = tg[k]
			}
		}
	case 3: // the box is the start point: every step is rejected
		for i := 0; i < n; i++ {
			s.Lo[i], s.Hi[i] = s.X0[i], s.X0[i]
		}
	case 4: // start point on the boundary, target outside
		if tg != nil && tg[k] > s.X0[k] {
			s.Hi[k] = s.X0[k]
		} else {
			s.Lo[k] = s.X0[k]
		}
	default: // box that excludes the start point
		s.Lo[0] = s.X0[0] + 0.5
		s.Hi[0] = s.X0[0] + 1.5
	}
}

func genNewtonSpec(r *Rng) Spec {
	s := Spec{StopAt: -1, Cap: 2500}
	n := 1 + r.Pick([]int{10, 10, 5, 1, 1}) // round 6: up to 5 dimensions (pivoting in the solves of getDirection)
	if r.Intn(5) < 3 {
		s.Routine = "newton_root"
		s.Obj = genRootObj(r, n)
	} else {
		s.Routine = "newton_crit"
		s.Obj = genObj(r, n)
		s.Obj.ErrAfter, s.Obj.NaNAfter, s.Obj.ErrAbove = -1, -1, 0
	}
	if s.Obj.Kind == "quad" && n >= 2 && r.Intn(3) == 0 { // round 6: SPD but not diagonally dominant (pivoting)
		makeNonDominant(s.Obj.A, n, pickF(r, 2, 3, -2))
	}
	injectFailures(r, &s.Obj)
	s.X0 = genPoint(r, n)
	if tg := targetOf(&s.Obj); tg != nil {
		switch r.Pick([]int{6, 1, 3}) {
		case 0: // close to the target
			for i := range s.X0 {
				s.X0[i] = tg[i] + pickF(r, 0.5, -0.5, 1, -1, 2, 0.125)
			}
		case 1: // start AT the target
			s.X0 = append([]float64{}, tg...)
		}
	}
	if r.Intn(12) == 0 { // large coordinates: the step vanishes against x after few reductions
		for i := range s.X0 {
			s.X0[i] = pickF(r, 1e6, -1e6, 1e9)
		}
	}
	s.Eps = pickF(r, 1e-1, 1e-2, 1e-4, 1e-6, 1e-8, 1e-12, 0)
	s.MaxIt = []int{-1, 0, 1, 2, 5, 50, 50, 50, 50}[r.Intn(9)]
	s.Hook = r.Intn(10) < 6
	if s.Hook && r.Intn(4) == 0 {
		s.StopAt = r.Range(0, 6)
	}
	switch r.Pick([]int{12, 4, 2, 1}) {
	case 0:
		if r.Bool() {
			s.Mode = "None"
		}
	case 1:
		s.Mode = "LDL"
	case 2:
		// "Eigenvalue" only in one dimension: there getDirection panics deterministically (nil u, see
		// solverPanic); from two dimensions on qrAlgorithm.Run may not terminate on the unchanged library
		if n == 1 {
			s.Mode = "Eigenvalue"
		} else {
			s.Mode = "LDL"
		}
	default:
		s.Mode = "Foo"
	}
	if r.Intn(5) < 2 {
		genNewtonBox(r, &s)
	}
	return s
}

// ---------------------------------------------------------------- property oracle

func pureRootAt(o *ObjSpec, x []float64) ([]float64, [][]float64) {
	xr := ad.AsDenseReal64Vector(ad.NewDenseFloat64Vector(append([]float64{}, x...)))
	xr.Variables(1)
	y := evalRoot(o, xr)
	n := len(x)
	yv := make([]float64, y.Dim())
	J := make([][]float64, y.Dim())
	for i := range yv {
		yv[i] = y.ConstAt(i).GetFloat64()
		J[i] = make([]float64, n)
		for j := 0; j < n; j++ {
			J[i][j] = y.ConstAt(i).GetDerivative(j)
		}
	}
	return yv, J
}

func pureCritAt(o *ObjSpec, x []float64) ([]float64, [][]float64) {
	xr := ad.AsDenseReal64Vector(ad.NewDenseFloat64Vector(append([]float64{}, x...)))
	xr.Variables(2)
	z := evalPure(o, xr)
	n := len(x)
	g := make([]float64, n)
	H := make([][]float64, n)
	for i := 0; i < n; i++ {
		g[i] = z.GetDerivative(i)
		H[i] = make([]float64, n)
		for j := 0; j < n; j++ {
			H[i][j] = z.GetHessian(i, j)
		}
	}
	return g, H
}

func newtonAt(s *Spec, x []float64) ([]float64, [][]float64) {
	if s.Routine == "newton_crit" {
		return pureCritAt(&s.Obj, x)
	}
	return pureRootAt(&s.Obj, x)
}

func matBitsEq(a, b [][]float64) bool {
	if len(a) != len(b) {
		return false
	}
	for i := range a {
		if !bitsEq(a[i], b[i]) {
			return false
		}
	}
	return true
}

// newtonOracle checks the property on the implementation's log of one run of a PURE
// objective, re-evaluating the real objective at every point that matters:
//  1. a return with nil error that is neither a hook stop nor the iteration cap is at a
//     point where |f(x)| (root) / |grad f(x)| (crit) < epsilon; error returns (the
//     back-tracking exit!), hook stops and cap returns are acceptable outcomes;
//  2. every hook call got (J, y) of the point passed with it;
//  3. no non-error return carries a point outside the constraint box;
//  4. a non-error return carries the point of the last evaluation;
//  5. the caller's start vector is unchanged;
//  6. the direction solves J t = y ("None") / (L D L') t = y with the library's own modified
//     factors ("LDL") up to rounding (direction.go).
func newtonOracle(s *Spec, r *Run) []Failure {
	var fs []Failure
	rt := "newton"
	if !bitsEq(r.X0After, s.X0) {
		fs = append(fs, Failure{rt + ".x0_written", fmt.Sprintf("caller's x0 %v became %v", s.X0, r.X0After)})
	}
	neval, nhook := 0, 0
	dirFailed := false
	var lastX []float64
	var lastY []float64
	var lastJ [][]float64
	for _, e := range r.Ev {
		switch e.K {
		case "evalv":
			neval++
			lastX, lastY, lastJ = e.X, e.YV, e.J
		case "hookv":
			y, J := newtonAt(s, e.X)
			if !bitsEq(y, e.YV) || !matBitsEq(J, e.J) {
				fs = append(fs, Failure{rt + ".hook_args", fmt.Sprintf("hook call %d: passed x=%v y=%v J=%v but f(x)=%v J(x)=%v", nhook, e.X, e.YV, e.J, y, J)})
			}
			nhook++
		case "dir":
			if !e.Err && !e.Panic && lastJ != nil && !dirFailed { // report the first bad direction of a run only
				if msg := directionCheck(s.Mode, lastY, lastJ, e.G); msg != "" {
					fs = append(fs, Failure{rt + ".direction_residual", msg})
					dirFailed = true
				}
			}
		}
	}
	if r.Kind == 0 || r.Kind == 1 {
		if len(r.Point) != len(s.X0) {
			fs = append(fs, Failure{rt + ".returns_no_point", fmt.Sprintf("nil error but point %v", r.Point)})
			return fs
		}
		if s.Cons && !inBox(s, r.Point) {
			fs = append(fs, Failure{rt + ".returns_rejected_point", fmt.Sprintf("returned %v without error, outside the constraint box lo=%v hi=%v", r.Point, s.Lo, s.Hi)})
		}
		if lastX != nil && !bitsEq(lastX, r.Point) {
			fs = append(fs, Failure{rt + ".returns_unevaluated_point", fmt.Sprintf("returned %v without error but the last evaluation was at %v", r.Point, lastX)})
		}
	}
	if r.Kind == 0 && neval-1 < s.MaxIt {
		y, _ := newtonAt(s, r.Point)
		if !(normOf(y) < s.Eps) {
			fs = append(fs, Failure{rt + ".stop_condition", fmt.Sprintf("returned %v with nil error (no hook stop, %d of %d iterations) but the residual norm there is %v, epsilon = %v", r.Point, neval-1, s.MaxIt, normOf(y), s.Eps)})
		}
	}
	return fs
}
