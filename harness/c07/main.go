// C07 harness: runs the optimisers of /repo/algorithm on logged objectives
// ("oracle log") and writes (input, log, result) as Coq case files that the
// model in coq/C07 replays on primitive floats.
package main

import (
	"encoding/json"
	"fmt"
	"math"
	"os"
	"path/filepath"
	"strings"

	. "adharness/common"

	ad "github.com/pbenner/autodiff"
	"github.com/pbenner/autodiff/algorithm/adam"
	"github.com/pbenner/autodiff/algorithm/bfgs"
	"github.com/pbenner/autodiff/algorithm/gradientDescent"
	"github.com/pbenner/autodiff/algorithm/lineSearch"
	"github.com/pbenner/autodiff/algorithm/matrixInverse"
	"github.com/pbenner/autodiff/algorithm/rprop"
)

// Spec is a complete, replayable description of one run.
type Spec struct {
	Routine string    `json:"routine"` // rprop | rprop_dense | gd | ls | bfgs
	Obj     ObjSpec   `json:"obj"`
	X0      []float64 `json:"x0"`
	Step0   float64   `json:"step0"` // rprop: step_init; gd: step; ls: Alpha1
	Eta0    float64   `json:"eta0"`
	Eta1    float64   `json:"eta1"`
	Eps     float64   `json:"eps"`
	MaxIt   int       `json:"maxit"` // rprop/bfgs: MaxIterations; ls: MaxEval
	Hook    bool      `json:"hook"`
	StopAt  int       `json:"stop_at"` // hook returns true at its StopAt-th call (0-based); <0 never
	Cons    bool      `json:"cons"`
	Lo      []float64 `json:"lo,omitempty"` // constraint box (ls: Lo[0] <= alpha <= Hi[0])
	Hi      []float64 `json:"hi,omitempty"`
	Hess    []float64 `json:"hess,omitempty"` // bfgs: Hessian option, row major
	Cap     int       `json:"cap"`            // callback budget (harness safety, not an input of the routine)
	Mode    string    `json:"mode,omitempty"` // newton: HessianModification ("" = option not passed); saga: "", L1, L2, Ti
	Seed    int64     `json:"seed,omitempty"` // saga: Seed option
	Steps   int       `json:"steps,omitempty"` // blahut: number of steps
}

type Run struct {
	Ev       []Ev
	Kind     int // 0 returned without error, 1 hook stop, 2 error, 3 panic
	Point    []float64
	X0After  []float64
	H0       []float64 // bfgs: inverse of the Hessian option as computed by matrixInverse.Run
	Dropped  string
	Hooked   bool
	PanicMsg string
}

func inBox(s *Spec, x []float64) bool {
	for i, v := range x {
		if !(v >= s.Lo[i] && v <= s.Hi[i]) {
			return false
		}
	}
	return true
}

func isNewton(rt string) bool { return rt == "newton_root" || rt == "newton_crit" }

func runSpec(s *Spec) (run *Run) {
	if isNewton(s.Routine) {
		return runNewton(s)
	}
	if isNewtonMin(s.Routine) {
		return runNewtonMin(s)
	}
	if isSaga(s.Routine) {
		return runSaga(s)
	}
	if isBlahut(s.Routine) {
		return runBlahut(s)
	}
	run = &Run{}
	lg := &Log{Cap: s.Cap}
	if lg.Cap <= 0 {
		lg.Cap = 600
	}
	n := len(s.X0)
	hookCalls := 0
	hookVerdict := func() bool {
		lg.tick()
		b := s.StopAt >= 0 && hookCalls >= s.StopAt
		hookCalls++
		if b {
			run.Hooked = true
		}
		return b
	}
	consVec := func(x ad.ConstVector) bool {
		lg.tick()
		v := vecVals(x)
		ok := inBox(s, v)
		lg.Ev = append(lg.Ev, Ev{K: "cons", X: v, B: ok})
		return ok
	}
	x0 := ad.NewDenseFloat64Vector(append([]float64{}, s.X0...))
	var res ad.ConstVector
	var alpha ad.Scalar
	var err error
	defer func() {
		run.Ev = lg.Ev
		run.X0After = append([]float64{}, []float64(x0)...)
		if r := recover(); r != nil {
			if _, ok := r.(capSentinel); ok {
				run.Dropped = "callback_cap"
				return
			}
			run.Kind = 3
			run.Point = []float64{}
			return
		}
		switch {
		case err != nil:
			run.Kind = 2
		case run.Hooked:
			run.Kind = 1
		default:
			run.Kind = 0
		}
		if s.Routine == "ls" {
			if alpha != nil {
				run.Point = []float64{alpha.GetFloat64()}
			}
		} else if res != nil && !isNilVec(res) {
			run.Point = vecVals(res)
		} else {
			run.Point = []float64{}
		}
		if lg.Subnorm {
			run.Dropped = "subnormal_square"
		}
		if len(run.Ev) > 500 {
			run.Dropped = "too_long"
		}
	}()
	switch s.Routine {
	case "rprop":
		args := []interface{}{rprop.Epsilon{Value: s.Eps}, rprop.MaxIterations{Value: s.MaxIt}}
		if s.Hook {
			args = append(args, rprop.Hook{Value: func(g, st []float64, x ad.ConstVector, y ad.ConstScalar) bool {
				e := Ev{K: "hook", X: vecVals(x), G: append([]float64{}, g...), Step: append([]float64{}, st...)}
				if y != nil {
					e.HasY, e.Y = true, y.GetFloat64()
				}
				e.B = hookVerdict()
				lg.Ev = append(lg.Ev, e)
				return e.B
			}})
		}
		if s.Cons {
			args = append(args, rprop.Constraints{Value: func(x ad.Vector) bool { return consVec(x) }})
		}
		res, err = rprop.Run(lg.objective(&s.Obj), x0, s.Step0, []float64{s.Eta0, s.Eta1}, args...)
	case "rprop_dense":
		args := []interface{}{rprop.Epsilon{Value: s.Eps}, rprop.MaxIterations{Value: s.MaxIt}}
		if s.Hook {
			args = append(args, rprop.Hook{Value: func(g, st []float64, x ad.ConstVector, y ad.ConstScalar) bool {
				e := Ev{K: "hook", X: vecVals(x), G: append([]float64{}, g...), Step: append([]float64{}, st...)}
				if y != nil {
					e.HasY, e.Y = true, y.GetFloat64()
				}
				e.B = hookVerdict()
				lg.Ev = append(lg.Ev, e)
				return e.B
			}})
		}
		if s.Cons {
			args = append(args, rprop.ConstConstraints{Value: func(x ad.ConstVector) bool { return consVec(x) }})
		}
		res, err = rprop.RunGradient(rprop.DenseGradientF(lg.gradObjective(&s.Obj)), x0, s.Step0, []float64{s.Eta0, s.Eta1}, args...)
	case "adam":
		args := []interface{}{adam.Epsilon{Value: s.Eps}, adam.MaxIterations{Value: s.MaxIt},
			adam.Beta1{Value: s.Eta0}, adam.Beta2{Value: s.Eta1}}
		if s.Hook {
			args = append(args, adam.Hook{Value: func(x, g ad.ConstVector, y ad.ConstScalar) bool {
				e := Ev{K: "hook", X: vecVals(x), G: vecVals(g), Step: []float64{}}
				if y != nil {
					e.HasY, e.Y = true, y.GetFloat64()
				}
				e.B = hookVerdict()
				lg.Ev = append(lg.Ev, e)
				return e.B
			}})
		}
		if s.Cons {
			args = append(args, adam.ConstConstraints{Value: func(x ad.ConstVector) bool { return consVec(x) }})
		}
		res, err = adam.RunGradient(adam.DenseGradientF(lg.gradObjective(&s.Obj)), x0, args...)
	case "adam_generic":
		args := []interface{}{adam.Epsilon{Value: s.Eps}, adam.MaxIterations{Value: s.MaxIt},
			adam.Beta1{Value: s.Eta0}, adam.Beta2{Value: s.Eta1}, adam.StepSize{Value: s.Step0}}
		if s.Hook {
			args = append(args, adam.Hook{Value: func(x, g ad.ConstVector, y ad.ConstScalar) bool {
				e := Ev{K: "hook", X: vecVals(x), G: vecVals(g), Step: []float64{}}
				if y != nil {
					e.HasY, e.Y = true, y.GetFloat64()
				}
				e.B = hookVerdict()
				lg.Ev = append(lg.Ev, e)
				return e.B
			}})
		}
		if s.Cons {
			args = append(args, adam.Constraints{Value: func(x ad.Vector) bool { return consVec(x) }})
		}
		res, err = adam.Run(lg.objective(&s.Obj), x0, args...)
	case "gd":
		args := []interface{}{gradientDescent.Epsilon{Value: s.Eps}}
		if s.Hook {
			args = append(args, gradientDescent.Hook{Value: func(g []float64, x ad.ConstVector, y ad.ConstScalar) bool {
				e := Ev{K: "hook", X: vecVals(x), G: append([]float64{}, g...), Step: []float64{}}
				if y != nil {
					e.HasY, e.Y = true, y.GetFloat64()
				}
				e.B = hookVerdict()
				lg.Ev = append(lg.Ev, e)
				return e.B
			}})
		}
		res, err = gradientDescent.Run(lg.objective(&s.Obj), x0, s.Step0, args...)
	case "ls":
		args := []interface{}{lineSearch.Parameters{Alpha1: s.Step0, MaxEval: s.MaxIt}}
		if s.Hook {
			args = append(args, lineSearch.Hook{Value: func(a, y, g ad.ConstScalar) bool {
				e := Ev{K: "hook", X: []float64{a.GetFloat64()}, G: []float64{g.GetFloat64()}, Step: []float64{},
					HasY: true, Y: y.GetFloat64()}
				e.B = hookVerdict()
				lg.Ev = append(lg.Ev, e)
				return e.B
			}})
		}
		if s.Cons {
			args = append(args, lineSearch.Constraints{Value: func(a ad.ConstScalar) bool {
				lg.tick()
				v := a.GetFloat64()
				ok := v >= s.Lo[0] && v <= s.Hi[0]
				lg.Ev = append(lg.Ev, Ev{K: "cons", X: []float64{v}, B: ok})
				return ok
			}})
		}
		alpha, err = lineSearch.Run(lg.scalarObjective(&s.Obj), ad.Float64Type, args...)
	case "bfgs":
		hv := s.Hess
		if hv == nil {
			hv = make([]float64, n*n)
			for i := 0; i < n; i++ {
				hv[i*n+i] = 1
			}
		}
		H, herr := matrixInverse.Run(ad.NewDenseFloat64Matrix(append([]float64{}, hv...), n, n))
		if herr != nil {
			run.Dropped = "singular_hessian"
			return
		}
		run.H0 = make([]float64, n*n)
		for i := 0; i < n; i++ {
			for j := 0; j < n; j++ {
				run.H0[i*n+j] = H.ConstAt(i, j).GetFloat64()
			}
		}
		args := []interface{}{bfgs.Epsilon{Value: s.Eps}, bfgs.MaxIterations{Value: s.MaxIt}}
		if s.Hess != nil {
			args = append(args, bfgs.Hessian{Value: ad.NewDenseFloat64Matrix(append([]float64{}, s.Hess...), n, n)})
		}
		if s.Hook {
			args = append(args, bfgs.Hook{Value: func(x, g ad.ConstVector, y ad.ConstScalar) bool {
				e := Ev{K: "hook", X: vecVals(x), G: vecVals(g), Step: []float64{}, HasY: true, Y: y.GetFloat64()}
				e.B = hookVerdict()
				lg.Ev = append(lg.Ev, e)
				return e.B
			}})
		}
		if s.Cons {
			args = append(args, bfgs.Constraints{Value: func(x ad.Vector) bool { return consVec(x) }})
		}
		res, err = bfgs.Run(lg.objective(&s.Obj), x0, args...)
	default:
		panic("unknown routine " + s.Routine)
	}
	return
}

func isNilVec(v ad.ConstVector) (r bool) {
	defer func() {
		if recover() != nil {
			r = true
		}
	}()
	_ = v.Dim()
	return false
}

// ---------------------------------------------------------------- Coq terms

func fmat(rows [][]float64) string {
	s := make([]string, len(rows))
	for i, r := range rows {
		s[i] = FList(r)
	}
	return "[" + strings.Join(s, "; ") + "]"
}

func coqEv(e Ev) string {
	switch e.K {
	case "eval":
		return fmt.Sprintf("LEval %s %s %s %s %s", FList(e.X), fmat(e.Seeds), B(e.Err), F(e.Y), FList(e.G))
	case "hook":
		return fmt.Sprintf("LHook %s %s %s %s %s %s", FList(e.X), FList(e.G), B(e.HasY), F(e.Y), FList(e.Step), B(e.B))
	default:
		return fmt.Sprintf("LCons %s %s", FList(e.X), B(e.B))
	}
}

func coqCase(s *Spec, r *Run) string {
	if isNewton(s.Routine) {
		return coqCaseNewton(s, r)
	}
	if isNewtonMin(s.Routine) {
		return coqCaseNewtonMin(s, r)
	}
	if isSaga(s.Routine) {
		return coqCaseSaga(s, r)
	}
	if isBlahut(s.Routine) {
		return coqCaseBlahut(s, r)
	}
	var rt string
	switch s.Routine {
	case "rprop", "rprop_dense":
		c := "RRprop"
		if s.Routine == "rprop_dense" {
			c = "RRpropDense"
		}
		rt = fmt.Sprintf("%s (mkRp %s %s %s %s %s %s %s)", c, F(s.Step0), F(s.Eta0), F(s.Eta1), F(s.Eps), ZI(s.MaxIt), B(s.Hook), B(s.Cons))
	case "adam":
		rt = fmt.Sprintf("RAdam (mkAd %s %s %s %s %s %s %s %s)", F(0.001), F(s.Eta0), F(s.Eta1), F(s.Eps), F(1e-8), ZI(s.MaxIt), B(s.Hook), B(s.Cons))
	case "adam_generic":
		rt = fmt.Sprintf("RAdamG (mkAd %s %s %s %s %s %s %s %s)", F(s.Step0), F(s.Eta0), F(s.Eta1), F(s.Eps), F(1e-8), ZI(s.MaxIt), B(s.Hook), B(s.Cons))
	case "gd":
		rt = fmt.Sprintf("RGD (mkGd %s %s %s)", F(s.Step0), F(s.Eps), B(s.Hook))
	case "ls":
		rt = fmt.Sprintf("RLS %s %s %s %s", B(s.Hook), B(s.Cons), F(s.Step0), ZI(s.MaxIt))
	case "bfgs":
		n := len(s.X0)
		rows := make([][]float64, n)
		for i := range rows {
			rows[i] = r.H0[i*n : (i+1)*n]
		}
		rt = fmt.Sprintf("RBfgs (mkBf %s %s %s %s %s)", F(s.Eps), ZI(s.MaxIt), B(s.Hook), B(s.Cons), fmat(rows))
	}
	evs := make([]string, len(r.Ev))
	for i, e := range r.Ev {
		evs[i] = coqEv(e)
	}
	return fmt.Sprintf("mkCase (%s) %s\n   [%s]\n   %d %s %s", rt, FList(s.X0), strings.Join(evs, ";\n    "), r.Kind, FList(r.Point), FList(r.X0After))
}

const coqHeader = "From Coq Require Import ZArith List Bool Floats.\nFrom ADV Require Import Base.Num C07.Model C07.ModelNewton C07.ModelNewtonMin C07.ModelSaga C07.ModelBlahut C07.ModelAdamGeneric C07.Corr.\nImport ListNotations.\nOpen Scope Z_scope.\n"

// ---------------------------------------------------------------- generators

func pickF(r *Rng, xs ...float64) float64 { return xs[r.Intn(len(xs))] }

func genPoint(r *Rng, n int) []float64 {
	x := make([]float64, n)
	for i := range x {
		switch r.Pick([]int{6, 2, 1}) {
		case 0:
			x[i] = math.Round((r.Float()*6-3)*1000) / 1000
		case 1:
			x[i] = float64(r.Range(-3, 3))
		default:
			x[i] = 0
		}
	}
	return x
}

// random SPD matrix with bounded condition number: D + small symmetric perturbation, diagonally dominant
func genSPD(r *Rng, n int) []float64 {
	a := make([]float64, n*n)
	for i := 0; i < n; i++ {
		for j := 0; j < i; j++ {
			v := math.Round((r.Float()-0.5)*100) / 100
			a[i*n+j], a[j*n+i] = v, v
		}
	}
	for i := 0; i < n; i++ {
		s := 0.0
		for j := 0; j < n; j++ {
			if j != i {
				s += math.Abs(a[i*n+j])
			}
		}
		a[i*n+i] = s + pickF(r, 0.5, 1, 2, 4, 10)
	}
	return a
}

func genObj(r *Rng, n int) ObjSpec {
	o := ObjSpec{N: n, ErrAfter: -1, NaNAfter: -1}
	switch r.Pick([]int{5, 2, 3}) {
	case 0:
		o.Kind = "quad"
		o.A = genSPD(r, n)
		o.B = genPoint(r, n)
	case 1:
		o.Kind = "rosen"
		o.A = []float64{pickF(r, 1, 0.5, 2)}
		o.B = []float64{pickF(r, 1, 10, 100)}
	default:
		o.Kind = "sep"
		o.C, o.D, o.E = make([]float64, n), genPoint(r, n), make([]float64, n)
		for i := 0; i < n; i++ {
			if r.Intn(6) == 0 {
				continue // flat coordinate: derivative exactly 0
			}
			o.C[i] = pickF(r, 0.5, 1, 2, 5)
			o.E[i] = pickF(r, 0, 0, 0.1, 1)
		}
	}
	switch r.Pick([]int{16, 2, 2, 2}) {
	case 1:
		o.ErrAfter = r.Range(0, 8)
	case 2:
		o.NaNAfter = r.Range(0, 8)
	case 3:
		o.ErrAbove = pickF(r, 2.5, 3.5, 5)
	}
	return o
}

func genBox(r *Rng, s *Spec) {
	n := len(s.X0)
	s.Cons = true
	s.Lo, s.Hi = make([]float64, n), make([]float64, n)
	for i := 0; i < n; i++ {
		s.Lo[i] = s.X0[i] - pickF(r, 0, 0.25, 1, 4, 100)
		s.Hi[i] = s.X0[i] + pickF(r, 0, 0.25, 1, 4, 100)
	}
	if r.Intn(12) == 0 { // box that excludes the start point
		s.Lo[0] = s.X0[0] + 0.5
		s.Hi[0] = s.X0[0] + 1.5
	}
}

func genSpec(r *Rng) Spec {
	s := Spec{StopAt: -1, Cap: 600}
	switch r.Pick([]int{4, 3, 3, 4, 5, 3, 2}) {
	case 6:
		s.Routine = "adam_generic"
	case 5:
		s.Routine = "adam"
	case 0:
		s.Routine = "rprop"
	case 1:
		s.Routine = "rprop_dense"
	case 2:
		s.Routine = "gd"
	case 3:
		s.Routine = "ls"
	default:
		s.Routine = "bfgs"
	}
	n := 1 + r.Pick([]int{5, 5, 3, 1, 1})
	if s.Routine == "ls" {
		n = 1
	}
	s.X0 = genPoint(r, n)
	s.Obj = genObj(r, n)
	s.Eps = pickF(r, 1e-1, 1e-2, 1e-4, 1e-6, 1e-8, 0)
	if s.Obj.Kind == "sep" && r.Intn(6) == 0 {
		// boundary of the stop test: start exactly at the minimiser (gradient exactly 0) with epsilon 0
		s.X0 = append([]float64{}, s.Obj.D...)
		s.Eps = 0
	}
	s.Hook = r.Intn(10) < 6
	if s.Hook && r.Intn(4) == 0 {
		s.StopAt = r.Range(0, 9)
	}
	switch s.Routine {
	case "rprop", "rprop_dense":
		s.Step0 = pickF(r, 0.001, 0.01, 0.1, 0.5)
		s.Eta0 = pickF(r, 1.1, 1.2, 1.5, 2)
		s.Eta1 = pickF(r, 0.1, 0.5, 0.9)
		s.MaxIt = r.Pick([]int{1, 1, 1, 3, 6, 6, 6}) // index -> below
		s.MaxIt = []int{-1, 0, 1, 3, 10, 25, 40}[s.MaxIt]
		if r.Intn(3) == 0 {
			genBox(r, &s)
		}
	case "adam", "adam_generic":
		s.Step0 = 0.001
		if s.Routine == "adam_generic" {
			s.Step0 = pickF(r, 0.001, 0.01, 0.1)
		}
		s.Eta0 = pickF(r, 0.9, 0.9, 0.5, 0)
		s.Eta1 = pickF(r, 0.999, 0.999, 0.9, 0.5)
		s.MaxIt = []int{-1, 0, 1, 2, 5, 20, 60, 60}[r.Intn(8)]
		if r.Intn(3) == 0 {
			genBox(r, &s)
		}
		if r.Intn(3) == 0 { // close enough to the minimiser to pass the stop test within the cap
			s.Eps = pickF(r, 1, 10)
		}
	case "gd":
		s.Step0 = pickF(r, 0.01, 0.05, 0.1, 0.3)
		s.Hook = true
		if s.StopAt < 0 || r.Intn(2) == 0 {
			s.StopAt = r.Range(0, 40)
		}
		if s.Eps != 0 && r.Intn(2) == 0 { // long enough to reach the stop test
			s.StopAt = r.Range(40, 80)
			s.Eps = pickF(r, 1e-1, 1e-2)
		}
		if r.Intn(15) == 0 {
			s.Step0 = pickF(r, 3, 50) // diverges: panic path
			s.StopAt = 300
		}
		s.Cap = 400
	case "ls":
		s.Obj = ObjSpec{Kind: "poly", N: 1, ErrAfter: -1, NaNAfter: -1}
		s.Obj.C = []float64{math.Round(r.Float()*100) / 10, -pickF(r, 0.1, 1, 3, 10, -1), pickF(r, 0, 0.5, 1, 5), pickF(r, 0, 0, -0.3, 0.2), pickF(r, 0, 0, 0.05, 1)}
		switch r.Pick([]int{16, 2, 2}) {
		case 1:
			s.Obj.ErrAfter = r.Range(0, 5)
		case 2:
			s.Obj.NaNAfter = r.Range(0, 5)
		}
		s.X0 = []float64{0}
		s.Step0 = pickF(r, 1, 1, 0.5, 2, 0.1, 10, 100, 0)
		s.MaxIt = []int{-1, 0, 1, 2, 3, 5, 20, 20, 20, 100}[r.Intn(10)]
		if r.Intn(3) == 0 {
			s.Cons = true
			s.Lo = []float64{pickF(r, 0, 0, 0, -1, 0.3)}
			s.Hi = []float64{pickF(r, 0.05, 0.3, 0.7, 1, 5, 1000)}
		}
	case "bfgs":
		s.MaxIt = []int{-1, 0, 1, 2, 4, 8, 12, 12}[r.Intn(8)]
		if r.Intn(5) < 2 {
			s.Hess = genSPD(r, n)
		}
		if r.Intn(4) == 0 {
			genBox(r, &s)
		}
	}
	return s
}

// non-triviality rule: the run got past the start point (>= 3 objective calls) and
// ended through the stop test, the hook or the cap
func nontrivial(r *Run) bool {
	ne := 0
	for _, e := range r.Ev {
		if e.K == "eval" || e.K == "evalv" || e.K == "evalm" || e.K == "sev" || e.K == "bstep" {
			ne++
		}
	}
	return ne >= 3 && (r.Kind == 0 || r.Kind == 1)
}

func loadSpecs(path string) []Spec {
	var out []Spec
	b, err := os.ReadFile(path)
	if err != nil {
		return out
	}
	for _, ln := range strings.Split(string(b), "\n") {
		ln = strings.TrimSpace(ln)
		if ln == "" || strings.HasPrefix(ln, "#") {
			continue
		}
		var w struct {
			Spec *Spec `json:"spec"`
		}
		var s Spec
		if json.Unmarshal([]byte(ln), &w) == nil && w.Spec != nil {
			out = append(out, *w.Spec)
		} else if json.Unmarshal([]byte(ln), &s) == nil && s.Routine != "" {
			out = append(out, s)
		}
	}
	return out
}

func addCase(w *CaseWriter, s *Spec, r *Run) {
	ne, nh, nc, nd, np := 0, 0, 0, 0, 0
	for _, e := range r.Ev {
		switch e.K {
		case "eval", "evalv", "evalm", "sev", "bstep":
			ne++
		case "phi":
			np++
		case "hook", "hookv", "hookm", "shook", "bhook":
			nh++
		case "dir":
			nd++
		default:
			nc++
		}
	}
	kinds := map[int]string{0: "ok", 1: "hookstop", 2: "error", 3: "panic", 20: "err_initial", 21: "err_objective",
		22: "err_nan", 23: "err_direction", 24: "err_linesearch", 25: "err_linesearch_run"}
	w.Count("routine:" + s.Routine)
	w.Count("routine:" + s.Routine + ":" + kinds[r.Kind])
	if isNewtonMin(s.Routine) {
		w.CountN("events:phi", np)
	}
	if isNewton(s.Routine) || isNewtonMin(s.Routine) {
		w.Count("newton_mode:" + s.Mode)
		w.CountN("events:dir", nd)
		countDirections(w, s, r)
		if r.Kind == 3 {
			m := r.PanicMsg
			if len(m) > 48 {
				m = m[:48]
			}
			w.Count("newton_panic:" + m)
		}
		if r.Kind == 24 {
			w.Count(fmt.Sprintf("newton_backtrack_exhausted_after_rejections:%v", nc > 1))
		}
	}
	w.Count(fmt.Sprintf("dim:%d", len(s.X0)))
	w.Count("objective:" + s.Obj.Kind)
	if s.Cons {
		w.Count("with_constraints")
	}
	if s.Hook {
		w.Count("with_hook")
	}
	if s.Obj.ErrAfter >= 0 || s.Obj.NaNAfter >= 0 || s.Obj.ErrAbove != 0 {
		w.Count("failure_injection")
	}
	w.CountN("events:eval", ne)
	w.CountN("events:hook", nh)
	w.CountN("events:cons", nc)
	key := fmt.Sprintf("%s|%s|%d|%d|%d|%v", s.Routine, s.Obj.Kind, len(s.X0), r.Kind, len(r.Ev), r.Point)
	raw := map[string]interface{}{"spec": s, "kind": r.Kind, "events": len(r.Ev)}
	w.Add(coqCase(s, r), raw, key, nontrivial(r))
}

func main() {
	o := ParseFlags()
	if o.Extra == "hunt" {
		hunt(o)
		return
	}
	if o.Replay != "" {
		replay(o)
		return
	}
	perShard := 12
	w := NewCaseWriter(o.Out, "cases", coqHeader, "mism", perShard)
	w.Type = "case"
	w.Rule = "run made >= 3 objective calls and ended by stop test, hook or cap; key = routine|objective|dim|kind|#events|point"
	// corpus first
	if o.Extra != "" {
		for _, s := range loadSpecs(o.Extra) {
			s := s
			r := runSpec(&s)
			if r.Dropped != "" {
				w.Count("corpus_dropped:" + r.Dropped)
				continue
			}
			w.Count("corpus")
			addCase(w, &s, r)
		}
	}
	rng := NewRng(o.Seed)
	for tries := 0; w.Len() < o.N+0 && tries < 20*o.N+100; tries++ {
		var s Spec
		if only := os.Getenv("C07_ONLY"); only != "" { // debugging aid: one generator only
			s = genOnly(only, rng.Split())
		} else if tries%13 < 3 {
			s = genNewtonSpec(rng.Split())
		} else if tries%13 < 5 {
			s = genNewtonMinSpec(rng.Split())
		} else if tries%13 < 7 {
			s = genSagaSpec(rng.Split())
		} else if tries%13 < 8 {
			s = genBlahutSpec(rng.Split())
		} else {
			s = genSpec(rng.Split())
		}
		if os.Getenv("C07_DEBUG") != "" {
			jb, _ := json.Marshal(s)
			fmt.Fprintf(os.Stderr, "%s\n", jb)
		}
		r := runSpec(&s)
		if r.Dropped != "" {
			w.Count("dropped:" + r.Dropped)
			continue
		}
		addCase(w, &s, r)
	}
	// round 7 streams (appended, own generators: the cases above are unchanged by them):
	// the Norm users in every dimension 1..12 with one slow coordinate, and saga with the
	// built-in regularisation options on well conditioned data
	if os.Getenv("C07_ONLY") == "" {
		nNorm, nReg := 60, 24
		if o.N > 2000 {
			nNorm, nReg = 240, 96
		}
		r7 := NewRng(o.Seed ^ 0x7c07)
		for i, got := 0, 0; got < nNorm+nReg && i < 4*(nNorm+nReg); i++ {
			var s Spec
			if got < nNorm {
				s = normStreamSpec(r7.Split(), got, false)
			} else {
				s = genSagaRegSpec(r7.Split())
			}
			r := runSpec(&s)
			if r.Dropped != "" {
				w.Count("dropped:" + r.Dropped)
				if got < nNorm {
					got++ // keep the (dimension, routine) cycle aligned
				}
				continue
			}
			if got < nNorm {
				w.Count(fmt.Sprintf("r7_normdim:dim%d", len(s.X0)))
				w.Count("r7_normdim:" + s.Routine + ":" + map[int]string{0: "ok", 1: "hookstop", 2: "error", 3: "panic"}[r.Kind])
			} else {
				w.Count("r7_sagareg:" + s.Mode)
			}
			addCase(w, &s, r)
			got++
		}
	}
	if err := w.Flush(); err != nil {
		Die("flush: %v", err)
	}
	fmt.Printf("c07: %d cases, %d distinct non-trivial\n", w.Len(), len(w.Nontriv))
}

// replay: re-execute the spec(s) of a replay file, write replay_0.v and the property verdict
func replay(o Opts) {
	b, err := os.ReadFile(o.Replay)
	if err != nil {
		Die("replay: %v", err)
	}
	var rp struct {
		Case struct {
			Spec *Spec `json:"spec"`
		} `json:"case"`
		Spec *Spec `json:"spec"`
	}
	if err := json.Unmarshal(b, &rp); err != nil {
		Die("replay: %v", err)
	}
	s := rp.Spec
	if s == nil {
		s = rp.Case.Spec
	}
	if s == nil {
		Die("replay file has no spec")
	}
	r := runSpec(s)
	w := NewCaseWriter(o.Out, "replay", coqHeader, "mism", 50)
	w.Type = "case"
	if r.Dropped == "" {
		addCase(w, s, r)
	}
	w.Flush()
	fails := propertyOracle(s, r)
	res := map[string]interface{}{"dropped": r.Dropped, "failures": fails, "kind": r.Kind, "point": fmt.Sprint(r.Point), "panic": r.PanicMsg}
	jb, _ := json.MarshalIndent(res, "", " ")
	os.WriteFile(filepath.Join(o.Out, "replay_oracle.json"), jb, 0644)
}

func genOnly(which string, r *Rng) Spec {
	switch which {
	case "newton":
		return genNewtonSpec(r)
	case "nmin":
		return genNewtonMinSpec(r)
	case "saga":
		return genSagaSpec(r)
	case "blahut":
		return genBlahutSpec(r)
	case "normdim":
		i := r.Intn(60)
		return normStreamSpec(r, i, false)
	case "sagareg":
		return genSagaRegSpec(r)
	}
	return genSpec(r)
}
