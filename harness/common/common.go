// Package common: deterministic RNG, Coq literal printers and the case-file
// writer shared by all correspondence harnesses.
package common

import (
	"encoding/json"
	"flag"
	"fmt"
	"math"
	"os"
	"path/filepath"
	"sort"
	"strings"
)

// ---------------------------------------------------------------- RNG

// SplitMix64: every random choice of a run derives from one state.
type Rng struct{ s uint64 }

func NewRng(seed uint64) *Rng { return &Rng{s: seed*0x9E3779B97F4A7C15 + 0x1234567} }
func (r *Rng) U64() uint64 {
	r.s += 0x9E3779B97F4A7C15
	z := r.s
	z = (z ^ (z >> 30)) * 0xBF58476D1CE4E5B9
	z = (z ^ (z >> 27)) * 0x94D049BB133111EB
	return z ^ (z >> 31)
}
func (r *Rng) Intn(n int) int {
	if n <= 0 {
		return 0
	}
	return int(r.U64() % uint64(n))
}
func (r *Rng) Range(lo, hi int) int { return lo + r.Intn(hi-lo+1) } // inclusive
func (r *Rng) Bool() bool           { return r.U64()&1 == 1 }
func (r *Rng) Float() float64       { return float64(r.U64()>>11) / float64(1<<53) }
func (r *Rng) Split() *Rng          { return &Rng{s: r.U64()} }
func (r *Rng) Pick(weights []int) int {
	t := 0
	for _, w := range weights {
		t += w
	}
	x := r.Intn(t)
	for i, w := range weights {
		if x < w {
			return i
		}
		x -= w
	}
	return len(weights) - 1
}

// ---------------------------------------------------------------- Coq literals

func Z(i int64) string {
	if i < 0 {
		return fmt.Sprintf("(%d)", i)
	}
	return fmt.Sprintf("%d", i)
}
func ZI(i int) string { return Z(int64(i)) }
func B(b bool) string {
	if b {
		return "true"
	}
	return "false"
}
func ZList(xs []int64) string {
	s := make([]string, len(xs))
	for i, x := range xs {
		s[i] = Z(x)
	}
	return "[" + strings.Join(s, "; ") + "]"
}
func ZListI(xs []int) string {
	s := make([]string, len(xs))
	for i, x := range xs {
		s[i] = ZI(x)
	}
	return "[" + strings.Join(s, "; ") + "]"
}
func List(xs []string) string { return "[" + strings.Join(xs, "; ") + "]" }

// F prints a float64 as a Coq primitive-float expression that is bit-exact:
// hexadecimal literal for finite values, named constants otherwise.
func F(x float64) string {
	switch {
	case math.IsNaN(x):
		return "nan"
	case math.IsInf(x, 1):
		return "infinity"
	case math.IsInf(x, -1):
		return "neg_infinity"
	case x == 0 && math.Signbit(x):
		return "(-0)%float"
	case x == 0:
		return "0%float"
	}
	s := fmt.Sprintf("%x", x) // e.g. -0x1.8p+01
	if x < 0 {
		return "(" + s + ")%float"
	}
	return s + "%float"
}
func FList(xs []float64) string {
	s := make([]string, len(xs))
	for i, x := range xs {
		s[i] = F(x)
	}
	return "[" + strings.Join(s, "; ") + "]"
}

// Q prints a float64 as an exact rational Coq term (Z numerator # positive denominator)
// usable with QArith: the value m * 2^e.
func Q(x float64) string {
	if x == 0 {
		return "(0#1)"
	}
	fr, e := math.Frexp(x) // x = fr * 2^e, 0.5<=|fr|<1
	m := int64(fr * (1 << 53))
	e -= 53
	for m%2 == 0 && e < 0 {
		m /= 2
		e++
	}
	if e >= 0 {
		return fmt.Sprintf("((%d * 2^%d)#1)", m, e)
	}
	return fmt.Sprintf("(%s # (2^%d))", Z(m), -e)
}

// ---------------------------------------------------------------- run options

type Opts struct {
	Seed   uint64
	N      int
	Out    string
	Tier   string
	Replay string
	Extra  string
}

func ParseFlags() Opts {
	var o Opts
	flag.Uint64Var(&o.Seed, "seed", 1, "seed")
	flag.IntVar(&o.N, "n", 100, "number of cases")
	flag.StringVar(&o.Out, "out", ".", "output directory")
	flag.StringVar(&o.Tier, "tier", "quick", "quick|thorough")
	flag.StringVar(&o.Replay, "replay", "", "replay file (json)")
	flag.StringVar(&o.Extra, "extra", "", "free-form extra argument")
	flag.Parse()
	return o
}

// ---------------------------------------------------------------- case writer

// CaseWriter collects cases (as Coq terms plus a JSON form for replay files),
// shards them into cases_<k>.v files and writes meta.json.
type CaseWriter struct {
	Dir      string
	Name     string   // file stem, e.g. "cases"
	Header   string   // Coq imports
	Type     string   // Coq type of a case (for the list annotation), may be ""
	MismFn   string   // Coq function: list case -> list nat
	PerShard int
	coq      []string
	raw      []interface{}
	Hist     map[string]int
	Samples  []interface{}
	Nontriv  map[string]bool
	Rule     string
	Extra    map[string]interface{}
}

func NewCaseWriter(dir, name, header, mismFn string, perShard int) *CaseWriter {
	return &CaseWriter{Dir: dir, Name: name, Header: header, MismFn: mismFn, PerShard: perShard,
		Hist: map[string]int{}, Nontriv: map[string]bool{}, Extra: map[string]interface{}{}}
}

// Add registers one case. key: structural key for distinctness; nontrivial: by the property's rule.
func (w *CaseWriter) Add(coqTerm string, raw interface{}, key string, nontrivial bool) {
	w.coq = append(w.coq, coqTerm)
	w.raw = append(w.raw, raw)
	if nontrivial {
		w.Nontriv[key] = true
	}
	if len(w.Samples) < 3 {
		w.Samples = append(w.Samples, raw)
	}
}
func (w *CaseWriter) Count(k string) { w.Hist[k]++ }
func (w *CaseWriter) CountN(k string, n int) { w.Hist[k] += n }
func (w *CaseWriter) Len() int        { return len(w.coq) }

func (w *CaseWriter) Flush() error {
	if err := os.MkdirAll(w.Dir, 0755); err != nil {
		return err
	}
	nsh := 0
	for start := 0; start < len(w.coq); start += w.PerShard {
		end := start + w.PerShard
		if end > len(w.coq) {
			end = len(w.coq)
		}
		var sb strings.Builder
		sb.WriteString(w.Header)
		sb.WriteString("\nDefinition cases")
		if w.Type != "" {
			sb.WriteString(" : list (" + w.Type + ")")
		}
		sb.WriteString(" := [\n")
		for i := start; i < end; i++ {
			sb.WriteString("  ")
			sb.WriteString(w.coq[i])
			if i != end-1 {
				sb.WriteString(";")
			}
			sb.WriteString("\n")
		}
		sb.WriteString("].\n")
		sb.WriteString("Definition M := Eval vm_compute in (" + w.MismFn + " cases).\nPrint M.\n")
		fn := filepath.Join(w.Dir, fmt.Sprintf("%s_%d.v", w.Name, nsh))
		if err := os.WriteFile(fn, []byte(sb.String()), 0644); err != nil {
			return err
		}
		nsh++
	}
	// raw cases for replay construction
	rawf, err := os.Create(filepath.Join(w.Dir, w.Name+".jsonl"))
	if err != nil {
		return err
	}
	enc := json.NewEncoder(rawf)
	for _, r := range w.raw {
		enc.Encode(r)
	}
	rawf.Close()
	keys := make([]string, 0, len(w.Hist))
	for k := range w.Hist {
		keys = append(keys, k)
	}
	sort.Strings(keys)
	meta := map[string]interface{}{
		"name": w.Name, "evaluations": len(w.coq), "distinct_nontrivial": len(w.Nontriv),
		"rule": w.Rule, "samples": w.Samples, "histogram": w.Hist, "shards": nsh,
		"per_shard": w.PerShard, "extra": w.Extra,
	}
	b, _ := json.MarshalIndent(meta, "", " ")
	return os.WriteFile(filepath.Join(w.Dir, w.Name+".meta.json"), b, 0644)
}

func Die(format string, a ...interface{}) {
	fmt.Fprintf(os.Stderr, format+"\n", a...)
	os.Exit(2)
}
