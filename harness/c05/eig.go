// Round 6 stream.
//
//	ecases (C05.CorrEig.emism): eigensystem.Run recomputed as a WHOLE inside Coq by the model of
//	       C05.ModelEig (Francis QR algorithm of C05.ModelIter, then getEigenvalues, one back substitution
//	       per eigenvector, U*x, normalisation, insertion sort, column interchanges), bit for bit:
//	       eigenvalues, eigenvectors and what the call leaves in inSitu.QrAlgorithm.H.
//	       Options: ComputeEigenvectors, Symmetric, qrAlgorithm.Epsilon (passed through), Float64 / Real64;
//	       modes: fresh (no InSitu), insitu (empty InSitu, H read back), buffer (caller-supplied non-zero
//	       Eigenvalues / Eigenvectors buffers: the stale-entry mechanism of F-EIG-INSITU-REUSE is part of the
//	       model; without ComputeEigenvectors the buffer is ignored), history (one InSitu, run on M1 first, then on M).
//	       backSubstitution.Run on its own (upper triangular and full matrices).
package main

import (
	"encoding/json"
	"fmt"
	"strings"
	"time"

	. "adharness/common"

	"github.com/pbenner/autodiff/algorithm/backSubstitution"
	"github.com/pbenner/autodiff/algorithm/eigensystem"
	"github.com/pbenner/autodiff/algorithm/qrAlgorithm"
)

const egHeader = "From Coq Require Import String List ZArith Floats.\nFrom ADV Require Import C05.CorrEig.\nImport ListNotations.\nOpen Scope string_scope.\n"

type EigIn struct {
	Kind   string    `json:"kind"` // eig | backsub
	Mode   string    `json:"mode"` // fresh | insitu | buffer | history
	M      *FM       `json:"m"`
	M1     *FM       `json:"m1,omitempty"`
	CE     bool      `json:"ce,omitempty"`
	CE1    bool      `json:"ce1,omitempty"`
	Sym    bool      `json:"sym,omitempty"`
	Eps    float64   `json:"eps,omitempty"`
	Path   string    `json:"path,omitempty"`
	Family string    `json:"family,omitempty"`
	B      []string  `json:"b,omitempty"` // backsub: right hand side (hex)
	b      []float64
}

type EigRaw struct {
	In      *EigIn `json:"in"`
	Outcome string `json:"outcome,omitempty"`
}

func (h *EigIn) path() string {
	if h.Path == "" {
		return "f64"
	}
	return h.Path
}

func (h *EigIn) key() string {
	k := fmt.Sprintf("%s|%s|%v|%v|%v|%g|%s|%dx%d|%s|%s", h.Kind, h.Mode, h.CE, h.CE1, h.Sym, h.Eps, h.path(),
		h.M.R, h.M.C, strings.Join(HexList(h.M.V), ","), strings.Join(h.B, ","))
	if h.M1 != nil {
		k += "|" + strings.Join(HexList(h.M1.V), ",")
	}
	return k
}

type eigOut struct {
	Status string // ok | error | panic: .. | timeout
	Vals   []float64
	Vecs   *FM
	Ev0    []float64 // content of the Eigenvalues buffer before the decisive call
	E0     *FM       // content of the Eigenvectors buffer before the decisive call (nil: none / linked to U)
	H      *FM       // inSitu.QrAlgorithm.H after the call (nil: no InSitu)
}

func eigCall(h *EigIn, m *FM, ce bool, is *eigensystem.InSitu) (o *eigOut) {
	o = &eigOut{Status: "ok"}
	defer func() {
		if r := recover(); r != nil {
			o.Status = "panic: " + fmt.Sprint(r)
		}
	}()
	args := []interface{}{eigensystem.ComputeEigenvectors{Value: ce}}
	if h.Sym {
		args = append(args, eigensystem.Symmetric{Value: true})
	}
	if h.Eps != 0 {
		args = append(args, qrAlgorithm.Epsilon{Value: h.Eps})
	}
	if is != nil {
		args = append(args, is)
	}
	e, v, err := eigensystem.Run(MkMat(h.path(), m), args...)
	if err != nil {
		o.Status = "error"
		return
	}
	o.Vals = ReadVec(e)
	if v != nil {
		o.Vecs = ReadMat(v)
	}
	if is != nil && is.QrAlgorithm.H != nil {
		o.H = ReadMat(is.QrAlgorithm.H)
	}
	return
}

func eigRun(h *EigIn) *eigOut {
	ch := make(chan *eigOut, 1)
	go func() {
		n := h.M.R
		var is *eigensystem.InSitu
		ev0 := make([]float64, n)
		var e0 *FM
		if h.Mode != "fresh" {
			is = &eigensystem.InSitu{}
			is.QrAlgorithm.InitializeH = true
		}
		if h.Mode == "buffer" {
			is.Eigenvalues = garbageVec(h.path(), n)
			is.Eigenvectors = histGarbage(h.path(), n, n, 2.75)
		}
		if h.Mode == "history" {
			first := eigCall(h, h.M1, h.CE1, is)
			if first.Status != "ok" {
				ch <- &eigOut{Status: "first-run-" + first.Status}
				return
			}
		}
		if is != nil {
			if is.Eigenvalues != nil {
				ev0 = ReadVec(is.Eigenvalues)
			}
			if is.Eigenvectors != nil {
				e0 = ReadMat(is.Eigenvectors)
				// a buffer allocated by a symmetric first run that computed eigenvectors stays LINKED to the
				// accumulator (inSitu.QrAlgorithm.U == inSitu.Eigenvectors): the Hessenberg reduction resets it
				// to the identity, exactly as for a freshly allocated one (E0 = None in the model)
				if h.Sym && h.CE && is.QrAlgorithm.U == is.Eigenvectors {
					e0 = nil
				}
			}
		}
		o := eigCall(h, h.M, h.CE, is)
		o.Ev0, o.E0 = ev0, e0
		ch <- o
	}()
	select {
	case o := <-ch:
		return o
	case <-time.After(histDeadline):
		hung++
		return &eigOut{Status: "timeout"}
	}
}

func addEig(w *CaseWriter, h *EigIn) {
	w.Count("kind:" + h.Kind)
	w.Count(fmt.Sprintf("size:%d", h.M.R))
	if h.Kind == "backsub" {
		addBacksub(w, h)
		return
	}
	w.Count("mode:" + h.Mode)
	w.Count("family:" + h.Family)
	w.Count("path:" + h.path())
	w.Count(fmt.Sprintf("options:ce=%v,sym=%v", h.CE, h.Sym))
	if h.Eps != 0 {
		w.Count("explicit-epsilon")
	}
	if h.M.R > 12 {
		w.Count("outcome:skipped(n > 12: sort.Sort is not insertion sort)")
		return
	}
	// eigensystem.Run forwards qrAlgorithm.Epsilon (/repo ec5730f): the requested epsilon reaches the QR algorithm
	eps := h.Eps
	if eps == 0 {
		eps = trSymEpsilonDefault
	}
	if !histConverges("qr", h.M, eps) || (h.Mode == "history" && !histConverges("qr", h.M1, eps)) {
		w.Count("outcome:skeleton-cap(library not called)")
		return
	}
	o := eigRun(h)
	raw := EigRaw{In: h, Outcome: o.Status}
	nontriv := h.M.R >= 2
	fuel := traceSweepCap(h.M.R)
	if o.Status == "timeout" {
		w.Count("outcome:timeout")
		w.Add(fmt.Sprintf("(EFail %q)", "eigensystem.Run did not return although the lock-step skeleton of the QR algorithm converged ("+h.Mode+")"),
			raw, h.key(), nontriv)
		return
	}
	if strings.HasPrefix(o.Status, "first-run") || o.Status == "error" {
		w.Count("outcome:" + o.Status)
		return
	}
	req := "None"
	if h.Eps != 0 {
		req = "(Some " + F(h.Eps) + ")"
	}
	head := fmt.Sprintf("%d %s %s %s %s %s %s %s", fuel, F(trSymEpsilonDefault), req, B(h.CE), B(h.Sym), CoqMat(h.M), FList(o.Ev0), CoqOptMat(o.E0))
	if strings.HasPrefix(o.Status, "panic") {
		w.Count("outcome:panic")
		raw.Outcome = "panic"
		w.Add("(EEigPanic "+head+")", raw, h.key(), nontriv)
		return
	}
	w.Count("outcome:value")
	if h.Eps != 0 && epsilonMatters(h) {
		// the requested epsilon changes what qrAlgorithm.Run returns on this input: eigensystem.Run must not
		// return what it returns without the option (regression of the repaired F-EIG-EPSILON-DROPPED)
		w.Count("epsilon:matters-for-this-input")
		h0 := *h
		h0.Eps = 0
		if o0 := eigRun(&h0); o0.Status == "ok" && SameVec(o0.Vals, o.Vals) && SameFM(o0.Vecs, o.Vecs) {
			w.Count("epsilon-IGNORED:result-equals-run-without-option")
			raw.Outcome = "epsilon-ignored"
			w.Add(fmt.Sprintf("(EFail %q)", "eigensystem.Run ignores the requested qrAlgorithm.Epsilon: the result is bit-equal to the run without the option although the option changes the Schur form"),
				raw, h.key(), nontriv)
			return
		}
		w.Count("epsilon:honoured")
	}
	for i := 0; i+1 < len(o.Vals); i++ {
		if o.Vals[i] == o.Vals[i+1] || o.Vals[i] == -o.Vals[i+1] {
			w.Count("sort:tie-in-magnitude")
			break
		}
	}
	if o.Vecs != nil && !o.Vecs.Finite() {
		w.Count("eigenvectors:non-finite")
	}
	w.Add(fmt.Sprintf("(EEig %s %s %s %s)", head, FList(o.Vals), CoqOptMat(o.Vecs), CoqOptMat(o.H)), raw, h.key(), nontriv)
}

// epsilonMatters: qrAlgorithm.Run(M, Epsilon{h.Eps}) and qrAlgorithm.Run(M) return different Schur forms
func epsilonMatters(h *EigIn) (differs bool) {
	if !histConverges("qr", h.M, h.Eps) {
		return false
	}
	defer func() {
		if r := recover(); r != nil {
			differs = false
		}
	}()
	h1, _, err1 := qrAlgorithm.Run(MkMat(h.path(), h.M), qrAlgorithm.Epsilon{Value: h.Eps})
	h2, _, err2 := qrAlgorithm.Run(MkMat(h.path(), h.M))
	if err1 != nil || err2 != nil {
		return false
	}
	return !SameFM(ReadMat(h1), ReadMat(h2))
}

func addBacksub(w *CaseWriter, h *EigIn) {
	if h.b == nil {
		h.b = UnhexList(h.B)
	}
	var x []float64
	status := "ok"
	func() {
		defer func() {
			if r := recover(); r != nil {
				status = "panic: " + fmt.Sprint(r)
			}
		}()
		v, err := backSubstitution.Run(MkMat(h.path(), h.M), MkVec(h.path(), h.b))
		if err != nil {
			status = "error"
			return
		}
		x = ReadVec(v)
	}()
	w.Count("outcome:" + strings.SplitN(status, ":", 2)[0])
	raw := EigRaw{In: h, Outcome: status}
	if status != "ok" {
		w.Add(fmt.Sprintf("(EFail %q)", "backSubstitution.Run: "+status), raw, h.key(), true)
		return
	}
	w.Add(fmt.Sprintf("(EBacksub %s %s %s)", CoqMat(h.M), FList(h.b), FList(x)), raw, h.key(), h.M.R >= 2)
}

// ---------------------------------------------------------------- generators

// matrices with a real spectrum and ties / sign pairs in magnitude (the sort's corner cases):
// Q-free: upper triangular with a prescribed diagonal plus a tiny dense perturbation is avoided (it would
// split ties); exactly triangular inputs keep the diagonal as eigenvalues bit for bit.
func eigTriangular(r *Rng, n int, diag []float64) *FM {
	a := NewFM(n, n)
	for i := 0; i < n; i++ {
		a.Set(i, i, diag[i])
		for j := i + 1; j < n; j++ {
			a.Set(i, j, float64(r.Range(-4, 4))/2)
		}
	}
	return a
}

func genEig(r *Rng, idx, maxn int) *EigIn {
	h := &EigIn{Kind: "eig", Path: "f64", CE: true}
	var a *FM
	switch idx % 8 {
	case 0, 1: // real, separated spectrum, general
		t := genTraceQR(r.Split(), 2, maxn)
		a, h.Family = t.M, "near-triangular"
	case 2: // dense: complex pairs are the rule
		t := genTraceQR(r.Split(), 0, maxn)
		a, h.Family = t.M, "dense-float"
	case 3: // symmetric input
		t := genTraceSym(r.Split(), idx/8, maxn)
		a, h.Family = t.M, "symmetric/"+t.Family
	case 4: // exactly triangular, eigenvalues of both signs in random order (the sort moves every column)
		n := r.Range(2, maxn)
		d := make([]float64, n)
		for i := range d {
			d[i] = float64(r.Range(1, 40)) / 4
			if r.Bool() {
				d[i] = -d[i]
			}
		}
		a, h.Family = eigTriangular(r, n, d), "triangular-mixed-signs"
	case 5: // exactly triangular with ties in magnitude (+x / -x) and a repeated eigenvalue
		n := r.Range(3, maxn)
		d := make([]float64, n)
		for i := range d {
			d[i] = float64(r.Range(1, 9))
		}
		d[r.Intn(n)] = -d[r.Intn(n)]
		if r.Intn(3) == 0 {
			d[n-1] = d[0]
		}
		a, h.Family = eigTriangular(r, n, d), "triangular-ties"
	case 6: // block structure: a 2x2 complex block next to real eigenvalues
		t := genTraceQR(r.Split(), 3, maxn)
		a, h.Family = t.M, "block-diagonal"
	default:
		t := genTraceQR(r.Split(), 4+idx%2, maxn)
		a, h.Family = t.M, t.Family
	}
	h.M = a.Pack()
	n := a.R
	h.Mode = []string{"insitu", "fresh", "buffer", "insitu", "history", "insitu", "history"}[idx%7]
	if strings.HasPrefix(h.Family, "symmetric") {
		h.Sym = idx%16 < 12
	}
	h.CE = idx%5 != 3
	h.CE1 = idx%3 != 1
	if h.Mode == "history" {
		var m1 *FM
		if h.Sym {
			m1 = symmetrize(randFloat(r, n, n, 2))
		} else {
			m1 = genTraceQR(r.Split(), 2, n).M
			for m1.R != n {
				m1 = genTraceQR(r.Split(), 2, n).M
			}
		}
		h.M1 = m1.Pack()
	}
	if idx%4 == 3 {
		h.Path = "r64"
	}
	switch idx % 9 {
	case 4:
		h.Eps = 1e-12
	case 7:
		h.Eps = 1e-8
	}
	return h
}

func genBacksub(r *Rng, idx int) *EigIn {
	n := r.Range(1, 6)
	a := randFloat(r, n, n, 2)
	fam := "full"
	if idx%3 != 0 {
		fam = "upper-triangular"
		for i := 0; i < n; i++ {
			for j := 0; j < i; j++ {
				a.Set(i, j, 0)
			}
		}
	}
	if idx%7 == 5 {
		a.Set(r.Intn(n), r.Intn(n), 0) // may hit the diagonal: division by zero is part of the model
	}
	b := make([]float64, n)
	for i := range b {
		b[i] = 4*r.Float() - 2
	}
	h := &EigIn{Kind: "backsub", M: a.Pack(), B: HexList(b), b: b, Family: fam, Path: "f64"}
	if idx%4 == 3 {
		h.Path = "r64"
	}
	return h
}

// minimised witnesses (kept in corpus/C05/eig_witnesses.json as well)
func eigWitnesses() []*EigIn {
	a1 := &FM{R: 3, C: 3, V: []float64{2, 1, 0, 0, 3, 1, 0, 0, 5}}
	a2 := &FM{R: 3, C: 3, V: []float64{1, 2, 3, 0, 4, 5, 0, 0, 7}}
	neg := &FM{R: 3, C: 3, V: []float64{1, 2, 3, 0, -4, 5, 0, 0, 2}}
	return []*EigIn{
		// regression of the repaired F-EIG-INSITU-NOVEC-PANIC (/repo 8cb1afe): a second run without eigenvectors on an
		// InSitu that holds the buffer of the first returns the eigenvalues and nil eigenvectors (it used to panic)
		{Kind: "eig", Mode: "history", M: a2.Clone().Pack(), M1: a1.Clone().Pack(), CE: false, CE1: true, Path: "f64", Family: "regression-novec-recycled-insitu"},
		// F-EIG-INSITU-REUSE as modelled: stale entries below position k of the re-used buffer enter U*b
		{Kind: "eig", Mode: "history", M: a2.Clone().Pack(), M1: a1.Clone().Pack(), CE: true, CE1: true, Path: "f64", Family: "witness-reuse"},
		// regression of the repaired F-EIG-EPSILON-DROPPED (/repo ec5730f): with epsilon 1e-8 the entry 1e-9 is
		// negligible, the eigenvalues are 2, 1 exactly (2.000000001, 0.999999999 when the option is dropped)
		{Kind: "eig", Mode: "fresh", M: (&FM{R: 2, C: 2, V: []float64{1, 1, 1e-9, 2}}).Pack(), CE: true, Eps: 1e-8, Path: "f64", Family: "regression-epsilon-forwarded"},
		// the sort moves every column (|-4| > 2 > 1)
		{Kind: "eig", Mode: "insitu", M: neg.Clone().Pack(), CE: true, Path: "f64", Family: "witness-sort"},
	}
}

// ---------------------------------------------------------------- stream driver

func newEigWriter(o Opts, name string, per int) *CaseWriter {
	w := NewCaseWriter(o.Out, name, egHeader, "emism", per)
	w.Type = "ecase"
	w.Rule = "whole run of eigensystem.Run (or backSubstitution.Run) on a matrix with >= 2 rows that returned a value, recomputed by the model; distinct = distinct (mode, options, epsilon, path, input bits)"
	return w
}

func runEigStream(o Opts) {
	rng := NewRng(o.Seed*1000037 + 91019).Split()
	w := newEigWriter(o, "ecases", 12)
	ne, nb := 64, 24
	if o.Tier == "thorough" {
		ne, nb = 640, 240
	}
	for _, h := range eigWitnesses() {
		w.Count("corpus")
		addEig(w, h)
	}
	for i := 0; i < ne; i++ {
		if hung >= maxHung {
			w.Count("skipped-after-hang-budget")
			continue
		}
		addEig(w, genEig(rng.Split(), i, 6))
	}
	for i := 0; i < nb; i++ {
		addEig(w, genBacksub(rng.Split(), i))
	}
	if err := w.Flush(); err != nil {
		Die("flush: %v", err)
	}
}

// replayEig re-executes a replay file that holds an "ecase" record; returns true if it did.
func replayEig(b []byte, o Opts) bool {
	var rp struct {
		ECase *EigRaw `json:"ecase"`
	}
	if err := json.Unmarshal(b, &rp); err != nil || rp.ECase == nil || rp.ECase.In == nil {
		return false
	}
	c := rp.ECase.In
	c.M.Unpack()
	if c.M1 != nil {
		c.M1.Unpack()
	}
	w := newEigWriter(o, "ereplay", 100)
	addEig(w, c)
	if w.Len() == 0 {
		w.Add(fmt.Sprintf("(EFail %q)", "replayed case produced no value"), rp.ECase, "replay", true)
	}
	if err := w.Flush(); err != nil {
		Die("flush: %v", err)
	}
	return true
}
