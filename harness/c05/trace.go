// Lock-step re-derivation of the step trace of the iterative routines: stream "tcases"
// (C05.CorrTrace.tmism).
//
// The iterative routines of /repo (qrAlgorithm symmetric and unsymmetric, svd) are loops around the
// EXPORTED primitives givensRotation.Run / Apply* and householder.Run / Apply*.  Their calls cannot
// be intercepted without editing /repo, so the trace is RE-DERIVED: the control skeleton of the routine
// (deflation test, split search, shift, loop bounds: everything that decides which primitive is
// called on which data) is re-implemented here statement by statement, calling THE SAME exported
// primitives of /repo on the harness's own copies of the matrices and logging every step.  The
// skeleton's final factors must be BIT-EQUAL to what the library's Run returns on the same input
// ("the routine does nothing to its matrices except these steps"; otherwise the case is a TFail).
// The Coq side (C05.CorrTrace) then
//   - replays the logged steps from the input with the float model of the direct reduction and of
//     each primitive (C05.Model at NumXF) and must reproduce the library's final factors bit for bit,
//   - recomputes every rotation pair (c, s) / reflector (beta, nu) from the replayed state (shifts
//     included) and compares it with the logged one bit for bit,
//   - checks in exact dyadic arithmetic |c^2 + s^2 - 1| <= 8u per rotation, beta = 0 or
//     |beta nu^T nu - 2| <= (16 + 4 len) u per reflector, and the deflation test of every entry
//     that was set to zero.
//
// The library is called only when the skeleton converged within its sweep cap (the routines can hang:
// F-QR-HANG, F-SVD-ZERODIAG-HANG), and under a deadline.
package main

import (
	"encoding/json"
	"fmt"
	"math"
	"strings"
	"time"

	. "adharness/common"

	ad "github.com/pbenner/autodiff"
	"github.com/pbenner/autodiff/algorithm/givensRotation"
	"github.com/pbenner/autodiff/algorithm/hessenbergReduction"
	"github.com/pbenner/autodiff/algorithm/householder"
	"github.com/pbenner/autodiff/algorithm/householderBidiagonalization"
	"github.com/pbenner/autodiff/algorithm/householderTridiagonalization"
	"github.com/pbenner/autodiff/algorithm/qrAlgorithm"
	"github.com/pbenner/autodiff/algorithm/svd"
)

const trHeader = "From Coq Require Import String List ZArith Floats.\nFrom ADV Require Import C05.CorrTrace.\nImport ListNotations.\nOpen Scope string_scope.\n"

// TrIn is the replayable input of one trace case.
type TrIn struct {
	Kind   string `json:"kind"` // symqr | svd | qr
	M      *FM    `json:"m"`
	CU     bool   `json:"cu"`
	CV     bool   `json:"cv,omitempty"`
	Family string `json:"family,omitempty"`
}

type TrRaw struct {
	In      *TrIn  `json:"in"`
	Outcome string `json:"outcome,omitempty"`
	Steps   int    `json:"steps,omitempty"`
}

// one logged step.  kind:
//
//	symmetric QR:  SDefl i | SRot p nn k c s
//	SVD:           BDefl i | BRotR p nn k c s | BRotL p nn k c s | BZRow k i c s | BFlip i
//	Francis QR:    FDefl i | FHouse p nn k beta nu | FQ2 i c s (QRstep on the 2x2 block at i)
type trStep struct {
	kind     string
	i        int     // SDefl/BDefl/BFlip: index; BZRow: row i
	p, nn, k int     // rotation k, k+1 of the block [p..p+nn); BZRow: k
	c, s     float64 // as returned by givensRotation.Run (FHouse: c = beta)
	nu       []float64
}

func (t trStep) coq() string {
	switch t.kind {
	case "SDefl", "BDefl", "BFlip":
		return fmt.Sprintf("%s %d", t.kind, t.i)
	case "BZRow":
		return fmt.Sprintf("BZRow %d %d %s %s", t.k, t.i, F(t.c), F(t.s))
	case "FDefl":
		return fmt.Sprintf("FDefl %d", t.i)
	case "FQ2":
		return fmt.Sprintf("FQ2 %d %s %s", t.i, F(t.c), F(t.s))
	case "FHouse":
		return fmt.Sprintf("FHouse %d %d %d %s %s", t.p, t.nn, t.k, F(t.c), FList(t.nu))
	}
	return fmt.Sprintf("%s %d %d %d %s %s", t.kind, t.p, t.nn, t.k, F(t.c), F(t.s))
}

// ---------------------------------------------------------------- symmetric QR algorithm
// qrAlgorithm_symmetric.go, re-implemented statement by statement on the public Scalar / Matrix API.

var trSymEpsilon = 1e-18 // default Epsilon of qrAlgorithm.Run (a variable: hist.go pre-checks convergence with explicit epsilons)

func skelWilkinsonShift(mu, t11, t12, t22, t1, t2 ad.Scalar) {
	d := t1
	t := t2
	d.Sub(t11, t22)
	d.Div(d, ad.ConstFloat64(2.0))

	t.Mul(t12, t12)
	mu.Mul(d, d)
	mu.Add(mu, t)
	mu.Sqrt(mu)

	if d.GetFloat64() < 0.0 {
		mu.Neg(mu)
	}
	mu.Add(d, mu)
	mu.Div(t, mu)

	mu.Sub(t22, mu)
}

type trSymScratch struct {
	c, s, y, z, mu, t1, t2 ad.Scalar
}

func skelSymmetricQRstep(T, Z ad.Matrix, p, q int, w *trSymScratch, log *[]trStep) {
	_, n := T.Dims()
	c, s, y, z, mu, t1, t2 := w.c, w.s, w.y, w.z, w.mu, w.t1, w.t2

	t11 := T.At(n-2, n-2)
	t12 := T.At(n-2, n-1)
	t22 := T.At(n-1, n-1)

	skelWilkinsonShift(mu, t11, t12, t22, t1, t2)

	y.Sub(T.At(0, 0), mu)
	z.Set(T.At(1, 0))

	for k := 0; k < n-1; k++ {
		givensRotation.Run(y, z, c, s)
		*log = append(*log, trStep{kind: "SRot", p: p, nn: n, k: k, c: c.GetFloat64(), s: s.GetFloat64()})
		givensRotation.ApplyTridiagRight(T, c, s, k, k+1, t1, t2)
		givensRotation.ApplyTridiagLeft(T, c, s, k, k+1, t1, t2)

		if Z != nil {
			givensRotation.ApplyRight(Z, c, s, p+k, p+k+1, t1, t2)
		}
		if k < n-2 {
			y.Set(T.At(k+1, k))
			z.Set(T.At(k+2, k))
		}
	}
}

func skelSplitMatrixSymmetric(T ad.Matrix, q int) (int, int) {
	_, n := T.Dims()
	for q < n-1 {
		k := n - q - 1
		if T.At(k-1, k).GetFloat64() == 0.0 {
			q += 1
		} else {
			break
		}
	}
	if q == n-1 {
		q = n
	}
	p := n - q - 1
	for p > 0 {
		k := p
		if T.At(k-1, k).GetFloat64() == 0.0 {
			break
		} else {
			p -= 1
		}
	}
	return p, q
}

func trIsPlusZero(x float64) bool { return math.Float64bits(x) == 0 }

// skelSymQR: returns the final (T, Z), the step log and "ok" | "cap" | "error" | "panic: ..".
func skelSymQR(A *FM, cu bool, maxSweeps int) (Tf, Zf *FM, log []trStep, status string) {
	defer func() {
		if r := recover(); r != nil {
			status = "panic: " + fmt.Sprint(r)
		}
	}()
	n := A.R
	// qrAlgorithm.Run clones a into InSitu.H and hands it to householderTridiagonalization.Run with a
	// fresh InSitu (which clones again and allocates its own U)
	T, Z, err := householderTridiagonalization.Run(MkMat("f64", A), householderTridiagonalization.ComputeU{Value: cu})
	if err != nil {
		return nil, nil, nil, "error"
	}
	w := &trSymScratch{ad.NewFloat64(0), ad.NewFloat64(0), ad.NewFloat64(0), ad.NewFloat64(0),
		ad.NewFloat64(0), ad.NewFloat64(0), ad.NewFloat64(0)}
	epsilon := trSymEpsilon
	sweeps := 0
	for p, q := 0, 0; q < n; {
		if sweeps >= maxSweeps {
			return ReadMat(T), trReadOpt(Z), log, "cap"
		}
		sweeps++
		for i := 0; i < n-1; i++ {
			t11 := T.At(i, i).GetFloat64()
			t21 := T.At(i+1, i).GetFloat64()
			t22 := T.At(i+1, i+1).GetFloat64()
			if math.Abs(t21) <= epsilon*(math.Abs(t11)+math.Abs(t22)) {
				// entries that already hold +0 are rewritten with +0: not a step
				if !trIsPlusZero(t21) || !trIsPlusZero(T.At(i, i+1).GetFloat64()) {
					log = append(log, trStep{kind: "SDefl", i: i})
				}
				T.At(i+1, i).SetFloat64(0.0)
				T.At(i, i+1).SetFloat64(0.0)
			}
		}
		p, q = skelSplitMatrixSymmetric(T, q)

		if q < n {
			Tb := T.Slice(p, n-q, p, n-q)
			skelSymmetricQRstep(Tb, Z, p, q, w, &log)
		}
	}
	return ReadMat(T), trReadOpt(Z), log, "ok"
}

// ---------------------------------------------------------------- Golub-Kahan SVD
// svd.go, re-implemented statement by statement (default Epsilon 1.11e-16).

var trSvdEpsilon = 1.11e-16

type trSvdScratch struct {
	Mu, C, S, T1, T2, T3, T4, T5 ad.Scalar
}

func skelComputeSquare(t11, t12, t22 ad.Scalar, B ad.Matrix, i int) {
	b11 := B.At(i+0, i+0)
	b12 := B.At(i+0, i+1)
	b22 := B.At(i+1, i+1)
	t11.Mul(b11, b11)
	t12.Mul(b12, b12)
	t22.Mul(b22, b22)
	t22.Add(t12, t22)
	t12.Mul(b11, b12)
}

func skelGolubKahanSVDstep(B, U, V ad.Matrix, p int, w *trSvdScratch, log *[]trStep) {
	_, n := B.Dims()

	mu := w.Mu
	t11 := w.T1
	t12 := w.T2
	t22 := w.T3
	t1 := w.T4
	t2 := w.T5

	skelComputeSquare(t11, t12, t22, B, n-2)
	skelWilkinsonShift(mu, t11, t12, t22, t1, t2) // svd.wilkinsonShift is the same text
	skelComputeSquare(t11, t12, t22, B, 0)

	y := t11
	y.Sub(y, mu)
	z := t12
	c := w.C
	s := w.S

	for k := 0; k < n-1; k++ {
		givensRotation.Run(y, z, c, s)
		*log = append(*log, trStep{kind: "BRotR", p: p, nn: n, k: k, c: c.GetFloat64(), s: s.GetFloat64()})
		givensRotation.ApplyBidiagRight(B, c, s, k, k+1, t1, t2)
		z.SetFloat64(0.0)
		if V != nil {
			givensRotation.ApplyRight(V, c, s, p+k, p+k+1, t1, t2)
		}
		y.Set(B.At(k+0, k))
		z.Set(B.At(k+1, k))
		givensRotation.Run(y, z, c, s)
		*log = append(*log, trStep{kind: "BRotL", p: p, nn: n, k: k, c: c.GetFloat64(), s: s.GetFloat64()})
		givensRotation.ApplyBidiagLeft(B, c, s, k, k+1, t1, t2)
		z.SetFloat64(0.0)
		if U != nil {
			givensRotation.ApplyRight(U, c, s, p+k, p+k+1, t1, t2)
		}
		if k < n-2 {
			y.Set(B.At(k, k+1))
			z.Set(B.At(k, k+2))
		}
	}
}

func skelZeroRow(B, U, V ad.Matrix, k int, w *trSvdScratch, log *[]trStep) {
	_, n := B.Dims()

	c := w.C
	s := w.S
	t1 := w.T4
	t2 := w.T5

	for i := k + 1; i < n; i++ {
		y := B.At(i, i)
		z := B.At(k, i)
		givensRotation.Run(y, z, c, s)
		*log = append(*log, trStep{kind: "BZRow", k: k, i: i, c: c.GetFloat64(), s: s.GetFloat64()})
		givensRotation.ApplyBidiagLeft(B, c, s, i, k, t1, t2)
		if U != nil {
			givensRotation.ApplyRight(U, c, s, i, k, t1, t2)
		}
		z.SetFloat64(0.0)
	}
}

// skelSVD: returns the final (H, U, V), the step log and the status.
func skelSVD(Ain *FM, cu, cv bool, maxSweeps int) (out []*FM, log []trStep, status string) {
	defer func() {
		if r := recover(); r != nil {
			status = "panic: " + fmt.Sprint(r)
		}
	}()
	m, n := Ain.R, Ain.C
	if m < n {
		return nil, nil, "error"
	}
	// svd.Run: A cloned, U / V allocated when requested, the scratch scalars of the
	// bidiagonalisation aliased to svd's own (Beta = T4, T3 = T2)
	A := MkMat("f64", Ain)
	t := A.ElementType()
	var U0, V0 ad.Matrix
	if cu {
		U0 = ad.NullDenseMatrix(t, m, m)
	}
	if cv {
		V0 = ad.NullDenseMatrix(t, n, n)
	}
	w := &trSvdScratch{ad.NullScalar(t), ad.NullScalar(t), ad.NullScalar(t), ad.NullScalar(t),
		ad.NullScalar(t), ad.NullScalar(t), ad.NullScalar(t), ad.NullScalar(t)}
	hb := &householderBidiagonalization.InSitu{A: A, Beta: w.T4, T1: w.T1, T2: w.T2, T3: w.T2}
	if cu {
		hb.U = U0
	}
	if cv {
		hb.V = V0
	}
	epsilon := trSvdEpsilon

	H, U, V, _ := householderBidiagonalization.Run(A, householderBidiagonalization.ComputeU{Value: cu},
		householderBidiagonalization.ComputeV{Value: cv}, hb)
	B := H.Slice(0, n, 0, n)

	result := func() []*FM { return []*FM{ReadMat(H), trReadOpt(U), trReadOpt(V)} }
	sweeps := 0
	for p, q := 0, 0; q < n; {
		if sweeps >= maxSweeps {
			return result(), log, "cap"
		}
		sweeps++
		for i := 0; i < n-1; i++ {
			b11 := B.At(i, i).GetFloat64()
			b12 := B.At(i, i+1).GetFloat64()
			b22 := B.At(i+1, i+1).GetFloat64()
			if math.Abs(b12) <= epsilon*(math.Abs(b11)+math.Abs(b22)) {
				if !trIsPlusZero(b12) {
					log = append(log, trStep{kind: "BDefl", i: i})
				}
				B.At(i, i+1).SetFloat64(0.0)
			}
		}
		p, q = skelSplitMatrixSymmetric(B, q) // svd.splitMatrix is the same text as splitMatrixSymmetric

		if q < n-1 {
			t := true
			for k := p; k < n-q-1; k++ {
				if B.At(k, k).GetFloat64() == 0.0 {
					skelZeroRow(B, U, V, k, w, &log)
					t = false
				}
			}
			if t {
				b := B.Slice(p, n-q, p, n-q)
				skelGolubKahanSVDstep(b, U, V, p, w, &log)
			}
		}
	}
	for i := 0; i < n; i++ {
		if b := B.At(i, i); b.GetFloat64() < 0.0 {
			log = append(log, trStep{kind: "BFlip", i: i})
			b.Neg(b)
			if V != nil {
				for j := 0; j < n; j++ {
					V.At(j, i).Neg(V.At(j, i))
				}
			}
		}
	}
	return result(), log, "ok"
}

// ---------------------------------------------------------------- unsymmetric (Francis) QR algorithm
// qrAlgorithm.go, re-implemented statement by statement (default Epsilon 1e-18).

type trFrScratch struct {
	T1, T2, T3, S, T, Beta ad.Scalar
	T4, X, Nu              ad.Vector
	steps, maxSteps        int
}

func trNuList(nu ad.Vector, n int) []float64 {
	r := make([]float64, n)
	for i := 0; i < n; i++ {
		r[i] = nu.ConstAt(i).GetFloat64()
	}
	return r
}

func skelQRstep(H, U ad.Matrix, p, q int, w *trFrScratch, log *[]trStep) {
	var u ad.Matrix

	m, _ := H.Dims()
	n := m - p - q

	H12 := H.Slice(0, p, p, m-q)
	H23 := H.Slice(p, m-q, m-q, m)
	H22 := H.Slice(p, m-q, p, m-q)

	if U != nil {
		u = U.Slice(0, m, p, m-q)
	}

	c := w.S
	s := w.T
	t1 := w.T1
	t2 := w.T2
	t3 := w.T3

	t3.Set(H22.At(n-1, n-1))
	for i := 0; i < n; i++ {
		g := H22.At(i, i)
		g.Sub(g, t3)
	}
	for i := 0; i < n-1; i++ {
		givensRotation.Run(H22.At(i, i), H22.At(i+1, i), c, s)
		*log = append(*log, trStep{kind: "FQ2", i: p + i, nn: n, c: c.GetFloat64(), s: s.GetFloat64()})
		givensRotation.ApplyHessenbergLeft(H22, c, s, i, i+1, t1, t2)
		givensRotation.ApplyHessenbergLeft(H23, c, s, i, i+1, t1, t2)
		givensRotation.ApplyRight(H12, c, s, i, i+1, t1, t2)
		givensRotation.ApplyHessenbergRight(H22, c, s, i, i+1, t1, t2)
		if u != nil {
			givensRotation.ApplyRight(u, c, s, i, i+1, t1, t2)
		}
	}
	for i := 0; i < n; i++ {
		g := H22.At(i, i)
		g.Add(g, t3)
	}
}

func skelFrancisQRstep(H, U ad.Matrix, p, q int, w *trFrScratch, log *[]trStep) {
	var u ad.Matrix

	m, _ := H.Dims()
	n := m - p - q

	H12 := H.Slice(0, p, p, m-q)
	H23 := H.Slice(p, m-q, m-q, m)
	H22 := H.Slice(p, m-q, p, m-q)

	if U != nil {
		u = U.Slice(0, m, p, m-q)
	}

	s := w.S
	t := w.T
	x := w.X
	t1 := w.T1
	t2 := w.T2
	t3 := w.T3
	t4 := w.T4

	beta := w.Beta
	nu := w.Nu

	h11 := H22.At(n-2, n-2)
	h12 := H22.At(n-2, n-1)
	h21 := H22.At(n-1, n-2)
	h22 := H22.At(n-1, n-1)

	s.Add(h11, h22)
	t1.Mul(h11, h22)
	t2.Mul(h12, h21)
	t.Sub(t1, t2)

	h11 = H22.At(0, 0)
	h12 = H22.At(0, 1)
	h21 = H22.At(1, 0)
	h22 = H22.At(1, 1)

	t1.Mul(h11, h11)
	t2.Mul(h12, h21)
	t3.Mul(s, h11)
	x.At(0).Add(t1, t2)
	x.At(0).Sub(x.ConstAt(0), t3)
	x.At(0).Add(x.ConstAt(0), t)

	x.At(1).Add(h11, h22)
	x.At(1).Sub(x.ConstAt(1), s)
	x.At(1).Mul(x.ConstAt(1), h21)

	x.At(2).Mul(h21, H22.ConstAt(2, 1))

	for k := 0; k < n-2; k++ {
		s := 1
		r := n
		if s < k {
			s = k
		}
		if r > k+4 {
			r = k + 4
		}
		householder.Run(x, beta, nu, t1, t2, t3)
		*log = append(*log, trStep{kind: "FHouse", p: p, nn: n, k: k, c: beta.GetFloat64(), nu: trNuList(nu, 3)})
		{
			h := H22.Slice(k, k+3, s-1, n)
			householder.ApplyLeft(h, beta, nu, t4.Slice(s-1, n), t1)
		}
		{
			h := H22.Slice(0, n, k, k+3)
			householder.ApplyRight(h, beta, nu, t4.Slice(0, n), t1)
		}
		{
			h := H12.Slice(0, p, k, k+3)
			householder.ApplyRight(h, beta, nu, t4.Slice(0, p), t1)
		}
		{
			h := H23.Slice(k, k+3, 0, q)
			householder.ApplyLeft(h, beta, nu, t4.Slice(0, q), t1)
		}
		if u != nil {
			u := u.Slice(0, m, k, k+3)
			householder.ApplyRight(u, beta, nu, t4.Slice(0, m), t1)
		}
		x.At(0).Set(H22.ConstAt(k+1, k))
		x.At(1).Set(H22.ConstAt(k+2, k))
		if k < n-3 {
			x.At(2).Set(H22.ConstAt(k+3, k))
		}
	}
	householder.Run(x.Slice(0, 2), beta, nu.Slice(0, 2), t1, t2, t3)
	*log = append(*log, trStep{kind: "FHouse", p: p, nn: n, k: n - 2, c: beta.GetFloat64(), nu: trNuList(nu, 2)})
	{
		h := H22.Slice(n-2, n, n-3, n)
		householder.ApplyLeft(h, beta, nu.Slice(0, 2), t4.Slice(n-3, n), t1)
	}
	{
		h := H22.Slice(0, n, n-2, n)
		householder.ApplyRight(h, beta, nu.Slice(0, 2), t4.Slice(0, n), t1)
	}
	{
		h := H12.Slice(0, p, n-2, n)
		householder.ApplyRight(h, beta, nu.Slice(0, 2), t4.Slice(0, p), t1)
	}
	{
		h := H23.Slice(n-2, n, 0, q)
		householder.ApplyLeft(h, beta, nu.Slice(0, 2), t4.Slice(0, q), t1)
	}
	if u != nil {
		u := u.Slice(0, m, n-2, n)
		householder.ApplyRight(u, beta, nu.Slice(0, 2), t4.Slice(0, m), t1)
	}
}

func skelSplitMatrix(h ad.Matrix, q int) (int, int) {
	n, _ := h.Dims()
	for i := q; i < n-1; i++ {
		if h.ConstAt(n-i-1, n-i-2).GetFloat64() == 0.0 {
			q = i + 1
		}
		if i > q {
			break
		}
		if i == n-2 {
			q = i + 2
		}
	}
	p := n - q - 2
	if p < 0 {
		p = 0
	}
	for p > 0 {
		if h.ConstAt(p, p-1).GetFloat64() != 0.0 {
			p -= 1
		} else {
			break
		}
	}
	return p, q
}

// skelFrancisQR: returns the final (H, U), the step log and the status.
func skelFrancisQR(A *FM, cu bool, maxSteps int) (out []*FM, log []trStep, status string) {
	defer func() {
		if r := recover(); r != nil {
			status = "panic: " + fmt.Sprint(r)
		}
	}()
	n := A.R
	// qrAlgorithm.Run: H cloned, U allocated when requested, T1..T3 shared with the Hessenberg reduction
	H0 := MkMat("f64", A)
	t := H0.ElementType()
	w := &trFrScratch{T1: ad.NullScalar(t), T2: ad.NullScalar(t), T3: ad.NullScalar(t), S: ad.NullScalar(t),
		T: ad.NullScalar(t), Beta: ad.NullScalar(t), T4: ad.NullDenseVector(t, n), X: ad.NullDenseVector(t, 3),
		Nu: ad.NullDenseVector(t, 3), maxSteps: maxSteps}
	hs := &hessenbergReduction.InSitu{H: H0, T1: w.T1, T2: w.T2, T3: w.T3}
	if cu {
		hs.U = ad.NullDenseMatrix(t, n, n)
	}
	epsilon := trSymEpsilon

	h, u, err := hessenbergReduction.Run(H0, hs, hessenbergReduction.ComputeU{Value: cu})
	if err != nil {
		return nil, nil, "error"
	}
	result := func() []*FM { return []*FM{ReadMat(h), trReadOpt(u)} }
	sweeps := 0
	for p, q := 0, 0; q < n-1; {
		if sweeps >= maxSteps {
			return result(), log, "cap"
		}
		sweeps++
		for i := 0; i < n-1; i++ {
			h11 := h.ConstAt(i, i).GetFloat64()
			h21 := h.ConstAt(i+1, i).GetFloat64()
			h22 := h.ConstAt(i+1, i+1).GetFloat64()
			if math.Abs(h21) <= epsilon*(math.Abs(h11)+math.Abs(h22)) {
				if !trIsPlusZero(h21) {
					log = append(log, trStep{kind: "FDefl", i: i})
				}
				h.At(i+1, i).SetFloat64(0.0)
			}
		}
		p, q = skelSplitMatrix(h, q)

		if q < n-1 {
			skelFrancisQRstep(h, u, p, q, w, &log)
		}
	}
	for i := 0; i < n-1; i++ {
		h21 := h.ConstAt(i+1, i).GetFloat64()
		if h21 == 0.0 {
			continue
		}
		h11 := h.ConstAt(i, i).GetFloat64()
		h12 := h.ConstAt(i, i+1).GetFloat64()
		h22 := h.ConstAt(i+1, i+1).GetFloat64()
		if (h11-h22)*(h11-h22)+4*h12*h21 < 0.0 {
			continue
		}
		for {
			if sweeps >= maxSteps {
				return result(), log, "cap"
			}
			sweeps++
			h11 := h.ConstAt(i, i).GetFloat64()
			h21 := h.ConstAt(i+1, i).GetFloat64()
			h22 := h.ConstAt(i+1, i+1).GetFloat64()
			if math.Abs(h21) <= epsilon*(math.Abs(h11)+math.Abs(h22)) {
				if !trIsPlusZero(h21) {
					log = append(log, trStep{kind: "FDefl", i: i})
				}
				h.At(i+1, i).SetFloat64(0.0)
				break
			} else {
				skelQRstep(h, u, i, n-i-2, w, &log)
			}
		}
	}
	return result(), log, "ok"
}

func trReadOpt(m ad.Matrix) *FM {
	if m == nil {
		return nil
	}
	return ReadMat(m)
}

// the library's own run, under a deadline (F-QR-HANG, F-SVD-ZERODIAG-HANG: the routine may never return)
type trLibOut struct {
	Ms     []*FM
	Status string // ok | error | panic: .. | timeout
}

var traceDeadline = 2 * time.Second

func trLibRun(in *TrIn) *trLibOut {
	ch := make(chan *trLibOut, 1)
	go func() {
		o := &trLibOut{Status: "ok"}
		defer func() {
			if r := recover(); r != nil {
				o = &trLibOut{Status: "panic: " + fmt.Sprint(r)}
			}
			ch <- o
		}()
		switch in.Kind {
		case "symqr":
			H, U, err := qrAlgorithm.Run(MkMat("f64", in.M), qrAlgorithm.ComputeU{Value: in.CU}, qrAlgorithm.Symmetric{Value: true})
			if err != nil {
				o.Status = "error"
				return
			}
			o.Ms = []*FM{ReadMat(H), trReadOpt(U)}
		case "qr":
			H, U, err := qrAlgorithm.Run(MkMat("f64", in.M), qrAlgorithm.ComputeU{Value: in.CU})
			if err != nil {
				o.Status = "error"
				return
			}
			o.Ms = []*FM{ReadMat(H), trReadOpt(U)}
		case "svd":
			H, U, V, err := svd.Run(MkMat("f64", in.M), svd.ComputeU{Value: in.CU}, svd.ComputeV{Value: in.CV})
			if err != nil {
				o.Status = "error"
				return
			}
			o.Ms = []*FM{ReadMat(H), trReadOpt(U), trReadOpt(V)}
		}
	}()
	select {
	case o := <-ch:
		return o
	case <-time.After(traceDeadline):
		hung++
		return &trLibOut{Status: "timeout"}
	}
}

// ---------------------------------------------------------------- case construction

func trCoqSteps(log []trStep) string {
	s := make([]string, len(log))
	for i, t := range log {
		s[i] = t.coq()
	}
	return "[" + strings.Join(s, "; ") + "]"
}

const trMaxLogSteps = 250 // longer traces are not printed (counted as "trace-too-long")

func traceSweepCap(n int) int { return 40*n + 40 }

// traceCase runs skeleton and library on one input; returns the Coq term ("" = skipped) and the outcome label.
func traceCase(in *TrIn) (string, string, int) {
	var sk []*FM
	var log []trStep
	var st string
	switch in.Kind {
	case "symqr":
		if in.M.R != in.M.C || in.M.R < 1 {
			return "", "skipped:shape", 0
		}
		var T, Z *FM
		T, Z, log, st = skelSymQR(in.M, in.CU, traceSweepCap(in.M.R))
		sk = []*FM{T, Z}
	case "svd":
		if in.M.R < in.M.C || in.M.C < 1 {
			return "", "skipped:shape", 0
		}
		sk, log, st = skelSVD(in.M, in.CU, in.CV, traceSweepCap(in.M.C))
	case "qr":
		if in.M.R != in.M.C || in.M.R < 1 {
			return "", "skipped:shape", 0
		}
		sk, log, st = skelFrancisQR(in.M, in.CU, traceSweepCap(in.M.R))
	default:
		Die("unknown trace kind %q", in.Kind)
	}
	if st == "cap" {
		// the lock-step copy does not converge: the library would not return either
		// (F-QR-HANG, F-SVD-ZERODIAG-HANG); the library is not called
		return "", "outcome:skeleton-cap(library not called)", len(log)
	}
	lo := trLibRun(in)
	if lo.Status == "timeout" && st != "ok" {
		return "", "outcome:timeout", len(log)
	}
	if lo.Status != st {
		return fmt.Sprintf("(TFail %q)", "skeleton: "+st+" / library: "+lo.Status), "outcome:status-differs", len(log)
	}
	if st != "ok" {
		return "", "outcome:" + strings.SplitN(st, ":", 2)[0], len(log)
	}
	same := len(sk) == len(lo.Ms)
	for i := 0; same && i < len(sk); i++ {
		same = SameFM(sk[i], lo.Ms[i])
	}
	if !same {
		return fmt.Sprintf("(TFail %q)", "final factors of the lock-step skeleton and of the library's Run differ"), "outcome:factors-differ", len(log)
	}
	if len(log) > trMaxLogSteps {
		return "", "skipped:trace-too-long", len(log)
	}
	switch in.Kind {
	case "qr":
		return fmt.Sprintf("(TFrancis %s %s %s %s %s)", B(in.CU), CoqMat(in.M), trCoqSteps(log), CoqMat(lo.Ms[0]), CoqOptMat(lo.Ms[1])),
			"outcome:value", len(log)
	case "symqr":
		return fmt.Sprintf("(TSymQR %s %s %s %s %s)", B(in.CU), CoqMat(in.M), trCoqSteps(log), CoqMat(lo.Ms[0]), CoqOptMat(lo.Ms[1])),
			"outcome:value", len(log)
	default:
		return fmt.Sprintf("(TSvd %s %s %s %s %s %s %s)", B(in.CU), B(in.CV), CoqMat(in.M), trCoqSteps(log),
			CoqMat(lo.Ms[0]), CoqOptMat(lo.Ms[1]), CoqOptMat(lo.Ms[2])), "outcome:value", len(log)
	}
}

// ---------------------------------------------------------------- generators

func trTridiagOf(r *Rng, n int, intv bool) *FM {
	a := NewFM(n, n)
	for i := 0; i < n; i++ {
		if intv {
			a.Set(i, i, float64(r.Range(-4, 6)))
		} else {
			a.Set(i, i, 4*r.Float()-2)
		}
		if i+1 < n {
			var e float64
			if intv {
				e = float64(r.Range(1, 4))
			} else {
				e = 2*r.Float() - 1
			}
			a.Set(i, i+1, e)
			a.Set(i+1, i, e)
		}
	}
	return a
}

func trBlockDiag(a, b *FM) *FM {
	n := a.R + b.R
	m := NewFM(n, n)
	for i := 0; i < a.R; i++ {
		for j := 0; j < a.C; j++ {
			m.Set(i, j, a.At(i, j))
		}
	}
	for i := 0; i < b.R; i++ {
		for j := 0; j < b.C; j++ {
			m.Set(a.R+i, a.R+j, b.At(i, j))
		}
	}
	return m
}

func genTraceSym(r *Rng, idx int, maxn int) *TrIn {
	n := r.Range(2, maxn)
	var m *FM
	var fam string
	switch idx % 8 {
	case 0:
		m, fam = symmetrize(randFloat(r, n, n, 1)), "dense-sym-float"
	case 1:
		m, fam = gram(r, n, n+1, float64(r.Range(0, 2))), "spd-int-gram"
	case 2:
		m, fam = trTridiagOf(r, n, r.Bool()), "tridiagonal"
	case 3: // block diagonal, dense blocks: zero sub-diagonal in the middle, split with p > 0
		if n < 4 {
			n = 4
		}
		n1 := r.Range(2, n-2)
		m, fam = trBlockDiag(symmetrize(randFloat(r, n1, n1, 1)), symmetrize(randFloat(r, n-n1, n-n1, 2))), "block-diagonal-dense"
	case 4: // block diagonal tridiagonal
		if n < 4 {
			n = 4
		}
		n1 := r.Range(2, n-2)
		m, fam = trBlockDiag(trTridiagOf(r, n1, false), trTridiagOf(r, n-n1, true)), "block-diagonal-tridiagonal"
	case 5:
		m, fam = graded(symmetrize(randFloat(r, n, n, 1)), float64(r.Range(2, 12))), "graded"
	case 6: // a*I + u u^T: eigenvalue a with multiplicity n-1
		u := randInt(r, n, 1, -3, 3)
		m = u.Mul(u.T())
		a := float64(r.Range(-2, 3))
		for i := 0; i < n; i++ {
			m.Set(i, i, m.At(i, i)+a)
		}
		fam = "repeated-eigenvalue"
	default:
		m, fam = symmetrize(randInt(r, n, n, -4, 4)), "sym-int"
	}
	return &TrIn{Kind: "symqr", M: m.Pack(), CU: idx%5 != 4, Family: fam}
}

// m x n inputs (m >= n) of the SVD trace cases
func genTraceSvd(r *Rng, idx int, maxm int) *TrIn {
	n := r.Range(2, maxm-1)
	m := r.Range(n, maxm)
	var a *FM
	var fam string
	switch idx % 7 {
	case 0:
		a, fam = randFloat(r, m, n, 1), "dense-float"
	case 1:
		a, fam = randInt(r, m, n, -4, 4), "int"
	case 2: // upper bidiagonal already
		a = NewFM(m, n)
		for i := 0; i < n; i++ {
			a.Set(i, i, 3*r.Float()+0.5)
			if i+1 < n {
				a.Set(i, i+1, 2*r.Float()-1)
			}
		}
		fam = "bidiagonal"
	case 3: // block diagonal: zero super-diagonal entry in the middle (split with p > 0)
		if n < 4 {
			n = 4
			if m < n {
				m = n
			}
		}
		n1 := r.Range(2, n-2)
		sq := trBlockDiag(randFloat(r, n1, n1, 1), randFloat(r, n-n1, n-n1, 2))
		a = NewFM(m, n)
		copy(a.V, sq.V)
		fam = "block-diagonal"
	case 4: // graded columns
		a = randFloat(r, m, n, 1)
		g := float64(r.Range(2, 10))
		for i := 0; i < m; i++ {
			for j := 0; j < n; j++ {
				a.Set(i, j, a.At(i, j)*math.Pow(g, -float64(j)))
			}
		}
		fam = "graded"
	case 5: // bidiagonal with an exactly zero diagonal entry inside an unreduced block: zeroRow
		if n < 3 {
			n = 3
			if m < n {
				m = n
			}
		}
		a = NewFM(m, n)
		for i := 0; i < n; i++ {
			a.Set(i, i, 3*r.Float()+0.5)
			if i+1 < n {
				a.Set(i, i+1, r.Float()+0.25)
			}
		}
		z := r.Range(0, n-2)
		a.Set(z, z, 0)
		fam = "bidiagonal-zero-diagonal"
	default: // square
		m = n
		a, fam = randFloat(r, n, n, 2), "square-float"
	}
	return &TrIn{Kind: "svd", M: a.Pack(), CU: idx%4 != 3, CV: idx%7 != 6, Family: fam}
}

// square inputs of the unsymmetric QR trace cases
func genTraceQR(r *Rng, idx int, maxn int) *TrIn {
	n := r.Range(2, maxn)
	var a *FM
	var fam string
	switch idx % 6 {
	case 0:
		a, fam = randFloat(r, n, n, 1), "dense-float"
	case 1: // symmetric: real spectrum
		a, fam = symmetrize(randFloat(r, n, n, 1)), "symmetric-float"
	case 2: // upper triangular plus a small dense perturbation: real, separated spectrum
		a = randFloat(r, n, n, 0.01)
		for i := 0; i < n; i++ {
			a.Set(i, i, float64(i+1)+r.Float()*0.5)
			for j := i + 1; j < n; j++ {
				a.Set(i, j, 2*r.Float()-1)
			}
		}
		fam = "near-triangular"
	case 3: // block diagonal (zero sub-diagonal in the middle)
		if n < 5 {
			n = 5
		}
		n1 := r.Range(2, n-3)
		a, fam = trBlockDiag(randFloat(r, n1, n1, 1), randFloat(r, n-n1, n-n1, 2)), "block-diagonal"
	case 4: // upper Hessenberg already
		a = randFloat(r, n, n, 1)
		for i := 0; i < n; i++ {
			for j := 0; j+1 < i; j++ {
				a.Set(i, j, 0)
			}
		}
		fam = "hessenberg"
	default:
		a, fam = graded(randFloat(r, n, n, 1), float64(r.Range(2, 6))), "graded"
	}
	return &TrIn{Kind: "qr", M: a.Pack(), CU: idx%4 != 3, Family: fam}
}

// ---------------------------------------------------------------- stream

func newTraceWriter(o Opts, name string, per int) *CaseWriter {
	w := NewCaseWriter(o.Out, name, trHeader, "tmism", per)
	w.Type = "tcase"
	w.Rule = "re-derived step trace of an iterative routine on a matrix with >= 2 rows whose lock-step skeleton and library run both returned a value; distinct = distinct (routine, options, input bits)"
	return w
}

func addTrace(w *CaseWriter, in *TrIn) {
	w.Count("kind:" + in.Kind)
	w.Count("family:" + in.Kind + "/" + in.Family)
	w.Count(fmt.Sprintf("size:%d", in.M.R))
	term, outcome, nsteps := traceCase(in)
	w.Count(outcome)
	if term == "" {
		return
	}
	w.CountN("steps", nsteps)
	key := fmt.Sprintf("%s|%v|%v|%dx%d|%s", in.Kind, in.CU, in.CV, in.M.R, in.M.C, strings.Join(HexList(in.M.V), ","))
	w.Add(term, TrRaw{In: in, Outcome: outcome, Steps: nsteps}, key, in.M.R >= 2)
}

// runTraceStream writes the shards tcases_<k>.v (+ tcases.meta.json, tcases.jsonl) under o.Out.
func runTraceStream(o Opts) {
	rng := NewRng(o.Seed*1000003 + 50503).Split()
	w := newTraceWriter(o, "tcases", 12)
	n := 40
	if o.Tier == "thorough" {
		n = 400
	}
	for i := 0; i < n; i++ {
		if hung >= maxHung {
			w.Count("skipped-after-hang-budget")
			continue
		}
		addTrace(w, genTraceSym(rng.Split(), i, 6))
	}
	ns := 28
	if o.Tier == "thorough" {
		ns = 280
	}
	for i := 0; i < ns; i++ {
		if hung >= maxHung {
			w.Count("skipped-after-hang-budget")
			continue
		}
		addTrace(w, genTraceSvd(rng.Split(), i, 6))
	}
	nq := 24
	if o.Tier == "thorough" {
		nq = 240
	}
	for i := 0; i < nq; i++ {
		if hung >= maxHung {
			w.Count("skipped-after-hang-budget")
			continue
		}
		addTrace(w, genTraceQR(rng.Split(), i, 6))
	}
	if err := w.Flush(); err != nil {
		Die("flush: %v", err)
	}
}

// replayTrace re-executes a replay file that holds a "tcase" record; returns true if it did.
func replayTrace(b []byte, o Opts) bool {
	var rp struct {
		TCase *TrRaw `json:"tcase"`
	}
	if err := json.Unmarshal(b, &rp); err != nil || rp.TCase == nil || rp.TCase.In == nil {
		return false
	}
	rp.TCase.In.M.Unpack()
	w := newTraceWriter(o, "treplay", 100)
	addTrace(w, rp.TCase.In)
	if w.Len() == 0 {
		// the recorded case no longer produces a value (e.g. the library now hangs): still a failure
		w.Add(fmt.Sprintf("(TFail %q)", "replayed trace case produced no value"), rp.TCase, "replay", true)
	}
	if err := w.Flush(); err != nil {
		Die("flush: %v", err)
	}
	return true
}
