// Iterative routines (QR algorithm, SVD, eigensystem, msqrt, msqrtInv) and the
// residual cases: every call runs under a deadline; the float outputs are
// converted exactly to dyadic rationals and printed as C05.Resid.rcase terms,
// which Coq decides by vm_compute in exact integer arithmetic.
package main

import (
	"fmt"
	"time"

	. "adharness/common"

	ad "github.com/pbenner/autodiff"
	"github.com/pbenner/autodiff/algorithm/eigensystem"
	"github.com/pbenner/autodiff/algorithm/householderBidiagonalization"
	"github.com/pbenner/autodiff/algorithm/msqrt"
	"github.com/pbenner/autodiff/algorithm/msqrtInv"
	"github.com/pbenner/autodiff/algorithm/qrAlgorithm"
	"github.com/pbenner/autodiff/algorithm/svd"
)

type IterIn struct {
	Kind   string `json:"kind"` // qr svd eig msqrt msqrtinv  (and the direct kinds, for residual cases)
	M      *FM    `json:"m"`
	B1     bool   `json:"b1,omitempty"`  // computeU / computeEigenvectors
	B2     bool   `json:"b2,omitempty"`  // computeV
	Sym    bool   `json:"sym,omitempty"` // Symmetric{true}
	Path   string `json:"path"`
	Family string `json:"family,omitempty"`
	// RealSpectrum: the generator guarantees that all eigenvalues are real
	RealSpectrum bool `json:"real_spectrum,omitempty"`
	// Diag: diagnostics the harness attaches to a call that did not return (never an input)
	Diag map[string]bool `json:"diag,omitempty"`
}

type IterOut struct {
	Timeout bool
	Err     bool
	Panic   string
	Ms      []*FM
	Vs      [][]float64
}

var iterDeadline = 4 * time.Second
var hung = 0 // number of calls that never returned (their goroutines keep spinning)

func RunIter(in *IterIn) *IterOut {
	ch := make(chan *IterOut, 1)
	go func() {
		o := &IterOut{}
		defer func() {
			if r := recover(); r != nil {
				o = &IterOut{Panic: fmt.Sprint(r)}
			}
			ch <- o
		}()
		M := MkMat(in.Path, in.M)
		switch in.Kind {
		case "qr":
			args := []interface{}{qrAlgorithm.ComputeU{Value: in.B1}}
			if in.Sym {
				args = append(args, qrAlgorithm.Symmetric{Value: true})
			}
			H, U, err := qrAlgorithm.Run(M, args...)
			if err != nil {
				o.Err = true
				return
			}
			o.Ms = []*FM{ReadMat(H), nil}
			if U != nil {
				o.Ms[1] = ReadMat(U)
			}
		case "svd":
			H, U, V, err := svd.Run(M, svd.ComputeU{Value: in.B1}, svd.ComputeV{Value: in.B2})
			if err != nil {
				o.Err = true
				return
			}
			o.Ms = []*FM{ReadMat(H), nil, nil}
			if U != nil {
				o.Ms[1] = ReadMat(U)
			}
			if V != nil {
				o.Ms[2] = ReadMat(V)
			}
		case "eig":
			args := []interface{}{eigensystem.ComputeEigenvectors{Value: in.B1}}
			if in.Sym {
				args = append(args, eigensystem.Symmetric{Value: true})
			}
			e, v, err := eigensystem.Run(M, args...)
			if err != nil {
				o.Err = true
				return
			}
			o.Vs = [][]float64{ReadVec(e)}
			o.Ms = []*FM{nil}
			if v != nil {
				o.Ms[0] = ReadMat(v)
			}
		case "msqrt":
			x, err := msqrt.Run(M)
			if err != nil {
				o.Err = true
				return
			}
			o.Ms = []*FM{ReadMat(x)}
		case "msqrtinv":
			x, err := msqrtInv.Run(M)
			if err != nil {
				o.Err = true
				return
			}
			o.Ms = []*FM{ReadMat(x)}
		default:
			Die("unknown iterative kind %q", in.Kind)
		}
	}()
	select {
	case o := <-ch:
		return o
	case <-time.After(iterDeadline):
		hung++
		diagnoseTimeout(in)
		return &IterOut{Timeout: true}
	}
}

// diagnoseTimeout: for an svd call that did not return, run the library's own
// bidiagonalisation on the input and record whether the bidiagonal form has an
// exactly zero diagonal entry at the end of an unreduced block
// (B[k,k] == 0 and B[k-1,k] != 0): the input class of F-SVD-ZERODIAG-HANG.
func diagnoseTimeout(in *IterIn) {
	if in.Kind != "svd" || in.M == nil || in.M.R < in.M.C {
		return
	}
	defer func() { recover() }()
	B, _, _, err := householderBidiagonalization.Run(MkMat(in.Path, in.M))
	if err != nil {
		return
	}
	b := ReadMat(B)
	z := false
	for k := 1; k < in.M.C; k++ {
		if b.At(k, k) == 0 && b.At(k-1, k) != 0 {
			z = true
		}
	}
	in.Diag = map[string]bool{"zero_diag_block_end": z}
}

var _ ad.Matrix

func optDy(m *FM) string {
	if m == nil {
		return "None"
	}
	return "(Some " + DyMat(m) + ")"
}

// finiteAll: residual cases are exact dyadics; NaN/Inf outputs are an outcome of their own
func finiteAll(ms []*FM, vs [][]float64) bool {
	for _, m := range ms {
		if m != nil && !m.Finite() {
			return false
		}
	}
	for _, v := range vs {
		for _, x := range v {
			if x != x || x-x != 0 {
				return false
			}
		}
	}
	return true
}

// ResidTerm prints the residual case of an iterative call ("" if the outcome is not a value).
func ResidTerm(in *IterIn, o *IterOut) string {
	if o.Timeout || o.Err || o.Panic != "" {
		return ""
	}
	if !finiteAll(o.Ms, o.Vs) {
		return fmt.Sprintf("(RNonFinite %q)", in.Kind)
	}
	A := DyMat(in.M)
	switch in.Kind {
	case "qr":
		return fmt.Sprintf("(RSchur %s %s %s)", A, DyMat(o.Ms[0]), optDy(o.Ms[1]))
	case "svd":
		return fmt.Sprintf("(RSvd %s %s %s %s)", A, DyMat(o.Ms[0]), optDy(o.Ms[1]), optDy(o.Ms[2]))
	case "eig":
		return fmt.Sprintf("(REig %s %s %s %s)", B(in.RealSpectrum), A, DyList(o.Vs[0]), optDy(o.Ms[0]))
	case "msqrt":
		return fmt.Sprintf("(RSqrt %s %s)", A, DyMat(o.Ms[0]))
	case "msqrtinv":
		return fmt.Sprintf("(RSqrtInv %s %s)", A, DyMat(o.Ms[0]))
	}
	return ""
}

// ResidDirect prints the residual case of a direct routine's output.
func ResidDirect(in *In, o *Out) string {
	if o.Err || o.Panic != "" || in.M == nil {
		return ""
	}
	if !in.M.Finite() || !finiteAll(o.Ms, nil) {
		return ""
	}
	A := DyMat(in.M)
	switch in.Kind {
	case "chol":
		// only the lower triangle of A is read: the residual is taken against its symmetric completion
		// (as OracleDirect does); the admissible inputs of the property are symmetric
		return fmt.Sprintf("(RChol %s %s)", DyMat(symmetrize(in.M)), DyMat(o.Ms[0]))
	case "ldl":
		return fmt.Sprintf("(RLdl %s %s %s)", DyMat(symmetrize(in.M)), DyMat(o.Ms[0]), DyMat(o.Ms[1]))
	case "fpd":
		return fmt.Sprintf("(RFpd %s %s %s)", A, DyMat(o.Ms[0]), DyMat(o.Ms[1]))
	case "gs":
		return fmt.Sprintf("(RQR %s %s %s)", A, DyMat(o.Ms[0]), DyMat(o.Ms[1]))
	case "hess":
		return fmt.Sprintf("(RHess %s %s %s %s)", B(in.B2), A, DyMat(o.Ms[0]), optDy(o.Ms[1]))
	case "bidiag":
		return fmt.Sprintf("(RBidiag %s %s %s %s)", A, DyMat(o.Ms[0]), optDy(o.Ms[1]), optDy(o.Ms[2]))
	case "tridiag":
		return fmt.Sprintf("(RTridiag %s %s %s)", A, DyMat(o.Ms[0]), optDy(o.Ms[1]))
	}
	return ""
}
