// Direct (non-iterative) routines: run the library on an input through the
// Float64 and the Real64 path and print (input, observed output) as a Coq term
// of type C05.Corr.dcase.
package main

import (
	"fmt"
	"strings"

	. "adharness/common"

	ad "github.com/pbenner/autodiff"
	"github.com/pbenner/autodiff/algorithm/cholesky"
	"github.com/pbenner/autodiff/algorithm/givensRotation"
	"github.com/pbenner/autodiff/algorithm/gramSchmidt"
	"github.com/pbenner/autodiff/algorithm/hessenbergReduction"
	"github.com/pbenner/autodiff/algorithm/householder"
	"github.com/pbenner/autodiff/algorithm/householderBidiagonalization"
	"github.com/pbenner/autodiff/algorithm/householderTridiagonalization"
)

// In is a replayable input of one direct routine.
type In struct {
	Kind    string   `json:"kind"` // chol ldl fpd house houseL houseR givens givapply gs hess bidiag tridiag
	M       *FM      `json:"m,omitempty"`
	X       []string `json:"x,omitempty"` // vector argument (hex)
	S       []string `json:"s,omitempty"` // scalar arguments (hex)
	I       int      `json:"i,omitempty"`
	K       int      `json:"k,omitempty"`
	Sub     int      `json:"sub,omitempty"` // givapply variant 0..7
	B1      bool     `json:"b1,omitempty"`
	B2      bool     `json:"b2,omitempty"`
	Garbage bool     `json:"garbage,omitempty"` // recycled InSitu buffers filled with garbage
	// InPlace (chol ldl fpd): InSitu.L is the input matrix itself (D, S, T recycled garbage);
	// the printed case still carries the ORIGINAL input (the harness works on a copy)
	InPlace bool   `json:"inplace,omitempty"`
	Family  string   `json:"family,omitempty"`
}

// Out is what the library returned (projected observables).
type Out struct {
	Err   bool
	Panic string
	Ms    []*FM       // result matrices (nil entry = not computed)
	Vs    [][]float64 // result vectors
	Ss    []float64   // result scalars
}

func (a *Out) Same(b *Out) bool {
	if a.Err != b.Err || a.Panic != b.Panic || len(a.Ms) != len(b.Ms) || len(a.Vs) != len(b.Vs) || !SameVec(a.Ss, b.Ss) {
		return false
	}
	for i := range a.Ms {
		if !SameFM(a.Ms[i], b.Ms[i]) {
			return false
		}
	}
	for i := range a.Vs {
		if !SameVec(a.Vs[i], b.Vs[i]) {
			return false
		}
	}
	return true
}

const garbageVal = 7.25

func garbageMat(path string, r, c int) ad.Matrix {
	m := NewFM(r, c)
	for i := range m.V {
		m.V[i] = garbageVal + float64(i)
	}
	return MkMat(path, m)
}
func garbageVec(path string, n int) ad.Vector {
	v := make([]float64, n)
	for i := range v {
		v[i] = -garbageVal - float64(i)
	}
	return MkVec(path, v)
}

// RunDirect executes the routine named by in.Kind through the given path.
func RunDirect(in *In, path string) (out *Out) {
	out = &Out{}
	defer func() {
		if r := recover(); r != nil {
			out = &Out{Panic: "panic"}
		}
	}()
	var M ad.Matrix
	if in.M != nil {
		M = MkMat(path, in.M)
	}
	x := UnhexList(in.X)
	s := UnhexList(in.S)
	switch in.Kind {
	case "chol", "ldl", "fpd":
		n := in.M.R
		args := []interface{}{}
		if in.Kind != "chol" {
			args = append(args, cholesky.LDL{Value: true})
		}
		if in.Kind == "fpd" {
			args = append(args, cholesky.ForcePD{Value: true})
		}
		if in.Garbage || in.InPlace {
			is := &cholesky.InSitu{L: garbageMat(path, n, n), S: MkScal(path, 3.5), T: MkScal(path, -2.5)}
			if in.InPlace {
				// factorise in place: every entry of the lower triangle is read before it is overwritten
				is.L = M
			}
			if in.Kind != "chol" {
				is.D = garbageMat(path, n, n)
			}
			args = append(args, is)
		}
		L, D, err := cholesky.Run(M, args...)
		if err != nil {
			out.Err = true
			return
		}
		out.Ms = []*FM{ReadMat(L)}
		if in.Kind != "chol" {
			out.Ms = append(out.Ms, ReadMat(D))
		}
	case "house":
		xv := MkVec(path, x)
		beta := MkScal(path, garbageVal)
		nu := garbageVec(path, len(x))
		householder.Run(xv, beta, nu, MkScal(path, 1.5), MkScal(path, 2.5), MkScal(path, 3.5))
		out.Ss = []float64{beta.GetFloat64()}
		out.Vs = [][]float64{ReadVec(nu)}
	case "houseL":
		r, c := in.M.R, in.M.C
		_ = r
		householder.ApplyLeft(M, MkScal(path, s[0]), MkVec(path, x), garbageVec(path, c), MkScal(path, 0.5))
		out.Ms = []*FM{ReadMat(M)}
	case "houseR":
		r := in.M.R
		householder.ApplyRight(M, MkScal(path, s[0]), MkVec(path, x), garbageVec(path, r), MkScal(path, 0.5))
		out.Ms = []*FM{ReadMat(M)}
	case "givens":
		c := MkScal(path, garbageVal)
		sn := MkScal(path, garbageVal)
		givensRotation.Run(MkScal(path, s[0]), MkScal(path, s[1]), c, sn)
		out.Ss = []float64{c.GetFloat64(), sn.GetFloat64()}
	case "givapply":
		c, sn := MkScal(path, s[0]), MkScal(path, s[1])
		t1, t2 := MkScal(path, 0.5), MkScal(path, 0.25)
		fs := []func(ad.Matrix, ad.Scalar, ad.Scalar, int, int, ad.Scalar, ad.Scalar){
			givensRotation.ApplyLeft, givensRotation.ApplyRight,
			givensRotation.ApplyHessenbergLeft, givensRotation.ApplyHessenbergRight,
			givensRotation.ApplyBidiagLeft, givensRotation.ApplyBidiagRight,
			givensRotation.ApplyTridiagLeft, givensRotation.ApplyTridiagRight}
		fs[in.Sub](M, c, sn, in.I, in.K, t1, t2)
		out.Ms = []*FM{ReadMat(M)}
	case "gs":
		var q, r ad.Matrix
		var err error
		if in.Garbage {
			q, r, err = gramSchmidt.Run(M, gramSchmidt.InSitu{Q: garbageMat(path, in.M.R, in.M.C), R: garbageMat(path, in.M.R, in.M.C)})
		} else {
			q, r, err = gramSchmidt.Run(M)
		}
		if err != nil {
			out.Err = true
			return
		}
		out.Ms = []*FM{ReadMat(q), ReadMat(r)}
	case "hess":
		n := in.M.R
		args := []interface{}{hessenbergReduction.ComputeU{Value: in.B1}, hessenbergReduction.SetZero{Value: in.B2}}
		if in.Garbage {
			args = append(args, &hessenbergReduction.InSitu{U: garbageMat(path, n, n), X: garbageVec(path, n),
				Nu: garbageVec(path, n), T4: garbageVec(path, n), Beta: MkScal(path, 9), T1: MkScal(path, 8)})
		}
		H, U, err := hessenbergReduction.Run(M, args...)
		if err != nil {
			out.Err = true
			return
		}
		out.Ms = []*FM{ReadMat(H), nil}
		if U != nil {
			out.Ms[1] = ReadMat(U)
		}
	case "bidiag":
		m, n := in.M.R, in.M.C
		args := []interface{}{householderBidiagonalization.ComputeU{Value: in.B1}, householderBidiagonalization.ComputeV{Value: in.B2}}
		if in.Garbage {
			args = append(args, &householderBidiagonalization.InSitu{U: garbageMat(path, m, m), V: garbageMat(path, n, n),
				X: garbageVec(path, m), Nu: garbageVec(path, m), T4: garbageVec(path, m), Beta: MkScal(path, 9)})
		}
		B, U, V, err := householderBidiagonalization.Run(M, args...)
		if err != nil {
			out.Err = true
			return
		}
		out.Ms = []*FM{ReadMat(B), nil, nil}
		if U != nil {
			out.Ms[1] = ReadMat(U)
		}
		if V != nil {
			out.Ms[2] = ReadMat(V)
		}
	case "tridiag":
		n := in.M.R
		args := []interface{}{householderTridiagonalization.ComputeU{Value: in.B1}}
		if in.Garbage {
			args = append(args, &householderTridiagonalization.InSitu{U: garbageMat(path, n, n),
				X: garbageVec(path, n), Nu: garbageVec(path, n), T4: garbageVec(path, n), Beta: MkScal(path, 9)})
		}
		T, U, err := householderTridiagonalization.Run(M, args...)
		if err != nil {
			out.Err = true
			return
		}
		out.Ms = []*FM{ReadMat(T), nil}
		if U != nil {
			out.Ms[1] = ReadMat(U)
		}
	default:
		Die("unknown direct kind %q", in.Kind)
	}
	return
}

// CoqCase prints the Coq term (C05.Corr.dcase) of an input with its observed output.
// fast: the output was produced by the Float64 path (only cholesky distinguishes).
func CoqCase(in *In, o *Out, fast bool) string {
	x := UnhexList(in.X)
	s := UnhexList(in.S)
	if o.Panic != "" {
		return fmt.Sprintf("(DPanic %q)", in.Kind)
	}
	switch in.Kind {
	case "chol":
		if o.Err {
			return fmt.Sprintf("(DChol %s %s None)", B(fast), CoqMat(in.M))
		}
		return fmt.Sprintf("(DChol %s %s (Some %s))", B(fast), CoqMat(in.M), CoqMat(o.Ms[0]))
	case "ldl", "fpd":
		c := "DLdl"
		if in.Kind == "fpd" {
			c = "DFpd"
		}
		if o.Err {
			return fmt.Sprintf("(%s %s None)", c, CoqMat(in.M))
		}
		return fmt.Sprintf("(%s %s (Some (%s, %s)))", c, CoqMat(in.M), CoqMat(o.Ms[0]), CoqMat(o.Ms[1]))
	case "house":
		return fmt.Sprintf("(DHouse %s %s %s)", FList(x), F(o.Ss[0]), FList(o.Vs[0]))
	case "houseL", "houseR":
		return fmt.Sprintf("(DHouseApply %s %s %s %s %s)", B(in.Kind == "houseL"), CoqMat(in.M), F(s[0]), FList(x), CoqMat(o.Ms[0]))
	case "givens":
		return fmt.Sprintf("(DGivens %s %s %s %s)", F(s[0]), F(s[1]), F(o.Ss[0]), F(o.Ss[1]))
	case "givapply":
		return fmt.Sprintf("(DGivApply %d %s %s %s %d %d %s)", in.Sub, CoqMat(in.M), F(s[0]), F(s[1]), in.I, in.K, CoqMat(o.Ms[0]))
	case "gs":
		r0 := NewFM(in.M.R, in.M.C)
		if in.Garbage {
			r0 = ReadMat(garbageMat("f64", in.M.R, in.M.C))
		}
		return fmt.Sprintf("(DGS %s %s %s %s)", CoqMat(r0), CoqMat(in.M), CoqMat(o.Ms[0]), CoqMat(o.Ms[1]))
	case "hess":
		return fmt.Sprintf("(DHess %s %s %s %s %s)", B(in.B2), B(in.B1), CoqMat(in.M), CoqMat(o.Ms[0]), CoqOptMat(o.Ms[1]))
	case "bidiag":
		return fmt.Sprintf("(DBidiag %s %s %s %s %s %s)", B(in.B1), B(in.B2), CoqMat(in.M), CoqMat(o.Ms[0]), CoqOptMat(o.Ms[1]), CoqOptMat(o.Ms[2]))
	case "tridiag":
		return fmt.Sprintf("(DTridiag %s %s %s %s)", B(in.B1), CoqMat(in.M), CoqMat(o.Ms[0]), CoqOptMat(o.Ms[1]))
	}
	Die("unknown direct kind %q", in.Kind)
	return ""
}

func (in *In) Key() string {
	var sb strings.Builder
	fmt.Fprintf(&sb, "%s|%d|%d|%d|%v|%v|%v|", in.Kind, in.I, in.K, in.Sub, in.B1, in.B2, in.Garbage)
	if in.InPlace { // appended only when set: keys of old inputs are unchanged
		sb.WriteString("inplace|")
	}
	if in.M != nil {
		fmt.Fprintf(&sb, "%dx%d|%s", in.M.R, in.M.C, strings.Join(HexList(in.M.V), ","))
	}
	sb.WriteString(strings.Join(in.X, ","))
	sb.WriteString(strings.Join(in.S, ","))
	return sb.String()
}
