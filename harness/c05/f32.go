// Float32 / Real32 paths of the Cholesky family: stream "cases32" (C05.Corr32.mism32).
//
// cholesky.Run is called on *DenseFloat32Matrix (-> cholesky_float32, cholesky_ldl_float32,
// cholesky_ldl_forcepd_float32) and on *DenseReal32Matrix (-> the generic routines) with
//
//	fresh    no InSitu argument,
//	garbage  recycled InSitu L (and D) full of non-zero values, non-zero S and T,
//	inplace  InSitu.L is the input matrix itself (D recycled),
//
// and the (binary32 input, observed output or error) pairs are printed as C05.Corr32.d32case
// terms.  All matrices are rounded to float32 first and the ROUNDED values are printed.
package main

import (
	"encoding/json"
	"fmt"
	"math"
	"strings"

	. "adharness/common"

	ad "github.com/pbenner/autodiff"
	"github.com/pbenner/autodiff/algorithm/cholesky"
)

const h32Header = "From Coq Require Import String List ZArith Floats.\nFrom ADV Require Import C05.Corr32.\nImport ListNotations.\nOpen Scope string_scope.\n"

// In32 is a replayable input of the 32 bit stream.
type In32 struct {
	Path   string `json:"path"` // f32 (DenseFloat32Matrix, Float32 fast path) | r32 (DenseReal32Matrix, generic)
	Kind   string `json:"kind"` // chol ldl fpd
	Mode   string `json:"mode"` // fresh garbage inplace
	M      *FM    `json:"m"`    // binary32 values (as float64)
	Family string `json:"family,omitempty"`
}
type Raw32 struct {
	In   *In32  `json:"in"`
	Note string `json:"note,omitempty"`
	// Oracle (round 7): non-empty when the returned chol / ldl factors violate the property's statement on this
	// input by the harness's own float64 residual (a concrete failing input for a mismatch of the binary32 replay)
	Oracle string `json:"oracle,omitempty"`
}

// oracle32: L lower triangular (unit for ldl), D diagonal and positive, max |L L^T - A| resp. |L D L^T - A| within
// 16 n^2 2^-24 max|A| (far above the backward error bound (n+1) u |L||L^T| of the binary32 recurrences).
// fpd is not judged here (it may legitimately modify A).  "" = satisfied / not applicable.
func oracle32(in *In32, o *Out) string {
	if o.Err || o.Panic != "" || (in.Kind != "chol" && in.Kind != "ldl") || len(o.Ms) == 0 || o.Ms[0] == nil {
		return ""
	}
	n := in.M.R
	L := o.Ms[0]
	if !L.Finite() {
		return in.Kind + ": non-finite factor L"
	}
	for i := 0; i < n; i++ {
		for j := i + 1; j < n; j++ {
			if L.At(i, j) != 0 {
				return fmt.Sprintf("%s: L(%d,%d) = %v above the diagonal", in.Kind, i, j, L.At(i, j))
			}
		}
	}
	P := L.Mul(L.T())
	if in.Kind == "ldl" {
		if len(o.Ms) < 2 || o.Ms[1] == nil || !o.Ms[1].Finite() {
			return "ldl: D missing or non-finite"
		}
		D := o.Ms[1]
		for i := 0; i < n; i++ {
			if L.At(i, i) != 1 {
				return fmt.Sprintf("ldl: L(%d,%d) = %v is not 1", i, i, L.At(i, i))
			}
			for j := 0; j < n; j++ {
				if i != j && D.At(i, j) != 0 {
					return fmt.Sprintf("ldl: D(%d,%d) = %v off the diagonal", i, j, D.At(i, j))
				}
			}
			if !(D.At(i, i) > 0) {
				return fmt.Sprintf("ldl: D(%d,%d) = %v is not positive", i, i, D.At(i, i))
			}
		}
		P = L.Mul(D).Mul(L.T())
	}
	tol := 16 * float64(n*n) * math.Ldexp(1, -24) * in.M.MaxAbs()
	worst := 0.0
	for i := 0; i < n; i++ {
		for j := 0; j < n; j++ {
			if d := math.Abs(P.At(i, j) - in.M.At(i, j)); d > worst {
				worst = d
			}
		}
	}
	if worst > tol {
		return fmt.Sprintf("%s (%s, InSitu mode %s): factors do not reproduce A: max residual %.3g (tolerance %.3g)", in.Kind, in.Path, in.Mode, worst, tol)
	}
	return ""
}

func round32(m *FM) *FM {
	b := m.Clone()
	for i, x := range b.V {
		b.V[i] = float64(float32(x))
	}
	return b
}
func to32(m *FM) []float32 {
	v := make([]float32, len(m.V))
	for i, x := range m.V {
		v[i] = float32(x)
	}
	return v
}
func mkMat32(path string, m *FM) ad.Matrix {
	if path == "r32" {
		return ad.NewDenseReal32Matrix(to32(m), m.R, m.C)
	}
	return ad.NewDenseFloat32Matrix(to32(m), m.R, m.C)
}
func mkScal32(path string, x float32) ad.Scalar {
	if path == "r32" {
		return ad.NewReal32(x)
	}
	return ad.NewFloat32(x)
}
func garbage32(path string, n int, base float64) ad.Matrix {
	m := NewFM(n, n)
	for i := range m.V {
		m.V[i] = base + float64(i)
	}
	return mkMat32(path, m)
}

// Run32 executes cholesky.Run as described by in.
func Run32(in *In32) (out *Out) {
	out = &Out{}
	defer func() {
		if r := recover(); r != nil {
			out = &Out{Panic: fmt.Sprint(r)}
		}
	}()
	n := in.M.R
	A := mkMat32(in.Path, in.M)
	args := []interface{}{}
	if in.Kind != "chol" {
		args = append(args, cholesky.LDL{Value: true})
	}
	if in.Kind == "fpd" {
		args = append(args, cholesky.ForcePD{Value: true})
	}
	switch in.Mode {
	case "garbage":
		is := &cholesky.InSitu{L: garbage32(in.Path, n, garbageVal), S: mkScal32(in.Path, 3.5), T: mkScal32(in.Path, -2.5)}
		if in.Kind != "chol" {
			is.D = garbage32(in.Path, n, -garbageVal)
		}
		args = append(args, is)
	case "inplace":
		is := &cholesky.InSitu{L: A, S: mkScal32(in.Path, -1.5), T: mkScal32(in.Path, 0.75)}
		if in.Kind != "chol" {
			is.D = garbage32(in.Path, n, 1.5)
		}
		args = append(args, is)
	}
	L, D, err := cholesky.Run(A, args...)
	if err != nil {
		out.Err = true
		return
	}
	// the dispatch is part of what is observed: the result must be of the input's matrix type
	switch in.Path {
	case "f32":
		if _, ok := L.(*ad.DenseFloat32Matrix); !ok {
			return &Out{Panic: "result is not a DenseFloat32Matrix"}
		}
	case "r32":
		if _, ok := L.(*ad.DenseReal32Matrix); !ok {
			return &Out{Panic: "result is not a DenseReal32Matrix"}
		}
	}
	out.Ms = []*FM{ReadMat(L)}
	if in.Kind != "chol" {
		out.Ms = append(out.Ms, ReadMat(D))
	}
	return
}

func coqCase32(in *In32, o *Out) string {
	if o.Panic != "" {
		return fmt.Sprintf("(D32Panic %q)", in.Kind)
	}
	p := "PFloat32"
	if in.Path == "r32" {
		p = "PReal32"
	}
	r := map[string]string{"chol": "RChol", "ldl": "RLdl", "fpd": "RFpd"}[in.Kind]
	res := "None"
	if !o.Err {
		ms := make([]string, len(o.Ms))
		for i, m := range o.Ms {
			ms[i] = CoqMat(m)
		}
		res = "(Some " + List(ms) + ")"
	}
	return fmt.Sprintf("(D32 %s %s %s %s %s)", p, r, B(in.Mode == "inplace"), CoqMat(in.M), res)
}

func (in *In32) Key() string {
	return fmt.Sprintf("%s|%s|%s|%d|%s", in.Path, in.Kind, in.Mode, in.M.R, strings.Join(HexList(in.M.V), ","))
}

// ---------------------------------------------------------------- generators

func randBits32(r *Rng, n, m int, scale float64) *FM {
	a := NewFM(n, m)
	for i := range a.V {
		a.V[i] = float64(float32((2*r.Float() - 1) * scale))
	}
	return a
}

// symmetric inputs aimed at the binary32 arithmetic; the result is rounded by the caller
func genSym32(r *Rng, n int) (*FM, string) {
	switch r.Pick([]int{6, 5, 3, 3, 2, 2, 2, 2}) {
	case 0: // the float64 families of gen.go (SPD Gram, scaled, indefinite, singular, graded, zero ...)
		a, fam := genSym(r, n)
		return a, fam
	case 1: // G^T G of a float G with 24 bit entries: every product and partial sum is inexact in binary32
		g := randBits32(r, n+1, n, 2)
		a := g.T().Mul(g)
		for i := 0; i < n; i++ {
			a.Set(i, i, a.At(i, i)+r.Float())
		}
		return a, "spd-manybits-gram"
	case 2: // diagonally dominant, 24 bit entries of mixed magnitude
		a := symmetrize(randBits32(r, n, n, 1))
		for i := 0; i < n; i++ {
			a.Set(i, i, float64(n)*(0.5+r.Float()))
		}
		return a, "spd-manybits-dominant"
	case 3: // nearly singular at binary32 resolution: rank n-1 integer Gram + 2^-k
		k := n - 1
		if k < 1 {
			k = 1
		}
		a := gram(r, n, k, 0)
		sh := math.Ldexp(1, -r.Range(8, 22))
		for i := 0; i < n; i++ {
			a.Set(i, i, a.At(i, i)+sh)
		}
		return a, "spd-nearly-singular32"
	case 4: // already diagonal (positive, or with one non-positive entry)
		a := NewFM(n, n)
		for i := 0; i < n; i++ {
			a.Set(i, i, (0.1+r.Float())*math.Pow(10, float64(r.Range(-3, 3))))
		}
		if r.Intn(3) == 0 {
			i := r.Intn(n)
			a.Set(i, i, []float64{0, -1, -a.At(i, i)}[r.Intn(3)])
		}
		return a, "diagonal"
	case 5: // graded scales with 24 bit entries
		g := randBits32(r, n+1, n, 2)
		a := g.T().Mul(g)
		for i := 0; i < n; i++ {
			a.Set(i, i, a.At(i, i)+0.5)
		}
		return graded(a, float64(r.Range(2, 40))), "spd-graded-manybits"
	case 6: // extreme binary32 scales: subnormal entries / products, entries near the overflow threshold
		e := []int{-140, -128, -100, -70, 60, 100, 118}[r.Intn(7)]
		g := randBits32(r, n+1, n, 1)
		a := g.T().Mul(g)
		for i := 0; i < n; i++ {
			a.Set(i, i, a.At(i, i)+0.25)
		}
		return scaleM(a, math.Ldexp(1, e)), "spd-extreme-scale"
	default: // indefinite with 24 bit entries: error returns late in the factorisation, forcePD corrections
		a := symmetrize(randBits32(r, n, n, 3))
		for i := 0; i < n; i++ {
			a.Set(i, i, a.At(i, i)+float64(r.Range(0, 3)))
		}
		return a, "indefinite-manybits"
	}
}

// ---------------------------------------------------------------- stream

type runner32 struct{ w *CaseWriter }

func newRunner32(o Opts, name string, per int) *runner32 {
	w := NewCaseWriter(o.Out, name, h32Header, "mism32", per)
	w.Type = "d32case"
	w.Rule = "Cholesky routine through a 32 bit path on a matrix with >= 2 rows; distinct = distinct (path, routine, InSitu mode, input bits)"
	return &runner32{w: w}
}

// same values as the Float64 path rounded entry by entry to binary32?
func sameAsRounded64(in *In32, o *Out) bool {
	in64 := &In{Kind: in.Kind, M: in.M}
	o64 := RunDirect(in64, "f64")
	if o64.Err != o.Err || o64.Panic != o.Panic || len(o64.Ms) != len(o.Ms) {
		return false
	}
	for i := range o.Ms {
		if !SameFM(round32(o64.Ms[i]), o.Ms[i]) {
			return false
		}
	}
	return true
}

func (rn *runner32) run(in *In32) *Out {
	w := rn.w
	o := Run32(in)
	w.Count("path:" + in.Path)
	w.Count("kind:" + in.Kind)
	w.Count("mode:" + in.Mode)
	w.Count("family:" + in.Kind + "/" + in.Family)
	w.Count(fmt.Sprintf("size:%d", in.M.R))
	switch {
	case o.Panic != "":
		w.Count("outcome:panic")
	case o.Err:
		w.Count("outcome:error(" + in.Kind + ")")
	default:
		w.Count("outcome:value")
		if in.Mode == "inplace" && in.Kind == "fpd" {
			// F-FPD-INPLACE: with InSitu.L aliasing the input, L(j,j) = 1 is written before A(j,j) is read.
			// Observed (not assumed): compare with the call on fresh buffers.
			fresh := *in
			fresh.Mode = "fresh"
			if of := Run32(&fresh); !of.Same(o) {
				w.Count("fpd-inplace-differs-from-fresh")
			} else {
				w.Count("fpd-inplace-equals-fresh")
			}
		}
		if in.Mode != "inplace" || in.Kind != "fpd" {
			if sameAsRounded64(in, o) {
				w.Count("value-equals-rounded-float64-result")
			} else {
				w.Count("value-differs-from-rounded-float64-result")
			}
		}
	}
	raw := Raw32{In: in}
	if raw.Oracle = oracle32(in, o); raw.Oracle != "" {
		w.Count("oracle32:factors-violate-the-statement")
	}
	w.Add(coqCase32(in, o), raw, in.Key(), in.M.R >= 2)
	return o
}

func (rn *runner32) both(kind, mode, fam string, m *FM) {
	m = round32(m).Pack()
	of := rn.run(&In32{Path: "f32", Kind: kind, Mode: mode, M: m, Family: fam})
	or := rn.run(&In32{Path: "r32", Kind: kind, Mode: mode, M: m, Family: fam})
	if of.Same(or) {
		rn.w.Count("paths:agree")
	} else {
		rn.w.Count("paths:differ")
	}
}

// runF32Stream writes the shards cases32_<k>.v (+ cases32.meta.json, cases32.jsonl) under o.Out.
func runF32Stream(o Opts, corpus *Corpus) {
	rn := newRunner32(o, "cases32", 30)
	modes := []string{"fresh", "garbage", "inplace"}
	kinds := []string{"chol", "ldl", "fpd"}
	for _, d := range corpus.Direct {
		if d.Kind != "chol" && d.Kind != "ldl" && d.Kind != "fpd" {
			continue
		}
		rn.w.Count("corpus")
		mode := "fresh"
		if d.Garbage {
			mode = "garbage"
		}
		rn.both(d.Kind, mode, d.Family, d.M)
	}
	rng := NewRng(o.Seed*1000003 + 3205).Split()
	n32 := o.N / 8
	if n32 < 30 {
		n32 = 30
	}
	// accumulator probes: a float64 accumulator (or a fused / reordered sum) shows only in sums of >= 3
	// inexact terms, i.e. from column 3 on: sizes 6, 7, 8 (6, 10, 15 such sums) with 24 bit entries,
	// for every routine
	for i := 0; i < 9; i++ {
		r := rng.Split()
		n := 6 + i%3
		// entries of mixed magnitude: the partial sums are rounded at every step
		g := randBits32(r, n+1, n, 1)
		for k := range g.V {
			g.V[k] = math.Ldexp(g.V[k], r.Range(-3, 3))
		}
		a := g.T().Mul(g)
		for k := 0; k < n; k++ {
			a.Set(k, k, a.At(k, k)+r.Float())
		}
		rn.w.Count("accumulator-probe")
		rn.both(kinds[i/3], modes[i%3], "spd-manybits-gram-probe", a)
	}
	for i := 0; i < n32; i++ {
		r := rng.Split()
		// every (routine, mode) pair in turn; sizes 1..6 with the larger ones more frequent
		kind := kinds[i%3]
		mode := modes[(i/3)%3]
		n := []int{1, 2, 2, 3, 3, 3, 4, 4, 4, 5, 5, 6}[r.Intn(12)]
		a, fam := genSym32(r, n)
		rn.both(kind, mode, fam, a)
	}
	if err := rn.w.Flush(); err != nil {
		Die("flush cases32: %v", err)
	}
}

// replayF32 re-executes a replay file that holds a "case32" record; returns true if it did.
func replayF32(b []byte, o Opts) bool {
	var rp struct {
		Case32 *Raw32 `json:"case32"`
	}
	if err := json.Unmarshal(b, &rp); err != nil || rp.Case32 == nil || rp.Case32.In == nil || rp.Case32.In.M == nil {
		return false
	}
	in := rp.Case32.In
	in.M.Unpack()
	in.M = round32(in.M).Pack()
	rn := newRunner32(o, "replay32", 100)
	rn.run(in)
	if err := rn.w.Flush(); err != nil {
		Die("flush replay32: %v", err)
	}
	return true
}
