// Round 5 streams.
//
//	icases  (C05.CorrIter.imism): the WHOLE run of the symmetric QR algorithm, the Francis QR algorithm and
//	        the Golub-Kahan SVD is recomputed inside Coq by the fuelled loop models of C05.ModelIter
//	        (control flow included) from the input and must equal the library's factors bit for bit;
//	        options: ComputeU / ComputeV, Epsilon (default and explicit), fresh call, caller-supplied
//	        non-identity InSitu buffers, and the SECOND run of an InSitu-reuse history.
//	hcases  (C05.Corr.mism): InSitu-reuse histories of every DIRECT routine: one InSitu object, run on A1,
//	        then on A2 (other options allowed): the second result is replayed against the model on A2
//	        (which has no buffers).  For the routines without an executable model (eigensystem, msqrt,
//	        msqrtInv) the second result must be bit-equal to a call on fresh buffers.
//
// Every history is also compared with a fresh call by the harness itself (histogram "history:*").
package main

import (
	"encoding/json"
	"fmt"
	"strings"
	"time"

	. "adharness/common"

	ad "github.com/pbenner/autodiff"
	"github.com/pbenner/autodiff/algorithm/cholesky"
	"github.com/pbenner/autodiff/algorithm/eigensystem"
	"github.com/pbenner/autodiff/algorithm/gramSchmidt"
	"github.com/pbenner/autodiff/algorithm/hessenbergReduction"
	"github.com/pbenner/autodiff/algorithm/householderBidiagonalization"
	"github.com/pbenner/autodiff/algorithm/householderTridiagonalization"
	"github.com/pbenner/autodiff/algorithm/msqrt"
	"github.com/pbenner/autodiff/algorithm/msqrtInv"
	"github.com/pbenner/autodiff/algorithm/qrAlgorithm"
	"github.com/pbenner/autodiff/algorithm/svd"
)

const itHeader = "From Coq Require Import String List ZArith Floats.\nFrom ADV Require Import C05.CorrIter.\nImport ListNotations.\nOpen Scope string_scope.\n"

// HistIn: one replayable round-5 case.
type HistIn struct {
	Kind string `json:"kind"` // symqr qr svd | chol ldl fpd gs hess bidiag tridiag | eig eigsym msqrt msqrtinv
	// Mode: fresh (no InSitu) | garbage (caller-supplied non-identity buffers) | history (run on M1 first,
	// then on M with the same InSitu) | history-garbage | history-noinit (qr, eig: InitializeH left false)
	Mode string  `json:"mode"`
	M    *FM     `json:"m"`
	M1   *FM     `json:"m1,omitempty"`
	CU   bool    `json:"cu,omitempty"`
	CV   bool    `json:"cv,omitempty"`
	CU1  bool    `json:"cu1,omitempty"` // options of the first run of a history
	CV1  bool    `json:"cv1,omitempty"`
	Eps  float64 `json:"eps,omitempty"` // 0 = the routine's default
	Path string  `json:"path,omitempty"`
	Family string `json:"family,omitempty"`
}

type HistRaw struct {
	In      *HistIn `json:"in"`
	Outcome string  `json:"outcome,omitempty"`
}

func (h *HistIn) isHistory() bool { return strings.HasPrefix(h.Mode, "history") }
func (h *HistIn) garbage() bool   { return strings.HasSuffix(h.Mode, "garbage") }
func (h *HistIn) path() string {
	if h.Path == "" {
		return "f64"
	}
	return h.Path
}

func (h *HistIn) key() string {
	k := fmt.Sprintf("%s|%s|%v|%v|%v|%v|%g|%s|%dx%d|%s", h.Kind, h.Mode, h.CU, h.CV, h.CU1, h.CV1, h.Eps, h.path(),
		h.M.R, h.M.C, strings.Join(HexList(h.M.V), ","))
	if h.M1 != nil {
		k += "|" + strings.Join(HexList(h.M1.V), ",")
	}
	return k
}

func histGarbage(path string, r, c int, base float64) ad.Matrix {
	m := NewFM(r, c)
	for i := range m.V {
		m.V[i] = base + 0.5*float64(i%7) - float64(i%3)
	}
	return MkMat(path, m)
}

// ---------------------------------------------------------------- iterative routines with a loop model

func (h *HistIn) epsOr(def float64) float64 {
	if h.Eps != 0 {
		return h.Eps
	}
	return def
}

// skeleton pre-check (trace.go): does the routine converge on m within the sweep cap, with this epsilon?
func histConverges(kind string, m *FM, eps float64) bool {
	switch kind {
	case "symqr":
		old := trSymEpsilon
		trSymEpsilon = eps
		_, _, _, st := skelSymQR(m, false, traceSweepCap(m.R))
		trSymEpsilon = old
		return st == "ok"
	case "qr":
		old := trSymEpsilon
		trSymEpsilon = eps
		_, _, st := skelFrancisQR(m, false, traceSweepCap(m.R))
		trSymEpsilon = old
		return st == "ok"
	default:
		old := trSvdEpsilon
		trSvdEpsilon = eps
		_, _, st := skelSVD(m, false, false, traceSweepCap(m.C))
		trSvdEpsilon = old
		return st == "ok"
	}
}

type histOut struct {
	Ms     []*FM
	Vs     [][]float64
	Status string // ok | error | panic: .. | timeout
}

func sameHistOut(a, b *histOut) bool {
	if a.Status != b.Status || len(a.Ms) != len(b.Ms) || len(a.Vs) != len(b.Vs) {
		return false
	}
	for i := range a.Ms {
		if !SameFM(a.Ms[i], b.Ms[i]) {
			return false
		}
	}
	for i := range a.Vs {
		if !SameVec(a.Vs[i], b.Vs[i]) {
			return false
		}
	}
	return true
}

// persistent InSitu objects of one history
type histState struct {
	qr  *qrAlgorithm.InSitu
	sv  *svd.InSitu
	ch  *cholesky.InSitu
	gs  *gramSchmidt.InSitu
	he  *hessenbergReduction.InSitu
	bi  *householderBidiagonalization.InSitu
	tr  *householderTridiagonalization.InSitu
	eig *eigensystem.InSitu
}

func newHistState(h *HistIn, r, c int) *histState {
	p := h.path()
	st := &histState{}
	g := h.garbage()
	switch h.Kind {
	case "symqr", "qr":
		st.qr = &qrAlgorithm.InSitu{InitializeH: h.Mode != "history-noinit", InitializeU: true}
		if g {
			st.qr.H = histGarbage(p, r, r, 3.25)
			st.qr.U = histGarbage(p, r, r, -1.75)
			st.qr.T4 = garbageVec(p, r)
			st.qr.T1, st.qr.T2, st.qr.T3 = MkScal(p, 5), MkScal(p, 6), MkScal(p, 7)
			st.qr.S = MkScal(p, 8)
		}
	case "svd":
		st.sv = &svd.InSitu{}
		if g {
			st.sv.A = histGarbage(p, r, c, 2.5)
			st.sv.U = histGarbage(p, r, r, -4.5)
			st.sv.V = histGarbage(p, c, c, 1.5)
			st.sv.Mu, st.sv.C, st.sv.S = MkScal(p, 3), MkScal(p, 4), MkScal(p, 5)
		}
	case "chol", "ldl", "fpd":
		st.ch = &cholesky.InSitu{}
		if g {
			st.ch.L = histGarbage(p, r, r, 7.25)
			st.ch.S, st.ch.T = MkScal(p, 3.5), MkScal(p, -2.5)
			if h.Kind != "chol" {
				st.ch.D = histGarbage(p, r, r, -3.25)
			}
		}
	case "gs":
		// passed by value: only caller-supplied buffers persist
		st.gs = &gramSchmidt.InSitu{Q: histGarbage(p, r, c, 7.25), R: histGarbage(p, r, c, -2.25)}
	case "hess":
		st.he = &hessenbergReduction.InSitu{}
		if g {
			st.he.H = histGarbage(p, r, r, 1.25)
			st.he.U = histGarbage(p, r, r, 7.25)
			st.he.X, st.he.Nu, st.he.T4 = garbageVec(p, r), garbageVec(p, r), garbageVec(p, r)
			st.he.Beta, st.he.T1 = MkScal(p, 9), MkScal(p, 8)
		}
	case "bidiag":
		st.bi = &householderBidiagonalization.InSitu{}
		if g {
			st.bi.A = histGarbage(p, r, c, 1.25)
			st.bi.U = histGarbage(p, r, r, 7.25)
			st.bi.V = histGarbage(p, c, c, -7.25)
			st.bi.X, st.bi.Nu, st.bi.T4 = garbageVec(p, r), garbageVec(p, r), garbageVec(p, r)
			st.bi.Beta = MkScal(p, 9)
		}
	case "tridiag":
		st.tr = &householderTridiagonalization.InSitu{}
		if g {
			st.tr.A = histGarbage(p, r, r, 1.25)
			st.tr.U = histGarbage(p, r, r, 7.25)
			st.tr.X, st.tr.Nu, st.tr.T4 = garbageVec(p, r), garbageVec(p, r), garbageVec(p, r)
			st.tr.Beta = MkScal(p, 9)
		}
	case "eig", "eigsym":
		st.eig = &eigensystem.InSitu{}
		st.eig.QrAlgorithm.InitializeH = h.Mode != "history-noinit"
		if g {
			st.eig.Eigenvalues = garbageVec(p, r)
			st.eig.Eigenvectors = histGarbage(p, r, r, 2.75)
			if h.Kind == "eigsym" {
				st.eig.QrAlgorithm.U = st.eig.Eigenvectors
			}
		}
	}
	return st
}

// histCall: one call of the routine on m; st == nil: no InSitu argument at all.
func histCall(h *HistIn, m *FM, cu, cv bool, st *histState) (o *histOut) {
	o = &histOut{Status: "ok"}
	defer func() {
		if r := recover(); r != nil {
			o = &histOut{Status: "panic: " + fmt.Sprint(r)}
		}
	}()
	p := h.path()
	M := MkMat(p, m)
	fail := func(err error) bool {
		if err != nil {
			o.Status = "error"
			return true
		}
		return false
	}
	switch h.Kind {
	case "symqr", "qr":
		args := []interface{}{qrAlgorithm.ComputeU{Value: cu}}
		if h.Kind == "symqr" {
			args = append(args, qrAlgorithm.Symmetric{Value: true})
		}
		if h.Eps != 0 {
			args = append(args, qrAlgorithm.Epsilon{Value: h.Eps})
		}
		if st != nil {
			args = append(args, st.qr)
		}
		H, U, err := qrAlgorithm.Run(M, args...)
		if fail(err) {
			return
		}
		o.Ms = []*FM{ReadMat(H), trReadOpt(U)}
	case "svd":
		args := []interface{}{svd.ComputeU{Value: cu}, svd.ComputeV{Value: cv}}
		if h.Eps != 0 {
			args = append(args, svd.Epsilon{Value: h.Eps})
		}
		if st != nil {
			args = append(args, st.sv)
		}
		H, U, V, err := svd.Run(M, args...)
		if fail(err) {
			return
		}
		o.Ms = []*FM{ReadMat(H), trReadOpt(U), trReadOpt(V)}
	case "chol", "ldl", "fpd":
		args := []interface{}{}
		if h.Kind != "chol" {
			args = append(args, cholesky.LDL{Value: true})
		}
		if h.Kind == "fpd" {
			args = append(args, cholesky.ForcePD{Value: true})
		}
		if st != nil {
			args = append(args, st.ch)
		}
		L, D, err := cholesky.Run(M, args...)
		if fail(err) {
			return
		}
		o.Ms = []*FM{ReadMat(L)}
		if h.Kind != "chol" {
			o.Ms = append(o.Ms, ReadMat(D))
		}
	case "gs":
		var q, r ad.Matrix
		var err error
		if st != nil {
			q, r, err = gramSchmidt.Run(M, *st.gs)
		} else {
			q, r, err = gramSchmidt.Run(M)
		}
		if fail(err) {
			return
		}
		o.Ms = []*FM{ReadMat(q), ReadMat(r)}
	case "hess":
		args := []interface{}{hessenbergReduction.ComputeU{Value: cu}, hessenbergReduction.SetZero{Value: cv}}
		if st != nil {
			args = append(args, st.he)
		}
		H, U, err := hessenbergReduction.Run(M, args...)
		if fail(err) {
			return
		}
		o.Ms = []*FM{ReadMat(H), trReadOpt(U)}
	case "bidiag":
		args := []interface{}{householderBidiagonalization.ComputeU{Value: cu}, householderBidiagonalization.ComputeV{Value: cv}}
		if st != nil {
			args = append(args, st.bi)
		}
		B, U, V, err := householderBidiagonalization.Run(M, args...)
		if fail(err) {
			return
		}
		o.Ms = []*FM{ReadMat(B), trReadOpt(U), trReadOpt(V)}
	case "tridiag":
		args := []interface{}{householderTridiagonalization.ComputeU{Value: cu}}
		if st != nil {
			args = append(args, st.tr)
		}
		T, U, err := householderTridiagonalization.Run(M, args...)
		if fail(err) {
			return
		}
		o.Ms = []*FM{ReadMat(T), trReadOpt(U)}
	case "eig", "eigsym":
		args := []interface{}{eigensystem.ComputeEigenvectors{Value: cu}}
		if h.Kind == "eigsym" {
			args = append(args, eigensystem.Symmetric{Value: true})
		}
		if st != nil {
			args = append(args, st.eig)
		}
		e, v, err := eigensystem.Run(M, args...)
		if fail(err) {
			return
		}
		o.Vs = [][]float64{ReadVec(e)}
		o.Ms = []*FM{nil}
		if v != nil && cu {
			o.Ms[0] = ReadMat(v)
		}
	case "msqrt":
		x, err := msqrt.Run(M)
		if fail(err) {
			return
		}
		o.Ms = []*FM{ReadMat(x)}
	case "msqrtinv":
		x, err := msqrtInv.Run(M)
		if fail(err) {
			return
		}
		o.Ms = []*FM{ReadMat(x)}
	default:
		Die("unknown history kind %q", h.Kind)
	}
	return
}

var histDeadline = 3 * time.Second

// histRun executes the case: returns the observed result of the LAST run and the result of a fresh call
// on the same input (nil when Mode is fresh).
func histRun(h *HistIn) (last, fresh *histOut) {
	type pair struct{ a, b *histOut }
	ch := make(chan pair, 1)
	go func() {
		var st *histState
		if h.Mode != "fresh" {
			st = newHistState(h, h.M.R, h.M.C)
		}
		if h.isHistory() {
			first := histCall(h, h.M1, h.CU1, h.CV1, st)
			_ = first
		}
		l := histCall(h, h.M, h.CU, h.CV, st)
		var f *histOut
		if h.Mode != "fresh" {
			f = histCall(h, h.M, h.CU, h.CV, nil)
		}
		ch <- pair{l, f}
	}()
	select {
	case p := <-ch:
		return p.a, p.b
	case <-time.After(histDeadline):
		hung++
		return &histOut{Status: "timeout"}, nil
	}
}

func coqIterCase(h *HistIn, o *histOut) string {
	fuel := traceSweepCap(h.M.R)
	switch h.Kind {
	case "symqr":
		return fmt.Sprintf("(ISym %d %s %s %s %s %s)", fuel, F(h.epsOr(trSymEpsilonDefault)), B(h.CU), CoqMat(h.M), CoqMat(o.Ms[0]), CoqOptMat(o.Ms[1]))
	case "qr":
		return fmt.Sprintf("(IFrancis %d %s %s %s %s %s)", fuel, F(h.epsOr(trSymEpsilonDefault)), B(h.CU), CoqMat(h.M), CoqMat(o.Ms[0]), CoqOptMat(o.Ms[1]))
	default:
		return fmt.Sprintf("(ISvd %d %s %s %s %s %s %s %s)", fuel, F(h.epsOr(trSvdEpsilonDefault)), B(h.CU), B(h.CV), CoqMat(h.M),
			CoqMat(o.Ms[0]), CoqOptMat(o.Ms[1]), CoqOptMat(o.Ms[2]))
	}
}

const trSymEpsilonDefault = 1e-18
const trSvdEpsilonDefault = 1.11e-16

func isIterKind(k string) bool { return k == "symqr" || k == "qr" || k == "svd" }

// addHist runs one case and appends it to the stream of its kind.
func addHist(iw, hw *CaseWriter, h *HistIn) {
	w := hw
	if isIterKind(h.Kind) {
		w = iw
	}
	w.Count("kind:" + h.Kind)
	w.Count("mode:" + h.Mode)
	w.Count("family:" + h.Kind + "/" + h.Family)
	w.Count(fmt.Sprintf("size:%d", h.M.R))
	if h.Eps != 0 {
		w.Count("explicit-epsilon")
	}
	if isIterKind(h.Kind) {
		def := trSymEpsilonDefault
		if h.Kind == "svd" {
			def = trSvdEpsilonDefault
		}
		if !histConverges(h.Kind, h.M, h.epsOr(def)) || (h.isHistory() && !histConverges(h.Kind, h.M1, h.epsOr(def))) {
			w.Count("outcome:skeleton-cap(library not called)")
			return
		}
	}
	last, fresh := histRun(h)
	if last.Status == "timeout" {
		w.Count("outcome:timeout")
		if isIterKind(h.Kind) {
			// the lock-step skeleton converged on this input with this epsilon: the library's control flow differs
			iw.Add(fmt.Sprintf("(IFail %q)", "library did not return although the lock-step skeleton converged: "+h.Kind+" ("+h.Mode+")"),
				HistRaw{In: h, Outcome: "timeout"}, h.key(), h.M.R >= 2)
		}
		return
	}
	nontriv := h.M.R >= 2
	raw := HistRaw{In: h, Outcome: last.Status}
	// harness-side history independence (every kind)
	if fresh != nil {
		if sameHistOut(last, fresh) {
			w.Count("history:same-as-fresh")
		} else {
			w.Count("history:DIFFERS-from-fresh")
			raw.Outcome = "differs-from-fresh"
			if h.Mode == "history-noinit" {
				// observed for the record only (finding F-QR-INSITU-STALE-H): counted by the plugin
				w.Count("stale-H:second-run-ignores-its-input")
				return
			}
			if (h.Kind == "eig" || h.Kind == "eigsym") && last.Status == "ok" && fresh.Status == "ok" &&
				SameVec(last.Vs[0], fresh.Vs[0]) {
				// F-EIG-INSITU-REUSE: with a re-used / caller-supplied eigensystem.InSitu the eigenVALUES are those
				// of a fresh call, the eigenVECTORS are not (stale column entries are never cleared)
				hw.Count("eig-insitu-reuse:eigenvectors-differ-from-fresh")
				if l, _ := hw.Extra["eig_reuse"].([]HistRaw); len(l) < 3 {
					hw.Extra["eig_reuse"] = append(l, raw)
				}
				return
			}
			if !isIterKind(h.Kind) && !histDirectKind(h.Kind) {
				hw.Add(fmt.Sprintf("(DPanic %q)", "history-differs:"+h.Kind), raw, h.key(), nontriv)
				return
			}
			// kinds with a model: the model decides below (it is what a fresh call must return, too)
		}
	}
	if h.Mode == "history-noinit" {
		return
	}
	if last.Status != "ok" {
		w.Count("outcome:" + strings.SplitN(last.Status, ":", 2)[0])
		if strings.HasPrefix(last.Status, "panic") {
			if isIterKind(h.Kind) {
				iw.Add(fmt.Sprintf("(IFail %q)", "panic in "+h.Kind+" ("+h.Mode+")"), raw, h.key(), nontriv)
			} else {
				hw.Add(fmt.Sprintf("(DPanic %q)", h.Kind+" ("+h.Mode+")"), raw, h.key(), nontriv)
			}
			return
		}
		if !histDirectKind(h.Kind) || (h.Kind != "chol" && h.Kind != "ldl") {
			return // a returned error of a routine without an error model: loud failure, not a wrong factorization
		}
	} else {
		w.Count("outcome:value")
	}
	switch {
	case isIterKind(h.Kind):
		iw.Add(coqIterCase(h, last), raw, h.key(), nontriv)
	case histDirectKind(h.Kind):
		in := &In{Kind: h.Kind, M: h.M, B1: h.CU, B2: h.CV, Garbage: true}
		out := &Out{Err: last.Status == "error", Ms: last.Ms}
		if h.Kind == "gs" && !h.garbage() && h.Mode != "history" {
			in.Garbage = false
		}
		hw.Add(histCoqDirect(in, out, h), raw, h.key(), nontriv)
	default:
		// eig / msqrt / msqrtinv: decided by the comparison with the fresh call above
		hw.Add("(DGivens 0%float 0%float 1%float 0%float)", raw, h.key(), false)
	}
}

func histDirectKind(k string) bool {
	switch k {
	case "chol", "ldl", "fpd", "gs", "hess", "bidiag", "tridiag":
		return true
	}
	return false
}

// the dcase of a direct routine; gs prints the buffer content R0 (the HEAD model zeroes it: any R0 of the
// right shape gives the same result, the second run's buffer is the first run's R)
func histCoqDirect(in *In, o *Out, h *HistIn) string {
	if h.Kind == "gs" {
		r0 := ReadMat(histGarbage("f64", h.M.R, h.M.C, -2.25))
		return fmt.Sprintf("(DGS %s %s %s %s)", CoqMat(r0), CoqMat(h.M), CoqMat(o.Ms[0]), CoqMat(o.Ms[1]))
	}
	return CoqCase(in, o, h.path() == "f64")
}

// ---------------------------------------------------------------- generators

func histPairOf(r *Rng, kind string, idx, maxn int) (m1, m *FM, fam string) {
	switch kind {
	case "symqr", "tridiag", "eigsym":
		a := genTraceSym(r.Split(), idx, maxn)
		n := a.M.R
		b := symmetrize(randFloat(r, n, n, 2))
		if idx%3 == 1 {
			b = symmetrize(randInt(r, n, n, -3, 3))
		}
		return b, a.M, a.Family
	case "svd", "bidiag", "gs":
		a := genTraceSvd(r.Split(), idx, maxn)
		b := randFloat(r, a.M.R, a.M.C, 3)
		return b, a.M, a.Family
	case "chol", "ldl", "fpd", "msqrt", "msqrtinv":
		n := r.Range(1, maxn)
		a := gram(r, n, n+2, float64(r.Range(1, 3)))
		b := gram(r, n, n+1, 1)
		if kind == "fpd" && idx%2 == 1 {
			a = symmetrize(randInt(r, n, n, -4, 4))
		}
		return b, a, "gram"
	default: // qr hess eig
		a := genTraceQR(r.Split(), idx, maxn)
		n := a.M.R
		if kind == "eig" {
			// real, separated spectrum: near-triangular family only
			a = genTraceQR(r.Split(), 2, maxn)
			n = a.M.R
		}
		b := randFloat(r, n, n, 2)
		if kind == "eig" {
			b = genTraceQR(r.Split(), 2, n).M
			for b.R != n {
				b = genTraceQR(r.Split(), 2, n).M
			}
		}
		return b, a.M, a.Family
	}
}

var histModes = []string{"history", "history-garbage", "garbage", "history", "fresh"}

func genHist(r *Rng, kind string, idx, maxn int) *HistIn {
	m1, m, fam := histPairOf(r, kind, idx, maxn)
	h := &HistIn{Kind: kind, M: m.Pack(), Family: fam, Path: "f64"}
	h.Mode = histModes[idx%len(histModes)]
	if !isIterKind(kind) && h.Mode == "fresh" {
		h.Mode = "history-garbage"
	}
	if kind == "msqrt" || kind == "msqrtinv" {
		h.Mode = "history"
	}
	if h.isHistory() {
		h.M1 = m1.Pack()
	}
	if idx%4 == 3 {
		h.Path = "r64"
	}
	h.CU, h.CV = idx%5 != 4, idx%3 != 2
	h.CU1, h.CV1 = idx%2 == 0, idx%7 != 3
	if kind == "eig" || kind == "eigsym" {
		h.CU, h.CU1 = true, idx%2 == 0
	}
	if isIterKind(kind) {
		switch idx % 6 {
		case 2:
			h.Eps = 1e-12
		case 5:
			h.Eps = 1e-8
		}
	}
	return h
}

// ---------------------------------------------------------------- stream drivers

func newIterWriter(o Opts, name string, per int) *CaseWriter {
	w := NewCaseWriter(o.Out, name, itHeader, "imism", per)
	w.Type = "icase"
	w.Rule = "whole run of an iterative routine (symmetric QR, Francis QR, Golub-Kahan SVD) on a matrix with >= 2 rows that returned a value, recomputed by the fuelled loop model; distinct = distinct (routine, mode, options, epsilon, input bits)"
	return w
}
func newHistWriter(o Opts, name string, per int) *CaseWriter {
	w := NewCaseWriter(o.Out, name, dHeader, "mism", per)
	w.Type = "dcase"
	w.Rule = "second run of an InSitu-reuse history (or a run on caller-supplied non-identity buffers) of a direct routine on a matrix with >= 2 rows, replayed against the buffer-free model; eigensystem / msqrt / msqrtInv: bit-equality with a fresh call (trivial placeholder case when equal)"
	return w
}

var histKindsIter = []string{"symqr", "svd", "qr"}
var histKindsOther = []string{"chol", "ldl", "fpd", "gs", "hess", "bidiag", "tridiag", "eig", "eigsym", "msqrt", "msqrtinv"}

func runHistStreams(o Opts) {
	rng := NewRng(o.Seed*1000033 + 77017).Split()
	iw := newIterWriter(o, "icases", 10)
	hw := newHistWriter(o, "hcases", 30)
	ni, nh := 30, 8
	if o.Tier == "thorough" {
		ni, nh = 300, 80
	}
	// corpus first: the minimised witnesses of corpus/C05/hist_witnesses.json
	for _, h := range histWitnesses() {
		hw.Count("corpus")
		addHist(iw, hw, h)
	}
	for i := 0; i < ni; i++ {
		for _, k := range histKindsIter {
			if hung >= maxHung {
				iw.Count("skipped-after-hang-budget")
				continue
			}
			addHist(iw, hw, genHist(rng.Split(), k, i, 6))
		}
	}
	// round 7: the late-real-block inputs of the residual stream (gen.go LateBlockSweep), whole run replayed by
	// the loop model: fresh calls and caller-supplied non-identity buffers, Float64 and Real64
	for i, d := range LateBlockSweep(NewRng(o.Seed*1000211 + 5).Split()) {
		if hung >= maxHung {
			iw.Count("skipped-after-hang-budget")
			continue
		}
		h := &HistIn{Kind: "qr", Mode: "fresh", M: d.M, CU: true, Path: d.Path, Family: d.Family}
		if i%3 == 1 || i%5 == 0 {
			h.Mode = "garbage"
		}
		iw.Count("late-block-sweep")
		addHist(iw, hw, h)
	}
	for i := 0; i < nh; i++ {
		for _, k := range histKindsOther {
			if hung >= maxHung {
				hw.Count("skipped-after-hang-budget")
				continue
			}
			addHist(iw, hw, genHist(rng.Split(), k, i, 5))
		}
	}
	// the stale-H behaviour of a re-used qrAlgorithm.InSitu without InitializeH: observed, never decided here
	for i := 0; i < 2; i++ {
		for _, k := range []string{"qr", "eig"} {
			h := genHist(rng.Split(), k, 2, 4)
			h.Mode, h.Eps, h.Path = "history-noinit", 0, "f64"
			if h.M1 == nil {
				h.M1 = randFloat(rng.Split(), h.M.R, h.M.C, 2).Pack()
			}
			if k == "eig" {
				addHist(iw, hw, h)
			} else {
				addHist(iw, hw, h)
			}
		}
	}
	if err := iw.Flush(); err != nil {
		Die("flush: %v", err)
	}
	if err := hw.Flush(); err != nil {
		Die("flush: %v", err)
	}
}

// replayHist re-executes a replay file that holds an "icase" or "hcase" record; returns true if it did.
func replayHist(b []byte, o Opts) bool {
	var rp struct {
		ICase *HistRaw `json:"icase"`
		HCase *HistRaw `json:"hcase"`
	}
	if err := json.Unmarshal(b, &rp); err != nil {
		return false
	}
	c := rp.ICase
	if c == nil {
		c = rp.HCase
	}
	if c == nil || c.In == nil {
		return false
	}
	c.In.M.Unpack()
	if c.In.M1 != nil {
		c.In.M1.Unpack()
	}
	iw := newIterWriter(o, "ireplay", 100)
	hw := newHistWriter(o, "hreplay", 100)
	addHist(iw, hw, c.In)
	if iw.Len()+hw.Len() == 0 {
		iw.Add(fmt.Sprintf("(IFail %q)", "replayed case produced no value"), c, "replay", true)
	}
	if iw.Len() > 0 {
		if err := iw.Flush(); err != nil {
			Die("flush: %v", err)
		}
	}
	if hw.Len() > 0 {
		if err := hw.Flush(); err != nil {
			Die("flush: %v", err)
		}
	}
	return true
}

// minimised witnesses of the round-5 findings (kept in corpus/C05/hist_witnesses.json as well)
func histWitnesses() []*HistIn {
	a1 := &FM{R: 3, C: 3, V: []float64{2, 1, 0, 0, 3, 1, 0, 0, 5}}
	a2 := &FM{R: 3, C: 3, V: []float64{1, 2, 3, 0, 4, 5, 0, 0, 7}}
	return []*HistIn{
		{Kind: "eig", Mode: "history", M: a2.Clone().Pack(), M1: a1.Clone().Pack(), CU: true, CU1: true, Path: "f64", Family: "witness"},
		{Kind: "eig", Mode: "history-noinit", M: a2.Clone().Pack(), M1: a1.Clone().Pack(), CU: true, CU1: true, Path: "f64", Family: "witness"},
		{Kind: "qr", Mode: "history-noinit", M: a2.Clone().Pack(), M1: a1.Clone().Pack(), CU: true, CU1: true, Path: "f64", Family: "witness"},
	}
}
