// Shared helpers of the C05 harness: plain float64 matrices, conversion to and
// from the library's matrix types (Float64 fast path / Real64 generic path),
// bit-exact (de)serialisation and Coq literal printing.
package main

import (
	"fmt"
	"math"
	"strconv"
	"strings"

	. "adharness/common"

	ad "github.com/pbenner/autodiff"
)

// FM is a row-major float64 matrix.
type FM struct {
	R int       `json:"r"`
	C int       `json:"c"`
	V []float64 `json:"-"`
	H []string  `json:"v"` // hex strings: exact, also NaN/Inf
}

func NewFM(r, c int) *FM { return &FM{R: r, C: c, V: make([]float64, r*c)} }
func (m *FM) At(i, j int) float64 { return m.V[i*m.C+j] }
func (m *FM) Set(i, j int, x float64) { m.V[i*m.C+j] = x }
func (m *FM) Clone() *FM {
	r := NewFM(m.R, m.C)
	copy(r.V, m.V)
	return r
}
func (m *FM) T() *FM {
	r := NewFM(m.C, m.R)
	for i := 0; i < m.R; i++ {
		for j := 0; j < m.C; j++ {
			r.Set(j, i, m.At(i, j))
		}
	}
	return r
}
func Ident(n int) *FM {
	r := NewFM(n, n)
	for i := 0; i < n; i++ {
		r.Set(i, i, 1)
	}
	return r
}
func (m *FM) Mul(b *FM) *FM {
	r := NewFM(m.R, b.C)
	for i := 0; i < m.R; i++ {
		for j := 0; j < b.C; j++ {
			s := 0.0
			for k := 0; k < m.C; k++ {
				s += m.At(i, k) * b.At(k, j)
			}
			r.Set(i, j, s)
		}
	}
	return r
}
func (m *FM) MaxAbs() float64 {
	s := 0.0
	for _, x := range m.V {
		if a := math.Abs(x); a > s || math.IsNaN(a) {
			s = a
		}
	}
	return s
}
func (m *FM) Finite() bool {
	for _, x := range m.V {
		if math.IsNaN(x) || math.IsInf(x, 0) {
			return false
		}
	}
	return true
}

func hexf(x float64) string { return strconv.FormatFloat(x, 'x', -1, 64) }
func unhex(s string) float64 {
	x, err := strconv.ParseFloat(s, 64)
	if err != nil {
		Die("bad float %q: %v", s, err)
	}
	return x
}
func HexList(xs []float64) []string {
	r := make([]string, len(xs))
	for i, x := range xs {
		r[i] = hexf(x)
	}
	return r
}
func UnhexList(xs []string) []float64 {
	r := make([]float64, len(xs))
	for i, x := range xs {
		r[i] = unhex(x)
	}
	return r
}
func (m *FM) Pack() *FM {
	if m == nil {
		return nil
	}
	m.H = HexList(m.V)
	return m
}
func (m *FM) Unpack() *FM {
	if m == nil {
		return nil
	}
	m.V = UnhexList(m.H)
	return m
}

// bit-level equality (NaN == NaN, +0 != -0)
func SameBits(a, b float64) bool {
	if math.IsNaN(a) && math.IsNaN(b) {
		return true
	}
	return math.Float64bits(a) == math.Float64bits(b)
}
func SameFM(a, b *FM) bool {
	if (a == nil) != (b == nil) {
		return false
	}
	if a == nil {
		return true
	}
	if a.R != b.R || a.C != b.C {
		return false
	}
	for i := range a.V {
		if !SameBits(a.V[i], b.V[i]) {
			return false
		}
	}
	return true
}
func SameVec(a, b []float64) bool {
	if len(a) != len(b) {
		return false
	}
	for i := range a {
		if !SameBits(a[i], b[i]) {
			return false
		}
	}
	return true
}

// ---------------------------------------------------------------- library types

// path: "f64" (DenseFloat64Matrix: fast paths where they exist) or "r64"
// (DenseReal64Matrix, order 0: always the generic code).
func MkMat(path string, m *FM) ad.Matrix {
	v := make([]float64, len(m.V))
	copy(v, m.V)
	if path == "r64" {
		if len(v) == 1 { // NewDenseReal64Matrix treats one value as a fill value; same thing for 1x1
			return ad.NewDenseReal64Matrix(v, m.R, m.C)
		}
		return ad.NewDenseReal64Matrix(v, m.R, m.C)
	}
	return ad.NewDenseFloat64Matrix(v, m.R, m.C)
}
func MkVec(path string, x []float64) ad.Vector {
	v := make([]float64, len(x))
	copy(v, x)
	if path == "r64" {
		return ad.NewDenseReal64Vector(v)
	}
	return ad.NewDenseFloat64Vector(v)
}
func MkScal(path string, x float64) ad.Scalar {
	if path == "r64" {
		return ad.NewReal64(x)
	}
	return ad.NewFloat64(x)
}
func ReadMat(m ad.ConstMatrix) *FM {
	if m == nil {
		return nil
	}
	r, c := m.Dims()
	out := NewFM(r, c)
	for i := 0; i < r; i++ {
		for j := 0; j < c; j++ {
			out.Set(i, j, m.ConstAt(i, j).GetFloat64())
		}
	}
	return out
}
func ReadVec(v ad.ConstVector) []float64 {
	if v == nil {
		return nil
	}
	out := make([]float64, v.Dim())
	for i := range out {
		out[i] = v.ConstAt(i).GetFloat64()
	}
	return out
}

// ---------------------------------------------------------------- Coq printing

func CoqMat(m *FM) string {
	rows := make([]string, m.R)
	for i := 0; i < m.R; i++ {
		rows[i] = FList(m.V[i*m.C : (i+1)*m.C])
	}
	return "[" + strings.Join(rows, "; ") + "]"
}
func CoqOptMat(m *FM) string {
	if m == nil {
		return "None"
	}
	return "(Some " + CoqMat(m) + ")"
}

// dyadic (mantissa, exponent) pair of a finite float: x = m * 2^e exactly
func Dy(x float64) string {
	if x == 0 {
		return "(0,0)"
	}
	fr, e := math.Frexp(x)
	m := int64(fr * (1 << 53))
	e -= 53
	for m%2 == 0 {
		m /= 2
		e++
	}
	return fmt.Sprintf("(%s,%s)", Z(m), ZI(e))
}
func DyList(xs []float64) string {
	s := make([]string, len(xs))
	for i, x := range xs {
		s[i] = Dy(x)
	}
	return "[" + strings.Join(s, "; ") + "]"
}
func DyMat(m *FM) string {
	rows := make([]string, m.R)
	for i := 0; i < m.R; i++ {
		rows[i] = DyList(m.V[i*m.C : (i+1)*m.C])
	}
	return "[" + strings.Join(rows, "; ") + "]"
}
