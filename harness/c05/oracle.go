// Hunt: a property-level oracle on the IMPLEMENTATION, independent of the Coq
// model and of Resid.v: exact rational (math/big) evaluation of every promised
// equation and structure on the factors Go returned, plus shrinking by size.
// It is a search for a concrete failing input, never the decision.
package main

import (
	"encoding/json"
	"fmt"
	"math"
	"math/big"
	"os"
	"path/filepath"

	. "adharness/common"
)

type RM struct {
	R, C int
	V    []*big.Rat
}

func ratOf(x float64) *big.Rat { return new(big.Rat).SetFloat64(x) }
func toRM(m *FM) *RM {
	r := &RM{R: m.R, C: m.C, V: make([]*big.Rat, len(m.V))}
	for i, x := range m.V {
		r.V[i] = ratOf(x)
	}
	return r
}
func (m *RM) At(i, j int) *big.Rat { return m.V[i*m.C+j] }
func (m *RM) T() *RM {
	r := &RM{R: m.C, C: m.R, V: make([]*big.Rat, len(m.V))}
	for i := 0; i < m.R; i++ {
		for j := 0; j < m.C; j++ {
			r.V[j*r.C+i] = m.At(i, j)
		}
	}
	return r
}
func (m *RM) Mul(b *RM) *RM {
	r := &RM{R: m.R, C: b.C, V: make([]*big.Rat, m.R*b.C)}
	t := new(big.Rat)
	for i := 0; i < m.R; i++ {
		for j := 0; j < b.C; j++ {
			s := new(big.Rat)
			for k := 0; k < m.C; k++ {
				s.Add(s, t.Mul(m.At(i, k), b.At(k, j)))
			}
			r.V[i*r.C+j] = s
		}
	}
	return r
}
func rIdent(n int) *RM {
	r := &RM{R: n, C: n, V: make([]*big.Rat, n*n)}
	for i := range r.V {
		r.V[i] = new(big.Rat)
	}
	for i := 0; i < n; i++ {
		r.V[i*n+i] = big.NewRat(1, 1)
	}
	return r
}
func (m *RM) maxAbs() *big.Rat {
	s := new(big.Rat)
	for _, x := range m.V {
		a := new(big.Rat).Abs(x)
		if a.Cmp(s) > 0 {
			s = a
		}
	}
	return s
}

// largest |P_ij - Q_ij|
func maxDiff(p, q *RM) *big.Rat {
	s := new(big.Rat)
	if p.R != q.R || p.C != q.C {
		return big.NewRat(1<<62, 1)
	}
	for i := range p.V {
		d := new(big.Rat).Sub(p.V[i], q.V[i])
		d.Abs(d)
		if d.Cmp(s) > 0 {
			s = d
		}
	}
	return s
}

var eps40 = new(big.Rat).SetFrac(big.NewInt(1), new(big.Int).Lsh(big.NewInt(1), 40))
var eps24 = new(big.Rat).SetFrac(big.NewInt(1), new(big.Int).Lsh(big.NewInt(1), 24))

func tolOf(a *RM, n int, eps *big.Rat) *big.Rat {
	t := new(big.Rat).Mul(a.maxAbs(), big.NewRat(int64(n), 1))
	return t.Mul(t, eps)
}
func tolOne(n int, eps *big.Rat) *big.Rat { return new(big.Rat).Mul(big.NewRat(int64(n), 1), eps) }
func fl(x *big.Rat) string               { f, _ := x.Float64(); return fmt.Sprintf("%.3g", f) }

func orthFail(name string, u *RM, n int) string {
	if u.R != n || u.C != n {
		return name + " has wrong dimensions"
	}
	if d := maxDiff(u.T().Mul(u), rIdent(n)); d.Cmp(tolOne(n, eps40)) > 0 {
		return fmt.Sprintf("%s is not orthogonal: max |%s^T %s - I| = %s", name, name, name, fl(d))
	}
	return ""
}

// OracleDirect returns "" when the output satisfies the property, else what fails.
func OracleDirect(in *In, o *Out) string {
	if o.Panic != "" {
		return "panic: in " + in.Kind
	}
	if in.M == nil || !in.M.Finite() {
		return ""
	}
	if o.Err {
		// an error is right only if the matrix is not (safely) positive definite:
		// exact rational elimination on the symmetric completion of the lower triangle
		if in.Kind == "chol" || in.Kind == "ldl" {
			if minp, ok := exactPivots(toRM(symmetrize(in.M))); ok {
				thr := new(big.Rat).Mul(toRM(in.M).maxAbs(), eps24)
				if minp.Cmp(thr) > 0 {
					return fmt.Sprintf("chol-spurious-error: %s reports \"not positive definite\" although every exact pivot is >= %s", in.Kind, fl(minp))
				}
			}
		}
		return ""
	}
	for _, m := range o.Ms {
		if m != nil && !m.Finite() {
			// non-finite factors: only an alarm when the input is well inside the admissible class
			if in.Kind == "hess" || in.Kind == "bidiag" || in.Kind == "tridiag" || in.Kind == "fpd" {
				return "nonfinite: " + in.Kind + " returned non-finite entries for a finite input"
			}
			return ""
		}
	}
	A := toRM(in.M)
	n := in.M.R
	tol := tolOf(A, n, eps40)
	zero := new(big.Rat)
	switch in.Kind {
	case "chol", "ldl", "fpd":
		L := toRM(o.Ms[0])
		for i := 0; i < n; i++ {
			for j := i + 1; j < n; j++ {
				if L.At(i, j).Sign() != 0 {
					return fmt.Sprintf("chol-structure: L is not lower triangular: L[%d,%d] = %s", i, j, fl(L.At(i, j)))
				}
			}
		}
		var P *RM
		if in.Kind == "chol" {
			P = L.Mul(L.T())
		} else {
			D := toRM(o.Ms[1])
			for i := 0; i < n; i++ {
				if L.At(i, i).Cmp(big.NewRat(1, 1)) != 0 {
					return "chol-structure: L is not unit lower triangular"
				}
				for j := 0; j < n; j++ {
					if i != j && D.At(i, j).Sign() != 0 {
						return "chol-structure: D is not diagonal"
					}
				}
				if D.At(i, i).Sign() <= 0 {
					return fmt.Sprintf("chol-structure: D[%d,%d] = %s is not positive", i, i, fl(D.At(i, i)))
				}
			}
			P = L.Mul(D).Mul(L.T())
		}
		if in.Kind == "fpd" {
			t := tolOf(P, n, eps40)
			for i := 0; i < n; i++ {
				for j := 0; j < i; j++ {
					d := new(big.Rat).Sub(P.At(i, j), A.At(i, j))
					if d.Abs(d).Cmp(t) > 0 {
						return fmt.Sprintf("fpd-reconstruct: (L D L^T)[%d,%d] differs from A by %s", i, j, fl(d))
					}
				}
				d := new(big.Rat).Sub(A.At(i, i), P.At(i, i))
				if d.Cmp(t) > 0 {
					return fmt.Sprintf("fpd-reconstruct: (L D L^T)[%d,%d] is smaller than A's by %s", i, i, fl(d))
				}
			}
			return ""
		}
		// only the lower triangle of A is read: compare with its symmetric completion
		As := toRM(symmetrize(in.M))
		if d := maxDiff(P, As); d.Cmp(tol) > 0 {
			return fmt.Sprintf("chol-reconstruct: %s factors do not reproduce A: max residual %s (tolerance %s)", in.Kind, fl(d), fl(tol))
		}
	case "gs":
		Q, R := toRM(o.Ms[0]), toRM(o.Ms[1])
		m := in.M.C
		for i := 0; i < R.R; i++ {
			for j := 0; j < R.C && j < i; j++ {
				if R.At(i, j).Sign() != 0 {
					return fmt.Sprintf("gs-R-not-upper: R[%d,%d] = %s", i, j, fl(R.At(i, j)))
				}
			}
		}
		Rt := &RM{R: m, C: m, V: R.V[:m*m]}
		if d := maxDiff(Q.Mul(Rt), A); d.Cmp(tol) > 0 {
			return fmt.Sprintf("gs-reconstruct: Q R differs from A by %s", fl(d))
		}
	case "hess", "tridiag":
		H := toRM(o.Ms[0])
		lo, hi := 1, n
		if in.Kind == "tridiag" {
			hi = 1
		}
		if in.Kind == "tridiag" || in.B2 {
			for i := 0; i < n; i++ {
				for j := 0; j < n; j++ {
					if (i > j+lo || j > i+hi) && H.At(i, j).Sign() != 0 {
						return fmt.Sprintf("%s-structure: middle factor is not banded at [%d,%d]", in.Kind, i, j)
					}
				}
			}
		}
		if o.Ms[1] != nil {
			U := toRM(o.Ms[1])
			if f := orthFail("U", U, n); f != "" {
				return in.Kind + "-orth: " + f
			}
			if d := maxDiff(U.Mul(H).Mul(U.T()), A); d.Cmp(tol) > 0 {
				return fmt.Sprintf("%s-reconstruct: U H U^T differs from A by %s (tolerance %s)", in.Kind, fl(d), fl(tol))
			}
		}
	case "bidiag":
		Bm := toRM(o.Ms[0])
		m, nn := in.M.R, in.M.C
		for i := 0; i < m; i++ {
			for j := 0; j < nn; j++ {
				if (i > j || j > i+1) && new(big.Rat).Abs(Bm.At(i, j)).Cmp(tolOf(A, m, eps40)) > 0 {
					return fmt.Sprintf("bidiag-structure: B[%d,%d] = %s is outside the band", i, j, fl(Bm.At(i, j)))
				}
			}
		}
		if o.Ms[1] != nil {
			if f := orthFail("U", toRM(o.Ms[1]), m); f != "" {
				return "bidiag-orth: " + f
			}
		}
		if o.Ms[2] != nil {
			if f := orthFail("V", toRM(o.Ms[2]), nn); f != "" {
				return "bidiag-orth: " + f
			}
		}
		if o.Ms[1] != nil && o.Ms[2] != nil {
			// documented (householderBidiagonalization_test.go): U^T A V = B, i.e. A = U B V^T
			if d := maxDiff(toRM(o.Ms[1]).Mul(Bm).Mul(toRM(o.Ms[2]).T()), A); d.Cmp(tolOf(A, m, eps40)) > 0 {
				if d2 := maxDiff(toRM(o.Ms[1]).Mul(Bm).Mul(toRM(o.Ms[2])), A); d2.Cmp(tolOf(A, m, eps40)) <= 0 {
					return fmt.Sprintf("bidiag-V-convention: A = U B V holds but the documented A = U B V^T fails by %s", fl(d))
				}
				return fmt.Sprintf("bidiag-reconstruct: U B V^T differs from A by %s", fl(d))
			}
		}
	}
	_ = zero
	return ""
}

func OracleIter(in *IterIn, o *IterOut) string {
	if o.Timeout {
		return "timeout: did not return within the deadline"
	}
	if o.Panic != "" {
		return "panic: " + o.Panic
	}
	if o.Err {
		return ""
	}
	if !finiteAll(o.Ms, o.Vs) {
		return nonfiniteClass(in, o)
	}
	A := toRM(in.M)
	n := in.M.R
	tol := tolOf(A, n, eps40)
	switch in.Kind {
	case "qr":
		H := toRM(o.Ms[0])
		for i := 0; i < n; i++ {
			for j := 0; j+1 < i; j++ {
				if new(big.Rat).Abs(H.At(i, j)).Cmp(tol) > 0 {
					return fmt.Sprintf("qr-structure: H[%d,%d] = %s below the first subdiagonal", i, j, fl(H.At(i, j)))
				}
			}
		}
		for i := 0; i+1 < n; i++ {
			if new(big.Rat).Abs(H.At(i+1, i)).Cmp(tol) <= 0 {
				continue
			}
			if i+2 < n && new(big.Rat).Abs(H.At(i+2, i+1)).Cmp(tol) > 0 {
				return fmt.Sprintf("qr-structure: consecutive non-zero subdiagonal entries at %d", i)
			}
			d := new(big.Rat).Sub(H.At(i, i), H.At(i+1, i+1))
			disc := new(big.Rat).Mul(d, d)
			t := new(big.Rat).Mul(H.At(i, i+1), H.At(i+1, i))
			disc.Add(disc, t.Mul(t, big.NewRat(4, 1)))
			if disc.Sign() >= 0 {
				return fmt.Sprintf("qr-structure: 2x2 block at %d with real eigenvalues was not reduced", i)
			}
		}
		if o.Ms[1] != nil {
			U := toRM(o.Ms[1])
			if f := orthFail("U", U, n); f != "" {
				return "qr-orth: " + f
			}
			if d := maxDiff(U.Mul(H).Mul(U.T()), A); d.Cmp(tol) > 0 {
				return fmt.Sprintf("qr-reconstruct: U H U^T differs from A by %s (tolerance %s)", fl(d), fl(tol))
			}
		}
	case "svd":
		S := toRM(o.Ms[0])
		m, nn := in.M.R, in.M.C
		t := tolOf(A, m, eps40)
		for i := 0; i < m; i++ {
			for j := 0; j < nn; j++ {
				if i == j && S.At(i, j).Sign() < 0 {
					return fmt.Sprintf("svd-negative: singular value S[%d] = %s", i, fl(S.At(i, j)))
				}
				if i != j && new(big.Rat).Abs(S.At(i, j)).Cmp(t) > 0 {
					return fmt.Sprintf("svd-structure: S[%d,%d] = %s is off the diagonal", i, j, fl(S.At(i, j)))
				}
			}
		}
		if o.Ms[1] != nil {
			if f := orthFail("U", toRM(o.Ms[1]), m); f != "" {
				return "svd-orth: " + f
			}
		}
		if o.Ms[2] != nil {
			if f := orthFail("V", toRM(o.Ms[2]), nn); f != "" {
				return "svd-orth: " + f
			}
		}
		if o.Ms[1] != nil && o.Ms[2] != nil {
			if d := maxDiff(toRM(o.Ms[1]).Mul(S).Mul(toRM(o.Ms[2]).T()), A); d.Cmp(t) > 0 {
				return fmt.Sprintf("svd-reconstruct: U S V^T differs from A by %s (tolerance %s)", fl(d), fl(t))
			}
		}
	case "eig":
		vals := o.Vs[0]
		for i := 0; i+1 < len(vals); i++ {
			a, b := vals[i], vals[i+1]
			if a < 0 {
				a = -a
			}
			if b < 0 {
				b = -b
			}
			if b > a {
				return fmt.Sprintf("eig-unsorted: eigenvalues not sorted by decreasing magnitude at %d", i)
			}
		}
		if o.Ms[0] != nil && in.RealSpectrum {
			V := toRM(o.Ms[0])
			AV := A.Mul(V)
			t := tolOf(A, n, eps24)
			for j := 0; j < n; j++ {
				lam := ratOf(vals[j])
				nrm := new(big.Rat)
				for i := 0; i < n; i++ {
					d := new(big.Rat).Mul(lam, V.At(i, j))
					d.Sub(AV.At(i, j), d)
					if d.Abs(d).Cmp(t) > 0 {
						if alignedUpToPermutation(A, V, vals, t) {
							return fmt.Sprintf("eig-misaligned: eigenvector column %d does not belong to eigenvalue %d (lambda = %g); every eigenvalue has its eigenvector in SOME column", j, j, vals[j])
						}
						return fmt.Sprintf("eig-residual: A v - lambda v = %s for eigenpair %d (lambda = %g)", fl(d), j, vals[j])
					}
					nrm.Add(nrm, new(big.Rat).Mul(V.At(i, j), V.At(i, j)))
				}
				nrm.Sub(nrm, big.NewRat(1, 1))
				if nrm.Abs(nrm).Cmp(tolOne(n, eps40)) > 0 {
					return fmt.Sprintf("eig-normalise: eigenvector %d is not normalised", j)
				}
			}
		}
	case "msqrt":
		X := toRM(o.Ms[0])
		if d := maxDiff(X.Mul(X), A); d.Cmp(tolOf(A, n, eps24)) > 0 {
			return fmt.Sprintf("msqrt-reconstruct: X X differs from A by %s", fl(d))
		}
	case "msqrtinv":
		X := toRM(o.Ms[0])
		if d := maxDiff(X.Mul(A).Mul(X), rIdent(n)); d.Cmp(tolOne(n, eps24)) > 0 {
			return fmt.Sprintf("msqrtinv-reconstruct: X A X differs from I by %s", fl(d))
		}
	}
	return ""
}

// ---------------------------------------------------------------- shrinking

func subMat(m *FM, r, c int) *FM {
	s := NewFM(r, c)
	for i := 0; i < r; i++ {
		for j := 0; j < c; j++ {
			s.Set(i, j, m.At(i, j))
		}
	}
	return s
}
func dropRC(m *FM, k int, square bool) *FM {
	// delete row k and (for square inputs) column k
	if square {
		s := NewFM(m.R-1, m.C-1)
		for i, ii := 0, 0; i < m.R; i++ {
			if i == k {
				continue
			}
			for j, jj := 0, 0; j < m.C; j++ {
				if j == k {
					continue
				}
				s.Set(ii, jj, m.At(i, j))
				jj++
			}
			ii++
		}
		return s
	}
	s := NewFM(m.R-1, m.C)
	for i, ii := 0, 0; i < m.R; i++ {
		if i == k {
			continue
		}
		for j := 0; j < m.C; j++ {
			s.Set(ii, j, m.At(i, j))
		}
		ii++
	}
	return s
}

func failDirect(in *In) string {
	f := OracleDirect(in, RunDirect(in, "f64"))
	if f == "" {
		f = OracleDirect(in, RunDirect(in, "r64"))
	}
	return f
}
func shrinkDirect(in *In) (*In, string) {
	f := failDirect(in)
	for changed := f != ""; changed && in.M != nil; {
		changed = false
		sq := in.M.R == in.M.C && in.Kind != "gs" && in.Kind != "bidiag"
		for k := in.M.R - 1; k >= 0 && in.M.R > 1; k-- {
			if !sq && in.M.R-1 < in.M.C {
				break
			}
			c := *in
			c.M = dropRC(in.M, k, sq).Pack()
			if g := failDirect(&c); g != "" && classOf(g) == classOf(f) {
				in, f, changed = &c, g, true
				break
			}
		}
		// simplify entries: only towards strictly "smaller" values, so this terminates
		for i := range in.M.V {
			x := in.M.V[i]
			for _, y := range []float64{0, 1, -1, math.Trunc(x)} {
				if !(math.Abs(y) < math.Abs(x) || (y == math.Trunc(x) && y != x)) {
					continue
				}
				c := *in
				c.M = in.M.Clone()
				c.M.V[i] = y
				c.M.Pack()
				if g := failDirect(&c); g != "" && classOf(g) == classOf(f) {
					in, f, changed = &c, g, true
					break
				}
			}
		}
	}
	return in, f
}
func failIter(in *IterIn) string { return OracleIter(in, RunIter(in)) }
func shrinkIter(in *IterIn) (*IterIn, string) {
	f := failIter(in)
	for changed := f != "" && classOf(f) != "timeout"; changed && hung < 40; {
		changed = false
		sq := in.Kind != "svd"
		for k := in.M.R - 1; k >= 0 && in.M.R > 1; k-- {
			if !sq && in.M.R-1 < in.M.C {
				break
			}
			c := *in
			c.M = dropRC(in.M, k, sq).Pack()
			if g := failIter(&c); g != "" && classOf(g) == classOf(f) && classOf(g) != "timeout" {
				in, f, changed = &c, g, true
				break
			}
		}
	}
	return in, f
}

type HuntResult struct {
	Class   string  `json:"class"`
	Orig    interface{} `json:"orig,omitempty"`
	Idx     int     `json:"idx"`      // index in the handed-over list (-1: fresh input)
	IsIter  bool    `json:"is_iter"`
	Found   bool    `json:"found"`
	Failure string  `json:"failure,omitempty"`
	Site    string  `json:"site,omitempty"`
	Direct  *In     `json:"direct,omitempty"`
	Iter    *IterIn `json:"iter,omitempty"`
	Tried   int     `json:"tried"`
}

// huntMain: first the inputs handed over by the driver (mismatching cases), then fresh ones.
// All failures are collected (the driver separates known findings from violations).
func huntMain(o Opts) {
	var res, handed []HuntResult
	tried := 0
	seen := map[string]bool{}
	add := func(h HuntResult) {
		k := h.Site + "|" + h.Failure
		if len(k) > 60 {
			k = k[:60]
		}
		if seen[k] && len(res) > 30 {
			return
		}
		seen[k] = true
		h.Class = classOf(h.Failure)
		res = append(res, h)
	}
	if o.Replay != "" {
		if b, err := os.ReadFile(o.Replay); err == nil {
			var hin struct {
				Direct []*In     `json:"direct"`
				Iter   []*IterIn `json:"iter"`
			}
			json.Unmarshal(b, &hin)
			for i, d := range hin.Direct {
				d.M.Unpack()
				tried++
				if f := failDirect(d); f != "" {
					o := *d
					s, f2 := shrinkDirect(d)
					handed = append(handed, HuntResult{Found: true, Class: classOf(f2), Failure: f2, Site: s.Kind, Direct: s, Orig: &o, Idx: i})
				} else {
					handed = append(handed, HuntResult{Found: false, Site: d.Kind, Direct: d, Idx: i})
				}
			}
			for i, d := range hin.Iter {
				d.M.Unpack()
				tried++
				if f := failIter(d); f != "" {
					o := *d
					s, f2 := shrinkIter(d)
					handed = append(handed, HuntResult{Found: true, Class: classOf(f2), Failure: f2, Site: s.Kind, Iter: s, Orig: &o, Idx: i, IsIter: true})
				} else {
					handed = append(handed, HuntResult{Found: false, Site: d.Kind, Iter: d, Idx: i, IsIter: true})
				}
			}
		}
	}
	rng := NewRng(o.Seed ^ 0x5eed)
	for i := 0; i < o.N && hung < 12; i++ {
		r := rng.Split()
		tried++
		if i%2 == 0 {
			d := GenDirect(r, 8)
			if d.M == nil {
				continue
			}
			if f := failDirect(d); f != "" {
				s, f2 := shrinkDirect(d)
				add(HuntResult{Found: true, Failure: f2, Site: s.Kind, Direct: s, Idx: -1})
			}
		} else {
			d := GenIter(r, 8)
			if f := failIter(d); f != "" {
				s, f2 := shrinkIter(d)
				add(HuntResult{Found: true, Failure: f2, Site: s.Kind, Iter: s, Idx: -1, IsIter: true})
			}
		}
	}
	out := map[string]interface{}{"found": len(res) > 0, "results": res, "handed": handed, "tried": tried, "hung": hung}
	b, _ := json.MarshalIndent(out, "", " ")
	os.WriteFile(filepath.Join(o.Out, "hunt.json"), b, 0644)
	os.Exit(0)
}

// every eigenvalue has an eigenvector among the columns of V (in some other column)
func alignedUpToPermutation(A, V *RM, vals []float64, t *big.Rat) bool {
	n := A.R
	AV := A.Mul(V)
	for j := 0; j < n; j++ {
		lam := ratOf(vals[j])
		found := false
		for k := 0; k < n && !found; k++ {
			ok := true
			for i := 0; i < n && ok; i++ {
				d := new(big.Rat).Mul(lam, V.At(i, k))
				d.Sub(AV.At(i, k), d)
				ok = d.Abs(d).Cmp(t) <= 0
			}
			found = ok
		}
		if !found {
			return false
		}
	}
	return true
}

func nonfiniteClass(in *IterIn, o *IterOut) string {
	if in.Kind == "eig" && len(o.Vs) > 0 {
		v := o.Vs[0]
		for i := range v {
			for j := i + 1; j < len(v); j++ {
				if math.Abs(v[i]-v[j]) <= 1e-7*(math.Abs(v[i])+math.Abs(v[j])) || v[i] == v[j] {
					return fmt.Sprintf("eig-nonfinite-repeated: eigenvectors contain NaN/Inf; eigenvalues %d and %d coincide (%g)", i, j, v[i])
				}
			}
		}
	}
	return "nonfinite: " + in.Kind + " returned non-finite entries"
}

func classOf(f string) string {
	for i := 0; i < len(f); i++ {
		if f[i] == ':' {
			return f[:i]
		}
	}
	return f
}

// smallest pivot of the exact LDL^T elimination (ok = false if a pivot is <= 0)
func exactPivots(a *RM) (*big.Rat, bool) {
	n := a.R
	m := make([][]*big.Rat, n)
	for i := range m {
		m[i] = make([]*big.Rat, n)
		for j := range m[i] {
			m[i][j] = new(big.Rat).Set(a.At(i, j))
		}
	}
	var minp *big.Rat
	for k := 0; k < n; k++ {
		p := m[k][k]
		if p.Sign() <= 0 {
			return nil, false
		}
		if minp == nil || p.Cmp(minp) < 0 {
			minp = new(big.Rat).Set(p)
		}
		for i := k + 1; i < n; i++ {
			f := new(big.Rat).Quo(m[i][k], p)
			for j := k + 1; j < n; j++ {
				m[i][j].Sub(m[i][j], new(big.Rat).Mul(f, m[k][j]))
			}
		}
	}
	return minp, true
}
