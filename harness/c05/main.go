// C05 harness: factorization routines of /repo/algorithm.
//
//   (default)        corpus + --n generated inputs: direct routines are run through
//                    the Float64 and the Real64 path and written as bit-exact cases
//                    (cases_<k>.v, checked by C05.Corr.mism); all routines, direct and
//                    iterative, additionally produce exact residual cases
//                    (rcases_<k>.v, decided by C05.Resid.rmism).
//   --replay f       re-execute exactly the input stored in f (replay_0.v / rreplay_0.v)
//   --extra hunt     property-level search on the implementation with an independent
//                    math/big residual oracle (oracle.go) + shrinking; writes hunt.json
package main

import (
	"encoding/json"
	"fmt"
	"os"
	"path/filepath"
	"strings"

	. "adharness/common"
)

const dHeader = "From Coq Require Import String List ZArith Floats.\nFrom ADV Require Import C05.Corr.\nImport ListNotations.\nOpen Scope string_scope.\n"
const rHeader = "From Coq Require Import String List ZArith.\nFrom ADV Require Import C05.Resid.\nImport ListNotations.\nOpen Scope string_scope.\nOpen Scope Z_scope.\n"

// Raw forms kept next to the Coq terms (cases.jsonl / rcases.jsonl) for replay files.
type RawD struct {
	In   *In    `json:"in"`
	Path string `json:"path"` // which path produced the printed output: f64, r64 or both
	Note string `json:"note,omitempty"`
}
type RawR struct {
	Direct *In     `json:"direct,omitempty"`
	Iter   *IterIn `json:"iter,omitempty"`
	Path   string  `json:"path,omitempty"`
	Out    string  `json:"outcome,omitempty"` // value | timeout | error | panic | nonfinite
}

type Corpus struct {
	Direct []*In     `json:"direct"`
	Iter   []*IterIn `json:"iter"`
}

func loadCorpus(path string) *Corpus {
	c := &Corpus{}
	if path == "" {
		return c
	}
	b, err := os.ReadFile(path)
	if err != nil {
		return c
	}
	if err := json.Unmarshal(b, c); err != nil {
		Die("corpus %s: %v", path, err)
	}
	for _, d := range c.Direct {
		d.M.Unpack()
	}
	for _, d := range c.Iter {
		d.M.Unpack()
	}
	return c
}

const maxHung = 10

// 2x2 input [[a,b],[c,a]] with b*c > 0 handed to the QR algorithm (directly or through eigensystem)
func knownHangShape(in *IterIn) bool {
	if (in.Kind != "qr" && in.Kind != "eig") || in.M.R != 2 || in.M.C != 2 {
		return false
	}
	return in.M.At(0, 0) == in.M.At(1, 1) && in.M.At(0, 1)*in.M.At(1, 0) > 0
}

type runner struct {
	hangShapes int
	dw, rw   *CaseWriter
	timeouts []RawR
	nonval   []RawR
}

func nontrivialDirect(in *In, o *Out) bool {
	// rule: size >= 2 (vectors: length >= 2) and the routine produced a value
	if o.Err || o.Panic != "" {
		return in.M != nil && in.M.R >= 2
	}
	if in.M != nil {
		return in.M.R >= 2
	}
	if in.Kind == "givens" {
		return true
	}
	return len(in.X) >= 2
}

func (rn *runner) direct(in *In) {
	of := RunDirect(in, "f64")
	or := RunDirect(in, "r64")
	fam := in.Kind + "/" + in.Family
	rn.dw.Count("kind:" + in.Kind)
	rn.dw.Count("family:" + fam)
	if in.M != nil {
		rn.dw.Count(fmt.Sprintf("size:%d", in.M.R))
	}
	if in.Garbage {
		rn.dw.Count("insitu-garbage")
	}
	if in.InPlace {
		rn.dw.Count("insitu-inplace")
	}
	if of.Err {
		rn.dw.Count("outcome:error(" + in.Kind + ")")
	} else if of.Panic != "" {
		rn.dw.Count("outcome:panic")
	} else {
		rn.dw.Count("outcome:value")
	}
	if of.Same(or) {
		rn.dw.Count("paths:agree")
		if in.Kind == "chol" && !of.Err {
			// the fast path uses math.Sqrt, the generic one math.Pow(x, 0.5): both model variants are checked
			rn.dw.Add(CoqCase(in, of, true), RawD{In: in, Path: "f64"}, in.Key()+"|f", nontrivialDirect(in, of))
			rn.dw.Add(CoqCase(in, or, false), RawD{In: in, Path: "r64"}, in.Key()+"|r", nontrivialDirect(in, or))
		} else {
			rn.dw.Add(CoqCase(in, of, true), RawD{In: in, Path: "both"}, in.Key(), nontrivialDirect(in, of))
		}
	} else {
		rn.dw.Count("paths:differ")
		rn.dw.Add(CoqCase(in, of, true), RawD{In: in, Path: "f64", Note: "Float64 and Real64 paths differ"}, in.Key()+"|f", true)
		rn.dw.Add(CoqCase(in, or, false), RawD{In: in, Path: "r64", Note: "Float64 and Real64 paths differ"}, in.Key()+"|r", true)
	}
	// residual case from the Float64 output
	if t := ResidDirect(in, of); t != "" {
		rn.rw.Count("kind:" + in.Kind)
		rn.rw.Add(t, RawR{Direct: in, Path: "f64", Out: "value"}, "d|"+in.Key(), in.M.R >= 2)
	}
}

func (rn *runner) iter(in *IterIn) {
	o := RunIter(in)
	rn.rw.Count("kind:" + in.Kind)
	rn.rw.Count("family:" + in.Kind + "/" + in.Family)
	rn.rw.Count(fmt.Sprintf("size:%d", in.M.R))
	key := fmt.Sprintf("i|%s|%s|%v|%v|%v|%dx%d|%s", in.Kind, in.Path, in.B1, in.B2, in.Sym, in.M.R, in.M.C, strings.Join(HexList(in.M.V), ","))
	switch {
	case o.Timeout:
		rn.rw.Count("outcome:timeout")
		rn.timeouts = append(rn.timeouts, RawR{Iter: in, Out: "timeout"})
	case o.Err:
		rn.rw.Count("outcome:error")
		rn.nonval = append(rn.nonval, RawR{Iter: in, Out: "error"})
	case o.Panic != "":
		rn.rw.Count("outcome:panic")
		rn.nonval = append(rn.nonval, RawR{Iter: in, Out: "panic: " + o.Panic})
	default:
		t := ResidTerm(in, o)
		out := "value"
		if strings.HasPrefix(t, "(RNonFinite") {
			out = "nonfinite"
			rn.rw.Count("outcome:nonfinite")
		} else {
			rn.rw.Count("outcome:value")
		}
		rn.rw.Add(t, RawR{Iter: in, Out: out}, key, in.M.R >= 2)
	}
}

func main() {
	o := ParseFlags()
	if o.Extra == "hunt" {
		huntMain(o)
		return
	}
	if o.Replay != "" {
		replayMain(o)
		return
	}
	if os.Getenv("C05_ONLY") == "eig" { // development aid: the round-6 stream alone
		runEigStream(o)
		os.Exit(0)
	}
	// common.NewRng(seed) states of neighbouring seeds are shifts of one another
	// (state = seed*golden + c, step = golden): derive the stream from one mixed output
	rng := NewRng(o.Seed).Split()
	perD, perR := 40, 30
	rn := &runner{
		dw: NewCaseWriter(o.Out, "cases", dHeader, "mism", perD),
		rw: NewCaseWriter(o.Out, "rcases", rHeader, "rmism", perR),
	}
	rn.dw.Type = "dcase"
	rn.rw.Type = "rcase"
	rn.dw.Rule = "direct routine on a matrix with >= 2 rows (vector of length >= 2, any Givens pair); distinct = distinct (routine, options, input bits)"
	rn.rw.Rule = "residual case of a factorization of a matrix with >= 2 rows that returned a finite value"
	// corpus first
	corpus := loadCorpus(o.Extra)
	for _, d := range corpus.Direct {
		rn.dw.Count("corpus")
		rn.direct(d)
	}
	for _, d := range corpus.Iter {
		rn.rw.Count("corpus")
		rn.iter(d)
	}
	// round 3 streams (own rng, own shards): before anything that can hang
	runF32Stream(o, corpus)  // f32.go
	runTraceStream(o)        // trace.go
	runHistStreams(o)        // hist.go (round 5: fuelled loop models, InSitu-reuse histories)
	runEigStream(o)          // eig.go (round 6: eigensystem / backSubstitution recomputed by C05.ModelEig)
	for _, d := range DenseSweep(rng.Split()) {
		rn.rw.Count("dense-sweep")
		rn.iter(d)
	}
	// round 7: general matrices of size 6..10 with ComputeU whose real 2x2 blocks start at row >= 4 (own rng:
	// the streams below are unchanged); the same inputs are replayed by the loop model in the icases stream
	for _, d := range LateBlockSweep(NewRng(o.Seed*1000211 + 5).Split()) {
		rn.rw.Count("late-block-sweep")
		rn.iter(d)
	}
	maxn := 6
	if o.Tier == "thorough" {
		maxn = 8
	}
	for i := 0; i < o.N; i++ {
		r := rng.Split()
		mx := maxn
		if i%10 == 0 {
			mx = 8
		}
		rn.direct(GenDirect(r, mx))
	}
	nIter := o.N / 2
	for i := 0; i < nIter; i++ {
		r := rng.Split()
		mx := maxn
		if i%10 == 0 {
			mx = 8
		}
		if hung >= maxHung {
			rn.rw.Count("skipped-after-hang-budget")
			continue
		}
		in := GenIter(r, mx)
		if knownHangShape(in) {
			// [[a,b],[c,a]] with b*c > 0: the shift a makes the 2x2 QR step a swap (F-QR-HANG);
			// two per run keep the finding observed, the rest would only burn the hang budget
			if rn.hangShapes >= 2 {
				rn.rw.Count("skipped-known-hang-shape-2x2")
				continue
			}
			rn.hangShapes++
		}
		rn.iter(in)
	}
	rn.rw.Extra["timeouts"] = rn.timeouts
	rn.rw.Extra["nonvalues"] = rn.nonval
	if err := rn.dw.Flush(); err != nil {
		Die("flush: %v", err)
	}
	if err := rn.rw.Flush(); err != nil {
		Die("flush: %v", err)
	}
	os.Exit(0) // hung goroutines (QR algorithm that never returns) must not keep the process alive
}

func replayMain(o Opts) {
	b, err := os.ReadFile(o.Replay)
	if err != nil {
		Die("replay: %v", err)
	}
	var rp struct {
		Case *RawD `json:"case"`
		RCase *RawR `json:"rcase"`
	}
	if err := json.Unmarshal(b, &rp); err != nil {
		Die("replay: %v", err)
	}
	if replayF32(b, o) || replayTrace(b, o) || replayHist(b, o) || replayEig(b, o) {
		os.Exit(0)
	}
	rn := &runner{
		dw: NewCaseWriter(o.Out, "replay", dHeader, "mism", 100),
		rw: NewCaseWriter(o.Out, "rreplay", rHeader, "rmism", 100),
	}
	rn.dw.Type = "dcase"
	rn.rw.Type = "rcase"
	if rp.Case != nil {
		rp.Case.In.M.Unpack()
		rn.direct(rp.Case.In)
	}
	if rp.RCase != nil {
		if rp.RCase.Direct != nil {
			rp.RCase.Direct.M.Unpack()
			rn.direct(rp.RCase.Direct)
		}
		if rp.RCase.Iter != nil {
			rp.RCase.Iter.M.Unpack()
			rn.iter(rp.RCase.Iter)
		}
	}
	rn.rw.Extra["timeouts"] = rn.timeouts
	rn.rw.Extra["nonvalues"] = rn.nonval
	rn.dw.Flush()
	rn.rw.Flush()
	_ = filepath.Join
	os.Exit(0)
}
