// Input generators of the C05 harness (all randomness from common.Rng).
package main

import (
	"math"
	"strings"

	. "adharness/common"
)

func randInt(r *Rng, n, m, lo, hi int) *FM {
	a := NewFM(n, m)
	for i := range a.V {
		a.V[i] = float64(r.Range(lo, hi))
	}
	return a
}
func randFloat(r *Rng, n, m int, scale float64) *FM {
	a := NewFM(n, m)
	for i := range a.V {
		a.V[i] = (2*r.Float() - 1) * scale
	}
	return a
}

// Gram matrix G^T G + shift*I of an integer G (k x n): exactly representable, SPD when shift > 0 or rank n
func gram(r *Rng, n, k int, shift float64) *FM {
	g := randInt(r, k, n, -3, 3)
	a := g.T().Mul(g)
	for i := 0; i < n; i++ {
		a.Set(i, i, a.At(i, i)+shift)
	}
	return a
}
func scaleM(a *FM, f float64) *FM {
	b := a.Clone()
	for i := range b.V {
		b.V[i] *= f
	}
	return b
}
func symmetrize(a *FM) *FM {
	b := a.Clone()
	for i := 0; i < a.R; i++ {
		for j := 0; j < i; j++ {
			b.Set(j, i, a.At(i, j))
		}
	}
	return b
}

// D A D with D = diag(g^0, g^-1, ...): graded scales
func graded(a *FM, g float64) *FM {
	b := a.Clone()
	for i := 0; i < a.R; i++ {
		for j := 0; j < a.C; j++ {
			b.Set(i, j, a.At(i, j)*math.Pow(g, -float64(i))*math.Pow(g, -float64(j)))
		}
	}
	return b
}

// symmetric matrix families for the Cholesky routines; returns the family name
func genSym(r *Rng, n int) (*FM, string) {
	switch r.Pick([]int{5, 4, 3, 3, 3, 2, 2, 2, 1, 1, 1}) {
	case 0:
		return gram(r, n, n+2, float64(r.Range(0, 2))), "spd-int-gram"
	case 1:
		return scaleM(gram(r, n, n+1, 1), 0.1*float64(r.Range(1, 30))), "spd-scaled-gram"
	case 2: // nearly singular: rank n-1 Gram plus a tiny shift
		k := n - 1
		if k < 1 {
			k = 1
		}
		a := gram(r, n, k, 0)
		sh := math.Pow(10, -float64(r.Range(6, 13)))
		for i := 0; i < n; i++ {
			a.Set(i, i, a.At(i, i)+sh)
		}
		return a, "spd-nearly-singular"
	case 3: // indefinite symmetric integer matrix
		return symmetrize(randInt(r, n, n, -4, 4)), "sym-indefinite"
	case 4: // SPD with one diagonal entry pushed down: fails (or nearly) at a late pivot
		a := gram(r, n, n+1, 1)
		i := r.Intn(n)
		a.Set(i, i, a.At(i, i)-float64(r.Range(1, 40)))
		return a, "spd-broken-diag"
	case 5: // exactly singular PSD (rank-deficient integer Gram): zero pivots
		k := n - 1
		if k < 1 {
			k = 1
		}
		return gram(r, n, k, 0), "psd-singular"
	case 6:
		return graded(gram(r, n, n+1, 1), float64(r.Range(2, 30))), "spd-graded"
	case 7: // diagonally dominant with float entries
		a := symmetrize(randFloat(r, n, n, 1))
		for i := 0; i < n; i++ {
			a.Set(i, i, float64(n)+r.Float())
		}
		return a, "spd-diag-dominant-float"
	case 8: // not symmetric at all: only the lower triangle may be read
		return randInt(r, n, n, -3, 9), "nonsymmetric"
	case 9: // zero matrix / zero leading entry
		a := gram(r, n, n+1, 1)
		if r.Bool() {
			return NewFM(n, n), "zero"
		}
		a.Set(0, 0, 0)
		return a, "zero-leading-pivot"
	default: // negative definite
		return scaleM(gram(r, n, n+1, 1), -1), "negative-definite"
	}
}

// general (rectangular) matrices for the orthogonal reductions
func genGeneral(r *Rng, n, m int) (*FM, string) {
	switch r.Pick([]int{4, 4, 2, 2, 2, 2, 1}) {
	case 0:
		return randInt(r, n, m, -5, 5), "int"
	case 1:
		return randFloat(r, n, m, math.Pow(10, float64(r.Range(-3, 3)))), "float"
	case 2: // zero rows / columns
		a := randInt(r, n, m, -5, 5)
		i, j := r.Intn(n), r.Intn(m)
		for k := 0; k < m; k++ {
			a.Set(i, k, 0)
		}
		for k := 0; k < n; k++ {
			a.Set(k, j, 0)
		}
		return a, "zero-row-col"
	case 3: // already reduced: upper bidiagonal / Hessenberg / triangular
		a := randInt(r, n, m, -5, 5)
		w := r.Range(0, 1)
		for i := 0; i < n; i++ {
			for j := 0; j < m; j++ {
				if j < i-w || (w == 0 && j > i+1) {
					a.Set(i, j, 0)
				}
			}
		}
		return a, "already-reduced"
	case 4: // graded
		a := randFloat(r, n, m, 1)
		g := float64(r.Range(2, 20))
		for i := 0; i < n; i++ {
			for j := 0; j < m; j++ {
				a.Set(i, j, a.At(i, j)*math.Pow(g, -float64(i+j)))
			}
		}
		return a, "graded"
	case 5: // rank one + diagonal
		a := NewFM(n, m)
		u := randInt(r, n, 1, -3, 3)
		v := randInt(r, m, 1, -3, 3)
		for i := 0; i < n; i++ {
			for j := 0; j < m; j++ {
				a.Set(i, j, u.V[i]*v.V[j])
				if i == j {
					a.Set(i, j, a.At(i, j)+float64(r.Range(0, 2)))
				}
			}
		}
		return a, "diag-plus-rank-one"
	default:
		return NewFM(n, m), "zero"
	}
}

func genSymGeneral(r *Rng, n int) (*FM, string) {
	if r.Intn(4) == 0 { // already tridiagonal (with negative off-diagonal entries)
		a := NewFM(n, n)
		for i := 0; i < n; i++ {
			a.Set(i, i, float64(r.Range(-4, 4)))
			if i+1 < n {
				x := float64(r.Range(-4, 4))
				a.Set(i, i+1, x)
				a.Set(i+1, i, x)
			}
		}
		return a, "tridiagonal"
	}
	a, f := genGeneral(r, n, n)
	return symmetrize(a), "sym-" + f
}

func genVec(r *Rng, n int) ([]float64, string) {
	x := make([]float64, n)
	fam := "float"
	switch r.Pick([]int{4, 3, 2, 2, 1, 1}) {
	case 0:
		for i := range x {
			x[i] = 2*r.Float() - 1
		}
	case 1:
		fam = "int"
		for i := range x {
			x[i] = float64(r.Range(-6, 6))
		}
	case 2: // zero tail: the reflector is the identity
		fam = "zero-tail"
		x[0] = float64(r.Range(-5, 5))
	case 3: // x0 = 0 or negative
		fam = "x0-nonpositive"
		for i := range x {
			x[i] = float64(r.Range(-6, 6))
		}
		x[0] = -float64(r.Range(0, 3))
	case 4: // tiny tail relative to x0: the cancellation branch
		fam = "tiny-tail"
		x[0] = float64(r.Range(1, 5))
		for i := 1; i < n; i++ {
			x[i] = (2*r.Float() - 1) * 1e-9
		}
	default:
		fam = "graded"
		for i := range x {
			x[i] = (2*r.Float() - 1) * math.Pow(10, -float64(2*i))
		}
	}
	return x, fam
}

// GenDirect draws one direct-routine input.
func GenDirect(r *Rng, maxn int) *In {
	n := r.Range(1, maxn)
	switch r.Pick([]int{14, 10, 12, 8, 6, 8, 16, 7, 7, 7, 7}) {
	case 0, 1, 2:
		k := []string{"chol", "ldl", "fpd"}[r.Intn(3)]
		a, fam := genSym(r, n)
		return &In{Kind: k, M: a.Pack(), Garbage: r.Intn(3) == 0, Family: fam}
	case 3:
		x, fam := genVec(r, n)
		return &In{Kind: "house", X: HexList(x), Family: fam}
	case 4:
		m := r.Range(1, maxn)
		a, fam := genGeneral(r, n, m)
		left := r.Bool()
		k := n
		if !left {
			k = m
		}
		x, _ := genVec(r, k)
		beta := []float64{0, 2 * r.Float(), 1, -0.5}[r.Intn(4)]
		kind := "houseR"
		if left {
			kind = "houseL"
		}
		return &In{Kind: kind, M: a.Pack(), X: HexList(x), S: HexList([]float64{beta}), Family: fam}
	case 5:
		var a, b float64
		fam := "float"
		switch r.Intn(7) {
		case 0:
			a, b, fam = float64(r.Range(-5, 5)), 0, "b-zero"
		case 1:
			a, b, fam = 0, float64(r.Range(-5, 5)), "a-zero"
		case 2:
			a = float64(r.Range(1, 5))
			b, fam = a*float64(2*r.Intn(2)-1), "equal-magnitude"
		case 3:
			a, b, fam = float64(r.Range(-9, 9)), float64(r.Range(-9, 9)), "int"
		case 4:
			a, b, fam = (2*r.Float()-1)*1e-8, 2*r.Float()-1, "graded"
		default:
			a, b = 2*r.Float()-1, 2*r.Float()-1
		}
		return &In{Kind: "givens", S: HexList([]float64{a, b}), Family: fam}
	case 6:
		n = r.Range(2, maxn)
		m := r.Range(2, maxn)
		sub := r.Intn(8)
		if sub >= 4 { // the bidiagonal / tridiagonal shortcuts index columns AND rows by i, k: square input
			m = n
		}
		a, fam := genGeneral(r, n, m)
		lim := n // Left variants rotate rows, Right variants columns
		if sub%2 == 1 {
			lim = m
		}
		i := r.Intn(lim)
		k := r.Intn(lim - 1)
		if k >= i {
			k++
		}
		if sub >= 2 && r.Intn(5) != 0 { // banded shortcuts: neighbours and next-to-neighbours hit every guard
			d := []int{1, -1, 2, -2}[r.Intn(4)]
			i = r.Intn(lim)
			k = i + d
			if k < 0 || k >= lim {
				k = i - d
			}
			if k < 0 || k >= lim || k == i {
				i, k = 0, 1
			}
		}
		th := r.Float() * 6.3
		c, s := math.Cos(th), math.Sin(th)
		if r.Intn(5) == 0 {
			c, s = float64(r.Range(-2, 2)), float64(r.Range(-2, 2))
		}
		return &In{Kind: "givapply", M: a.Pack(), S: HexList([]float64{c, s}), I: i, K: k, Sub: sub, Family: fam}
	case 7:
		m := r.Range(1, n)
		a, fam := genGeneral(r, n, m) // n >= m
		return &In{Kind: "gs", M: a.Pack(), Garbage: r.Intn(4) == 0, Family: fam}
	case 8:
		a, fam := genGeneral(r, n, n)
		return &In{Kind: "hess", M: a.Pack(), B1: r.Intn(4) != 0, B2: r.Intn(4) != 0, Garbage: r.Intn(3) == 0, Family: fam}
	case 9:
		m := r.Range(1, n)
		a, fam := genGeneral(r, n, m)
		return &In{Kind: "bidiag", M: a.Pack(), B1: r.Intn(4) != 0, B2: r.Intn(4) != 0, Garbage: r.Intn(3) == 0, Family: fam}
	default:
		a, fam := genSymGeneral(r, n)
		return &In{Kind: "tridiag", M: a.Pack(), B1: r.Intn(4) != 0, Garbage: r.Intn(3) == 0, Family: fam}
	}
}

// ---------------------------------------------------------------- iterative routines

// integer matrix P T P^-1 with T upper triangular (diagonal drawn from a small
// set, so eigenvalues repeat) and P a product of integer shears: the spectrum is
// real and known exactly, the entries are small integers.
func intSimilar(r *Rng, n int) (*FM, bool) {
	t := NewFM(n, n)
	distinct := true
	for i := 0; i < n; i++ {
		t.Set(i, i, float64(r.Range(-2, 3)))
		if r.Intn(3) != 0 { // mostly distinct, well separated eigenvalues
			t.Set(i, i, float64(2*i-n)+0.5*float64(r.Intn(2)))
		}
		for j := 0; j < i; j++ {
			if t.At(j, j) == t.At(i, i) {
				distinct = false
			}
		}
		for j := i + 1; j < n; j++ {
			if r.Intn(3) != 0 {
				t.Set(i, j, float64(r.Range(-2, 2)))
			}
		}
	}
	a := t
	for s := 0; s < n; s++ {
		i, j := r.Intn(n), r.Intn(n)
		if i == j || n == 1 {
			continue
		}
		c := float64(r.Range(-1, 1))
		p, q := Ident(n), Ident(n)
		p.Set(i, j, c)
		q.Set(i, j, -c)
		a = p.Mul(a).Mul(q)
	}
	return a, distinct
}

func companion(r *Rng, n int) *FM {
	a := NewFM(n, n)
	for i := 1; i < n; i++ {
		a.Set(i, i-1, 1)
	}
	for i := 0; i < n; i++ {
		a.Set(i, n-1, float64(r.Range(-3, 3)))
	}
	return a
}

func permutation(r *Rng, n int) *FM {
	p := make([]int, n)
	for i := range p {
		p[i] = i
	}
	for i := n - 1; i > 0; i-- {
		j := r.Intn(i + 1)
		p[i], p[j] = p[j], p[i]
	}
	a := NewFM(n, n)
	for i := 0; i < n; i++ {
		a.Set(i, p[i], 1)
	}
	return a
}

func clusteredSym(r *Rng, n int) *FM {
	// Q D Q^T with Q a product of Givens rotations and D with repeated / clustered entries
	d := NewFM(n, n)
	base := float64(r.Range(1, 3))
	for i := 0; i < n; i++ {
		switch r.Intn(3) {
		case 0:
			d.Set(i, i, base)
		case 1:
			d.Set(i, i, base+1e-7*float64(r.Range(0, 3)))
		default:
			d.Set(i, i, float64(r.Range(-3, 5)))
		}
	}
	a := d
	for s := 0; s < 2*n && n > 1; s++ {
		i := r.Intn(n)
		k := r.Intn(n - 1)
		if k >= i {
			k++
		}
		th := r.Float() * 6.3
		g := Ident(n)
		g.Set(i, i, math.Cos(th))
		g.Set(k, k, math.Cos(th))
		g.Set(i, k, math.Sin(th))
		g.Set(k, i, -math.Sin(th))
		a = g.Mul(a).Mul(g.T())
	}
	return symmetrize(a)
}

func genSquareIter(r *Rng, n int) (*FM, string, bool) {
	switch r.Pick([]int{4, 3, 3, 3, 2, 2, 2, 2, 1}) {
	case 0:
		a, f := genGeneral(r, n, n)
		return a, f, false
	case 1:
		a, distinct := intSimilar(r, n)
		if distinct {
			return a, "int-similar-distinct-real-spectrum", true
		}
		// a repeated eigenvalue of a non-symmetric matrix splits into a complex pair under rounding
		return a, "int-similar-repeated-eigenvalue", false
	case 2:
		a, f := genSymGeneral(r, n)
		return a, f, true
	case 3:
		return clusteredSym(r, n), "sym-clustered", true
	case 4:
		return companion(r, n), "companion", false
	case 5: // upper triangular / Hessenberg already
		a := randInt(r, n, n, -4, 4)
		w := r.Range(0, 1)
		for i := 0; i < n; i++ {
			for j := 0; j+w < i; j++ {
				a.Set(i, j, 0)
			}
		}
		if w == 0 {
			for i := 0; i < n; i++ { // distinct diagonal: the spectrum of the triangular matrix stays real
				a.Set(i, i, float64(2*i-n))
			}
		}
		return a, "already-reduced", w == 0
	case 6: // multiple of the identity / diagonal with repeats
		a := NewFM(n, n)
		c := float64(r.Range(1, 3))
		for i := 0; i < n; i++ {
			a.Set(i, i, c)
			if r.Intn(4) == 0 {
				a.Set(i, i, c+1)
			}
		}
		return a, "diag-repeated", true
	case 7: // rotation blocks: complex conjugate pairs
		a := NewFM(n, n)
		for i := 0; i+1 < n; i += 2 {
			th := r.Float() * 3
			s := float64(r.Range(1, 3))
			a.Set(i, i, s*math.Cos(th))
			a.Set(i+1, i+1, s*math.Cos(th))
			a.Set(i, i+1, s*math.Sin(th))
			a.Set(i+1, i, -s*math.Sin(th))
		}
		if n%2 == 1 {
			a.Set(n-1, n-1, float64(r.Range(-2, 2)))
		}
		b := randInt(r, n, n, -1, 1)
		for i := range a.V {
			a.V[i] += 0.125 * b.V[i]
		}
		return a, "complex-pairs", false
	default:
		return permutation(r, n), "permutation", false
	}
}

func GenIter(r *Rng, maxn int) *IterIn {
	n := r.Range(1, maxn)
	path := "f64"
	if r.Intn(4) == 0 {
		path = "r64"
	}
	switch r.Pick([]int{5, 5, 5, 2, 2}) {
	case 0:
		a, fam, _ := genSquareIter(r, n)
		in := &IterIn{Kind: "qr", M: a.Pack(), B1: r.Intn(5) != 0, Path: path, Family: fam}
		if strings.HasPrefix(fam, "sym") || fam == "tridiagonal" {
			in.Sym = r.Bool()
		}
		return in
	case 1:
		m := r.Range(1, n)
		var a *FM
		var fam string
		switch r.Intn(5) {
		case 0: // all ones / rank one
			a = NewFM(n, m)
			for i := range a.V {
				a.V[i] = 1
			}
			fam = "ones"
		case 1: // upper bidiagonal already, with zero diagonal entries
			a = NewFM(n, m)
			for i := 0; i < m; i++ {
				a.Set(i, i, float64(r.Range(-3, 3)))
				if i+1 < m {
					a.Set(i, i+1, float64(r.Range(-3, 3)))
				}
			}
			fam = "bidiagonal"
		default:
			a, fam = genGeneral(r, n, m)
		}
		return &IterIn{Kind: "svd", M: a.Pack(), B1: r.Intn(6) != 0, B2: r.Intn(6) != 0, Path: path, Family: fam}
	case 2:
		a, fam, realspec := genSquareIter(r, n)
		in := &IterIn{Kind: "eig", M: a.Pack(), B1: r.Intn(6) != 0, Path: path, Family: fam, RealSpectrum: realspec}
		if strings.HasPrefix(fam, "sym") || fam == "tridiagonal" {
			in.Sym = r.Bool()
		}
		return in
	default:
		var a *FM
		fam := "spd-gram"
		switch r.Intn(3) {
		case 0:
			a = gram(r, n, n+2, float64(r.Range(1, 3)))
		case 1:
			a = scaleM(gram(r, n, n+1, 2), 0.05*float64(r.Range(1, 40)))
			fam = "spd-scaled-gram"
		default:
			a = NewFM(n, n)
			for i := 0; i < n; i++ {
				a.Set(i, i, float64(r.Range(1, 9)))
			}
			fam = "spd-diagonal"
		}
		k := "msqrt"
		if r.Bool() {
			k = "msqrtinv"
		}
		return &IterIn{Kind: k, M: a.Pack(), Path: path, Family: fam}
	}
}

// DenseSweep: the full contracts of qrAlgorithm / svd / eigensystem on DENSE random
// inputs of every size 1..8 (all factors requested), part of every run.
//   qr : general float, general integer
//   svd: square and tall (n x m, m < n) float, square integer
//   eig: symmetric float without the Symmetric option (real spectrum: every eigenpair
//        is checked), symmetric float with it, non-symmetric integer matrix similar
//        to a triangular matrix with distinct diagonal (real spectrum)
func DenseSweep(r *Rng) []*IterIn {
	var out []*IterIn
	for n := 1; n <= 8; n++ {
		path := "f64"
		if n%3 == 0 {
			path = "r64"
		}
		fam := "dense-sweep"
		out = append(out, &IterIn{Kind: "qr", M: randFloat(r, n, n, 4).Pack(), B1: true, Path: path, Family: fam})
		out = append(out, &IterIn{Kind: "qr", M: randInt(r, n, n, -5, 5).Pack(), B1: true, Path: "f64", Family: fam})
		out = append(out, &IterIn{Kind: "svd", M: randFloat(r, n, n, 4).Pack(), B1: true, B2: true, Path: path, Family: fam})
		if n > 1 {
			out = append(out, &IterIn{Kind: "svd", M: randFloat(r, n, r.Range(1, n-1), 4).Pack(), B1: true, B2: true, Path: "f64", Family: fam})
		}
		out = append(out, &IterIn{Kind: "svd", M: randInt(r, n, n, -5, 5).Pack(), B1: true, B2: true, Path: "f64", Family: fam})
		out = append(out, &IterIn{Kind: "eig", M: symmetrize(randFloat(r, n, n, 4)).Pack(), B1: true, Path: path, Family: fam, RealSpectrum: true})
		out = append(out, &IterIn{Kind: "eig", M: symmetrize(randFloat(r, n, n, 4)).Pack(), B1: true, Sym: true, Path: "f64", Family: fam, RealSpectrum: true})
		for t := 0; t < 20; t++ {
			a, distinct := intSimilar(r, n)
			if distinct {
				out = append(out, &IterIn{Kind: "eig", M: a.Pack(), B1: true, Path: "f64", Family: fam, RealSpectrum: true})
				break
			}
		}
	}
	return out
}
