// Input generators of the C05 harness (all randomness from common.Rng).
package main

import (
	"math"
	"strings"

	. "adharness/common"
)

func randInt(r *Rng, n, m, lo, hi int) *FM {
	a := NewFM(n, m)
	for i := range a.V {
		a.V[i] = float64(r.Range(lo, hi))
	}
	return a
}
func randFloat(r *Rng, n, m int, scale float64) *FM {
	a := NewFM(n, m)
	for i := range a.V {
		a.V[i] = (2*r.Float() - 1) * scale
	}
	return a
}

// Gram matrix G^T G + shift*I of an integer G (k x n): exactly representable, SPD when shift > 0 or rank n
func gram(r *Rng, n, k int, shift float64) *FM {
	g := randInt(r, k, n, -3, 3)
	a := g.T().Mul(g)
	for i := 0; i < n; i++ {
		a.Set(i, i, a.At(i, i)+shift)
	}
	return a
}
func scaleM(a *FM, f float64) *FM {
	b := a.Clone()
	for i := range b.V {
		b.V[i] *= f
	}
	return b
}
func symmetrize(a *FM) *FM {
	b := a.Clone()
	for i := 0; i < a.R; i++ {
		for j := 0; j < i; j++ {
			b.Set(j, i, a.At(i, j))
		}
	}
	return b
}

// D A D with D = diag(g^0, g^-1, ...): graded scales
func graded(a *FM, g float64) *FM {
	b := a.Clone()
	for i := 0; i < a.R; i++ {
		for j := 0; j < a.C; j++ {
			b.Set(i, j, a.At(i, j)*math.Pow(g, -float64(i))*math.Pow(g, -float64(j)))
		}
	}
	return b
}

// symmetric matrix families for the Cholesky routines; returns the family name
func genSym(r *Rng, n int) (*FM, string) {
	switch r.Pick([]int{5, 4, 3, 3, 3, 2, 2, 2, 1, 1, 1}) {
	case 0:
		return gram(r, n, n+2, float64(r.Range(0, 2))), "spd-int-gram"
	case 1:
		return scaleM(gram(r, n, n+1, 1), 0.1*float64(r.Range(1, 30))), "spd-scaled-gram"
	case 2: // nearly singular: rank n-1 Gram plus a tiny shift
		k := n - 1
		if k < 1 {
			k = 1
		}
		a := gram(r, n, k, 0)
		sh := math.Pow(10, -float64(r.Range(6, 13)))
		for i := 0; i < n; i++ {
			a.Set(i, i, a.At(i, i)+sh)
		}
		return a, "spd-nearly-singular"
	case 3: // indefinite symmetric integer matrix
		return symmetrize(randInt(r, n, n, -4, 4)), "sym-indefinite"
	case 4: // SPD with one diagonal entry pushed down: fails (or nearly) at a late pivot
		a := gram(r, n, n+1, 1)
		i := r.Intn(n)
		a.Set(i, i, a.At(i, i)-float64(r.Range(1, 40)))
		return a, "spd-broken-diag"
	case 5: // exactly singular PSD (rank-deficient integer Gram): zero pivots
		k := n - 1
		if k < 1 {
			k = 1
		}
		return gram(r, n, k, 0), "psd-singular"
	case 6:
		return graded(gram(r, n, n+1, 1), float64(r.Range(2, 30))), "spd-graded"
	case 7: // diagonally dominant with float entries
		a := symmetrize(randFloat(r, n, n, 1))
		for i := 0; i < n; i++ {
			a.Set(i, i, float64(n)+r.Float())
		}
		return a, "spd-diag-dominant-float"
	case 8: // not symmetric at all: only the lower triangle may be read
		return randInt(r, n, n, -3, 9), "nonsymmetric"
	case 9: // zero matrix / zero leading entry
		a := gram(r, n, n+1, 1)
		if r.Bool() {
			return NewFM(n, n), "zero"
		}
		a.Set(0, 0, 0)
		return a, "zero-leading-pivot"
	default: // negative definite
		return scaleM(gram(r, n, n+1, 1), -1), "negative-definite"
	}
}

// general (rectangular) matrices for the orthogonal reductions
func genGeneral(r *Rng, n, m int) (*FM, string) {
	switch r.Pick([]int{4, 4, 2, 2, 2, 2, 1}) {
	case 0:
		return randInt(r, n, m, -5, 5), "int"
	case 1:
		return randFloat(r, n, m, math.Pow(10, float64(r.Range(-3, 3)))), "float"
	case 2: // zero rows / columns
		a := randInt(r, n, m, -5, 5)
		i, j := r.Intn(n), r.Intn(m)
		for k := 0; k < m; k++ {
			a.Set(i, k, 0)
		}
		for k := 0; k < n; k++ {
			a.Set(k, j, 0)
		}
		return a, "zero-row-col"
	case 3: // already reduced: upper bidiagonal / Hessenberg / triangular
		a := randInt(r, n, m, -5, 5)
		w := r.Range(0, 1)
		for i := 0; i < n; i++ {
			for j := 0; j < m; j++ {
				if j < i-w || (w == 0 && j > i+1) {
					a.Set(i, j, 0)
				}
			}
		}
		return a, "already-reduced"
	case 4: // graded
		a := randFloat(r, n, m, 1)
		g := float64(r.Range(2, 20))
		for i := 0; i < n; i++ {
			for j := 0; j < m; j++ {
				a.Set(i, j, a.At(i, j)*math.Pow(g, -float64(i+j)))
			}
		}
		return a, "graded"
	case 5: // rank one + diagonal
		a := NewFM(n, m)
		u := randInt(r, n, 1, -3, 3)
		v := randInt(r, m, 1, -3, 3)
		for i := 0; i < n; i++ {
			for j := 0; j < m; j++ {
				a.Set(i, j, u.V[i]*v.V[j])
				if i == j {
					a.Set(i, j, a.At(i, j)+float64(r.Range(0, 2)))
				}
			}
		}
		return a, "diag-plus-rank-one"
	default:
		return NewFM(n, m), "zero"
	}
}

func genSymGeneral(r *Rng, n int) (*FM, string) {
	if r.Intn(4) == 0 { // already tridiagonal (with negative off-diagonal entries)
		a := NewFM(n, n)
		for i := 0; i < n; i++ {
			a.Set(i, i, float64(r.Range(-4, 4)))
			if i+1 < n {
				x := float64(r.Range(-4, 4))
				a.Set(i, i+1, x)
				a.Set(i+1, i, x)
			}
		}
		return a, "tridiagonal"
	}
	a, f := genGeneral(r, n, n)
	return symmetrize(a), "sym-" + f
}

func genVec(r *Rng, n int) ([]float64, string) {
	x := make([]float64, n)
	fam := "float"
	switch r.Pick([]int{4, 3, 2, 2, 1, 1}) {
	case 0:
		for i := range x {
			x[i] = 2*r.Float() - 1
		}
	case 1:
		fam = "int"
		for i := range x {
			x[i] = float64(r.Range(-6, 6))
		}
	case 2: // zero tail: the reflector is the identity
		fam = "zero-tail"
		x[0] = float64(r.Range(-5, 5))
	case 3: // x0 = 0 or negative
		fam = "x0-nonpositive"
		for i := range x {
			x[i] = float64(r.Range(-6, 6))
		}
		x[0] = -float64(r.Range(0, 3))
	case 4: // tiny tail relative to x0: the cancellation branch
		fam = "tiny-tail"
		x[0] = float64(r.Range(1, 5))
		for i := 1; i < n; i++ {
			x[i] = (2*r.Float() - 1) * 1e-9
		}
	default:
		fam = "graded"
		for i := range x {
			x[i] = (2*r.Float() - 1) * math.Pow(10, -float64(2*i))
		}
	}
	return x, fam
}

// GenDirect draws one direct-routine input: the first detDirectSlots calls of a
// process return the deterministic regression families (regress.go part below),
// every later call a random draw.
func GenDirect(r *Rng, maxn int) *In {
	k := genDirectSeq
	genDirectSeq++
	if k < detDirectSlots {
		return detDirect(r, k)
	}
	return genDirectRandom(r, maxn)
}

func genDirectRandom(r *Rng, maxn int) *In {
	n := r.Range(1, maxn)
	switch r.Pick([]int{14, 10, 12, 8, 6, 8, 16, 7, 7, 7, 7}) {
	case 0, 1, 2:
		k := []string{"chol", "ldl", "fpd"}[r.Intn(3)]
		a, fam := genSym(r, n)
		in := &In{Kind: k, M: a.Pack(), Garbage: r.Intn(3) == 0, Family: fam}
		if !in.Garbage && k != "fpd" && r.Intn(4) == 0 { // factorise in place (fpd: see detDirect)
			in.InPlace = true
			in.Family = fam + "+inplace"
		}
		return in
	case 3:
		x, fam := genVec(r, n)
		return &In{Kind: "house", X: HexList(x), Family: fam}
	case 4:
		m := r.Range(1, maxn)
		a, fam := genGeneral(r, n, m)
		left := r.Bool()
		k := n
		if !left {
			k = m
		}
		x, _ := genVec(r, k)
		beta := []float64{0, 2 * r.Float(), 1, -0.5}[r.Intn(4)]
		kind := "houseR"
		if left {
			kind = "houseL"
		}
		return &In{Kind: kind, M: a.Pack(), X: HexList(x), S: HexList([]float64{beta}), Family: fam}
	case 5:
		var a, b float64
		fam := "float"
		switch r.Intn(7) {
		case 0:
			a, b, fam = float64(r.Range(-5, 5)), 0, "b-zero"
		case 1:
			a, b, fam = 0, float64(r.Range(-5, 5)), "a-zero"
		case 2:
			a = float64(r.Range(1, 5))
			b, fam = a*float64(2*r.Intn(2)-1), "equal-magnitude"
		case 3:
			a, b, fam = float64(r.Range(-9, 9)), float64(r.Range(-9, 9)), "int"
		case 4:
			a, b, fam = (2*r.Float()-1)*1e-8, 2*r.Float()-1, "graded"
		default:
			a, b = 2*r.Float()-1, 2*r.Float()-1
		}
		return &In{Kind: "givens", S: HexList([]float64{a, b}), Family: fam}
	case 6:
		n = r.Range(2, maxn)
		m := r.Range(2, maxn)
		sub := r.Intn(8)
		if sub >= 4 { // the bidiagonal / tridiagonal shortcuts index columns AND rows by i, k: square input
			m = n
		}
		a, fam := genGeneral(r, n, m)
		lim := n // Left variants rotate rows, Right variants columns
		if sub%2 == 1 {
			lim = m
		}
		i := r.Intn(lim)
		k := r.Intn(lim - 1)
		if k >= i {
			k++
		}
		if sub >= 2 && r.Intn(5) != 0 { // banded shortcuts: neighbours and next-to-neighbours hit every guard
			d := []int{1, -1, 2, -2}[r.Intn(4)]
			i = r.Intn(lim)
			k = i + d
			if k < 0 || k >= lim {
				k = i - d
			}
			if k < 0 || k >= lim || k == i {
				i, k = 0, 1
			}
		}
		th := r.Float() * 6.3
		c, s := math.Cos(th), math.Sin(th)
		if r.Intn(5) == 0 {
			c, s = float64(r.Range(-2, 2)), float64(r.Range(-2, 2))
		}
		return &In{Kind: "givapply", M: a.Pack(), S: HexList([]float64{c, s}), I: i, K: k, Sub: sub, Family: fam}
	case 7:
		m := r.Range(1, n)
		a, fam := genGeneral(r, n, m) // n >= m
		return &In{Kind: "gs", M: a.Pack(), Garbage: r.Intn(4) == 0, Family: fam}
	case 8:
		a, fam := genGeneral(r, n, n)
		return &In{Kind: "hess", M: a.Pack(), B1: r.Intn(4) != 0, B2: r.Intn(4) != 0, Garbage: r.Intn(3) == 0, Family: fam}
	case 9:
		m := r.Range(1, n)
		a, fam := genGeneral(r, n, m)
		return &In{Kind: "bidiag", M: a.Pack(), B1: r.Intn(4) != 0, B2: r.Intn(4) != 0, Garbage: r.Intn(3) == 0, Family: fam}
	default:
		a, fam := genSymGeneral(r, n)
		return &In{Kind: "tridiag", M: a.Pack(), B1: r.Intn(4) != 0, Garbage: r.Intn(3) == 0, Family: fam}
	}
}

// ---------------------------------------------------------------- iterative routines

// integer matrix P T P^-1 with T upper triangular (diagonal drawn from a small
// set, so eigenvalues repeat) and P a product of integer shears: the spectrum is
// real and known exactly, the entries are small integers.
func intSimilar(r *Rng, n int) (*FM, bool) {
	t := NewFM(n, n)
	distinct := true
	for i := 0; i < n; i++ {
		t.Set(i, i, float64(r.Range(-2, 3)))
		if r.Intn(3) != 0 { // mostly distinct, well separated eigenvalues
			t.Set(i, i, float64(2*i-n)+0.5*float64(r.Intn(2)))
		}
		for j := 0; j < i; j++ {
			if t.At(j, j) == t.At(i, i) {
				distinct = false
			}
		}
		for j := i + 1; j < n; j++ {
			if r.Intn(3) != 0 {
				t.Set(i, j, float64(r.Range(-2, 2)))
			}
		}
	}
	a := t
	for s := 0; s < n; s++ {
		i, j := r.Intn(n), r.Intn(n)
		if i == j || n == 1 {
			continue
		}
		c := float64(r.Range(-1, 1))
		p, q := Ident(n), Ident(n)
		p.Set(i, j, c)
		q.Set(i, j, -c)
		a = p.Mul(a).Mul(q)
	}
	return a, distinct
}

func companion(r *Rng, n int) *FM {
	a := NewFM(n, n)
	for i := 1; i < n; i++ {
		a.Set(i, i-1, 1)
	}
	for i := 0; i < n; i++ {
		a.Set(i, n-1, float64(r.Range(-3, 3)))
	}
	return a
}

func permutation(r *Rng, n int) *FM {
	p := make([]int, n)
	for i := range p {
		p[i] = i
	}
	for i := n - 1; i > 0; i-- {
		j := r.Intn(i + 1)
		p[i], p[j] = p[j], p[i]
	}
	a := NewFM(n, n)
	for i := 0; i < n; i++ {
		a.Set(i, p[i], 1)
	}
	return a
}

func clusteredSym(r *Rng, n int) *FM {
	// Q D Q^T with Q a product of Givens rotations and D with repeated / clustered entries
	d := NewFM(n, n)
	base := float64(r.Range(1, 3))
	for i := 0; i < n; i++ {
		switch r.Intn(3) {
		case 0:
			d.Set(i, i, base)
		case 1:
			d.Set(i, i, base+1e-7*float64(r.Range(0, 3)))
		default:
			d.Set(i, i, float64(r.Range(-3, 5)))
		}
	}
	a := d
	for s := 0; s < 2*n && n > 1; s++ {
		i := r.Intn(n)
		k := r.Intn(n - 1)
		if k >= i {
			k++
		}
		th := r.Float() * 6.3
		g := Ident(n)
		g.Set(i, i, math.Cos(th))
		g.Set(k, k, math.Cos(th))
		g.Set(i, k, math.Sin(th))
		g.Set(k, i, -math.Sin(th))
		a = g.Mul(a).Mul(g.T())
	}
	return symmetrize(a)
}

func genSquareIter(r *Rng, n int) (*FM, string, bool) {
	switch r.Pick([]int{4, 3, 3, 3, 2, 2, 2, 2, 1}) {
	case 0:
		a, f := genGeneral(r, n, n)
		return a, f, false
	case 1:
		a, distinct := intSimilar(r, n)
		if distinct {
			return a, "int-similar-distinct-real-spectrum", true
		}
		// a repeated eigenvalue of a non-symmetric matrix splits into a complex pair under rounding
		return a, "int-similar-repeated-eigenvalue", false
	case 2:
		a, f := genSymGeneral(r, n)
		return a, f, true
	case 3:
		return clusteredSym(r, n), "sym-clustered", true
	case 4:
		return companion(r, n), "companion", false
	case 5: // upper triangular / Hessenberg already
		a := randInt(r, n, n, -4, 4)
		w := r.Range(0, 1)
		for i := 0; i < n; i++ {
			for j := 0; j+w < i; j++ {
				a.Set(i, j, 0)
			}
		}
		if w == 0 {
			for i := 0; i < n; i++ { // distinct diagonal: the spectrum of the triangular matrix stays real
				a.Set(i, i, float64(2*i-n))
			}
		}
		return a, "already-reduced", w == 0
	case 6: // multiple of the identity / diagonal with repeats
		a := NewFM(n, n)
		c := float64(r.Range(1, 3))
		for i := 0; i < n; i++ {
			a.Set(i, i, c)
			if r.Intn(4) == 0 {
				a.Set(i, i, c+1)
			}
		}
		return a, "diag-repeated", true
	case 7: // rotation blocks: complex conjugate pairs
		a := NewFM(n, n)
		for i := 0; i+1 < n; i += 2 {
			th := r.Float() * 3
			s := float64(r.Range(1, 3))
			a.Set(i, i, s*math.Cos(th))
			a.Set(i+1, i+1, s*math.Cos(th))
			a.Set(i, i+1, s*math.Sin(th))
			a.Set(i+1, i, -s*math.Sin(th))
		}
		if n%2 == 1 {
			a.Set(n-1, n-1, float64(r.Range(-2, 2)))
		}
		b := randInt(r, n, n, -1, 1)
		for i := range a.V {
			a.V[i] += 0.125 * b.V[i]
		}
		return a, "complex-pairs", false
	default:
		return permutation(r, n), "permutation", false
	}
}

func GenIter(r *Rng, maxn int) *IterIn {
	k := genIterSeq
	genIterSeq++
	if k < detIterSlots {
		return detIter(r, k)
	}
	return genIterRandom(r, maxn)
}

func genIterRandom(r *Rng, maxn int) *IterIn {
	n := r.Range(1, maxn)
	path := "f64"
	if r.Intn(4) == 0 {
		path = "r64"
	}
	switch r.Pick([]int{5, 5, 5, 2, 2}) {
	case 0:
		a, fam, _ := genSquareIter(r, n)
		in := &IterIn{Kind: "qr", M: a.Pack(), B1: r.Intn(5) != 0, Path: path, Family: fam}
		if strings.HasPrefix(fam, "sym") || fam == "tridiagonal" {
			in.Sym = r.Bool()
		}
		return in
	case 1:
		m := r.Range(1, n)
		var a *FM
		var fam string
		switch r.Intn(5) {
		case 0: // all ones / rank one
			a = NewFM(n, m)
			for i := range a.V {
				a.V[i] = 1
			}
			fam = "ones"
		case 1: // upper bidiagonal already, with zero diagonal entries
			a = NewFM(n, m)
			for i := 0; i < m; i++ {
				a.Set(i, i, float64(r.Range(-3, 3)))
				if i+1 < m {
					a.Set(i, i+1, float64(r.Range(-3, 3)))
				}
			}
			fam = "bidiagonal"
		default:
			a, fam = genGeneral(r, n, m)
		}
		return &IterIn{Kind: "svd", M: a.Pack(), B1: r.Intn(6) != 0, B2: r.Intn(6) != 0, Path: path, Family: fam}
	case 2:
		a, fam, realspec := genSquareIter(r, n)
		in := &IterIn{Kind: "eig", M: a.Pack(), B1: r.Intn(6) != 0, Path: path, Family: fam, RealSpectrum: realspec}
		if strings.HasPrefix(fam, "sym") || fam == "tridiagonal" {
			in.Sym = r.Bool()
		}
		return in
	default:
		var a *FM
		fam := "spd-gram"
		switch r.Intn(3) {
		case 0:
			a = gram(r, n, n+2, float64(r.Range(1, 3)))
		case 1:
			a = scaleM(gram(r, n, n+1, 2), 0.05*float64(r.Range(1, 40)))
			fam = "spd-scaled-gram"
		default:
			a = NewFM(n, n)
			for i := 0; i < n; i++ {
				a.Set(i, i, float64(r.Range(1, 9)))
			}
			fam = "spd-diagonal"
		}
		k := "msqrt"
		if r.Bool() {
			k = "msqrtinv"
		}
		return &IterIn{Kind: k, M: a.Pack(), Path: path, Family: fam}
	}
}

// DenseSweep: the full contracts of qrAlgorithm / svd / eigensystem on DENSE random
// inputs of every size 1..8 (all factors requested), part of every run.
//   qr : general float, general integer
//   svd: square and tall (n x m, m < n) float, square integer
//   eig: symmetric float without the Symmetric option (real spectrum: every eigenpair
//        is checked), symmetric float with it, non-symmetric integer matrix similar
//        to a triangular matrix with distinct diagonal (real spectrum)
func DenseSweep(r *Rng) []*IterIn {
	var out []*IterIn
	for n := 1; n <= 8; n++ {
		path := "f64"
		if n%3 == 0 {
			path = "r64"
		}
		fam := "dense-sweep"
		out = append(out, &IterIn{Kind: "qr", M: randFloat(r, n, n, 4).Pack(), B1: true, Path: path, Family: fam})
		out = append(out, &IterIn{Kind: "qr", M: randInt(r, n, n, -5, 5).Pack(), B1: true, Path: "f64", Family: fam})
		out = append(out, &IterIn{Kind: "svd", M: randFloat(r, n, n, 4).Pack(), B1: true, B2: true, Path: path, Family: fam})
		if n > 1 {
			out = append(out, &IterIn{Kind: "svd", M: randFloat(r, n, r.Range(1, n-1), 4).Pack(), B1: true, B2: true, Path: "f64", Family: fam})
		}
		out = append(out, &IterIn{Kind: "svd", M: randInt(r, n, n, -5, 5).Pack(), B1: true, B2: true, Path: "f64", Family: fam})
		out = append(out, &IterIn{Kind: "eig", M: symmetrize(randFloat(r, n, n, 4)).Pack(), B1: true, Path: path, Family: fam, RealSpectrum: true})
		out = append(out, &IterIn{Kind: "eig", M: symmetrize(randFloat(r, n, n, 4)).Pack(), B1: true, Sym: true, Path: "f64", Family: fam, RealSpectrum: true})
		for t := 0; t < 20; t++ {
			a, distinct := intSimilar(r, n)
			if distinct {
				out = append(out, &IterIn{Kind: "eig", M: a.Pack(), B1: true, Path: "f64", Family: fam, RealSpectrum: true})
				break
			}
		}
	}
	return out
}

// ---------------------------------------------------------------- deterministic regression families
//
// Input classes that a random draw reaches too rarely to rely on; each of them is
// what made a past (seeded) regression visible.  The first calls of GenDirect /
// GenIter in a process return them in a fixed order (entries still depend on the
// seed), so every run of every tier contains a guaranteed minimum of each; the
// family names below show up in the histogram.
//
//   bidiag / svd  "v-only-*"       ComputeV without ComputeU, >= 3 columns, dense (non-trivial
//                                  row reflections), square and tall: the V accumulation must
//                                  not depend on what the U accumulation leaves in the shared Nu
//   givens        "zero-zero" ...  the pairs (0,0), (-0,0), (0,-0), (a,0), (0,b): identity rotation
//   svd           "two-zero-cols", "zerodiag-zero-last": the SVD asks for the (0,0) rotation
//   fpd           "gmw-stale-*"    Gill-Murray-Wright with a LARGER off-diagonal maximum in an
//                                  earlier column than in a later, not last one whose pivot is
//                                  small (SPD / indefinite / nearly singular / bound nearly active)
//   qr, eig       "sym-blockdiag-*" Symmetric{true} + ComputeU on diag(B1, B2), both blocks
//                                  unreduced of size >= 2: the active block starts at p > 0
//   chol ldl fpd  "recycled-L", "inplace": recycled InSitu.L with a non-zero strict upper
//                                  triangle, and InSitu.L = the input matrix itself
var genDirectSeq, genIterSeq int

const detDirectSlots = 4 + 5 + 4 + 11
const detIterSlots = 3 + 4 + 6

func genNZ(r *Rng, hi int) float64 {
	x := float64(r.Range(1, hi))
	if r.Bool() {
		x = -x
	}
	return x
}

// dense matrix without zero entries (integers, or integers plus a random fraction)
func denseNZ(r *Rng, n, m int, frac bool) *FM {
	a := NewFM(n, m)
	for i := range a.V {
		a.V[i] = genNZ(r, 5)
		if frac {
			a.V[i] += 0.5 * (r.Float() - 0.5)
		}
	}
	return a
}

// symmetric A = t t^T / g + E with t = (g, t_1, ..), |t_i| in [g/4, g/2] and a small E that
// vanishes in row and column 0: column 0 has the large off-diagonal maximum theta_0 >= g/4,
// the Schur complement after column 0 is E, so the pivot of column 1 is c_11 = E_11 = p and
// theta_1 = max |E_i1| is small: (theta_0/beta)^2 >= g/16 > |p| >= (theta_1/beta)^2 (beta^2 = g).
// variant 0: SPD, 1: indefinite (p < 0), 2: nearly singular (p = 2^-30), 3: bound of column 1 nearly active
func gmwStale(r *Rng, n, variant int) *FM {
	g := float64(int(4) << uint(r.Range(0, 2)))
	t := make([]float64, n)
	t[0] = g
	for i := 1; i < n; i++ {
		t[i] = g / 8 * float64(r.Range(2, 4))
		if r.Bool() {
			t[i] = -t[i]
		}
	}
	p := 0.125
	switch variant {
	case 1:
		p = -0.125
	case 2:
		p = 1.0 / float64(1<<30)
	}
	e := NewFM(n, n)
	for j := 1; j < n; j++ {
		sc := p / float64(int(1)<<uint(j-1)) // decreasing by column
		if sc < 0 {
			sc = -sc
		}
		e.Set(j, j, sc*(1+0.25*float64(r.Intn(3))))
		for i := j + 1; i < n; i++ {
			x := sc / float64(2*n) * float64(r.Range(1, 4)) / 4
			if r.Bool() {
				x = -x
			}
			e.Set(i, j, x)
			e.Set(j, i, x)
		}
	}
	e.Set(1, 1, p)
	if variant == 3 && n > 2 { // (theta_1/beta)^2 = |E_21|^2 / g within a few ulps of p
		x := math.Sqrt(p*g) * (1 + float64(r.Range(-2, 2))*math.Pow(2, -51))
		e.Set(2, 1, x)
		e.Set(1, 2, x)
	}
	a := NewFM(n, n)
	for i := 0; i < n; i++ {
		for j := 0; j < n; j++ {
			a.Set(i, j, t[i]*t[j]/g+e.At(i, j))
		}
	}
	return a
}

func detDirect(r *Rng, k int) *In {
	switch {
	case k < 4: // bidiagonalisation, V only
		var a *FM
		fam := "v-only-square"
		switch k {
		case 0:
			n := r.Range(3, 5)
			a = denseNZ(r, n, n, false)
		case 1:
			m := r.Range(3, 4)
			a, fam = denseNZ(r, m+r.Range(1, 2), m, true), "v-only-tall"
		case 2:
			n := r.Range(4, 6)
			a = denseNZ(r, n, n, true)
		default:
			m := r.Range(3, 5)
			a, fam = denseNZ(r, m+1, m, false), "v-only-tall"
		}
		return &In{Kind: "bidiag", M: a.Pack(), B1: false, B2: true, Garbage: k%2 == 1, Family: fam}
	case k < 9: // Givens rotation of degenerate pairs
		negz := math.Copysign(0, -1)
		x := genNZ(r, 5)
		if r.Bool() {
			x *= r.Float() + 0.5
		}
		ab := [][2]float64{{0, 0}, {negz, 0}, {0, negz}, {x, 0}, {0, x}}[k-4]
		fam := []string{"zero-zero", "negzero-zero", "zero-negzero", "b-zero", "a-zero"}[k-4]
		return &In{Kind: "givens", S: HexList([]float64{ab[0], ab[1]}), Family: fam}
	case k < 13: // forced-PD LDL: stale theta of an earlier column would be the larger one
		v := k - 9
		n := r.Range(3, 5)
		if v == 0 {
			n = 3
		}
		fam := []string{"gmw-stale-spd", "gmw-stale-indefinite", "gmw-stale-nearly-singular", "gmw-stale-bound-active"}[v]
		return &In{Kind: "fpd", M: gmwStale(r, n, v).Pack(), Garbage: v == 2, Family: fam}
	default: // Cholesky family on recycled memory / in place
		q := k - 13
		// chol, ldl: 2 x recycled L, 2 x in place; fpd: 3 x recycled L.  fpd is NOT run in place:
		// cholesky_ldl_forcepd writes L(j,j) = 1 before it reads A(j,j) (reported, see corpus note)
		kind := []string{"chol", "ldl", "chol", "ldl", "fpd", "chol", "ldl", "chol", "ldl", "fpd", "fpd"}[q]
		inplace := q >= 5 && kind != "fpd"
		n := r.Range(2, 5)
		if q%5 < 2 {
			n = r.Range(2, 3)
		}
		var a *FM
		if r.Bool() {
			a = gram(r, n, n+2, 1)
		} else {
			a = scaleM(gram(r, n, n+1, 1), 0.1*float64(r.Range(1, 30)))
		}
		if inplace {
			return &In{Kind: kind, M: a.Pack(), InPlace: true, Family: "inplace"}
		}
		return &In{Kind: kind, M: a.Pack(), Garbage: true, Family: "recycled-L"}
	}
}

// tridiagonal symmetric block with distinct, well separated diagonal entries and
// non-zero off-diagonal entries (unreduced), or a dense symmetric block
func genSymBlock(r *Rng, n int, base float64, dense bool) *FM {
	b := NewFM(n, n)
	for i := 0; i < n; i++ {
		b.Set(i, i, base+float64(3*i)+float64(r.Range(0, 1)))
		for j := 0; j < i; j++ {
			if dense || j == i-1 {
				x := float64(r.Range(1, 2))
				if r.Intn(3) == 0 {
					x = -x
				}
				b.Set(i, j, x)
				b.Set(j, i, x)
			}
		}
	}
	return b
}

func genBlockDiag(bs ...*FM) *FM {
	n := 0
	for _, b := range bs {
		n += b.R
	}
	a := NewFM(n, n)
	o := 0
	for _, b := range bs {
		for i := 0; i < b.R; i++ {
			for j := 0; j < b.C; j++ {
				a.Set(o+i, o+j, b.At(i, j))
			}
		}
		o += b.R
	}
	return a
}

func detIter(r *Rng, k int) *IterIn {
	switch {
	case k < 3: // svd, V only, dense
		var a *FM
		fam := "v-only-square"
		path := "f64"
		switch k {
		case 0:
			n := r.Range(3, 5)
			a = denseNZ(r, n, n, true)
		case 1:
			m := r.Range(3, 4)
			a, fam = denseNZ(r, m+r.Range(1, 2), m, true), "v-only-tall"
		default:
			n := r.Range(3, 4)
			a, path = denseNZ(r, n, n, false), "r64"
		}
		return &IterIn{Kind: "svd", M: a.Pack(), B1: false, B2: true, Path: path, Family: fam}
	case k < 7: // svd inputs on which the library asks for the Givens rotation of (0, 0)
		var a *FM
		fam := "two-zero-cols"
		switch k - 3 {
		case 0, 1: // dense with a zero first and a zero last column
			n := r.Range(4, 5)
			m := n
			if k-3 == 1 {
				m = n - 1
			}
			a = denseNZ(r, n, m, false)
			for i := 0; i < n; i++ {
				a.Set(i, 0, 0)
				a.Set(i, m-1, 0)
			}
		default: // upper bidiagonal, zero diagonal entry inside + zero last row and column
			n := r.Range(5, 6)
			a, fam = NewFM(n, n), "zerodiag-zero-last"
			for i := 0; i < n-1; i++ {
				// entries 1..3: the leading block diag (4,1), super-diagonal (1,3) above the zero is an
				// instance of F-SVD-ZERODIAG-HANG on the unchanged library (the only one among
				// diag 1..4 x super 1..3); a hang costs a deadline and teaches nothing new
				a.Set(i, i, float64(r.Range(1, 3)))
				if i+1 < n-1 {
					a.Set(i, i+1, float64(r.Range(1, 3)))
				}
			}
			a.Set(2, 2, 0)
			if k-3 == 3 { // the block above the zero keeps a super-diagonal entry next to the zero row
				a.Set(n-2, n-1, 0)
				a.Set(1, 2, float64(r.Range(1, 3)))
			}
		}
		return &IterIn{Kind: "svd", M: a.Pack(), B1: true, B2: true, Path: "f64", Family: fam}
	default: // symmetric QR algorithm on a decoupled matrix: active block starts at p > 0
		q := k - 7
		n1 := []int{2, 3, 2, 2, 3, 2}[q]
		n2 := []int{2, 2, 3, 2, 2, 3}[q]
		dense := q%2 == 1
		b1 := genSymBlock(r, n1, float64(r.Range(-4, 0)), dense)
		b2 := genSymBlock(r, n2, float64(r.Range(8, 12)), dense)
		fam := "sym-blockdiag-tridiagonal"
		if dense {
			fam = "sym-blockdiag-dense"
		}
		path := "f64"
		if q == 2 || q == 5 {
			path = "r64"
		}
		// eigensystem.Run at HEAD consumes its Symmetric option and calls the general QR algorithm,
		// so only one slot goes through eig (kept for the day the option is passed on)
		if q < 5 {
			return &IterIn{Kind: "qr", M: genBlockDiag(b1, b2).Pack(), B1: true, Sym: true, Path: path, Family: fam}
		}
		return &IterIn{Kind: "eig", M: genBlockDiag(b1, b2).Pack(), B1: true, Sym: true, Path: path, Family: fam, RealSpectrum: true}
	}
}

// ---------------------------------------------------------------- round 7: late real 2x2 blocks
//
// LateBlockSweep: general (non-symmetric) matrices of size 6..10 for qrAlgorithm with ComputeU on which
// the 2x2 post-processing of qrAlgorithm (single-shift QRstep with p = i rows ABOVE the active block and
// q = n-i-2 columns to its right) is entered with i >= 4, so that H12 = H[0:i, i:i+2] has rows beyond the
// first three and H23 is non-empty for the inner blocks.  Three variants per size:
//   "late-real-block-quasitri"  real quasi upper triangular already (dense upper part); the last
//                               diagonal blocks are 2x2 with REAL distinct eigenvalues and a diagonal
//                               a != d (not the stationary F-QR-HANG shape), earlier blocks are 1x1 or
//                               complex 2x2: the Hessenberg reduction and the Francis loop leave it
//                               alone, every real 2x2 block is reduced by QRstep
//   "late-real-block-similar"   the same matrix under a product of plane rotations (dense)
//   "late-real-block-dense"     dense random floats
func lateBlockQuasiTri(r *Rng, n int) *FM {
	a := randFloat(r, n, n, 3)
	for i := 0; i < n; i++ {
		for j := 0; j < i; j++ {
			a.Set(i, j, 0)
		}
	}
	// block layout from the bottom: real 2x2 blocks while their first row is >= 4 (now and then a 1x1
	// block in between), then a mix of 1x1, real 2x2 and complex 2x2 blocks
	realBlock := func(k int) {
		// real, distinct eigenvalues: (a-d)^2 + 4bc > 0, a != d
		d := float64(r.Range(-3, 3)) + 0.25*float64(r.Range(0, 3))
		a.Set(k, k, d+float64(r.Range(1, 3))+0.5*r.Float())
		a.Set(k+1, k+1, d)
		a.Set(k, k+1, 0.5+2*r.Float())
		a.Set(k+1, k, 0.25+r.Float())
		if r.Intn(3) == 0 { // b*c < 0 but still a real pair
			gap := a.At(k, k) - a.At(k+1, k+1)
			a.Set(k+1, k, -gap*gap/(8*a.At(k, k+1)))
		}
	}
	i := n
	for i > 0 {
		switch {
		case i-2 >= 4 && (i == n || r.Intn(4) != 0):
			realBlock(i - 2)
			i -= 2
		case i-2 >= 0 && i-2 < 4 && r.Intn(3) == 0:
			realBlock(i - 2)
			i -= 2
		case i-2 >= 0 && i-2 < 4 && r.Intn(3) == 0:
			k := i - 2
			th := 0.3 + 2.5*r.Float()
			s := float64(r.Range(1, 3))
			a.Set(k, k, s*math.Cos(th))
			a.Set(k+1, k+1, s*math.Cos(th))
			a.Set(k, k+1, s*math.Sin(th))
			a.Set(k+1, k, -s*math.Sin(th))
			i -= 2
		default:
			a.Set(i-1, i-1, float64(2*i-n)+0.125*float64(r.Range(0, 7)))
			i--
		}
	}
	return a
}

func planeRotate(a *FM, i, k int, th float64) {
	c, s := math.Cos(th), math.Sin(th)
	n := a.R
	for j := 0; j < n; j++ { // rows: G^T A
		x, y := a.At(i, j), a.At(k, j)
		a.Set(i, j, c*x-s*y)
		a.Set(k, j, s*x+c*y)
	}
	for j := 0; j < n; j++ { // columns: A G
		x, y := a.At(j, i), a.At(j, k)
		a.Set(j, i, c*x-s*y)
		a.Set(j, k, s*x+c*y)
	}
}

func LateBlockSweep(r *Rng) []*IterIn {
	var out []*IterIn
	for n := 6; n <= 10; n++ {
		path := "f64"
		if n%2 == 1 {
			path = "r64"
		}
		t := lateBlockQuasiTri(r, n)
		out = append(out, &IterIn{Kind: "qr", M: t.Clone().Pack(), B1: true, Path: path, Family: "late-real-block-quasitri"})
		s := t.Clone()
		for k := 0; k < 2*n; k++ {
			i := r.Intn(n - 1)
			planeRotate(s, i, r.Range(i+1, n-1), 3*r.Float())
		}
		out = append(out, &IterIn{Kind: "qr", M: s.Pack(), B1: true, Path: "f64", Family: "late-real-block-similar"})
		out = append(out, &IterIn{Kind: "qr", M: randFloat(r, n, n, 4).Pack(), B1: true, Path: path, Family: "late-real-block-dense"})
	}
	return out
}
