module adharness

go 1.14

require github.com/pbenner/autodiff v0.0.0

replace github.com/pbenner/autodiff => /repo
