module adharness

go 1.14

require (
	github.com/pbenner/autodiff v0.0.0
	github.com/pbenner/threadpool v0.0.0-20191122191339-0302c226b91e
)

replace github.com/pbenner/autodiff => /repo
