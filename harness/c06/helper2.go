// Round 6: the Jacobian / Hessian helpers as machines (Coq: C06.ModelHelp.hexec on the statement lists the
// translator helpsrc.go regenerates from the source).
//
// A case (kinds "JM" Jacobian / "HM" Hessian):
//   Ex    the supplied function: one expression per output (prefix tokens: + - * / n s v<i> c<z>), evaluated
//         through the Scalar interface on whatever vector the helper hands to f
//   Inp   the point; W = 32: the caller's vector is a DenseReal32Vector
//   KO    state of the CALLER's vector before the call: 0 plain; 1 / 2: already activated over its own length at
//         order 1 / 2 with non-zero gradient (and Hessian) slots (SetVariable has to clear them: former known finding
//         F-C06-HELPER-PREACTIVATED, repaired in /repo 8241a1e); 3: activated over one variable more; 4: activated
//         at order 3 - helper's order
//   P     receiver type (recvNames); D its dimensions (may NOT match: dense panics, sparse reallocates)
//   Rec   1: the receiver is recycled, every entry holds a value (magic types: and derivative slots)
// Observables: outcome, dimensions and entries of the receiver after the call, "every derivative slot of every
// receiver entry is zero", "the caller's vector is bit for bit what it was".
package main

import (
	"fmt"
	"math"
	"strconv"
	"strings"

	. "adharness/common"

	ad "github.com/pbenner/autodiff"
)

// ---------------------------------------------------------------- expressions

type tex struct {
	Op   byte // v c + - * / n s
	I    int
	A, B *tex
}

func (t *tex) String() string {
	switch t.Op {
	case 'v':
		return fmt.Sprintf("v%d", t.I)
	case 'c':
		return fmt.Sprintf("c%d", t.I)
	case 'n', 's':
		return string(t.Op) + " " + t.A.String()
	}
	return string(t.Op) + " " + t.A.String() + " " + t.B.String()
}

func parseTex(s string) *tex {
	toks := strings.Fields(s)
	pos := 0
	var rec func() *tex
	rec = func() *tex {
		if pos >= len(toks) {
			Die("expression %q: truncated", s)
		}
		tk := toks[pos]
		pos++
		switch tk[0] {
		case 'v', 'c':
			if len(tk) > 1 {
				i, err := strconv.Atoi(tk[1:])
				if err != nil {
					Die("expression %q: %v", s, err)
				}
				return &tex{Op: tk[0], I: i}
			}
		case 'n', 's':
			if len(tk) == 1 {
				return &tex{Op: tk[0], A: rec()}
			}
		case '+', '-', '*', '/':
			if len(tk) == 1 {
				a := rec()
				b := rec()
				return &tex{Op: tk[0], A: a, B: b}
			}
		}
		Die("expression %q: bad token %q", s, tk)
		return nil
	}
	t := rec()
	if pos != len(toks) {
		Die("expression %q: trailing tokens", s)
	}
	return t
}

func (t *tex) coq() string {
	switch t.Op {
	case 'v':
		return fmt.Sprintf("(TVar %d)", t.I)
	case 'c':
		return fmt.Sprintf("(TCst (%d)%%Z)", t.I)
	case 'n':
		return "(TNeg " + t.A.coq() + ")"
	case 's':
		return "(TSqrt " + t.A.coq() + ")"
	}
	name := map[byte]string{'+': "TAdd", '-': "TSub", '*': "TMul", '/': "TDiv"}[t.Op]
	return "(" + name + " " + t.A.coq() + " " + t.B.coq() + ")"
}

func (t *tex) hasSqrt() bool {
	if t == nil {
		return false
	}
	return t.Op == 's' || t.A.hasSqrt() || t.B.hasSqrt()
}

// evaluation through the Scalar interface, one fresh result object (of the vector's element type) per operation
func (t *tex) evalAD(x ad.ConstVector) ad.ConstScalar {
	switch t.Op {
	case 'v':
		return x.ConstAt(t.I)
	case 'c':
		return ad.ConstFloat64(float64(t.I))
	}
	r := ad.NullScalar(x.ElementType())
	a := t.A.evalAD(x)
	switch t.Op {
	case 'n':
		r.Neg(a)
		return r
	case 's':
		r.Sqrt(a)
		return r
	}
	b := t.B.evalAD(x)
	switch t.Op {
	case '+':
		r.Add(a, b)
	case '-':
		r.Sub(a, b)
	case '*':
		r.Mul(a, b)
	case '/':
		r.Div(a, b)
	}
	return r
}

// the oracle's own forward mode: value, gradient, Hessian and, next to each, a bound on the size of the terms
// that were added up (the tolerance of the comparison is relative to it: no false alarm through cancellation)
type dual struct {
	v, av float64
	g, ag []float64
	h, ah [][]float64
}

func newDual(k int) *dual {
	d := &dual{g: make([]float64, k), ag: make([]float64, k), h: make([][]float64, k), ah: make([][]float64, k)}
	for i := range d.h {
		d.h[i] = make([]float64, k)
		d.ah[i] = make([]float64, k)
	}
	return d
}

// r = F(a, b) with partials f10 f01 f20 f11 f02 of F at (a.v, b.v)
func chain2(k int, v float64, a, b *dual, f10, f01, f20, f11, f02 float64) *dual {
	r := newDual(k)
	r.v = v
	r.av = math.Abs(v) + math.Abs(a.av*f10) + math.Abs(b.av*f01)
	for i := 0; i < k; i++ {
		r.g[i] = a.g[i]*f10 + b.g[i]*f01
		r.ag[i] = a.ag[i]*math.Abs(f10) + b.ag[i]*math.Abs(f01)
		for j := 0; j < k; j++ {
			r.h[i][j] = a.h[i][j]*f10 + b.h[i][j]*f01 + a.g[i]*a.g[j]*f20 + b.g[i]*b.g[j]*f02 + (a.g[i]*b.g[j]+b.g[i]*a.g[j])*f11
			r.ah[i][j] = a.ah[i][j]*math.Abs(f10) + b.ah[i][j]*math.Abs(f01) + a.ag[i]*a.ag[j]*math.Abs(f20) +
				b.ag[i]*b.ag[j]*math.Abs(f02) + (a.ag[i]*b.ag[j]+b.ag[i]*a.ag[j])*math.Abs(f11)
		}
	}
	return r
}

func (t *tex) evalDual(x []float64) *dual {
	k := len(x)
	switch t.Op {
	case 'v':
		d := newDual(k)
		d.v, d.av = x[t.I], math.Abs(x[t.I])
		d.g[t.I], d.ag[t.I] = 1, 1
		return d
	case 'c':
		d := newDual(k)
		d.v, d.av = float64(t.I), math.Abs(float64(t.I))
		return d
	}
	a := t.A.evalDual(x)
	z := newDual(k)
	switch t.Op {
	case 'n':
		return chain2(k, -a.v, a, z, -1, 0, 0, 0, 0)
	case 's':
		s := math.Sqrt(a.v)
		return chain2(k, s, a, z, 0.5/s, 0, -0.25/(a.v*s), 0, 0)
	}
	b := t.B.evalDual(x)
	switch t.Op {
	case '+':
		return chain2(k, a.v+b.v, a, b, 1, 1, 0, 0, 0)
	case '-':
		return chain2(k, a.v-b.v, a, b, 1, -1, 0, 0, 0)
	case '*':
		return chain2(k, a.v*b.v, a, b, b.v, a.v, 0, 1, 0)
	}
	y := b.v
	return chain2(k, a.v/y, a, b, 1/y, -a.v/(y*y), 0, -1/(y*y), 2*a.v/(y*y*y))
}

// ---------------------------------------------------------------- receivers and the caller's vector

var recvNames = []string{"DenseReal64Matrix", "DenseFloat64Matrix", "DenseReal32Matrix", "DenseFloat32Matrix",
	"SparseReal64Matrix", "SparseFloat64Matrix", "SparseReal32Matrix", "SparseFloat32Matrix"}

func recvSparse(p int) bool { return p >= 4 }
func recv32(p int) bool     { return p%4 >= 2 }
func recvMagic(p int) bool  { return p%2 == 0 }

func newRecv(p, rows, cols int) ad.Matrix {
	switch p {
	case 0:
		return ad.NullDenseReal64Matrix(rows, cols)
	case 1:
		return ad.NullDenseFloat64Matrix(rows, cols)
	case 2:
		return ad.NullDenseReal32Matrix(rows, cols)
	case 3:
		return ad.NullDenseFloat32Matrix(rows, cols)
	case 4:
		return ad.NullSparseReal64Matrix(rows, cols)
	case 5:
		return ad.NullSparseFloat64Matrix(rows, cols)
	case 6:
		return ad.NullSparseReal32Matrix(rows, cols)
	}
	return ad.NullSparseFloat32Matrix(rows, cols)
}

func recvJunk(i, j int) float64 { return float64(7*i-3*j) + 0.5 }

// the caller's vector in state KO; junk slots are small dyadic numbers derived from rseed
func junk(rseed uint64, a, b, c int) float64 {
	h := (rseed+1)*0x9E3779B97F4A7C15 + uint64(a)*1000003 + uint64(b)*10007 + uint64(c)*101
	h ^= h >> 29
	h *= 0xBF58476D1CE4E5B9
	h ^= h >> 32
	return float64(int(h%63)-31) / 8 // in [-3.875, 3.875], exactly representable in binary32
}

type msc struct {
	V    float64
	N, O int
	G    []float64
	H    [][]float64
}

func callerState(c *Case, helperOrder int) []msc {
	x := unhexList(c.Inp)
	k := len(x)
	out := make([]msc, k)
	for i := range x {
		m := msc{V: x[i]}
		n, o := 0, 0
		switch c.KO {
		case 1:
			n, o = k, 1
		case 2:
			n, o = k, 2
		case 3:
			n, o = k+1, helperOrder
		case 4:
			n, o = k, 3-helperOrder
		}
		m.N, m.O = n, o
		if o >= 1 {
			m.G = make([]float64, n)
			for q := range m.G {
				m.G[q] = junk(c.Rseed, i, q, 0)
			}
		}
		if o >= 2 {
			m.H = make([][]float64, n)
			for q := range m.H {
				m.H[q] = make([]float64, n)
			}
			for q := 0; q < n; q++ {
				for s := q; s < n; s++ {
					m.H[q][s] = junk(c.Rseed, i, q, s+1)
					m.H[s][q] = m.H[q][s]
				}
			}
		}
		out[i] = m
	}
	return out
}

func buildCaller(c *Case, st []msc) ad.MagicVector {
	k := len(st)
	var v ad.MagicVector
	vals := make([]float64, k)
	for i := range st {
		vals[i] = st[i].V
	}
	if c.W == 32 {
		w := make([]float32, k)
		for i := range vals {
			w[i] = float32(vals[i])
		}
		v = ad.NewDenseReal32Vector(w)
	} else {
		v = ad.NewDenseReal64Vector(vals)
	}
	for i := range st {
		if st[i].O == 0 {
			continue
		}
		s := v.MagicAt(i)
		s.Alloc(st[i].N, st[i].O)
		for q := 0; q < st[i].N; q++ {
			s.SetDerivative(q, st[i].G[q])
			if st[i].O >= 2 {
				for r := 0; r < st[i].N; r++ {
					s.SetHessian(q, r, st[i].H[q][r])
				}
			}
		}
	}
	return v
}

func readCaller(v ad.MagicVector) []msc {
	out := make([]msc, v.Dim())
	for i := range out {
		s := v.ConstAt(i)
		m := msc{V: s.GetFloat64(), N: s.GetN(), O: s.GetOrder()}
		if m.O >= 1 {
			m.G = make([]float64, m.N)
			for q := range m.G {
				m.G[q] = s.GetDerivative(q)
			}
		}
		if m.O >= 2 {
			m.H = make([][]float64, m.N)
			for q := range m.H {
				m.H[q] = make([]float64, m.N)
				for r := range m.H[q] {
					m.H[q][r] = s.GetHessian(q, r)
				}
			}
		}
		out[i] = m
	}
	return out
}

func sameBits(a, b float64) bool {
	return math.Float64bits(a) == math.Float64bits(b) || (math.IsNaN(a) && math.IsNaN(b))
}

func sameCaller(a, b []msc) bool {
	if len(a) != len(b) {
		return false
	}
	for i := range a {
		if !sameBits(a[i].V, b[i].V) || a[i].N != b[i].N || a[i].O != b[i].O || len(a[i].G) != len(b[i].G) || len(a[i].H) != len(b[i].H) {
			return false
		}
		for q := range a[i].G {
			if !sameBits(a[i].G[q], b[i].G[q]) {
				return false
			}
		}
		for q := range a[i].H {
			for r := range a[i].H[q] {
				if !sameBits(a[i].H[q][r], b[i].H[q][r]) {
					return false
				}
			}
		}
	}
	return true
}

func mscCoq(m msc) string {
	rows := make([]string, len(m.H))
	for i := range m.H {
		rows[i] = FList(m.H[i])
	}
	return fmt.Sprintf("(mkMs %s %d %d %s %s)", F(m.V), m.N, m.O, FList(m.G), List(rows))
}

// ---------------------------------------------------------------- one call

type helpRes struct {
	outcome      string
	rn, rm       int
	m            [][]float64
	recvClean    bool // every derivative slot of every receiver entry reads zero
	callerIntact bool
	r0           [][]float64
	caller       []msc
}

func helperOrder(c *Case) int {
	if c.Kind == "HM" {
		return 2
	}
	return 1
}

func runHelperM(c *Case) helpRes {
	exs := make([]*tex, len(c.Ex))
	for i, s := range c.Ex {
		exs[i] = parseTex(s)
	}
	ord := helperOrder(c)
	st := callerState(c, ord)
	xv := buildCaller(c, st)
	before := readCaller(xv)
	rows, cols := c.D[0], c.D[1]
	r := newRecv(c.P, rows, cols)
	res := helpRes{outcome: "ok", caller: before}
	res.r0 = make([][]float64, rows)
	for i := 0; i < rows; i++ {
		res.r0[i] = make([]float64, cols)
		for j := 0; j < cols; j++ {
			if c.Rec != 0 {
				e := r.At(i, j)
				e.SetFloat64(recvJunk(i, j))
				if ms, ok := e.(ad.MagicScalar); ok { // an entry that was a variable of an earlier computation
					ms.SetVariable((i+j)%2, 2, 1+(i+j)%2)
				}
				res.r0[i][j] = e.GetFloat64()
			}
		}
	}
	func() {
		defer func() {
			if e := recover(); e != nil {
				res.outcome = "panic"
			}
		}()
		if c.Kind == "JM" {
			r.Jacobian(func(x ad.ConstVector) ad.ConstVector {
				ys := ad.NullDenseVector(x.ElementType(), len(exs))
				for i, t := range exs {
					ys.At(i).Set(t.evalAD(x))
				}
				return ys
			}, xv)
		} else {
			r.Hessian(func(x ad.ConstVector) ad.ConstScalar { return exs[0].evalAD(x) }, xv)
		}
	}()
	res.callerIntact = sameCaller(before, readCaller(xv))
	if res.outcome != "ok" {
		return res
	}
	res.rn, res.rm = r.Dims()
	res.recvClean = true
	res.m = make([][]float64, res.rn)
	for i := 0; i < res.rn; i++ {
		res.m[i] = make([]float64, res.rm)
		for j := 0; j < res.rm; j++ {
			e := r.ConstAt(i, j)
			res.m[i][j] = e.GetFloat64()
			dirty := false
			for q := 0; q < e.GetN() && e.GetOrder() >= 1; q++ {
				if e.GetDerivative(q) != 0 {
					dirty = true
				}
				for s := 0; s < e.GetN() && e.GetOrder() >= 2; s++ {
					if e.GetHessian(q, s) != 0 {
						dirty = true
					}
				}
			}
			if dirty {
				res.recvClean = false
			}
		}
	}
	return res
}

func hmKey(c *Case) string {
	return fmt.Sprintf("%s|%d|%v|%d|%d|%d|%d|%s|%s", c.Kind, c.P, c.D, c.W, c.KO, c.Rec, c.Rseed, strings.Join(c.Ex, ";"), strings.Join(c.Inp, ","))
}

func (rn *runner) helperMCase(c *Case) {
	res := runHelperM(c)
	exs := make([]string, len(c.Ex))
	sq := false
	for i, s := range c.Ex {
		t := parseTex(s)
		exs[i] = t.coq()
		sq = sq || t.hasSqrt()
	}
	r0 := make([]string, len(res.r0))
	for i := range res.r0 {
		r0[i] = FList(res.r0[i])
	}
	xs := make([]string, len(res.caller))
	for i := range res.caller {
		xs[i] = mscCoq(res.caller[i])
	}
	out := "None"
	if res.outcome == "ok" {
		rows := make([]string, len(res.m))
		for i := range res.m {
			rows[i] = FList(res.m[i])
		}
		out = fmt.Sprintf("(Some (%d, %d, %s))", res.rn, res.rm, List(rows))
	}
	which := 0
	if c.Kind == "HM" {
		which = 1
	}
	rn.w.Count(fmt.Sprintf("%s:receiver %s:%s", c.Kind, recvNames[c.P], res.outcome))
	rn.w.Count(fmt.Sprintf("%s:caller's vector state %d, Real%d:recycled receiver %d", c.Kind, c.KO, 64-c.W, c.Rec))
	term := fmt.Sprintf("(KHM %d %s %s %s %s %s %d %d %s %s %s %s %s)", which, B(recvSparse(c.P)), B(c.W == 32), B(recv32(c.P)), B(sq),
		List(exs), c.D[0], c.D[1], List(r0), List(xs), out, B(res.recvClean || res.outcome != "ok"), B(res.callerIntact))
	rn.w.Add(term, c, hmKey(c), res.outcome == "ok" && len(res.m) > 0)
}

// ---------------------------------------------------------------- the oracle (independent of the Coq model)

var helperSkipped int

// helperMOracle: every entry of the returned matrix is the partial derivative of the supplied function
// (the oracle's own forward mode, tolerance relative to the size of the summed terms), zero where the
// function does not depend on the variable; the receiver has the dimensions of the derivative; its entries carry
// no derivative slots; the caller's vector is untouched
func helperMOracle(c *Case) string {
	res := runHelperM(c)
	name := map[string]string{"JM": "Jacobian", "HM": "Hessian"}[c.Kind]
	where := fmt.Sprintf("%s helper, %s receiver %dx%d", name, recvNames[c.P], c.D[0], c.D[1])
	if c.Rec != 0 {
		where += " (recycled)"
	}
	if c.W == 32 {
		where += ", Real32 argument"
	}
	x := unhexList(c.Inp)
	k := len(x)
	if c.KO != 0 {
		where += fmt.Sprintf(", caller's vector in state %d", c.KO)
	}
	if !res.callerIntact {
		return where + ": the caller's vector was modified"
	}
	wantRows := len(c.Ex)
	if c.Kind == "HM" {
		wantRows = k
	}
	match := c.D[0] == wantRows && c.D[1] == k
	if res.outcome != "ok" {
		if !match && !recvSparse(c.P) {
			return "" // documented: dense receivers of the wrong dimensions are rejected
		}
		return where + ": " + res.outcome
	}
	if !match && !recvSparse(c.P) {
		return where + ": a receiver of the wrong dimensions was accepted"
	}
	if res.rn != wantRows || res.rm != k {
		return fmt.Sprintf("%s: the result is %dx%d, the derivative is %dx%d", where, res.rn, res.rm, wantRows, k)
	}
	if !res.recvClean {
		return where + ": an entry of the result carries non-zero derivative slots"
	}
	rel := 1e-9
	if c.W == 32 || recv32(c.P) {
		rel = 1e-4
	}
	for i := 0; i < wantRows; i++ {
		var d *dual
		if c.Kind == "JM" {
			d = parseTex(c.Ex[i]).evalDual(x)
		} else if i == 0 {
			d = parseTex(c.Ex[0]).evalDual(x)
		}
		if c.Kind == "HM" && i > 0 {
			d = parseTex(c.Ex[0]).evalDual(x)
		}
		for j := 0; j < k; j++ {
			want, mag := d.g[j], d.ag[j]
			if c.Kind == "HM" {
				want, mag = d.h[i][j], d.ah[i][j]
			}
			got := res.m[i][j]
			if math.IsNaN(want) || math.IsInf(want, 0) || math.IsInf(mag, 0) || math.IsNaN(mag) {
				helperSkipped++
				continue
			}
			if math.Abs(got-want) > rel*(mag+1e-300) && !(got == 0 && want == 0) {
				s := fmt.Sprintf("%s: entry (%d,%d) = %v, the partial derivative is %v", where, i, j, got, want)
				if c.Rec != 0 && i < len(res.r0) && j < len(res.r0[i]) && sameBits(got, res.r0[i][j]) {
					s += " (the entry the recycled receiver held before the call)"
				}
				return s
			}
		}
	}
	return ""
}

// ---------------------------------------------------------------- generator

func genTex(rng *Rng, k, depth int, sqrtOK bool) *tex {
	if depth == 0 || rng.Intn(5) == 0 {
		if rng.Intn(5) == 0 {
			return &tex{Op: 'c', I: rng.Range(-3, 4)}
		}
		return &tex{Op: 'v', I: rng.Intn(k)}
	}
	switch op := rng.Intn(12); {
	case op < 3:
		return &tex{Op: '+', A: genTex(rng, k, depth-1, sqrtOK), B: genTex(rng, k, depth-1, sqrtOK)}
	case op < 5:
		return &tex{Op: '-', A: genTex(rng, k, depth-1, sqrtOK), B: genTex(rng, k, depth-1, sqrtOK)}
	case op < 8:
		return &tex{Op: '*', A: genTex(rng, k, depth-1, sqrtOK), B: genTex(rng, k, depth-1, sqrtOK)}
	case op < 10:
		// denominators: mostly b*b + c (away from zero), sometimes anything (Inf / NaN are replayed too)
		den := genTex(rng, k, depth-1, sqrtOK)
		if rng.Intn(4) != 0 {
			den = &tex{Op: '+', A: &tex{Op: '*', A: den, B: den}, B: &tex{Op: 'c', I: rng.Range(1, 3)}}
		}
		return &tex{Op: '/', A: genTex(rng, k, depth-1, sqrtOK), B: den}
	case op < 11:
		return &tex{Op: 'n', A: genTex(rng, k, depth-1, sqrtOK)}
	}
	if !sqrtOK {
		return &tex{Op: 'v', I: rng.Intn(k)}
	}
	a := genTex(rng, k, depth-1, false)
	return &tex{Op: 's', A: &tex{Op: '+', A: &tex{Op: '*', A: a, B: a}, B: &tex{Op: 'c', I: rng.Range(1, 3)}}}
}

// i steers the corner cases so that every receiver type x caller state x recycling combination occurs in a
// quick run; the expressions and the point are random
func genHelperM(rng *Rng, i int) *Case {
	c := &Case{Kind: "JM"}
	if i%2 == 1 {
		c.Kind = "HM"
	}
	k := rng.Range(1, 4)
	if c.Kind == "HM" && k == 4 {
		k = 3
	}
	c.P = (i / 2) % 8
	c.KO = (i / 16) % 5
	c.Rec = (i / 80) % 2
	if i%7 == 3 {
		c.W = 32
	}
	c.Rseed = rng.U64() % 100000
	nout := 1
	if c.Kind == "JM" {
		nout = rng.Range(1, 3)
	}
	for o := 0; o < nout; o++ {
		// a function that ignores some variables is the interesting case for "every entry is written"
		kk := k
		if rng.Intn(3) == 0 {
			kk = rng.Range(1, k)
		}
		c.Ex = append(c.Ex, genTex(rng, kk, rng.Range(1, 3), true).String())
	}
	x := make([]float64, k)
	for j := range x {
		x[j] = 0.5 + float64(rng.Range(0, 40))/16
		if rng.Intn(4) == 0 {
			x[j] = 0.5 + 2.5*rng.Float()
		}
		if c.W == 32 {
			x[j] = float64(float32(x[j]))
		}
	}
	c.Inp = hexList(x)
	rows := nout
	if c.Kind == "HM" {
		rows = k
	}
	c.D = []int{rows, k}
	if rng.Intn(8) == 0 { // wrong dimensions: dense receivers panic, sparse ones are reallocated
		if rng.Bool() {
			c.D[0] += 1
		} else {
			c.D[1] += 1 + rng.Intn(2)
		}
	}
	return c
}

// ---------------------------------------------------------------- shrinking (hunt)

func (t *tex) maxVar() int {
	if t == nil {
		return -1
	}
	m := -1
	if t.Op == 'v' {
		m = t.I
	}
	if a := t.A.maxVar(); a > m {
		m = a
	}
	if b := t.B.maxVar(); b > m {
		m = b
	}
	return m
}

// helperMShrink: a smaller failing case
func helperMShrink(c *Case) *Case {
	cur := *c
	fails := func(d *Case) bool { return helperMOracle(d) != "" }
	try := func(mod func(d *Case)) {
		d := cur
		d.D = append([]int{}, cur.D...)
		d.Ex = append([]string{}, cur.Ex...)
		mod(&d)
		if fails(&d) {
			cur = d
		}
	}
	if cur.KO != 0 {
		try(func(d *Case) { d.KO = 0 })
	}
	if cur.Rec != 0 {
		try(func(d *Case) { d.Rec = 0 })
	}
	if cur.W != 0 {
		try(func(d *Case) { d.W = 0 })
	}
	if cur.P != 0 {
		try(func(d *Case) { d.P = 0 })
	}
	wantRows := func(d *Case) int {
		if d.Kind == "HM" {
			return len(d.Inp)
		}
		return len(d.Ex)
	}
	if cur.Kind == "JM" && len(cur.Ex) > 1 && cur.D[0] == wantRows(&cur) {
		for i := range cur.Ex {
			ex := cur.Ex[i]
			try(func(d *Case) { d.Ex = []string{ex}; d.D[0] = 1 })
			if len(cur.Ex) == 1 {
				break
			}
		}
	}
	for changed := true; changed; {
		changed = false
		for i := range cur.Ex {
			t := parseTex(cur.Ex[i])
			for _, sub := range []*tex{t.A, t.B} {
				if sub == nil {
					continue
				}
				before := cur.Ex[i]
				s := sub.String()
				try(func(d *Case) { d.Ex[i] = s })
				if cur.Ex[i] != before {
					changed = true
					break
				}
			}
		}
	}
	return &cur
}
