// Round 6: go/ast translator for the Jacobian / Hessian helpers.  The bodies of
//   (r *DenseReal64Matrix)  Jacobian / Hessian   matrix_dense_real64_math.go
//   (r *SparseReal64Matrix) Jacobian / Hessian   matrix_sparse_real64_math.go
// are translated, statement by statement, into the statement language of C06.ModelHelp (hstmt) on every run;
// Coq compares the result with ModelHelp.src_helper (Corr.KHSrc), the programs the theorems are about.  The
// copies for the other element types (generated from the same template) must be the Real64 text up to the
// name of the constructor Null<Type>Matrix: their number and the number that agree are part of the case.
package main

import (
	"fmt"
	"go/ast"
	"go/parser"
	"go/token"
	"path/filepath"
	"regexp"
	"sort"
	"strings"

	. "adharness/common"
)

var helpFuncs = []string{"Jacobian", "Hessian"}

func helpFile(sparse bool, ty string) string {
	if sparse {
		return "matrix_sparse_" + ty + "_math.go"
	}
	return "matrix_dense_" + ty + "_math.go"
}

func findMethod(f *ast.File, name string) *ast.FuncDecl {
	for _, d := range f.Decls {
		if fd, ok := d.(*ast.FuncDecl); ok && fd.Recv != nil && fd.Name.Name == name && fd.Body != nil {
			return fd
		}
	}
	return nil
}

var hdimOf = map[string]string{"x.Dim()": "DX", "x_.Dim()": "DXarg", "y.Dim()": "DY", "n": "DN", "m": "DM"}
var hcellOf = map[string]string{"y.ConstAt(i).GetDerivative(j)": "CGrad", "y.GetHessian(i, j)": "CHess"}

type helpTr struct{ fset *token.FileSet }

func (t *helpTr) str(n ast.Node) string { return nodeStr(t.fset, n) }

func (t *helpTr) disj(e ast.Expr) []ast.Expr {
	if p, ok := e.(*ast.ParenExpr); ok {
		return t.disj(p.X)
	}
	if b, ok := e.(*ast.BinaryExpr); ok && b.Op == token.LOR {
		return append(t.disj(b.X), t.disj(b.Y)...)
	}
	return []ast.Expr{e}
}

func (t *helpTr) cond(e ast.Expr) (string, bool) {
	var atoms []string
	for _, a := range t.disj(e) {
		b, ok := a.(*ast.BinaryExpr)
		if !ok {
			return "", false
		}
		l, r := t.str(b.X), t.str(b.Y)
		switch {
		case b.Op == token.EQL && l == "r" && r == "nil":
			atoms = append(atoms, "CNil")
		case b.Op == token.NEQ && hdimOf[l] != "" && hdimOf[r] != "":
			atoms = append(atoms, fmt.Sprintf("(CNe %s %s)", hdimOf[l], hdimOf[r]))
		default:
			return "", false
		}
	}
	s := atoms[len(atoms)-1]
	for i := len(atoms) - 2; i >= 0; i-- {
		s = fmt.Sprintf("(COr %s %s)", atoms[i], s)
	}
	return s, true
}

var reNull = regexp.MustCompile(`^\*r = \*Null(Dense|Sparse)[A-Za-z0-9]+Matrix\(n, m\)$`)

func (t *helpTr) loopHeader(f *ast.ForStmt, v, bound string) bool {
	return f.Init != nil && f.Cond != nil && f.Post != nil &&
		t.str(f.Init) == v+" := 0" && t.str(f.Cond) == v+" < "+bound && t.str(f.Post) == v+"++"
}

func (t *helpTr) stmt(s ast.Stmt) string {
	unknown := "(SUnknown " + coqStr(t.str(s)) + ")"
	switch x := s.(type) {
	case *ast.AssignStmt:
		switch t.str(x) {
		case "n, m := r.Dims()":
			return "SDims"
		case "x := x_.CloneMagicVector()":
			return "SClone"
		case "y := f(x)":
			return "SEval"
		}
	case *ast.ExprStmt:
		txt := t.str(x)
		for o := 0; o <= 3; o++ {
			if txt == fmt.Sprintf("x.Variables(%d)", o) {
				return fmt.Sprintf("(SVars %d)", o)
			}
		}
	case *ast.ReturnStmt:
		if t.str(x) == "return r" {
			return "SRet"
		}
	case *ast.IfStmt:
		if x.Init != nil {
			return unknown
		}
		// else { r.Reset() } (the repair 9a15545 of the sparse copies) is the only else branch known
		elseReset := false
		if x.Else != nil {
			eb, ok := x.Else.(*ast.BlockStmt)
			if !ok || len(eb.List) != 1 || t.str(eb.List[0]) != "r.Reset()" {
				return unknown
			}
			elseReset = true
		}
		c, ok := t.cond(x.Cond)
		if !ok {
			return unknown
		}
		b := x.Body.List
		if len(b) == 1 && strings.HasPrefix(t.str(b[0]), "panic(") && !elseReset {
			return "(SIfPanic " + c + ")"
		}
		if len(b) == 3 {
			s0, s1, s2 := t.str(b[0]), t.str(b[1]), t.str(b[2])
			if strings.HasPrefix(s0, "n = ") && strings.HasPrefix(s1, "m = ") && reNull.MatchString(s2) {
				dn, dm := hdimOf[s0[4:]], hdimOf[s1[4:]]
				if dn != "" && dm != "" {
					if elseReset {
						return fmt.Sprintf("(SIfReallocElseReset %s %s %s)", c, dn, dm)
					}
					return fmt.Sprintf("(SIfRealloc %s %s %s)", c, dn, dm)
				}
			}
		}
	case *ast.ForStmt:
		if !t.loopHeader(x, "i", "n") || len(x.Body.List) != 1 {
			return unknown
		}
		in, ok := x.Body.List[0].(*ast.ForStmt)
		if !ok || !t.loopHeader(in, "j", "m") || len(in.Body.List) != 1 {
			return unknown
		}
		switch b := in.Body.List[0].(type) {
		case *ast.ExprStmt:
			txt := t.str(b)
			for cell, name := range hcellOf {
				if txt == "r.At(i, j).SetFloat64("+cell+")" {
					return "(SLoop false " + name + ")"
				}
			}
		case *ast.IfStmt:
			if b.Init == nil || b.Else != nil || t.str(b.Cond) != "s != 0.0" || len(b.Body.List) != 1 ||
				t.str(b.Body.List[0]) != "r.At(i, j).SetFloat64(s)" {
				return unknown
			}
			ini := t.str(b.Init)
			for cell, name := range hcellOf {
				if ini == "s := "+cell {
					return "(SLoop true " + name + ")"
				}
			}
		}
	}
	return unknown
}

var reNullAny = regexp.MustCompile(`Null(Dense|Sparse)[A-Za-z0-9]+Matrix`)

// translateHelper: the statement list of the Real64 copy, the number of element-type copies of the function
// and the number of those whose body is the Real64 body up to the constructor name
func translateHelper(which int, sparse bool) (prog []string, copies, agree int, err error) {
	pat := "matrix_dense_*_math.go"
	if sparse {
		pat = "matrix_sparse_*_math.go"
	}
	files, _ := filepath.Glob(filepath.Join(repoDir(), pat))
	sort.Strings(files)
	ref := ""
	bodies := []string{}
	for _, fn := range files {
		fset := token.NewFileSet()
		f, e := parser.ParseFile(fset, fn, nil, 0)
		if e != nil {
			return nil, 0, 0, e
		}
		fd := findMethod(f, helpFuncs[which])
		if fd == nil {
			continue
		}
		body := reNullAny.ReplaceAllString(nodeStr(fset, fd.Body), "Null${1}TMatrix")
		bodies = append(bodies, body)
		if filepath.Base(fn) == helpFile(sparse, "real64") {
			ref = body
			tr := &helpTr{fset: fset}
			for _, s := range fd.Body.List {
				prog = append(prog, tr.stmt(s))
			}
		}
	}
	if ref == "" {
		return nil, 0, 0, fmt.Errorf("no %s in %s", helpFuncs[which], helpFile(sparse, "real64"))
	}
	for _, b := range bodies {
		if b == ref {
			agree++
		}
	}
	return prog, len(bodies), agree, nil
}

func (rn *runner) helpSrcCase(c *Case) {
	sparse := c.P != 0
	prog, copies, agree, err := translateHelper(c.Fid, sparse)
	if err != nil {
		rn.w.Count("HSrc:unreadable source")
		rn.w.Add(fmt.Sprintf("(KHSrc %d %s [] 0 0)", c.Fid, B(sparse)), c, fmt.Sprintf("HSrc|%d|%d", c.Fid, c.P), false)
		return
	}
	rn.w.Count(fmt.Sprintf("HSrc:%s:sparse=%v", helpFuncs[c.Fid], sparse))
	rn.w.CountN("HSrc:statements", len(prog))
	rn.w.CountN("HSrc:element-type copies agreeing with the Real64 text", agree)
	rn.w.Add(fmt.Sprintf("(KHSrc %d %s %s %d %d)", c.Fid, B(sparse), List(prog), copies, agree), c, fmt.Sprintf("HSrc|%d|%d", c.Fid, c.P), true)
}
