// The dispatch table of the Run functions that select hand-specialised kernels, extracted from the Go
// SOURCE of the library under test (go/ast) on every run and compared in Coq with C06.ModelOpt.src_table:
//   - option parsing: every clause of the type switch over the optional arguments that assigns a flag,
//   - dispatch: every `return callee(args)` with the option-flag conditions on its path and the
//     concrete-type assertions (`X, ok := e.(T)` ... `if ok1 && ok2 ...`) that guard it, in source order.
package main

import (
	"bytes"
	"fmt"
	"go/ast"
	"go/parser"
	"go/printer"
	"go/token"
	"os"
	"path/filepath"
	"strings"

	. "adharness/common"
)

type srcRow struct {
	Conds  [][2]string // flag, "true"/"false"
	Guards [][2]string // asserted expression, asserted type
	Callee string
	Args   []string
}

func nodeStr(fset *token.FileSet, n ast.Node) string {
	var b bytes.Buffer
	printer.Fprint(&b, fset, n)
	return strings.Join(strings.Fields(b.String()), " ")
}

type dispWalker struct {
	fset *token.FileSet
	rows []srcRow
	// ok variable -> (expression, type) of the assertion that defined it (innermost definition wins)
	oks map[string][2]string
}

// a condition that is a flag test: ident, !ident, ident == true/false
func flagCond(e ast.Expr) (string, bool, bool) {
	switch x := e.(type) {
	case *ast.Ident:
		return x.Name, true, true
	case *ast.ParenExpr:
		return flagCond(x.X)
	case *ast.UnaryExpr:
		if x.Op == token.NOT {
			if n, v, ok := flagCond(x.X); ok {
				return n, !v, true
			}
		}
	case *ast.BinaryExpr:
		if id, ok := x.X.(*ast.Ident); ok && (x.Op == token.EQL || x.Op == token.NEQ) {
			if lit, ok := x.Y.(*ast.Ident); ok && (lit.Name == "true" || lit.Name == "false") {
				v := lit.Name == "true"
				if x.Op == token.NEQ {
					v = !v
				}
				return id.Name, v, true
			}
		}
	}
	return "", false, false
}

// ok1 && ok2 && ... : the list of identifiers, or nil
func andIdents(e ast.Expr) []string {
	switch x := e.(type) {
	case *ast.Ident:
		return []string{x.Name}
	case *ast.ParenExpr:
		return andIdents(x.X)
	case *ast.BinaryExpr:
		if x.Op == token.LAND {
			l, r := andIdents(x.X), andIdents(x.Y)
			if l == nil || r == nil {
				return nil
			}
			return append(l, r...)
		}
	}
	return nil
}

func bstr(b bool) string {
	if b {
		return "true"
	}
	return "false"
}

func (w *dispWalker) stmts(list []ast.Stmt, conds [][2]string, guards [][2]string) {
	for _, s := range list {
		w.stmt(s, conds, guards)
	}
}

func (w *dispWalker) stmt(s ast.Stmt, conds [][2]string, guards [][2]string) {
	switch x := s.(type) {
	case *ast.BlockStmt:
		w.stmts(x.List, conds, guards)
	case *ast.AssignStmt:
		// X, ok := e.(T)
		if len(x.Lhs) == 2 && len(x.Rhs) == 1 {
			if ta, ok := x.Rhs[0].(*ast.TypeAssertExpr); ok && ta.Type != nil {
				if okId, ok := x.Lhs[1].(*ast.Ident); ok {
					w.oks[okId.Name] = [2]string{nodeStr(w.fset, ta.X), nodeStr(w.fset, ta.Type)}
				}
			}
		}
	case *ast.IfStmt:
		if x.Init != nil {
			w.stmt(x.Init, conds, guards)
		}
		cp := func(a [][2]string) [][2]string { return append([][2]string{}, a...) }
		if ids := andIdents(x.Cond); ids != nil && w.allOks(ids) {
			g := cp(guards)
			for _, id := range ids {
				g = append(g, w.oks[id])
			}
			w.stmts(x.Body.List, conds, g)
			if x.Else != nil {
				w.stmt(x.Else, append(cp(conds), [2]string{"!(" + nodeStr(w.fset, x.Cond) + ")", "true"}), guards)
			}
			return
		}
		if name, v, ok := flagCond(x.Cond); ok {
			w.stmts(x.Body.List, append(cp(conds), [2]string{name, bstr(v)}), guards)
			if x.Else != nil {
				w.stmt(x.Else, append(cp(conds), [2]string{name, bstr(!v)}), guards)
			}
			return
		}
		c := nodeStr(w.fset, x.Cond)
		w.stmts(x.Body.List, append(cp(conds), [2]string{c, "true"}), guards)
		if x.Else != nil {
			w.stmt(x.Else, append(cp(conds), [2]string{c, "false"}), guards)
		}
	case *ast.ReturnStmt:
		if len(x.Results) == 1 {
			if call, ok := x.Results[0].(*ast.CallExpr); ok {
				row := srcRow{Conds: conds, Guards: guards, Callee: nodeStr(w.fset, call.Fun)}
				for _, a := range call.Args {
					row.Args = append(row.Args, nodeStr(w.fset, a))
				}
				w.rows = append(w.rows, row)
				return
			}
		}
		rs := make([]string, len(x.Results))
		for i, r := range x.Results {
			rs[i] = nodeStr(w.fset, r)
		}
		w.rows = append(w.rows, srcRow{Conds: conds, Guards: guards, Callee: "return", Args: rs})
	case *ast.RangeStmt:
		// option parsing: for _, arg := range args { switch a := arg.(type) { case T: flag = a.Value } }
		for _, b := range x.Body.List {
			ts, ok := b.(*ast.TypeSwitchStmt)
			if !ok {
				continue
			}
			for _, cl := range ts.Body.List {
				cc := cl.(*ast.CaseClause)
				for _, t := range cc.List {
					for _, bs := range cc.Body {
						if as, ok := bs.(*ast.AssignStmt); ok && len(as.Lhs) == 1 && len(as.Rhs) == 1 {
							w.rows = append(w.rows, srcRow{Guards: [][2]string{{"arg", nodeStr(w.fset, t)}}, Callee: "=",
								Args: []string{nodeStr(w.fset, as.Lhs[0]), nodeStr(w.fset, as.Rhs[0])}})
						}
					}
				}
			}
		}
	case *ast.SwitchStmt, *ast.TypeSwitchStmt, *ast.ForStmt, *ast.SelectStmt, *ast.GoStmt, *ast.DeferStmt, *ast.LabeledStmt, *ast.BranchStmt:
		// nothing of this kind stands between the option parsing and the dispatch today: make it visible
		w.rows = append(w.rows, srcRow{Conds: conds, Guards: guards, Callee: "stmt", Args: []string{nodeStr(w.fset, s)}})
	}
}

func (w *dispWalker) allOks(ids []string) bool {
	for _, id := range ids {
		if _, ok := w.oks[id]; !ok {
			return false
		}
	}
	return true
}

func repoDir() string {
	if d := os.Getenv("C06_REPO"); d != "" {
		return d
	}
	return "/repo"
}

var dispFiles = []string{"algorithm/cholesky/cholesky.go", "algorithm/gaussJordan/gaussJordan.go"}

func extractDispatch(r int) ([]srcRow, error) {
	fset := token.NewFileSet()
	f, err := parser.ParseFile(fset, filepath.Join(repoDir(), dispFiles[r]), nil, 0)
	if err != nil {
		return nil, err
	}
	for _, d := range f.Decls {
		fd, ok := d.(*ast.FuncDecl)
		if !ok || fd.Name.Name != "Run" || fd.Recv != nil {
			continue
		}
		w := &dispWalker{fset: fset, oks: map[string][2]string{}}
		w.stmts(fd.Body.List, nil, nil)
		return w.rows, nil
	}
	return nil, fmt.Errorf("no func Run in %s", dispFiles[r])
}

func coqStr(s string) string { return "\"" + strings.ReplaceAll(s, "\"", "\"\"") + "\"" }

func rowTerm(r srcRow) string {
	cs := make([]string, len(r.Conds))
	for i, c := range r.Conds {
		cs[i] = "(" + coqStr(c[0]) + ", " + c[1] + ")"
	}
	gs := make([]string, len(r.Guards))
	for i, g := range r.Guards {
		gs[i] = "(" + coqStr(g[0]) + ", " + coqStr(g[1]) + ")"
	}
	as := make([]string, len(r.Args))
	for i, a := range r.Args {
		as[i] = coqStr(a)
	}
	return "(mkRow " + List(cs) + " " + List(gs) + " " + coqStr(r.Callee) + " " + List(as) + ")"
}

func (rn *runner) dispCase(c *Case) {
	rows, err := extractDispatch(c.R)
	if err != nil {
		rn.w.Count("Disp:unreadable source")
		rn.w.Add(fmt.Sprintf("(KDisp %d [])", c.R), c, fmt.Sprintf("Disp|%d", c.R), false)
		return
	}
	ts := make([]string, len(rows))
	for i, r := range rows {
		ts[i] = rowTerm(r)
	}
	rn.w.Count("Disp:" + routName[c.R])
	rn.w.CountN("Disp:rows", len(rows))
	rn.w.Add(fmt.Sprintf("(KDisp %d %s)", c.R, List(ts)), c, fmt.Sprintf("Disp|%d", c.R), true)
}
