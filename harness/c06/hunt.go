// Property-level oracle on the implementation, independent of the Coq model:
//   (1) the values returned on activated Real64 input equal the values of the
//       Float64 run (same numbers; same outcome class);
//   (2) every gradient slot agrees with the central finite difference of the
//       Float64 routine in that input entry;
//   (3) every Hessian slot agrees with the central finite difference of the
//       gradient slots (order-1 runs), and the Hessian is exactly symmetric.
// A search, never the decision.
package main

import (
	"encoding/json"
	"fmt"
	"math"
	"os"
	"path/filepath"
	"strings"

	. "adharness/common"

	ad "github.com/pbenner/autodiff"
	"github.com/pbenner/autodiff/algorithm/backSubstitution"
	"github.com/pbenner/autodiff/algorithm/matrixInverse"
)

var branchPoints = 0 // (case, variable) pairs skipped because the routine is not smooth there

func sameNumber(a, b float64) bool {
	if math.IsNaN(a) || math.IsNaN(b) {
		return math.IsNaN(a) && math.IsNaN(b)
	}
	return a == b
}

// oracle returns "" when the property holds on the case, otherwise a description; bad = index of
// the activated variable involved (-1 if none)
func oracle(c *Case) (string, int) {
	inp := unhexList(c.Inp)
	name := progName[c.P]
	if c.W == 32 {
		name += "(32 bit)"
	}
	// the fast-path run decides the outcome class and the values; finite differences always go through the
	// Float64 routine (the real function is the same for the 32 bit types)
	fo, fk := RunProgRec(c.P, c.D, inp, c.etFast(), nil, 0, 0, 0, 0, c.Fam, 0)
	outs, gk := RunProgRec(c.P, c.D, inp, c.etGen(), c.Act, c.K, c.O, c.Rec, c.Rseed, c.Fam, c.KO)
	if c.Rec != 0 {
		// recycled InSitu buffers / in place: the result must be the one of a fresh call, bit for bit,
		// on the fast path (values) and on the generic path (values, gradient, Hessian)
		mode := recName[c.Rec]
		ro, rk := RunProgRec(c.P, c.D, inp, c.etFast(), nil, 0, 0, c.Rec, c.Rseed, c.Fam, 0)
		if outcomeClass(rk) != outcomeClass(fk) {
			return fmt.Sprintf("%s on %s with recycled InSitu buffers (%s): %s, a fresh call: %s", name, etName[c.etFast()], mode, rk, fk), -1
		}
		if fk == "ok" {
			fv, rv := values(fo), values(ro)
			for r := range fv {
				if r >= len(rv) || !sameNumber(fv[r], rv[r]) {
					return fmt.Sprintf("%s on %s with recycled InSitu buffers (%s): output %d is %v, a fresh call returns %v", name, etName[c.etFast()], mode, r, rv[r], fv[r]), -1
				}
			}
		}
		go2, gk2 := RunProgRec(c.P, c.D, inp, c.etGen(), c.Act, c.K, c.O, 0, 0, c.Fam, 0)
		if outcomeClass(gk2) != outcomeClass(gk) {
			return fmt.Sprintf("%s on %s (k=%d, order %d) with recycled InSitu buffers (%s): %s, a fresh call: %s", name, etName[c.etGen()], c.K, c.O, mode, gk, gk2), -1
		}
		if gk == "ok" {
			s1, k1 := slots(outs, c.K, c.O)
			s2, k2 := slots(go2, c.K, c.O)
			if k1 != k2 {
				return fmt.Sprintf("%s on %s with recycled InSitu buffers (%s): reading the slots: %s, after a fresh call: %s", name, etName[c.etGen()], mode, k1, k2), -1
			}
			for r := range s2 {
				if r >= len(s1) || !sameNumber(s1[r].V, s2[r].V) {
					return fmt.Sprintf("%s on %s with recycled InSitu buffers (%s): output %d value %v, a fresh call returns %v", name, etName[c.etGen()], mode, r, s1[r].V, s2[r].V), -1
				}
				for i := range s2[r].G {
					if !sameNumber(s1[r].G[i], s2[r].G[i]) {
						return fmt.Sprintf("%s on %s with recycled InSitu buffers (%s): output %d derivative %d is %v, a fresh call returns %v", name, etName[c.etGen()], mode, r, i, s1[r].G[i], s2[r].G[i]), i
					}
					for j := range s2[r].H {
						if !sameNumber(s1[r].H[i][j], s2[r].H[i][j]) {
							return fmt.Sprintf("%s on %s with recycled InSitu buffers (%s): output %d Hessian (%d,%d) is %v, a fresh call returns %v", name, etName[c.etGen()], mode, r, i, j, s1[r].H[i][j], s2[r].H[i][j]), i
						}
					}
				}
			}
		}
	}
	if outcomeClass(fk) != outcomeClass(gk) {
		if c.P == PLogDetPD {
			return "", -1
		}
		return fmt.Sprintf("%s: %s run: %s, %s run (k=%d, order %d): %s", name, etName[c.etFast()], fk, etName[c.etGen()], c.K, c.O, gk), -1
	}
	if fk != "ok" {
		return "", -1
	}
	sl, sk := slots(outs, c.K, c.O)
	if sk != "ok" {
		return fmt.Sprintf("%s: reading the derivative slots of the output: %s", name, sk), -1
	}
	fv := values(fo)
	if len(fv) != len(sl) {
		return fmt.Sprintf("%s: %d outputs on %s, %d on %s", name, len(fv), etName[c.etFast()], len(sl), etName[c.etGen()]), -1
	}
	for r := range sl {
		if !sameNumber(fv[r], sl[r].V) {
			return fmt.Sprintf("%s: output %d: value on %s input %v, on %s input %v", name, r, etName[c.etFast()], fv[r], etName[c.etGen()], sl[r].V), -1
		}
	}
	if !allFinite(fv) {
		return "", -1
	}
	// tolerance of the finite-difference comparison: binary32 slots carry ~2^-24 relative rounding per operation
	ftol := 2e-5
	if c.W == 32 {
		ftol = 2e-2
		f64, k64 := RunProg(c.P, c.D, inp, false, nil, 0, 0)
		if k64 != "ok" {
			return "", -1
		}
		fv = values(f64)
		if !allFinite(fv) {
			return "", -1
		}
		for r := range sl {
			if math.Abs(fv[r]-sl[r].V) > ftol*(1+math.Abs(fv[r])) {
				return "", -1 // ill-conditioned for binary32: nothing to conclude from finite differences
			}
		}
	}
	// position of variable v in the input
	pos := make([]int, c.K)
	for i := range pos {
		pos[i] = -1
	}
	for i, a := range c.Act {
		if a >= 0 && a < c.K {
			pos[a] = i
		}
	}
	for v := 0; v < c.K; v++ {
		if pos[v] < 0 {
			continue
		}
		x := inp[pos[v]]
		h := math.Ldexp(1, -18) * math.Max(1, math.Abs(x))
		xp := append([]float64{}, inp...)
		xm := append([]float64{}, inp...)
		xp[pos[v]] = x + h
		xm[pos[v]] = x - h
		hh := (x + h) - (x - h)
		fp, kp := RunProg(c.P, c.D, xp, false, nil, 0, 0)
		fm, km := RunProg(c.P, c.D, xm, false, nil, 0, 0)
		if kp != "ok" || km != "ok" {
			continue
		}
		vp, vm := values(fp), values(fm)
		if !allFinite(vp) || !allFinite(vm) {
			continue
		}
		// the derivative claim is about points where the routine is a smooth function of the entry:
		// skip entries at which some output jumps or has a kink (a branch decision flips at x itself,
		// e.g. a Householder step on an already reduced column: the reflector jumps from I to diag(1,-1))
		nonsmooth := false
		for r := range fv {
			d1, d2 := vp[r]-fv[r], fv[r]-vm[r]
			if math.Abs(d1) > 1e-2*(1+math.Abs(fv[r])) || math.Abs(d2) > 1e-2*(1+math.Abs(fv[r])) ||
				math.Abs(d1-d2) > 1e-3*(math.Abs(d1)+math.Abs(d2))+1e-9*(1+math.Abs(fv[r])) {
				nonsmooth = true
			}
		}
		if nonsmooth {
			branchPoints++
			continue
		}
		for r := range sl {
			fd := (vp[r] - vm[r]) / hh
			g := sl[r].G[v]
			tol := ftol * (1 + math.Abs(g) + math.Abs(fv[r]) + math.Abs(fd))
			if math.IsNaN(g) || math.Abs(fd-g) > tol {
				return fmt.Sprintf("%s: output %d, variable %d (input entry %d): carried derivative %v, finite difference of the Float64 routine %v",
					name, r, v, pos[v], g, fd), v
			}
		}
		if c.O >= 2 {
			op, kp := RunProg(c.P, c.D, xp, true, c.Act, c.K, 1) // Real64: the gradient of the same real function
			om, km := RunProg(c.P, c.D, xm, true, c.Act, c.K, 1)
			if kp != "ok" || km != "ok" {
				continue
			}
			sp, k1 := slots(op, c.K, 1)
			sm, k2 := slots(om, c.K, 1)
			if k1 != "ok" || k2 != "ok" {
				continue
			}
			for r := range sl {
				for u := 0; u < c.K; u++ {
					fd := (sp[r].G[u] - sm[r].G[u]) / hh
					hv := sl[r].H[u][v]
					tol := ftol * (1 + math.Abs(hv) + math.Abs(sl[r].G[u]) + math.Abs(fd))
					if math.IsNaN(hv) || math.Abs(fd-hv) > tol {
						return fmt.Sprintf("%s: output %d, variables (%d,%d): carried second derivative %v, finite difference of the carried gradient %v",
							name, r, u, v, hv, fd), v
					}
					if !sameNumber(sl[r].H[u][v], sl[r].H[v][u]) {
						return fmt.Sprintf("%s: output %d: Hessian not symmetric at (%d,%d): %v vs %v", name, r, u, v, sl[r].H[u][v], sl[r].H[v][u]), v
					}
				}
			}
		}
	}
	return "", -1
}

// reuseOracle: a routine called twice with the SAME InSitu buffers, first at order o1 then at order o2
// (same activated entries): the second call must return what a fresh call returns.
// Case: Kind "R", P in {PInv, PBacksub}, O = o1, K = number of variables, Fid = o2.
func reuseOracle(c *Case) string {
	inp := unhexList(c.Inp)
	n := c.D[0]
	o1, o2 := c.O, c.Fid
	name := progName[c.P]
	run := func(o int, isInv *matrixInverse.InSitu, isBS *backSubstitution.InSitu) (sl []Slot, outcome string) {
		defer func() {
			if r := recover(); r != nil {
				sl, outcome = nil, "panic: "+fmt.Sprint(r)
			}
		}()
		var outs []ad.ConstScalar
		switch c.P {
		case PInv:
			A := mkMat(true, inp[:n*n], n, n)
			activate(matScalars(A), c.Act, c.K, o)
			X, err := matrixInverse.Run(A, isInv)
			if err != nil {
				return nil, "error"
			}
			outs = constMat(X)
		default:
			A := mkMat(true, inp[:n*n], n, n)
			b := mkVec(true, inp[n*n:])
			activate(append(matScalars(A), vecScalars(b)...), c.Act, c.K, o)
			x, err := backSubstitution.Run(A, b, isBS)
			if err != nil {
				return nil, "error"
			}
			outs = constVec(x)
		}
		return slots(outs, c.K, o)
	}
	isInv, isBS := &matrixInverse.InSitu{}, &backSubstitution.InSitu{}
	if _, oc := run(o1, isInv, isBS); oc != "ok" {
		if os.Getenv("C06_DEBUG") != "" {
			fmt.Fprintln(os.Stderr, "reuse: first run:", oc)
		}
		return ""
	}
	fresh, fo := run(o2, &matrixInverse.InSitu{}, &backSubstitution.InSitu{})
	again, ao := run(o2, isInv, isBS)
	if os.Getenv("C06_DEBUG") != "" {
		fmt.Fprintln(os.Stderr, "reuse: fresh:", fo, " again:", ao)
	}
	if fo != "ok" {
		return ""
	}
	if ao != "ok" {
		return fmt.Sprintf("%s with reused InSitu buffers (order %d, then order %d): %s (a fresh call returns a value)", name, o1, o2, ao)
	}
	for r := range fresh {
		if !sameNumber(fresh[r].V, again[r].V) {
			return fmt.Sprintf("%s with reused InSitu buffers (order %d then %d): output %d value %v, fresh call %v", name, o1, o2, r, again[r].V, fresh[r].V)
		}
		for i := range fresh[r].G {
			if !sameNumber(fresh[r].G[i], again[r].G[i]) {
				return fmt.Sprintf("%s with reused InSitu buffers (order %d then %d): output %d derivative %d is %v, fresh call %v", name, o1, o2, r, i, again[r].G[i], fresh[r].G[i])
			}
			for j := range fresh[r].H {
				if !sameNumber(fresh[r].H[i][j], again[r].H[i][j]) {
					return fmt.Sprintf("%s with reused InSitu buffers (order %d then %d): output %d Hessian (%d,%d) is %v, fresh call %v", name, o1, o2, r, i, j, again[r].H[i][j], fresh[r].H[i][j])
				}
			}
		}
	}
	return ""
}

// shrink: keep only the offending variable activated; then try to shrink the matrix is done by the
// search order (sizes ascending)
func shrink(c *Case, v int) *Case {
	if v < 0 || c.K <= 1 {
		return c
	}
	d := *c
	d.Act = make([]int, len(c.Act))
	for i, a := range c.Act {
		if a == v {
			d.Act[i] = 0
		} else {
			d.Act[i] = -1
		}
	}
	d.K = 1
	if f, _ := oracle(&d); f != "" {
		return &d
	}
	return c
}

type huntEntry struct {
	Failure string `json:"failure"`
	Case    *Case  `json:"case"`
}

func runHunt(o Opts) {
	type inT struct {
		Cases []*Case `json:"cases"`
	}
	var in inT
	if o.Replay != "" {
		b, err := os.ReadFile(o.Replay)
		if err == nil {
			json.Unmarshal(b, &in)
		}
	}
	var all []huntEntry
	tried := 0
	seen := map[string]bool{}
	try := func(c *Case) {
		if c.Kind == "R" {
			tried++
			if f := reuseOracle(c); f != "" {
				key := fmt.Sprintf("reuse|%d|%d|%d|%s", c.P, c.O, c.Fid, f[len(f)-minInt(len(f), 30):])
				if !seen[key] {
					seen[key] = true
					all = append(all, huntEntry{Failure: f, Case: c})
				}
			}
			return
		}
		if c.Kind == "PV" {
			tried++
			if f := pvOracle(c); f != "" {
				cut := strings.Index(f, "]")
				key := "PV|" + f[:cut+1]
				if !seen[key] {
					seen[key] = true
					all = append(all, huntEntry{Failure: f, Case: c})
				}
			}
			return
		}
		if c.Kind == "Jac" || c.Kind == "Hes" {
			tried++
			if f := helperOracle(c); f != "" {
				key := "helper|" + f[:minInt(len(f), 30)]
				if !seen[key] {
					seen[key] = true
					all = append(all, huntEntry{Failure: f, Case: c})
				}
			}
			return
		}
		if c.Kind == "JM" || c.Kind == "HM" {
			tried++
			if f := helperMOracle(c); f != "" {
				s := helperMShrink(c)
				if f2 := helperMOracle(s); f2 != "" {
					f = f2
				} else {
					s = c
				}
				cut := strings.Index(f, ": ")
				key := "HM|" + f[:minInt(len(f), cut+14)]
				if !seen[key] {
					seen[key] = true
					all = append(all, huntEntry{Failure: f, Case: s})
				}
			}
			return
		}
		if c.Kind == "O" || c.Kind == "OD" {
			tried++
			if f := optOracle(c); f != "" {
				s := optShrink(c)
				if f2 := optOracle(s); f2 != "" {
					f = f2
				} else {
					s = c
				}
				key := fmt.Sprintf("opt|%d|%d|%s", s.R, s.Opt, f[:minInt(len(f), 60)])
				if !seen[key] {
					seen[key] = true
					all = append(all, huntEntry{Failure: f, Case: s})
				}
			}
			return
		}
		if c.Kind != "D" && c.Kind != "V" && c.Kind != "F" && c.Kind != "RD" {
			return
		}
		cc := *c
		if cc.Kind == "RD" { // recycled buffers in a direction that is decided by the oracle alone (known findings)
			tried++
			if f, _ := oracle(&cc); f != "" {
				key := fmt.Sprintf("RD|%d|%d|%s", cc.P, cc.KO, f[:minInt(len(f), 40)])
				if !seen[key] {
					seen[key] = true
					all = append(all, huntEntry{Failure: f, Case: c})
				}
			}
			return
		}
		if cc.Kind == "V" { // value case: activate everything at order 1
			cc.Kind = "D"
			cc.Act = make([]int, len(cc.Inp))
			for i := range cc.Act {
				cc.Act[i] = i
			}
			cc.K = len(cc.Inp)
			cc.O = 1
		}
		if cc.O == 0 {
			cc.O = 1
		}
		tried++
		if f, v := oracle(&cc); f != "" {
			s := shrink(&cc, v)
			f2, _ := oracle(s)
			if f2 == "" {
				f2 = f
				s = &cc
			}
			key := fmt.Sprintf("%d|%s", s.P, f2[:minInt(len(f2), 40)])
			if !seen[key] {
				seen[key] = true
				all = append(all, huntEntry{Failure: f2, Case: s})
			}
		}
	}
	for _, c := range in.Cases {
		try(c)
	}
	// fresh search, sizes ascending so that the first failure per routine is the smallest
	rng := NewRng(o.Seed*1000003 + 7777)
	progs := []int{PBacksub, PDet, PDetPD, PInv, PInvUT, PInvPD, PGJ, PGJUT, PChol, PLdl, PMdotM, PGS, PHess, PLogDetPD}
	per := o.N / (len(progs) * 4)
	for n := 1; n <= 4 && per > 0; n++ {
		for _, p := range progs {
			for t := 0; t < per; t++ {
				d := []int{n}
				switch p {
				case PMdotM:
					d = []int{n, rng.Range(1, n), rng.Range(1, n)}
				case PGS:
					d = []int{n, rng.Range(1, n)}
				case PHess:
					if n < 2 {
						continue
					}
				}
				fam := map[int]string{PBacksub: "ut", PInvUT: "ut", PGJUT: "ut", PDetPD: "spd", PInvPD: "spd", PChol: "spd",
					PLdl: "spd", PLogDetPD: "spd", PMdotM: "rand"}[p]
				if fam == "" {
					fam = []string{"dd", "dd", "piv"}[rng.Intn(3)]
					if p == PHess || p == PGS {
						fam = "dd"
					}
				}
				inp := genInput(rng, p, d, fam)
				pat := []string{"all", "subset", "rev"}[rng.Intn(3)]
				ord := 1 + rng.Intn(2)
				maxk := 4
				if ord == 2 && len(inp) > 9 {
					pat = "subset"
				}
				act, k := genAct(rng, len(inp), pat, maxk)
				cse := &Case{Kind: "D", P: p, D: d, Inp: hexList(inp), Act: act, K: k, O: ord, Fam: fam, Tag: pat}
				// half of the search runs with recycled buffers / in place, a fifth on the 32 bit types
				if recyclable(p) && t%2 == 1 {
					cse.Rec = 1 + rng.Intn(3)
					cse.Rseed = rng.U64() % 1000000
				}
				if t%5 == 4 && p != PLogDetPD {
					cse.W = 32
					cse.Inp = hexList(round32(inp))
				}
				try(cse)
			}
		}
	}
	for i := 0; i < o.N/20; i++ {
		try(genHelper(rng, i))
	}
	// round 6: the helper machines: every receiver type x caller state x recycling, random functions
	hrng := NewRng(o.Seed*1000003 + 616161)
	for i := 0; i < o.N; i++ {
		try(genHelperM(hrng, i))
	}
	// round 7: products on views
	vrng := NewRng(o.Seed*1000003 + 70707)
	for i := 0; i < o.N; i++ {
		try(genView(vrng, i))
	}
	// round 5: every option row group x InSitu mode x width through every path
	for _, c := range generateOptions(NewRng(o.Seed*1000003+4242), o.N/3) {
		try(c)
	}
	// InSitu buffers reused across derivative orders
	for i := 0; i < o.N/50; i++ {
		p := []int{PInv, PBacksub}[i%2]
		n := 1 + i%3
		fam := "dd"
		if p == PBacksub {
			fam = "ut"
		}
		inp := genInput(rng, p, []int{n}, fam)
		act, k := genAct(rng, len(inp), "all", 0)
		os := [][2]int{{1, 2}, {2, 1}, {1, 1}, {2, 2}}[(i/2)%4]
		try(&Case{Kind: "R", P: p, D: []int{n}, Inp: hexList(inp), Act: act, K: k, O: os[0], Fid: os[1], Fam: fam})
	}
	res := map[string]interface{}{"found": len(all) > 0, "tried": tried, "all": all, "nonsmooth_points_skipped": branchPoints,
		"helper_entries_skipped_nonfinite": helperSkipped}
	if len(all) > 0 {
		res["failure"] = all[0].Failure
		res["case"] = all[0].Case
	}
	b, _ := json.MarshalIndent(res, "", " ")
	if err := os.WriteFile(filepath.Join(o.Out, "hunt.json"), b, 0644); err != nil {
		Die("%v", err)
	}
}

func minInt(a, b int) int {
	if a < b {
		return a
	}
	return b
}
