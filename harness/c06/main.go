// C06 harness: derivatives through linear algebra, fast path = generic path.
//
// Every routine is run on the same flat input
//   - on Float64 containers (the hand-specialised fast paths where they exist),
//   - on Real64 containers with nothing activated (the generic Scalar path),
//   - on Real64 containers with a subset of the entries activated at order 1 / 2,
// and the observed values, gradient slots and Hessian slots are written as Coq
// terms of type C06.Corr.kase.  --extra hunt runs the model-independent oracle
// (central finite differences of the Float64 routine against the carried slots).
package main

import (
	"encoding/json"
	"fmt"
	"math"
	"os"
	"path/filepath"
	"strconv"
	"strings"

	. "adharness/common"

	ad "github.com/pbenner/autodiff"
	"github.com/pbenner/autodiff/algorithm/backSubstitution"
	"github.com/pbenner/autodiff/algorithm/cholesky"
	"github.com/pbenner/autodiff/algorithm/determinant"
	"github.com/pbenner/autodiff/algorithm/gaussJordan"
	"github.com/pbenner/autodiff/algorithm/gramSchmidt"
	"github.com/pbenner/autodiff/algorithm/hessenbergReduction"
	"github.com/pbenner/autodiff/algorithm/householderBidiagonalization"
	"github.com/pbenner/autodiff/algorithm/householderTridiagonalization"
	"github.com/pbenner/autodiff/algorithm/matrixInverse"
)

// ---------------------------------------------------------------- programs

const (
	PBacksub = iota
	PDet
	PDetPD
	PInv
	PInvUT
	PInvPD
	PGJ
	PGJUT
	PChol
	PLdl
	PMdotM
	PGS
	PHess
	PTridiag
	PBidiag
	PLogDetPD // no float replay of math.Log: formula certificate and hunt only
)

var progName = []string{"backsub", "det", "detpd", "inv", "invUT", "invPD", "gj", "gjUT", "chol", "ldl", "mdotm",
	"gramSchmidt", "hessenberg", "tridiag", "bidiag", "logdetpd"}

// does a Sqrt lie on the data path (Hessian slots then go through math.Pow(x,-1.5))
func sqrtful(p int) bool {
	switch p {
	case PDetPD, PInvPD, PChol, PGS, PHess, PTridiag, PBidiag, PLogDetPD:
		return true
	}
	return false
}

func inputLen(p int, d []int) int {
	n := d[0]
	switch p {
	case PBacksub:
		return n*n + n
	case PGJ, PGJUT:
		return 2*n*n + n
	case PMdotM:
		return d[0]*d[1] + d[1]*d[2]
	case PGS, PBidiag:
		return d[0] * d[1]
	}
	return n * n
}

type Slot struct {
	V float64
	G []float64
	H [][]float64
}

type Case struct {
	Kind string   `json:"kind"` // V D Eq F Jac Hes
	P    int      `json:"p"`
	D    []int    `json:"d,omitempty"`
	Inp  []string `json:"inp,omitempty"` // hex floats
	Act  []int    `json:"act,omitempty"` // per input entry: variable number or -1
	K    int      `json:"k,omitempty"`
	O    int      `json:"o,omitempty"`
	Fid  int      `json:"fid,omitempty"`
	FK   int      `json:"fk,omitempty"` // formula kind
	Tag  string   `json:"tag,omitempty"`
	Fam  string   `json:"fam,omitempty"`
	// round 2: recycling mode (recycle.go), seed of the earlier call / garbage, element width (0: 64 bit, 32),
	// number of variables of the earlier call when it differs from K (known finding F-C06-INSITU-TEMP-N)
	Rec   int    `json:"rec,omitempty"`
	Rseed uint64 `json:"rseed,omitempty"`
	W     int    `json:"w,omitempty"`
	KO    int    `json:"ko,omitempty"`
	// round 5: option rows (options.go): routine, option bits, Submatrix mask (empty: option not passed)
	R   int   `json:"r,omitempty"`
	Opt int   `json:"opt,omitempty"`
	Msk []int `json:"msk,omitempty"`
	// round 6: helper machines (helper2.go): the supplied function, one expression per output
	Ex []string `json:"ex,omitempty"`
	// round 7: products on views (views.go): the views a, b, r; the product; concrete-typed method
	Vw   [][]int `json:"vw,omitempty"`
	Op   int     `json:"op,omitempty"`
	Conc int     `json:"conc,omitempty"`
}

func (c *Case) etFast() int {
	if c.W == 32 {
		return ETFloat32
	}
	return ETFloat64
}
func (c *Case) etGen() int {
	if c.W == 32 {
		return ETReal32
	}
	return ETReal64
}
func (c *Case) ctor(base string) string {
	if c.W == 32 {
		return base + "32"
	}
	return base
}

func hexf(x float64) string { return strconv.FormatFloat(x, 'x', -1, 64) }
func unhex(s string) float64 {
	switch s {
	case "NaN":
		return math.NaN()
	case "+Inf":
		return math.Inf(1)
	case "-Inf":
		return math.Inf(-1)
	}
	x, err := strconv.ParseFloat(s, 64)
	if err != nil {
		Die("bad float %q", s)
	}
	return x
}
func hexList(v []float64) []string {
	r := make([]string, len(v))
	for i, x := range v {
		r[i] = hexf(x)
	}
	return r
}
func unhexList(v []string) []float64 {
	r := make([]float64, len(v))
	for i, x := range v {
		r[i] = unhex(x)
	}
	return r
}

// ---------------------------------------------------------------- containers

func mkMat(real bool, v []float64, r, c int) ad.Matrix {
	w := append([]float64{}, v...)
	if real {
		return ad.NewDenseReal64Matrix(w, r, c)
	}
	return ad.NewDenseFloat64Matrix(w, r, c)
}
func mkVec(real bool, v []float64) ad.Vector {
	w := append([]float64{}, v...)
	if real {
		return ad.NewDenseReal64Vector(w)
	}
	return ad.NewDenseFloat64Vector(w)
}
func etype(real bool) ad.ScalarType {
	if real {
		return ad.Real64Type
	}
	return ad.Float64Type
}

func matScalars(m ad.Matrix) []ad.Scalar {
	r, c := m.Dims()
	out := make([]ad.Scalar, 0, r*c)
	for i := 0; i < r; i++ {
		for j := 0; j < c; j++ {
			out = append(out, m.At(i, j))
		}
	}
	return out
}
func vecScalars(v ad.Vector) []ad.Scalar {
	out := make([]ad.Scalar, 0, v.Dim())
	for i := 0; i < v.Dim(); i++ {
		out = append(out, v.At(i))
	}
	return out
}
func constMat(m ad.ConstMatrix) []ad.ConstScalar {
	r, c := m.Dims()
	out := make([]ad.ConstScalar, 0, r*c)
	for i := 0; i < r; i++ {
		for j := 0; j < c; j++ {
			out = append(out, m.ConstAt(i, j))
		}
	}
	return out
}
func constVec(v ad.ConstVector) []ad.ConstScalar {
	out := make([]ad.ConstScalar, 0, v.Dim())
	for i := 0; i < v.Dim(); i++ {
		out = append(out, v.ConstAt(i))
	}
	return out
}

// activate the input scalars according to act (variable numbers), order o, k variables
func activate(in []ad.Scalar, act []int, k, o int) {
	for idx, s := range in {
		if act == nil || act[idx] < 0 {
			continue
		}
		switch x := s.(type) {
		case *ad.Real64:
			x.SetVariable(act[idx], k, o)
		case *ad.Real32:
			x.SetVariable(act[idx], k, o)
		default:
			Die("activate: element type %T cannot be activated", s)
		}
	}
}

// RunProg executes program p.  real: Real64 containers (generic path) else Float64.
// act/k/o: activation (only with real).  Returns the output scalars in model order,
// or ok=false with the outcome kind ("error", "panic: ...").
func RunProg(p int, d []int, inp []float64, real bool, act []int, k, o int) (outs []ad.ConstScalar, outcome string) {
	et := ETFloat64
	if real {
		et = ETReal64
	}
	return runProgX(p, d, inp, et, act, k, o, nil)
}

// runProgX: element type et (ETFloat64 / ETReal64 / ETFloat32 / ETReal32); bf: caller-supplied InSitu
// buffers (nil: none), see recycle.go
func runProgX(p int, d []int, inp []float64, et int, act []int, k, o int, bf *bufs) (outs []ad.ConstScalar, outcome string) {
	defer func() {
		if r := recover(); r != nil {
			outs = nil
			outcome = "panic: " + fmt.Sprint(r)
		}
	}()
	n := d[0]
	switch p {
	case PBacksub:
		A := mkMatT(et, inp[:n*n], n, n)
		b := mkVecT(et, inp[n*n:])
		activate(append(matScalars(A), vecScalars(b)...), act, k, o)
		args := []interface{}{}
		if bf != nil {
			if bf.inplace {
				bf.bs.A = A
			}
			args = append(args, bf.bs)
		}
		x, err := backSubstitution.Run(A, b, args...)
		if err != nil {
			return nil, "error"
		}
		return constVec(x), "ok"
	case PDet, PDetPD, PLogDetPD:
		A := mkMatT(et, inp, n, n)
		activate(matScalars(A), act, k, o)
		var r ad.Scalar
		var err error
		args := []interface{}{}
		if bf != nil {
			args = append(args, bf.det)
		}
		switch p {
		case PDet:
			r, err = determinant.Run(A, args...)
		case PDetPD:
			r, err = determinant.Run(A, append(args, determinant.PositiveDefinite{Value: true})...)
		default:
			r, err = determinant.Run(A, append(args, determinant.PositiveDefinite{Value: true}, determinant.LogScale{Value: true})...)
		}
		if err != nil {
			return nil, "error"
		}
		return []ad.ConstScalar{r}, "ok"
	case PInv, PInvUT, PInvPD:
		A := mkMatT(et, inp, n, n)
		activate(matScalars(A), act, k, o)
		var X ad.Matrix
		var err error
		args := []interface{}{}
		if bf != nil {
			if bf.inplace && p != PInvPD {
				bf.inv.A = A
			}
			args = append(args, bf.inv)
		}
		switch p {
		case PInv:
			X, err = matrixInverse.Run(A, args...)
		case PInvUT:
			X, err = matrixInverse.Run(A, append(args, matrixInverse.UpperTriangular{Value: true})...)
		default:
			X, err = matrixInverse.Run(A, append(args, matrixInverse.PositiveDefinite{Value: true})...)
		}
		if err != nil {
			return nil, "error"
		}
		return constMat(X), "ok"
	case PGJ, PGJUT:
		a := mkMatT(et, inp[:n*n], n, n)
		x := mkMatT(et, inp[n*n:2*n*n], n, n)
		b := mkVecT(et, inp[2*n*n:])
		activate(append(append(matScalars(a), matScalars(x)...), vecScalars(b)...), act, k, o)
		var err error
		if p == PGJ {
			err = gaussJordan.Run(a, x, b)
		} else {
			err = gaussJordan.Run(a, x, b, gaussJordan.UpperTriangular{Value: true})
		}
		if err != nil {
			return nil, "error"
		}
		return append(append(constMat(a), constMat(x)...), constVec(b)...), "ok"
	case PChol, PLdl:
		A := mkMatT(et, inp, n, n)
		activate(matScalars(A), act, k, o)
		args := []interface{}{}
		if bf != nil {
			if bf.inplace {
				bf.ch.L = A
			}
			args = append(args, bf.ch)
		}
		if p == PChol {
			L, _, err := cholesky.Run(A, args...)
			if err != nil {
				return nil, "error"
			}
			return constMat(L), "ok"
		}
		L, D, err := cholesky.Run(A, append(args, cholesky.LDL{Value: true})...)
		if err != nil {
			return nil, "error"
		}
		return append(constMat(L), constMat(D)...), "ok"
	case PMdotM:
		a := mkMatT(et, inp[:d[0]*d[1]], d[0], d[1])
		b := mkMatT(et, inp[d[0]*d[1]:], d[1], d[2])
		activate(append(matScalars(a), matScalars(b)...), act, k, o)
		var r ad.Matrix
		if bf != nil && bf.r != nil {
			r = bf.r
		} else {
			r = ad.NullDenseMatrix(etypeT(et), d[0], d[2])
			if bf != nil {
				bf.r = r
			}
		}
		r.MdotM(a, b)
		return constMat(r), "ok"
	case PGS:
		A := mkMatT(et, inp, d[0], d[1])
		activate(matScalars(A), act, k, o)
		args := []interface{}{}
		if bf != nil {
			if bf.gs.Q == nil {
				bf.gs.Q = ad.NullDenseMatrix(etypeT(et), d[0], d[1])
				bf.gs.R = ad.NullDenseMatrix(etypeT(et), d[0], d[1])
			}
			args = append(args, *bf.gs)
		}
		q, r, err := gramSchmidt.Run(A, args...)
		if err != nil {
			return nil, "error"
		}
		return append(constMat(q), constMat(r)...), "ok"
	case PHess:
		A := mkMatT(et, inp, n, n)
		activate(matScalars(A), act, k, o)
		args := []interface{}{hessenbergReduction.ComputeU{Value: true}, hessenbergReduction.SetZero{Value: true}}
		if bf != nil {
			if bf.inplace {
				bf.he.H = A
			}
			args = append(args, bf.he)
		}
		H, U, err := hessenbergReduction.Run(A, args...)
		if err != nil {
			return nil, "error"
		}
		return append(constMat(H), constMat(U)...), "ok"
	case PTridiag:
		A := mkMatT(et, inp, n, n)
		activate(matScalars(A), act, k, o)
		args := []interface{}{householderTridiagonalization.ComputeU{Value: true}}
		if bf != nil {
			args = append(args, bf.tr)
		}
		T, U, err := householderTridiagonalization.Run(A, args...)
		if err != nil {
			return nil, "error"
		}
		return append(constMat(T), constMat(U)...), "ok"
	case PBidiag:
		A := mkMatT(et, inp, d[0], d[1])
		activate(matScalars(A), act, k, o)
		args := []interface{}{householderBidiagonalization.ComputeU{Value: true}, householderBidiagonalization.ComputeV{Value: true}}
		if bf != nil {
			args = append(args, bf.bi)
		}
		B, U, V, err := householderBidiagonalization.Run(A, args...)
		if err != nil {
			return nil, "error"
		}
		return append(append(constMat(B), constMat(U)...), constMat(V)...), "ok"
	}
	Die("unknown program %d", p)
	return nil, ""
}

func values(outs []ad.ConstScalar) []float64 {
	r := make([]float64, len(outs))
	for i, s := range outs {
		r[i] = s.GetFloat64()
	}
	return r
}

// read value / gradient / Hessian slots (panics inside the getters are an outcome)
func slots(outs []ad.ConstScalar, k, o int) (res []Slot, outcome string) {
	defer func() {
		if r := recover(); r != nil {
			res = nil
			outcome = "panic(slots): " + fmt.Sprint(r)
		}
	}()
	for _, s := range outs {
		sl := Slot{V: s.GetFloat64(), G: make([]float64, k)}
		for i := 0; i < k; i++ {
			sl.G[i] = s.GetDerivative(i)
		}
		if o >= 2 {
			sl.H = make([][]float64, k)
			for i := 0; i < k; i++ {
				sl.H[i] = make([]float64, k)
				for j := 0; j < k; j++ {
					sl.H[i][j] = s.GetHessian(i, j)
				}
			}
		}
		res = append(res, sl)
	}
	return res, "ok"
}

// ---------------------------------------------------------------- Coq printing

func optList(v []float64, ok bool) string {
	if !ok {
		return "None"
	}
	return "(Some " + FList(v) + ")"
}
func slotTerm(s Slot) string {
	hs := make([]string, len(s.H))
	for i := range s.H {
		hs[i] = FList(s.H[i])
	}
	return "(" + F(s.V) + ", " + FList(s.G) + ", " + List(hs) + ")"
}
func specTerm(inp []float64, act []int) string {
	xs := make([]string, len(inp))
	for i, x := range inp {
		if act[i] >= 0 {
			xs[i] = fmt.Sprintf("(Some %d, %s)", act[i], F(x))
		} else {
			xs[i] = "(None, " + F(x) + ")"
		}
	}
	return List(xs)
}
func natList(d []int) string { return ZListI(d) }

func allFinite(v []float64) bool {
	for _, x := range v {
		if math.IsNaN(x) || math.IsInf(x, 0) {
			return false
		}
	}
	return true
}

// ---------------------------------------------------------------- generators

func dy(rng *Rng, den int, span int) float64 { // multiples of 1/den in [-span, span]
	return float64(rng.Range(-span*den, span*den)) / float64(den)
}

func genSquare(rng *Rng, fam string, n int) []float64 {
	a := make([]float64, n*n)
	switch fam {
	case "dd":
		for i := range a {
			a[i] = dy(rng, 16, 1)
		}
		for i := 0; i < n; i++ {
			a[i*n+i] += float64(n) + float64(rng.Range(0, 3))
			if rng.Intn(4) == 0 {
				a[i*n+i] = -a[i*n+i]
			}
		}
	case "rand":
		for i := range a {
			a[i] = 4*rng.Float() - 2
		}
		for i := 0; i < n; i++ {
			a[i*n+i] += 3
		}
	case "spd", "spdrand":
		b := make([]float64, n*n)
		for i := range b {
			if fam == "spd" {
				b[i] = dy(rng, 4, 1)
			} else {
				b[i] = 2*rng.Float() - 1
			}
		}
		for i := 0; i < n; i++ {
			for j := 0; j < n; j++ {
				s := 0.0
				for k := 0; k < n; k++ {
					s += b[i*n+k] * b[j*n+k]
				}
				a[i*n+j] = s
			}
			a[i*n+i] += 1 + float64(rng.Range(0, 2))
		}
		// exactly symmetric
		for i := 0; i < n; i++ {
			for j := 0; j < i; j++ {
				a[j*n+i] = a[i*n+j]
			}
		}
	case "ut":
		for i := 0; i < n; i++ {
			for j := i; j < n; j++ {
				a[i*n+j] = dy(rng, 8, 2)
			}
			a[i*n+i] = float64(rng.Range(1, 4)) * (0.5 + float64(rng.Intn(2)))
			if rng.Intn(3) == 0 {
				a[i*n+i] = -a[i*n+i]
			}
		}
	case "piv": // needs row exchanges: small / zero leading entries, growing columns
		for i := range a {
			a[i] = dy(rng, 8, 2)
		}
		for i := 0; i < n; i++ {
			a[i*n+(n-1-i)] += float64(2 * n)
		}
		if n > 1 && rng.Bool() {
			a[0] = 0
		}
	case "int":
		for i := range a {
			a[i] = float64(rng.Range(-3, 3))
		}
	case "tie": // equal magnitudes in every column (pivot ties), non-singular (checked in float arithmetic)
		for try := 0; try < 40; try++ {
			for i := range a {
				a[i] = float64(1+rng.Intn(2)) * float64(1-2*rng.Intn(2))
				if rng.Intn(5) == 0 {
					a[i] *= 1.5
				}
			}
			if math.Abs(luDet(a, n)) > 0.5 {
				break
			}
		}
	case "notpd":
		for i := range a {
			a[i] = dy(rng, 4, 1)
		}
		for i := 0; i < n; i++ {
			for j := 0; j < i; j++ {
				a[j*n+i] = a[i*n+j]
			}
		}
		a[(n-1)*n+(n-1)] = -1
	}
	return a
}
// determinant by Gaussian elimination with partial pivoting (generator-side only)
func luDet(a0 []float64, n int) float64 {
	a := append([]float64{}, a0...)
	det := 1.0
	for i := 0; i < n; i++ {
		p := i
		for j := i + 1; j < n; j++ {
			if math.Abs(a[j*n+i]) > math.Abs(a[p*n+i]) {
				p = j
			}
		}
		if a[p*n+i] == 0 {
			return 0
		}
		if p != i {
			for k := 0; k < n; k++ {
				a[i*n+k], a[p*n+k] = a[p*n+k], a[i*n+k]
			}
			det = -det
		}
		det *= a[i*n+i]
		for j := i + 1; j < n; j++ {
			c := a[j*n+i] / a[i*n+i]
			for k := i; k < n; k++ {
				a[j*n+k] -= c * a[i*n+k]
			}
		}
	}
	return det
}
func genVec(rng *Rng, n int) []float64 {
	v := make([]float64, n)
	for i := range v {
		v[i] = dy(rng, 8, 3)
	}
	return v
}
func identityFlat(n int) []float64 {
	a := make([]float64, n*n)
	for i := 0; i < n; i++ {
		a[i*n+i] = 1
	}
	return a
}

// input of program p, dims d, from family fam
func genInput(rng *Rng, p int, d []int, fam string) []float64 {
	n := d[0]
	switch p {
	case PBacksub:
		return append(genSquare(rng, fam, n), genVec(rng, n)...)
	case PGJ, PGJUT:
		x := identityFlat(n)
		if rng.Intn(3) == 0 {
			x = genSquare(rng, "int", n)
		}
		return append(append(genSquare(rng, fam, n), x...), genVec(rng, n)...)
	case PMdotM:
		v := make([]float64, d[0]*d[1]+d[1]*d[2])
		for i := range v {
			if fam == "int" {
				v[i] = float64(rng.Range(-3, 3))
			} else {
				v[i] = 4*rng.Float() - 2
			}
		}
		return v
	case PGS, PBidiag:
		v := make([]float64, d[0]*d[1])
		for i := range v {
			v[i] = dy(rng, 8, 2)
		}
		for i := 0; i < d[1] && i < d[0]; i++ {
			v[i*d[1]+i] += 3
		}
		return v
	case PTridiag:
		return genSquare(rng, "spd", n)
	}
	return genSquare(rng, fam, n)
}

func familiesFor(p int) []string {
	switch p {
	case PBacksub, PInvUT, PGJUT:
		return []string{"ut", "ut", "dd"}
	case PDet:
		return []string{"dd", "rand", "int", "piv", "tie"}
	case PDetPD, PInvPD, PChol, PLdl, PLogDetPD:
		return []string{"spd", "spd", "spdrand", "notpd"}
	case PInv, PGJ:
		return []string{"dd", "rand", "piv", "tie", "tie", "int"}
	case PMdotM:
		return []string{"rand", "int"}
	case PHess:
		return []string{"dd", "rand"}
	}
	return []string{"dd"}
}

// activation patterns: returns act (per input entry) and k
func genAct(rng *Rng, m int, pat string, maxk int) ([]int, int) {
	act := make([]int, m)
	for i := range act {
		act[i] = -1
	}
	switch pat {
	case "all":
		for i := range act {
			act[i] = i
		}
		return act, m
	case "one":
		act[rng.Intn(m)] = 0
		return act, 1
	case "rev": // all, numbered in reverse order
		for i := range act {
			act[i] = m - 1 - i
		}
		return act, m
	default: // subset of size <= maxk, in shuffled variable order
		k := rng.Range(1, maxk)
		if k > m {
			k = m
		}
		idx := rng.Intn(m)
		perm := make([]int, 0, k)
		used := map[int]bool{}
		for len(perm) < k {
			if !used[idx] {
				used[idx] = true
				perm = append(perm, idx)
			}
			idx = rng.Intn(m)
		}
		for v, pos := range perm {
			act[pos] = v
		}
		return act, k
	}
}

// ---------------------------------------------------------------- case construction

type runner struct {
	w *CaseWriter
}

func dimsFor(rng *Rng, p int, nmax int) []int {
	n := rng.Range(1, nmax)
	switch p {
	case PMdotM:
		return []int{rng.Range(1, nmax), rng.Range(1, nmax), rng.Range(1, nmax)}
	case PGS, PBidiag:
		m := rng.Range(1, nmax)
		if m > n {
			n, m = m, n
		}
		return []int{n, m} // rows >= cols
	case PHess, PTridiag:
		if n < 2 {
			n = 2
		}
	}
	return []int{n}
}

// value tie: fast path, generic path, model
func (rn *runner) valueCase(c *Case) {
	inp := unhexList(c.Inp)
	fo, fk := RunProgRec(c.P, c.D, inp, c.etFast(), nil, 0, 0, c.Rec, c.Rseed, c.Fam, 0)
	gouts, gk := RunProgRec(c.P, c.D, inp, c.etGen(), nil, 0, 0, c.Rec, c.Rseed, c.Fam, c.KO)
	fv, gv := values(fo), values(gouts)
	term := fmt.Sprintf("(%s %d %s %s %s %s)", c.ctor("KV"), c.P, natList(c.D), FList(inp), optList(fv, fk == "ok"), optList(gv, gk == "ok"))
	rn.w.Count("V:" + progName[c.P])
	rn.countMode("V", c)
	rn.w.Count("V:outcome:" + outcomeClass(fk) + "/" + outcomeClass(gk))
	rn.w.Add(term, c, c.key(), c.D[0] >= 2 && fk == "ok")
}

var recName = []string{"fresh", "garbage", "earlier-call", "in-place"}

func (rn *runner) countMode(kind string, c *Case) {
	w := "64"
	if c.W == 32 {
		w = "32"
	}
	rn.w.Count(kind + ":width" + w)
	if c.Rec != 0 {
		m := recName[c.Rec]
		if c.Rec == 3 && !hasInplace(c.P) {
			m = recName[1]
		}
		rn.w.Count(kind + ":recycled:" + m)
		rn.w.Count(kind + ":recycled:" + progName[c.P])
	}
}

func outcomeClass(s string) string {
	if strings.HasPrefix(s, "panic") {
		return "panic"
	}
	return s
}

func (c *Case) key() string {
	return fmt.Sprintf("%s|%d|%v|%v|%d|%d|%d|%d|%d|%d|%s", c.Kind, c.P, c.D, c.Act, c.K, c.O, c.Fid, c.Rec, c.Rseed, c.W, strings.Join(c.Inp, ","))
}

// derivative tie
func (rn *runner) derivCase(c *Case) {
	inp := unhexList(c.Inp)
	outs, oc := RunProgRec(c.P, c.D, inp, c.etGen(), c.Act, c.K, c.O, c.Rec, c.Rseed, c.Fam, c.KO)
	var sl []Slot
	if oc == "ok" {
		sl, oc = slots(outs, c.K, c.O)
	}
	rn.countMode("D", c)
	outT := "None"
	if oc == "ok" {
		ts := make([]string, len(sl))
		for i, s := range sl {
			ts[i] = slotTerm(s)
		}
		outT = "(Some " + List(ts) + ")"
	}
	ctor := c.ctor("KD")
	if c.Rec != 0 {
		ctor += "z"
	}
	term := fmt.Sprintf("(%s %d %s %d %d %s %s %s)", ctor, c.P, natList(c.D), c.K, c.O, B(sqrtful(c.P)), specTerm(inp, c.Act), outT)
	rn.w.Count("D:" + progName[c.P])
	rn.w.Count(fmt.Sprintf("D:order%d", c.O))
	rn.w.Count("D:outcome:" + outcomeClass(oc))
	if os.Getenv("C06_DEBUG") != "" && oc != "ok" {
		fmt.Fprintf(os.Stderr, "D %s d=%v k=%d o=%d fam=%s: %s\n", progName[c.P], c.D, c.K, c.O, c.Fam, oc)
	}
	nz := false
	for _, s := range sl {
		for _, g := range s.G {
			if g != 0 {
				nz = true
			}
		}
	}
	rn.w.Add(term, c, c.key(), nz)
}

// formula certificates (all entries activated, order 1), decided in Q by Coq
func (rn *runner) formulaCase(c *Case) {
	inp := unhexList(c.Inp)
	n := c.D[0]
	outs, oc := RunProg(c.P, c.D, inp, true, c.Act, c.K, 1)
	if oc != "ok" {
		rn.w.Count("F:skipped(" + outcomeClass(oc) + ")")
		return
	}
	sl, oc2 := slots(outs, c.K, 1)
	if oc2 != "ok" {
		rn.w.Count("F:skipped(slots)")
		return
	}
	if c.FK == 4 { // the solution vector is the last block of the Gauss-Jordan output (a, x, b)
		sl = sl[2*n*n:]
	}
	vals := make([]float64, len(sl))
	grads := make([]string, len(sl))
	for i, s := range sl {
		vals[i] = s.V
		grads[i] = FList(s.G)
	}
	aux := []float64{}
	scale := 1.0
	a := inp[:n*n]
	if c.FK == 1 || c.FK == 2 || c.FK == 4 {
		xo, k := RunProg(PInv, []int{n}, a, false, nil, 0, 0)
		if k != "ok" {
			rn.w.Count("F:skipped(no inverse)")
			return
		}
		aux = values(xo)
	}
	mx := func(v []float64) float64 {
		m := 0.0
		for _, x := range v {
			m = math.Max(m, math.Abs(x))
		}
		return m
	}
	switch c.FK {
	case 0:
		xm := mx(vals)
		scale = (1 + xm*xm) * (1 + xm*mx(a))
	case 1:
		scale = (1 + math.Abs(vals[0])*mx(aux)) * (1 + mx(aux)*mx(a))
	case 2:
		scale = (1 + mx(aux)) * (1 + mx(aux)*mx(a))
	case 3:
		scale = 1 + mx(vals)*mx(vals)
		for _, s := range sl {
			scale = math.Max(scale, 1+mx(s.G)*mx(vals))
		}
	case 4:
		scale = (1 + mx(aux)*(1+mx(vals))) * (1 + mx(aux)*mx(a))
	}
	tol := scale * float64(n*n) * 1e-12
	sym := c.P == PInvPD || c.P == PDetPD || c.P == PLogDetPD
	term := fmt.Sprintf("(KF %d %d %s %s %s %s %s)", c.FK, n, B(sym), Q(tol), FList(vals), FList(aux), List(grads))
	rn.w.Count(fmt.Sprintf("F:kind%d(%s)", c.FK, progName[c.P]))
	rn.w.Add(term, c, c.key(), n >= 2)
}

func writeCase(rn *runner, c *Case) {
	switch c.Kind {
	case "V":
		rn.valueCase(c)
	case "D":
		rn.derivCase(c)
	case "F":
		rn.formulaCase(c)
	case "Eq":
		rn.eqCase(c)
	case "Jac", "Hes":
		rn.helperCase(c)
	case "JM", "HM":
		rn.helperMCase(c)
	case "HSrc":
		rn.helpSrcCase(c)
	case "O":
		rn.optCase(c)
	case "OD":
		rn.optDerivCase(c)
	case "Disp":
		rn.dispCase(c)
	case "PV":
		rn.viewCase(c)
	case "R", "RD": // InSitu reuse: decided by the implementation-level oracle (--extra hunt) only
		rn.w.Count(c.Kind + ":handed to the oracle")
	default:
		Die("unknown case kind %q", c.Kind)
	}
}

func generate(rng *Rng, n int, tier string) []*Case {
	var cs []*Case
	vprogs := []int{PBacksub, PDet, PDetPD, PInv, PInvUT, PInvPD, PGJ, PGJUT, PChol, PLdl, PMdotM, PGS, PHess}
	dprogs := []int{PBacksub, PDet, PDetPD, PInv, PInvUT, PInvPD, PGJ, PGJUT, PChol, PLdl, PMdotM, PGS, PHess}
	// ---- value tie, n <= 8
	nv := n * 3 / 10
	for i := 0; i < nv; i++ {
		p := vprogs[i%len(vprogs)]
		d := dimsFor(rng, p, 8)
		if p == PDet && d[0] > 6 {
			d[0] = 6
		}
		fams := familiesFor(p)
		fam := fams[rng.Intn(len(fams))]
		cs = append(cs, &Case{Kind: "V", P: p, D: d, Inp: hexList(genInput(rng, p, d, fam)), Fam: fam})
	}
	// ---- derivative tie
	nd := n * 4 / 10
	for i := 0; i < nd; i++ {
		p := dprogs[i%len(dprogs)]
		o := 1 + (i/len(dprogs))%2
		nmax := 4
		if o == 2 {
			nmax = 3
		}
		if p == PGJ || p == PGJUT {
			nmax--
		}
		d := dimsFor(rng, p, nmax)
		fams := familiesFor(p)
		fam := fams[rng.Intn(len(fams))]
		inp := genInput(rng, p, d, fam)
		m := len(inp)
		pat := []string{"all", "subset", "subset", "one", "rev"}[rng.Intn(5)]
		if (o == 2 && m > 6) || m > 30 {
			pat = "subset"
		}
		maxk := 5
		if o == 2 {
			maxk = 4
		}
		act, k := genAct(rng, m, pat, maxk)
		cs = append(cs, &Case{Kind: "D", P: p, D: d, Inp: hexList(inp), Act: act, K: k, O: o, Fam: fam, Tag: pat})
	}
	// ---- formula certificates
	nf := n * 15 / 100
	fprogs := [][2]int{{PInv, 0}, {PDet, 1}, {PLogDetPD, 2}, {PChol, 3}, {PGJ, 4}, {PInvPD, 0}, {PDetPD, 1}}
	for i := 0; i < nf; i++ {
		pf := fprogs[i%len(fprogs)]
		nn := rng.Range(1, 4)
		fam := "dd"
		if pf[0] == PLogDetPD || pf[0] == PChol || pf[0] == PInvPD || pf[0] == PDetPD {
			fam = "spd"
		} else if rng.Intn(3) == 0 {
			fam = "piv"
		}
		inp := genInput(rng, pf[0], []int{nn}, fam)
		m := len(inp)
		act := make([]int, m)
		k := nn * nn
		if pf[1] == 4 {
			k = nn*nn + nn
		}
		for j := range act {
			act[j] = -1
		}
		if pf[1] == 4 { // a and b activated, x (identity) constant
			for j := 0; j < nn*nn; j++ {
				act[j] = j
			}
			for j := 0; j < nn; j++ {
				act[2*nn*nn+j] = nn*nn + j
			}
			copy(inp[nn*nn:2*nn*nn], identityFlat(nn))
		} else {
			for j := 0; j < nn*nn; j++ {
				act[j] = j
			}
		}
		cs = append(cs, &Case{Kind: "F", P: pf[0], D: []int{nn}, Inp: hexList(inp), Act: act, K: k, O: 1, FK: pf[1], Fam: fam})
	}
	// ---- round 2: recycled InSitu buffers / in-place calls, 32 bit element types, right-hand-side patterns
	cs = append(cs, generateRound2(rng, n)...)
	// ---- round 5: the dispatch tables from the source, every option row group x InSitu mode x width
	cs = append(cs, &Case{Kind: "Disp", R: RChol}, &Case{Kind: "Disp", R: RGJ})
	cs = append(cs, generateOptions(rng, n)...)
	// ---- routines without a closed model: Real64 values = Float64 values
	ne := n / 10
	for i := 0; i < ne; i++ {
		cs = append(cs, genEq(rng, i))
	}
	// ---- Jacobian / Hessian helpers
	nh := n - nv - nd - nf - ne
	for i := 0; i < nh; i++ {
		cs = append(cs, genHelper(rng, i))
	}
	// ---- round 6: the helpers' statement lists from the source (4 bodies + their element-type copies), and the
	// helper machines on random functions: every receiver type x caller state x recycling (160 combinations)
	for w := 0; w < 2; w++ {
		for sp := 0; sp < 2; sp++ {
			cs = append(cs, &Case{Kind: "HSrc", Fid: w, P: sp})
		}
	}
	hrng := rng.Split()
	for i := 0; i < n*8/21; i++ {
		cs = append(cs, genHelperM(hrng, i))
	}
	// ---- round 7: products on views (T() / Slice / overlapping result and operand), generic and concrete-typed
	vrng := NewRng(rng.U64() ^ 0x7c06)
	for i := 0; i < n*2/10; i++ {
		cs = append(cs, genView(vrng, i))
	}
	return cs
}

// ---------------------------------------------------------------- main

const header = "From Coq Require Import List ZArith QArith Floats.\nFrom Coq Require String.\nImport String.StringSyntax.\nFrom ADV Require Import C06.ModelOpt C06.ModelHelp C06.ModelView C06.Corr.\nImport ListNotations.\nOpen Scope string_scope.\nOpen Scope Z_scope.\nOpen Scope nat_scope.\n"

func loadCorpus(path string) []*Case {
	var cs []*Case
	b, err := os.ReadFile(path)
	if err != nil {
		return nil
	}
	for _, l := range strings.Split(string(b), "\n") {
		l = strings.TrimSpace(l)
		if l == "" || strings.HasPrefix(l, "#") {
			continue
		}
		c := &Case{}
		if err := json.Unmarshal([]byte(l), c); err != nil {
			Die("corpus: %v", err)
		}
		cs = append(cs, c)
	}
	return cs
}

func main() {
	o := ParseFlags()
	if o.Extra == "hunt" {
		runHunt(o)
		return
	}
	if o.Replay != "" {
		var rp struct {
			Case *Case `json:"case"`
		}
		b, err := os.ReadFile(o.Replay)
		if err != nil {
			Die("replay: %v", err)
		}
		if err := json.Unmarshal(b, &rp); err != nil || rp.Case == nil {
			Die("replay: no case in %s", o.Replay)
		}
		w := NewCaseWriter(o.Out, "replay", header, "mism", 1)
		w.Type = "kase"
		rn := &runner{w: w}
		writeCase(rn, rp.Case)
		if err := w.Flush(); err != nil {
			Die("%v", err)
		}
		return
	}
	rng := NewRng(o.Seed*1000003 + 1) // consecutive seeds of the shared SplitMix64 are one step apart: spread them
	w := NewCaseWriter(o.Out, "cases", header, "mism", 10)
	w.Type = "kase"
	w.Rule = "value cases: n >= 2 and a value was returned; derivative cases: some gradient slot of some output is non-zero; formula cases: n >= 2"
	rn := &runner{w: w}
	if o.Extra != "" {
		for _, c := range loadCorpus(o.Extra) {
			writeCase(rn, c)
			w.Count("corpus")
		}
	}
	for _, c := range generate(rng, o.N, o.Tier) {
		writeCase(rn, c)
	}
	if err := w.Flush(); err != nil {
		Die("%v", err)
	}
	_ = filepath.Join
}
