// Recycled InSitu buffers, in-place calls and the 32 bit element types.
//
// Every routine stream (values and derivatives, fast and generic path) also runs with
//   rec = 1  caller-supplied InSitu buffers that an earlier call of the routine left behind AND that were
//            then filled with garbage: every matrix / vector / scalar of the InSitu struct gets an arbitrary
//            value and, on the magic element types, a non-zero gradient and Hessian (other order than the
//            call under test, another variable);
//   rec = 2  the genuine left-overs of an earlier call with the same InSitu struct: other matrix, other
//            derivative order, other activated subset; for Cholesky / determinantPD the earlier call is a
//            positive definite matrixInverse.Run, which leaves the dense inverse in InSitu.Cholesky.L;
//   rec = 3  in place, where the API allows it (cholesky: InSitu.L is the input matrix; hessenbergReduction:
//            InSitu.H; backSubstitution / matrixInverse: InSitu.A), otherwise as rec = 1.
// The result must be what a fresh call returns: the Coq side compares it with the SAME model term as a fresh
// run (theorems recycled_buffers_* of coq/C06/Props.v: the buffer-taking models do not depend on the prior
// buffer content, for every carrier, the jet carrier included).
package main

import (
	"math"
	"reflect"

	. "adharness/common"

	ad "github.com/pbenner/autodiff"
	"github.com/pbenner/autodiff/algorithm/backSubstitution"
	"github.com/pbenner/autodiff/algorithm/cholesky"
	"github.com/pbenner/autodiff/algorithm/determinant"
	"github.com/pbenner/autodiff/algorithm/gramSchmidt"
	"github.com/pbenner/autodiff/algorithm/hessenbergReduction"
	"github.com/pbenner/autodiff/algorithm/householderBidiagonalization"
	"github.com/pbenner/autodiff/algorithm/householderTridiagonalization"
	"github.com/pbenner/autodiff/algorithm/matrixInverse"
)

const (
	ETFloat64 = iota
	ETReal64
	ETFloat32
	ETReal32
)

var etName = []string{"Float64", "Real64", "Float32", "Real32"}

func etMagic(et int) bool { return et == ETReal64 || et == ETReal32 }
func et32(et int) bool    { return et == ETFloat32 || et == ETReal32 }

func etypeT(et int) ad.ScalarType {
	switch et {
	case ETReal64:
		return ad.Real64Type
	case ETFloat32:
		return ad.Float32Type
	case ETReal32:
		return ad.Real32Type
	}
	return ad.Float64Type
}

func to32(v []float64) []float32 {
	w := make([]float32, len(v))
	for i, x := range v {
		w[i] = float32(x)
	}
	return w
}

func mkMatT(et int, v []float64, r, c int) ad.Matrix {
	switch et {
	case ETReal64:
		return ad.NewDenseReal64Matrix(append([]float64{}, v...), r, c)
	case ETFloat32:
		return ad.NewDenseFloat32Matrix(to32(v), r, c)
	case ETReal32:
		return ad.NewDenseReal32Matrix(to32(v), r, c)
	}
	return ad.NewDenseFloat64Matrix(append([]float64{}, v...), r, c)
}
func mkVecT(et int, v []float64) ad.Vector {
	switch et {
	case ETReal64:
		return ad.NewDenseReal64Vector(append([]float64{}, v...))
	case ETFloat32:
		return ad.NewDenseFloat32Vector(to32(v))
	case ETReal32:
		return ad.NewDenseReal32Vector(to32(v))
	}
	return ad.NewDenseFloat64Vector(append([]float64{}, v...))
}

// round an input to binary32 numbers (so that the Coq side sees exactly what the 32 bit containers hold)
func round32(v []float64) []float64 {
	w := make([]float64, len(v))
	for i, x := range v {
		w[i] = float64(float32(x))
	}
	return w
}

// ---------------------------------------------------------------- buffers

type bufs struct {
	bs      *backSubstitution.InSitu
	det     *determinant.InSitu
	inv     *matrixInverse.InSitu
	ch      *cholesky.InSitu
	gs      *gramSchmidt.InSitu
	he      *hessenbergReduction.InSitu
	tr      *householderTridiagonalization.InSitu
	bi      *householderBidiagonalization.InSitu
	r       ad.Matrix // receiver of MdotM
	inplace bool
}

func newBufs() *bufs {
	return &bufs{bs: &backSubstitution.InSitu{}, det: &determinant.InSitu{}, inv: &matrixInverse.InSitu{},
		ch: &cholesky.InSitu{}, gs: &gramSchmidt.InSitu{}, he: &hessenbergReduction.InSitu{},
		tr: &householderTridiagonalization.InSitu{}, bi: &householderBidiagonalization.InSitu{}}
}

// does program p take caller-supplied buffers at all
func recyclable(p int) bool {
	switch p {
	case PDet, PGJ, PGJUT:
		return false
	}
	return true
}
func hasInplace(p int) bool {
	switch p {
	case PChol, PLdl, PHess, PBacksub, PInv, PInvUT:
		return true
	}
	return false
}

// garbage: a value, and on the magic types a gradient 2v e_i and a Hessian 2 e_i e_i' (k2 variables, order o2)
type garb struct {
	rng    *Rng
	k2, o2 int
}

func (g *garb) value() float64 {
	v := []float64{7.25, -3.5, 1234.5, -0.375, 96, 1e3, -17}[g.rng.Intn(7)]
	return v + float64(g.rng.Range(0, 8))/8
}
func (g *garb) scalar(s ad.Scalar) {
	v := g.value()
	switch x := s.(type) {
	case *ad.Real64:
		x.SetFloat64(v)
		if g.k2 > 0 {
			x.SetVariable(g.rng.Intn(g.k2), g.k2, g.o2)
			x.Mul(x, x)
		}
	case *ad.Real32:
		x.SetFloat64(v)
		if g.k2 > 0 {
			x.SetVariable(g.rng.Intn(g.k2), g.k2, g.o2)
			x.Mul(x, x)
		}
	default:
		s.SetFloat64(v)
	}
}
func (g *garb) any(v reflect.Value) {
	switch v.Kind() {
	case reflect.Ptr:
		if !v.IsNil() {
			g.any(v.Elem())
		}
	case reflect.Struct:
		for i := 0; i < v.NumField(); i++ {
			f := v.Field(i)
			if !f.CanInterface() {
				continue
			}
			// C1 is a constant the caller is expected to keep at 1 (householder*.InSitu)
			if v.Type().Field(i).Name == "C1" {
				continue
			}
			g.any(f)
		}
	case reflect.Interface:
		if v.IsNil() {
			return
		}
		switch x := v.Interface().(type) {
		case ad.Matrix:
			r, c := x.Dims()
			for i := 0; i < r; i++ {
				for j := 0; j < c; j++ {
					g.scalar(x.At(i, j))
				}
			}
		case ad.Vector:
			for i := 0; i < x.Dim(); i++ {
				g.scalar(x.At(i))
			}
		case ad.Scalar:
			g.scalar(x)
		}
	}
}
func (g *garb) bufs(bf *bufs) {
	for _, s := range []interface{}{bf.bs, bf.det, bf.inv, bf.ch, bf.gs, bf.he, bf.tr, bf.bi} {
		g.any(reflect.ValueOf(s))
	}
	if bf.r != nil {
		r, c := bf.r.Dims()
		for i := 0; i < r; i++ {
			for j := 0; j < c; j++ {
				g.scalar(bf.r.At(i, j))
			}
		}
	}
}

// RunProgRec: program p on element type et with recycling mode rec (0: fresh call, no buffers).
// rseed fixes the earlier call / the garbage; fam is the input family of the case (the earlier call uses
// another matrix of the same family).  kOther: the earlier call activates kOther variables instead of k
// (0: the same number k; see known finding F-C06-INSITU-TEMP-N for why this is kept apart).
func RunProgRec(p int, d []int, inp []float64, et int, act []int, k, o int, rec int, rseed uint64, fam string, kOther int) ([]ad.ConstScalar, string) {
	orderDown := kOther < 0 // KO = -1: the earlier call ran at order 2 (the call under test at order 1)
	if kOther < 0 {
		kOther = 0
	}
	if rec == 0 || !recyclable(p) {
		return runProgX(p, d, inp, et, act, k, o, nil)
	}
	rng := NewRng(rseed*7919 + 13)
	bf := newBufs()
	if rec == 3 && hasInplace(p) {
		bf.inplace = true
		return runProgX(p, d, inp, et, act, k, o, bf)
	}
	// ---- the earlier call: other matrix, other order, other activated subset (same number of variables)
	inp2 := genInput(rng, p, d, famOr(fam, p))
	if et32(et) {
		inp2 = round32(inp2)
	}
	// the order of the earlier call: another one where that is sound at HEAD.  A buffer entry left at a HIGHER
	// order than the operands of the current call makes c.Op(c, s) reallocate (and lose) the derivatives of
	// c (known finding F-C06-ALLOC-ALIAS-ORDER), so the main streams recycle from a lower or equal order
	// (order 1 -> 2, inactive -> any) and the opposite direction is exercised by the "RD" cases only.
	k2, o2 := k, 1
	if kOther > 0 {
		k2 = kOther
	}
	if o == 0 || orderDown {
		o2 = 1 + rng.Intn(2)
		if orderDown {
			o2 = 2
		}
	}
	gOrd := o2
	var act2 []int
	if etMagic(et) {
		if k2 == 0 {
			k2 = 1 + rng.Intn(3)
		}
		if k2 > len(inp2) {
			k2 = len(inp2)
		}
		act2 = make([]int, len(inp2))
		for i := range act2 {
			act2[i] = -1
		}
		// k2 distinct positions in shuffled variable order
		for v := 0; v < k2; {
			pos := rng.Intn(len(inp2))
			if act2[pos] < 0 {
				act2[pos] = v
				v++
			}
		}
	} else {
		k2, o2 = 0, 0
	}
	prev := p
	if (p == PChol || p == PDetPD || p == PLogDetPD) && rng.Intn(2) == 0 {
		// a positive definite inverse leaves the dense inverse in InSitu.Cholesky.L
		prev = PInvPD
	}
	runProgX(prev, d, inp2, et, act2, k2, o2, bf)
	if prev == PInvPD && p != PInvPD {
		bf.ch = &bf.inv.Cholesky
		bf.det.Cholesky = bf.inv.Cholesky
	}
	if rec == 1 || rec == 3 {
		kk := k
		if kOther > 0 {
			kk = kOther
		}
		if !etMagic(et) {
			kk = 0
		} else if kk == 0 {
			kk = 1 + rng.Intn(3)
		}
		g := &garb{rng: rng, k2: kk, o2: gOrd}
		g.bufs(bf)
	}
	return runProgX(p, d, inp, et, act, k, o, bf)
}

func famOr(fam string, p int) string {
	if fam != "" {
		return fam
	}
	return familiesFor(p)[0]
}

var _ = math.Abs

// ---------------------------------------------------------------- generators of round 2

// which entries of (A, b) / (a, x, b) are activated: "b", "A", "both"
func rhsAct(p int, n int, pat string) ([]int, int) {
	m := inputLen(p, []int{n})
	act := make([]int, m)
	for i := range act {
		act[i] = -1
	}
	boff := n * n
	if p == PGJ || p == PGJUT {
		boff = 2 * n * n
	}
	k := 0
	if pat == "A" || pat == "both" {
		for i := 0; i < n*n; i++ {
			act[i] = k
			k++
		}
	}
	if pat == "b" || pat == "both" {
		for i := 0; i < n; i++ {
			act[boff+i] = k
			k++
		}
	}
	return act, k
}

func generateRound2(rng *Rng, n int) []*Case {
	var cs []*Case
	// (a) solve routines: right-hand side only / matrix only / both activated, order 1 and 2, every run
	for _, p := range []int{PBacksub, PGJ, PGJUT} {
		for pi, pat := range []string{"b", "A", "both"} {
			for o := 1; o <= 2; o++ {
				nn := 2 + (pi+o)%2
				if o == 2 && p != PBacksub {
					nn = 2
				}
				fam := "ut"
				if p == PGJ {
					fam = "dd"
				}
				inp := genInput(rng, p, []int{nn}, fam)
				act, k := rhsAct(p, nn, pat)
				cs = append(cs, &Case{Kind: "D", P: p, D: []int{nn}, Inp: hexList(inp), Act: act, K: k, O: o, Fam: fam, Tag: "rhs:" + pat})
			}
		}
	}
	// (b) recycled buffers: every routine with an InSitu struct x {garbage, earlier call, in place} x {V, D order 1, D order 2}
	rprogs := []int{PChol, PLdl, PInvPD, PDetPD, PInv, PInvUT, PBacksub, PMdotM, PGS, PHess}
	nr := n * 30 / 100
	for i := 0; i < nr; i++ {
		p := rprogs[i%len(rprogs)]
		rec := 1 + (i/len(rprogs))%3
		sub := (i / (3 * len(rprogs))) % 3 // 0: D order 1, 1: D order 2, 2: V
		fams := familiesFor(p)
		fam := fams[rng.Intn(len(fams))]
		if fam == "notpd" && rng.Intn(3) != 0 {
			fam = "spd"
		}
		rseed := rng.U64() % 1000000
		if sub == 2 {
			d := dimsFor(rng, p, 6)
			cs = append(cs, &Case{Kind: "V", P: p, D: d, Inp: hexList(genInput(rng, p, d, fam)), Fam: fam, Rec: rec, Rseed: rseed})
			continue
		}
		o := 1 + sub
		nmax := 4
		if o == 2 {
			nmax = 3
		}
		d := dimsFor(rng, p, nmax)
		inp := genInput(rng, p, d, fam)
		pat := []string{"all", "subset", "subset", "rev"}[rng.Intn(4)]
		if (o == 2 && len(inp) > 6) || len(inp) > 30 {
			pat = "subset"
		}
		maxk := 5
		if o == 2 {
			maxk = 4
		}
		act, k := genAct(rng, len(inp), pat, maxk)
		cs = append(cs, &Case{Kind: "D", P: p, D: d, Inp: hexList(inp), Act: act, K: k, O: o, Fam: fam, Tag: pat, Rec: rec, Rseed: rseed})
	}
	// (c) 32 bit element types: Float32 fast path (Cholesky family) / Real32 generic path, values and derivatives,
	//     fresh and recycled
	p32 := []int{PChol, PLdl, PBacksub, PDet, PDetPD, PInv, PInvUT, PInvPD, PGJ, PGJUT, PMdotM, PChol, PLdl}
	n32 := n * 15 / 100
	for i := 0; i < n32; i++ {
		p := p32[i%len(p32)]
		fams := familiesFor(p)
		fam := fams[rng.Intn(len(fams))]
		rec := 0
		if recyclable(p) && (i/len(p32))%2 == 1 {
			rec = 1 + rng.Intn(3)
		}
		rseed := rng.U64() % 1000000
		if (i/len(p32))%3 == 2 {
			d := dimsFor(rng, p, 5)
			if p == PDet && d[0] > 4 {
				d[0] = 4
			}
			cs = append(cs, &Case{Kind: "V", P: p, D: d, Inp: hexList(round32(genInput(rng, p, d, fam))), Fam: fam, Rec: rec, Rseed: rseed, W: 32})
			continue
		}
		o := 1 + (i/len(p32))%2
		nmax := 3
		if p == PGJ || p == PGJUT {
			nmax = 2
		}
		d := dimsFor(rng, p, nmax)
		inp := round32(genInput(rng, p, d, fam))
		pat := []string{"all", "subset", "subset", "one"}[rng.Intn(4)]
		if (o == 2 && len(inp) > 6) || len(inp) > 30 {
			pat = "subset"
		}
		act, k := genAct(rng, len(inp), pat, 4)
		cs = append(cs, &Case{Kind: "D", P: p, D: d, Inp: hexList(inp), Act: act, K: k, O: o, Fam: fam, Tag: pat, Rec: rec, Rseed: rseed, W: 32})
	}
	return cs
}
