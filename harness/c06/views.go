package main

// round 7: dense products on VIEWS (T() / Slice of backing arrays; overlapping result and operand) - kind "PV".
// Memory = the backing arrays one after the other (Case.Inp / Case.Act: every cell); Case.Vw = the views a, b, r in
// the form of coq/C06/ModelView.v (base ro co rows cols rmax cmax tr); a vector is the view rows x 1 of a block
// with cmax = 1.  Case.Op: 0 MdotM 1 MdotV 2 VdotM; Case.Conc = 1: the concrete-typed method (MDOTM / MDOTV / VDOTM).

import (
	"fmt"
	"os"
	"sort"

	. "adharness/common"

	ad "github.com/pbenner/autodiff"
)

type pvMem struct {
	bases  []int
	mats   map[int]*ad.DenseReal64Matrix
	vecs   map[int]ad.DenseReal64Vector
	length map[int]int
}

// build the backing arrays named by the views from the flat memory
func pvBuild(c *Case) (*pvMem, []ad.Scalar) {
	inp := unhexList(c.Inp)
	m := &pvMem{mats: map[int]*ad.DenseReal64Matrix{}, vecs: map[int]ad.DenseReal64Vector{}, length: map[int]int{}}
	for vi, v := range c.Vw {
		base, rmax, cmax, tr := v[0], v[5], v[6], v[7]
		if _, ok := m.length[base]; ok {
			continue
		}
		isVec := (c.Op == 1 && vi != 0) || (c.Op == 2 && vi != 1)
		m.bases = append(m.bases, base)
		m.length[base] = rmax * cmax
		vals := append([]float64{}, inp[base:base+rmax*cmax]...)
		if isVec {
			m.vecs[base] = ad.NewDenseReal64Vector(vals)
		} else if tr == 1 {
			m.mats[base] = ad.NewDenseReal64Matrix(vals, cmax, rmax)
		} else {
			m.mats[base] = ad.NewDenseReal64Matrix(vals, rmax, cmax)
		}
	}
	sort.Ints(m.bases)
	return m, m.cells()
}
func (m *pvMem) cells() []ad.Scalar {
	var out []ad.Scalar
	for _, b := range m.bases {
		if M, ok := m.mats[b]; ok {
			out = append(out, matScalars(M)...)
		} else {
			out = append(out, vecScalars(m.vecs[b])...)
		}
	}
	return out
}
func (m *pvMem) matView(v []int) *ad.DenseReal64Matrix {
	M := m.mats[v[0]]
	if v[7] == 1 {
		M = M.T().(*ad.DenseReal64Matrix)
	}
	return M.Slice(v[1], v[1]+v[3], v[2], v[2]+v[4]).(*ad.DenseReal64Matrix)
}
func (m *pvMem) vecView(v []int) ad.DenseReal64Vector {
	return m.vecs[v[0]][v[1] : v[1]+v[3]]
}

// run the product of the case on the views; returns the operands too
func pvRun(c *Case, m *pvMem) (outcome string) {
	defer func() {
		if r := recover(); r != nil {
			outcome = "panic: " + fmt.Sprint(r)
		}
	}()
	switch c.Op {
	case 0:
		a, b, r := m.matView(c.Vw[0]), m.matView(c.Vw[1]), m.matView(c.Vw[2])
		if c.Conc == 1 {
			r.MDOTM(a, b)
		} else {
			r.MdotM(a, b)
		}
	case 1:
		a, b, r := m.matView(c.Vw[0]), m.vecView(c.Vw[1]), m.vecView(c.Vw[2])
		if c.Conc == 1 {
			r.MDOTV(a, b)
		} else {
			r.MdotV(a, b)
		}
	default:
		a, b, r := m.vecView(c.Vw[0]), m.matView(c.Vw[1]), m.vecView(c.Vw[2])
		if c.Conc == 1 {
			r.VDOTM(a, b)
		} else {
			r.VdotM(a, b)
		}
	}
	return "ok"
}

func viewTerm(v []int) string {
	return fmt.Sprintf("(mkView %d %d %d %d %d %d %d %s)", v[0], v[1], v[2], v[3], v[4], v[5], v[6], B(v[7] == 1))
}

func (rn *runner) viewCase(c *Case) {
	m, cells := pvBuild(c)
	activate(cells, c.Act, c.K, c.O)
	oc := pvRun(c, m)
	var sl []Slot
	if oc == "ok" {
		outs := make([]ad.ConstScalar, len(cells))
		for i, s := range m.cells() {
			outs[i] = s
		}
		sl, oc = slots(outs, c.K, c.O)
	}
	outT := "None"
	nz := false
	if oc == "ok" {
		ts := make([]string, len(sl))
		for i, s := range sl {
			ts[i] = slotTerm(s)
			for _, g := range s.G {
				if g != 0 {
					nz = true
				}
			}
		}
		outT = "(Some " + List(ts) + ")"
	}
	term := fmt.Sprintf("(KPV %d %d %d %s %s %s %s %s)", c.Op, c.K, c.O, specTerm(unhexList(c.Inp), c.Act),
		viewTerm(c.Vw[0]), viewTerm(c.Vw[1]), viewTerm(c.Vw[2]), outT)
	rn.w.Count("PV:" + []string{"MdotM", "MdotV", "VdotM"}[c.Op] + []string{":generic", ":concrete"}[c.Conc])
	rn.w.Count("PV:scenario:" + c.Tag)
	rn.w.Count("PV:outcome:" + outcomeClass(oc))
	rn.w.Add(term, c, fmt.Sprintf("PV|%d|%d|%s|%v|%d%d", c.Op, c.Conc, c.Tag, c.Vw, c.K, c.O), nz)
}

// ---------------------------------------------------------------- property oracle (model independent)
// the product of COMPACT copies of the operands taken before the call, through the generic method on a fresh
// receiver, must be what the view received (value, gradient, Hessian slots, bit for bit), and no cell outside the
// receiver view may change.  Applies to every scenario but colov.
func pvOracle(c *Case) string {
	// colov: result and right operand overlapping at different COLUMN offsets - no loop order can serve it, the code
	// does not claim to (replayed against the model only).  raSameB fails at HEAD: known finding F-C06-MDOTM-SLICE-ALIAS
	if c.Tag == "colov" && os.Getenv("C06_PV_ALL") == "" {
		return ""
	}
	m, cells := pvBuild(c)
	activate(cells, c.Act, c.K, c.O)
	before := make([]ad.Scalar, len(cells))
	for i, s := range cells {
		before[i] = s.CloneScalar()
	}
	compactM := func(v ad.ConstMatrix) ad.Matrix {
		n, k := v.Dims()
		r := ad.NullDenseMatrix(ad.Real64Type, n, k)
		for i := 0; i < n; i++ {
			for j := 0; j < k; j++ {
				r.At(i, j).Set(v.ConstAt(i, j))
			}
		}
		return r
	}
	compactV := func(v ad.ConstVector) ad.Vector {
		r := ad.NullDenseVector(ad.Real64Type, v.Dim())
		for i := 0; i < v.Dim(); i++ {
			r.At(i).Set(v.ConstAt(i))
		}
		return r
	}
	var want, got []ad.ConstScalar
	var rcells []ad.Scalar
	switch c.Op {
	case 0:
		a, b, r := m.matView(c.Vw[0]), m.matView(c.Vw[1]), m.matView(c.Vw[2])
		n, _ := a.Dims()
		_, k := b.Dims()
		w := ad.NullDenseMatrix(ad.Real64Type, n, k)
		w.MdotM(compactM(a), compactM(b))
		want = constMat(w)
		rcells = matScalars(r)
	case 1:
		a, b, r := m.matView(c.Vw[0]), m.vecView(c.Vw[1]), m.vecView(c.Vw[2])
		w := ad.NullDenseVector(ad.Real64Type, r.Dim())
		w.MdotV(compactM(a), compactV(b))
		want = constVec(w)
		rcells = vecScalars(r)
	default:
		a, b, r := m.vecView(c.Vw[0]), m.matView(c.Vw[1]), m.vecView(c.Vw[2])
		w := ad.NullDenseVector(ad.Real64Type, r.Dim())
		w.VdotM(compactV(a), compactM(b))
		want = constVec(w)
		rcells = vecScalars(r)
	}
	name := []string{"MdotM", "MdotV", "VdotM"}[c.Op]
	if c.Conc == 1 {
		name = []string{"MDOTM", "MDOTV", "VDOTM"}[c.Op]
	}
	if oc := pvRun(c, m); oc != "ok" {
		return fmt.Sprintf("view product %s [%s]: %s", name, c.Tag, oc)
	}
	for _, s := range rcells {
		got = append(got, s)
	}
	ws, _ := slots(want, c.K, c.O)
	gs, oc := slots(got, c.K, c.O)
	if oc != "ok" {
		return fmt.Sprintf("view product %s [%s]: %s", name, c.Tag, oc)
	}
	for i := range ws {
		if d := slotDiff(ws[i], gs[i]); d != "" {
			return fmt.Sprintf("view product %s [%s]: receiver entry %d: %s (views a=%v b=%v r=%v; expected: product of compact copies of the operands)",
				name, c.Tag, i, d, c.Vw[0], c.Vw[1], c.Vw[2])
		}
	}
	// frame: cells outside the receiver view keep their jets
	isR := map[ad.Scalar]bool{}
	for _, s := range rcells {
		isR[s] = true
	}
	after := m.cells()
	bs := make([]ad.ConstScalar, 0, len(after))
	as := make([]ad.ConstScalar, 0, len(after))
	for i, s := range after {
		if !isR[s] {
			bs = append(bs, before[i])
			as = append(as, s)
		}
	}
	b1, _ := slots(bs, c.K, c.O)
	a1, _ := slots(as, c.K, c.O)
	for i := range b1 {
		if d := slotDiff(b1[i], a1[i]); d != "" {
			return fmt.Sprintf("view product %s [%s]: a cell outside the receiver view changed: %s", name, c.Tag, d)
		}
	}
	return ""
}

func slotDiff(w, g Slot) string {
	if !sameNumber(w.V, g.V) {
		return fmt.Sprintf("value %v, expected %v", g.V, w.V)
	}
	for i := range w.G {
		if !sameNumber(w.G[i], g.G[i]) {
			return fmt.Sprintf("derivative slot %d is %v, expected %v", i, g.G[i], w.G[i])
		}
	}
	for i := range w.H {
		for j := range w.H[i] {
			if !sameNumber(w.H[i][j], g.H[i][j]) {
				return fmt.Sprintf("Hessian slot (%d,%d) is %v, expected %v", i, j, g.H[i][j], w.H[i][j])
			}
		}
	}
	return ""
}

// ---------------------------------------------------------------- generator

// a view of rows x cols somewhere in a fresh block placed at base; returns the view and the block length
func pvFreshView(rng *Rng, base, rows, cols int, tr bool) ([]int, int) {
	rmax := rows + rng.Intn(3)
	cmax := cols + rng.Intn(3)
	ro := rng.Intn(rmax - rows + 1)
	co := rng.Intn(cmax - cols + 1)
	t := 0
	if tr {
		t = 1
	}
	return []int{base, ro, co, rows, cols, rmax, cmax, t}, rmax * cmax
}
func pvFreshVec(rng *Rng, base, n int) ([]int, int) {
	l := n + rng.Intn(3)
	return []int{base, rng.Intn(l - n + 1), 0, n, 1, l, 1, 0}, l
}

func genView(rng *Rng, i int) *Case {
	c := &Case{Kind: "PV", Conc: i % 2}
	scn := []string{"sep", "rb", "ra", "rowov", "colov", "raSameB", "mv", "vm", "sep", "rowov", "mv", "vm"}[(i/2)%12]
	c.Tag = scn
	n, m1, m := 1+rng.Intn(3), 1+rng.Intn(3), 1+rng.Intn(3)
	tr := func() bool { return rng.Intn(2) == 0 }
	total := 0
	switch scn {
	case "sep":
		va, la := pvFreshView(rng, 0, n, m1, tr())
		vb, lb := pvFreshView(rng, la, m1, m, tr())
		vr, lr := pvFreshView(rng, la+lb, n, m, tr())
		c.Vw = [][]int{va, vb, vr}
		total = la + lb + lr
	case "rb": // result and right operand: the SAME view
		n = m1
		va, la := pvFreshView(rng, 0, n, n, tr())
		vb, lb := pvFreshView(rng, la, n, m, tr())
		c.Vw = [][]int{va, vb, append([]int{}, vb...)}
		total = la + lb
	case "ra": // result and left operand: the same view; right operand in another array
		m = m1
		va, la := pvFreshView(rng, 0, n, m, tr())
		vb, lb := pvFreshView(rng, la, m, m, tr())
		c.Vw = [][]int{append([]int{}, va...), vb, va}
		total = la + lb
	case "rowov", "colov": // result and right operand: overlapping slices of one array at different row / column offsets
		n = m1
		if n < 2 && scn == "rowov" {
			n, m1 = 2, 2
		}
		if m < 2 && scn == "colov" {
			m = 2
		}
		va, la := pvFreshView(rng, 0, n, n, tr())
		t := rng.Intn(2)
		sh := 1 + rng.Intn(2)
		rmax, cmax := n+sh+rng.Intn(2), m+rng.Intn(2)
		if scn == "colov" {
			rmax, cmax = n+rng.Intn(2), m+sh+rng.Intn(2)
		}
		vb := []int{la, 0, 0, n, m, rmax, cmax, t}
		vr := []int{la, 0, 0, n, m, rmax, cmax, t}
		w := vr
		if rng.Intn(2) == 0 {
			w = vb
		}
		if scn == "rowov" {
			w[1] = sh
		} else {
			w[2] = sh
		}
		c.Vw = [][]int{va, vb, vr}
		total = la + rmax*cmax
	case "raSameB": // result = left operand, right operand a disjoint slice of the same array
		m = m1
		rmax, cmax := n+m, m+rng.Intn(2)
		va := []int{0, 0, 0, n, m, rmax, cmax, 0}
		vb := []int{0, n, 0, m, m, rmax, cmax, 0}
		c.Vw = [][]int{va, vb, append([]int{}, va...)}
		total = rmax * cmax
	case "mv":
		c.Op = 1
		va, la := pvFreshView(rng, 0, n, m, tr())
		vb, lb := pvFreshVec(rng, la, m)
		vr, lr := pvFreshVec(rng, la+lb, n)
		c.Vw = [][]int{va, vb, vr}
		total = la + lb + lr
	case "vm":
		c.Op = 2
		va, la := pvFreshVec(rng, 0, n)
		vb, lb := pvFreshView(rng, la, n, m, tr())
		vr, lr := pvFreshVec(rng, la+lb, m)
		c.Vw = [][]int{va, vb, vr}
		total = la + lb + lr
	}
	inp := make([]float64, total)
	for j := range inp {
		inp[j] = dy(rng, 8, 3)
	}
	c.Inp = hexList(inp)
	c.O = 1 + rng.Intn(2)
	pat := []string{"all", "subset", "rev"}[rng.Intn(3)]
	if total > 9 {
		pat = "subset"
	}
	c.Act, c.K = genAct(rng, total, pat, 4)
	return c
}
