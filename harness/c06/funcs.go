// Jacobian / Hessian helpers on a catalogue of functions (Coq twins: C06.Corr.vf / sf),
// and the routines without a closed model (QR algorithm, SVD, eigensystem, bi-/
// tridiagonalisation): values on Real64 input must equal the Float64 run.
package main

import (
	"fmt"
	"math"
	"time"

	. "adharness/common"

	ad "github.com/pbenner/autodiff"
	"github.com/pbenner/autodiff/algorithm/eigensystem"
	"github.com/pbenner/autodiff/algorithm/householderBidiagonalization"
	"github.com/pbenner/autodiff/algorithm/householderTridiagonalization"
	"github.com/pbenner/autodiff/algorithm/qrAlgorithm"
	"github.com/pbenner/autodiff/algorithm/svd"
)

// ---------------------------------------------------------------- function catalogue

var vfDims = [][2]int{{3, 3}, {2, 2}, {4, 3}} // (inputs, outputs)
var sfDims = []int{3, 2, 4}

func nr() *ad.Real64 { return ad.NewReal64(0.0) }

func vfGo(fid int) func(ad.ConstVector) ad.ConstVector {
	return func(x ad.ConstVector) ad.ConstVector {
		X := func(i int) ad.ConstScalar { return x.ConstAt(i) }
		switch fid {
		case 0:
			y0, y1, y2 := nr(), nr(), nr()
			y0.Mul(X(0), X(1))
			y0.Add(y0, X(2))
			y1.Div(X(0), X(1))
			y2.Sqrt(X(0))
			y2.Mul(y2, X(2))
			y2.Sub(y2, X(1))
			return ad.DenseReal64Vector{y0, y1, y2}
		case 1:
			y0, y1 := nr(), nr()
			y0.Mul(X(0), X(0))
			y1.Neg(X(1))
			return ad.DenseReal64Vector{y0, y1}
		default:
			y0, y1, y2, t1, t2, t3 := nr(), nr(), nr(), nr(), nr(), nr()
			t1.Mul(X(0), X(1))
			t2.Add(X(2), X(3))
			y0.Div(t1, t2)
			t3.Mul(X(3), X(3))
			y0.Sub(y0, t3)
			y1.Set(X(1))
			y2.Mul(X(2), X(0))
			return ad.DenseReal64Vector{y0, y1, y2}
		}
	}
}

func sfGo(fid int) func(ad.ConstVector) ad.ConstScalar {
	return func(x ad.ConstVector) ad.ConstScalar {
		X := func(i int) ad.ConstScalar { return x.ConstAt(i) }
		y, t, u := nr(), nr(), nr()
		switch fid {
		case 0:
			t.Mul(X(0), X(1))
			t.Div(t, X(2))
			u.Mul(X(2), X(2))
			y.Add(t, u)
		case 1:
			t.Mul(X(0), X(1))
			u.Sub(X(0), X(1))
			y.Mul(t, u)
		default:
			t.Mul(X(1), X(1))
			u.Mul(X(2), X(3))
			t.Add(t, u)
			y.Div(X(0), t)
		}
		return y
	}
}

// plain float64 twins (for the finite-difference oracle)
func vfFloat(fid int, x []float64) []float64 {
	switch fid {
	case 0:
		return []float64{x[0]*x[1] + x[2], x[0] / x[1], math.Sqrt(x[0])*x[2] - x[1]}
	case 1:
		return []float64{x[0] * x[0], -x[1]}
	}
	return []float64{x[0]*x[1]/(x[2]+x[3]) - x[3]*x[3], x[1], x[2] * x[0]}
}
func sfFloat(fid int, x []float64) float64 {
	switch fid {
	case 0:
		return x[0]*x[1]/x[2] + x[2]*x[2]
	case 1:
		return x[0] * x[1] * (x[0] - x[1])
	}
	return x[0] / (x[1]*x[1] + x[2]*x[3])
}

// runHelper calls the library's Jacobian / Hessian helper; returns the matrix, the maximal order
// found on the caller's vector afterwards, and the outcome
func runHelper(c *Case) (m [][]float64, xord int, outcome string) {
	x := unhexList(c.Inp)
	xv := ad.NewDenseReal64Vector(append([]float64{}, x...))
	var r ad.Matrix
	rows, cols := len(x), len(x)
	if c.Kind == "Jac" {
		rows = vfDims[c.Fid][1]
	}
	// receiver: P&1 = 0 Real64, 1 Float64; P&2: a RECYCLED result matrix holding non-zero entries from an
	// earlier use (every entry has to be overwritten, also those whose partial derivative is 0)
	if c.P&1 == 0 {
		r = ad.NullDenseReal64Matrix(rows, cols)
	} else {
		r = ad.NullDenseFloat64Matrix(rows, cols)
	}
	if c.P&2 != 0 {
		for i := 0; i < rows; i++ {
			for j := 0; j < cols; j++ {
				r.At(i, j).SetFloat64(float64(7*i-3*j) + 0.5)
			}
		}
	}
	outcome = "ok"
	func() {
		defer func() {
			if e := recover(); e != nil {
				outcome = "panic: " + fmt.Sprint(e)
			}
		}()
		if c.Kind == "Jac" {
			r.Jacobian(vfGo(c.Fid), xv)
		} else {
			r.Hessian(sfGo(c.Fid), xv)
		}
	}()
	for i := 0; i < xv.Dim(); i++ {
		if o := xv.ConstAt(i).GetOrder(); o > xord {
			xord = o
		}
	}
	m = make([][]float64, rows)
	for i := 0; i < rows; i++ {
		m[i] = make([]float64, cols)
		for j := 0; j < cols; j++ {
			m[i][j] = r.ConstAt(i, j).GetFloat64()
		}
	}
	return
}

// helperOracle: entries of the returned matrix against central finite differences of the float twin
func helperOracle(c *Case) string {
	x := unhexList(c.Inp)
	m, xord, oc := runHelper(c)
	if oc != "ok" {
		return fmt.Sprintf("%s helper (function %d): %s", c.Kind, c.Fid, oc)
	}
	if xord != 0 {
		return fmt.Sprintf("%s helper (function %d): the caller's vector was activated (order %d)", c.Kind, c.Fid, xord)
	}
	h := math.Ldexp(1, -14)
	at := func(i int, d float64) []float64 {
		y := append([]float64{}, x...)
		y[i] += d
		return y
	}
	if c.Kind == "Jac" {
		for j := range x {
			fp, fm := vfFloat(c.Fid, at(j, h)), vfFloat(c.Fid, at(j, -h))
			for i := range m {
				fd := (fp[i] - fm[i]) / (2 * h)
				if math.Abs(fd-m[i][j]) > 1e-5*(1+math.Abs(fd)) {
					return fmt.Sprintf("Jacobian helper (function %d): entry (%d,%d) = %v, finite difference of f_%d in x_%d: %v", c.Fid, i, j, m[i][j], i, j, fd)
				}
			}
		}
		return ""
	}
	for i := range x {
		for j := range x {
			pp := sfFloat(c.Fid, at2(x, i, h, j, h))
			pm := sfFloat(c.Fid, at2(x, i, h, j, -h))
			mp := sfFloat(c.Fid, at2(x, i, -h, j, h))
			mm := sfFloat(c.Fid, at2(x, i, -h, j, -h))
			fd := (pp - pm - mp + mm) / (4 * h * h)
			if math.Abs(fd-m[i][j]) > 1e-3*(1+math.Abs(fd)) {
				return fmt.Sprintf("Hessian helper (function %d): entry (%d,%d) = %v, second finite difference: %v", c.Fid, i, j, m[i][j], fd)
			}
		}
	}
	return ""
}
func at2(x []float64, i int, di float64, j int, dj float64) []float64 {
	y := append([]float64{}, x...)
	y[i] += di
	y[j] += dj
	return y
}

func genHelper(rng *Rng, i int) *Case {
	fid := rng.Intn(3)
	kind := "Jac"
	m := vfDims[fid][0]
	if i%2 == 1 {
		kind = "Hes"
		m = sfDims[fid]
	}
	x := make([]float64, m)
	for j := range x {
		x[j] = 0.5 + float64(rng.Range(0, 40))/16
		if rng.Intn(4) == 0 {
			x[j] = 0.5 + 2.5*rng.Float()
		}
	}
	return &Case{Kind: kind, Fid: fid, Inp: hexList(x), P: i % 8 / 2} // P: 0 = Real64 receiver, 1 = Float64 receiver, 2 / 3 = the same, recycled with non-zero content
}

func (rn *runner) helperCase(c *Case) {
	x := unhexList(c.Inp)
	m, xord, outcome := runHelper(c)
	rowsT := make([]string, len(m))
	for i := range m {
		rowsT[i] = FList(m[i])
	}
	if outcome != "ok" {
		xord = 99
	}
	k := "KJac"
	if c.Kind == "Hes" {
		k = "KHes"
	}
	rn.w.Count(fmt.Sprintf("%s:f%d:recv%d", c.Kind, c.Fid, c.P))
	rn.w.Add(fmt.Sprintf("(%s %d %s %s %d)", k, c.Fid, FList(x), List(rowsT), xord), c, c.key(), true)
}

// ---------------------------------------------------------------- routines without a closed model

var eqNames = []string{"qrAlgorithm", "svd", "eigensystem", "tridiag", "bidiag"}

func genEq(rng *Rng, i int) *Case {
	tag := i % len(eqNames)
	n := rng.Range(2, 5)
	var inp []float64
	d := []int{n}
	switch tag {
	case 1, 4:
		m := rng.Range(1, n)
		d = []int{n, m}
		inp = genInput(rng, PGS, d, "dd")
	default:
		inp = genSquare(rng, "spd", n)
	}
	return &Case{Kind: "Eq", P: tag, D: d, Inp: hexList(inp)}
}

func runEq(tag int, d []int, inp []float64, real bool) (vals []float64, outcome string) {
	type res struct {
		v []float64
		o string
	}
	ch := make(chan res, 1)
	go func() {
		r := res{o: "ok"}
		defer func() {
			if e := recover(); e != nil {
				r = res{o: "panic"}
			}
			ch <- r
		}()
		add := func(m ad.ConstMatrix) {
			if m != nil {
				r.v = append(r.v, values(constMat(m))...)
			}
		}
		switch tag {
		case 0:
			M := mkMat(real, inp, d[0], d[0])
			H, U, err := qrAlgorithm.Run(M, qrAlgorithm.ComputeU{Value: true}, qrAlgorithm.Symmetric{Value: true})
			if err != nil {
				r.o = "error"
				return
			}
			add(H)
			add(U)
		case 1:
			M := mkMat(real, inp, d[0], d[1])
			S, U, V, err := svd.Run(M, svd.ComputeU{Value: true}, svd.ComputeV{Value: true})
			if err != nil {
				r.o = "error"
				return
			}
			add(S)
			add(U)
			add(V)
		case 2:
			M := mkMat(real, inp, d[0], d[0])
			e, v, err := eigensystem.Run(M, eigensystem.ComputeEigenvectors{Value: true}, eigensystem.Symmetric{Value: true})
			if err != nil {
				r.o = "error"
				return
			}
			r.v = append(r.v, values(constVec(e))...)
			add(v)
		case 3:
			M := mkMat(real, inp, d[0], d[0])
			T, U, err := householderTridiagonalization.Run(M, householderTridiagonalization.ComputeU{Value: true})
			if err != nil {
				r.o = "error"
				return
			}
			add(T)
			add(U)
		default:
			M := mkMat(real, inp, d[0], d[1])
			B, U, V, err := householderBidiagonalization.Run(M, householderBidiagonalization.ComputeU{Value: true},
				householderBidiagonalization.ComputeV{Value: true})
			if err != nil {
				r.o = "error"
				return
			}
			add(B)
			add(U)
			add(V)
		}
	}()
	select {
	case r := <-ch:
		return r.v, r.o
	case <-time.After(5 * time.Second):
		return nil, "timeout"
	}
}

func (rn *runner) eqCase(c *Case) {
	inp := unhexList(c.Inp)
	fv, fo := runEq(c.P, c.D, inp, false)
	gv, g := runEq(c.P, c.D, inp, true)
	rn.w.Count("Eq:" + eqNames[c.P] + ":" + fo + "/" + g)
	if fo == "timeout" || g == "timeout" {
		// a deadline is not an observable of the property (robust to machine load): nothing to compare
		fv, gv = nil, nil
	} else if fo != "ok" && fo == g {
		// both paths fail in the same way: nothing to compare (factorization defects are C05's)
		fv, gv = nil, nil
	} else if fo != g {
		fv, gv = []float64{1}, []float64{2}
	}
	rn.w.Add(fmt.Sprintf("(KEq %d %s %s)", c.P, FList(fv), FList(gv)), c, c.key(), fo == "ok")
}
