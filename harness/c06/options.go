// Round 5: option combinations x type dispatch x factor buffers.
//
// One "O" case = one ROW GROUP of the dispatch table: a routine with hand-specialised kernels (or one that
// reaches them: matrixInverse, determinant), one option set (LDL x ForcePD; UpperTriangular x Submatrix;
// PositiveDefinite x UpperTriangular x Submatrix; PositiveDefinite), one InSitu mode (none / garbage /
// left-overs of an earlier call with ANOTHER option set / in place) and one data set, run through
//   - the specialised kernel (plain Float64 / Float32 containers),
//   - the generic kernel with IDENTICAL element arithmetic: a wrapper type around the very same container
//     defeats one concrete-type assertion of Run at a time (input a, InSitu.L, InSitu.D, x, b) or a foreign
//     scalar type sits in InSitu.S,
//   - the generic kernel on the magic element type (Real64 / Real32, nothing activated).
// All runs are compared with the model term of the option set (Coq: C06.ModelOpt.opt_prog) and with each
// other; factors AND error status.  "OD" cases: the magic run with activated entries against the jet model.
package main

import (
	"fmt"
	"math"

	. "adharness/common"

	ad "github.com/pbenner/autodiff"
	"github.com/pbenner/autodiff/algorithm/cholesky"
	"github.com/pbenner/autodiff/algorithm/determinant"
	"github.com/pbenner/autodiff/algorithm/gaussJordan"
	"github.com/pbenner/autodiff/algorithm/matrixInverse"
)

// wrapper types: every method is promoted from the embedded interface value, the dynamic type is not
// *DenseFloat64Matrix / DenseFloat64Vector any more
type wrapMat struct{ ad.Matrix }
type wrapVec struct{ ad.Vector }

const (
	RChol = iota
	RGJ
	RInv
	RDet
)

var routName = []string{"cholesky.Run", "gaussJordan.Run", "matrixInverse.Run", "determinant.Run"}

const (
	VPlain    = iota
	VWrapA    // the input matrix (cholesky / determinant / PD inverse: a; gaussJordan: a; inverse: InSitu.A)
	VWrapL    // InSitu.L (cholesky), x (gaussJordan), InSitu.Id (inverse)
	VWrapD    // InSitu.D (cholesky LDL), b (gaussJordan)
	VForeignS // InSitu.S of the magic scalar type (cholesky)
	nVariants
)

var varName = []string{"plain", "wrapped a", "wrapped L/x/Id", "wrapped D/b", "foreign S"}

func optName(r, opt int) string {
	b := func(i int) bool { return opt>>uint(i)&1 == 1 }
	switch r {
	case RChol:
		return fmt.Sprintf("LDL=%v,ForcePD=%v", b(0), b(1))
	case RGJ:
		return fmt.Sprintf("UpperTriangular=%v", b(0))
	case RInv:
		return fmt.Sprintf("PositiveDefinite=%v,UpperTriangular=%v", b(0), b(1))
	}
	return fmt.Sprintf("PositiveDefinite=%v", b(0))
}

// does the variant exist for the routine / option set / element type
func variantOK(r, opt, v int) bool {
	switch r {
	case RChol:
		if v == VWrapD {
			return opt&1 == 1
		}
		return true
	case RGJ:
		return v <= VWrapD
	case RInv:
		return v <= VWrapL
	case RDet:
		return v <= VWrapA && (v == VPlain || opt&1 == 1)
	}
	return false
}

// does the generic kernel that the variant reaches take its square roots through Scalar.Sqrt = math.Pow(x, 0.5)
func variantPow(r, opt, v int, et int, msk []int) bool {
	if etMagic(et) {
		return true
	}
	switch r {
	case RChol:
		return v != VPlain
	case RInv:
		// (with a Submatrix the input is first copied into InSitu.A, which is not wrapped)
		return opt&1 == 1 && v == VWrapA && len(msk) == 0 // wrapped input: generic Cholesky; wrapped Id: generic Gauss-Jordan only
	case RDet:
		return v == VWrapA
	}
	return false
}

func optSqrtful(r, opt int) bool {
	switch r {
	case RChol:
		return opt&1 == 0
	case RInv, RDet:
		return opt&1 == 1
	}
	return false
}

const fpdLiteral = 1e-20

// model input of an option case: the ForcePD program takes the two literals of the source first
func optModelInput(r, opt int, inp []float64) []float64 {
	if r == RChol && opt&3 == 3 {
		return append([]float64{fpdLiteral, fpdLiteral}, inp...)
	}
	return inp
}
func optModelAct(r, opt int, act []int) []int {
	if r == RChol && opt&3 == 3 {
		return append([]int{-1, -1}, act...)
	}
	return act
}

func maskOf(n int, msk []int) []bool {
	if len(msk) == 0 {
		return nil
	}
	m := make([]bool, n)
	for i := range m {
		m[i] = msk[i] != 0
	}
	return m
}

func garbMat(g *garb, et int, n int) ad.Matrix {
	m := ad.NullDenseMatrix(etypeT(et), n, n)
	for i := 0; i < n; i++ {
		for j := 0; j < n; j++ {
			g.scalar(m.At(i, j))
		}
	}
	return m
}
func garbVec(g *garb, et int, n int) ad.Vector {
	v := ad.NullDenseVector(etypeT(et), n)
	for i := 0; i < n; i++ {
		g.scalar(v.At(i))
	}
	return v
}
func garbScalar(g *garb, et int) ad.Scalar {
	s := ad.NewScalar(etypeT(et), 0.0)
	g.scalar(s)
	return s
}

func cholArgs(opt int) []interface{} {
	var a []interface{}
	// pass both options explicitly, also with Value false (the flag, not the presence, decides)
	a = append(a, cholesky.LDL{Value: opt&1 == 1})
	a = append(a, cholesky.ForcePD{Value: opt&2 == 2})
	return a
}

func symInput(rng *Rng, n int) []float64 {
	fams := []string{"spd", "notpd", "sing", "indef", "offdom"}
	return genSym(rng, fams[rng.Intn(len(fams))], n)
}

// symmetric inputs on which the options matter
func genSym(rng *Rng, fam string, n int) []float64 {
	a := make([]float64, n*n)
	switch fam {
	case "sing": // B B' with B n x (n-1), small integers: exactly singular positive semi-definite
		m := n - 1
		if m < 1 {
			return a // [[0]]
		}
		b := make([]float64, n*m)
		for i := range b {
			b[i] = float64(rng.Range(-2, 2))
		}
		if n > 2 && rng.Intn(2) == 0 { // a zero row: zero pivot in the middle
			r := rng.Intn(n)
			for k := 0; k < m; k++ {
				b[r*m+k] = 0
			}
		}
		for i := 0; i < n; i++ {
			for j := 0; j < n; j++ {
				s := 0.0
				for k := 0; k < m; k++ {
					s += b[i*m+k] * b[j*m+k]
				}
				a[i*n+j] = s
			}
		}
	case "indef": // symmetric, diagonal of any sign, zeros
		for i := 0; i < n; i++ {
			for j := 0; j <= i; j++ {
				v := dy(rng, 4, 2)
				if rng.Intn(5) == 0 {
					v = 0
				}
				a[i*n+j] = v
				a[j*n+i] = v
			}
		}
	case "offdom": // small diagonal, larger off-diagonal entries of varied size, growing or shrinking along the rows:
		// ForcePD's beta comes from the off-diagonal maximum and (theta/beta)^2 beats |c_jj|
		for i := 0; i < n; i++ {
			for j := 0; j < i; j++ {
				v := float64(rng.Range(1, 8)) * (0.5 + float64(rng.Intn(3))/2)
				if rng.Intn(2) == 0 {
					v = -v
				}
				a[i*n+j] = v
				a[j*n+i] = v
			}
			a[i*n+i] = dy(rng, 16, 1) / 4
		}
	case "negdef":
		a = genSquare(rng, "spd", n)
		for i := range a {
			a[i] = -a[i]
		}
	default:
		a = genSquare(rng, fam, n)
	}
	return a
}

// runOpt executes routine r with option bits opt on element type et through variant v, InSitu mode rec.
// act/k/o: activation (magic types only).
func runOpt(r, opt int, n int, msk []int, inp []float64, et int, v int, rec int, rseed uint64, act []int, k, o int) (outs []ad.ConstScalar, outcome string) {
	defer func() {
		if rc := recover(); rc != nil {
			outs = nil
			outcome = "panic: " + fmt.Sprint(rc)
		}
	}()
	rng := NewRng(rseed*7919 + 13)
	magic := etMagic(et)
	gk := 0
	if magic {
		gk = k
		if gk == 0 {
			gk = 1 + rng.Intn(3)
		}
	}
	g := &garb{rng: rng, k2: gk, o2: 1}
	foreign := func() ad.Scalar {
		if et32(et) {
			return ad.NewScalar(ad.Real32Type, 0.0)
		}
		return ad.NewScalar(ad.Real64Type, 0.0)
	}
	wrapM := func(m ad.Matrix, on bool) ad.Matrix {
		if on {
			return wrapMat{m}
		}
		return m
	}
	// an earlier matrix of the same shape, activated (magic types) on the first entries at order 1
	earlier := func(m int) ([]float64, []int) {
		inp2 := symInput(rng, n)
		if r == RGJ || (r == RInv && opt&1 == 0) {
			inp2 = genSquare(rng, "dd", n)
		}
		if et32(et) {
			inp2 = round32(inp2)
		}
		var act2 []int
		if magic {
			act2 = make([]int, len(inp2))
			for i := range act2 {
				act2[i] = -1
				if i < gk {
					act2[i] = i
				}
			}
		}
		return inp2, act2
	}
	_ = earlier
	switch r {
	case RChol:
		A := mkMatT(et, inp, n, n)
		activate(matScalars(A), act, k, o)
		is := &cholesky.InSitu{}
		need := false
		switch rec {
		case 1:
			is.L, is.D, is.S, is.T = garbMat(g, et, n), garbMat(g, et, n), garbScalar(g, et), garbScalar(g, et)
			need = true
		case 2: // the left-overs of a call with another option set on another matrix
			inp2, act2 := earlier(n * n)
			A2 := mkMatT(et, inp2, n, n)
			activate(matScalars(A2), act2, gk, 1)
			opt2 := (opt + 1 + int(rseed%3)) & 3
			if v == VWrapL {
				is.L = wrapMat{ad.NullDenseMatrix(etypeT(et), n, n)}
			}
			if v == VWrapD {
				is.D = wrapMat{ad.NullDenseMatrix(etypeT(et), n, n)}
			}
			if v == VForeignS {
				is.S = foreign()
			}
			func() {
				defer func() { recover() }()
				cholesky.Run(A2, append(cholArgs(opt2), is)...)
			}()
			if is.D == nil || rseed%2 == 0 { // D as a dense former factor
				is.D = garbMat(g, et, n)
				if v == VWrapD {
					is.D = wrapMat{is.D}
				}
			}
			need = true
		case 3:
			is.L = A
			need = true
		}
		switch v {
		case VWrapL:
			if is.L == nil {
				is.L = ad.NullDenseMatrix(etypeT(et), n, n)
			}
			if _, ok := is.L.(wrapMat); !ok {
				is.L = wrapMat{is.L}
			}
			need = true
		case VWrapD:
			if is.D == nil {
				is.D = ad.NullDenseMatrix(etypeT(et), n, n)
			}
			if _, ok := is.D.(wrapMat); !ok {
				is.D = wrapMat{is.D}
			}
			need = true
		case VForeignS:
			if is.S == nil || rec == 1 {
				is.S = foreign()
			}
			need = true
		}
		args := cholArgs(opt)
		if need {
			args = append(args, is)
		}
		L, D, err := cholesky.Run(wrapM(A, v == VWrapA), args...)
		if err != nil {
			return nil, "error"
		}
		if opt&1 == 1 {
			return append(constMat(L), constMat(D)...), "ok"
		}
		return constMat(L), "ok"
	case RGJ:
		a := mkMatT(et, inp[:n*n], n, n)
		x := mkMatT(et, inp[n*n:2*n*n], n, n)
		b := mkVecT(et, inp[2*n*n:])
		activate(append(append(matScalars(a), matScalars(x)...), vecScalars(b)...), act, k, o)
		args := []interface{}{gaussJordan.UpperTriangular{Value: opt&1 == 1}}
		if m := maskOf(n, msk); m != nil {
			args = append(args, gaussJordan.Submatrix{Value: m})
		}
		var bb ad.Vector = b
		if v == VWrapD {
			bb = wrapVec{b}
		}
		if err := gaussJordan.Run(wrapM(a, v == VWrapA), wrapM(x, v == VWrapL), bb, args...); err != nil {
			return nil, "error"
		}
		return append(append(constMat(a), constMat(x)...), constVec(b)...), "ok"
	case RInv:
		A := mkMatT(et, inp, n, n)
		activate(matScalars(A), act, k, o)
		is := &matrixInverse.InSitu{}
		need := false
		switch rec {
		case 1:
			is.Id, is.A, is.B = garbMat(g, et, n), garbMat(g, et, n), garbVec(g, et, n)
			is.Cholesky.L, is.Cholesky.D, is.Cholesky.S, is.Cholesky.T = garbMat(g, et, n), garbMat(g, et, n), garbScalar(g, et), garbScalar(g, et)
			need = true
		case 2:
			inp2, act2 := earlier(n * n)
			A2 := mkMatT(et, inp2, n, n)
			activate(matScalars(A2), act2, gk, 1)
			opt2 := (opt + 1 + int(rseed%3)) & 3
			func() {
				defer func() { recover() }()
				matrixInverse.Run(A2, is, matrixInverse.PositiveDefinite{Value: opt2&1 == 1}, matrixInverse.UpperTriangular{Value: opt2&2 == 2})
			}()
			need = true
		}
		pd := opt&1 == 1
		var in ad.ConstMatrix = A
		switch v {
		case VWrapA:
			if pd {
				in = wrapMat{A}
			} else {
				if is.A == nil {
					is.A = ad.NullDenseMatrix(etypeT(et), n, n)
				}
				is.A = wrapMat{is.A}
				need = true
			}
		case VWrapL:
			if is.Id == nil {
				is.Id = ad.NullDenseMatrix(etypeT(et), n, n)
			}
			is.Id = wrapMat{is.Id}
			need = true
		}
		args := []interface{}{matrixInverse.PositiveDefinite{Value: pd}, matrixInverse.UpperTriangular{Value: opt&2 == 2}}
		if m := maskOf(n, msk); m != nil {
			args = append(args, gaussJordan.Submatrix{Value: m})
		}
		if need {
			args = append(args, is)
		}
		X, err := matrixInverse.Run(in, args...)
		if err != nil {
			return nil, "error"
		}
		return constMat(X), "ok"
	case RDet:
		A := mkMatT(et, inp, n, n)
		activate(matScalars(A), act, k, o)
		is := &determinant.InSitu{}
		need := false
		switch rec {
		case 1:
			is.Cholesky.L, is.Cholesky.D, is.Cholesky.S, is.Cholesky.T = garbMat(g, et, n), garbMat(g, et, n), garbScalar(g, et), garbScalar(g, et)
			need = true
		case 2:
			inp2, act2 := earlier(n * n)
			A2 := mkMatT(et, inp2, n, n)
			activate(matScalars(A2), act2, gk, 1)
			func() {
				defer func() { recover() }()
				cholesky.Run(A2, append(cholArgs(1+int(rseed%2)*2), &is.Cholesky)...)
			}()
			need = true
		}
		args := []interface{}{determinant.PositiveDefinite{Value: opt&1 == 1}}
		if need {
			args = append(args, is)
		}
		d, err := determinant.Run(wrapM(A, v == VWrapA), args...)
		if err != nil {
			return nil, "error"
		}
		return []ad.ConstScalar{d}, "ok"
	}
	Die("unknown routine %d", r)
	return nil, ""
}

func optInputLen(r, n int) int {
	if r == RGJ {
		return 2*n*n + n
	}
	return n * n
}

func etsFor(w int) (fast, gen int) {
	if w == 32 {
		return ETFloat32, ETReal32
	}
	return ETFloat64, ETReal64
}

// is the model of the option set replayed at this width (the Float32 ForcePD kernels compute beta, theta and
// the pivot in float64 and round once: not the every-operation-rounded carrier of Model32.v)
func optModelled(r, opt, w int) bool {
	return !(w == 32 && r == RChol && opt&3 == 3)
}

func dlist(n int, msk []int) []int { return append([]int{n}, msk...) }

// value rows
func (rn *runner) optCase(c *Case) {
	inp := unhexList(c.Inp)
	n := c.D[0]
	fastET, genET := etsFor(c.W)
	fo, fk := runOpt(c.R, c.Opt, n, c.Msk, inp, fastET, VPlain, c.Rec, c.Rseed, nil, 0, 0)
	var gens []string
	for v := VWrapA; v < nVariants; v++ {
		if !variantOK(c.R, c.Opt, v) {
			continue
		}
		o, k := runOpt(c.R, c.Opt, n, c.Msk, inp, fastET, v, c.Rec, c.Rseed, nil, 0, 0)
		gens = append(gens, fmt.Sprintf("(%s, %s)", B(variantPow(c.R, c.Opt, v, fastET, c.Msk)), optList(values(o), k == "ok")))
		rn.w.Count("O:variant:" + varName[v])
		rn.w.Count("O:outcome:" + outcomeClass(fk) + "/" + outcomeClass(k))
	}
	ro, rk := runOpt(c.R, c.Opt, n, c.Msk, inp, genET, VPlain, c.Rec, c.Rseed, nil, 0, 0)
	gens = append(gens, fmt.Sprintf("(true, %s)", optList(values(ro), rk == "ok")))
	term := fmt.Sprintf("(KO %d %s %d %d %s %s %s %s)", widthOf(c.W), B(optModelled(c.R, c.Opt, c.W)), c.R, c.Opt, natList(dlist(n, c.Msk)),
		FList(optModelInput(c.R, c.Opt, inp)), optList(values(fo), fk == "ok"), List(gens))
	rn.w.Count("O:" + routName[c.R] + "(" + optName(c.R, c.Opt) + ")")
	rn.w.Count(fmt.Sprintf("O:width%d", widthOf(c.W)))
	rn.w.Count("O:insitu:" + []string{"none", "garbage", "earlier call, other options", "in place"}[c.Rec])
	rn.w.Count("O:outcome(fast/magic):" + outcomeClass(fk) + "/" + outcomeClass(rk))
	rn.w.Count("O:family:" + c.Fam)
	rn.w.Add(term, c, c.key()+fmt.Sprintf("|r%d|o%d|%v", c.R, c.Opt, c.Msk), n >= 2)
}

func widthOf(w int) int {
	if w == 32 {
		return 32
	}
	return 64
}

// derivative rows: magic element type with activated entries
func (rn *runner) optDerivCase(c *Case) {
	inp := unhexList(c.Inp)
	n := c.D[0]
	_, genET := etsFor(c.W)
	outs, oc := runOpt(c.R, c.Opt, n, c.Msk, inp, genET, VPlain, c.Rec, c.Rseed, c.Act, c.K, c.O)
	var sl []Slot
	if oc == "ok" {
		sl, oc = slots(outs, c.K, c.O)
	}
	outT := "None"
	if oc == "ok" {
		ts := make([]string, len(sl))
		for i, s := range sl {
			ts[i] = slotTerm(s)
		}
		outT = "(Some " + List(ts) + ")"
	}
	term := fmt.Sprintf("(KOD %d %s %d %d %s %d %d %s %s %s)", widthOf(c.W), B(c.Rec != 0), c.R, c.Opt, natList(dlist(n, c.Msk)), c.K, c.O,
		B(optSqrtful(c.R, c.Opt)), specTerm(optModelInput(c.R, c.Opt, inp), optModelAct(c.R, c.Opt, c.Act)), outT)
	rn.w.Count("OD:" + routName[c.R] + "(" + optName(c.R, c.Opt) + ")")
	rn.w.Count(fmt.Sprintf("OD:order%d", c.O))
	rn.w.Count("OD:outcome:" + outcomeClass(oc))
	rn.w.Count("OD:insitu:" + []string{"none", "garbage", "earlier call, other options", "in place"}[c.Rec])
	nz := false
	for _, s := range sl {
		for _, g := range s.G {
			if g != 0 {
				nz = true
			}
		}
	}
	rn.w.Add(term, c, c.key()+fmt.Sprintf("|r%d|o%d|%v", c.R, c.Opt, c.Msk), nz)
}

func genMask(rng *Rng, n int) []int {
	m := make([]int, n)
	some := false
	for i := range m {
		if rng.Intn(3) != 0 {
			m[i] = 1
			some = true
		}
	}
	if !some {
		m[rng.Intn(n)] = 1
	}
	return m
}

// input of an option case
func genOptInput(rng *Rng, r, opt, n int, fam string) []float64 {
	switch r {
	case RGJ:
		x := identityFlat(n)
		if rng.Intn(3) == 0 {
			x = genSquare(rng, "int", n)
		}
		var a []float64
		if fam == "sing" {
			a = genSquare(rng, "int", n)
			if n > 1 { // two equal rows
				i, j := 0, 1+rng.Intn(n-1)
				copy(a[j*n:(j+1)*n], a[i*n:(i+1)*n])
			}
		} else {
			a = genSquare(rng, fam, n)
		}
		return append(append(a, x...), genVec(rng, n)...)
	case RInv:
		if opt&1 == 1 {
			return genSym(rng, fam, n)
		}
		if fam == "sing" {
			a := genSquare(rng, "int", n)
			if n > 1 {
				j := 1 + rng.Intn(n-1)
				copy(a[j*n:(j+1)*n], a[0:n])
			}
			return a
		}
		return genSquare(rng, fam, n)
	}
	return genSym(rng, fam, n)
}

func optFamilies(r, opt int) []string {
	switch r {
	case RChol, RDet:
		if r == RDet && opt&1 == 0 {
			return []string{"dd", "int"}
		}
		if r == RChol && opt&2 == 2 {
			return []string{"offdom", "notpd", "sing", "offdom", "indef", "negdef", "spd", "offdom"}
		}
		return []string{"spd", "spdrand", "notpd", "sing", "indef", "negdef"}
	case RGJ:
		// the UpperTriangular kernel on a FULL matrix ignores the lower triangle: the option matters
		return []string{"dd", "piv", "tie", "ut", "sing", "int"}
	}
	if opt&1 == 1 {
		return []string{"spd", "notpd", "sing", "indef"}
	}
	return []string{"dd", "piv", "ut", "sing"}
}

// every row group of the dispatch table, every InSitu mode, both widths; deterministic enumeration with
// random data
func generateOptions(rng *Rng, n int) []*Case {
	var cs []*Case
	type rg struct{ r, opt int }
	groups := []rg{{RChol, 0}, {RChol, 1}, {RChol, 2}, {RChol, 3}, {RGJ, 0}, {RGJ, 1}, {RInv, 0}, {RInv, 1}, {RInv, 2}, {RInv, 3}, {RDet, 0}, {RDet, 1}}
	reps := n / 140
	if reps < 1 {
		reps = 1
	}
	idx := 0
	for rep := 0; rep < reps; rep++ {
		for _, g := range groups {
			recs := []int{0, 1, 2, 3}
			if g.r == RGJ {
				recs = []int{0, 0}
			} else if g.r != RChol {
				recs = []int{0, 1, 2}
			}
			for _, rec := range recs {
				if rec == 3 && g.opt&3 == 3 {
					// ForcePD writes L[j,j] = 1 before it reads a[j,j]: InSitu.L = a is not a use the kernel supports
					// (fast and generic alike); a second garbage run instead
					rec = 1
				}
				for _, w := range []int{64, 32} {
					idx++
					fams := optFamilies(g.r, g.opt)
					fam := fams[(idx+rep)%len(fams)]
					nn := 2 + rng.Intn(3)
					if rep%4 == 3 {
						nn = 1 + rng.Intn(6)
					}
					var msk []int
					if (g.r == RGJ || g.r == RInv) && idx%3 == 0 {
						msk = genMask(rng, nn)
					}
					inp := genOptInput(rng, g.r, g.opt, nn, fam)
					if w == 32 {
						inp = round32(inp)
					}
					rseed := rng.U64() % 1000000
					wf := 0
					if w == 32 {
						wf = 32
					}
					cs = append(cs, &Case{Kind: "O", R: g.r, Opt: g.opt, D: []int{nn}, Msk: msk, Inp: hexList(inp), Fam: fam, Rec: rec, Rseed: rseed, W: wf})
					// derivative rows for the Cholesky family and its users (every second group visit at order 2)
					if g.r == RChol || (g.r != RGJ && g.opt&1 == 1) {
						o := 1 + (idx/2)%2
						dn := nn
						if dn > 3 {
							dn = 3
						}
						dfam := fam
						if optSqrtful(g.r, g.opt) && (dfam == "sing" || dfam == "indef" || dfam == "offdom") {
							// an exactly zero (or 2^-52) pivot under a square root: values Inf / NaN, no derivative to speak of (and
							// 0 * Inf depends on whether a constant temporary still counts as active); the value rows keep these
							// families on every path, the derivative rows use them for the LDL kernels only
							dfam = []string{"notpd", "spd"}[idx%2]
						}
						dinp := genOptInput(rng, g.r, g.opt, dn, dfam)
						if optSqrtful(g.r, g.opt) {
							// a zero pivot can also come out of the other families (e.g. a leading 0 entry): no derivative
							// row where the plain run returns Inf / NaN (see above)
							fastET, _ := etsFor(wf)
							if fo, fk := runOpt(g.r, g.opt, dn, nil, dinp, fastET, VPlain, 0, 0, nil, 0, 0); fk == "ok" && !allFinite(values(fo)) {
								dfam = "spd"
								dinp = genOptInput(rng, g.r, g.opt, dn, dfam)
							}
						}
						if w == 32 {
							dinp = round32(dinp)
						}
						pat := []string{"all", "subset", "rev"}[rng.Intn(3)]
						if o == 2 && len(dinp) > 6 {
							pat = "subset"
						}
						act, k := genAct(rng, len(dinp), pat, 4)
						if optModelled(g.r, g.opt, w) {
							cs = append(cs, &Case{Kind: "OD", R: g.r, Opt: g.opt, D: []int{dn}, Inp: hexList(dinp), Act: act, K: k, O: o, Fam: dfam, Rec: rec, Rseed: rseed, W: wf, Tag: pat})
						}
					}
				}
			}
		}
	}
	return cs
}

// ---------------------------------------------------------------- property-level oracle for the option rows
// (model independent): every path returns the same outcome class and the same numbers as the specialised
// kernel on a FRESH call; on the magic type the values agree as well.
func optOracle(c *Case) string {
	inp := unhexList(c.Inp)
	n := c.D[0]
	fastET, genET := etsFor(c.W)
	name := fmt.Sprintf("%s(%s) on %s", routName[c.R], optName(c.R, c.Opt), etName[fastET])
	fo, fk := runOpt(c.R, c.Opt, n, c.Msk, inp, fastET, VPlain, 0, 0, nil, 0, 0)
	cmp := func(what string, o []ad.ConstScalar, k string) string {
		if outcomeClass(k) != outcomeClass(fk) {
			return fmt.Sprintf("%s: %s: %s, the specialised kernel on a fresh call: %s", name, what, k, fk)
		}
		if fk != "ok" {
			return ""
		}
		fv, gv := values(fo), values(o)
		if len(fv) != len(gv) {
			return fmt.Sprintf("%s: %s: %d outputs, specialised kernel %d", name, what, len(gv), len(fv))
		}
		for i := range fv {
			if !sameNumber(fv[i], gv[i]) {
				return fmt.Sprintf("%s: %s: output %d is %v, the specialised kernel on a fresh call returns %v", name, what, i, gv[i], fv[i])
			}
		}
		return ""
	}
	insitu := []string{"no InSitu", "recycled InSitu (garbage)", "recycled InSitu (earlier call with other options)", "in place"}[c.Rec]
	for v := VPlain; v < nVariants; v++ {
		if !variantOK(c.R, c.Opt, v) {
			continue
		}
		o, k := runOpt(c.R, c.Opt, n, c.Msk, inp, fastET, v, c.Rec, c.Rseed, nil, 0, 0)
		if f := cmp(varName[v]+", "+insitu, o, k); f != "" {
			return f
		}
	}
	o, k := runOpt(c.R, c.Opt, n, c.Msk, inp, genET, VPlain, c.Rec, c.Rseed, nil, 0, 0)
	if f := cmp(etName[genET]+" containers, "+insitu, o, k); f != "" {
		return f
	}
	if c.Kind == "OD" && fk == "ok" && optSqrtful(c.R, c.Opt) && !allFinite(values(fo)) {
		return "" // zero pivot under a square root: values compared above, no derivative claim at such a point
	}
	if c.Kind == "OD" {
		// recycled magic run = fresh magic run, slot by slot
		o1, k1 := runOpt(c.R, c.Opt, n, c.Msk, inp, genET, VPlain, c.Rec, c.Rseed, c.Act, c.K, c.O)
		o2, k2 := runOpt(c.R, c.Opt, n, c.Msk, inp, genET, VPlain, 0, 0, c.Act, c.K, c.O)
		if outcomeClass(k1) != outcomeClass(k2) {
			return fmt.Sprintf("%s: %s containers (k=%d, order %d), %s: %s, a fresh call: %s", name, etName[genET], c.K, c.O, insitu, k1, k2)
		}
		if k1 == "ok" {
			s1, q1 := slots(o1, c.K, c.O)
			s2, q2 := slots(o2, c.K, c.O)
			if q1 != q2 {
				return fmt.Sprintf("%s: %s containers, %s: reading the slots: %s, after a fresh call: %s", name, etName[genET], insitu, q1, q2)
			}
			for r := range s2 {
				if !sameNumber(s1[r].V, s2[r].V) {
					return fmt.Sprintf("%s: %s containers, %s: output %d value %v, a fresh call returns %v", name, etName[genET], insitu, r, s1[r].V, s2[r].V)
				}
				for i := range s2[r].G {
					if !sameNumber(s1[r].G[i], s2[r].G[i]) {
						return fmt.Sprintf("%s: %s containers, %s: output %d derivative %d is %v, a fresh call returns %v", name, etName[genET], insitu, r, i, s1[r].G[i], s2[r].G[i])
					}
					for j := range s2[r].H {
						if !sameNumber(s1[r].H[i][j], s2[r].H[i][j]) {
							return fmt.Sprintf("%s: %s containers, %s: output %d Hessian (%d,%d) is %v, a fresh call returns %v", name, etName[genET], insitu, r, i, j, s1[r].H[i][j], s2[r].H[i][j])
						}
					}
				}
			}
		}
	}
	return ""
}

// shrink an option case: smaller leading blocks of the same data, then no InSitu
func optShrink(c *Case) *Case {
	best := c
	if c.R != RGJ && len(c.Msk) == 0 {
		inp := unhexList(c.Inp)
		n := c.D[0]
		for m := 1; m < n; m++ {
			sub := make([]float64, 0, m*m)
			for i := 0; i < m; i++ {
				sub = append(sub, inp[i*n:i*n+m]...)
			}
			d := *c
			d.D = []int{m}
			d.Inp = hexList(sub)
			d.Kind = "O"
			d.Act, d.K, d.O = nil, 0, 0
			if optOracle(&d) != "" {
				best = &d
				break
			}
		}
	}
	if best.Rec != 0 {
		d := *best
		d.Rec = 0
		if optOracle(&d) != "" {
			best = &d
		}
	}
	return best
}

var _ = math.Abs
