// C16 harness, round 5 (mode --extra round5[:corpus]): NESTED EM estimators on data with repeats.
// A configuration tree (outer: MixtureEstimator / DiscreteMixtureEstimator / vector HmmEstimator; components:
// closed-form leaves or MixtureEstimator / DiscreteMixtureEstimator over leaves; leaves Poisson / categorical /
// normal) is run twice on the real code: as given ("run") and with every summary erased ("ref").
// Writes r5_<k>.v shards for coq/C16/Corr5.v, exp-table certificates cert_r5_<k>_<part>.v, r5.jsonl, r5.meta.json.
// Also: NewMixtureSummarizedDataSet's (values, counts) against the model's summary.
package main

import (
	"encoding/json"
	"fmt"
	"math"
	"os"
	"path/filepath"
	"strings"

	. "adharness/common"

	ad "github.com/pbenner/autodiff"
	st "github.com/pbenner/autodiff/statistics"
	"github.com/pbenner/autodiff/statistics/generic"
	se "github.com/pbenner/autodiff/statistics/scalarEstimator"
	ve "github.com/pbenner/autodiff/statistics/vectorEstimator"
	tp "github.com/pbenner/threadpool"
)

type NComp struct {
	Mix  bool   `json:"mix"`
	Summ bool   `json:"summ"`
	W0   []FS   `json:"w0"`
	P0   [][]FS `json:"p0"` // one row per leaf: poisson [lambda], categorical [theta_0..], normal [mu, sigma]
}

type NCompState struct {
	Mix bool   `json:"mix"`
	Lw  []FS   `json:"lw"`
	Ps  [][]FS `json:"ps"`
}

type NHook struct {
	I     int          `json:"i"`
	Out   []FS         `json:"out"`
	Comps []NCompState `json:"comps"`
	Lik   FS           `json:"lik"`
	Eps   FS           `json:"eps"`
}

type Case5 struct {
	Kind      string  `json:"kind"` // nest | summ
	Hmm       bool    `json:"hmm"`
	Exact     bool    `json:"exact"` // HMM: the Baum-Welch part is decided in 100-bit rationals (small cases) instead of binary64
	OuterSumm bool    `json:"outer_summ"`
	ViaSet    bool    `json:"via_set"`
	Fam       int     `json:"fam"` // 1 poisson, 3 categorical, 4 normal
	J         int     `json:"j"`
	Smin      FS      `json:"smin"`
	M         int     `json:"m"`
	Smap      []int   `json:"smap"`
	Lens      []int   `json:"lens"`
	Pi0       []FS    `json:"pi0"`
	Tr0       []FS    `json:"tr0"`
	W0        []FS    `json:"w0"`
	Comps     []NComp `json:"comps"`
	Xs        []FS    `json:"xs"`
	Eps       FS      `json:"eps"`
	MaxSteps  int     `json:"max_steps"`
	RefErr    bool    `json:"ref_err"`
	Ref       []NHook `json:"ref"`
	RunErr    bool    `json:"run_err"`
	Run       []NHook `json:"run"`
	Degen     bool    `json:"degenerate"`
	Vals      []FS    `json:"vals"`
	Cnts      []int   `json:"cnts"`
	Tag       string  `json:"tag"`
}

func (c *Case5) npar() int {
	switch c.Fam {
	case 1:
		return 1
	case 3:
		return c.J
	}
	return 2
}

func (c *Case5) leaf(p []FS) st.ScalarEstimator {
	var e st.ScalarEstimator
	var err error
	switch c.Fam {
	case 1:
		e, err = se.NewPoissonEstimator(p[0].f())
	case 3:
		e, err = se.NewCategoricalEstimator(ffs(p))
	default:
		e, err = se.NewNormalEstimator(p[0].f(), p[1].f(), c.Smin.f())
	}
	if err != nil {
		Die("leaf estimator: %v", err)
	}
	return e
}

func (c *Case5) comp(nc NComp, summaries bool) st.ScalarEstimator {
	if !nc.Mix {
		return c.leaf(nc.P0[0])
	}
	leaves := make([]st.ScalarEstimator, len(nc.P0))
	for j := range leaves {
		leaves[j] = c.leaf(nc.P0[j])
	}
	// the inner driver arguments are irrelevant in nested position (meta != nil => exactly one step)
	if nc.Summ && summaries {
		e, err := se.NewDiscreteMixtureEstimator(ffs(nc.W0), leaves, 1e-8, 5)
		if err != nil {
			Die("inner discrete mixture estimator: %v", err)
		}
		return e
	}
	e, err := se.NewMixtureEstimator(ffs(nc.W0), leaves, 1e-8, 5)
	if err != nil {
		Die("inner mixture estimator: %v", err)
	}
	return e
}

// parse the parameter vector of the outer distribution into a hook record
func (c *Case5) parse(p ad.Vector, i int, lik, eps float64) NHook {
	h := NHook{I: i, Lik: fs(lik), Eps: fs(eps)}
	o := 0
	nout := len(c.W0)
	if c.Hmm {
		nout = c.M + c.M*c.M
	}
	for k := 0; k < nout; k++ {
		h.Out = append(h.Out, fs(p.At(o).GetFloat64()))
		o++
	}
	for _, nc := range c.Comps {
		s := NCompState{Mix: nc.Mix, Lw: []FS{}}
		if nc.Mix {
			for j := 0; j < len(nc.P0); j++ {
				s.Lw = append(s.Lw, fs(p.At(o).GetFloat64()))
				o++
			}
		}
		for j := 0; j < len(nc.P0); j++ {
			row := []FS{}
			for q := 0; q < c.npar(); q++ {
				row = append(row, fs(p.At(o).GetFloat64()))
				o++
			}
			s.Ps = append(s.Ps, row)
		}
		h.Comps = append(h.Comps, s)
	}
	if o != p.Dim() {
		panic(fmt.Sprintf("parameter layout: consumed %d of %d", o, p.Dim()))
	}
	return h
}

func (c *Case5) seqs() []ad.ConstVector {
	xs := ffs(c.Xs)
	out := []ad.ConstVector{}
	o := 0
	for _, n := range c.Lens {
		out = append(out, ad.NewDenseFloat64Vector(append([]float64{}, xs[o:o+n]...)))
		o += n
	}
	return out
}

// one run of the configuration; summaries=false erases every summary (the reference)
func (c *Case5) run1(summaries bool) (trace []NHook, failed bool) {
	defer func() {
		if r := recover(); r != nil {
			failed = true
			c.Tag += fmt.Sprintf("|panic:%v", r)
		}
	}()
	pool := tp.ThreadPool{}
	comps := make([]st.ScalarEstimator, len(c.Comps))
	for k, nc := range c.Comps {
		comps[k] = c.comp(nc, summaries)
	}
	record := func(p ad.Vector, i int, lik, eps float64) {
		trace = append(trace, c.parse(p, i, lik, eps))
		if len(trace) > 200 {
			panic("EM driver does not stop")
		}
	}
	var err error
	if c.Hmm {
		hook := generic.BaumWelchHook{Value: func(h generic.BasicHmm, i int, lik, eps float64) { record(h.GetParameters(), i, lik, eps) }}
		pi := ad.NewDenseFloat64Vector(ffs(c.Pi0))
		tr := ad.NewDenseFloat64Matrix(ffs(c.Tr0), c.M, c.M)
		var est *ve.HmmEstimator
		if est, err = ve.NewHmmEstimator(pi, tr, c.Smap, nil, nil, comps, c.Eps.f(), c.MaxSteps, hook); err != nil {
			Die("NewHmmEstimator: %v", err)
		}
		if c.ViaSet {
			if err = est.SetData(c.seqs(), len(c.Lens)); err == nil {
				err = est.Estimate(nil, pool)
			}
		} else {
			err = est.EstimateOnData(c.seqs(), nil, pool)
		}
	} else {
		hook := generic.EmHook{Value: func(m generic.BasicMixture, i int, lik, eps float64) { record(m.GetParameters(), i, lik, eps) }}
		xs := vec(ffs(c.Xs))
		if c.OuterSumm && summaries {
			var e *se.DiscreteMixtureEstimator
			if e, err = se.NewDiscreteMixtureEstimator(ffs(c.W0), comps, c.Eps.f(), c.MaxSteps, hook); err != nil {
				Die("NewDiscreteMixtureEstimator: %v", err)
			}
			if c.ViaSet {
				if err = e.SetData(xs, len(c.Xs)); err == nil {
					err = e.Estimate(nil, pool)
				}
			} else {
				err = e.EstimateOnData(xs, nil, pool) // inherited: installs the plain data set
			}
		} else {
			var e *se.MixtureEstimator
			if e, err = se.NewMixtureEstimator(ffs(c.W0), comps, c.Eps.f(), c.MaxSteps, hook); err != nil {
				Die("NewMixtureEstimator: %v", err)
			}
			if c.ViaSet {
				if err = e.SetData(xs, len(c.Xs)); err == nil {
					err = e.Estimate(nil, pool)
				}
			} else {
				err = e.EstimateOnData(xs, nil, pool)
			}
		}
	}
	return trace, err != nil
}

// ---------------------------------------------------------------- independent evaluation (float, linear scale)

func (c *Case5) leafDens(p []FS, x float64) float64 {
	switch c.Fam {
	case 1:
		l := p[0].f()
		lg, _ := math.Lgamma(x + 1)
		if l == 0 {
			if x == 0 {
				return 1
			}
			return 0
		}
		return math.Exp(x*math.Log(l) - l - lg)
	case 3:
		i := int(x)
		if i < 0 || i >= len(p) {
			return 0
		}
		return math.Exp(p[i].f())
	}
	mu, s := p[0].f(), p[1].f()
	return math.Exp(-(x-mu)*(x-mu)/(2*s*s)) / (s * math.Sqrt(2*math.Pi))
}

func (c *Case5) compDens(s NCompState, x float64) float64 {
	if !s.Mix {
		return c.leafDens(s.Ps[0], x)
	}
	d := 0.0
	for j := range s.Ps {
		d += math.Exp(s.Lw[j].f()) * c.leafDens(s.Ps[j], x)
	}
	return d
}

// log-likelihood of the data under the state of a hook record (HMM: scaled forward recursion)
func (c *Case5) loglik(h NHook) float64 {
	xs := ffs(c.Xs)
	if !c.Hmm {
		ll := 0.0
		for _, x := range xs {
			d := 0.0
			for k, s := range h.Comps {
				d += math.Exp(h.Out[k].f()) * c.compDens(s, x)
			}
			ll += math.Log(d)
		}
		return ll
	}
	M := c.M
	ll := 0.0
	o := 0
	for _, n := range c.Lens {
		a := make([]float64, M)
		for i := 0; i < M; i++ {
			a[i] = math.Exp(h.Out[i].f()) * c.compDens(h.Comps[c.Smap[i]], xs[o])
		}
		for k := 1; k < n; k++ {
			b := make([]float64, M)
			for j := 0; j < M; j++ {
				for i := 0; i < M; i++ {
					b[j] += a[i] * math.Exp(h.Out[M+i*M+j].f())
				}
				b[j] *= c.compDens(h.Comps[c.Smap[j]], xs[o+k])
			}
			a = b
		}
		s := 0.0
		for _, v := range a {
			s += v
		}
		ll += math.Log(s)
		o += n
	}
	return ll
}

// an inner mixture (or leaf) of the last recorded state has density zero on some datum, or a parameter is NaN:
// the error / NaN outcome of the reference run is the "no mass" situation outside the property's quantifier
func (c *Case5) degenerate(tr []NHook) bool {
	if len(tr) == 0 {
		return false
	}
	for _, h := range tr {
		for _, s := range h.Comps {
			for _, row := range s.Ps {
				for _, v := range row {
					if math.IsNaN(v.f()) {
						return true
					}
				}
			}
			for _, v := range s.Lw {
				if math.IsNaN(v.f()) {
					return true
				}
			}
		}
	}
	h := tr[len(tr)-1]
	if c.Fam == 1 {
		// a Poisson leaf that is left with zero-valued observations only: its rate collapses super-exponentially
		// (1e-4, 1e-15, 1e-60, ...) until the estimate is 0, which the Poisson constructor rejects (the model's
		// poisson_est returns an error for a weighted sum of 0 as well); at the first step only when all data are 0
		allZero := true
		for _, x := range c.Xs {
			if x.f() != 0 {
				allZero = false
			}
		}
		if allZero {
			return true
		}
		if len(tr) >= 2 {
			for _, s := range h.Comps {
				for _, row := range s.Ps {
					if row[0].f() < 1e-9 {
						return true
					}
				}
			}
		}
	}
	for _, s := range h.Comps {
		for _, x := range ffs(c.Xs) {
			if !(c.compDens(s, x) > 0) {
				return true
			}
		}
	}
	return false
}

func hasNaN(tr []NHook) bool {
	for _, h := range tr {
		for _, v := range h.Out {
			if math.IsNaN(v.f()) {
				return true
			}
		}
		for _, s := range h.Comps {
			for _, v := range s.Lw {
				if math.IsNaN(v.f()) {
					return true
				}
			}
			for _, row := range s.Ps {
				for _, v := range row {
					if math.IsNaN(v.f()) {
						return true
					}
				}
			}
		}
	}
	return false
}

func execute5(c *Case5) {
	base := c.Tag
	if i := strings.Index(base, "|panic"); i >= 0 {
		base = base[:i]
	}
	c.Tag = base
	if c.Kind == "summ" {
		d, err := se.NewMixtureSummarizedDataSet(ad.Float64Type, vec(ffs(c.Xs)), 1)
		if err != nil {
			Die("NewMixtureSummarizedDataSet: %v", err)
		}
		v := d.GetData()
		c.Vals = nil
		for i := 0; i < v.Dim(); i++ {
			c.Vals = append(c.Vals, fs(v.ConstAt(i).GetFloat64()))
		}
		c.Cnts = append([]int{}, d.GetCounts()...)
		return
	}
	c.Ref, c.RefErr = c.run1(false)
	c.Run, c.RunErr = c.run1(true)
	if hasNaN(c.Ref) {
		c.RefErr = true // NaN parameters without an error: an estimator without any weight (outside the quantifier)
	}
	c.Degen = c.RefErr && c.degenerate(c.Ref)
}

// ---------------------------------------------------------------- model-independent expectations

func (c *Case5) expectRefusal() bool {
	for _, nc := range c.Comps {
		if nc.Mix && nc.Summ {
			return true
		}
	}
	return false
}

func close7(a, b float64) bool {
	if a == b || (math.IsNaN(a) && math.IsNaN(b)) {
		return true
	}
	return math.Abs(a-b) <= 1e-7*(math.Abs(b)+1)
}

func tracesClose(eps float64, a, b []NHook) string {
	if len(a) != len(b) {
		// the convergence test may fall on the other side of the threshold by rounding: then the run that went on must have
		// seen a change within 1e-7 of epsilon at the iteration where the other one stopped
		long, n := a, len(b)
		if len(b) > len(a) {
			long, n = b, len(a)
		}
		if n == 0 || !(math.Abs(long[n-1].Eps.f()-eps) <= 1e-7*(math.Abs(long[n-1].Lik.f())+1)) {
			return fmt.Sprintf("%d hook calls against %d of the reference", len(a), len(b))
		}
		a, b = a[:n], b[:n]
	}
	for t := range a {
		for i := range a[t].Out {
			if !close7(a[t].Out[i].f(), b[t].Out[i].f()) {
				return fmt.Sprintf("iteration %d: outer parameter %d is %v, reference %v", t, i, a[t].Out[i].f(), b[t].Out[i].f())
			}
		}
		for k := range a[t].Comps {
			for j := range a[t].Comps[k].Lw {
				if !close7(a[t].Comps[k].Lw[j].f(), b[t].Comps[k].Lw[j].f()) {
					return fmt.Sprintf("iteration %d: component %d inner log-weight %d is %v, reference %v", t, k, j, a[t].Comps[k].Lw[j].f(), b[t].Comps[k].Lw[j].f())
				}
			}
			for j := range a[t].Comps[k].Ps {
				for q := range a[t].Comps[k].Ps[j] {
					if !close7(a[t].Comps[k].Ps[j][q].f(), b[t].Comps[k].Ps[j][q].f()) {
						return fmt.Sprintf("iteration %d: component %d leaf %d parameter %d is %v, reference %v", t, k, j, q, a[t].Comps[k].Ps[j][q].f(), b[t].Comps[k].Ps[j][q].f())
					}
				}
			}
		}
		if t > 0 && !close7(a[t].Lik.f(), b[t].Lik.f()) {
			return fmt.Sprintf("iteration %d: likelihood %v, reference %v", t, a[t].Lik.f(), b[t].Lik.f())
		}
	}
	return ""
}

// EM ascent and likelihood bookkeeping on a trace, with the independent evaluation of the log-likelihood
func (c *Case5) oracleTrace(name string, tr []NHook) string {
	prev := math.Inf(-1)
	for t, h := range tr {
		ll := c.loglik(h)
		if math.IsNaN(ll) {
			return ""
		}
		if ll < prev-1e-7*(math.Abs(prev)+1) {
			return fmt.Sprintf("%s: the log-likelihood decreases from %v (iteration %d) to %v (iteration %d)", name, prev, t-1, ll, t)
		}
		if t+1 < len(tr) && !relClose(tr[t+1].Lik.f(), ll, 1e-7) {
			return fmt.Sprintf("%s: likelihood reported at iteration %d is %v, the state of iteration %d has %v", name, t+1, tr[t+1].Lik.f(), t, ll)
		}
		prev = ll
	}
	return ""
}

func oracle5(c *Case5) string {
	if c.Kind == "summ" {
		// counts sum to n, every observation is one of the values, values pairwise different
		n := 0
		for _, k := range c.Cnts {
			n += k
		}
		if n != len(c.Xs) || len(c.Vals) != len(c.Cnts) {
			return fmt.Sprintf("summary: counts sum to %d for %d observations", n, len(c.Xs))
		}
		for i, v := range c.Vals {
			k := 0
			for _, x := range c.Xs {
				if x.f() == v.f() {
					k++
				}
			}
			if k != c.Cnts[i] && !math.IsNaN(v.f()) {
				return fmt.Sprintf("summary: value %v occurs %d times, count %d", v.f(), k, c.Cnts[i])
			}
		}
		return ""
	}
	if c.RefErr {
		if c.Degen {
			return ""
		}
		return "nested estimators without any summary end with an error"
	}
	if m := c.oracleTrace("reference", c.Ref); m != "" {
		return m
	}
	if c.RunErr {
		if c.expectRefusal() {
			return ""
		}
		return "configuration without a summarised mixture in nested position ends with an error"
	}
	if m := c.oracleTrace("run", c.Run); m != "" {
		return m
	}
	if m := tracesClose(c.Eps.f(), c.Run, c.Ref); m != "" {
		return "nested estimators on summarised data do not reproduce the run on the full data: " + m
	}
	return ""
}

// ---------------------------------------------------------------- Coq terms

func (c *Case5) keys(t tab) {
	if c.Kind == "summ" {
		return
	}
	xs := ffs(c.Xs)
	for _, h := range c.Ref {
		for _, v := range h.Out {
			t.add(v.f())
		}
		for _, s := range h.Comps {
			for _, v := range s.Lw {
				t.add(v.f())
			}
			for _, row := range s.Ps {
				switch c.Fam {
				case 1:
					t.add(-row[0].f())
				case 3:
					for _, v := range row {
						t.add(v.f())
					}
				default:
					for _, x := range xs {
						t.add(enArg(x, row[0].f(), row[1].f()))
					}
				}
			}
		}
		t.add(h.Lik.f())
	}
}

func nestTerm(nc NComp) string {
	if !nc.Mix {
		return "NLeaf"
	}
	ls := make([]string, len(nc.P0))
	for i := range ls {
		ls[i] = "NLeaf"
	}
	return fmt.Sprintf("(NMix %s %s)", B(nc.Summ), List(ls))
}

func hooksTerm(failed bool, tr []NHook) string {
	if failed {
		return "None"
	}
	hs := make([]string, len(tr))
	for i, h := range tr {
		cs := make([]string, len(h.Comps))
		for k, s := range h.Comps {
			rows := make([]string, len(s.Ps))
			for j, r := range s.Ps {
				rows[j] = FList(ffs(r))
			}
			cs[k] = fmt.Sprintf("(%s, %s, %s)", B(s.Mix), FList(ffs(s.Lw)), List(rows))
		}
		hs[i] = fmt.Sprintf("(%d, %s, %s, %s, %s)", h.I, FList(ffs(h.Out)), List(cs), F(h.Lik.f()), F(h.Eps.f()))
	}
	return "(Some " + List(hs) + ")"
}

func (c *Case5) coq() string {
	if c.Kind == "summ" {
		ns := make([]string, len(c.Cnts))
		for i, k := range c.Cnts {
			ns[i] = fmt.Sprintf("%d", k)
		}
		return fmt.Sprintf("C5Summ %s %s %s", FList(ffs(c.Xs)), FList(ffs(c.Vals)), List(ns))
	}
	cs := make([]string, len(c.Comps))
	for i, nc := range c.Comps {
		cs[i] = nestTerm(nc)
	}
	cfg := fmt.Sprintf("(TMix %s %s)", B(c.OuterSumm), List(cs))
	if c.Hmm {
		cfg = fmt.Sprintf("(THmm %s)", List(cs))
	}
	ms := "None"
	if c.MaxSteps >= 0 {
		ms = fmt.Sprintf("(Some %d)", c.MaxSteps)
	}
	return fmt.Sprintf("C5Nest %s %s %d%%Z %d %s %d %s %s %s %s %s %s %s %s %s %s",
		B(c.Hmm), B(c.Exact), c.Fam, c.J, F(c.Smin.f()), c.M, intList(c.Smap), intList(c.Lens), FList(ffs(c.Xs)),
		B(c.ViaSet), cfg, F(c.Eps.f()), ms, B(c.Degen), hooksTerm(c.RefErr, c.Ref), hooksTerm(c.RunErr, c.Run))
}

const header5 = `From Coq Require Import ZArith QArith Floats List Bool.
From ADV Require Import Base.Num Base.Corr C16.Model C16.Corr C16.ModelNest C16.Corr5.
Import ListNotations.
Open Scope nat_scope.
`

func writeShard5(dir, name string, k int, cs []*Case5) (int, error) {
	t := tab{}
	t.add(0)
	for _, c := range cs {
		c.keys(t)
	}
	ks := t.sorted()
	var sb strings.Builder
	sb.WriteString(header5)
	sb.WriteString("Definition tab : exptab := [\n")
	for i, d := range ks {
		sb.WriteString(fmt.Sprintf("  (%s, %s)", F(d), F(math.Exp(d))))
		if i != len(ks)-1 {
			sb.WriteString(";")
		}
		sb.WriteString("\n")
	}
	sb.WriteString("].\nDefinition cases : list case5 := [\n")
	for i, c := range cs {
		sb.WriteString("  " + c.coq())
		if i != len(cs)-1 {
			sb.WriteString(";")
		}
		sb.WriteString("\n")
	}
	sb.WriteString("].\nDefinition M := Eval vm_compute in (C16.Corr5.mism5 tab cases).\nPrint M.\n")
	if err := os.WriteFile(filepath.Join(dir, fmt.Sprintf("%s_%d.v", name, k)), []byte(sb.String()), 0644); err != nil {
		return 0, err
	}
	if err := writeCerts(dir, "cert_"+name, k, ks); err != nil {
		return 0, err
	}
	return len(ks), nil
}

// ---------------------------------------------------------------- generators

func genLeafParams(r *Rng, c *Case5) []FS {
	switch c.Fam {
	case 1:
		return fss([]float64{float64(r.Range(1, 48)) / 8})
	case 3:
		return fss(dyadicSimplex(r, c.J, false))
	}
	return fss([]float64{float64(r.Range(-16, 16)) / 4, float64(r.Range(2, 12)) / 4})
}

func genValue(r *Rng, c *Case5, pool []float64) float64 {
	return pool[r.Intn(len(pool))]
}

func genNest(r *Rng) *Case5 {
	c := &Case5{Kind: "nest", Fam: []int{1, 3, 4}[r.Intn(3)], J: 1, Smin: fs(0)}
	if c.Fam == 3 {
		c.J = r.Range(2, 3)
	}
	if c.Fam == 4 {
		c.Smin = fs([]float64{1.0 / 1024, 0.25, 0.5}[r.Intn(3)])
	}
	c.Hmm = r.Intn(5) < 2
	c.ViaSet = r.Bool()
	// a small pool of values, so that the data contain repeats (the summary is shorter than the data);
	// sometimes all different (the summary is the identity: the guard must still refuse)
	var pool []float64
	np := r.Range(2, 4)
	if r.Intn(8) == 0 {
		np = 12
	}
	seen := map[float64]bool{}
	for len(pool) < np {
		var v float64
		switch c.Fam {
		case 1:
			v = float64(r.Range(0, 12))
		case 3:
			v = float64(r.Intn(c.J))
			if len(seen) >= c.J {
				np = len(pool)
				continue
			}
		default:
			v = float64(r.Range(-24, 24)) / 4
		}
		if !seen[v] {
			seen[v] = true
			pool = append(pool, v)
		}
	}
	nc := r.Range(1, 3)
	if c.Hmm {
		c.M = r.Range(2, 3)
		nc = r.Range(1, c.M)
		if nc > 2 {
			nc = 2
		}
		c.Smap = make([]int, c.M)
		for i := range c.Smap {
			c.Smap[i] = i % nc
		}
		c.Pi0 = fss(dyadicSimplex8(r, c.M, false))
		for i := 0; i < c.M; i++ {
			c.Tr0 = append(c.Tr0, fss(dyadicSimplex8(r, c.M, r.Intn(4) == 0))...)
		}
		nseq := r.Range(1, 2)
		n := 0
		for s := 0; s < nseq; s++ {
			l := r.Range(2, 5)
			c.Lens = append(c.Lens, l)
			n += l
		}
		for i := 0; i < n; i++ {
			c.Xs = append(c.Xs, fs(genValue(r, c, pool)))
		}
		c.MaxSteps = []int{1, 2, 3}[r.Intn(3)]
		c.Exact = c.M == 2 && n <= 4 && c.MaxSteps == 1
	} else {
		c.OuterSumm = r.Intn(3) == 0
		if c.OuterSumm && r.Intn(4) != 0 {
			c.ViaSet = true // the summary is only installed by SetData + Estimate
		}
		c.W0 = fss(dyadicSimplex(r, nc, false))
		n := r.Range(3, 12)
		for i := 0; i < n; i++ {
			c.Xs = append(c.Xs, fs(genValue(r, c, pool)))
		}
		c.MaxSteps = []int{1, 2, 3, 4, 6}[r.Intn(5)]
	}
	anyMix := false
	for k := 0; k < nc; k++ {
		comp := NComp{}
		if r.Intn(4) != 0 || (k == nc-1 && !anyMix) {
			comp.Mix = true
			anyMix = true
			comp.Summ = r.Intn(5) < 2
			if c.OuterSumm && r.Intn(3) != 0 {
				comp.Summ = false // summarised outer estimator over plain nested mixtures: must run like the reference
			}
			kin := r.Range(1, 2)
			if r.Intn(6) == 0 {
				kin = 3
			}
			comp.W0 = fss(dyadicSimplex(r, kin, false))
			for j := 0; j < kin; j++ {
				comp.P0 = append(comp.P0, genLeafParams(r, c))
			}
		} else {
			comp.P0 = [][]FS{genLeafParams(r, c)}
		}
		c.Comps = append(c.Comps, comp)
	}
	c.Eps = fs([]float64{0, 1e-6, 1e-2, -1}[r.Intn(4)])
	outer := "mix"
	if c.Hmm {
		outer = "hmm"
	} else if c.OuterSumm {
		outer = "dmix"
	}
	c.Tag = fmt.Sprintf("nest|outer=%s|fam%d|viaset=%v|ms%d", outer, c.Fam, c.ViaSet, c.MaxSteps)
	return c
}

func genSumm(r *Rng) *Case5 {
	c := &Case5{Kind: "summ", Tag: "summ"}
	n := r.Range(1, 20)
	pool := []float64{0, math.Copysign(0, -1), 1, 2, 2.5, -1, 1e300, math.Inf(1), math.Inf(-1), 3, 7}
	k := r.Range(1, len(pool))
	for i := 0; i < n; i++ {
		c.Xs = append(c.Xs, fs(pool[r.Intn(k)]))
	}
	return c
}

func repeats(c *Case5) bool {
	seen := map[float64]bool{}
	for _, x := range c.Xs {
		if seen[x.f()] {
			return true
		}
		seen[x.f()] = true
	}
	return false
}

func loadCorpus5(path string) []*Case5 {
	var out []*Case5
	b, err := os.ReadFile(path)
	if err != nil {
		return nil
	}
	for _, l := range strings.Split(string(b), "\n") {
		l = strings.TrimSpace(l)
		if l == "" {
			continue
		}
		c := &Case5{}
		if err := json.Unmarshal([]byte(l), c); err != nil {
			Die("corpus5: %v", err)
		}
		out = append(out, c)
	}
	return out
}

func gen5(r *Rng) *Case5 {
	if r.Intn(8) == 0 {
		return genSumm(r)
	}
	return genNest(r)
}

func round5(o Opts) {
	r := NewRng(o.Seed*1000003 + 5)
	var cs []*Case5
	if i := strings.Index(o.Extra, ":"); i >= 0 {
		for _, c := range loadCorpus5(o.Extra[i+1:]) {
			c.Tag = "corpus|" + c.Tag
			cs = append(cs, c)
		}
	}
	for i := 0; i < o.N; i++ {
		cs = append(cs, gen5(r))
	}
	hist := map[string]int{}
	nontriv := map[string]bool{}
	for _, c := range cs {
		execute5(c)
		for _, t := range strings.Split(c.Tag, "|") {
			hist[t]++
		}
		if c.Kind == "nest" {
			switch {
			case c.RefErr:
				hist["outcome:reference-degenerate-or-error"]++
			case c.RunErr:
				hist["outcome:refused"]++
			default:
				hist["outcome:ran-like-reference"]++
			}
			if repeats(c) {
				hist["data-with-repeats"]++
			}
			if c.expectRefusal() {
				hist["summarised-mixture-in-nested-position"]++
			}
			if !c.RefErr && len(c.Ref) >= 2 && repeats(c) {
				b, _ := json.Marshal(struct {
					H bool
					X []FS
					C []NComp
					W []FS
					S, V bool
				}{c.Hmm, c.Xs, c.Comps, c.W0, c.OuterSumm, c.ViaSet})
				nontriv[string(b)] = true
			}
		}
	}
	if err := os.MkdirAll(o.Out, 0755); err != nil {
		Die("%v", err)
	}
	per := 8
	nsh, ntab := 0, 0
	sizes := []int{}
	for s := 0; s < len(cs); s += per {
		e := s + per
		if e > len(cs) {
			e = len(cs)
		}
		n, err := writeShard5(o.Out, "r5", nsh, cs[s:e])
		if err != nil {
			Die("%v", err)
		}
		sizes = append(sizes, e-s)
		ntab += n
		nsh++
	}
	f, _ := os.Create(filepath.Join(o.Out, "r5.jsonl"))
	enc := json.NewEncoder(f)
	for _, c := range cs {
		enc.Encode(c)
	}
	f.Close()
	samples := []interface{}{}
	for i := 0; i < len(cs) && i < 1; i++ {
		samples = append(samples, cs[i])
	}
	meta := map[string]interface{}{
		"name": "round5", "evaluations": len(cs), "distinct_nontrivial": len(nontriv),
		"rule":    "nested configuration on data WITH repeats whose reference run recorded at least one EM step",
		"samples": samples, "histogram": hist, "shards": nsh, "shard_sizes": sizes,
		"extra": map[string]interface{}{"exp_table_entries_certified_round5": ntab},
	}
	b, _ := json.MarshalIndent(meta, "", " ")
	os.WriteFile(filepath.Join(o.Out, "r5.meta.json"), b, 0644)
}

func replay5(o Opts, c *Case5) {
	execute5(c)
	os.MkdirAll(o.Out, 0755)
	if _, err := writeShard5(o.Out, "replay", 0, []*Case5{c}); err != nil {
		Die("%v", err)
	}
	msg := oracle5(c)
	hb, _ := json.MarshalIndent(map[string]interface{}{"found": msg != "", "failure": msg, "case": c}, "", " ")
	os.WriteFile(filepath.Join(o.Out, "hunt.json"), hb, 0644)
}

// drop observations / components while the failure persists
func shrink5(c *Case5) *Case5 {
	cur := *c
	if c.Kind != "nest" || c.Hmm {
		return &cur
	}
	for changed := true; changed; {
		changed = false
		for i := 0; i < len(cur.Xs) && len(cur.Xs) > 2; i++ {
			t := cur
			t.Xs = append(append([]FS{}, cur.Xs[:i]...), cur.Xs[i+1:]...)
			execute5(&t)
			if oracle5(&t) != "" {
				cur = t
				changed = true
				break
			}
		}
	}
	return &cur
}

// hunt over the nested configurations: handed cases first, then random ones, every one with all inner mixtures
// summarised as well (the configuration the guard protects)
func hunt5(o Opts, handed []*Case5, res map[string]interface{}) {
	try := func(c *Case5) bool {
		execute5(c)
		if m := oracle5(c); m != "" {
			s := shrink5(c)
			execute5(s)
			if m2 := oracle5(s); m2 != "" {
				c, m = s, m2
			} else {
				execute5(c)
			}
			res["found"], res["failure"], res["case"] = true, m, c
			return true
		}
		return false
	}
	for _, c := range handed {
		if try(c) {
			return
		}
	}
	r := NewRng(o.Seed + 55555)
	n := o.N / 4
	for i := 0; i < n; i++ {
		c := gen5(r)
		if try(c) {
			return
		}
	}
}
