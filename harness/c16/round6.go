// C16 harness, round 6 (mode --extra round6[:corpus]): estimator OBJECTS re-used across calls and the mixture the
// EM driver returns.
//   seq      call sequences on ONE scalar estimator object (normal, exponential, Poisson, geometric, categorical):
//            SetData / the caller writing into the installed vector / Estimate / EstimateOnData / Initialize /
//            NewObservation / GetEstimate, every observable outcome recorded -> replayed on coq/C16/ModelObj.v;
//   emfinal  mixture EM (plain and Discrete estimator) on an estimator that was run on other data before, hook trace
//            plus the parameters the estimator holds after Estimate returned;
//   reuse3   vector normal / scalarId / scalarIid / negative binomial estimators whose object went through earlier
//            calls (other data of the same shape, other weights, data rewritten in place).
// Property oracle (hunt / replay, independent of the Coq model): every call's outcome against a NEW estimator object
// given the same current input (bitwise), the maximiser oracle at the returned parameters, an independent EM step.
package main

import (
	"encoding/json"
	"fmt"
	"math"
	"os"
	"path/filepath"
	"strings"

	. "adharness/common"

	ad "github.com/pbenner/autodiff"
	st "github.com/pbenner/autodiff/statistics"
	se "github.com/pbenner/autodiff/statistics/scalarEstimator"
	tp "github.com/pbenner/threadpool"
)

type Op6 struct {
	Op   string `json:"op"` // set | write | est | eod | init | obs | get
	V    int    `json:"v"`
	I    int    `json:"i"`
	X    FS     `json:"x"`
	HasG bool   `json:"has_g"`
	G    []FS   `json:"g"`
	Out  string `json:"out"` // none | panic | err | ok
	Res  []FS   `json:"res"`
}

type Case6 struct {
	Kind  string   `json:"kind"` // seq | emfinal | reuse3
	Fam   int      `json:"fam"`  // seq: 10 normal, 0 exponential, 1 poisson, 2 geometric, 3 categorical
	Bound FS       `json:"bound"`
	K     int      `json:"k"`
	Heap  [][]FS   `json:"heap"`
	Ops   []Op6    `json:"ops"`
	Em    *Case    `json:"em,omitempty"`
	C3    *Case3   `json:"c3,omitempty"`
	Num   *Num7    `json:"num,omitempty"`
	Tag   string   `json:"tag"`
}

type scalarObj interface {
	st.ScalarEstimator
	Initialize(p tp.ThreadPool) error
	NewObservation(x, gamma ad.ConstScalar, p tp.ThreadPool) error
}

func (c *Case6) newObj() scalarObj {
	var e scalarObj
	var err error
	switch c.Fam {
	case 10:
		e, err = se.NewNormalEstimator(0.0, 1.0, c.Bound.f())
	case 0:
		e, err = se.NewExponentialEstimator(1.0, c.Bound.f())
	case 1:
		e, err = se.NewPoissonEstimator(1.0)
	case 2:
		e, err = se.NewGeometricEstimator(0.5)
	default:
		th := make([]float64, c.K)
		for i := range th {
			th[i] = 1.0 / float64(c.K)
		}
		e, err = se.NewCategoricalEstimator(th)
	}
	if err != nil {
		Die("round 6 estimator: %v", err)
	}
	return e
}

func (c *Case6) params(p ad.Vector) []FS {
	r := make([]FS, p.Dim())
	for i := range r {
		v := p.At(i).GetFloat64()
		if c.Fam == 3 {
			v = math.Exp(v)
		}
		r[i] = fs(v)
	}
	return r
}

// one call on the object; panics are an outcome
func (c *Case6) apply(e scalarObj, vs []ad.DenseFloat64Vector, o *Op6, pool tp.ThreadPool) {
	o.Out, o.Res = "none", nil
	defer func() {
		if r := recover(); r != nil {
			o.Out, o.Res = "panic", nil
		}
	}()
	var gamma ad.ConstVector
	if o.HasG && (o.Op == "est" || o.Op == "eod") {
		gamma = vec(ffs(o.G))
	}
	switch o.Op {
	case "set":
		e.SetData(vs[o.V], len(vs[o.V]))
	case "write":
		vs[o.V][o.I] = o.X.f()
	case "est", "eod":
		var err error
		if o.Op == "est" {
			err = e.Estimate(gamma, pool)
		} else {
			err = e.EstimateOnData(vs[o.V], gamma, pool)
		}
		if err != nil {
			o.Out = "err"
		} else {
			o.Out, o.Res = "ok", c.params(e.GetParameters())
		}
	case "init":
		e.Initialize(pool)
	case "obs":
		var g ad.ConstScalar
		if o.HasG {
			g = ad.ConstFloat64(o.G[0].f())
		}
		e.NewObservation(ad.ConstFloat64(o.X.f()), g, pool)
	case "get":
		if d, err := e.GetEstimate(); err != nil || d == nil {
			o.Out = "err"
		} else {
			o.Out, o.Res = "ok", c.params(d.GetParameters())
		}
	}
}

func (c *Case6) heapVecs() []ad.DenseFloat64Vector {
	vs := make([]ad.DenseFloat64Vector, len(c.Heap))
	for i, h := range c.Heap {
		vs[i] = ad.NewDenseFloat64Vector(ffs(h))
	}
	return vs
}

func execute6(c *Case6) {
	switch c.Kind {
	case "seq":
		pool := tp.ThreadPool{}
		e := c.newObj()
		vs := c.heapVecs()
		for i := range c.Ops {
			c.apply(e, vs, &c.Ops[i], pool)
		}
	case "emfinal":
		execute(c.Em)
	case "reuse3":
		execute3(c.C3)
	case "num":
		executeNum7(c.Num)
	}
}

// ---------------------------------------------------------------- property oracle

func sameFS(a, b []FS) bool {
	if len(a) != len(b) {
		return false
	}
	for i := range a {
		x, y := a[i].f(), b[i].f()
		if math.Float64bits(x) != math.Float64bits(y) && !(math.IsNaN(x) && math.IsNaN(y)) {
			return false
		}
	}
	return true
}

// every estimate of the sequence against a NEW object given the current input, and the maximiser oracle
func oracleSeq(c *Case6) string {
	pool := tp.ThreadPool{}
	vs := c.heapVecs()
	installed := -1
	lastInit := -1 // index of the last init op with only obs / write / set ops since
	for k := range c.Ops {
		o := &c.Ops[k]
		switch o.Op {
		case "set":
			installed = o.V
		case "write":
			vs[o.V][o.I] = o.X.f()
		case "init":
			lastInit = k
		case "eod":
			installed = o.V
		}
		if (o.Op == "est" || o.Op == "eod") && o.Out != "panic" && installed >= 0 {
			cur := ffs(fss(vs[installed]))
			f := c.newObj()
			fo := Op6{Op: "eod", V: 0, HasG: o.HasG, G: o.G}
			c.apply(f, []ad.DenseFloat64Vector{ad.NewDenseFloat64Vector(cur)}, &fo, pool)
			if fo.Out != o.Out || !sameFS(fo.Res, o.Res) {
				return fmt.Sprintf("call %d (%s) on the re-used estimator returns %s %v, a new estimator on the same data %v and log-weights %v returns %s %v",
					k, o.Op, o.Out, ffs(o.Res), cur, gStr(o), fo.Out, ffs(fo.Res))
			}
			if o.Out == "ok" {
				cc := &Case{Pert: true, Bound: c.Bound, K: c.K, Xs: fss(cur), HasG: o.HasG, G: o.G, Res: o.Res}
				switch c.Fam {
				case 10:
					cc.Kind = "normal"
				case 3:
					cc.Kind = "cat"
				default:
					cc.Kind, cc.Fam = "rate", c.Fam
				}
				if !anyNaN(ffs(o.Res)) {
					if m := oracleEstimator(cc); m != "" {
						return fmt.Sprintf("call %d (%s) on the re-used estimator: %s", k, o.Op, m)
					}
				}
			}
		}
		if o.Op == "est" || o.Op == "eod" {
			lastInit = -1
		}
		if o.Op == "get" && lastInit >= 0 && o.Out != "panic" {
			f := c.newObj()
			f.Initialize(pool)
			none := []ad.DenseFloat64Vector{}
			for j := lastInit + 1; j < k; j++ {
				if c.Ops[j].Op == "obs" {
					t := c.Ops[j]
					c.apply(f, none, &t, pool)
				}
			}
			fo := Op6{Op: "get"}
			c.apply(f, none, &fo, pool)
			if fo.Out != o.Out || !sameFS(fo.Res, o.Res) {
				return fmt.Sprintf("call %d (GetEstimate after Initialize + observations) on the re-used estimator returns %s %v, a new estimator fed the same observations returns %s %v",
					k, o.Out, ffs(o.Res), fo.Out, ffs(fo.Res))
			}
			if m := oracleBatch7(c, lastInit, k); m != "" {
				return m
			}
			if o.Out == "ok" {
				lastInit = -1 // accumulators consumed
			}
		}
	}
	return ""
}

func gStr(o *Op6) string {
	if !o.HasG {
		return "nil"
	}
	return fmt.Sprint(ffs(o.G))
}

// independent EM step in binary64 (Poisson / categorical components): the parameters of hook t from those of hook t-1
func emStepOracle(c *Case, h0, h1 Hook) string {
	xs := ffs(c.Xs)
	n := len(xs)
	rs := make([][]float64, c.K)
	for k := range rs {
		rs[k] = make([]float64, n)
	}
	for l, xv := range xs {
		t := math.Inf(-1)
		lp := make([]float64, c.K)
		for k := 0; k < c.K; k++ {
			if c.Fam == 1 {
				lam := h0.Ps[k][0].f()
				lg, _ := math.Lgamma(xv + 1)
				lp[k] = -lam - lg
				if xv != 0 {
					lp[k] += xv * math.Log(lam)
				}
			} else {
				lp[k] = h0.Ps[k][int(xv)].f()
			}
			lp[k] += h0.Lw[k].f()
			t = logAdd(t, lp[k])
		}
		for k := 0; k < c.K; k++ {
			rs[k][l] = math.Exp(lp[k] - t)
		}
	}
	close := func(a, b float64) bool { return math.Abs(a-b) <= 1e-8*(math.Abs(a)+math.Abs(b))+1e-10 }
	for k := 0; k < c.K; k++ {
		R := 0.0
		for _, r := range rs[k] {
			R += r
		}
		if w := math.Exp(h1.Lw[k].f()); !close(w, R/float64(n)) {
			return fmt.Sprintf("weight of component %d is %v, the E-step on the current data gives %v", k, w, R/float64(n))
		}
		if !(R > 1e-12) {
			continue
		}
		if c.Fam == 1 {
			m := 0.0
			for l, r := range rs[k] {
				m += r * xs[l]
			}
			if v := h1.Ps[k][0].f(); !close(v, m/R) {
				return fmt.Sprintf("rate of component %d is %v, the M-step on the current data gives %v", k, v, m/R)
			}
		} else {
			for j := 0; j < c.J; j++ {
				m := 0.0
				for l, r := range rs[k] {
					if int(xs[l]) == j {
						m += r
					}
				}
				if v := math.Exp(h1.Ps[k][j].f()); !close(v, m/R) {
					return fmt.Sprintf("probability %d of component %d is %v, the M-step on the current data gives %v", j, k, v, m/R)
				}
			}
		}
	}
	return ""
}

func oracleEmFinal(c *Case) string {
	if c.Err {
		return ""
	}
	if m, _ := oracleEM(c); m != "" {
		return m
	}
	for t := 1; t < len(c.Trace); t++ {
		if m := emStepOracle(c, c.Trace[t-1], c.Trace[t]); m != "" {
			return fmt.Sprintf("iteration %d: %s", t, m)
		}
	}
	if c.Final == nil || len(c.Trace) == 0 {
		return "no mixture recorded after Estimate returned"
	}
	last := c.Trace[len(c.Trace)-1]
	same := sameFS(c.Final.Lw, last.Lw) && len(c.Final.Ps) == len(last.Ps)
	for k := 0; same && k < len(last.Ps); k++ {
		same = sameFS(c.Final.Ps[k], last.Ps[k])
	}
	if !same {
		return fmt.Sprintf("the mixture held by the estimator after Estimate returned (log-weights %v, parameters %v) is not the mixture handed to the last hook call, iteration %d (log-weights %v, parameters %v)",
			ffs(c.Final.Lw), c.Final.Ps, last.I, ffs(last.Lw), last.Ps)
	}
	if len(c.Trace) >= 2 {
		lf, ll := mixLoglik(c, *c.Final), last.Lik.f()
		if lf < ll-1e-9*(math.Abs(ll)+1) {
			return fmt.Sprintf("the returned mixture has log-likelihood %v (from its raw parameters), below the last reported likelihood %v (iteration %d)", lf, ll, last.I)
		}
	}
	return ""
}

// is the case an instance of F-SID-STALE-FAILURE: a scalarId estimator one of whose earlier calls failed refuses
// every later SetData (the failed component estimator keeps its accumulators and GetEstimate, called by
// ScalarId.SetData, fails again)
func sidStaleFailure(c *Case3) bool {
	if c.Kind != "sid" || !c.Err {
		return false
	}
	for _, e := range c.PreErr {
		if e {
			return true
		}
	}
	return false
}

// a new estimator object on the case's own call only; second result: the known finding F-SID-STALE-FAILURE
func oracleReuse3(c *Case3) (string, string) {
	m := oracleReuse3x(c)
	if m != "" && sidStaleFailure(c) {
		return "", m
	}
	return m, ""
}

func oracleReuse3x(c *Case3) string {
	if m := oracle3(c); m != "" {
		return m
	}
	if len(c.Pre) == 0 {
		return ""
	}
	f := *c
	f.Pre, f.InPlace = nil, false
	execute3(&f)
	eq := f.Err == c.Err && sameFS(f.Mu, c.Mu) && len(f.Si) == len(c.Si) && len(f.Res) == len(c.Res)
	for i := 0; eq && i < len(f.Si); i++ {
		eq = sameFS(f.Si[i], c.Si[i])
	}
	for i := 0; eq && i < len(f.Res); i++ {
		eq = sameFS(f.Res[i], c.Res[i])
	}
	if !eq {
		return fmt.Sprintf("%s estimator after %d earlier call(s) on the same object (in place: %v) returns err=%v mu=%v sigma=%v params=%v; a new estimator on the same data returns err=%v mu=%v sigma=%v params=%v",
			c.Kind, len(c.Pre), c.InPlace, c.Err, c.Mu, c.Si, c.Res, f.Err, f.Mu, f.Si, f.Res)
	}
	return ""
}

func oracle6(c *Case6) string {
	switch c.Kind {
	case "seq":
		return oracleSeq(c)
	case "emfinal":
		return oracleEmFinal(c.Em)
	case "reuse3":
		m, _ := oracleReuse3(c.C3)
		return m
	case "num":
		return oracleNum7(c.Num)
	}
	return ""
}

// ---------------------------------------------------------------- Coq terms

func (c *Case6) keys(t tab) {
	switch c.Kind {
	case "emfinal":
		c.Em.keys(t)
		if c.Em.Final != nil {
			(&Case{Fam: c.Em.Fam, Trace: []Hook{*c.Em.Final}}).keys(t)
		}
	case "reuse3":
		c.C3.keys(t)
	case "num":
		c.Num.keys(t)
	case "seq":
		for _, o := range c.Ops {
			if !o.HasG {
				continue
			}
			g := ffs(o.G)
			gm := math.Inf(-1)
			for _, v := range g {
				if gm < v {
					gm = v
				}
			}
			for _, v := range g {
				if o.Op != "obs" {
					t.add(v - gm)
				}
				if math.Abs(v) <= 700 {
					t.add(v)
				}
			}
		}
	}
}

func (c *Case6) coq() string {
	switch c.Kind {
	case "emfinal":
		e := c.Em
		if e.Final == nil {
			return "C6Base (" + e.coq() + ")"
		}
		rows := make([]string, len(e.Final.Ps))
		for k, r := range e.Final.Ps {
			rows[k] = FList(ffs(r))
		}
		return "C6EmFinal" + strings.TrimPrefix(e.coq(), "CEm") + fmt.Sprintf(" (%s, %s)", FList(ffs(e.Final.Lw)), List(rows))
	case "reuse3":
		return "C6R3 (" + c.C3.coq() + ")"
	case "num":
		return c.Num.coq()
	}
	cat := c.Fam == 3
	num := func(x FS) string {
		if cat {
			return fmt.Sprintf("%d", int(x.f()))
		}
		return F(x.f())
	}
	hp := make([]string, len(c.Heap))
	for i, h := range c.Heap {
		if cat {
			hp[i] = natList(h)
		} else {
			hp[i] = FList(ffs(h))
		}
	}
	ops := make([]string, len(c.Ops))
	outs := make([]string, len(c.Ops))
	for i, o := range c.Ops {
		switch o.Op {
		case "set":
			ops[i] = fmt.Sprintf("OpSetData %d", o.V)
		case "write":
			ops[i] = fmt.Sprintf("OpWrite %d %d %s", o.V, o.I, num(o.X))
		case "est":
			ops[i] = "OpEstimate " + optFList(o.HasG, o.G)
		case "eod":
			ops[i] = fmt.Sprintf("OpEstimateOnData %d %s", o.V, optFList(o.HasG, o.G))
		case "init":
			ops[i] = "OpInitialize"
		case "obs":
			g := "None"
			if o.HasG {
				g = "(Some " + F(o.G[0].f()) + ")"
			}
			ops[i] = fmt.Sprintf("OpNewObservation %s %s", num(o.X), g)
		default:
			ops[i] = "OpGetEstimate"
		}
		switch o.Out {
		case "none":
			outs[i] = "GNone"
		case "panic":
			outs[i] = "GPanic"
		case "err":
			outs[i] = "GErr"
		default:
			outs[i] = "GOk " + FList(ffs(o.Res))
		}
	}
	if cat {
		return fmt.Sprintf("C6SeqCat %d %s %s %s", c.K, List(hp), List(ops), List(outs))
	}
	f := fmt.Sprintf("(F6Rate %d%%Z %s)", c.Fam, F(c.Bound.f()))
	if c.Fam == 10 {
		f = fmt.Sprintf("(F6Normal true %s)", F(c.Bound.f()))
	}
	return fmt.Sprintf("C6Seq %s %s %s %s", f, List(hp), List(ops), List(outs))
}

const header6 = `From Coq Require Import ZArith QArith Floats List Bool.
From ADV Require Import Base.Num Base.Corr C16.Model C16.Corr C16.ModelVec C16.Corr3 C16.ModelObj C16.Corr6.
Import ListNotations.
Open Scope nat_scope.
`

func writeShard6(dir, name string, k int, cs []*Case6) (int, error) {
	t := tab{}
	t.add(0)
	for _, c := range cs {
		c.keys(t)
	}
	ks := t.sorted()
	var sb strings.Builder
	sb.WriteString(header6)
	sb.WriteString("Definition tab : exptab := [\n")
	for i, d := range ks {
		sb.WriteString(fmt.Sprintf("  (%s, %s)", F(d), F(math.Exp(d))))
		if i != len(ks)-1 {
			sb.WriteString(";")
		}
		sb.WriteString("\n")
	}
	sb.WriteString("].\nDefinition cases : list case6 := [\n")
	for i, c := range cs {
		sb.WriteString("  " + c.coq())
		if i != len(cs)-1 {
			sb.WriteString(";")
		}
		sb.WriteString("\n")
	}
	sb.WriteString("].\nDefinition M := Eval vm_compute in (C16.Corr6.mism6 tab cases).\nPrint M.\n")
	if err := os.WriteFile(filepath.Join(dir, fmt.Sprintf("%s_%d.v", name, k)), []byte(sb.String()), 0644); err != nil {
		return 0, err
	}
	if err := writeCerts(dir, "cert_"+name, k, ks); err != nil {
		return 0, err
	}
	return len(ks), nil
}

// ---------------------------------------------------------------- generators

var gpool6 = []float64{0, -0.5, -1, -2, -3.25, 0.75, 1.5, -8, -30, -0.125, 2, -5.5, -0.0625, 3}

func genGamma6(r *Rng, n int) (bool, []FS) {
	switch r.Pick([]int{30, 45, 10, 15}) {
	case 0:
		return false, nil
	case 1:
		g := make([]float64, n)
		for i := range g {
			g[i] = gpool6[r.Intn(len(gpool6))]
			if n > 1 && r.Intn(8) == 0 {
				g[i] = math.Inf(-1)
			}
		}
		if n > 1 && math.IsInf(g[0], -1) {
			g[0] = 0
		}
		return true, fss(g)
	case 2:
		g := make([]float64, n)
		v := gpool6[r.Intn(len(gpool6))]
		for i := range g {
			g[i] = v
		}
		return true, fss(g)
	}
	g := make([]float64, n)
	for i := range g {
		g[i] = -30
	}
	g[r.Intn(n)] = 0
	return true, fss(g)
}

func (c *Case6) genValue(r *Rng) float64 {
	switch c.Fam {
	case 10:
		return float64(r.Range(-256, 256)) / 8
	case 0:
		return float64(r.Range(1, 128)) / 8
	case 3:
		return float64(r.Intn(c.K))
	}
	if r.Intn(4) == 0 {
		return float64(r.Intn(3))
	}
	return float64(r.Range(0, 20))
}

func genSeq(r *Rng) *Case6 {
	c := &Case6{Kind: "seq", Fam: []int{10, 0, 1, 2, 3}[r.Pick([]int{30, 18, 18, 16, 18})]}
	c.Bound = fs(0)
	switch c.Fam {
	case 10:
		c.Bound = fs([]float64{0, 0, 1.0 / 1024, 0.5, 2, 16}[r.Intn(6)])
	case 0:
		c.Bound = fs([]float64{1e300, 1e300, 4, 0.25, 1}[r.Intn(5)])
	case 3:
		c.K = r.Range(2, 5)
	}
	// vectors: mostly of the SAME length (a cache keyed by the length would survive)
	nv := r.Range(1, 3)
	n := r.Range(1, 7)
	for i := 0; i < nv; i++ {
		m := n
		if r.Intn(4) == 0 {
			m = r.Range(1, 7)
		}
		row := make([]float64, m)
		for j := range row {
			row[j] = c.genValue(r)
		}
		c.Heap = append(c.Heap, fss(row))
	}
	lens := make([]int, nv)
	for i := range lens {
		lens[i] = len(c.Heap[i])
	}
	installed := -1
	nops := r.Range(3, 9)
	tags := map[string]bool{}
	for len(c.Ops) < nops {
		var o Op6
		switch r.Pick([]int{16, 22, 26, 18, 5, 8, 9}) {
		case 0:
			o = Op6{Op: "set", V: r.Intn(nv)}
			installed = o.V
		case 1: // the caller writes into a vector (mostly the installed one)
			v := r.Intn(nv)
			if installed >= 0 && r.Intn(4) != 0 {
				v = installed
			}
			o = Op6{Op: "write", V: v, I: r.Intn(lens[v]), X: fs(c.genValue(r))}
			if v == installed {
				tags["in-place-write"] = true
			}
		case 2:
			if installed < 0 && r.Intn(10) != 0 {
				continue // Estimate without data panics: rare
			}
			o = Op6{Op: "est"}
			if installed >= 0 {
				o.HasG, o.G = genGamma6(r, lens[installed])
			}
		case 3:
			o = Op6{Op: "eod", V: r.Intn(nv)}
			installed = o.V
			o.HasG, o.G = genGamma6(r, lens[o.V])
		case 4:
			o = Op6{Op: "init"}
			c.Ops = append(c.Ops, o)
			tags["batch"] = true
			for k, m := 0, r.Range(0, 4); k < m; k++ {
				b := Op6{Op: "obs", X: fs(c.genValue(r))}
				if r.Intn(3) != 0 {
					b.HasG, b.G = true, []FS{fs(gpool6[r.Intn(len(gpool6))])}
				}
				c.Ops = append(c.Ops, b)
			}
			if r.Intn(4) != 0 {
				c.Ops = append(c.Ops, Op6{Op: "get"})
			}
			continue
		case 5:
			o = Op6{Op: "obs", X: fs(c.genValue(r))}
			if r.Bool() {
				o.HasG, o.G = true, []FS{fs(gpool6[r.Intn(len(gpool6))])}
			}
		default:
			o = Op6{Op: "get"}
		}
		c.Ops = append(c.Ops, o)
	}
	// always end with an estimate on installed data under fresh weights
	if installed < 0 {
		installed = r.Intn(nv)
		c.Ops = append(c.Ops, Op6{Op: "set", V: installed})
	}
	o := Op6{Op: "est"}
	o.HasG, o.G = genGamma6(r, lens[installed])
	c.Ops = append(c.Ops, o)
	c.Tag = fmt.Sprintf("seq|%s", []string{"exponential", "poisson", "geometric", "categorical"}[map[int]int{0: 0, 1: 1, 2: 2, 3: 3, 10: 0}[c.Fam]])
	if c.Fam == 10 {
		c.Tag = "seq|normal"
	}
	for t := range tags {
		c.Tag += "|" + t
	}
	return c
}

func genEmFinal(r *Rng) *Case6 {
	e := genEM(r)
	e.Tag = "emfinal|" + e.Tag
	// coarse epsilon: the convergence test fires early, the returned mixture is the last update
	if r.Intn(3) == 0 {
		e.Eps = fs([]float64{0.5, 2, 8, 0.05}[r.Intn(4)])
		if e.MaxSteps >= 0 && e.MaxSteps < 6 {
			e.MaxSteps = 8
		}
		e.Tag += "|coarse-eps"
	}
	// earlier runs of the same estimator object on other data, mostly of the same length
	if r.Intn(3) != 0 {
		n := len(e.Xs)
		for k, m := 0, r.Range(1, 2); k < m; k++ {
			l := n
			if r.Intn(4) == 0 {
				l = r.Range(1, 12)
			}
			xs := make([]float64, l)
			for i := range xs {
				if e.Fam == 1 {
					xs[i] = float64(r.Range(0, 9))
				} else {
					xs[i] = float64(r.Intn(e.J))
				}
			}
			e.PreXs = append(e.PreXs, fss(xs))
		}
		e.InPlace = r.Intn(3) == 0
		e.Tag += "|reused-object"
		if e.InPlace {
			e.Tag += "|in-place"
		}
		// keep the earlier runs short
		if e.MaxSteps < 0 || e.MaxSteps > 4 {
			e.MaxSteps = 4
		}
	}
	return &Case6{Kind: "emfinal", Em: e, Tag: e.Tag}
}

func genReuse3(r *Rng) *Case6 {
	var c *Case3
	switch r.Pick([]int{35, 25, 25, 15}) {
	case 0:
		c = genVNormal(r)
	case 1:
		c = genSid(r)
	case 2:
		c = genSiid(r)
	default:
		c = genNegBin(r)
	}
	// number of log-weights a call on data of the case's shape takes
	nobs := len(c.Xs)
	switch c.Kind {
	case "negbin":
		nobs = len(c.Xs[0])
	case "siid":
		nobs = 0
		for _, row := range c.Xs {
			nobs += len(row)
		}
	}
	// earlier calls: data of the SAME shape with other values (some rows / entries replaced by their neighbours, so
	// that the multiset of observations differs), other weights; sometimes data of another shape
	for k, m := 0, r.Range(1, 2); k < m; k++ {
		p := Pre3{}
		if r.Intn(5) == 0 {
			var d *Case3
			switch c.Kind {
			case "vnormal":
				d = genVNormal(r)
			case "sid":
				d = genSid(r)
			case "siid":
				d = genSiid(r)
			default:
				d = genNegBin(r)
			}
			p = Pre3{Xs: d.Xs, HasG: d.HasG, G: d.G}
		} else {
			for _, row := range c.Xs {
				p.Xs = append(p.Xs, append([]FS{}, row...))
			}
			if c.Kind == "negbin" {
				row := p.Xs[0]
				for i := range row {
					if i == 0 || r.Bool() {
						row[i] = c.Xs[0][(i+1)%len(row)]
					}
				}
			} else {
				for i := range p.Xs {
					if i == 0 || r.Bool() {
						p.Xs[i] = append([]FS{}, c.Xs[(i+1)%len(c.Xs)]...)
					}
				}
			}
			if c.Kind != "siid" || c.HasG {
				p.HasG, p.G = genGamma6(r, nobs)
			}
		}
		c.Pre = append(c.Pre, p)
	}
	c.InPlace = r.Intn(3) == 0
	c.Tag = "reuse3|" + c.Tag
	if c.InPlace {
		c.Tag += "|in-place"
	}
	return &Case6{Kind: "reuse3", C3: c, Tag: c.Tag}
}

func gen6(r *Rng) *Case6 {
	switch r.Pick([]int{56, 22, 22}) {
	case 0:
		return genSeq(r)
	case 1:
		return genEmFinal(r)
	}
	return genReuse3(r)
}

func loadCorpus6(path string) []*Case6 {
	var out []*Case6
	b, err := os.ReadFile(path)
	if err != nil {
		return nil
	}
	for _, l := range strings.Split(string(b), "\n") {
		l = strings.TrimSpace(l)
		if l == "" {
			continue
		}
		c := &Case6{}
		if err := json.Unmarshal([]byte(l), c); err != nil {
			Die("corpus6: %v", err)
		}
		out = append(out, c)
	}
	return out
}

func (c *Case6) skipped() bool {
	if c.Kind == "reuse3" && sidStaleFailure(c.C3) {
		if _, fd := oracleReuse3(c.C3); fd != "" {
			return true // instance of the known finding: decided by the witness replay of the hunt, not compared
		}
	}
	return (c.Kind == "emfinal" && c.Em.Err) || (c.Kind == "reuse3" && (c.C3.Kind == "emnormal" || c.C3.Kind == "logreg"))
}

func nontrivial6(c *Case6) bool {
	switch c.Kind {
	case "seq": // at least two estimates that succeeded on the one object
		n := 0
		for _, o := range c.Ops {
			if (o.Op == "est" || o.Op == "eod" || o.Op == "get") && o.Out == "ok" {
				n++
			}
		}
		return n >= 2
	case "emfinal":
		return !c.Em.Err && len(c.Em.Trace) >= 3 && c.Em.K >= 2
	case "num": // at least two evaluations of the objective, weighted data
		return len(c.Num.Calls) >= 2 && c.Num.HasG
	}
	return !c.C3.Err && len(c.C3.Pre) > 0
}

func round6(o Opts) {
	r := NewRng(o.Seed*1000003 + 6)
	var cs []*Case6
	if i := strings.Index(o.Extra, ":"); i >= 0 {
		for _, c := range loadCorpus6(o.Extra[i+1:]) {
			c.Tag = "corpus|" + c.Tag
			cs = append(cs, c)
		}
	}
	for i := 0; i < o.N; i++ {
		cs = append(cs, gen6(r))
	}
	r7 := NewRng(o.Seed*1000003 + 7)
	for i := 0; i < (o.N+1)/2; i++ {
		cs = append(cs, genBatch7(r7)) // round 7: mixed unweighted / weighted batches
	}
	for i := 0; i < (o.N+1)/2; i++ {
		cs = append(cs, genNum7(r7)) // round 7: the objective of NumericEstimator
	}
	hist := map[string]int{}
	nontriv := map[string]bool{}
	var kept []*Case6
	for _, c := range cs {
		execute6(c)
		if c.skipped() {
			if c.Kind == "reuse3" && sidStaleFailure(c.C3) {
				hist["sid-stale-failure-finding-instance(skipped)"]++
			} else {
				hist[c.Kind+"-error(skipped)"]++
			}
			continue
		}
		kept = append(kept, c)
		for _, t := range strings.Split(c.Tag, "|") {
			hist[t]++
		}
		hist["kind:"+c.Kind]++
		for _, op := range c.Ops {
			hist["op:"+op.Op+":"+op.Out]++
		}
		if nontrivial6(c) {
			b, _ := json.Marshal(c)
			nontriv[string(b)] = true
		}
	}
	if err := os.MkdirAll(o.Out, 0755); err != nil {
		Die("%v", err)
	}
	per := 30
	nsh, ntab := 0, 0
	sizes := []int{}
	for s := 0; s < len(kept); s += per {
		e := s + per
		if e > len(kept) {
			e = len(kept)
		}
		n, err := writeShard6(o.Out, "r6", nsh, kept[s:e])
		if err != nil {
			Die("%v", err)
		}
		sizes = append(sizes, e-s)
		ntab += n
		nsh++
	}
	f, _ := os.Create(filepath.Join(o.Out, "r6.jsonl"))
	enc := json.NewEncoder(f)
	for _, c := range kept {
		enc.Encode(c)
	}
	f.Close()
	samples := []interface{}{}
	for i := 0; i < len(kept) && i < 1; i++ {
		samples = append(samples, kept[i])
	}
	meta := map[string]interface{}{
		"name": "round6", "evaluations": len(kept), "distinct_nontrivial": len(nontriv),
		"rule":    "call sequence: >= 2 successful estimates on the one object; EM: >= 2 components and >= 2 recorded iterations; vector / product / negative binomial estimators: a successful estimate after >= 1 earlier call on the same object",
		"samples": samples, "histogram": hist, "shards": nsh, "shard_sizes": sizes,
		"extra": map[string]interface{}{"exp_table_entries_certified_round6": ntab},
	}
	b, _ := json.MarshalIndent(meta, "", " ")
	os.WriteFile(filepath.Join(o.Out, "r6.meta.json"), b, 0644)
}

// ---------------------------------------------------------------- replay / hunt

func replay6(o Opts, c *Case6) {
	execute6(c)
	os.MkdirAll(o.Out, 0755)
	if _, err := writeShard6(o.Out, "replay", 0, []*Case6{c}); err != nil {
		Die("%v", err)
	}
	msg := oracle6(c)
	hb, _ := json.MarshalIndent(map[string]interface{}{"found": msg != "", "failure": msg, "case": c}, "", " ")
	os.WriteFile(filepath.Join(o.Out, "hunt.json"), hb, 0644)
}

func clone6(c *Case6) *Case6 {
	b, _ := json.Marshal(c)
	d := &Case6{}
	json.Unmarshal(b, d)
	return d
}

// drop calls / earlier runs / observations while the failure persists
func shrink6(c *Case6) *Case6 {
	cur := clone6(c)
	fails := func(t *Case6) bool {
		execute6(t)
		return !t.skipped() && oracle6(t) != ""
	}
	for changed := true; changed; {
		changed = false
		var cands []*Case6
		switch cur.Kind {
		case "seq":
			for i := 0; i < len(cur.Ops)-1; i++ {
				t := clone6(cur)
				t.Ops = append(t.Ops[:i], t.Ops[i+1:]...)
				cands = append(cands, t)
			}
		case "emfinal":
			for i := range cur.Em.PreXs {
				t := clone6(cur)
				t.Em.PreXs = append(t.Em.PreXs[:i], t.Em.PreXs[i+1:]...)
				cands = append(cands, t)
			}
			for i := 0; i < len(cur.Em.Xs) && len(cur.Em.Xs) > 1 && !cur.Em.InPlace; i++ {
				t := clone6(cur)
				t.Em.Xs = append(t.Em.Xs[:i], t.Em.Xs[i+1:]...)
				cands = append(cands, t)
			}
		case "num":
			for i := 0; i < len(cur.Num.Xs) && len(cur.Num.Xs) > 1; i++ {
				t := clone6(cur)
				t.Num.Xs = append(t.Num.Xs[:i], t.Num.Xs[i+1:]...)
				if t.Num.HasG {
					t.Num.G = append(t.Num.G[:i], t.Num.G[i+1:]...)
				}
				keep := false // a witness keeps an observation inside the support that carries weight
				for k, x := range ffs(t.Num.Xs) {
					if !t.Num.outOfSupport(x) && (!t.Num.HasG || !math.IsInf(t.Num.G[k].f(), -1)) {
						keep = true
					}
				}
				if keep {
					cands = append(cands, t)
				}
			}
		case "reuse3":
			for i := range cur.C3.Pre {
				t := clone6(cur)
				t.C3.Pre = append(t.C3.Pre[:i], t.C3.Pre[i+1:]...)
				cands = append(cands, t)
			}
		}
		for _, t := range cands {
			if fails(t) {
				cur, changed = t, true
				break
			}
		}
	}
	execute6(cur)
	return cur
}

func hunt6(o Opts, handed []*Case6, res map[string]interface{}) {
	if b, err := os.ReadFile(os.Getenv("C16_SID_WITNESS")); err == nil {
		w := &Case6{}
		if json.Unmarshal(b, w) == nil && w.C3 != nil {
			execute6(w)
			_, fd := oracleReuse3(w.C3)
			res["sidstale"] = fd
		}
	}
	try := func(c *Case6) bool {
		execute6(c)
		if c.skipped() {
			return false
		}
		if m := oracle6(c); m != "" {
			s := shrink6(c)
			if m2 := oracle6(s); m2 != "" {
				c, m = s, m2
			}
			res["found"], res["failure"], res["case"] = true, m, c
			return true
		}
		return false
	}
	for _, c := range handed {
		if try(c) {
			return
		}
	}
	r := NewRng(o.Seed*1000003 + 66)
	for i := 0; i < o.N; i++ {
		if try(gen6(r)) {
			return
		}
		if i%2 == 0 && try(genBatch7(r)) {
			return
		}
		if i%4 == 1 && try(genNum7(r)) {
			return
		}
	}
}
