// Property-level oracle on the implementation (independent of the Coq model):
// weighted log-likelihood at the returned parameters against admissible
// alternatives, EM monotonicity and the likelihood bookkeeping of the hooks.
// Used by the hunt (a search, never the decision) and by --replay.
package main

import (
	"encoding/json"
	"fmt"
	"math"
	"os"
	"path/filepath"

	. "adharness/common"
)

func linWeights(c *Case) []float64 {
	n := len(c.Xs)
	w := make([]float64, n)
	if !c.HasG {
		for i := range w {
			w[i] = 1
		}
		return w
	}
	g := ffs(c.G)
	gm := math.Inf(-1)
	for _, v := range g {
		gm = math.Max(gm, v)
	}
	for i := range w {
		w[i] = math.Exp(g[i] - gm)
	}
	return w
}

// weighted log-likelihood of the family at parameter vector th (constants dropped)
func loglik(c *Case, w, x, th []float64) float64 {
	s := 0.0
	for i := range x {
		if w[i] == 0 {
			continue
		}
		var t float64
		switch {
		case c.Kind == "normal":
			d := x[i] - th[0]
			t = -math.Log(th[1]) - d*d/(2*th[1]*th[1])
		case c.Kind == "rate" && c.Fam == 0:
			t = math.Log(th[0]) - th[0]*x[i]
		case c.Kind == "rate" && c.Fam == 1:
			if x[i] < 0 {
				continue
			}
			t = -th[0]
			if x[i] != 0 {
				t += x[i] * math.Log(th[0])
			}
		case c.Kind == "rate":
			t = math.Log(th[0])
			if x[i] != 0 {
				t += x[i] * math.Log(1-th[0])
			}
		default:
			t = math.Log(th[int(x[i])])
		}
		s += w[i] * t
	}
	return s
}

func admissible(c *Case, th []float64) bool {
	switch {
	case c.Kind == "normal":
		return th[1] > 0 && th[1] >= c.Bound.f()
	case c.Kind == "rate" && c.Fam == 0:
		return th[0] > 0 && th[0] <= c.Bound.f()
	case c.Kind == "rate" && c.Fam == 1:
		return th[0] > 0
	case c.Kind == "rate":
		return th[0] > 0 && th[0] <= 1
	}
	s := 0.0
	for _, v := range th {
		if v < 0 {
			return false
		}
		s += v
	}
	return s <= 1+1e-12
}

var factors = []float64{0.25, 0.5, 0.9, 0.99, 0.999, 1.001, 1.01, 1.1, 2, 4}

// alternatives to th: multiplicative / additive moves of single coordinates; categorical: mass moved between two categories
func alternatives(c *Case, th []float64) [][]float64 {
	var out [][]float64
	if c.Kind == "cat" {
		for i := range th {
			for j := range th {
				if i == j {
					continue
				}
				for _, e := range []float64{1e-3, 1e-2, 0.1, 0.5} {
					m := e * th[i]
					a := append([]float64{}, th...)
					a[i] -= m
					a[j] += m
					out = append(out, a)
				}
			}
		}
		return out
	}
	for i := range th {
		for _, f := range factors {
			a := append([]float64{}, th...)
			if c.Kind == "normal" && i == 0 {
				a[0] = th[0] + (f-1)*th[1]
			} else {
				a[i] = th[i] * f
			}
			out = append(out, a)
		}
	}
	return out
}

func oracleEstimator(c *Case) string {
	if c.Err {
		return ""
	}
	w, x, th := linWeights(c), ffs(c.Xs), ffs(c.Res)
	W := 0.0
	for _, v := range w {
		W += v
	}
	if !(W > 0) {
		return ""
	}
	if c.Kind == "normal" && math.IsNaN(th[1]) {
		return fmt.Sprintf("returned standard deviation is NaN (mu = %v) although the data carry weight", th[0])
	}
	if c.Kind == "normal" && math.IsNaN(th[0]) {
		// e.g. log-weights all above 709 or all below -745 exponentiated without the gamma_max rescaling
		return fmt.Sprintf("returned mean is NaN (sigma = %v) without an error although the data carry weight", th[1])
	}
	if c.Kind == "normal" && !c.Pert {
		return ""
	}
	if c.Kind == "normal" {
		// conditioning rule of the check (see Corr.well_conditioned): E[x^2] - E[x]^2 cancels in binary64
		// when the variance is below 2^-20 E[x^2]; the returned sigma is then rounding noise
		m, q := 0.0, 0.0
		for i := range x {
			m += w[i] * x[i] / W
		}
		v := 0.0
		for i := range x {
			v += w[i] * (x[i] - m) * (x[i] - m) / W
			q += w[i] * x[i] * x[i] / W
		}
		if !(v >= q/1048576) || q == 0 {
			return ""
		}
	}
	if !admissible(c, th) {
		return fmt.Sprintf("returned parameters %v are outside the configured bounds", th)
	}
	l0 := loglik(c, w, x, th)
	if math.IsNaN(l0) {
		return fmt.Sprintf("log-likelihood at the returned parameters %v is NaN", th)
	}
	tol := 1e-9 * (math.Abs(l0) + W)
	for _, a := range alternatives(c, th) {
		if !admissible(c, a) {
			continue
		}
		if l := loglik(c, w, x, a); l > l0+tol {
			return fmt.Sprintf("admissible parameters %v have higher weighted log-likelihood %v than the estimate %v (%v)", a, l, th, l0)
		}
	}
	return ""
}

func logAdd(a, b float64) float64 {
	if a > b {
		a, b = b, a
	}
	if math.IsInf(a, -1) {
		return b
	}
	return b + math.Log1p(math.Exp(a-b))
}

// log-likelihood of the data under the mixture recorded in a hook
func mixLoglik(c *Case, h Hook) float64 {
	s := 0.0
	for _, xv := range ffs(c.Xs) {
		t := math.Inf(-1)
		for k := 0; k < c.K; k++ {
			var lp float64
			if c.Fam == 1 {
				lam := h.Ps[k][0].f()
				lg, _ := math.Lgamma(xv + 1)
				lp = -lam - lg
				if xv != 0 {
					lp += xv * math.Log(lam)
				}
			} else {
				lp = h.Ps[k][int(xv)].f()
			}
			t = logAdd(t, h.Lw[k].f()+lp)
		}
		s += t
	}
	return s
}

func relClose(a, b, tol float64) bool { return math.Abs(a-b) <= tol*(math.Abs(a)+math.Abs(b)+1) }

// returns (failure, lag): failure = property violated; lag = the reported likelihood belongs to the
// parameters of the previous hook call, not to the mixture handed to the same call
func oracleEM(c *Case) (string, string) {
	if c.Err || len(c.Trace) < 2 {
		return "", ""
	}
	lag := ""
	for t := 1; t < len(c.Trace); t++ {
		h := c.Trace[t]
		if h.I != t {
			return fmt.Sprintf("hook call %d reports iteration %d", t, h.I), lag
		}
		lik := h.Lik.f()
		prev := mixLoglik(c, c.Trace[t-1])
		if !relClose(lik, prev, 1e-9) {
			return fmt.Sprintf("iteration %d: reported likelihood %v is not the log-likelihood %v of the parameters the E-step used", t, lik, prev), lag
		}
		if t >= 2 {
			l0 := c.Trace[t-1].Lik.f()
			if lik < l0-1e-9*(math.Abs(l0)+1) {
				return fmt.Sprintf("iteration %d: likelihood decreased from %v to %v", t, l0, lik), lag
			}
			if d := lik - l0; h.Eps.f() != d {
				return fmt.Sprintf("iteration %d: reported change %v differs from %v", t, h.Eps.f(), d), lag
			}
		}
		own := mixLoglik(c, h)
		if lag == "" && !relClose(lik, own, 1e-6) {
			lag = fmt.Sprintf("iteration %d: hook receives likelihood %v together with a mixture whose log-likelihood is %v (it is the likelihood of the mixture of iteration %d)", t, lik, own, t-1)
		}
	}
	// EM ascent including the final update
	return "", lag
}

func oracle(c *Case) string {
	if c.Kind == "em" {
		f, _ := oracleEM(c)
		return f
	}
	return oracleEstimator(c)
}

// drop observations while the failure persists
func shrink(c *Case) *Case {
	cur := *c
	for changed := true; changed; {
		changed = false
		for i := 0; i < len(cur.Xs) && len(cur.Xs) > 1; i++ {
			t := cur
			t.Xs = append(append([]FS{}, cur.Xs[:i]...), cur.Xs[i+1:]...)
			if cur.HasG {
				t.G = append(append([]FS{}, cur.G[:i]...), cur.G[i+1:]...)
			}
			execute(&t)
			if oracle(&t) != "" {
				cur = t
				changed = true
				break
			}
		}
	}
	return &cur
}

func hunt(o Opts) {
	res := map[string]interface{}{"found": false}
	var handed2 []*Case2
	var handed3 []*Case3
	var clamp3 *Case3
	var handed5 []*Case5
	var handed6 []*Case6
	report := func(c *Case, msg string) {
		s := shrink(c)
		execute(s)
		m := oracle(s)
		if m == "" {
			s, m = c, msg
		}
		res["found"], res["failure"], res["case"] = true, m, s
	}
	// 1. the witness of the known hook-lag finding, and cases handed over by the correspondence stage
	if o.Replay != "" {
		var in struct {
			Cases  []*Case  `json:"cases"`
			Cases2 []*Case2 `json:"cases2"`
			Lag    *Case    `json:"lag_witness"`
			Cases3 []*Case3 `json:"cases3"`
			Clamp  *Case3   `json:"vclamp_witness"`
			Cases5 []*Case5 `json:"cases5"`
			Cases6 []*Case6 `json:"cases6"`
		}
		if b, err := os.ReadFile(o.Replay); err == nil {
			json.Unmarshal(b, &in)
		}
		if in.Lag != nil {
			execute(in.Lag)
			_, lag := oracleEM(in.Lag)
			res["lag"] = lag
		}
		for _, c := range in.Cases {
			execute(c)
			if m := oracle(c); m != "" && res["found"] == false {
				report(c, m)
			}
		}
		handed2 = in.Cases2
		handed3, clamp3 = in.Cases3, in.Clamp
		handed5 = in.Cases5
		handed6 = in.Cases6
	}
	if res["found"] == false {
		o6 := o
		o6.N = o.N / 3
		hunt6(o6, handed6, res)
	}
	if res["found"] == false {
		hunt5(o, handed5, res)
	}
	if res["found"] == false {
		huntHMM(o, handed2, res)
	}
	if res["found"] == false {
		hunt3(o, handed3, clamp3, res)
	}
	// 2. tiny data sets over a grid, per family
	if res["found"] == false {
		vals := []float64{0, 1, 2, 5}
		gs := [][]float64{nil, {0, 0, 0}, {0, -1, -30}, {-2, 0, math.Inf(-1)}, {-700, -700, -700}, {800, 801, 799.5}, {-900, -901, -899.5}}
	grid:
		for kind := 0; kind < 5; kind++ {
			for n := 1; n <= 3; n++ {
				idx := make([]int, n)
				for {
					xs := make([]float64, n)
					for i := range xs {
						xs[i] = vals[idx[i]]
					}
					for _, g := range gs {
						for _, b := range []float64{0, 0.5, 4, 1e300} {
							c := &Case{Pert: true}
							switch kind {
							case 0:
								c.Kind = "normal"
							case 4:
								c.Kind, c.K = "cat", 6
							default:
								c.Kind, c.Fam = "rate", kind-1
							}
							if kind == 1 {
								for i := range xs {
									xs[i] += 0.5
								}
							}
							c.Bound = fs(b)
							if (kind >= 2 && b != 0) || (kind == 1 && b == 0) {
								continue
							}
							c.Xs = fss(xs)
							if g != nil {
								c.HasG, c.G = true, fss(g[:n])
							}
							execute(c)
							if m := oracle(c); m != "" {
								report(c, m)
								break grid
							}
						}
					}
					i := 0
					for ; i < n; i++ {
						idx[i]++
						if idx[i] < len(vals) {
							break
						}
						idx[i] = 0
					}
					if i == n {
						break
					}
				}
			}
		}
	}
	// 3. random estimator cases and EM initialisations
	if res["found"] == false {
		r := NewRng(o.Seed + 7777)
		for i := 0; i < o.N; i++ {
			var c *Case
			switch r.Intn(4) {
			case 0:
				c = genNormal(r)
			case 1:
				c = genRate(r)
			case 2:
				c = genCat(r)
			default:
				c = genEM(r)
			}
			execute(c)
			if m := oracle(c); m != "" {
				report(c, m)
				break
			}
		}
	}
	b, _ := json.MarshalIndent(res, "", " ")
	os.MkdirAll(o.Out, 0755)
	os.WriteFile(filepath.Join(o.Out, "hunt.json"), b, 0644)
}
