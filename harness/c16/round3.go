// C16 harness, round 3 (mode --extra round3[:corpus]): vector normal estimator, scalarId / scalarIid product
// estimators, negative binomial estimator, logistic regression (certified gradient at the returned parameters)
// and single EM steps of mixtures with normal components.
// Writes r3_<k>.v shards for coq/C16/Corr3.v, exp-table certificates cert_r3_<k>_<part>.v, gradient
// certificates grad_r3_<k>.v, r3.jsonl and r3.meta.json.
package main

import (
	"encoding/json"
	"fmt"
	"math"
	"os"
	"path/filepath"
	"strings"

	. "adharness/common"

	ad "github.com/pbenner/autodiff"
	st "github.com/pbenner/autodiff/statistics"
	se "github.com/pbenner/autodiff/statistics/scalarEstimator"
	ve "github.com/pbenner/autodiff/statistics/vectorEstimator"
	tp "github.com/pbenner/threadpool"
)

type Comp struct {
	Fam   int `json:"fam"` // 10 normal (Bound = SigmaMin), 0 exponential (Bound = LambdaMax), 1 poisson, 2 geometric
	Bound FS  `json:"bound"`
}

type Case3 struct {
	Kind  string  `json:"kind"` // vnormal | sid | siid | negbin | logreg | emnormal
	D     int     `json:"d"`
	Bound FS      `json:"bound"` // vnormal: SigmaMin; negbin: r
	Xs    [][]FS  `json:"xs"`    // data vectors (negbin: one vector)
	HasG  bool    `json:"has_g"`
	G     []FS    `json:"g"`
	Pert  bool    `json:"pert"`
	Comps []Comp  `json:"comps"`
	Err   bool    `json:"err"`
	Mu    []FS    `json:"mu"`
	Si    [][]FS  `json:"si"`
	Res   [][]FS  `json:"res"` // sid: parameters per component; siid / negbin: one row
	Tag   string  `json:"tag"`
	// logistic regression
	Labels []int `json:"labels"`
	Sparse bool  `json:"sparse"`
	Theta  []FS  `json:"theta"`
	Eps    FS    `json:"eps"`
	// em with normal components: K components, state before (W0, P0 = (mu, sigma) rows), hook trace
	K        int    `json:"k"`
	W0       []FS   `json:"w0"`
	P0       [][]FS `json:"p0"`
	MaxSteps int    `json:"max_steps"`
	Trace    []Hook `json:"trace"`
	// round 6: calls the SAME estimator object went through before the call of the case; InPlace: the case's data
	// are written into the vectors of the last earlier call (same shape) instead of fresh vectors
	Pre     []Pre3 `json:"pre,omitempty"`
	InPlace bool   `json:"in_place,omitempty"`
	PreErr  []bool `json:"pre_err,omitempty"` // observed: which earlier calls failed (error or panic)
}

type Pre3 struct {
	Xs   [][]FS `json:"xs"`
	HasG bool   `json:"has_g"`
	G    []FS   `json:"g"`
}

// the earlier calls of the case on one estimator object, then the case's own call; returns its error.
// set installs data vectors (SetData), est estimates with the given log-weights, reinstall: the estimator copies
// the data in SetData, so after an in-place write SetData is called again with the same vectors.
func (c *Case3) callSeq(rows func([][]FS) []ad.DenseFloat64Vector, set func([]ad.DenseFloat64Vector) error,
	est func(ad.ConstVector) error, eod func([]ad.DenseFloat64Vector, ad.ConstVector) error, reinstall bool, gamma ad.ConstVector) error {
	var prev []ad.DenseFloat64Vector
	c.PreErr = nil
	for i, p := range c.Pre {
		prev = rows(p.Xs)
		c.PreErr = append(c.PreErr, true)
		var g ad.ConstVector
		if p.HasG {
			g = vec(ffs(p.G))
		}
		// an error (or panic) of an earlier call is part of the history
		func() {
			defer func() { recover() }()
			var err error
			if i%2 == 0 {
				err = eod(prev, g)
			} else if err = set(prev); err == nil {
				err = est(g)
			}
			c.PreErr[i] = err != nil
		}()
	}
	cur := rows(c.Xs)
	if len(c.Pre) == 0 || (!c.InPlace && len(c.Pre)%2 == 0) {
		return eod(cur, gamma)
	}
	same := c.InPlace && prev != nil && len(prev) == len(cur)
	for i := 0; same && i < len(cur); i++ {
		same = len(prev[i]) == len(cur[i])
	}
	if same {
		for i := range cur {
			copy(prev[i], cur[i])
		}
		if reinstall {
			if err := set(prev); err != nil {
				return err
			}
		}
	} else if err := set(cur); err != nil {
		return err
	}
	return est(gamma)
}

func rowsOf(xs [][]FS) []ad.DenseFloat64Vector {
	r := make([]ad.DenseFloat64Vector, len(xs))
	for i, x := range xs {
		r[i] = ad.NewDenseFloat64Vector(ffs(x))
	}
	return r
}
func constVecs(vs []ad.DenseFloat64Vector) []ad.ConstVector {
	r := make([]ad.ConstVector, len(vs))
	for i, v := range vs {
		r[i] = v
	}
	return r
}

func vecs(xs [][]FS) []ad.ConstVector {
	r := make([]ad.ConstVector, len(xs))
	for i, x := range xs {
		r[i] = ad.NewDenseFloat64Vector(ffs(x))
	}
	return r
}

func newComp(c Comp) st.ScalarEstimator {
	var e st.ScalarEstimator
	var err error
	switch c.Fam {
	case 10:
		e, err = se.NewNormalEstimator(0.0, 1.0, c.Bound.f())
	case 0:
		e, err = se.NewExponentialEstimator(1.0, c.Bound.f())
	case 1:
		e, err = se.NewPoissonEstimator(1.0)
	default:
		e, err = se.NewGeometricEstimator(0.5)
	}
	if err != nil {
		Die("component estimator: %v", err)
	}
	return e
}

func compNpar(c Comp) int {
	if c.Fam == 10 {
		return 2
	}
	return 1
}

func execute3(c *Case3) {
	defer func() {
		if r := recover(); r != nil {
			c.Err = true
			c.Mu, c.Si, c.Res = nil, nil, nil
			c.Tag += "|panic"
			if os.Getenv("C16_DEBUG") != "" {
				fmt.Fprintln(os.Stderr, "panic:", r)
			}
		}
	}()
	pool := tp.ThreadPool{}
	var gamma ad.ConstVector
	if c.HasG {
		gamma = vec(ffs(c.G))
	}
	c.Err, c.Mu, c.Si, c.Res = false, nil, nil, nil
	switch c.Kind {
	case "vnormal":
		mu0 := make([]float64, c.D)
		si0 := make([]float64, c.D*c.D)
		for i := 0; i < c.D; i++ {
			si0[i*c.D+i] = 1
		}
		e, err := ve.NewNormalEstimator(mu0, si0, c.Bound.f())
		if err != nil {
			Die("NewNormalEstimator: %v", err)
		}
		// the estimator keeps the slice of vectors by reference: in-place writes are seen without SetData
		if err := c.callSeq(rowsOf, func(v []ad.DenseFloat64Vector) error { return e.SetData(constVecs(v), len(v)) },
			func(g ad.ConstVector) error { return e.Estimate(g, pool) },
			func(v []ad.DenseFloat64Vector, g ad.ConstVector) error { return e.EstimateOnData(constVecs(v), g, pool) }, false, gamma); err != nil {
			c.Err = true
			return
		}
		p := e.GetParameters()
		for i := 0; i < c.D; i++ {
			c.Mu = append(c.Mu, fs(p.At(i).GetFloat64()))
		}
		for i := 0; i < c.D; i++ {
			row := []FS{}
			for j := 0; j < c.D; j++ {
				row = append(row, fs(p.At(c.D+i*c.D+j).GetFloat64()))
			}
			c.Si = append(c.Si, row)
		}
	case "sid":
		ests := make([]st.ScalarEstimator, len(c.Comps))
		for i, cc := range c.Comps {
			ests[i] = newComp(cc)
		}
		e, err := ve.NewScalarId(ests...)
		if err != nil {
			Die("NewScalarId: %v", err)
		}
		if err := c.callSeq(rowsOf, func(v []ad.DenseFloat64Vector) error { return e.SetData(constVecs(v), len(v)) },
			func(g ad.ConstVector) error { return e.Estimate(g, pool) },
			func(v []ad.DenseFloat64Vector, g ad.ConstVector) error { return e.EstimateOnData(constVecs(v), g, pool) }, true, gamma); err != nil {
			c.Err = true
			return
		}
		d, err := e.GetEstimate()
		if err != nil || d == nil {
			c.Err = true
			return
		}
		p := d.GetParameters()
		o := 0
		for _, cc := range c.Comps {
			row := []FS{}
			for j := 0; j < compNpar(cc); j++ {
				v := p.At(o).GetFloat64()
				if math.IsNaN(v) && cc.Fam != 10 { // rate families: a NaN parameter counts as failure (as in round 1); normal: replayed bit-exactly
					c.Err = true
					c.Res = nil
					return
				}
				row = append(row, fs(v))
				o++
			}
			c.Res = append(c.Res, row)
		}
		if o != p.Dim() {
			c.Err = true
			c.Res = nil
			c.Tag += "|param-count"
		}
	case "siid":
		e, err := ve.NewScalarIid(newComp(c.Comps[0]), -1)
		if err != nil {
			Die("NewScalarIid: %v", err)
		}
		if err := c.callSeq(rowsOf, func(v []ad.DenseFloat64Vector) error { return e.SetData(constVecs(v), len(v)) },
			func(g ad.ConstVector) error { return e.Estimate(g, pool) },
			func(v []ad.DenseFloat64Vector, g ad.ConstVector) error { return e.EstimateOnData(constVecs(v), g, pool) }, true, gamma); err != nil {
			c.Err = true
			return
		}
		d, err := e.GetEstimate()
		if err != nil || d == nil {
			c.Err = true
			return
		}
		p := d.GetParameters()
		row := []FS{}
		for j := 0; j < p.Dim(); j++ {
			v := p.At(j).GetFloat64()
			if math.IsNaN(v) && c.Comps[0].Fam != 10 {
				c.Err = true
				return
			}
			row = append(row, fs(v))
		}
		if len(row) != compNpar(c.Comps[0]) {
			c.Err = true
			c.Tag += "|param-count"
			return
		}
		c.Res = [][]FS{row}
	case "negbin":
		e, err := se.NewNegativeBinomialEstimator(c.Bound.f(), 0.5)
		if err != nil {
			Die("NewNegativeBinomialEstimator: %v", err)
		}
		if err := c.callSeq(rowsOf, func(v []ad.DenseFloat64Vector) error { return e.SetData(v[0], len(v[0])) },
			func(g ad.ConstVector) error { return e.Estimate(g, pool) },
			func(v []ad.DenseFloat64Vector, g ad.ConstVector) error { return e.EstimateOnData(v[0], g, pool) }, false, gamma); err != nil {
			c.Err = true
			return
		}
		p := e.GetParameters()
		if p.At(0).GetFloat64() != c.Bound.f() {
			c.Tag += "|r-changed"
			c.Err = true
			return
		}
		v := p.At(1).GetFloat64()
		if math.IsNaN(v) {
			c.Err = true
			return
		}
		c.Res = [][]FS{{fs(v)}}
	case "logreg":
		executeLogreg(c)
	case "emnormal":
		executeEmNormal(c, pool)
	}
}

// ---------------------------------------------------------------- exp table keys

func (c *Case3) keys(t tab) {
	if c.HasG {
		g := ffs(c.G)
		gm := math.Inf(-1)
		for _, v := range g {
			if gm < v {
				gm = v
			}
		}
		for _, v := range g {
			t.add(v - gm)
			if math.Abs(v) <= 700 {
				t.add(v)
			}
		}
	}
	if c.Kind == "emnormal" {
		emNormalKeys(c, t)
	}
}

// ---------------------------------------------------------------- Coq terms

func fmat(xs [][]FS) string {
	rows := make([]string, len(xs))
	for i, r := range xs {
		rows[i] = FList(ffs(r))
	}
	return List(rows)
}

func (c *Case3) coq() string {
	switch c.Kind {
	case "vnormal":
		res := "None"
		if !c.Err {
			res = fmt.Sprintf("(Some (%s, %s))", FList(ffs(c.Mu)), fmat(c.Si))
		}
		return fmt.Sprintf("C3VNormal %s %d %s %s %s %s", B(c.Pert), c.D, F(c.Bound.f()), fmat(c.Xs), optFList(c.HasG, c.G), res)
	case "sid", "siid":
		cs := make([]string, len(c.Comps))
		for i, cc := range c.Comps {
			cs[i] = fmt.Sprintf("(%d%%Z, %s)", cc.Fam, F(cc.Bound.f()))
		}
		res := "None"
		if !c.Err {
			res = "(Some " + fmat(c.Res) + ")"
		}
		ctor := "C3Sid"
		if c.Kind == "siid" {
			ctor = "C3Siid"
		}
		return fmt.Sprintf("%s %s %s %s %s %s", ctor, B(c.Pert), List(cs), fmat(c.Xs), optFList(c.HasG, c.G), res)
	case "negbin":
		res := "None"
		if !c.Err {
			res = fmt.Sprintf("(Some %s)", F(c.Res[0][0].f()))
		}
		return fmt.Sprintf("C3NegBin %s %s %s %s", F(c.Bound.f()), FList(ffs(c.Xs[0])), optFList(c.HasG, c.G), res)
	case "logreg":
		return "C3Logreg"
	case "emnormal":
		return emNormalCoq(c)
	}
	return "?"
}

const header3 = `From Coq Require Import ZArith QArith Floats List Bool.
From ADV Require Import Base.Num Base.Corr C16.Model C16.Corr C16.ModelVec C16.Corr3.
Import ListNotations.
Open Scope nat_scope.
`

func writeShard3(dir, name string, k int, cs []*Case3) (int, error) {
	t := tab{}
	t.add(0)
	for _, c := range cs {
		c.keys(t)
	}
	ks := t.sorted()
	var sb strings.Builder
	sb.WriteString(header3)
	sb.WriteString("Definition tab : exptab := [\n")
	for i, d := range ks {
		sb.WriteString(fmt.Sprintf("  (%s, %s)", F(d), F(math.Exp(d))))
		if i != len(ks)-1 {
			sb.WriteString(";")
		}
		sb.WriteString("\n")
	}
	sb.WriteString("].\nDefinition cases : list case3 := [\n")
	for i, c := range cs {
		sb.WriteString("  " + c.coq())
		if i != len(cs)-1 {
			sb.WriteString(";")
		}
		sb.WriteString("\n")
	}
	sb.WriteString("].\nDefinition M := Eval vm_compute in (C16.Corr3.mism3 tab cases).\nPrint M.\n")
	if err := os.WriteFile(filepath.Join(dir, fmt.Sprintf("%s_%d.v", name, k)), []byte(sb.String()), 0644); err != nil {
		return 0, err
	}
	if err := writeCerts(dir, "cert_"+name, k, ks); err != nil {
		return 0, err
	}
	return len(ks), nil
}

// ---------------------------------------------------------------- generators

func genVec(r *Rng, d int, mode int, base []float64, mix [][]float64) []float64 {
	z := make([]float64, d)
	for i := range z {
		switch mode {
		case 0, 1:
			z[i] = float64(r.Range(-64, 64)) / 8
		case 2:
			z[i] = float64(r.Range(-6, 6))
		default:
			z[i] = float64(r.Intn(2))
		}
	}
	x := make([]float64, d)
	for i := range x {
		x[i] = base[i]
		if mode == 1 { // correlated coordinates: small dyadic mixing matrix (exact in binary64)
			for j := range z {
				x[i] += mix[i][j] * z[j]
			}
		} else {
			x[i] += z[i]
		}
	}
	return x
}

func genVNormal(r *Rng) *Case3 {
	c := &Case3{Kind: "vnormal", Pert: true}
	c.D = r.Pick([]int{2, 5, 4, 2}) + 1
	n := genN(r)
	if n > 30 {
		n = 30
	}
	mode := r.Pick([]int{30, 40, 15, 15})
	base := make([]float64, c.D)
	mix := make([][]float64, c.D)
	for i := range base {
		base[i] = float64(r.Range(-32, 32)) / 4
		mix[i] = make([]float64, c.D)
		for j := range mix[i] {
			mix[i][j] = float64(r.Range(-4, 4)) / 4
		}
		mix[i][i] = 1
	}
	for l := 0; l < n; l++ {
		c.Xs = append(c.Xs, fss(genVec(r, c.D, mode, base, mix)))
	}
	if r.Intn(12) == 0 { // one coordinate constant: singular covariance unless SigmaMin lifts it
		k := r.Intn(c.D)
		for l := range c.Xs {
			c.Xs[l][k] = c.Xs[0][k]
		}
	}
	c.Bound = fs([]float64{0, 0, 0, 1.0 / 1024, 0.5, 2, 16, 1e-300}[r.Intn(8)])
	has, g, tag := genGamma(r, n)
	c.HasG, c.G = has, fss(g)
	c.Tag = fmt.Sprintf("vnormal|d%d|%s|%s", c.D, []string{"independent", "correlated", "integer", "binary"}[mode], tag)
	return c
}

func genComp(r *Rng) Comp {
	switch r.Intn(4) {
	case 0:
		return Comp{Fam: 10, Bound: fs([]float64{0, 1.0 / 1024, 0.5, 2}[r.Intn(4)])}
	case 1:
		return Comp{Fam: 0, Bound: fs([]float64{1e300, 4, 0.25}[r.Intn(3)])}
	case 2:
		return Comp{Fam: 1, Bound: fs(0)}
	}
	return Comp{Fam: 2, Bound: fs(0)}
}

func genCompValue(r *Rng, cc Comp) float64 {
	switch cc.Fam {
	case 10:
		return float64(r.Range(-256, 256)) / 8
	case 0:
		return float64(r.Range(1, 128)) / 8
	}
	if r.Intn(5) == 0 {
		return 0
	}
	return float64(r.Range(0, 12))
}

func genSid(r *Rng) *Case3 {
	c := &Case3{Kind: "sid", Pert: true}
	c.D = r.Range(1, 4)
	for i := 0; i < c.D; i++ {
		c.Comps = append(c.Comps, genComp(r))
	}
	n := r.Range(1, 12)
	for l := 0; l < n; l++ {
		x := make([]float64, c.D)
		for i := range x {
			x[i] = genCompValue(r, c.Comps[i])
		}
		c.Xs = append(c.Xs, fss(x))
	}
	has, g, tag := genGamma(r, n)
	c.HasG, c.G = has, fss(g)
	c.Tag = fmt.Sprintf("scalarId|d%d|%s", c.D, tag)
	return c
}

func genSiid(r *Rng) *Case3 {
	c := &Case3{Kind: "siid", Pert: true}
	c.Comps = []Comp{genComp(r)}
	n := r.Range(1, 8)
	ragged := r.Intn(3) == 0
	c.D = r.Range(1, 4)
	for l := 0; l < n; l++ {
		d := c.D
		if ragged {
			d = r.Range(1, 4)
		}
		x := make([]float64, d)
		for i := range x {
			x[i] = genCompValue(r, c.Comps[0])
		}
		c.Xs = append(c.Xs, fss(x))
	}
	c.Tag = fmt.Sprintf("scalarIid|d%d|ragged=%v", c.D, ragged)
	// log-weights are per vector but consumed per pooled coordinate: only meaningful for vectors of dimension 1
	if c.D == 1 && !ragged {
		has, g, tag := genGamma(r, n)
		c.HasG, c.G = has, fss(g)
		c.Tag += "|" + tag
	} else {
		c.Tag += "|g-nil"
	}
	return c
}

func genNegBin(r *Rng) *Case3 {
	c := &Case3{Kind: "negbin"}
	n := genN(r)
	xs := make([]float64, n)
	mode := r.Pick([]int{70, 15, 15})
	for i := range xs {
		switch mode {
		case 0:
			xs[i] = float64(r.Range(0, 20))
		case 1:
			xs[i] = 0
		default:
			xs[i] = float64(r.Intn(2) * r.Range(1, 1000))
		}
	}
	c.Xs = [][]FS{fss(xs)}
	c.Bound = fs([]float64{1, 2, 0.5, 7.25, 100, 0.0078125}[r.Intn(6)])
	has, g, tag := genGamma(r, n)
	c.HasG, c.G = has, fss(g)
	c.Tag = fmt.Sprintf("negbin|%s|%s", []string{"plain", "allzero", "zeros"}[mode], tag)
	return c
}

func nontrivial3(c *Case3) bool {
	if c.Err {
		return false
	}
	switch c.Kind {
	case "vnormal":
		return c.D >= 2 && len(c.Xs) > c.D
	case "sid":
		return c.D >= 2 && len(c.Xs) >= 2
	case "siid":
		return len(c.Xs) >= 2
	case "negbin":
		return len(c.Xs[0]) >= 2 && c.HasG
	case "logreg":
		return len(c.Xs) >= 4
	case "emnormal":
		return c.K >= 2 && len(c.Trace) >= 2
	}
	return false
}

func loadCorpus3(path string) []*Case3 {
	var out []*Case3
	b, err := os.ReadFile(path)
	if err != nil {
		return nil
	}
	for _, l := range strings.Split(string(b), "\n") {
		l = strings.TrimSpace(l)
		if l == "" {
			continue
		}
		c := &Case3{}
		if err := json.Unmarshal([]byte(l), c); err != nil {
			Die("corpus3: %v", err)
		}
		out = append(out, c)
	}
	return out
}

func gen3(r *Rng) *Case3 {
	switch r.Pick([]int{40, 14, 10, 12, 10, 14}) {
	case 0:
		return genVNormal(r)
	case 1:
		return genSid(r)
	case 2:
		return genSiid(r)
	case 3:
		return genNegBin(r)
	case 4:
		return genLogreg(r)
	}
	return genEmNormal(r)
}

func round3(o Opts) {
	r := NewRng(o.Seed*1000003 + 3)
	var cs []*Case3
	if i := strings.Index(o.Extra, ":"); i >= 0 {
		for _, c := range loadCorpus3(o.Extra[i+1:]) {
			c.Tag = "corpus|" + c.Tag
			cs = append(cs, c)
		}
	}
	for i := 0; i < o.N; i++ {
		cs = append(cs, gen3(r))
	}
	hist := map[string]int{}
	nontriv := map[string]bool{}
	var kept []*Case3
	for _, c := range cs {
		execute3(c)
		if (c.Kind == "emnormal" || c.Kind == "logreg") && c.Err {
			hist[c.Kind+"-error(skipped)"]++
			if os.Getenv("C16_DEBUG") != "" {
				fmt.Fprintln(os.Stderr, "skipped:", c.Tag)
			}
			continue
		}
		kept = append(kept, c)
		for _, t := range strings.Split(c.Tag, "|") {
			hist[t]++
		}
		hist["kind:"+c.Kind]++
		if c.Err {
			hist["outcome:error"]++
		} else {
			hist["outcome:ok"]++
		}
		if c.Kind == "vnormal" {
			if _, fd := oracleVNormal(c); fd != "" {
				hist["vnormal-clamp-finding-instance"]++
				if os.Getenv("C16_DEBUG") != "" {
					b, _ := json.Marshal(c)
					fmt.Fprintln(os.Stderr, "clamp finding:", fd, string(b))
				}
			}
		}
		if nontrivial3(c) {
			b, _ := json.Marshal(struct {
				K string
				X [][]FS
				G []FS
				C []Comp
				B FS
			}{c.Kind, c.Xs, c.G, c.Comps, c.Bound})
			nontriv[string(b)] = true
		}
	}
	if err := os.MkdirAll(o.Out, 0755); err != nil {
		Die("%v", err)
	}
	per := 25
	nsh, ntab, ngrad := 0, 0, 0
	sizes := []int{}
	for s := 0; s < len(kept); s += per {
		e := s + per
		if e > len(kept) {
			e = len(kept)
		}
		n, err := writeShard3(o.Out, "r3", nsh, kept[s:e])
		if err != nil {
			Die("%v", err)
		}
		ngrad += writeGradCerts(o.Out, "grad_r3", nsh, kept[s:e])
		sizes = append(sizes, e-s)
		ntab += n
		nsh++
	}
	f, _ := os.Create(filepath.Join(o.Out, "r3.jsonl"))
	enc := json.NewEncoder(f)
	for _, c := range kept {
		enc.Encode(c)
	}
	f.Close()
	samples := []interface{}{}
	for i := 0; i < len(kept) && i < 1; i++ {
		samples = append(samples, kept[i])
	}
	meta := map[string]interface{}{
		"name": "round3", "evaluations": len(kept), "distinct_nontrivial": len(nontriv),
		"rule":    "vector normal: dimension >= 2 and more observations than dimensions; product estimators: >= 2 observations (scalarId: >= 2 components); negative binomial: >= 2 weighted observations; logistic regression: >= 4 observations; normal-mixture EM: >= 2 components and >= 1 recorded step",
		"samples": samples, "histogram": hist, "shards": nsh, "shard_sizes": sizes,
		"extra": map[string]interface{}{"exp_table_entries_certified_round3": ntab, "gradient_components_certified": ngrad},
	}
	b, _ := json.MarshalIndent(meta, "", " ")
	os.WriteFile(filepath.Join(o.Out, "r3.meta.json"), b, 0644)
}

func replay3(o Opts, c *Case3) {
	execute3(c)
	os.MkdirAll(o.Out, 0755)
	if _, err := writeShard3(o.Out, "replay", 0, []*Case3{c}); err != nil {
		Die("%v", err)
	}
	writeGradCerts(o.Out, "cert_replay_grad", 0, []*Case3{c})
	msg := oracle3(c)
	hb, _ := json.MarshalIndent(map[string]interface{}{"found": msg != "", "failure": msg, "case": c}, "", " ")
	os.WriteFile(filepath.Join(o.Out, "hunt.json"), hb, 0644)
}
