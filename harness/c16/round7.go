// C16, round 7:
//  - BATCH interface with unweighted (gamma == nil) and weighted observations MIXED in one batch
//    (Initialize; NewObservation(x, nil | g) ...; GetEstimate) for every closed-form scalar family: cases of
//    kind "seq" (round-6 object model), every GetEstimate judged against the family's estimate of the observations
//    with the effective log-weights (nil counts as log-weight 0);
//  - scalarEstimator/numeric.go: the objective of NumericEstimator on weighted data streams with -Inf log-weights
//    on observations outside the family's support (numeric.go, round7n.go).
package main

import (
	"fmt"
	"math"

	. "adharness/common"
)

// one estimator object, one or two batches with mixed observations, a final Estimate on installed data
func genBatch7(r *Rng) *Case6 {
	c := &Case6{Kind: "seq", Fam: []int{10, 0, 1, 2, 3}[r.Pick([]int{14, 20, 20, 30, 16})]}
	c.Bound = fs(0)
	switch c.Fam {
	case 10:
		c.Bound = fs([]float64{0, 0, 1.0 / 1024, 0.5}[r.Intn(4)])
	case 0:
		c.Bound = fs([]float64{1e300, 1e300, 4, 0.25}[r.Intn(4)])
	case 3:
		c.K = r.Range(2, 5)
	}
	n := r.Range(1, 5)
	row := make([]float64, n)
	for j := range row {
		row[j] = c.genValue(r)
	}
	c.Heap = append(c.Heap, fss(row))
	if r.Intn(3) == 0 { // the object has been used before
		o := Op6{Op: "eod", V: 0}
		o.HasG, o.G = genGamma6(r, n)
		c.Ops = append(c.Ops, o)
	}
	shape := "mixed"
	for b, nb := 0, r.Range(1, 2); b < nb; b++ {
		c.Ops = append(c.Ops, Op6{Op: "init"})
		m := r.Range(2, 8)
		// shapes: alternating, unweighted block then weighted block, weighted then unweighted, random, one of a kind among the others
		sh := r.Intn(5)
		for k := 0; k < m; k++ {
			o := Op6{Op: "obs", X: fs(c.genValue(r))}
			var weighted bool
			switch sh {
			case 0:
				weighted = k%2 == 0
			case 1:
				weighted = k >= m/2
			case 2:
				weighted = k < m/2
			case 3:
				weighted = r.Bool()
			default:
				weighted = k != m-1
				if m%2 == 0 {
					weighted = k == 0
				}
			}
			if weighted {
				g := gpool6[r.Intn(len(gpool6))]
				if r.Intn(10) == 0 {
					g = math.Inf(-1)
				}
				o.HasG, o.G = true, []FS{fs(g)}
			}
			c.Ops = append(c.Ops, o)
		}
		c.Ops = append(c.Ops, Op6{Op: "get"})
		if r.Intn(4) == 0 {
			c.Ops = append(c.Ops, Op6{Op: "get"})
		}
	}
	if r.Bool() {
		c.Ops = append(c.Ops, Op6{Op: "set", V: 0})
		o := Op6{Op: "est"}
		o.HasG, o.G = genGamma6(r, n)
		c.Ops = append(c.Ops, o)
	}
	c.Tag = fmt.Sprintf("seq|%s|batch-%s", map[int]string{0: "exponential", 1: "poisson", 2: "geometric", 3: "categorical", 10: "normal"}[c.Fam], shape)
	return c
}

// the maximiser oracle for a batch: observations ops[from+1 .. to-1] of kind obs, GetEstimate at ops[to]
func oracleBatch7(c *Case6, from, to int) string {
	o := &c.Ops[to]
	if o.Out != "ok" || anyNaN(ffs(o.Res)) {
		return ""
	}
	var xs, gs []float64
	any := false
	for j := from + 1; j < to; j++ {
		if c.Ops[j].Op != "obs" {
			continue
		}
		xs = append(xs, c.Ops[j].X.f())
		if c.Ops[j].HasG {
			any = true
			gs = append(gs, c.Ops[j].G[0].f())
		} else {
			gs = append(gs, 0)
		}
	}
	if len(xs) == 0 {
		return ""
	}
	cc := &Case{Pert: true, Bound: c.Bound, K: c.K, Xs: fss(xs), HasG: any, G: fss(gs), Res: o.Res}
	switch c.Fam {
	case 10:
		cc.Kind = "normal"
	case 3:
		cc.Kind = "cat"
	default:
		cc.Kind, cc.Fam = "rate", c.Fam
	}
	if m := oracleEstimator(cc); m != "" {
		return fmt.Sprintf("call %d (GetEstimate after Initialize + observations %v with log-weights %v, nil counted as 0; mixed=%v): %s", to, xs, gs, any, m)
	}
	return ""
}
