// C16 harness, round 3 (continued): logistic regression with certified gradient, the float-level property
// oracle for the round-3 kinds, and the hunt over them.
package main

import (
	"fmt"
	"math"
	"os"
	"path/filepath"
	"strings"

	. "adharness/common"

	ad "github.com/pbenner/autodiff"
	ve "github.com/pbenner/autodiff/statistics/vectorEstimator"
	tp "github.com/pbenner/threadpool"
)

// ---------------------------------------------------------------- logistic regression

const logregMaxEpochs = 20000

// tolerance of the certified stationarity check: | d/dtheta_j (1/n) sum_i log p(c_i | x_i, theta) | <= logregTol
const logregTol = "0x1p-20"

func executeLogreg(c *Case3) {
	m := c.D // number of features (theta has m+1 entries)
	e, err := ve.NewLogisticRegression(m+1, c.Sparse)
	if err != nil {
		Die("NewLogisticRegression: %v", err)
	}
	e.Epsilon = c.Eps.f()
	e.MaxIterations = logregMaxEpochs
	e.Seed = 42
	epochs := 0
	if c.Sparse {
		// (the dense path dereferences the nil proximal operator when a hook is installed without regularisation:
		//  saga1Dense calls proxop.GetLambda() for the hook arguments; the hook is only used on the sparse path)
		e.Hook = func(x ad.ConstVector, step, lambda ad.ConstScalar, i int) bool {
			epochs++
			return false
		}
	}
	xs := make([]ad.ConstVector, len(c.Xs))
	for i, x := range c.Xs {
		v := append([]float64{1.0}, ffs(x)...)
		v = append(v, float64(c.Labels[i]))
		xs[i] = ad.NewDenseFloat64Vector(v)
	}
	if err := e.EstimateOnData(xs, nil, tp.ThreadPool{}); err != nil {
		c.Err = true
		c.Tag += "|estimate-error"
		return
	}
	if epochs >= logregMaxEpochs {
		// not a converged return: outside the statement
		c.Err = true
		c.Tag += "|not-converged"
		return
	}
	th := e.GetParameters()
	c.Theta = nil
	for j := 0; j < th.Dim(); j++ {
		v := th.At(j).GetFloat64()
		if math.IsNaN(v) || math.IsInf(v, 0) {
			c.Err = true
			return
		}
		c.Theta = append(c.Theta, fs(v))
	}
}

func genLogreg(r *Rng) *Case3 {
	c := &Case3{Kind: "logreg", Sparse: r.Bool()}
	c.D = r.Range(1, 2)
	// anchor points carrying BOTH labels (distinct for one feature, not collinear for two): the classes cannot be
	// separated, so the log-likelihood has a finite maximiser and SAGA's stopping rule is reached
	anchors := [][]float64{{-1}, {1.5}}
	if c.D == 2 {
		anchors = [][]float64{{-1, 0.5}, {1.5, 0}, {0.25, -1.25}}
	}
	for _, a := range anchors {
		for lab := 0; lab < 2; lab++ {
			c.Xs = append(c.Xs, fss(a))
			c.Labels = append(c.Labels, lab)
		}
	}
	n := r.Range(2, 8)
	for l := 0; l < n; l++ {
		x := make([]float64, c.D)
		for i := range x {
			x[i] = float64(r.Range(-8, 8)) / 4
		}
		c.Xs = append(c.Xs, fss(x))
		lab := 0
		if x[0]+float64(r.Range(-6, 6))/4 > 0 {
			lab = 1
		}
		c.Labels = append(c.Labels, lab)
	}
	c.Eps = fs([]float64{1e-8, 1e-9, 1e-7}[r.Intn(3)])
	c.Tag = fmt.Sprintf("logreg|m%d|sparse=%v", c.D, c.Sparse)
	return c
}

// gradient of the log-likelihood at theta (float, for the oracle)
func logregGrad(c *Case3, th []float64) []float64 {
	g := make([]float64, len(th))
	for i, xv := range c.Xs {
		x := append([]float64{1.0}, ffs(xv)...)
		r := 0.0
		for j := range th {
			r += th[j] * x[j]
		}
		p := 1 / (1 + math.Exp(-r))
		for j := range th {
			g[j] += (float64(c.Labels[i]) - p) * x[j]
		}
	}
	return g
}

// Coq-Interval goals: every component of the average gradient at Go's returned theta is below logregTol
func writeGradCerts(dir, name string, k int, cs []*Case3) int {
	var cb strings.Builder
	cb.WriteString("From Coq Require Import Reals List.\nFrom Interval Require Import Tactic.\nImport ListNotations.\nOpen Scope R_scope.\n")
	goals := 0
	for _, c := range cs {
		if c.Kind != "logreg" || c.Err {
			continue
		}
		th := ffs(c.Theta)
		n := len(c.Xs)
		for j := range th {
			terms := []string{}
			for i, xv := range c.Xs {
				x := append([]float64{1.0}, ffs(xv)...)
				if x[j] == 0 {
					continue
				}
				lin := []string{}
				for q := range th {
					if x[q] != 0 {
						lin = append(lin, fmt.Sprintf("%s * %s", RLit(th[q]), RLit(x[q])))
					}
				}
				terms = append(terms, fmt.Sprintf("(%d - 1 / (1 + exp (- (%s)))) * %s", c.Labels[i], strings.Join(lin, " + "), RLit(x[j])))
			}
			if len(terms) == 0 {
				continue
			}
			cb.WriteString(fmt.Sprintf("Goal Rabs (%s) <= %d * %s. Proof. interval with (i_prec 80). Qed.\n", strings.Join(terms, " + "), n, logregTol))
			goals++
		}
	}
	if goals == 0 {
		return 0
	}
	cb.WriteString("Definition M : list nat := [].\nPrint M.\n")
	os.WriteFile(filepath.Join(dir, fmt.Sprintf("%s_%d.v", name, k)), []byte(cb.String()), 0644)
	return goals
}

// ---------------------------------------------------------------- float-level property oracle

func linW(c *Case3, n int) []float64 {
	w := make([]float64, n)
	if !c.HasG {
		for i := range w {
			w[i] = 1
		}
		return w
	}
	g := ffs(c.G)
	gm := math.Inf(-1)
	for _, v := range g {
		gm = math.Max(gm, v)
	}
	for i := range w {
		w[i] = math.Exp(g[i] - gm)
	}
	return w
}

// inverse and determinant by Gauss-Jordan without pivoting (positive definite input); ok=false when a pivot is <= 0
func invDet(a [][]float64) ([][]float64, float64, bool) {
	d := len(a)
	m := make([][]float64, d)
	for i := range m {
		m[i] = make([]float64, 2*d)
		copy(m[i], a[i])
		m[i][d+i] = 1
	}
	det := 1.0
	for k := 0; k < d; k++ {
		p := m[k][k]
		if !(p > 0) {
			return nil, 0, false
		}
		det *= p
		for j := range m[k] {
			m[k][j] /= p
		}
		for i := 0; i < d; i++ {
			if i != k {
				f := m[i][k]
				for j := range m[i] {
					m[i][j] -= f * m[k][j]
				}
			}
		}
	}
	inv := make([][]float64, d)
	for i := range inv {
		inv[i] = m[i][d:]
	}
	return inv, det, true
}

func vnLoglik(xs [][]float64, w []float64, mu []float64, si [][]float64) (float64, bool) {
	inv, det, ok := invDet(si)
	if !ok {
		return 0, false
	}
	s := 0.0
	for l, x := range xs {
		if w[l] == 0 {
			continue
		}
		q := 0.0
		for i := range mu {
			for j := range mu {
				q += (x[i] - mu[i]) * inv[i][j] * (x[j] - mu[j])
			}
		}
		s += w[l] * (-0.5*math.Log(det) - 0.5*q)
	}
	return s, true
}

func fmat2(xs [][]FS) [][]float64 {
	r := make([][]float64, len(xs))
	for i, x := range xs {
		r[i] = ffs(x)
	}
	return r
}

// clampActive: a diagonal entry of the returned covariance sits on SigmaMin
func clampActive(c *Case3) bool {
	for i := range c.Si {
		if c.Si[i][i].f() == c.Bound.f() {
			return true
		}
	}
	return false
}

// returns (failure, finding): finding = the F-VNORMAL-CLAMP situation (clamp active, dimension >= 2)
func oracleVNormal(c *Case3) (string, string) {
	if c.Err {
		// an error is a failure to return the maximiser when the weighted moment matrix is comfortably positive definite
		// (e.g. log-weights all above 709 / below -745 exponentiated without the gamma_max rescaling: NaN moments)
		xs := fmat2(c.Xs)
		w := linW(c, len(xs))
		if s, ok := momentMatrixV(xs, w, c.D); ok && c.Bound.f() <= 1e6 && wellConditionedV(xs, w, s) {
			return "estimator reports an error although the weighted moment matrix is positive definite and well conditioned", ""
		}
		return "", ""
	}
	xs, mu, si := fmat2(c.Xs), ffs(c.Mu), fmat2(c.Si)
	w := linW(c, len(xs))
	W := 0.0
	for _, v := range w {
		W += v
	}
	if !(W > 0) {
		return "", ""
	}
	d := c.D
	for i := 0; i < d; i++ {
		if si[i][i] < c.Bound.f() {
			return fmt.Sprintf("returned variance Sigma[%d][%d] = %v is below SigmaMin = %v", i, i, si[i][i], c.Bound.f()), ""
		}
	}
	l0, ok := vnLoglik(xs, w, mu, si)
	if !ok {
		// numerically singular (Go's Cholesky accepted pivots at rounding level): conditioning rule, not judged
		return "", ""
	}
	// conditioning rule (as in the Coq check): exact variances against second moments, pivots against the diagonal
	if !wellConditionedV(xs, w, si) {
		return "", ""
	}
	for i := 0; i < d; i++ {
		for j := 0; j < d; j++ {
			if math.Abs(si[i][j]-si[j][i]) > 1e-9*math.Sqrt(math.Abs(si[i][i]*si[j][j])) {
				return fmt.Sprintf("returned covariance is not symmetric: Sigma[%d][%d] = %v, Sigma[%d][%d] = %v", i, j, si[i][j], j, i, si[j][i]), ""
			}
		}
	}
	tol := 1e-9 * (math.Abs(l0) + W)
	try := func(mu2 []float64, si2 [][]float64, what string) string {
		for i := 0; i < d; i++ {
			if si2[i][i] < c.Bound.f() {
				return ""
			}
		}
		if l, ok := vnLoglik(xs, w, mu2, si2); ok && l > l0+tol {
			return fmt.Sprintf("admissible parameters (%s) have higher weighted log-likelihood %v than the estimate mu=%v Sigma=%v (%v)", what, l, mu, si, l0)
		}
		return ""
	}
	cp := func(a [][]float64) [][]float64 {
		r := make([][]float64, len(a))
		for i := range a {
			r[i] = append([]float64{}, a[i]...)
		}
		return r
	}
	fail, finding := "", ""
	note := func(m string) {
		if m == "" {
			return
		}
		if clampActive(c) && d >= 2 {
			if finding == "" {
				finding = m
			}
		} else if fail == "" {
			fail = m
		}
	}
	for i := 0; i < d; i++ {
		for _, f := range []float64{-0.5, -0.01, 0.01, 0.5} {
			mu2 := append([]float64{}, mu...)
			mu2[i] += f * math.Sqrt(si[i][i])
			if m := try(mu2, si, fmt.Sprintf("mu[%d] moved by %v sd", i, f)); m != "" && fail == "" {
				fail = m // the mean is optimal for every covariance, clamped or not
			}
		}
		for _, f := range []float64{0.5, 0.9, 0.99, 1.01, 1.1, 2} { // scale coordinate i
			s2 := cp(si)
			for j := 0; j < d; j++ {
				s2[i][j] *= f
				s2[j][i] *= f
			}
			note(try(mu, s2, fmt.Sprintf("coordinate %d scaled by %v", i, f)))
		}
		for j := 0; j < d; j++ {
			if i == j {
				continue
			}
			for _, e := range []float64{-0.3, -0.03, 0.03, 0.3} { // shear x_i += e x_j
				ee := e * math.Sqrt(si[i][i]/si[j][j])
				s2 := cp(si)
				for k := 0; k < d; k++ {
					s2[i][k] += ee * si[j][k]
				}
				for k := 0; k < d; k++ {
					s2[k][i] += ee * s2[k][j]
				}
				note(try(mu, s2, fmt.Sprintf("shear x%d += %v x%d", i, ee, j)))
			}
		}
	}
	return fail, finding
}

// weighted moment matrix around the weighted mean; ok only for finite weights with positive total and variances of moderate
// magnitude (so that neither the determinant nor the moments can over- / underflow in binary64)
func momentMatrixV(xs [][]float64, w []float64, d int) ([][]float64, bool) {
	W := 0.0
	for _, v := range w {
		if math.IsNaN(v) || math.IsInf(v, 0) {
			return nil, false
		}
		W += v
	}
	if !(W > 0) || d < 1 || d > 4 {
		return nil, false
	}
	mu := make([]float64, d)
	for l, x := range xs {
		if len(x) != d {
			return nil, false
		}
		for i := range mu {
			mu[i] += w[l] * x[i] / W
		}
	}
	s := make([][]float64, d)
	for i := range s {
		s[i] = make([]float64, d)
	}
	for l, x := range xs {
		for i := 0; i < d; i++ {
			for j := 0; j < d; j++ {
				s[i][j] += w[l] * (x[i] - mu[i]) * (x[j] - mu[j]) / W
			}
		}
	}
	for i := 0; i < d; i++ {
		if !(s[i][i] > 1e-6 && s[i][i] < 1e6) || !(math.Abs(mu[i]) < 1e6) {
			return nil, false
		}
	}
	return s, true
}

func wellConditionedV(xs [][]float64, w []float64, si [][]float64) bool {
	d := len(si)
	W := 0.0
	for _, v := range w {
		W += v
	}
	// moments around the weighted mean
	mu := make([]float64, d)
	for l, x := range xs {
		for i := range mu {
			mu[i] += w[l] * x[i] / W
		}
	}
	s := make([][]float64, d)
	for i := range s {
		s[i] = make([]float64, d)
	}
	q := make([]float64, d)
	for l, x := range xs {
		for i := 0; i < d; i++ {
			q[i] += w[l] * x[i] * x[i] / W
			for j := 0; j < d; j++ {
				s[i][j] += w[l] * (x[i] - mu[i]) * (x[j] - mu[j]) / W
			}
		}
	}
	for i := 0; i < d; i++ {
		if !(s[i][i] >= q[i]/1048576) || q[i] == 0 {
			return false
		}
	}
	// pivots of the returned matrix
	m := make([][]float64, d)
	for i := range m {
		m[i] = append([]float64{}, si[i]...)
	}
	for k := 0; k < d; k++ {
		if !(m[k][k] >= si[k][k]/65536) {
			return false
		}
		for i := k + 1; i < d; i++ {
			f := m[i][k] / m[k][k]
			for j := 0; j < d; j++ {
				m[i][j] -= f * m[k][j]
			}
		}
	}
	return true
}

// scalar component case built from a column, for the existing scalar oracle
func compCase(cc Comp, col []float64, c *Case3, res []FS) *Case {
	k := &Case{Pert: true, Xs: fss(col), HasG: c.HasG, G: c.G, Bound: cc.Bound, Res: res}
	if cc.Fam == 10 {
		k.Kind = "normal"
	} else {
		k.Kind, k.Fam = "rate", cc.Fam
	}
	return k
}

func oracle3(c *Case3) string {
	switch c.Kind {
	case "vnormal":
		f, _ := oracleVNormal(c)
		return f
	case "sid":
		if c.Err {
			return ""
		}
		for i, cc := range c.Comps {
			col := make([]float64, len(c.Xs))
			for l := range c.Xs {
				col[l] = c.Xs[l][i].f()
			}
			if m := oracleEstimator(compCase(cc, col, c, c.Res[i])); m != "" {
				return fmt.Sprintf("scalarId component %d: %s", i, m)
			}
		}
	case "siid":
		if c.Err {
			return ""
		}
		var col []float64
		for _, x := range c.Xs {
			col = append(col, ffs(x)...)
		}
		if m := oracleEstimator(compCase(c.Comps[0], col, c, c.Res[0])); m != "" {
			return "scalarIid (pooled coordinates): " + m
		}
	case "negbin":
		if c.Err {
			return ""
		}
		x := ffs(c.Xs[0])
		w := linW(c, len(x))
		W, M := 0.0, 0.0
		for i := range x {
			W += w[i]
			M += w[i] * x[i]
		}
		if !(W > 0) {
			return ""
		}
		r, p := c.Bound.f(), c.Res[0][0].f()
		ll := func(p float64) float64 {
			s := r * W * math.Log(1-p)
			if M != 0 {
				s += M * math.Log(p)
			}
			return s
		}
		l0 := ll(p)
		if math.IsNaN(l0) {
			return fmt.Sprintf("log-likelihood at the returned p = %v is NaN", p)
		}
		for _, f := range factors {
			q := p * f
			if p == 0 {
				q = (f - 1) * 1e-3
			}
			if q < 0 || q >= 1 {
				continue
			}
			if l := ll(q); l > l0+1e-9*(math.Abs(l0)+W) {
				return fmt.Sprintf("negative binomial: p = %v has higher weighted log-likelihood %v than the estimate %v (%v)", q, l, p, l0)
			}
		}
	case "logreg":
		if c.Err {
			return ""
		}
		g := logregGrad(c, ffs(c.Theta))
		for j, v := range g {
			if math.Abs(v)/float64(len(c.Xs)) > 1e-6 {
				return fmt.Sprintf("logistic regression returned theta = %v as converged, but the average log-likelihood gradient component %d is %v", ffs(c.Theta), j, v/float64(len(c.Xs)))
			}
		}
	case "emnormal":
		return oracleEmNormal(c)
	}
	return ""
}

func shrink3(c *Case3) *Case3 {
	cur := *c
	for changed := true; changed; {
		changed = false
		if cur.Kind == "negbin" || cur.Kind == "emnormal" {
			break
		}
		for i := 0; i < len(cur.Xs) && len(cur.Xs) > 1; i++ {
			t := cur
			t.Xs = append(append([][]FS{}, cur.Xs[:i]...), cur.Xs[i+1:]...)
			if cur.HasG {
				t.G = append(append([]FS{}, cur.G[:i]...), cur.G[i+1:]...)
			}
			if cur.Labels != nil {
				t.Labels = append(append([]int{}, cur.Labels[:i]...), cur.Labels[i+1:]...)
			}
			execute3(&t)
			if oracle3(&t) != "" {
				cur = t
				changed = true
				break
			}
		}
	}
	return &cur
}

// hunt over the round-3 kinds: handed cases, the clamp witness, then random cases
func hunt3(o Opts, handed []*Case3, clamp *Case3, res map[string]interface{}) {
	if clamp != nil {
		execute3(clamp)
		_, finding := oracleVNormal(clamp)
		res["vclamp"] = finding
	}
	try := func(c *Case3) bool {
		execute3(c)
		if m := oracle3(c); m != "" {
			s := shrink3(c)
			execute3(s)
			if m2 := oracle3(s); m2 != "" {
				c, m = s, m2
			}
			res["found"], res["failure"], res["case"] = true, m, c
			return true
		}
		return false
	}
	for _, c := range handed {
		if try(c) {
			return
		}
	}
	r := NewRng(o.Seed*1000003 + 33)
	for i := 0; i < o.N/2; i++ {
		if try(gen3(r)) {
			return
		}
	}
}
