// C16, round 7: scalarEstimator/numeric.go — the objective NumericEstimator hands to the optimizers, on weighted data
// streams that contain -Inf log-weights on observations OUTSIDE the family's support (exponential: x < 0, gamma: x <= 0).
// Every evaluation of the objective is observed through the estimator's Hook (variables, r = weighted log-likelihood
// before negation and division by n); the per-observation log-densities at the same variables are computed with the
// same types and code path (Real64 clone of the density, SetParameters, LogPdf) and handed to the Coq model as data.
package main

import (
	"fmt"
	"math"
	"strings"

	. "adharness/common"

	ad "github.com/pbenner/autodiff"
	sd "github.com/pbenner/autodiff/statistics/scalarDistribution"
	se "github.com/pbenner/autodiff/statistics/scalarEstimator"
	tp "github.com/pbenner/threadpool"
)

type NumCall struct {
	Theta []FS `json:"theta"`
	Lps   []FS `json:"lps"`
	R     FS   `json:"r"`
}

type Num7 struct {
	Fam    int       `json:"fam"` // 0 exponential(lambda), 1 gamma(alpha, beta)
	P0     []FS      `json:"p0"`
	Method string    `json:"method"`
	Xs     []FS      `json:"xs"`
	HasG   bool      `json:"has_g"`
	G      []FS      `json:"g"`
	Calls  []NumCall `json:"calls"`
	NCalls int       `json:"ncalls"`
	Out    string    `json:"out"`
	Res    []FS      `json:"res"`
}

const maxNumCalls = 10

func executeNum7(c *Num7) {
	c.Calls, c.NCalls, c.Out, c.Res = nil, 0, "ok", nil
	defer func() {
		if r := recover(); r != nil {
			c.Out, c.Res = "panic", nil
		}
	}()
	var est *se.NumericEstimator
	var err error
	if c.Fam == 0 {
		d, e := sd.NewExponentialDistribution(ad.NewFloat64(c.P0[0].f()))
		if e != nil {
			Die("round 7 numeric: %v", e)
		}
		est, err = se.NewNumericEstimator(d)
	} else {
		d, e := sd.NewGammaDistribution(ad.NewFloat64(c.P0[0].f()), ad.NewFloat64(c.P0[1].f()))
		if e != nil {
			Die("round 7 numeric: %v", e)
		}
		est, err = se.NewNumericEstimator(d)
	}
	if err != nil {
		Die("round 7 numeric: %v", err)
	}
	est.Method = c.Method
	x := ad.NewDenseFloat64Vector(ffs(c.Xs))
	proto := est.ScalarPdf.CloneScalarPdf()
	est.Hook = func(variables ad.ConstVector, r ad.ConstScalar) error {
		c.NCalls++
		if c.NCalls > 120 {
			return fmt.Errorf("verif: evaluation budget of the case exhausted") // the harness bounds every run (outcome err)
		}
		if len(c.Calls) >= maxNumCalls {
			return nil
		}
		f := proto.CloneScalarPdf()
		call := NumCall{R: fs(r.GetFloat64())}
		for i := 0; i < variables.Dim(); i++ {
			call.Theta = append(call.Theta, fs(variables.ConstAt(i).GetFloat64()))
		}
		if e := f.SetParameters(ad.AsDenseReal64Vector(variables)); e != nil {
			return nil // the objective refuses these variables itself before it gets here
		}
		t := ad.NullDenseReal64Vector(1)
		for k := 0; k < x.Dim(); k++ {
			if e := f.LogPdf(t.At(0), x.ConstAt(k)); e != nil {
				return nil
			}
			call.Lps = append(call.Lps, fs(t.At(0).GetFloat64()))
		}
		if anyNaN(ffs(call.Lps)) || anyNaN(ffs(call.Theta)) {
			return nil // the optimizer wandered to NaN variables (e.g. an objective that is +Inf everywhere): nothing to compare
		}
		c.Calls = append(c.Calls, call)
		return nil
	}
	var gamma ad.ConstVector
	if c.HasG {
		gamma = vec(ffs(c.G))
	}
	if e := est.EstimateOnData(x, gamma, tp.ThreadPool{}); e != nil {
		c.Out = "err"
		return
	}
	p := est.GetParameters()
	for i := 0; i < p.Dim(); i++ {
		c.Res = append(c.Res, fs(p.At(i).GetFloat64()))
	}
}

func (c *Num7) outOfSupport(x float64) bool {
	if c.Fam == 0 {
		return x < 0
	}
	return x <= 0
}

// property-level oracle (float, independent of the Coq model): the value the objective reports is the weighted
// log-likelihood sum_k exp(gamma_k) log f(x_k) over the observations with non-zero weight; a returned estimate is finite
func oracleNum7(c *Num7) string {
	xs, g := ffs(c.Xs), ffs(c.G)
	for i, call := range c.Calls {
		s := 0.0
		for k, lp := range ffs(call.Lps) {
			w := 1.0
			if c.HasG {
				w = math.Exp(g[k])
			}
			if w == 0 {
				continue
			}
			s += w * lp
		}
		r := call.R.f()
		if math.IsNaN(s) {
			continue
		}
		if math.IsNaN(r) || (math.IsInf(s, 0) != math.IsInf(r, 0)) || (!math.IsInf(s, 0) && math.Abs(r-s) > 1e-9*(math.Abs(s)+1)) {
			return fmt.Sprintf("NumericEstimator (%s) on data %v with log-weights %v: objective evaluation %d at parameters %v reports the weighted log-likelihood %v, the sum of exp(gamma_k) * log f(x_k) over the observations with non-zero weight is %v (log-densities %v)",
				c.Method, xs, gOrNil(c), i, ffs(call.Theta), r, s, ffs(call.Lps))
		}
	}
	if c.Out == "ok" && anyNaN(ffs(c.Res)) {
		wsupp := false
		for k, x := range xs {
			if !c.outOfSupport(x) && (!c.HasG || !math.IsInf(g[k], -1)) {
				wsupp = true
			}
		}
		if wsupp && len(c.Calls) > 0 && !math.IsInf(c.Calls[0].R.f(), 0) {
			return fmt.Sprintf("NumericEstimator (%s) on data %v with log-weights %v returns NaN parameters %v without an error", c.Method, xs, gOrNil(c), ffs(c.Res))
		}
	}
	return ""
}

func gOrNil(c *Num7) string {
	if !c.HasG {
		return "nil"
	}
	return fmt.Sprint(ffs(c.G))
}

func (c *Num7) keys(t tab) {
	if c.HasG {
		for _, v := range ffs(c.G) {
			t.add(v)
		}
	}
}

func (c *Num7) coq() string {
	calls := make([]string, len(c.Calls))
	for i, call := range c.Calls {
		calls[i] = fmt.Sprintf("(%s, %s)", FList(ffs(call.Lps)), F(call.R.f()))
	}
	return fmt.Sprintf("C6Num %s %s", optFList(c.HasG, c.G), List(calls))
}

var gpool7 = []float64{0, 0, -0.5, -1, -2, 0.75, 1.5, -0.125, 2, -5.5, -30}

func genNum7(r *Rng) *Case6 {
	c := &Num7{Fam: r.Intn(2), Method: []string{"newton", "newton", "newton", "bfgs"}[r.Intn(4)]}
	if c.Fam == 0 {
		c.P0 = fss([]float64{[]float64{1, 0.5, 2, 0.125}[r.Intn(4)]})
	} else {
		c.P0 = fss([]float64{[]float64{1, 2, 0.5, 3}[r.Intn(4)], []float64{1, 2, 0.5}[r.Intn(3)]})
	}
	n := r.Range(2, 8)
	xs, g := make([]float64, n), make([]float64, n)
	shape := r.Pick([]int{50, 20, 15, 15}) // weighted with -Inf on out-of-support points | weighted, all in support | unweighted | positive weight outside the support
	tags := []string{"inf-weight-outside-support", "weighted-in-support", "unweighted", "weight-outside-support"}
	nout := 0
	for k := range xs {
		xs[k] = float64(r.Range(1, 64)) / 8
		g[k] = gpool7[r.Intn(len(gpool7))]
		switch shape {
		case 0:
			if r.Intn(3) == 0 && nout < n-1 {
				xs[k] = []float64{-1, -0.5, 0, -3, -1e300}[r.Intn(5)]
				if c.Fam == 0 && xs[k] == 0 {
					xs[k] = -2
				}
				g[k] = math.Inf(-1)
				nout++
			} else if r.Intn(6) == 0 {
				g[k] = math.Inf(-1) // zero weight inside the support
			}
		case 3:
			if k == n-1 {
				xs[k] = -1
			}
		}
	}
	if shape == 0 && nout == 0 {
		xs[0], g[0] = -1, math.Inf(-1)
		if math.IsInf(g[1], -1) {
			g[1] = 0
		}
	}
	c.Xs, c.HasG, c.G = fss(xs), shape != 2, fss(g)
	if !c.HasG {
		c.G = nil
	}
	fam := []string{"exponential", "gamma"}[c.Fam]
	return &Case6{Kind: "num", Num: c, Tag: strings.Join([]string{"num", fam, c.Method, tags[shape]}, "|")}
}
