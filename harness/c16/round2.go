// C16 harness, round 2: Baum-Welch traces of vectorEstimator.HmmEstimator with
// categorical emissions on small HMMs with dyadic parameters (mode --extra round2[:corpus]).
// Writes r2_<k>.v shards for coq/C16/Corr2.v, their exp-table certificates
// cert_r2_<k>_<part>.v, r2.jsonl and r2.meta.json.
package main

import (
	"encoding/json"
	"fmt"
	"math"
	"os"
	"path/filepath"
	"strings"

	. "adharness/common"

	ad "github.com/pbenner/autodiff"
	st "github.com/pbenner/autodiff/statistics"
	"github.com/pbenner/autodiff/statistics/generic"
	se "github.com/pbenner/autodiff/statistics/scalarEstimator"
	ve "github.com/pbenner/autodiff/statistics/vectorEstimator"
	tp "github.com/pbenner/threadpool"
)

type HHook struct {
	I   int    `json:"i"`
	Pi  []FS   `json:"pi"`
	Tr  []FS   `json:"tr"`
	Th  [][]FS `json:"th"`
	Lik FS     `json:"lik"`
	Eps FS     `json:"eps"`
}

type Case2 struct {
	Kind     string  `json:"kind"` // hmm
	Exact    bool    `json:"exact"` // decided with the rounded rationals NumQr (small cases) instead of binary64
	M        int     `json:"m"`
	C        int     `json:"c"`
	J        int     `json:"j"`
	Smap     []int   `json:"smap"`
	Seqs     [][]int `json:"seqs"`
	Pi0      []FS    `json:"pi0"`
	Tr0      []FS    `json:"tr0"` // row-major
	Th0      [][]FS  `json:"th0"`
	Eps      FS      `json:"eps"`
	MaxSteps int     `json:"max_steps"`
	Err      bool    `json:"err"`
	Trace    []HHook `json:"trace"`
	Tag      string  `json:"tag"`
}

func executeHMM(c *Case2) {
	defer func() {
		if r := recover(); r != nil {
			c.Err = true
			c.Tag += fmt.Sprintf("|panic:%v", r)
		}
	}()
	c.Err, c.Trace = false, nil
	pool := tp.ThreadPool{}
	ests := make([]st.ScalarEstimator, c.C)
	for k := 0; k < c.C; k++ {
		e, err := se.NewCategoricalEstimator(ffs(c.Th0[k]))
		if err != nil {
			Die("categorical estimator: %v", err)
		}
		ests[k] = e
	}
	hook := generic.BaumWelchHook{Value: func(h generic.BasicHmm, i int, lik, eps float64) {
		p := h.GetParameters()
		r := HHook{I: i, Lik: fs(lik), Eps: fs(eps)}
		o := 0
		for k := 0; k < c.M; k++ {
			r.Pi = append(r.Pi, fs(p.At(o).GetFloat64()))
			o++
		}
		for k := 0; k < c.M*c.M; k++ {
			r.Tr = append(r.Tr, fs(p.At(o).GetFloat64()))
			o++
		}
		for k := 0; k < c.C; k++ {
			row := []FS{}
			for j := 0; j < c.J; j++ {
				row = append(row, fs(p.At(o).GetFloat64()))
				o++
			}
			r.Th = append(r.Th, row)
		}
		c.Trace = append(c.Trace, r)
		if len(c.Trace) > 200 {
			panic("Baum-Welch driver does not stop")
		}
	}}
	pi := ad.NewDenseFloat64Vector(ffs(c.Pi0))
	tr := ad.NewDenseFloat64Matrix(ffs(c.Tr0), c.M, c.M)
	est, err := ve.NewHmmEstimator(pi, tr, c.Smap, nil, nil, ests, c.Eps.f(), c.MaxSteps, hook)
	if err != nil {
		c.Err = true
		c.Tag += "|new-error"
		return
	}
	xs := make([]ad.ConstVector, len(c.Seqs))
	for s, q := range c.Seqs {
		v := make([]float64, len(q))
		for k, x := range q {
			v[k] = float64(x)
		}
		xs[s] = ad.NewDenseFloat64Vector(v)
	}
	if err := est.EstimateOnData(xs, nil, pool); err != nil {
		c.Err = true
		c.Tag += "|estimate-error"
		return
	}
	for _, h := range c.Trace {
		for _, l := range [][]FS{h.Pi, h.Tr} {
			for _, v := range l {
				if math.IsNaN(v.f()) {
					c.Err = true
					c.Tag += "|nan-parameter"
					return
				}
			}
		}
		for _, row := range h.Th {
			for _, v := range row {
				if math.IsNaN(v.f()) {
					// an emission class without any responsibility mass: outside the quantifier, as for mixtures
					c.Err = true
					c.Tag += "|empty-class-nan"
					return
				}
			}
		}
	}
}

func (c *Case2) keys(t tab) {
	for _, h := range c.Trace {
		for _, v := range h.Pi {
			t.add(v.f())
		}
		for _, v := range h.Tr {
			t.add(v.f())
		}
		for _, row := range h.Th {
			for _, v := range row {
				t.add(v.f())
			}
		}
		t.add(h.Lik.f())
	}
}

func intList(xs []int) string {
	s := make([]string, len(xs))
	for i, x := range xs {
		s[i] = fmt.Sprintf("%d", x)
	}
	return "[" + strings.Join(s, "; ") + "]"
}

func (c *Case2) coq() string {
	hs := make([]string, len(c.Trace))
	for i, h := range c.Trace {
		rows := make([]string, len(h.Th))
		for k, r := range h.Th {
			rows[k] = FList(ffs(r))
		}
		hs[i] = fmt.Sprintf("(%d, %s, %s, %s, %s, %s)", h.I, FList(ffs(h.Pi)), FList(ffs(h.Tr)), List(rows), F(h.Lik.f()), F(h.Eps.f()))
	}
	ms := "None"
	if c.MaxSteps >= 0 {
		ms = fmt.Sprintf("(Some %d)", c.MaxSteps)
	}
	sq := make([]string, len(c.Seqs))
	for i, q := range c.Seqs {
		sq[i] = intList(q)
	}
	return fmt.Sprintf("C2Hmm %s %d %d %d %s %s %s %s %s", B(c.Exact), c.M, c.C, c.J, intList(c.Smap), List(sq), F(c.Eps.f()), ms, List(hs))
}

const header2 = `From Coq Require Import ZArith QArith Floats List Bool.
From ADV Require Import Base.Num Base.Corr C16.Model C16.Corr C16.ModelHmm C16.Corr2.
Import ListNotations.
Open Scope nat_scope.
`

func writeShard2(dir, name string, k int, cs []*Case2) (int, error) {
	t := tab{}
	t.add(0)
	for _, c := range cs {
		c.keys(t)
	}
	ks := t.sorted()
	var sb strings.Builder
	sb.WriteString(header2)
	sb.WriteString("Definition tab : exptab := [\n")
	for i, d := range ks {
		sb.WriteString(fmt.Sprintf("  (%s, %s)", F(d), F(math.Exp(d))))
		if i != len(ks)-1 {
			sb.WriteString(";")
		}
		sb.WriteString("\n")
	}
	sb.WriteString("].\nDefinition cases : list case2 := [\n")
	for i, c := range cs {
		sb.WriteString("  " + c.coq())
		if i != len(cs)-1 {
			sb.WriteString(";")
		}
		sb.WriteString("\n")
	}
	sb.WriteString("].\nDefinition M := Eval vm_compute in (C16.Corr2.mism2 tab cases).\nPrint M.\n")
	if err := os.WriteFile(filepath.Join(dir, fmt.Sprintf("%s_%d.v", name, k)), []byte(sb.String()), 0644); err != nil {
		return 0, err
	}
	if err := writeCerts(dir, "cert_"+name, k, ks); err != nil {
		return 0, err
	}
	return len(ks), nil
}

// ---------------------------------------------------------------- generator

func dyadicSimplex8(r *Rng, k int, zeros bool) []float64 {
	// k non-negative multiples of 1/8 summing to 1
	w := make([]int, k)
	left := 8
	for i := 0; i < k-1; i++ {
		lo := 1
		if zeros && r.Intn(3) == 0 {
			lo = 0
		}
		v := lo
		if m := left - (k - 1 - i); m > lo {
			v = r.Range(lo, m)
		}
		w[i] = v
		left -= v
	}
	w[k-1] = left
	// rotate so that zeros / the remainder are not always at the same index
	rot := r.Intn(k)
	f := make([]float64, k)
	for i := range f {
		f[(i+rot)%k] = float64(w[i]) / 8
	}
	return f
}

func genHMM(r *Rng, small bool, long bool) *Case2 {
	c := &Case2{Kind: "hmm", Exact: small}
	c.M = r.Pick([]int{1, 6, 3}) + 1
	maxLen, maxSeq := 6, 3
	if small {
		c.M = r.Range(1, 2)
		maxLen, maxSeq = 3, 2
	}
	c.J = r.Range(2, 3)
	// state map: identity, or two states sharing an emission class
	c.Smap = make([]int, c.M)
	for i := range c.Smap {
		c.Smap[i] = i
	}
	c.C = c.M
	share := false
	if c.M >= 2 && r.Intn(4) == 0 {
		c.Smap[c.M-1] = 0
		c.C = c.M - 1
		share = true
	}
	ns := r.Range(1, maxSeq)
	for s := 0; s < ns; s++ {
		n := r.Range(1, maxLen)
		q := make([]int, n)
		for k := range q {
			q[k] = r.Intn(c.J)
		}
		c.Seqs = append(c.Seqs, q)
	}
	zeros := r.Intn(3) == 0
	c.Pi0 = fss(dyadicSimplex8(r, c.M, zeros))
	for i := 0; i < c.M; i++ {
		c.Tr0 = append(c.Tr0, fss(dyadicSimplex8(r, c.M, zeros))...)
	}
	for k := 0; k < c.C; k++ {
		c.Th0 = append(c.Th0, fss(dyadicSimplex8(r, c.J, zeros && r.Intn(2) == 0)))
	}
	c.MaxSteps = []int{1, 2, 2, 3, 4, -1}[r.Intn(6)]
	if !long {
		c.MaxSteps = []int{1, 2, 2, 3}[r.Intn(4)] // every recorded iteration costs M + M*M + C*J certified exp values
	}
	if small {
		c.MaxSteps = r.Range(1, 2)
	}
	c.Eps = fs([]float64{0, 1e-6, 1e-2, -1}[r.Intn(4)])
	if c.MaxSteps == -1 && c.Eps.f() <= 0 {
		c.Eps = fs(1e-2)
	}
	c.Tag = fmt.Sprintf("hmm|m%d|share=%v|zeros=%v|nseq%d|ms%d|exactQ=%v", c.M, share, zeros, ns, c.MaxSteps, small)
	return c
}

func loadCorpus2(path string) []*Case2 {
	var out []*Case2
	b, err := os.ReadFile(path)
	if err != nil {
		return nil
	}
	for _, l := range strings.Split(string(b), "\n") {
		l = strings.TrimSpace(l)
		if l == "" {
			continue
		}
		c := &Case2{}
		if err := json.Unmarshal([]byte(l), c); err != nil {
			Die("corpus2: %v", err)
		}
		out = append(out, c)
	}
	return out
}

func round2(o Opts) {
	r := NewRng(o.Seed ^ 0x9e3779b97f4a7c15)
	var cs []*Case2
	if i := strings.Index(o.Extra, ":"); i >= 0 {
		for _, c := range loadCorpus2(o.Extra[i+1:]) {
			c.Tag = "corpus|" + c.Tag
			cs = append(cs, c)
		}
	}
	for i := 0; i < o.N; i++ {
		cs = append(cs, genHMM(r, i < o.N/4, o.Tier != "quick"))
	}
	hist := map[string]int{}
	nontriv := map[string]bool{}
	var kept []*Case2
	for _, c := range cs {
		executeHMM(c)
		if c.Err {
			for _, t := range strings.Split(c.Tag, "|") {
				if strings.HasPrefix(t, "panic") || t == "estimate-error" || t == "empty-class-nan" || t == "nan-parameter" || t == "new-error" {
					hist[t+"(skipped)"]++
				}
			}
			hist["hmm-error(skipped)"]++
			continue
		}
		kept = append(kept, c)
		for _, t := range strings.Split(c.Tag, "|") {
			hist[t]++
		}
		if c.M >= 2 && len(c.Trace) >= 3 {
			b, _ := json.Marshal(struct {
				S [][]int
				P []FS
				T []FS
				E [][]FS
			}{c.Seqs, c.Pi0, c.Tr0, c.Th0})
			nontriv[string(b)] = true
		}
	}
	if err := os.MkdirAll(o.Out, 0755); err != nil {
		Die("%v", err)
	}
	// exact (NumQr) cases first, two per shard (about 1 ms per rational operation inside Coq); then the
	// binary64 cases, 15 per shard
	var ordered []*Case2
	for _, c := range kept {
		if c.Exact {
			ordered = append(ordered, c)
		}
	}
	nexact := len(ordered)
	for _, c := range kept {
		if !c.Exact {
			ordered = append(ordered, c)
		}
	}
	kept = ordered
	nsh, ntab := 0, 0
	sizes := []int{}
	for s := 0; s < len(kept); {
		per := 15
		if s < nexact {
			per = 2
			if s+per > nexact {
				per = nexact - s
			}
		}
		e := s + per
		if e > len(kept) {
			e = len(kept)
		}
		n, err := writeShard2(o.Out, "r2", nsh, kept[s:e])
		if err != nil {
			Die("%v", err)
		}
		sizes = append(sizes, e-s)
		ntab += n
		nsh++
		s = e
	}
	f, _ := os.Create(filepath.Join(o.Out, "r2.jsonl"))
	enc := json.NewEncoder(f)
	for _, c := range kept {
		enc.Encode(c)
	}
	f.Close()
	samples := []interface{}{}
	for i := 0; i < len(kept) && i < 1; i++ {
		samples = append(samples, kept[i])
	}
	meta := map[string]interface{}{
		"name": "round2", "evaluations": len(kept), "distinct_nontrivial": len(nontriv),
		"rule":    "HMM case: >= 2 states and >= 2 recorded Baum-Welch iterations",
		"samples": samples, "histogram": hist, "shards": nsh, "shard_sizes": sizes,
		"extra": map[string]interface{}{"exp_table_entries_certified": ntab},
	}
	b, _ := json.MarshalIndent(meta, "", " ")
	os.WriteFile(filepath.Join(o.Out, "r2.meta.json"), b, 0644)
}

// ---------------------------------------------------------------- property oracle (independent of the Coq model)

// log-likelihood of all sequences under the parameters of a hook record, by explicit enumeration of the paths
func bruteLoglik(c *Case2, h HHook) float64 {
	pi, tr := ffs(h.Pi), ffs(h.Tr)
	total := 0.0
	for _, q := range c.Seqs {
		n := len(q)
		path := make([]int, n)
		sum := math.Inf(-1)
		for {
			lp := pi[path[0]] + h.Th[c.Smap[path[0]]][q[0]].f()
			for k := 1; k < n; k++ {
				lp += tr[path[k-1]*c.M+path[k]] + h.Th[c.Smap[path[k]]][q[k]].f()
			}
			if !math.IsNaN(lp) {
				sum = logAdd(sum, lp)
			}
			i := 0
			for ; i < n; i++ {
				path[i]++
				if path[i] < c.M {
					break
				}
				path[i] = 0
			}
			if i == n {
				break
			}
		}
		total += sum
	}
	return total
}

// Baum-Welch ascent and the bookkeeping of the hook likelihoods, on the implementation's own trace
func oracleHMM(c *Case2) string {
	if c.Err || len(c.Trace) < 2 {
		return ""
	}
	ll := make([]float64, len(c.Trace))
	for t, h := range c.Trace {
		ll[t] = bruteLoglik(c, h)
		// the estimate must be a hidden Markov model: Pi, every row of Tr and every emission table sum to one
		sum1 := func(what string, xs []FS) string {
			s := 0.0
			for _, x := range xs {
				s += math.Exp(x.f())
			}
			if math.Abs(s-1) > 1e-9 {
				return fmt.Sprintf("after %d Baum-Welch steps %s sums to %.12g, not 1 (the estimate is not a probability table)", t, what, s)
			}
			return ""
		}
		if m := sum1("Pi", h.Pi); m != "" {
			return m
		}
		for i := 0; i < c.M; i++ {
			if m := sum1(fmt.Sprintf("row %d of Tr", i), h.Tr[i*c.M:(i+1)*c.M]); m != "" {
				return m
			}
		}
		for k, row := range h.Th {
			if m := sum1(fmt.Sprintf("emission table %d", k), row); m != "" {
				return m
			}
		}
	}
	for t := 1; t < len(c.Trace); t++ {
		if ll[t] < ll[t-1]-1e-9*(math.Abs(ll[t-1])+1) {
			return fmt.Sprintf("Baum-Welch step %d decreased the log-likelihood (enumerated over all paths): %.12g -> %.12g", t, ll[t-1], ll[t])
		}
		if !relClose(c.Trace[t].Lik.f(), ll[t-1], 1e-9) {
			return fmt.Sprintf("hook %d reports likelihood %.12g, the model of iteration %d has %.12g", t, c.Trace[t].Lik.f(), t-1, ll[t-1])
		}
	}
	return ""
}

func shrinkHMM(c *Case2) *Case2 {
	best := c
	for {
		improved := false
		for s := range best.Seqs {
			for _, drop := range []int{0, 1} { // drop a sequence / its last observation
				d := *best
				d.Trace = nil
				d.Seqs = nil
				for s2, q := range best.Seqs {
					if s2 == s {
						if drop == 0 || len(q) <= 1 {
							continue
						}
						q = q[:len(q)-1]
					}
					d.Seqs = append(d.Seqs, append([]int{}, q...))
				}
				if len(d.Seqs) == 0 {
					continue
				}
				executeHMM(&d)
				if oracleHMM(&d) != "" {
					best, improved = &d, true
					break
				}
			}
			if improved {
				break
			}
		}
		if !improved {
			return best
		}
	}
}

// hunt over Baum-Welch cases: the ones handed over by the correspondence stage, then random ones
func huntHMM(o Opts, handed []*Case2, res map[string]interface{}) {
	try := func(c *Case2) bool {
		executeHMM(c)
		if m := oracleHMM(c); m != "" {
			s := shrinkHMM(c)
			res["found"], res["failure"], res["case"] = true, oracleHMM(s), s
			return true
		}
		return false
	}
	for _, c := range handed {
		if try(c) {
			return
		}
	}
	r := NewRng(o.Seed + 424242)
	for i := 0; i < o.N/3; i++ {
		if try(genHMM(r, false, true)) {
			return
		}
	}
}

func replay2(o Opts, c *Case2) {
	executeHMM(c)
	os.MkdirAll(o.Out, 0755)
	if _, err := writeShard2(o.Out, "replay", 0, []*Case2{c}); err != nil {
		Die("%v", err)
	}
	msg := oracleHMM(c)
	hb, _ := json.MarshalIndent(map[string]interface{}{"found": msg != "", "failure": msg, "case": c}, "", " ")
	os.WriteFile(filepath.Join(o.Out, "hunt.json"), hb, 0644)
}
