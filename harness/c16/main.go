// C16 harness: runs the closed-form estimators and the mixture EM driver of
// /repo (pool size 1) on generated and adversarial data and writes
// (input, what Go returned) as Coq case files for coq/C16/Corr.v, together
// with the table of exp values the comparison relies on (certified by
// Coq-Interval in cert_<k>.v).
package main

import (
	"encoding/json"
	"fmt"
	"math"
	"os"
	"path/filepath"
	"sort"
	"strconv"
	"strings"

	. "adharness/common"

	ad "github.com/pbenner/autodiff"
	st "github.com/pbenner/autodiff/statistics"
	"github.com/pbenner/autodiff/statistics/generic"
	se "github.com/pbenner/autodiff/statistics/scalarEstimator"
	tp "github.com/pbenner/threadpool"
)

// ---------------------------------------------------------------- floats as strings (JSON has no Inf/NaN)

type FS string

func fs(x float64) FS {
	switch {
	case math.IsNaN(x):
		return "NaN"
	case math.IsInf(x, 1):
		return "+Inf"
	case math.IsInf(x, -1):
		return "-Inf"
	}
	return FS(strconv.FormatFloat(x, 'x', -1, 64))
}
func (s FS) f() float64 {
	v, err := strconv.ParseFloat(string(s), 64)
	if err != nil {
		Die("bad float %q", string(s))
	}
	return v
}
func fss(xs []float64) []FS {
	r := make([]FS, len(xs))
	for i, x := range xs {
		r[i] = fs(x)
	}
	return r
}
func ffs(xs []FS) []float64 {
	r := make([]float64, len(xs))
	for i, x := range xs {
		r[i] = x.f()
	}
	return r
}

// R-scope literal (hexadecimal) for the certification goals
func RLit(x float64) string {
	s := strconv.FormatFloat(x, 'x', -1, 64)
	if x < 0 || (x == 0 && math.Signbit(x)) {
		return "(" + s + ")"
	}
	return s
}

// ---------------------------------------------------------------- cases

type Hook struct {
	I   int    `json:"i"`
	Lw  []FS   `json:"lw"`
	Ps  [][]FS `json:"ps"`
	Lik FS     `json:"lik"`
	Eps FS     `json:"eps"`
}

type Case struct {
	Kind     string `json:"kind"` // normal | rate | cat | em
	Fam      int    `json:"fam"`  // rate: 0 exponential 1 poisson 2 geometric; em: 1 poisson 3 categorical
	Bound    FS     `json:"bound"`
	K        int    `json:"k"`
	J        int    `json:"j"`
	Xs       []FS   `json:"xs"`
	HasG     bool   `json:"has_g"`
	G        []FS   `json:"g"`
	Pert     bool   `json:"pert"`
	Err      bool   `json:"err"`
	Res      []FS   `json:"res"`
	Eps      FS     `json:"eps"`
	MaxSteps int    `json:"max_steps"`
	Summ     bool   `json:"summarized"`
	W0       []FS   `json:"w0"`
	P0       [][]FS `json:"p0"`
	Trace    []Hook `json:"trace"`
	Tag      string `json:"tag"`
	// round 6: data sets the SAME estimator object was run on before (em), whether the last data set was written
	// in place into the vector of the previous run, and the mixture the estimator holds after Estimate returned
	PreXs   [][]FS `json:"pre_xs,omitempty"`
	InPlace bool   `json:"in_place,omitempty"`
	Final   *Hook  `json:"final,omitempty"`
}

func vec(xs []float64) ad.ConstVector { return ad.NewDenseFloat64Vector(xs) }

func anyNaN(xs []float64) bool {
	for _, x := range xs {
		if math.IsNaN(x) {
			return true
		}
	}
	return false
}

// run the estimator of the case on the implementation; fills Err / Res / Trace
func execute(c *Case) {
	defer func() {
		if r := recover(); r != nil {
			c.Err = true
			c.Res = nil
			c.Tag += "|panic"
		}
	}()
	pool := tp.ThreadPool{}
	xs := ffs(c.Xs)
	var gamma ad.ConstVector
	if c.HasG {
		gamma = vec(ffs(c.G))
	}
	c.Err, c.Res = false, nil
	switch c.Kind {
	case "normal":
		e, err := se.NewNormalEstimator(0.0, 1.0, c.Bound.f())
		if err != nil {
			Die("NewNormalEstimator: %v", err)
		}
		if err := e.EstimateOnData(vec(xs), gamma, pool); err != nil {
			c.Err = true
			return
		}
		p := e.GetParameters()
		c.Res = fss([]float64{p.At(0).GetFloat64(), p.At(1).GetFloat64()})
	case "rate":
		var e st.ScalarEstimator
		var err error
		switch c.Fam {
		case 0:
			e, err = se.NewExponentialEstimator(1.0, c.Bound.f())
		case 1:
			e, err = se.NewPoissonEstimator(1.0)
		default:
			e, err = se.NewGeometricEstimator(0.5)
		}
		if err != nil {
			Die("New estimator: %v", err)
		}
		if err := e.EstimateOnData(vec(xs), gamma, pool); err != nil {
			c.Err = true
			return
		}
		v := e.GetParameters().At(0).GetFloat64()
		if math.IsNaN(v) {
			c.Err = true // a NaN parameter slipped through the constructor guard: counted as failure
			return
		}
		c.Res = fss([]float64{v})
	case "cat":
		th := make([]float64, c.K)
		for i := range th {
			th[i] = 1.0 / float64(c.K)
		}
		e, err := se.NewCategoricalEstimator(th)
		if err != nil {
			Die("NewCategoricalEstimator: %v", err)
		}
		if err := e.EstimateOnData(vec(xs), gamma, pool); err != nil {
			c.Err = true
			return
		}
		p := e.GetParameters() // log theta
		r := make([]float64, p.Dim())
		for i := range r {
			r[i] = math.Exp(p.At(i).GetFloat64())
		}
		if anyNaN(r) {
			c.Err = true
			return
		}
		c.Res = fss(r)
	case "em":
		runEM(c, pool)
	}
}

func runEM(c *Case, pool tp.ThreadPool) {
	ests := make([]st.ScalarEstimator, c.K)
	for k := 0; k < c.K; k++ {
		var err error
		if c.Fam == 1 {
			ests[k], err = se.NewPoissonEstimator(c.P0[k][0].f())
		} else {
			ests[k], err = se.NewCategoricalEstimator(ffs(c.P0[k]))
		}
		if err != nil {
			Die("component estimator: %v", err)
		}
	}
	c.Trace, c.Final = nil, nil
	npar := 1
	if c.Fam == 3 {
		npar = c.J
	}
	parse := func(p ad.Vector, i int, lik, eps float64) Hook {
		h := Hook{I: i, Lik: fs(lik), Eps: fs(eps)}
		for k := 0; k < c.K; k++ {
			h.Lw = append(h.Lw, fs(p.At(k).GetFloat64()))
		}
		for k := 0; k < c.K; k++ {
			row := []FS{}
			for j := 0; j < npar; j++ {
				row = append(row, fs(p.At(c.K+k*npar+j).GetFloat64()))
			}
			h.Ps = append(h.Ps, row)
		}
		return h
	}
	ncalls := 0
	hook := generic.EmHook{Value: func(m generic.BasicMixture, i int, lik, eps float64) {
		c.Trace = append(c.Trace, parse(m.GetParameters(), i, lik, eps))
		ncalls++
		if ncalls > 300 {
			panic("EM driver does not stop (likelihood NaN or change never below epsilon)")
		}
	}}
	// the data sets of the earlier runs on the same object, then the case's own; with InPlace the last data set is
	// written into the vector of the run before it (same length) and installed again
	runs := append(append([][]FS{}, c.PreXs...), c.Xs)
	var err error
	var getp func() ad.Vector
	var run func(x ad.ConstVector) error
	if c.Summ {
		var e *se.DiscreteMixtureEstimator
		if e, err = se.NewDiscreteMixtureEstimator(ffs(c.W0), ests, c.Eps.f(), c.MaxSteps, hook); err == nil {
			// EstimateOnData is inherited from MixtureEstimator and would install the plain data set:
			// the summarized (value, count) data set is only used through SetData + Estimate
			run = func(x ad.ConstVector) error {
				if err := e.SetData(x, x.Dim()); err != nil {
					return err
				}
				return e.Estimate(nil, pool)
			}
			getp = e.GetParameters
		}
	} else {
		var e *se.MixtureEstimator
		if e, err = se.NewMixtureEstimator(ffs(c.W0), ests, c.Eps.f(), c.MaxSteps, hook); err == nil {
			run = func(x ad.ConstVector) error { return e.EstimateOnData(x, nil, pool) }
			getp = e.GetParameters
		}
	}
	if err == nil {
		var prev ad.DenseFloat64Vector
		for i, d := range runs {
			c.Trace, ncalls = nil, 0
			cur := ad.NewDenseFloat64Vector(ffs(d))
			if c.InPlace && i == len(runs)-1 && prev != nil && len(prev) == len(cur) {
				copy(prev, cur)
				cur = prev
			}
			err = run(cur)
			if err != nil && i < len(runs)-1 {
				// an earlier run failed: the object is not in a state the case is about
				c.Err = true
				c.Tag += "|pre-run-error"
				return
			}
			prev = cur
		}
	}
	if err != nil {
		c.Err = true
	} else if getp != nil {
		h := parse(getp(), -1, math.NaN(), math.NaN())
		c.Final = &h
	}
	// a component without any responsibility mass (sum of its weights = 0) makes its estimator return NaN
	// parameters without an error, and every later iteration NaN: outside the property's quantifier
	// (weights with positive total); counted separately, not compared
	for t, h := range c.Trace {
		if t == 0 {
			continue
		}
		for _, row := range h.Ps {
			for _, v := range row {
				if math.IsNaN(v.f()) {
					c.Err = true
					c.Tag += "|em-empty-component-nan"
					return
				}
			}
		}
	}
}

// ---------------------------------------------------------------- exp table

type tab map[uint64]float64 // bits of d -> d

func (t tab) add(d float64) {
	if math.IsNaN(d) || math.IsInf(d, 0) {
		return
	}
	e := math.Exp(d)
	if math.IsInf(e, 0) {
		return
	}
	t[math.Float64bits(d)] = d
}

// the table keys a case needs
func (c *Case) keys(t tab) {
	if c.HasG {
		g := ffs(c.G)
		gm := math.Inf(-1)
		for _, v := range g {
			if gm < v {
				gm = v
			}
		}
		for _, v := range g {
			if c.Kind == "normal" {
				t.add(v - gm)
			}
			if math.Abs(v) <= 700 {
				t.add(v)
			}
		}
	}
	for _, h := range c.Trace {
		for _, v := range h.Lw {
			t.add(v.f())
		}
		for _, row := range h.Ps {
			for _, v := range row {
				if c.Fam == 1 {
					t.add(-v.f())
				} else {
					t.add(v.f())
				}
			}
		}
		t.add(h.Lik.f())
	}
}

func (t tab) sorted() []float64 {
	ks := make([]float64, 0, len(t))
	for _, d := range t {
		ks = append(ks, d)
	}
	sort.Float64s(ks)
	return ks
}

// ---------------------------------------------------------------- Coq terms

func optFList(has bool, xs []FS) string {
	if !has {
		return "None"
	}
	return "(Some " + FList(ffs(xs)) + ")"
}
func natList(xs []FS) string {
	s := make([]string, len(xs))
	for i, x := range xs {
		s[i] = fmt.Sprintf("%d", int(x.f()))
	}
	return "[" + strings.Join(s, "; ") + "]"
}

func (c *Case) coq() string {
	switch c.Kind {
	case "normal":
		res := "None"
		if !c.Err {
			res = fmt.Sprintf("(Some (%s, %s))", F(c.Res[0].f()), F(c.Res[1].f()))
		}
		return fmt.Sprintf("CNormal %s %s %s %s %s", B(c.Pert), F(c.Bound.f()), FList(ffs(c.Xs)), optFList(c.HasG, c.G), res)
	case "rate":
		res := "None"
		if !c.Err {
			res = fmt.Sprintf("(Some %s)", F(c.Res[0].f()))
		}
		return fmt.Sprintf("CRate %d%%Z %s %s %s %s", c.Fam, F(c.Bound.f()), FList(ffs(c.Xs)), optFList(c.HasG, c.G), res)
	case "cat":
		res := "None"
		if !c.Err {
			res = "(Some " + FList(ffs(c.Res)) + ")"
		}
		return fmt.Sprintf("CCat %d %s %s %s", c.K, natList(c.Xs), optFList(c.HasG, c.G), res)
	case "em":
		hs := make([]string, len(c.Trace))
		for i, h := range c.Trace {
			rows := make([]string, len(h.Ps))
			for k, r := range h.Ps {
				rows[k] = FList(ffs(r))
			}
			hs[i] = fmt.Sprintf("(%d, %s, %s, %s, %s)", h.I, FList(ffs(h.Lw)), List(rows), F(h.Lik.f()), F(h.Eps.f()))
		}
		ms := "None"
		if c.MaxSteps >= 0 {
			ms = fmt.Sprintf("(Some %d)", c.MaxSteps)
		}
		return fmt.Sprintf("CEm %d%%Z %d %d %s %s %s %s", c.Fam, c.K, c.J, natList(c.Xs), F(c.Eps.f()), ms, List(hs))
	}
	return "?"
}

const header = `From Coq Require Import ZArith QArith Floats List Bool.
From ADV Require Import Base.Num Base.Corr C16.Model C16.Corr.
Import ListNotations.
Open Scope nat_scope.
`

func writeShard(dir, name string, k int, cs []*Case) (int, error) {
	t := tab{}
	t.add(0)
	for _, c := range cs {
		c.keys(t)
	}
	ks := t.sorted()
	var sb strings.Builder
	sb.WriteString(header)
	sb.WriteString("Definition tab : exptab := [\n")
	for i, d := range ks {
		sb.WriteString(fmt.Sprintf("  (%s, %s)", F(d), F(math.Exp(d))))
		if i != len(ks)-1 {
			sb.WriteString(";")
		}
		sb.WriteString("\n")
	}
	sb.WriteString("].\nDefinition cases : list case := [\n")
	for i, c := range cs {
		sb.WriteString("  " + c.coq())
		if i != len(cs)-1 {
			sb.WriteString(";")
		}
		sb.WriteString("\n")
	}
	sb.WriteString("].\nDefinition M := Eval vm_compute in (C16.Corr.mism tab cases).\nPrint M.\n")
	if err := os.WriteFile(filepath.Join(dir, fmt.Sprintf("%s_%d.v", name, k)), []byte(sb.String()), 0644); err != nil {
		return 0, err
	}
	cn := "cert_" + name
	if name == "cases" {
		cn = "cert"
	}
	if err := writeCerts(dir, cn, k, ks); err != nil {
		return 0, err
	}
	return len(ks), nil
}


// certification of the table entries: |exp d - e| <= e 2^-50 + 2^-1074 (chunks of 100 goals per file)
func writeCerts(dir, cn string, k int, ks []float64) error {
	for part := 0; part*100 < len(ks); part++ {
		var cb strings.Builder
		cb.WriteString("From Coq Require Import Reals List.\nFrom Interval Require Import Tactic.\nImport ListNotations.\nOpen Scope R_scope.\n")
		for i := part * 100; i < len(ks) && i < (part+1)*100; i++ {
			d := ks[i]
			e := math.Exp(d)
			cb.WriteString(fmt.Sprintf("Goal Rabs (exp %s - %s) <= %s * 0x1p-50 + 0x1p-1074. Proof. interval with (i_prec 70). Qed.\n", RLit(d), RLit(e), RLit(e)))
		}
		cb.WriteString("Definition M : list nat := [].\nPrint M.\n")
		if err := os.WriteFile(filepath.Join(dir, fmt.Sprintf("%s_%d_%d.v", cn, k, part)), []byte(cb.String()), 0644); err != nil {
			return err
		}
	}
	return nil
}

// ---------------------------------------------------------------- generators

var gpool = []float64{0, -0.5, -1, -2, -3.25, 0.75, 1.5, -8, -30, -0.125, 2, -5.5, -700, -0.0625, 3}

func genGamma(r *Rng, n int) (bool, []float64, string) {
	switch r.Pick([]int{35, 35, 10, 8, 6, 6}) {
	case 0:
		return false, nil, "g-nil"
	case 1: // pool with -inf sprinkled
		g := make([]float64, n)
		for i := range g {
			if r.Intn(6) == 0 {
				g[i] = math.Inf(-1)
			} else {
				g[i] = gpool[r.Intn(len(gpool))]
			}
		}
		return true, g, "g-pool"
	case 2: // all equal
		g := make([]float64, n)
		v := gpool[r.Intn(len(gpool))]
		for i := range g {
			g[i] = v
		}
		return true, g, "g-equal"
	case 3: // one dominant
		g := make([]float64, n)
		for i := range g {
			g[i] = -30
		}
		g[r.Intn(n)] = 0
		return true, g, "g-dominant"
	case 4: // all -inf (no weight at all)
		g := make([]float64, n)
		for i := range g {
			g[i] = math.Inf(-1)
		}
		return true, g, "g-allneginf"
	default: // a single weighted point, rest -inf
		g := make([]float64, n)
		for i := range g {
			g[i] = math.Inf(-1)
		}
		g[r.Intn(n)] = gpool[r.Intn(len(gpool))]
		return true, g, "g-single"
	}
}

func genN(r *Rng) int {
	switch r.Pick([]int{3, 2, 2, 5, 3}) {
	case 0:
		return 1
	case 1:
		return 2
	case 2:
		return 3
	case 3:
		return r.Range(4, 15)
	}
	return r.Range(16, 50)
}

func genNormal(r *Rng) *Case {
	n := genN(r)
	c := &Case{Kind: "normal", Pert: true}
	xs := make([]float64, n)
	mode := r.Pick([]int{50, 15, 10, 10, 8, 7})
	base := float64(r.Range(-64, 64)) / 8
	for i := range xs {
		switch mode {
		case 0:
			xs[i] = float64(r.Range(-512, 512)) / 8
		case 1: // repeats of few values
			xs[i] = base + float64(r.Intn(2))
		case 2: // all equal: variance 0
			xs[i] = base
		case 3: // integers
			xs[i] = float64(r.Range(-20, 20))
		case 4: // large offset, small spread: cancellation in s2 - s1*s1
			xs[i] = 1e8 + float64(r.Intn(3))
			c.Pert = false
		default: // extreme magnitudes
			xs[i] = []float64{1e-150, 1e150, -1e150, 1e-300, 3e200}[r.Intn(5)]
			c.Pert = false
		}
	}
	c.Tag = []string{"dyadic", "repeats", "allequal", "integer", "cancel", "extreme"}[mode]
	c.Xs = fss(xs)
	c.Bound = fs([]float64{0, 0, 1.0 / 1024, 0.5, 2, 1e-300, 16}[r.Intn(7)])
	has, g, tag := genGamma(r, n)
	c.HasG, c.G = has, fss(g)
	c.Tag += "|" + tag
	return c
}

func genRate(r *Rng) *Case {
	n := genN(r)
	c := &Case{Kind: "rate", Fam: r.Intn(3)}
	xs := make([]float64, n)
	mode := r.Pick([]int{60, 15, 15, 10})
	for i := range xs {
		switch mode {
		case 0:
			if c.Fam == 0 {
				xs[i] = float64(r.Range(1, 256)) / 8
			} else {
				xs[i] = float64(r.Range(0, 20))
			}
		case 1: // all zero
			xs[i] = 0
		case 2: // zeros mixed in / repeats
			xs[i] = float64(r.Intn(2) * r.Range(1, 4))
		default: // poisson: negatives are skipped by the estimator; others: large values
			if c.Fam == 1 {
				xs[i] = float64(r.Range(-3, 6))
			} else {
				xs[i] = float64(r.Range(0, 1000000))
			}
		}
	}
	c.Tag = []string{"exponential", "poisson", "geometric"}[c.Fam] + "|" + []string{"plain", "allzero", "zeros", "edge"}[mode]
	c.Xs = fss(xs)
	c.Bound = fs([]float64{1e300, 1e300, 4, 0.25, 1, 0.0078125}[r.Intn(6)])
	has, g, tag := genGamma(r, n)
	c.HasG, c.G = has, fss(g)
	c.Tag += "|" + tag
	return c
}

func genCat(r *Rng) *Case {
	n := genN(r)
	c := &Case{Kind: "cat", K: r.Range(1, 6)}
	xs := make([]float64, n)
	used := r.Range(1, c.K) // some categories never observed
	for i := range xs {
		xs[i] = float64(r.Intn(used))
	}
	if r.Bool() { // shift so that the unused categories are not always the last ones
		for i := range xs {
			xs[i] = float64(c.K-1) - xs[i]
		}
	}
	c.Xs = fss(xs)
	has, g, tag := genGamma(r, n)
	c.HasG, c.G = has, fss(g)
	c.Tag = fmt.Sprintf("categorical|k%d|%s", c.K, tag)
	return c
}

func dyadicSimplex(r *Rng, k int, zeros bool) []float64 {
	// k non-negative multiples of 1/16 summing to 1
	w := make([]int, k)
	left := 16
	for i := 0; i < k-1; i++ {
		lo := 1
		if zeros && r.Intn(4) == 0 {
			lo = 0
		}
		v := lo
		if m := left - (k - 1 - i); m > lo {
			v = r.Range(lo, m)
		}
		w[i] = v
		left -= v
	}
	w[k-1] = left
	f := make([]float64, k)
	for i := range f {
		f[i] = float64(w[i]) / 16
	}
	return f
}

func genEM(r *Rng) *Case {
	c := &Case{Kind: "em", K: r.Range(1, 3), Summ: r.Bool()}
	if r.Bool() {
		c.Fam = 1
		c.J = 1
	} else {
		c.Fam = 3
		c.J = r.Range(2, 4)
	}
	n := r.Range(1, 14)
	if r.Intn(4) == 0 {
		n = r.Range(15, 30)
	}
	xs := make([]float64, n)
	for i := range xs {
		if c.Fam == 1 {
			xs[i] = float64(r.Range(0, 9))
			if r.Intn(3) == 0 {
				xs[i] = float64(r.Range(0, 2))
			}
		} else {
			xs[i] = float64(r.Intn(c.J))
		}
	}
	c.Xs = fss(xs)
	c.W0 = fss(dyadicSimplex(r, c.K, false))
	for k := 0; k < c.K; k++ {
		if c.Fam == 1 {
			c.P0 = append(c.P0, fss([]float64{float64(r.Range(1, 64)) / 8}))
		} else {
			c.P0 = append(c.P0, fss(dyadicSimplex(r, c.J, true)))
		}
	}
	c.MaxSteps = []int{1, 2, 3, 4, 6, 8, -1}[r.Intn(7)]
	c.Eps = fs([]float64{0, 1e-6, 1e-2, 0.5, -1}[r.Intn(5)])
	if c.MaxSteps == -1 && c.Eps.f() <= 0 {
		c.Eps = fs(1e-3) // unbounded loop needs a positive threshold to stop
	}
	c.Tag = fmt.Sprintf("em|fam%d|k%d|summ=%v|ms%d|eps%s", c.Fam, c.K, c.Summ, c.MaxSteps, strconv.FormatFloat(c.Eps.f(), 'g', -1, 64))
	return c
}

func nontrivial(c *Case) bool {
	switch c.Kind {
	case "em":
		return !c.Err && len(c.Trace) >= 3 && c.K >= 2
	default:
		return !c.Err && len(c.Xs) >= 2 && c.HasG
	}
}

// ---------------------------------------------------------------- main

func loadCorpus(path string) []*Case {
	var out []*Case
	b, err := os.ReadFile(path)
	if err != nil {
		return nil
	}
	for _, l := range strings.Split(string(b), "\n") {
		l = strings.TrimSpace(l)
		if l == "" {
			continue
		}
		c := &Case{}
		if err := json.Unmarshal([]byte(l), c); err != nil {
			Die("corpus: %v", err)
		}
		out = append(out, c)
	}
	return out
}

func main() {
	o := ParseFlags()
	if o.Extra == "hunt" {
		hunt(o)
		return
	}
	if strings.HasPrefix(o.Extra, "round2") {
		round2(o)
		return
	}
	if strings.HasPrefix(o.Extra, "round3") {
		round3(o)
		return
	}
	if o.Extra == "hunt5only" { // the nested-estimator hunt on its own (mutation trials)
		res := map[string]interface{}{"found": false}
		o.N *= 4
		hunt5(o, nil, res)
		b, _ := json.MarshalIndent(res, "", " ")
		os.MkdirAll(o.Out, 0755)
		os.WriteFile(filepath.Join(o.Out, "hunt.json"), b, 0644)
		return
	}
	if strings.HasPrefix(o.Extra, "round5") {
		round5(o)
		return
	}
	if strings.HasPrefix(o.Extra, "round6") {
		round6(o)
		return
	}
	if o.Extra == "hunt6only" { // the round-6 hunt on its own (mutation trials)
		res := map[string]interface{}{"found": false}
		hunt6(o, nil, res)
		b, _ := json.MarshalIndent(res, "", " ")
		os.MkdirAll(o.Out, 0755)
		os.WriteFile(filepath.Join(o.Out, "hunt.json"), b, 0644)
		return
	}
	if o.Replay != "" {
		replay(o)
		return
	}
	r := NewRng(o.Seed)
	var cs []*Case
	for _, c := range loadCorpus(o.Extra) {
		c.Tag = "corpus|" + c.Tag
		cs = append(cs, c)
	}
	for i := 0; i < o.N; i++ {
		var c *Case
		switch r.Pick([]int{28, 32, 22, 18}) {
		case 0:
			c = genNormal(r)
		case 1:
			c = genRate(r)
		case 2:
			c = genCat(r)
		default:
			c = genEM(r)
		}
		cs = append(cs, c)
	}
	hist := map[string]int{}
	nontriv := map[string]bool{}
	var kept []*Case
	for _, c := range cs {
		execute(c)
		if c.Kind == "em" && c.Err {
			if strings.Contains(c.Tag, "em-empty-component-nan") {
				hist["em-empty-component-nan(skipped)"]++
			}
			hist["em-error(skipped)"]++
			continue
		}
		kept = append(kept, c)
		for _, t := range strings.Split(c.Tag, "|") {
			hist[t]++
		}
		hist["kind:"+c.Kind]++
		hist[fmt.Sprintf("n:%d", sizeBucket(len(c.Xs)))]++
		if c.Err {
			hist["outcome:error"]++
		} else {
			hist["outcome:ok"]++
		}
		if nontrivial(c) {
			b, _ := json.Marshal(struct {
				K string
				X []FS
				G []FS
				W []FS
				P [][]FS
			}{c.Kind, c.Xs, c.G, c.W0, c.P0})
			nontriv[string(b)] = true
		}
	}
	per := 40
	if err := os.MkdirAll(o.Out, 0755); err != nil {
		Die("%v", err)
	}
	nsh, ntab := 0, 0
	for s := 0; s < len(kept); s += per {
		e := s + per
		if e > len(kept) {
			e = len(kept)
		}
		n, err := writeShard(o.Out, "cases", nsh, kept[s:e])
		if err != nil {
			Die("%v", err)
		}
		ntab += n
		nsh++
	}
	f, _ := os.Create(filepath.Join(o.Out, "cases.jsonl"))
	enc := json.NewEncoder(f)
	for _, c := range kept {
		enc.Encode(c)
	}
	f.Close()
	samples := []interface{}{}
	for i := 0; i < len(kept) && i < 2; i++ {
		samples = append(samples, kept[i])
	}
	meta := map[string]interface{}{
		"name": "cases", "evaluations": len(kept), "distinct_nontrivial": len(nontriv),
		"rule":      "estimator case: >= 2 observations with explicit log-weights and a successful estimate; EM case: >= 2 components and >= 2 recorded iterations",
		"samples":   samples, "histogram": hist, "shards": nsh, "per_shard": per,
		"extra": map[string]interface{}{"exp_table_entries_certified": ntab},
	}
	b, _ := json.MarshalIndent(meta, "", " ")
	os.WriteFile(filepath.Join(o.Out, "cases.meta.json"), b, 0644)
}

func sizeBucket(n int) int {
	switch {
	case n <= 3:
		return n
	case n <= 15:
		return 15
	}
	return 50
}

func replay(o Opts) {
	b, err := os.ReadFile(o.Replay)
	if err != nil {
		Die("%v", err)
	}
	var rpk struct {
		Case *struct {
			Kind string `json:"kind"`
		} `json:"case"`
	}
	if err := json.Unmarshal(b, &rpk); err != nil || rpk.Case == nil {
		Die("replay file has no case: %v", err)
	}
	switch rpk.Case.Kind {
	case "seq", "emfinal", "reuse3":
		var rp6 struct {
			Case *Case6 `json:"case"`
		}
		if err := json.Unmarshal(b, &rp6); err != nil || rp6.Case == nil {
			Die("replay file has no round-6 case: %v", err)
		}
		replay6(o, rp6.Case)
		return
	case "nest", "summ":
		var rp5 struct {
			Case *Case5 `json:"case"`
		}
		if err := json.Unmarshal(b, &rp5); err != nil || rp5.Case == nil {
			Die("replay file has no round-5 case: %v", err)
		}
		replay5(o, rp5.Case)
		return
	case "vnormal", "sid", "siid", "negbin", "logreg", "emnormal":
		var rp3 struct {
			Case *Case3 `json:"case"`
		}
		if err := json.Unmarshal(b, &rp3); err != nil || rp3.Case == nil {
			Die("replay file has no round-3 case: %v", err)
		}
		replay3(o, rp3.Case)
		return
	}
	var rp struct {
		Case *Case `json:"case"`
	}
	if err := json.Unmarshal(b, &rp); err != nil || rp.Case == nil {
		Die("replay file has no case: %v", err)
	}
	if rp.Case.Kind == "hmm" {
		var rp2 struct {
			Case *Case2 `json:"case"`
		}
		if err := json.Unmarshal(b, &rp2); err != nil || rp2.Case == nil {
			Die("replay file has no Baum-Welch case: %v", err)
		}
		replay2(o, rp2.Case)
		return
	}
	execute(rp.Case)
	os.MkdirAll(o.Out, 0755)
	if _, err := writeShard(o.Out, "replay", 0, []*Case{rp.Case}); err != nil {
		Die("%v", err)
	}
	msg := oracle(rp.Case)
	hb, _ := json.MarshalIndent(map[string]interface{}{"found": msg != "", "failure": msg, "case": rp.Case}, "", " ")
	os.WriteFile(filepath.Join(o.Out, "hunt.json"), hb, 0644)
}
