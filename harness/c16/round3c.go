// C16 harness, round 3 (continued): EM steps of scalar mixtures with normal components
// (scalarEstimator.MixtureEstimator over NormalEstimator components), hook trace for the single-step replay.
package main

import (
	"fmt"
	"math"

	. "adharness/common"

	st "github.com/pbenner/autodiff/statistics"
	"github.com/pbenner/autodiff/statistics/generic"
	se "github.com/pbenner/autodiff/statistics/scalarEstimator"
	tp "github.com/pbenner/threadpool"
)

func executeEmNormal(c *Case3, pool tp.ThreadPool) {
	xs := ffs(c.Xs[0])
	ests := make([]st.ScalarEstimator, c.K)
	for k := 0; k < c.K; k++ {
		e, err := se.NewNormalEstimator(c.P0[k][0].f(), c.P0[k][1].f(), c.Bound.f())
		if err != nil {
			Die("normal component: %v", err)
		}
		ests[k] = e
	}
	c.Trace = nil
	hook := generic.EmHook{Value: func(m generic.BasicMixture, i int, lik, eps float64) {
		p := m.GetParameters()
		h := Hook{I: i, Lik: fs(lik), Eps: fs(eps)}
		for k := 0; k < c.K; k++ {
			h.Lw = append(h.Lw, fs(p.At(k).GetFloat64()))
		}
		for k := 0; k < c.K; k++ {
			h.Ps = append(h.Ps, []FS{fs(p.At(c.K + 2*k).GetFloat64()), fs(p.At(c.K + 2*k + 1).GetFloat64())})
		}
		c.Trace = append(c.Trace, h)
		if len(c.Trace) > 100 {
			panic("EM driver does not stop")
		}
	}}
	e, err := se.NewMixtureEstimator(ffs(c.W0), ests, c.Eps.f(), c.MaxSteps, hook)
	if err == nil {
		err = e.EstimateOnData(vec(xs), nil, pool)
	}
	if err != nil {
		c.Err = true
		return
	}
	for _, h := range c.Trace {
		for _, row := range h.Ps {
			for _, v := range row {
				if math.IsNaN(v.f()) || math.IsInf(v.f(), 0) {
					c.Err = true
					c.Tag += "|em-empty-component-nan"
					return
				}
			}
		}
		for _, v := range h.Lw {
			if math.IsNaN(v.f()) {
				c.Err = true
				return
			}
		}
	}
	// the replay needs the exp arguments in the range where the rational check of the argument is tight
	for _, h := range c.Trace {
		for _, row := range h.Ps {
			for _, x := range xs {
				if a := enArg(x, row[0].f(), row[1].f()); !(a >= -60) {
					c.Err = true
					c.Tag += "|em-arg-out-of-range"
					return
				}
			}
		}
	}
}

// the argument of exp in the normal density, evaluated exactly as Corr3.en_arg does
func enArg(x, mu, s float64) float64 {
	d := float64(x - mu)
	q := float64(d * d)
	v := float64(s * s)
	return -float64(q / float64(2*v))
}

func emNormalKeys(c *Case3, t tab) {
	xs := ffs(c.Xs[0])
	for _, h := range c.Trace {
		for _, v := range h.Lw {
			t.add(v.f())
		}
		for _, row := range h.Ps {
			for _, x := range xs {
				t.add(enArg(x, row[0].f(), row[1].f()))
			}
		}
		t.add(h.Lik.f())
	}
}

func emNormalCoq(c *Case3) string {
	hs := make([]string, len(c.Trace))
	for i, h := range c.Trace {
		rows := make([]string, len(h.Ps))
		for k, r := range h.Ps {
			rows[k] = FList(ffs(r))
		}
		hs[i] = fmt.Sprintf("(%d, %s, %s, %s, %s)", h.I, FList(ffs(h.Lw)), List(rows), F(h.Lik.f()), F(h.Eps.f()))
	}
	ms := "None"
	if c.MaxSteps >= 0 {
		ms = fmt.Sprintf("(Some %d)", c.MaxSteps)
	}
	return fmt.Sprintf("C3EmNormal %d %s %s %s %s %s", c.K, F(c.Bound.f()), FList(ffs(c.Xs[0])), F(c.Eps.f()), ms, List(hs))
}

func genEmNormal(r *Rng) *Case3 {
	c := &Case3{Kind: "emnormal", K: r.Range(1, 3)}
	n := r.Range(3, 10)
	xs := make([]float64, n)
	for i := range xs {
		// two loose clusters of dyadic values, repeats likely
		xs[i] = float64(r.Range(-12, 12))/4 + float64(r.Intn(2))*4
	}
	c.Xs = [][]FS{fss(xs)}
	c.W0 = fss(dyadicSimplex(r, c.K, false))
	for k := 0; k < c.K; k++ {
		c.P0 = append(c.P0, fss([]float64{float64(r.Range(-8, 24)) / 4, float64(r.Range(4, 16)) / 4}))
	}
	c.Bound = fs([]float64{0.0078125, 0.5, 1, 1.5}[r.Intn(4)])
	// admissible initial parameters only (quantifier of the property): with an initial sigma below SigmaMin the first,
	// constrained M-step may lower the likelihood of the inadmissible start
	for k := range c.P0 {
		if c.P0[k][1].f() < c.Bound.f() {
			c.P0[k][1] = c.Bound
		}
	}
	c.MaxSteps = []int{1, 2, 3}[r.Intn(3)]
	c.Eps = fs([]float64{0, 1e-6, 1e-2, -1}[r.Intn(4)])
	c.Tag = fmt.Sprintf("emnormal|k%d|ms%d", c.K, c.MaxSteps)
	return c
}

// mixture log-likelihood under the parameters of a hook record
func emNormalLoglik(c *Case3, h Hook) float64 {
	s := 0.0
	for _, x := range ffs(c.Xs[0]) {
		t := math.Inf(-1)
		for k := 0; k < c.K; k++ {
			mu, sg := h.Ps[k][0].f(), h.Ps[k][1].f()
			lp := -math.Log(sg) - 0.5*math.Log(2*math.Pi) - (x-mu)*(x-mu)/(2*sg*sg)
			t = logAdd(t, h.Lw[k].f()+lp)
		}
		s += t
	}
	return s
}

func oracleEmNormal(c *Case3) string {
	if c.Err || len(c.Trace) < 2 {
		return ""
	}
	ll := make([]float64, len(c.Trace))
	for t, h := range c.Trace {
		ll[t] = emNormalLoglik(c, h)
		for k := range h.Ps {
			if t >= 1 && h.Ps[k][1].f() < c.Bound.f() {
				return fmt.Sprintf("after %d EM steps component %d has sigma = %v below SigmaMin = %v", t, k, h.Ps[k][1].f(), c.Bound.f())
			}
		}
	}
	for t := 1; t < len(c.Trace); t++ {
		// the initial components need not respect SigmaMin; from step 1 on every M-step is the constrained optimum
		if ll[t] < ll[t-1]-1e-9*(math.Abs(ll[t-1])+1) && (t >= 2 || initAdmissible(c)) {
			return fmt.Sprintf("EM step %d with normal components decreased the log-likelihood: %.12g -> %.12g", t, ll[t-1], ll[t])
		}
		if !relClose(c.Trace[t].Lik.f(), ll[t-1], 1e-9) {
			return fmt.Sprintf("hook %d reports likelihood %.12g, the mixture of iteration %d has %.12g", t, c.Trace[t].Lik.f(), t-1, ll[t-1])
		}
	}
	return ""
}

func initAdmissible(c *Case3) bool {
	for _, p := range c.P0 {
		if p[1].f() < c.Bound.f() {
			return false
		}
	}
	return true
}
