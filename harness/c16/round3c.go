// C16 harness, round 3 (continued): single EM steps of scalar mixtures with normal components.
package main

import (
	. "adharness/common"

	tp "github.com/pbenner/threadpool"
)

func executeEmNormal(c *Case3, pool tp.ThreadPool) { c.Err = true }
func emNormalKeys(c *Case3, t tab)                  {}
func emNormalCoq(c *Case3) string                   { return "?" }
func genEmNormal(r *Rng) *Case3                     { return genVNormal(r) }
func oracleEmNormal(c *Case3) string                { return "" }
