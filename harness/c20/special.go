// C20 round 2: EVERY exported function (and exported method) of /repo/special with non-finite
// arguments (NaN, +Inf, -Inf at each argument position, the other arguments finite; and all
// arguments non-finite), each call in a subprocess under the deadline.  The table below is tied to
// the sources by the plugin: it scans special/*.go for exported funcs and fails when one is not
// listed here (specialCovered) or explicitly exempted.
package main

import (
	"fmt"
	"math"

	"github.com/pbenner/autodiff/special"
)

type spFn struct {
	name  string
	nargs int
	call  func(a []float64, cnt *counter)
}

var spPoly = []float64{1, -2, 0.5, 3}

var spTable = []spFn{
	{"BesselI", 2, func(a []float64, _ *counter) { special.BesselI(a[0], a[1]) }},
	{"LogBesselI", 2, func(a []float64, _ *counter) { special.LogBesselI(a[0], a[1]) }},
	{"CF1_ik", 2, func(a []float64, _ *counter) { special.CF1_ik(a[0], a[1]) }},
	{"CF1_ik_log", 2, func(a []float64, _ *counter) { special.CF1_ik_log(a[0], a[1]) }},
	{"CF2_ik", 2, func(a []float64, _ *counter) { special.CF2_ik(a[0], a[1]) }},
	{"CF2_ik_log", 2, func(a []float64, _ *counter) { special.CF2_ik_log(a[0], a[1]) }},
	{"CosPi", 1, func(a []float64, _ *counter) { special.CosPi(a[0]) }},
	{"SinPi", 1, func(a []float64, _ *counter) { special.SinPi(a[0]) }},
	{"Digamma", 1, func(a []float64, _ *counter) { special.Digamma(a[0]) }},
	{"Trigamma", 1, func(a []float64, _ *counter) { special.Trigamma(a[0]) }},
	{"Zeta", 1, func(a []float64, _ *counter) { special.Zeta(a[0]) }},
	{"LogErfc", 1, func(a []float64, _ *counter) { special.LogErfc(a[0]) }},
	{"GammaLower", 2, func(a []float64, _ *counter) { special.GammaLower(a[0], a[1]) }},
	{"GammaUpper", 2, func(a []float64, _ *counter) { special.GammaUpper(a[0], a[1]) }},
	{"GammaP", 2, func(a []float64, _ *counter) { special.GammaP(a[0], a[1]) }},
	{"GammaQ", 2, func(a []float64, _ *counter) { special.GammaQ(a[0], a[1]) }},
	{"GammaPfirstDerivative", 2, func(a []float64, _ *counter) { special.GammaPfirstDerivative(a[0], a[1]) }},
	{"GammaPsecondDerivative", 2, func(a []float64, _ *counter) { special.GammaPsecondDerivative(a[0], a[1]) }},
	{"Mgamma", 1, func(a []float64, _ *counter) { special.Mgamma(a[0], 3) }},
	{"Mlgamma", 1, func(a []float64, _ *counter) { special.Mlgamma(a[0], 3) }},
	{"Polygamma/n=0", 1, func(a []float64, _ *counter) { special.Polygamma(0, a[0]) }},
	{"Polygamma/n=1", 1, func(a []float64, _ *counter) { special.Polygamma(1, a[0]) }},
	{"Polygamma/n=2", 1, func(a []float64, _ *counter) { special.Polygamma(2, a[0]) }},
	{"Polygamma/n=5", 1, func(a []float64, _ *counter) { special.Polygamma(5, a[0]) }},
	{"Polygamma/n=30", 1, func(a []float64, _ *counter) { special.Polygamma(30, a[0]) }},
	{"Powm1", 2, func(a []float64, _ *counter) { special.Powm1(a[0], a[1]) }},
	{"SumSeries", 2, func(a []float64, c *counter) { special.SumSeries(constSeries{c}, a[0], a[1], 200) }},
	{"SumLogSeries", 2, func(a []float64, c *counter) { special.SumLogSeries(constSeries{c}, a[0], a[1], 200) }},
	{"EvalContinuedFraction", 1, func(a []float64, c *counter) { special.EvalContinuedFraction(altFraction{c}, a[0], 200) }},
	{"Polynomial.Eval", 1, func(a []float64, _ *counter) { special.NewPolynomial(spPoly).Eval(a[0]) }},
	{"EvenPolynomial.Eval", 1, func(a []float64, _ *counter) { special.NewEvenPolynomial(spPoly).Eval(a[0]) }},
	{"LogPolynomial.Eval", 1, func(a []float64, _ *counter) { special.NewLogPolynomial(spPoly).Eval(a[0]) }},
	{"SmallGamma2Series.Eval", 2, func(a []float64, _ *counter) {
		s := special.NewSmallGamma2Series(a[0], a[1])
		for i := 0; i < 5; i++ {
			s.Eval()
		}
	}},
	{"LowerIncompleteGammaSeries.Eval", 2, func(a []float64, _ *counter) {
		s := special.NewLowerIncompleteGammaSeries(a[0], a[1])
		for i := 0; i < 5; i++ {
			s.Eval()
		}
	}},
	{"UpperIncompleteGammaFraction.Eval", 2, func(a []float64, _ *counter) {
		s := special.NewUpperIncompleteGammaFraction(a[0], a[1])
		for i := 0; i < 5; i++ {
			s.Eval()
		}
	}},
	// integer-only arguments: no non-finite value exists; boundary integers instead (P[0] is the int)
	{"Factorial", -1, func(a []float64, _ *counter) { special.Factorial(int(a[0])) }},
	{"BernoulliNumber", -1, func(a []float64, _ *counter) { special.BernoulliNumber(int(a[0])) }},
}

// constructors reached through the Eval rows above
var spAlso = []string{"NewPolynomial", "NewEvenPolynomial", "NewLogPolynomial", "NewSmallGamma2Series",
	"NewLowerIncompleteGammaSeries", "NewUpperIncompleteGammaFraction", "Polygamma"}

func specialCovered() []string {
	out := append([]string{}, spAlso...)
	for _, f := range spTable {
		out = append(out, f.name)
	}
	return out
}

var nfNames = []string{"nan", "+inf", "-inf"}

func nfValue(s string) float64 {
	switch s {
	case "nan":
		return math.NaN()
	case "+inf":
		return math.Inf(1)
	case "-inf":
		return math.Inf(-1)
	}
	return 0
}

// specialNFCases: Obj encodes the argument pattern ("nan,fin", "fin,-inf", "+inf,+inf", ...), P the finite values
func specialNFCases(add func(TCase)) {
	for _, f := range spTable {
		if f.nargs < 0 {
			for _, k := range []float64{0, 1, 2, 20, 34, 170, 171, 300} {
				add(TCase{Routine: "specialnf", Family: f.name, N: 1, Cap: -1, Obj: "int", P: []float64{k}})
			}
			continue
		}
		for _, nf := range nfNames {
			if f.nargs == 1 {
				add(TCase{Routine: "specialnf", Family: f.name, N: 1, Cap: -1, Obj: nf, P: []float64{0}})
				continue
			}
			for _, fin := range []float64{0.5, 3} {
				add(TCase{Routine: "specialnf", Family: f.name, N: 2, Cap: -1, Obj: nf + ",fin", P: []float64{0, fin}})
				add(TCase{Routine: "specialnf", Family: f.name, N: 2, Cap: -1, Obj: "fin," + nf, P: []float64{fin, 0}})
			}
			for _, nf2 := range nfNames {
				add(TCase{Routine: "specialnf", Family: f.name, N: 2, Cap: -1, Obj: nf + "," + nf2, P: []float64{0, 0}})
			}
		}
	}
}

func runSpecialNF(c TCase, cnt *counter) {
	for _, f := range spTable {
		if f.name != c.Family {
			continue
		}
		args := make([]float64, len(c.P))
		copy(args, c.P)
		if c.Obj != "int" {
			pat := splitComma(c.Obj)
			for i, p := range pat {
				if p != "fin" && i < len(args) {
					args[i] = nfValue(p)
				}
			}
		}
		f.call(args, cnt)
		return
	}
	Die2(fmt.Sprintf("unknown special function %s", c.Family))
}

func splitComma(s string) []string {
	var out []string
	cur := ""
	for _, ch := range s {
		if ch == ',' {
			out = append(out, cur)
			cur = ""
		} else {
			cur += string(ch)
		}
	}
	return append(out, cur)
}

func Die2(msg string) { panic(msg) }
