// C20 round 3: the RETRY loops (rprop's inner `for { trial; if invalid { step[i] *= eta[1] } else break }`,
// generic and dense; lineSearch's `for !constraints(alpha_j) { alpha_j *= 0.5 }`; newton's
// `for { x2 = x1 - t1; ...; t1 *= c }`).
//
//  1. zero-partial stream (zpCases): objectives with EXACTLY zero partial derivatives at some iterates
//     (coupled / separable terms, start on a symmetry axis, hinge gates), a large initial step, and an
//     invalid region that is entered through ONE coordinate only; invalidity by a Constraints callback,
//     by a NaN gradient or by an objective error; rprop.Run (generic) and rprop.RunGradient (dense).
//
//  2. a log of every pass of the inner loop, taken through caller-owned callbacks only: the hook hands
//     out the LIVE slices gradient_new, step and x1; the objective sees every trial point.  From the log
//     (a) the progress predicate "every coordinate that moved the rejected trial point off x1 has a
//     strictly smaller step at the next pass" is evaluated on every run, (b) a non-returning run is
//     re-executed with deterministic fuel (probe) and the STATE it spins in is classified:
//
//     hangstate:eta1-ge-1            eta[1] >= 1 was passed (the option is not validated; the step cannot shrink)
//     hangstate:trial-at-x1          every moved coordinate shrank at every pass, the trial point has become
//     bit-equal to the last valid point x1 and is still rejected (the callback
//     answers differently for the same point: history dependent objective / constraint)
//     hangstate:trial-gradient-zero  (dense only) the step of a moved coordinate was not shrunk because the partial
//     derivative AT THE REJECTED TRIAL POINT is exactly zero (rprop_dense keys move and
//     shrink by gradient_new, which evalGradient(x2, gradient_new) has overwritten)
//     hangstate:step-subnormal       as trial-at-x1, but x1[i] = 0 and step[i]*eta[1] rounds back to the same subnormal step (eta[1] > 0.5):
//     the trial point stays within 1e-300 of x1 and is still rejected
//     hangstate:no-shrink            a moved coordinate was not shrunk although eta[1] < 1 and none of the above
//     (impossible for the coded loop: ProofsRetry.rprop_moved_subset_shrunk)
//     hangstate:shrinking            progress at every pass, x1 not reached within the fuel
//     hangstate:alpha-zero / trial-at-x1 (lineSearch / newton / bfgs constraint loops) the step length has
//     underflowed to 0 and the constraint rejects the last accepted point itself
//     hangstate:alpha-stuck / trial-stuck  the step length / trial point does not change between passes
//
//     Only the first three (and alpha-zero) are matched by known findings; everything else is a VIOLATION.
//
//  3. inner-loop traces (x1, gradient_new, step, eta[1], rejected trial points, steps) of the runs that
//     returned are written as Coq cases and replayed bit-exactly by ModelRetry.rprop_inner over floats.
package main

import (
	"errors"
	"fmt"
	"math"
	"strings"

	. "adharness/common"

	ad "github.com/pbenner/autodiff"
	"github.com/pbenner/autodiff/algorithm/rprop"
)

// ---------------------------------------------------------------- objectives as term lists

type zterm struct {
	coef float64
	pow  []int
	gate int     // -1: none; else the term carries the factor max(0, gsgn*(x[gate]-thr))^gpow
	gsgn float64 // +1 / -1
	thr  float64
	gpow int
}

type zobj struct {
	name  string
	n     int
	x0    []float64
	terms []zterm
	reg   [3]float64 // invalid region: reg[1]*x[reg[0]] >= reg[2]
}

func zt(c float64, pow ...int) zterm { return zterm{coef: c, pow: pow, gate: -1} }
func zg(c float64, gate int, gsgn, thr float64, gpow int, pow ...int) zterm {
	return zterm{coef: c, pow: pow, gate: gate, gsgn: gsgn, thr: thr, gpow: gpow}
}

var zobjs = []zobj{
	// (x-2)^2 - xy + 10y^2, start on the axis y = 0 where the y-partial -x + 20y is exactly 0 at x = 0
	{"zp-coupled", 2, []float64{0, 0}, []zterm{zt(1, 2, 0), zt(-4, 1, 0), zt(4, 0, 0), zt(-1, 1, 1), zt(10, 0, 2)}, [3]float64{1, 1, 1}},
	// the same with the coordinates exchanged: the zero partial is coordinate 0
	{"zp-coupled-swap", 2, []float64{0, 0}, []zterm{zt(1, 0, 2), zt(-4, 0, 1), zt(4, 0, 0), zt(-1, 1, 1), zt(10, 2, 0)}, [3]float64{0, 1, 1}},
	// (x-1)^2 + xy + y^2: y moves in the NEGATIVE direction once x has moved; invalid region y <= -1
	{"zp-cross", 2, []float64{0, 0}, []zterm{zt(1, 2, 0), zt(-2, 1, 0), zt(1, 0, 0), zt(1, 1, 1), zt(1, 0, 2)}, [3]float64{1, -1, 1}},
	// (x-4)^2 + relu(x-1) (y^2 - y): the y-partial is exactly zero for SEVERAL iterates (x <= 1), then negative
	{"zp-hinge", 2, []float64{-3, 0}, []zterm{zt(1, 2, 0), zt(-8, 1, 0), zt(16, 0, 0), zg(1, 0, 1, 1, 1, 0, 2), zg(-1, 0, 1, 1, 1, 0, 1)}, [3]float64{1, 1, 1}},
	// three variables: (x-2)^2 + (z+1)^2 - xy + 10y^2 + yz, the middle partial -x + 20y + z vanishes at the origin
	{"zp-3d", 3, []float64{0, 0, 0}, []zterm{zt(1, 2, 0, 0), zt(-4, 1, 0, 0), zt(1, 0, 0, 2), zt(2, 0, 0, 1), zt(-1, 1, 1, 0), zt(10, 0, 2, 0), zt(1, 0, 1, 1)}, [3]float64{1, 1, 1}},
	// (x-2)^2 + relu(3-y)^2: saturating in y — the y-partial is exactly zero for y >= 3, INSIDE the invalid region y >= 2
	{"zp-sat", 2, []float64{0, 0}, []zterm{zt(1, 2, 0), zt(-4, 1, 0), zt(4, 0, 0), zg(1, 1, -1, 3, 2, 0, 0)}, [3]float64{1, 1, 2}},
}

func zobjByName(name string) *zobj {
	for i := range zobjs {
		if zobjs[i].name == name {
			return &zobjs[i]
		}
	}
	return nil
}

func (o *zobj) invalid(x func(int) float64, reg []float64) bool {
	return reg[1]*x(int(reg[0])) >= reg[2]
}

// value through the library's own AD arithmetic (derivatives come from x's variables)
func (o *zobj) evalAD(x ad.ConstVector) ad.MagicScalar {
	r := ad.NewReal64(0.0)
	for _, t := range o.terms {
		v := ad.NewReal64(t.coef)
		if t.gate >= 0 {
			d := t.gsgn * (x.ConstAt(t.gate).GetFloat64() - t.thr)
			if !(d > 0) {
				continue
			}
			u := ad.NewReal64(0.0)
			u.Sub(x.ConstAt(t.gate), ad.ConstFloat64(t.thr))
			if t.gsgn < 0 {
				u.Neg(u)
			}
			for k := 0; k < t.gpow; k++ {
				v.Mul(v, u)
			}
		}
		for i, p := range t.pow {
			for k := 0; k < p; k++ {
				v.Mul(v, x.ConstAt(i))
			}
		}
		r.Add(r, v)
	}
	return r
}

// explicit gradient (dense entry point)
func (o *zobj) grad(x []float64, g []float64) {
	for i := range g {
		g[i] = 0
	}
	for _, t := range o.terms {
		G, dG := 1.0, 0.0 // gate factor and its derivative w.r.t. x[gate]
		if t.gate >= 0 {
			d := t.gsgn * (x[t.gate] - t.thr)
			if !(d > 0) {
				continue
			}
			G = math.Pow(d, float64(t.gpow))
			dG = float64(t.gpow) * math.Pow(d, float64(t.gpow-1)) * t.gsgn
		}
		mono := func(skip int) float64 { // product of x_i^p_i with the power of `skip` lowered by one (times p)
			v := 1.0
			for i, p := range t.pow {
				if i == skip {
					if p == 0 {
						return 0
					}
					v *= float64(p) * math.Pow(x[i], float64(p-1))
				} else {
					v *= math.Pow(x[i], float64(p))
				}
			}
			return v
		}
		for k := range g {
			g[k] += t.coef * G * mono(k)
			if t.gate == k {
				g[k] += t.coef * dG * mono(-1)
			}
		}
	}
}

// ---------------------------------------------------------------- zero-partial stream

func zpCases(add func(TCase)) {
	for _, o := range zobjs {
		for _, inv := range []string{"cons", "nan", "err"} {
			for _, r := range []string{"rprop", "rprop-dense"} {
				if inv == "err" && r == "rprop-dense" {
					continue // evalGradient's error ends the dense run at once (loud): one case is enough
				}
				for _, st := range []float64{10, 3, 64} {
					for _, eta := range [][2]float64{{1.2, 0.5}, {1.5, 0.9}} {
						add(TCase{Routine: r, Family: o.name + "/" + inv, N: o.n, Obj: o.name, Cap: 25, X0: o.x0,
							P: []float64{st, eta[0], eta[1], o.reg[0], o.reg[1], o.reg[2]}})
					}
				}
			}
		}
		add(TCase{Routine: "rprop-dense", Family: o.name + "/err", N: o.n, Obj: o.name, Cap: 25, X0: o.x0,
			P: []float64{10, 1.2, 0.5, o.reg[0], o.reg[1], o.reg[2]}})
	}
}

// ---------------------------------------------------------------- the pass log

type fuelStop struct{}

type innerRec struct { // one outer iteration whose inner loop rejected at least one trial point
	X1, G, Step0 []float64
	Trials       [][]float64 // every trial point of the iteration (the last one was accepted)
	Steps        [][]float64 // the step vector each trial was built with
	Grads        [][]float64 // dense: gradient_new after evalGradient at each trial
}

type rpLog struct {
	dense   bool
	probe   int
	eta1    float64
	x1      func(int) float64
	step    []float64 // live
	gnew    []float64 // live
	n       int
	passes  int // evaluations since the last hook call
	pTrial  []float64
	pStep   []float64
	pGrad   []float64
	state   string // first progress failure
	cur     *innerRec
	recs    []innerRec
	hooked  bool
	denorm  bool // a step has reached the subnormal fixpoint of x -> x*eta[1]
	maxPass int
}

func cp(v []float64) []float64 { w := make([]float64, len(v)); copy(w, v); return w }

func (l *rpLog) onHook(g, step []float64, x ad.ConstVector) {
	l.closeRec(true)
	l.gnew, l.step = g, step
	l.x1 = func(i int) float64 { return x.ConstAt(i).GetFloat64() }
	l.n = len(step)
	l.passes = 0
	l.pTrial, l.pStep, l.pGrad = nil, nil, nil
	l.hooked = true
	x1 := make([]float64, l.n)
	for i := range x1 {
		x1[i] = l.x1(i)
	}
	l.cur = &innerRec{X1: x1, G: cp(g)}
}

func (l *rpLog) closeRec(accepted bool) {
	if l.cur != nil && accepted && len(l.cur.Trials) >= 2 && len(l.recs) < 4 && len(l.cur.Trials) <= 80 {
		l.recs = append(l.recs, *l.cur)
	}
	l.cur = nil
}

// onEval: the objective is asked for the trial point x
func (l *rpLog) onEval(x func(int) float64) {
	if !l.hooked {
		return
	}
	tr := make([]float64, l.n)
	for i := range tr {
		tr[i] = x(i)
	}
	st := cp(l.step)
	if l.pTrial != nil && l.state == "" {
		// the previous trial point of this outer iteration was rejected: the progress predicate
		for i := 0; i < l.n; i++ {
			if l.pTrial[i] != l.x1(i) && !(st[i] < l.pStep[i]) {
				if st[i] == l.pStep[i] && l.pStep[i]*l.eta1 == l.pStep[i] && l.pStep[i] < 1e-300 && l.eta1 < 1 {
					// the step WAS multiplied by eta[1]: the product rounds back to the same subnormal number
					l.denorm = true
					continue
				}
				g0 := l.pGrad != nil && l.pGrad[i] == 0.0
				l.state = fmt.Sprintf("no-shrink coord=%d pass=%d step=%g trial=%v x1=%g trialgrad0=%v", i, l.passes, st[i], l.pTrial, l.x1(i), g0)
				if l.dense && g0 {
					l.state = "trial-gradient-zero " + l.state
				}
				break
			}
		}
	}
	l.passes++
	if l.passes > l.maxPass {
		l.maxPass = l.passes
	}
	l.pTrial, l.pStep, l.pGrad = tr, st, nil
	if l.cur != nil {
		if len(l.cur.Trials) == 0 {
			l.cur.Step0 = st
		}
		if len(l.cur.Trials) <= 80 {
			l.cur.Trials = append(l.cur.Trials, tr)
			l.cur.Steps = append(l.cur.Steps, st)
		}
	}
	if l.probe > 0 && l.passes > l.probe {
		panic(fuelStop{})
	}
}

func (l *rpLog) onGrad(g []float64) {
	l.pGrad = cp(g)
	if l.cur != nil && len(l.cur.Grads) < len(l.cur.Trials) {
		l.cur.Grads = append(l.cur.Grads, cp(g))
	}
}

func (l *rpLog) hangState() string {
	switch {
	case l.eta1 >= 1:
		return "hangstate:eta1-ge-1 " + l.state
	case strings.HasPrefix(l.state, "trial-gradient-zero"):
		return "hangstate:" + l.state
	case l.state != "":
		return "hangstate:" + l.state
	case l.pTrial == nil:
		return "hangstate:no-pass"
	}
	at := true
	for i := range l.pTrial {
		if l.pTrial[i] != l.x1(i) {
			at = false
		}
	}
	if at {
		return fmt.Sprintf("hangstate:trial-at-x1 passes=%d", l.passes)
	}
	if l.denorm {
		return fmt.Sprintf("hangstate:step-subnormal passes=%d step=%v", l.passes, l.pStep)
	}
	return fmt.Sprintf("hangstate:shrinking passes=%d step=%v", l.passes, l.pStep)
}

// ---------------------------------------------------------------- constraint loops of lineSearch / newton / bfgs

type consLog struct {
	probe    int
	lastAcc  []float64
	pp, p    []float64 // the last two rejected trial points
	rejected int       // length of the current run of rejections
	scalar   bool
}

func (l *consLog) on(x []float64, ok bool) {
	if ok {
		l.lastAcc = cp(x)
		l.rejected = 0
		l.pp, l.p = nil, nil
		return
	}
	l.rejected++
	l.pp, l.p = l.p, cp(x)
	if l.probe > 0 && l.rejected > l.probe {
		panic(fuelStop{})
	}
}

func eqv(a, b []float64) bool {
	if a == nil || b == nil || len(a) != len(b) {
		return false
	}
	for i := range a {
		if a[i] != b[i] {
			return false
		}
	}
	return true
}

func (l *consLog) hangState() string {
	if l.scalar {
		switch {
		case l.p != nil && l.p[0] == 0.0:
			return "hangstate:alpha-zero"
		case eqv(l.p, l.pp):
			return fmt.Sprintf("hangstate:alpha-stuck alpha=%v", l.p)
		}
		return fmt.Sprintf("hangstate:shrinking alpha=%v", l.p)
	}
	switch {
	case eqv(l.p, l.lastAcc):
		return "hangstate:trial-at-x1"
	case eqv(l.p, l.pp):
		return fmt.Sprintf("hangstate:trial-stuck trial=%v accepted=%v", l.p, l.lastAcc)
	}
	return fmt.Sprintf("hangstate:shrinking trial=%v", l.p)
}

// ---------------------------------------------------------------- running rprop (both entry points) under the log

func vecFn(x ad.ConstVector) func(int) float64 {
	return func(i int) float64 { return x.ConstAt(i).GetFloat64() }
}

// runRprop executes one rprop / rprop-dense case.  f0 is the plain objective of the old families
// (nil for the zero-partial stream, which takes the objective from c.Obj / c.P[3:6]).
func runRprop(c TCase, cnt *counter, lg *rpLog, constr func(ad.ConstVector) bool, hasC bool,
	f0 func(ad.ConstVector) (ad.MagicScalar, error), x0 ad.DenseFloat64Vector) (err error) {
	lg.dense = c.Routine == "rprop-dense"
	lg.probe = c.Probe
	lg.eta1 = c.P[2]
	zo := zobjByName(c.Obj)
	inv := ""
	var reg []float64
	if zo != nil {
		inv = c.Family[strings.LastIndex(c.Family, "/")+1:]
		reg = c.P[3:6]
	}
	hook := rprop.Hook{Value: func(g, step []float64, x ad.ConstVector, _ ad.ConstScalar) bool {
		cnt.iters++
		lg.onHook(g, step, x)
		return false
	}}
	args := []interface{}{hook, rprop.MaxIterations{Value: c.Cap}}
	eta := []float64{c.P[1], c.P[2]}
	if !lg.dense {
		f := func(x ad.ConstVector) (ad.MagicScalar, error) {
			lg.onEval(vecFn(x))
			if zo == nil {
				return f0(x)
			}
			cnt.evals++
			bad := zo.invalid(vecFn(x), reg)
			if bad && inv == "err" {
				return nil, errors.New("objective undefined here")
			}
			r := zo.evalAD(x)
			if bad && inv == "nan" {
				t := ad.NewReal64(0.0)
				t.Mul(x.ConstAt(int(reg[0])), ad.ConstFloat64(math.NaN()))
				r.Add(r, t)
			}
			return r, nil
		}
		if hasC {
			args = append(args, rprop.Constraints{Value: func(x ad.Vector) bool { return constr(x) }})
		} else if inv == "cons" {
			args = append(args, rprop.Constraints{Value: func(x ad.Vector) bool { return !zo.invalid(vecFn(x), reg) }})
		}
		_, err = rprop.Run(f, x0, c.P[0], eta, args...)
		return err
	}
	// dense entry point: explicit gradient
	gf := rprop.DenseGradientF(func(x, g ad.DenseFloat64Vector) error {
		lg.onEval(func(i int) float64 { return x[i] })
		cnt.evals++
		if zo == nil {
			// gradient of the old objective families through AD
			xr := ad.AsDenseReal64Vector(x)
			xr.Variables(1)
			s, e := f0(xr)
			if e != nil {
				return e
			}
			for i := range g {
				g[i] = s.GetDerivative(i)
			}
			lg.onGrad(g)
			return nil
		}
		bad := zo.invalid(func(i int) float64 { return x[i] }, reg)
		if bad && inv == "err" {
			return errors.New("objective undefined here")
		}
		zo.grad(x, g)
		if bad && inv == "nan" {
			g[int(reg[0])] = math.NaN()
		}
		lg.onGrad(g)
		return nil
	})
	if hasC {
		args = append(args, rprop.ConstConstraints{Value: func(x ad.ConstVector) bool { return constr(x) }})
	} else if inv == "cons" {
		args = append(args, rprop.ConstConstraints{Value: func(x ad.ConstVector) bool { return !zo.invalid(vecFn(x), reg) }})
	}
	_, err = rprop.RunGradient(gf, x0, c.P[0], eta, args...)
	return err
}

// ---------------------------------------------------------------- Coq cases for the inner-loop replay

func fl(v []float64) string {
	s := make([]string, len(v))
	for i, x := range v {
		s[i] = F(x)
	}
	return "[" + strings.Join(s, "; ") + "]"
}

func fll(v [][]float64) string {
	s := make([]string, len(v))
	for i, x := range v {
		s[i] = fl(x)
	}
	return "[" + strings.Join(s, "; ") + "]"
}

// RI dense eta1 x1 g step0 trials steps grads : the model must reproduce every trial point and every step vector
func (r innerRec) coq(dense bool, eta1 float64) string {
	d := "false"
	if dense {
		d = "true"
	}
	return fmt.Sprintf("RI %s %s %s %s %s %s %s %s", d, F(eta1), fl(r.X1), fl(r.G), fl(r.Step0), fll(r.Trials), fll(r.Steps), fll(r.Grads))
}
