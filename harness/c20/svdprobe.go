// C20 round 2: classification of the STATE in which a non-returning svd.Run spins, by deterministic
// fuel on the real code (no wall clock, no hook): svd.InSitu.Mu is a caller-supplied Scalar; the probe
// passes a wrapper whose GetFloat64 counts.  Mu is read only by wilkinsonShift / `y.Sub(y, mu)` at the
// START of golubKahanSVDstep, i.e. after the pass has thresholded, split and scanned the active block
// and before any rotation of the step is applied — so when the budget is exhausted (panic, recovered
// here) the working matrix InSitu.A is exactly the state at a pass boundary.  The active block [p, n-q)
// is recomputed from that state the way splitMatrix does, and the exactly-zero diagonal entries in it
// are located:
//
//	hangstate:last-zero      only the LAST diagonal entry of the active block is exactly zero
//	                         (F-SVD-ZERODIAG-HANG: the coded scan never looks there)
//	hangstate:nonlast-zero   an exact zero at another position of the active block at the start of a
//	                         Golub-Kahan step — impossible for the coded scan (Props.svd_zero_diagonal_not_skipped)
//	hangstate:no-zero        no exact zero on the diagonal of the active block (stagnating convergence)
//	hangstate:returned       svd.Run returned within the budget (slow, not hung)
//	hangstate:no-step        the budget was never consumed and the run did not return (probe deadline)
package main

import (
	"fmt"
	"math"

	ad "github.com/pbenner/autodiff"
	"github.com/pbenner/autodiff/algorithm/svd"
)

type fuelOut struct{}

type fuelScalar struct {
	ad.Scalar
	fuel *int
}

func (f fuelScalar) GetFloat64() float64 {
	*f.fuel--
	if *f.fuel < 0 {
		panic(fuelOut{})
	}
	return f.Scalar.GetFloat64()
}

func svdHangState(c TCase, budget int) (state string, detail string) {
	n := c.N
	v := make([]float64, len(c.Mat))
	copy(v, c.Mat)
	cc := c
	cc.Mat = v
	fixNonFinite(&cc)
	a := ad.NewDenseFloat64Matrix(v, n, n)
	fuel := budget
	work := a.CloneMatrix()
	is := &svd.InSitu{A: work, Mu: fuelScalar{ad.NullScalar(ad.Float64Type), &fuel}}
	exhausted := false
	func() {
		defer func() {
			if r := recover(); r != nil {
				if _, ok := r.(fuelOut); ok {
					exhausted = true
					return
				}
				panic(r)
			}
		}()
		svd.Run(a, is, svd.ComputeU{Value: true}, svd.ComputeV{Value: true})
	}()
	if !exhausted {
		return "hangstate:returned", ""
	}
	B := work
	at := func(i, j int) float64 { return B.ConstAt(i, j).GetFloat64() }
	// the pass that was interrupted had thresholded the super-diagonal already; recompute (p, q) as splitMatrix
	q := 0
	for q < n-1 {
		k := n - q - 1
		if at(k-1, k) == 0.0 {
			q++
		} else {
			break
		}
	}
	if q == n-1 {
		q = n
	}
	p := n - q - 1
	for p > 0 {
		if at(p-1, p) == 0.0 {
			break
		}
		p--
	}
	if q >= n-1 {
		return "hangstate:no-active-block", fmt.Sprintf("p=%d q=%d", p, q)
	}
	nonlast := []int{}
	for k := p; k < n-q-1; k++ {
		if at(k, k) == 0.0 {
			nonlast = append(nonlast, k)
		}
	}
	last := at(n-q-1, n-q-1) == 0.0
	d := make([]float64, 0, 2*n)
	for k := p; k < n-q; k++ {
		d = append(d, at(k, k))
		if k+1 < n-q {
			d = append(d, at(k, k+1))
		}
	}
	for i := range d {
		if math.IsNaN(d[i]) {
			d[i] = -999 // JSON cannot carry NaN
		}
	}
	detail = fmt.Sprintf("p=%d q=%d block(diag,super,...)=%v zero-at=%v last-zero=%v", p, q, d, nonlast, last)
	switch {
	case len(nonlast) > 0:
		return "hangstate:nonlast-zero", detail
	case last:
		return "hangstate:last-zero", detail
	}
	return "hangstate:no-zero", detail
}
