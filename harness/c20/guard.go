// C20 guard half: an INVALID-USE stream against the public vector / matrix /
// scalar operations and algorithm entry points of /repo.  Every call is executed
// on the real code (all container kinds, several element types); the observable
// is (outcome kind, receiver changed?, result shape).  The same call is printed
// as a Coq term and replayed by coq/C20/Model.v.
package main

import (
	"fmt"
	"runtime"
	"strings"

	. "adharness/common"

	ad "github.com/pbenner/autodiff"
)

// ---------------------------------------------------------------- descriptors

type V struct {
	K   string `json:"k"` // dense | sparse
	N   int    `json:"n"`
	Cap int    `json:"cap"` // dense only: capacity of the backing slice (>= n)
}
type MOp struct {
	Op         string `json:"op"` // slice | T
	A, B, C, D int
}
type M struct {
	K   string `json:"k"`
	L   int    `json:"l"` // length of the backing storage handed to the constructor
	R   int    `json:"r"`
	C   int    `json:"c"`
	Ops []MOp  `json:"ops"`
}
type Call struct {
	Op    string `json:"op"`
	O     int    `json:"o"` // sub-operation (add/sub/mul/div, At/ConstAt, ...)
	R     *V     `json:"R,omitempty"`
	A     *V     `json:"A,omitempty"`
	B     *V     `json:"B,omitempty"`
	MR    *M     `json:"MR,omitempty"`
	MA    *M     `json:"MA,omitempty"`
	MB    *M     `json:"MB,omitempty"`
	I     []int  `json:"I,omitempty"`
	Pi    []int  `json:"Pi,omitempty"`
	Pj    []int  `json:"Pj,omitempty"`
	Alias bool   `json:"alias,omitempty"`
}
type Obs struct {
	Kind    int   `json:"kind"` // 0 ok, 1 explicit panic, 2 Go runtime-error panic, 3 error value
	Changed bool  `json:"changed"`
	Out     []int `json:"out"`
}
type Case struct {
	Call  Call     `json:"call"`
	Obs   Obs      `json:"obs"`
	Types []string `json:"types"`
}

var elemTypes = map[string]ad.ScalarType{}

// ---------------------------------------------------------------- builders

func buildVec(tn string, v *V, base float64) ad.Vector {
	t := elemTypes[tn]
	if v.K == "sparse" {
		r := ad.NullSparseVector(t, v.N)
		for i := 0; i < v.N; i++ {
			r.At(i).SetFloat64(base + float64(i))
		}
		return r
	}
	if v.Cap > v.N {
		return denseVecOf(tn, v.Cap, v.N, base)
	}
	r := ad.NullDenseVector(t, v.N)
	for i := 0; i < v.N; i++ {
		r.At(i).SetFloat64(base + float64(i))
	}
	return r
}

// buildMat returns (view, base)
func buildMat(tn string, m *M, base float64) (ad.Matrix, ad.Matrix) {
	t := elemTypes[tn]
	var b ad.Matrix
	if m.K == "sparse" {
		b = ad.NullSparseMatrix(t, m.R, m.C)
		for i := 0; i < m.R; i++ {
			for j := 0; j < m.C; j++ {
				b.At(i, j).SetFloat64(base + float64(i*m.C+j))
			}
		}
	} else {
		b = denseMatOf(tn, m.L, m.R, m.C, base)
	}
	v := b
	for _, o := range m.Ops {
		if o.Op == "T" {
			v = v.T()
		} else {
			v = v.Slice(o.A, o.B, o.C, o.D)
		}
	}
	return v, b
}

func snap(xs ...interface{}) (s string) {
	defer func() {
		if r := recover(); r != nil {
			s = "PANIC-IN-SNAPSHOT"
		}
	}()
	var sb strings.Builder
	for _, x := range xs {
		switch y := x.(type) {
		case ad.Matrix:
			if y == nil {
				continue
			}
			r, c := y.Dims()
			fmt.Fprintf(&sb, "<%dx%d>%v|", r, c, y.AsVector())
		case ad.Vector:
			if y == nil {
				continue
			}
			fmt.Fprintf(&sb, "<%d>%v|", y.Dim(), y)
		case *ad.Real64:
			fmt.Fprintf(&sb, "N%d O%d V%v D%v H%v|", y.N, y.Order, y.Value, y.Derivative, y.Hessian)
		}
	}
	return sb.String()
}

// protect runs f and classifies the outcome.
func protect(f func() error) (kind int) {
	defer func() {
		if r := recover(); r != nil {
			if _, ok := r.(runtime.Error); ok {
				kind = 2
			} else {
				kind = 1
			}
		}
	}()
	if err := f(); err != nil {
		return 3
	}
	return 0
}

// ---------------------------------------------------------------- execution

func mkReal(n, o int, v float64) *ad.Real64 {
	x := ad.NewReal64(v)
	x.Alloc(n, o)
	if o >= 1 {
		for i := 0; i < n; i++ {
			x.Derivative[i] = 5 + float64(i)
		}
	}
	if o >= 2 {
		for i := 0; i < n; i++ {
			for j := 0; j < n; j++ {
				x.Hessian[i][j] = 7 + float64(i*n+j)
			}
		}
	}
	return x
}

func execCall(c *Call, tn string) Obs {
	var o Obs
	o.Out = []int{}
	var before, after func() string
	var run func() error
	t := elemTypes[tn]
	switch c.Op {
	case "VewV":
		r, a, b := buildVec(tn, c.R, 100), buildVec(tn, c.A, 1), buildVec(tn, c.B, 2)
		before = func() string { return snap(r) }
		run = func() error {
			switch c.O {
			case 0:
				r.VaddV(a, b)
			case 1:
				r.VsubV(a, b)
			case 2:
				r.VmulV(a, b)
			default:
				r.VdivV(a, b)
			}
			return nil
		}
	case "VewS":
		r, a := buildVec(tn, c.R, 100), buildVec(tn, c.A, 1)
		s := ad.NewScalar(t, 3.0)
		before = func() string { return snap(r) }
		run = func() error {
			switch c.O {
			case 0:
				r.VaddS(a, s)
			case 1:
				r.VsubS(a, s)
			case 2:
				r.VmulS(a, s)
			default:
				r.VdivS(a, s)
			}
			return nil
		}
	case "VMdotV":
		r, b := buildVec(tn, c.R, 100), buildVec(tn, c.B, 2)
		a, _ := buildMat(tn, c.MA, 1)
		if c.Alias {
			b = r
		}
		before = func() string { return snap(r) }
		run = func() error { r.MdotV(a, b); return nil }
	case "VVdotM":
		r, a := buildVec(tn, c.R, 100), buildVec(tn, c.A, 2)
		b, _ := buildMat(tn, c.MB, 1)
		if c.Alias {
			a = r
		}
		before = func() string { return snap(r) }
		run = func() error { r.VdotM(a, b); return nil }
	case "VSet":
		r, a := buildVec(tn, c.R, 100), buildVec(tn, c.A, 1)
		before = func() string { return snap(r) }
		run = func() error { r.Set(a); return nil }
	case "VAt":
		r := buildVec(tn, c.R, 100)
		before = func() string { return snap(r) }
		run = func() error {
			switch c.O {
			case 0:
				r.At(c.I[0])
			case 1:
				r.ConstAt(c.I[0])
			default:
				r.Float64At(c.I[0])
			}
			return nil
		}
	case "VSlice":
		r := buildVec(tn, c.R, 100)
		before = func() string { return snap(r) }
		run = func() error {
			var d int
			if c.O == 0 {
				d = r.Slice(c.I[0], c.I[1]).Dim()
			} else {
				d = r.ConstSlice(c.I[0], c.I[1]).Dim()
			}
			o.Out = []int{d}
			return nil
		}
	case "VSwap":
		r := buildVec(tn, c.R, 100)
		before = func() string { return snap(r) }
		run = func() error { r.Swap(c.I[0], c.I[1]); return nil }
	case "VPermute":
		r := buildVec(tn, c.R, 100)
		before = func() string { return snap(r) }
		run = func() error { return r.Permute(c.Pi) }
	case "VAsMatrix":
		r := buildVec(tn, c.R, 100)
		before = func() string { return snap(r) }
		run = func() error {
			m := r.AsMatrix(c.I[0], c.I[1])
			a, b := m.Dims()
			o.Out = []int{a, b}
			return nil
		}
	case "VNewSparse":
		before = func() string { return "" }
		run = func() error {
			v := sparseVecOf(tn, c.Pi, c.I[0], c.I[1])
			o.Out = []int{v.Dim()}
			return nil
		}
	case "MewM":
		r, rb := buildMat(tn, c.MR, 100)
		a, _ := buildMat(tn, c.MA, 1)
		b, _ := buildMat(tn, c.MB, 2)
		before = func() string { return snap(rb) }
		run = func() error {
			switch c.O {
			case 0:
				r.MaddM(a, b)
			case 1:
				r.MsubM(a, b)
			case 2:
				r.MmulM(a, b)
			default:
				r.MdivM(a, b)
			}
			return nil
		}
	case "MewS":
		r, rb := buildMat(tn, c.MR, 100)
		a, _ := buildMat(tn, c.MA, 1)
		s := ad.NewScalar(t, 3.0)
		before = func() string { return snap(rb) }
		run = func() error {
			switch c.O {
			case 0:
				r.MaddS(a, s)
			case 1:
				r.MsubS(a, s)
			case 2:
				r.MmulS(a, s)
			default:
				r.MdivS(a, s)
			}
			return nil
		}
	case "MdotM":
		r, rb := buildMat(tn, c.MR, 100)
		a, _ := buildMat(tn, c.MA, 3)
		b, _ := buildMat(tn, c.MB, 2)
		if c.Alias {
			b = r
		}
		before = func() string { return snap(rb) }
		run = func() error { r.MdotM(a, b); return nil }
	case "MOuter":
		r, rb := buildMat(tn, c.MR, 100)
		a, b := buildVec(tn, c.A, 1), buildVec(tn, c.B, 2)
		before = func() string { return snap(rb) }
		run = func() error { r.Outer(a, b); return nil }
	case "MSet":
		r, rb := buildMat(tn, c.MR, 100)
		a, _ := buildMat(tn, c.MA, 1)
		before = func() string { return snap(rb) }
		run = func() error { r.Set(a); return nil }
	case "MAt":
		r, rb := buildMat(tn, c.MR, 100)
		before = func() string { return snap(rb) }
		run = func() error {
			switch c.O {
			case 0:
				r.At(c.I[0], c.I[1])
			case 1:
				r.ConstAt(c.I[0], c.I[1])
			default:
				r.Float64At(c.I[0], c.I[1])
			}
			return nil
		}
	case "MSlice":
		r, rb := buildMat(tn, c.MR, 100)
		before = func() string { return snap(rb) }
		run = func() error {
			var a, b int
			if c.O == 0 {
				a, b = r.Slice(c.I[0], c.I[1], c.I[2], c.I[3]).Dims()
			} else {
				a, b = r.ConstSlice(c.I[0], c.I[1], c.I[2], c.I[3]).Dims()
			}
			o.Out = []int{a, b}
			return nil
		}
	case "MRow", "MCol", "MDiag":
		r, rb := buildMat(tn, c.MR, 100)
		before = func() string { return snap(rb) }
		run = func() error {
			var v ad.Vector
			switch c.Op {
			case "MRow":
				v = r.Row(c.I[0])
			case "MCol":
				v = r.Col(c.I[0])
			default:
				v = r.Diag()
			}
			o.Out = []int{v.Dim()}
			return nil
		}
	case "MSwap":
		r, rb := buildMat(tn, c.MR, 100)
		before = func() string { return snap(rb) }
		run = func() error { r.Swap(c.I[0], c.I[1], c.I[2], c.I[3]); return nil }
	case "MSwapRows":
		r, rb := buildMat(tn, c.MR, 100)
		before = func() string { return snap(rb) }
		run = func() error { return r.SwapRows(c.I[0], c.I[1]) }
	case "MSwapCols":
		r, rb := buildMat(tn, c.MR, 100)
		before = func() string { return snap(rb) }
		run = func() error { return r.SwapColumns(c.I[0], c.I[1]) }
	case "MPermRows":
		r, rb := buildMat(tn, c.MR, 100)
		before = func() string { return snap(rb) }
		run = func() error { return r.PermuteRows(c.Pi) }
	case "MPermCols":
		r, rb := buildMat(tn, c.MR, 100)
		before = func() string { return snap(rb) }
		run = func() error { return r.PermuteColumns(c.Pi) }
	case "MSymPerm":
		r, rb := buildMat(tn, c.MR, 100)
		before = func() string { return snap(rb) }
		run = func() error { return r.SymmetricPermutation(c.Pi) }
	case "MNewDense":
		before = func() string { return "" }
		run = func() error {
			m, _ := buildMat(tn, &M{K: "dense", L: c.I[0], R: c.I[1], C: c.I[2]}, 1)
			a, b := m.Dims()
			o.Out = []int{a, b}
			return nil
		}
	case "MNewSparse":
		before = func() string { return "" }
		run = func() error {
			m := sparseMatOf(tn, c.Pi, c.Pj, c.I[0], c.I[1], c.I[2])
			a, b := m.Dims()
			o.Out = []int{a, b}
			return nil
		}
	case "SSetVar":
		x := mkReal(c.I[0], c.I[1], 3)
		before = func() string { return snap(x) }
		run = func() error { return x.SetVariable(c.I[2], c.I[3], c.I[4]) }
	case "AEntry":
		before = func() string { return "" }
		run = func() error { return runEntry(c, tn) }
	default:
		Die("unknown op %s", c.Op)
	}
	after = before
	var s0 string
	k0 := protect(func() error { s0 = before(); return nil })
	if k0 != 0 {
		// building the operands already failed: report as a construction failure
		o.Kind = 9
		return o
	}
	o.Kind = protect(run)
	if o.Kind != 0 {
		o.Out = []int{}
	}
	o.Changed = after() != s0
	return o
}

// ---------------------------------------------------------------- Coq printing

func coqV(v *V) string {
	if v.K == "dense" && isRealType(curType) && realVecMatters {
		return fmt.Sprintf("(mkvec DenseR %s %s)", ZI(v.N), ZI(v.Cap))
	}
	if v.K == "sparse" {
		return fmt.Sprintf("(mkvec Sparse %s %s)", ZI(v.N), ZI(v.N))
	}
	return fmt.Sprintf("(mkvec Dense %s %s)", ZI(v.N), ZI(v.Cap))
}
// curType: element type the call is being printed for (dense Real matrices carry tmp vectors: kind DenseR)
var curType = "f64"
var realVecMatters = false // the vector kind DenseR is printed only where it matters (AsMatrix)
var realMatMatters = false // likewise for matrices (Slice, views, constructors)

func coqM(m *M) string {
	k := "Dense"
	if m.K == "sparse" {
		k = "Sparse"
	} else if isRealType(curType) && (realMatMatters || len(m.Ops) > 0) {
		k = "DenseR"
	}
	s := fmt.Sprintf("(mnew %s %s %s %s)", k, ZI(m.L), ZI(m.R), ZI(m.C))
	for _, o := range m.Ops {
		if o.Op == "T" {
			s = "(mT " + s + ")"
		} else {
			s = fmt.Sprintf("(mslice %s %s %s %s %s)", s, ZI(o.A), ZI(o.B), ZI(o.C), ZI(o.D))
		}
	}
	return s
}
func zs(xs []int) string { return ZListI(xs) }

func coqCall(c *Call) string {
	I := func(k int) string { return ZI(c.I[k]) }
	realVecMatters = c.Op == "VAsMatrix"
	realMatMatters = c.Op == "MSlice"
	switch c.Op {
	case "VewV":
		return fmt.Sprintf("VewV %d %s %s %s", c.O, coqV(c.R), coqV(c.A), coqV(c.B))
	case "VewS":
		return fmt.Sprintf("VewS %d %s %s", c.O, coqV(c.R), coqV(c.A))
	case "VMdotV":
		return fmt.Sprintf("VMdotV %s %s %s %s", coqV(c.R), coqM(c.MA), coqV(c.B), B(c.Alias))
	case "VVdotM":
		return fmt.Sprintf("VVdotM %s %s %s %s", coqV(c.R), coqV(c.A), coqM(c.MB), B(c.Alias))
	case "VSet":
		return fmt.Sprintf("VSet %s %s", coqV(c.R), coqV(c.A))
	case "VAt":
		return fmt.Sprintf("VAt %s %s", coqV(c.R), I(0))
	case "VSlice":
		return fmt.Sprintf("VSlice %s %s %s", coqV(c.R), I(0), I(1))
	case "VSwap":
		return fmt.Sprintf("VSwap %s %s %s", coqV(c.R), I(0), I(1))
	case "VPermute":
		return fmt.Sprintf("VPermute %s %s", coqV(c.R), zs(c.Pi))
	case "VAsMatrix":
		return fmt.Sprintf("VAsMatrix %s %s %s", coqV(c.R), I(0), I(1))
	case "VNewSparse":
		return fmt.Sprintf("VNewSparse %s %s %s", zs(c.Pi), I(0), I(1))
	case "MewM":
		return fmt.Sprintf("MewM %d %s %s %s", c.O, coqM(c.MR), coqM(c.MA), coqM(c.MB))
	case "MewS":
		return fmt.Sprintf("MewS %d %s %s", c.O, coqM(c.MR), coqM(c.MA))
	case "MdotM":
		return fmt.Sprintf("MdotM %s %s %s %s", coqM(c.MR), coqM(c.MA), coqM(c.MB), B(c.Alias))
	case "MOuter":
		return fmt.Sprintf("MOuter %s %s %s", coqM(c.MR), coqV(c.A), coqV(c.B))
	case "MSet":
		return fmt.Sprintf("MSet %s %s", coqM(c.MR), coqM(c.MA))
	case "MAt":
		return fmt.Sprintf("MAt %s %s %s", coqM(c.MR), I(0), I(1))
	case "MSlice":
		return fmt.Sprintf("MSlice %s %s %s %s %s", coqM(c.MR), I(0), I(1), I(2), I(3))
	case "MRow", "MCol":
		return fmt.Sprintf("%s %s %s", c.Op, coqM(c.MR), I(0))
	case "MDiag":
		return fmt.Sprintf("MDiag %s", coqM(c.MR))
	case "MSwap":
		return fmt.Sprintf("MSwap %s %s %s %s %s", coqM(c.MR), I(0), I(1), I(2), I(3))
	case "MSwapRows", "MSwapCols":
		return fmt.Sprintf("%s %s %s %s", c.Op, coqM(c.MR), I(0), I(1))
	case "MPermRows", "MPermCols", "MSymPerm":
		return fmt.Sprintf("%s %s %s", c.Op, coqM(c.MR), zs(c.Pi))
	case "MNewDense":
		k := "Dense"
		if isRealType(curType) {
			k = "DenseR"
		}
		return fmt.Sprintf("MNewDense %s %s %s %s", k, I(0), I(1), I(2))
	case "MNewSparse":
		return fmt.Sprintf("MNewSparse %s %s %s %s %s", zs(c.Pi), zs(c.Pj), I(0), I(1), I(2))
	case "SSetVar":
		return fmt.Sprintf("SSetVar %s %s %s %s %s", I(0), I(1), I(2), I(3), I(4))
	case "SDyadic":
		return fmt.Sprintf("SDyadic %d %s %s %s %s %s %s", c.O, I(0), I(1), I(2), I(3), I(4), I(5))
	case "AEntry":
		return fmt.Sprintf("AEntry %d %s %s %s", c.O, I(0), I(1), I(2))
	}
	Die("coqCall: unknown op %s", c.Op)
	return ""
}
func coqCase(c *Case) string {
	return fmt.Sprintf("(%s, (%d, %s, %s))", coqCall(&c.Call), c.Obs.Kind, B(c.Obs.Changed), zs(c.Obs.Out))
}
