package main

import . "adharness/common"

func runQRTrace(opts Opts) { _ = opts; Die("qrstep: not built yet") }
