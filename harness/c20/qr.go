// C20: bit-exact traces of the public qrAlgorithm.QRstep on 2x2 blocks and whole runs of
// qrAlgorithm.Run on 2x2 matrices (returned matrix / hang), replayed by the binary64
// instance of the exact model (coq/C20/Model.v qrstep2, qr_run2).
package main

import (
	"fmt"
	"math"
	"time"

	. "adharness/common"

	ad "github.com/pbenner/autodiff"
	"github.com/pbenner/autodiff/algorithm/qrAlgorithm"
)

type QCase struct {
	Kind  string      `json:"kind"` // step | run
	H     [4]float64  `json:"h"`
	Eps   float64     `json:"eps"`
	Trace [][4]float64 `json:"trace,omitempty"`
	Hung  bool        `json:"hung"`
	Final [4]float64  `json:"final"`
}

func blk(h [4]float64) string {
	return fmt.Sprintf("(mkblk %s %s %s %s)", F(h[0]), F(h[1]), F(h[2]), F(h[3]))
}
func read4(m ad.Matrix) [4]float64 {
	return [4]float64{m.Float64At(0, 0), m.Float64At(0, 1), m.Float64At(1, 0), m.Float64At(1, 1)}
}

func runQRTrace(opts Opts) {
	rng := NewRng(opts.Seed ^ 0x9A)
	w := NewCaseWriter(opts.Out, "qr",
		"From Coq Require Import ZArith List Bool Floats.\nFrom ADV Require Import C20.Model C20.Corr.\nImport ListNotations.\nOpen Scope float_scope.\n",
		"ADV.C20.Corr.qmism", 60)
	w.Type = "ADV.C20.Corr.qcase"
	w.Rule = "a QR case is non-trivial iff the block is not already deflated (h21 != 0)"
	var hs [][4]float64
	hs = append(hs, [4]float64{0, 1, 1, 0}, [4]float64{0, -1, -1, 0}, [4]float64{1, 1, 1, 1}, [4]float64{2, 1, 1, 2},
		[4]float64{1, 2, 3, 4}, [4]float64{0, -1, 1, 0}, [4]float64{1, 0, 0, 1}, [4]float64{0, 0, 0, 0},
		[4]float64{4, 1, 2, 3}, [4]float64{1, 1, 0, 1}, [4]float64{1e-20, 1, 1, 1e-20}, [4]float64{3, -2, 4, -1},
		[4]float64{5, 4, 1, 2}, [4]float64{1, 1e8, 1e-8, 1})
	n := 40
	if opts.Tier == "thorough" {
		n = 400
	}
	for i := 0; i < n; i++ {
		var h [4]float64
		for k := range h {
			switch rng.Intn(4) {
			case 0:
				h[k] = float64(rng.Range(-3, 3))
			default:
				h[k] = (rng.Float() - 0.5) * math.Pow(10, float64(rng.Range(-3, 3)))
			}
		}
		hs = append(hs, h)
	}
	t := ad.Float64Type
	for _, h0 := range hs {
		// (a) k successive public QRstep calls on the 2x2 block
		h := ad.NewDenseFloat64Matrix([]float64{h0[0], h0[1], h0[2], h0[3]}, 2, 2)
		is := &qrAlgorithm.InSitu{T1: ad.NullScalar(t), T2: ad.NullScalar(t), T3: ad.NullScalar(t), S: ad.NullScalar(t), T: ad.NullScalar(t)}
		c := QCase{Kind: "step", H: h0}
		var tr []string
		for k := 0; k < 5; k++ {
			qrAlgorithm.QRstep(h, nil, 0, 0, is)
			r := read4(h)
			c.Trace = append(c.Trace, r)
			tr = append(tr, blk(r))
		}
		w.Add(fmt.Sprintf("QStep %s %s", blk(h0), List(tr)), jsonSafe(c), fmt.Sprint(h0), h0[2] != 0)
		w.Count("step")
		// (b) the whole run (Hessenberg reduction is the identity for n = 2)
		for _, eps := range []float64{1e-18, 1e-12} {
			a := ad.NewDenseFloat64Matrix([]float64{h0[0], h0[1], h0[2], h0[3]}, 2, 2)
			done := make(chan [4]float64, 1)
			go func() {
				defer func() { recover() }()
				r, _, err := qrAlgorithm.Run(a, qrAlgorithm.Epsilon{Value: eps})
				if err == nil {
					done <- read4(r)
				}
			}()
			rc := QCase{Kind: "run", H: h0, Eps: eps}
			select {
			case f := <-done:
				rc.Final = f
			case <-time.After(700 * time.Millisecond):
				rc.Hung = true // the goroutine keeps spinning until this process exits
			}
			w.Add(fmt.Sprintf("QRun %s %s %s %s", blk(h0), F(eps), B(rc.Hung), blk(rc.Final)), jsonSafe(rc), fmt.Sprint(h0, eps), h0[2] != 0)
			if rc.Hung {
				w.Count("run:hung")
			} else {
				w.Count("run:returned")
			}
		}
	}
	if err := w.Flush(); err != nil {
		Die("flush: %v", err)
	}
}

// JSON cannot carry NaN/Inf: print the floats as strings
func jsonSafe(c QCase) map[string]interface{} {
	f4 := func(x [4]float64) []string { return []string{F(x[0]), F(x[1]), F(x[2]), F(x[3])} }
	tr := [][]string{}
	for _, t := range c.Trace {
		tr = append(tr, f4(t))
	}
	return map[string]interface{}{"kind": c.Kind, "h": f4(c.H), "eps": F(c.Eps), "trace": tr, "hung": c.Hung, "final": f4(c.Final)}
}
