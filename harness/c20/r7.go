// C20 round 7.
//  (1) stall stream (termination cases "newton-*-stall"): UNCONSTRAINED newton runs with the DEFAULT MaxIterations
//      (MaxInt) on objectives whose Newton step rounds away while the residual stays above epsilon
//      (x^2 - a with a ~ 1e10 .. 1e13 from x0 = 1).  A counting hook (objective evaluations) ends a run that spins:
//      outcome "deadline" without waiting for the wall clock.  The iterates (hook) and the step vector (InSitu.T1)
//      are logged and replayed bit-exactly against ModelNewton.nstep_loop (CorrNewton.NS).  RunMin ("newton-min-stall",
//      line-search branch) has the stagnation test too since the repair of F-C20-NEWTON-MIN-LS-STALL: its fixed-point
//      spin ("hangstate:newton-fixed-point") is no longer a listed finding.
//  (2) gj stream (--extra gj): gaussJordan.Run on both paths (DenseFloat64 fast path / generic Real64 path), both
//      triangular flags, a square n x n, x with xr rows, b with bl entries for every (xr, bl) around n -> CorrNewton.GJ,
//      plus a property-level oracle independent of the model (invalid shape accepted / receiver changed on rejection).
package main

import (
	"encoding/json"
	"fmt"
	"math"
	"os"
	"path/filepath"
	"strings"

	. "adharness/common"

	ad "github.com/pbenner/autodiff"
	"github.com/pbenner/autodiff/algorithm/gaussJordan"
	"github.com/pbenner/autodiff/algorithm/newton"
)

type stallStop struct {
	evals int
	state string
}

const stallBudget = 40000

func isStallRoutine(r string) bool { return strings.HasSuffix(r, "-stall") }

// stallCases: a values chosen so that ulp(a) is far above the default epsilon 1e-8
func stallCases(add func(TCase)) {
	as := []float64{2e10, 3e10, 5e10, 7e10, 1.3e11, 2e12, 7.7e12, 1e13, 12345678901, 98765432109}
	for _, r := range []string{"newton-root-stall", "newton-min-stall", "newton-crit-stall", "newton-minplain-stall"} {
		for _, a := range as {
			add(TCase{Routine: r, Family: "sqrt-stall", N: 1, Obj: "sqrt", Cap: -1, P: []float64{a}, X0: []float64{1}})
		}
		add(TCase{Routine: r, Family: "sqrt-stall", N: 2, Obj: "sqrt", Cap: -1, P: []float64{2e10}, X0: []float64{1, 1}})
		add(TCase{Routine: r, Family: "sqrt-stall", N: 2, Obj: "sqrt", Cap: -1, P: []float64{5e10}, X0: []float64{1, 3}})
	}
}

func r7vec(x ad.ConstVector) []float64 {
	v := make([]float64, x.Dim())
	for i := range v {
		v[i] = x.ConstAt(i).GetFloat64()
	}
	return v
}

// runStall: returns the error of the run and the Coq text of the logged trajectory ("" if too long / not loggable)
func runStall(c TCase, cnt *counter) (error, string) {
	n := c.N
	a := func(i int) float64 { return c.P[0] * float64(i+1) }
	x0 := ad.NullDenseFloat64Vector(n)
	for i := range x0 {
		x0[i] = c.X0[i]
	}
	var last [][]float64
	tick := func() {
		cnt.evals++
		if cnt.evals > stallBudget {
			// the state the run spins in: the last iterates the hook saw
			st := "hangstate:newton-other"
			eq := func(a, b []float64) bool { return r7SameVals(a, b) }
			if l := len(last); l >= 4 {
				switch {
				case eq(last[l-1], last[l-2]) && eq(last[l-2], last[l-3]):
					st = "hangstate:newton-fixed-point"
				case eq(last[l-1], last[l-3]) && eq(last[l-2], last[l-4]):
					st = "hangstate:newton-period-2"
				}
			}
			panic(stallStop{cnt.evals, st})
		}
	}
	inSitu := &newton.InSitu{}
	var xs, ts [][]float64
	onHook := func(x ad.ConstVector) {
		cnt.iters++
		last = append(last, r7vec(x))
		if len(last) > 4 {
			last = last[1:]
		}
		if len(xs) > 0 && inSitu.T1 != nil && len(xs) <= 400 {
			ts = append(ts, r7vec(inSitu.T1))
		}
		if len(xs) <= 400 {
			xs = append(xs, r7vec(x))
		}
	}
	var err error
	switch c.Routine {
	case "newton-root-stall":
		g := func(x ad.ConstVector) (ad.MagicVector, error) {
			tick()
			r := ad.NullDenseReal64Vector(n)
			for i := 0; i < n; i++ {
				r.At(i).Mul(x.ConstAt(i), x.ConstAt(i))
				r.At(i).Sub(r.At(i), ad.ConstFloat64(a(i)))
			}
			return r, nil
		}
		h := newton.HookRoot{Value: func(x ad.ConstVector, _ ad.ConstMatrix, _ ad.ConstVector) bool { onHook(x); return false }}
		_, err = newton.RunRoot(g, x0, h, inSitu)
	default:
		f := func(x ad.ConstVector) (ad.MagicScalar, error) {
			tick()
			r := ad.NewReal64(0.0)
			t := ad.NewReal64(0.0)
			for i := 0; i < n; i++ {
				// x^3/3 - a x: gradient x^2 - a, Hessian 2x
				t.Mul(x.ConstAt(i), x.ConstAt(i))
				t.Mul(t, x.ConstAt(i))
				t.Div(t, ad.ConstFloat64(3))
				r.Add(r, t)
				t.Mul(x.ConstAt(i), ad.ConstFloat64(a(i)))
				r.Sub(r, t)
			}
			return r, nil
		}
		if c.Routine == "newton-minplain-stall" {
			h := newton.HookMin{Value: func(x ad.ConstVector, _ ad.ConstVector, _ ad.ConstMatrix, _ ad.ConstScalar) bool { onHook(x); return false }}
			_, err = newton.VerifC20RunMinPlain(f, x0, h, inSitu)
		} else if c.Routine == "newton-min-stall" {
			h := newton.HookMin{Value: func(x ad.ConstVector, _ ad.ConstVector, _ ad.ConstMatrix, _ ad.ConstScalar) bool { onHook(x); return false }}
			_, err = newton.RunMin(f, x0, h, inSitu)
		} else {
			h := newton.HookCrit{Value: func(x ad.ConstVector, _ ad.ConstMatrix, _ ad.ConstVector) bool { onHook(x); return false }}
			_, err = newton.RunCrit(f, x0, h, inSitu)
		}
	}
	failed := err != nil && strings.Contains(err.Error(), "line search failed")
	if err != nil && !failed {
		return err, ""
	}
	if len(xs) == 0 || len(xs) > 400 {
		return err, ""
	}
	if failed && inSitu.T1 != nil {
		ts = append(ts, r7vec(inSitu.T1))
	}
	ll := func(v [][]float64) string {
		s := make([]string, len(v))
		for i := range v {
			s[i] = FList(v[i])
		}
		return List(s)
	}
	return err, fmt.Sprintf("NS %s %s %s %s", F(0.9), ll(xs), ll(ts), B(failed))
}

// ---------------------------------------------------------------- gaussJordan guards

type GJCall struct {
	Fast bool `json:"fast"`
	Tri  bool `json:"tri"`
	N    int  `json:"n"`
	XR   int  `json:"xr"`
	BL   int  `json:"bl"`
}
type GJObs struct {
	Kind    int    `json:"kind"` // 0 returned nil, 1 error, 2 panic (explicit), 3 Go runtime error
	Changed bool   `json:"changed"`
	Msg     string `json:"msg,omitempty"`
}

func gjMatrix(n, m int, fast bool, diag bool) (ad.Matrix, []float64) {
	v := make([]float64, n*m)
	for i := 0; i < n; i++ {
		for j := 0; j < m; j++ {
			if diag {
				if i == j {
					v[i*m+j] = 1
				}
			} else if i == j {
				v[i*m+j] = float64(2*n + 3 + i)
			} else if j > i {
				v[i*m+j] = 1 + 0.25*float64(i+j)
			} else {
				v[i*m+j] = 0.5
			}
		}
	}
	w := make([]float64, len(v))
	copy(w, v)
	if fast {
		return ad.NewDenseFloat64Matrix(w, n, m), v
	}
	return ad.NewDenseReal64Matrix(w, n, m), v
}

func matVals(m ad.Matrix) []float64 {
	r, c := m.Dims()
	v := make([]float64, 0, r*c)
	for i := 0; i < r; i++ {
		for j := 0; j < c; j++ {
			v = append(v, m.ConstAt(i, j).GetFloat64())
		}
	}
	return v
}

func r7SameVals(a, b []float64) bool {
	if len(a) != len(b) {
		return false
	}
	for i := range a {
		if math.Float64bits(a[i]) != math.Float64bits(b[i]) {
			return false
		}
	}
	return true
}

func runGJ(c GJCall) (o GJObs) {
	a, a0 := gjMatrix(c.N, c.N, c.Fast, false)
	x, x0 := gjMatrix(c.XR, c.XR, c.Fast, true)
	bv := make([]float64, c.BL)
	for i := range bv {
		bv[i] = 1 + float64(i)
	}
	b0 := append([]float64{}, bv...)
	var b ad.Vector
	if c.Fast {
		b = ad.NewDenseFloat64Vector(bv)
	} else {
		b = ad.NewDenseReal64Vector(bv)
	}
	func() {
		defer func() {
			if r := recover(); r != nil {
				o.Kind = 2
				if _, ok := r.(interface{ RuntimeError() }); ok {
					o.Kind = 3
				}
				o.Msg = fmt.Sprint(r)
			}
		}()
		var err error
		if c.Tri {
			err = gaussJordan.Run(a, x, b, gaussJordan.UpperTriangular{Value: true})
		} else {
			err = gaussJordan.Run(a, x, b)
		}
		if err != nil {
			o.Kind = 1
			o.Msg = err.Error()
		}
	}()
	if len(o.Msg) > 120 {
		o.Msg = o.Msg[:120]
	}
	o.Changed = !r7SameVals(matVals(a), a0) || !r7SameVals(matVals(x), x0) || !r7SameVals(r7vec(b), b0)
	return o
}

func gjCalls() []GJCall {
	var cs []GJCall
	for _, fast := range []bool{true, false} {
		for _, tri := range []bool{false, true} {
			for n := 0; n <= 4; n++ {
				for xr := n - 2; xr <= n+2; xr++ {
					for bl := n - 2; bl <= n+2; bl++ {
						if xr < 0 || bl < 0 {
							continue
						}
						cs = append(cs, GJCall{fast, tri, n, xr, bl})
					}
				}
			}
			cs = append(cs, GJCall{fast, tri, 7, 7, 7}, GJCall{fast, tri, 7, 7, 12}, GJCall{fast, tri, 7, 12, 7}, GJCall{fast, tri, 7, 3, 7})
		}
	}
	return cs
}

type gjAnomaly struct {
	Call GJCall `json:"gjcall"`
	Obs  GJObs  `json:"obs"`
	Type string `json:"type"`
}

func runGJStream(opts Opts, calls []GJCall, name string) {
	w := NewCaseWriter(opts.Out, name,
		"From Coq Require Import ZArith List Bool Floats.\nFrom ADV Require Import C20.ModelNewton C20.CorrNewton.\nImport ListNotations.\nOpen Scope Z_scope.",
		"ADV.C20.CorrNewton.nmism", 400)
	w.Type = "ADV.C20.CorrNewton.ncase"
	w.Rule = "a gaussJordan guard case is non-trivial iff the shape is invalid (x rows != n or len(b) != n)"
	var an []gjAnomaly
	for _, c := range calls {
		o := runGJ(c)
		invalid := c.XR != c.N || c.BL != c.N
		kind := o.Kind
		if kind == 3 {
			kind = 2
		}
		w.Add(fmt.Sprintf("GJ %s %s %s %s %s %s %s", B(c.Fast), B(c.Tri), ZI(c.N), ZI(c.XR), ZI(c.BL), ZI(kind), B(o.Changed)),
			map[string]interface{}{"gjcall": c, "obs": o}, fmt.Sprintf("%v/%v/%d/%d/%d", c.Fast, c.Tri, c.N, c.XR, c.BL), invalid)
		w.Count(fmt.Sprintf("path:%s", map[bool]string{true: "fast", false: "generic"}[c.Fast]))
		w.Count(fmt.Sprintf("kind:%d", o.Kind))
		switch {
		case invalid && o.Kind == 0:
			an = append(an, gjAnomaly{c, o, "invalid-shape-accepted"})
		case invalid && o.Changed:
			an = append(an, gjAnomaly{c, o, "receiver-changed-on-rejection"})
		case invalid && o.Kind == 3:
			an = append(an, gjAnomaly{c, o, "runtime-error-instead-of-guard"})
		case !invalid && o.Kind != 0:
			an = append(an, gjAnomaly{c, o, "valid-shape-rejected"})
		}
	}
	if err := w.Flush(); err != nil {
		Die("gj: %v", err)
	}
	ab, _ := json.MarshalIndent(map[string]interface{}{"anomalies": an}, "", " ")
	os.WriteFile(filepath.Join(opts.Out, name+".anomalies.json"), ab, 0644)
}
