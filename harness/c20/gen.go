// C20 guard half: generators (exhaustive small shapes + seeded random ones), the
// Go-side validity oracle (mirrors coq/C20/Spec.v, independent of the model) and
// the classification of each observed outcome against the property statement.
package main

import (
	"encoding/json"
	"fmt"
	"os"
	"path/filepath"
	"sort"

	. "adharness/common"
)

// ---------------------------------------------------------------- header arithmetic (for validity only)

type hdr struct {
	rows, cols int
	wf         bool
}

func mhdr(m *M) hdr {
	h := hdr{m.R, m.C, m.R >= 0 && m.C >= 0 && m.L == m.R*m.C}
	for _, o := range m.Ops {
		if o.Op == "T" {
			h.rows, h.cols = h.cols, h.rows
		} else {
			if !(0 <= o.A && o.A <= o.B && o.B <= h.rows && 0 <= o.C && o.C <= o.D && o.D <= h.cols) {
				h.wf = false
			}
			h.rows, h.cols = o.B-o.A, o.D-o.C
		}
	}
	return h
}
func vwf(v *V) bool { return v.N >= 0 && (v.K == "sparse" || v.Cap >= v.N) }

func inr(i, n int) bool { return 0 <= i && i < n }
func allIn(p []int, n int) bool {
	for _, x := range p {
		if !inr(x, n) {
			return false
		}
	}
	return true
}
func distinct(p []int) bool {
	s := map[int]bool{}
	for _, x := range p {
		if s[x] {
			return false
		}
		s[x] = true
	}
	return true
}

// entryValid: what the entry point's documentation/contract requires of (rows, cols, opt)
func entryValid(alg, r, c, opt int) bool {
	if opt != 0 {
		return false
	}
	switch alg {
	case 0, 1, 8, 10: // qrAlgorithm (+symmetric), hessenberg, tridiagonalization: square
		return r == c
	case 2, 9: // svd, bidiagonalization: rows >= cols
		return r >= c
	case 3, 4, 5, 6, 7: // msqrt, msqrtInv, cholesky, determinant, inverse: square, non-empty
		return r == c && r > 0
	case 13: // rprop: x0 of dim r, eta of length c
		return c == 2
	case 14, 16: // gradientDescent, adam
		return true
	case 15: // bfgs: x0 of dim r, Hessian c x c
		return r == c && r > 0
	}
	return true
}

// valid returns (operands well-formed, precondition of the call holds)
func valid(c *Call) (bool, bool) {
	wf := true
	for _, v := range []*V{c.R, c.A, c.B} {
		if v != nil && !vwf(v) {
			wf = false
		}
	}
	var hr, ha, hb hdr
	if c.MR != nil {
		hr = mhdr(c.MR)
		wf = wf && hr.wf
	}
	if c.MA != nil {
		ha = mhdr(c.MA)
		wf = wf && ha.wf
	}
	if c.MB != nil {
		hb = mhdr(c.MB)
		wf = wf && hb.wf
	}
	I := c.I
	switch c.Op {
	case "VewV":
		return wf, c.A.N == c.R.N && c.B.N == c.R.N
	case "VewS", "VSet":
		return wf, c.A.N == c.R.N
	case "VMdotV":
		return wf, c.R.N == ha.rows && c.B.N == ha.cols && (!c.Alias || ha.rows == 0 || ha.cols == 0)
	case "VVdotM":
		return wf, c.R.N == hb.cols && c.A.N == hb.rows && (!c.Alias || hb.rows == 0 || hb.cols == 0)
	case "VAt":
		return wf, inr(I[0], c.R.N)
	case "VSlice":
		return wf, 0 <= I[0] && I[0] <= I[1] && I[1] <= c.R.N
	case "VSwap":
		return wf, inr(I[0], c.R.N) && inr(I[1], c.R.N)
	case "VPermute":
		return wf, len(c.Pi) == c.R.N && allIn(c.Pi, c.R.N)
	case "VAsMatrix":
		return wf, I[0] >= 0 && I[1] >= 0 && I[0]*I[1] == c.R.N
	case "VNewSparse":
		return wf, len(c.Pi) == I[0] && I[1] >= 0 && allIn(c.Pi, I[1]) && distinct(c.Pi)
	case "MewM":
		return wf, ha.rows == hr.rows && ha.cols == hr.cols && hb.rows == hr.rows && hb.cols == hr.cols
	case "MewS", "MSet":
		return wf, ha.rows == hr.rows && ha.cols == hr.cols
	case "MdotM":
		// the sparse MdotM states that result and arguments must be different matrices
		return wf, ha.rows == hr.rows && hb.cols == hr.cols && ha.cols == hb.rows && !(c.Alias && c.MR.K == "sparse")
	case "MOuter":
		return wf, c.A.N == hr.rows && c.B.N == hr.cols
	case "MAt":
		return wf, inr(I[0], hr.rows) && inr(I[1], hr.cols)
	case "MSlice":
		return wf, 0 <= I[0] && I[0] <= I[1] && I[1] <= hr.rows && 0 <= I[2] && I[2] <= I[3] && I[3] <= hr.cols
	case "MRow":
		return wf, inr(I[0], hr.rows)
	case "MCol":
		return wf, inr(I[0], hr.cols)
	case "MDiag":
		return wf, hr.rows == hr.cols
	case "MSwap":
		return wf, inr(I[0], hr.rows) && inr(I[1], hr.cols) && inr(I[2], hr.rows) && inr(I[3], hr.cols)
	case "MSwapRows", "MSwapCols":
		return wf, hr.rows == hr.cols && inr(I[0], hr.rows) && inr(I[1], hr.rows)
	case "MPermRows", "MPermCols", "MSymPerm":
		return wf, hr.rows == hr.cols && len(c.Pi) == hr.rows && allIn(c.Pi, hr.rows)
	case "MNewDense":
		// the Real instantiations document a single value as a fill value
		return wf, I[1] >= 0 && I[2] >= 0 && (I[0] == I[1]*I[2] || (isRealType(curType) && I[0] == 1))
	case "MNewSparse":
		ok := len(c.Pi) == I[0] && len(c.Pj) == I[0] && I[1] >= 0 && I[2] >= 0
		return wf, ok && allIn(c.Pi, I[1]) && allIn(c.Pj, I[2])
	case "SSetVar":
		return wf, 0 <= I[4] && I[4] <= 2 && I[3] >= 0 && (I[4] == 0 || inr(I[2], I[3]))
	case "SDyadic":
		return wf, !(I[3] >= 1 && I[5] >= 1 && I[2] != I[4])
	case "AEntry":
		return wf, entryValid(c.O, I[0], I[1], I[2])
	}
	Die("valid: unknown op %s", c.Op)
	return false, false
}

// classify: "" when the observed outcome satisfies the property statement for this call.
func classify(c *Call, o Obs) string {
	wf, v := valid(c)
	if !wf {
		return "" // the invalid use happened earlier (unchecked Slice / constructor); attributed there
	}
	switch {
	case v && o.Kind != 0:
		return "valid-use-fails"
	case !v && o.Kind == 0:
		return "silent-acceptance"
	case !v && o.Changed:
		return "receiver-changed-on-failure"
	}
	return ""
}

func site(c *Call) string {
	k := ""
	for _, v := range []*V{c.R, c.A} {
		if v != nil && k == "" {
			k = v.K
		}
	}
	if c.MR != nil {
		k = c.MR.K
	}
	if c.Op == "AEntry" {
		return fmt.Sprintf("AEntry#%d", c.O)
	}
	if k == "" {
		return c.Op
	}
	return c.Op + "/" + k
}

// ---------------------------------------------------------------- generation

func vd(k string, n int) *V { return &V{K: k, N: n, Cap: n} }
func md(k string, r, c int) *M {
	return &M{K: k, L: r * c, R: r, C: c}
}

var kinds = []string{"dense", "sparse"}

func genCalls(rng *Rng, nrand int) []Call {
	var cs []Call
	add := func(c Call) { cs = append(cs, c) }
	sz := []int{0, 1, 2, 3}
	for _, k := range kinds {
		// element-wise vector ops: all (nr, na, nb) in 0..3
		for o := 0; o < 4; o++ {
			for _, nr := range sz {
				for _, na := range sz {
					for _, nb := range sz {
						if o > 0 && nr == na && na == nb && nr > 1 {
							continue
						}
						add(Call{Op: "VewV", O: o, R: vd(k, nr), A: vd(k, na), B: vd(k, nb)})
					}
					if o == 0 || nr != na {
						add(Call{Op: "VewS", O: o, R: vd(k, nr), A: vd(k, na)})
					}
				}
			}
		}
		for _, nr := range sz {
			for _, na := range sz {
				add(Call{Op: "VSet", R: vd(k, nr), A: vd(k, na)})
			}
			for i := -2; i <= nr+1; i++ {
				for o := 0; o < 3; o++ {
					add(Call{Op: "VAt", O: o, R: vd(k, nr), I: []int{i}})
				}
				for j := -1; j <= nr+2; j++ {
					add(Call{Op: "VSlice", O: (i + j + 4) % 2, R: vd(k, nr), I: []int{i, j}})
					add(Call{Op: "VSwap", R: vd(k, nr), I: []int{i, j}})
				}
			}
			for n := -1; n <= 3; n++ {
				for m := -1; m <= 3; m++ {
					add(Call{Op: "VAsMatrix", R: vd(k, nr), I: []int{n, m}})
				}
			}
		}
		// dense vectors whose backing array is longer than the vector (Go re-slicing)
		if k == "dense" {
			for _, n := range []int{0, 1, 2} {
				for cp := n + 1; cp <= n+2; cp++ {
					for i := 0; i <= cp+1; i++ {
						for j := i - 1; j <= cp+1; j++ {
							add(Call{Op: "VSlice", R: &V{K: k, N: n, Cap: cp}, I: []int{i, j}})
						}
					}
				}
			}
		}
		// permutations: every pi in {-1..n}^len for n <= 2, plus structured ones
		for n := 0; n <= 3; n++ {
			for l := 0; l <= n+1 && l <= 3; l++ {
				tot := 1
				for q := 0; q < l; q++ {
					tot *= n + 2
				}
				for e := 0; e < tot; e++ {
					if n == 3 && e%3 != rng.Intn(3) {
						continue
					}
					pi := make([]int, l)
					x := e
					for q := 0; q < l; q++ {
						pi[q] = x%(n+2) - 1
						x /= n + 2
					}
					add(Call{Op: "VPermute", R: vd(k, n), Pi: pi})
					for _, op := range []string{"MPermRows", "MPermCols", "MSymPerm"} {
						add(Call{Op: op, MR: md(k, n, n), Pi: pi})
					}
				}
			}
			add(Call{Op: "MPermRows", MR: md(k, n, n+1), Pi: make([]int, n)})
			add(Call{Op: "MPermCols", MR: md(k, n+1, n), Pi: make([]int, n)})
			add(Call{Op: "MSymPerm", MR: md(k, n, n+1), Pi: make([]int, n)})
		}
		// matrix/vector products
		for _, n := range []int{0, 1, 2} {
			for _, m := range []int{0, 1, 2} {
				for _, nr := range sz {
					for _, nb := range sz {
						add(Call{Op: "VMdotV", R: vd(k, nr), MA: md(k, n, m), B: vd(k, nb)})
						add(Call{Op: "VVdotM", R: vd(k, nr), A: vd(k, nb), MB: md(k, n, m)})
					}
					add(Call{Op: "VMdotV", R: vd(k, nr), MA: md(k, n, m), B: vd(k, nr), Alias: true})
					add(Call{Op: "VVdotM", R: vd(k, nr), A: vd(k, nr), MB: md(k, n, m), Alias: true})
				}
			}
		}
		// element-wise matrix ops and products over shapes in {0,1,2}^2
		sh := [][2]int{{0, 0}, {0, 2}, {1, 1}, {1, 2}, {2, 1}, {2, 2}, {2, 0}}
		for _, r := range sh {
			for _, a := range sh {
				for _, b := range sh {
					o := (r[0] + 2*a[1] + b[0]) % 4
					add(Call{Op: "MewM", O: o, MR: md(k, r[0], r[1]), MA: md(k, a[0], a[1]), MB: md(k, b[0], b[1])})
					add(Call{Op: "MdotM", MR: md(k, r[0], r[1]), MA: md(k, a[0], a[1]), MB: md(k, b[0], b[1])})
				}
				for o := 0; o < 4; o++ {
					if o == 0 || r != a {
						add(Call{Op: "MewS", O: o, MR: md(k, r[0], r[1]), MA: md(k, a[0], a[1])})
					}
				}
				add(Call{Op: "MSet", MR: md(k, r[0], r[1]), MA: md(k, a[0], a[1])})
				if r[0] == r[1] {
					add(Call{Op: "MdotM", MR: md(k, r[0], r[1]), MA: md(k, a[0], a[1]), MB: md(k, r[0], r[1]), Alias: true})
				}
			}
			for _, na := range sz {
				for _, nb := range sz {
					add(Call{Op: "MOuter", MR: md(k, r[0], r[1]), A: vd(k, na), B: vd(k, nb)})
				}
			}
			add(Call{Op: "MDiag", MR: md(k, r[0], r[1])})
			for i := -1; i <= r[0]+1; i++ {
				add(Call{Op: "MRow", MR: md(k, r[0], r[1]), I: []int{i}})
				for j := -1; j <= r[1]+1; j++ {
					for o := 0; o < 3; o++ {
						add(Call{Op: "MAt", O: o, MR: md(k, r[0], r[1]), I: []int{i, j}})
					}
					add(Call{Op: "MSwap", MR: md(k, r[0], r[1]), I: []int{i, j, 0, 0}})
					add(Call{Op: "MSwap", MR: md(k, r[0], r[1]), I: []int{0, 0, i, j}})
					add(Call{Op: "MSwapRows", MR: md(k, r[0], r[1]), I: []int{i, j}})
					add(Call{Op: "MSwapCols", MR: md(k, r[0], r[1]), I: []int{i, j}})
				}
			}
			for j := -1; j <= r[1]+1; j++ {
				add(Call{Op: "MCol", MR: md(k, r[0], r[1]), I: []int{j}})
			}
			// slices: every (a,b) x (c,d) in -1..dim+1
			for a := -1; a <= r[0]+1; a++ {
				for b := -1; b <= r[0]+1; b++ {
					for c := -1; c <= r[1]+1; c++ {
						for d := -1; d <= r[1]+1; d++ {
							if (a+2*b+3*c+5*d+22)%7 == 0 || (0 <= a && a <= b && b <= r[0] && 0 <= c && c <= d && d <= r[1] && (a+c)%2 == 0) {
								add(Call{Op: "MSlice", O: (a + d + 4) % 2, MR: md(k, r[0], r[1]), I: []int{a, b, c, d}})
							}
						}
					}
				}
			}
		}
	}
	// dense matrices seen through views (valid and unchecked-invalid slices, transposes): index arithmetic
	base := &M{K: "dense", L: 9, R: 3, C: 3}
	views := [][]MOp{
		{{Op: "slice", A: 0, B: 2, C: 0, D: 2}},
		{{Op: "slice", A: 1, B: 3, C: 1, D: 3}},
		{{Op: "T"}},
		{{Op: "slice", A: 1, B: 3, C: 0, D: 2}, {Op: "T"}},
		{{Op: "T"}, {Op: "slice", A: 0, B: 2, C: 1, D: 3}},
		{{Op: "slice", A: 0, B: 2, C: 0, D: 2}, {Op: "slice", A: 0, B: 2, C: 0, D: 3}}, // out of the view, inside the parent
		{{Op: "slice", A: 0, B: 5, C: 0, D: 5}},                                       // out of the parent
		{{Op: "slice", A: 1, B: 3, C: 1, D: 4}},
		{{Op: "slice", A: 2, B: 1, C: 0, D: 2}}, // negative extent
		{{Op: "slice", A: 0, B: 4, C: 0, D: 2}, {Op: "T"}},
	}
	for _, ops := range views {
		m := &M{K: "dense", L: base.L, R: base.R, C: base.C, Ops: ops}
		h := mhdr(m)
		for i := -1; i <= h.rows; i++ {
			for j := -1; j <= h.cols; j++ {
				add(Call{Op: "MAt", O: (i + j + 2) % 3, MR: m, I: []int{i, j}})
			}
			add(Call{Op: "MRow", MR: m, I: []int{i}})
		}
		for j := -1; j <= h.cols; j++ {
			add(Call{Op: "MCol", MR: m, I: []int{j}})
		}
		if h.rows >= 0 && h.cols >= 0 {
			add(Call{Op: "MewS", O: 0, MR: m, MA: md("dense", h.rows, h.cols)})
			add(Call{Op: "MSet", MR: m, MA: md("dense", h.rows, h.cols)})
			add(Call{Op: "MewM", O: 0, MR: md("dense", h.rows, h.cols), MA: m, MB: md("dense", h.rows, h.cols)})
			add(Call{Op: "MdotM", MR: md("dense", h.rows, h.rows), MA: m, MB: md("dense", h.cols, h.rows)})
			add(Call{Op: "VMdotV", R: vd("dense", h.rows), MA: m, B: vd("dense", h.cols)})
			add(Call{Op: "MOuter", MR: m, A: vd("dense", h.rows), B: vd("dense", h.cols)})
			add(Call{Op: "MSlice", MR: m, I: []int{0, h.rows, 0, h.cols}})
			add(Call{Op: "MSlice", MR: m, I: []int{0, h.rows + 1, 0, h.cols}})
			if h.rows == h.cols && h.rows > 0 {
				add(Call{Op: "MSwapRows", MR: m, I: []int{0, h.rows - 1}})
				add(Call{Op: "MDiag", MR: m})
			}
		}
	}
	cs = append(cs, viewIndexCalls()...)
	// constructors from slices
	for r := 0; r <= 3; r++ {
		for c := 0; c <= 3; c++ {
			for _, l := range []int{r*c - 1, r * c, r*c + 1, 0} {
				if l >= 0 {
					add(Call{Op: "MNewDense", I: []int{l, r, c}})
				}
			}
		}
	}
	for n := 0; n <= 3; n++ {
		for l := 0; l <= 2; l++ {
			tot := 1
			for q := 0; q < l; q++ {
				tot *= n + 3
			}
			for e := 0; e < tot; e++ {
				idx := make([]int, l)
				x := e
				for q := 0; q < l; q++ {
					idx[q] = x%(n+3) - 1
					x /= n + 3
				}
				add(Call{Op: "VNewSparse", Pi: idx, I: []int{l, n}})
				if e%4 == 0 {
					add(Call{Op: "VNewSparse", Pi: idx, I: []int{l + 1, n}})
				}
			}
		}
	}
	for r := 0; r <= 2; r++ {
		for c := 0; c <= 2; c++ {
			for i := -1; i <= r; i++ {
				for j := -1; j <= c; j++ {
					add(Call{Op: "MNewSparse", Pi: []int{i}, Pj: []int{j}, I: []int{1, r, c}})
				}
			}
			add(Call{Op: "MNewSparse", Pi: []int{}, Pj: []int{}, I: []int{0, r, c}})
			add(Call{Op: "MNewSparse", Pi: []int{0}, Pj: []int{}, I: []int{0, r, c}})
			add(Call{Op: "MNewSparse", Pi: []int{0}, Pj: []int{0}, I: []int{2, r, c}})
		}
	}
	// scalars: SetVariable(i, n, order) on a receiver with (N0, Order0); dyadic with (N, order) triples
	for _, no := range [][2]int{{0, 0}, {2, 1}, {2, 2}, {3, 1}} {
		for i := -1; i <= 3; i++ {
			for n := 0; n <= 3; n++ {
				for order := -1; order <= 3; order++ {
					add(Call{Op: "SSetVar", I: []int{no[0], no[1], i, n, order}})
				}
			}
		}
	}
	nos := [][2]int{{0, 0}, {1, 1}, {2, 1}, {3, 1}, {2, 2}, {3, 2}}
	for _, c := range nos {
		for _, a := range nos {
			for _, b := range nos {
				add(Call{Op: "SDyadic", O: 0, I: []int{c[0], c[1], a[0], a[1], b[0], b[1]}})
			}
		}
	}
	for _, a := range nos {
		for _, b := range nos {
			add(Call{Op: "SDyadic", O: 1, I: []int{a[0], a[1], a[0], a[1], b[0], b[1]}})
			add(Call{Op: "SDyadic", O: 2, I: []int{b[0], b[1], a[0], a[1], b[0], b[1]}})
		}
	}
	// algorithm entry points: shape and option validation
	for _, alg := range []int{0, 1, 2, 3, 4, 5, 6, 7, 8, 9, 10} {
		for _, s := range [][2]int{{0, 0}, {1, 1}, {2, 2}, {3, 3}, {1, 2}, {2, 1}, {3, 2}, {2, 3}, {0, 2}, {2, 0}} {
			add(Call{Op: "AEntry", O: alg, I: []int{s[0], s[1], 0}})
		}
		add(Call{Op: "AEntry", O: alg, I: []int{2, 2, 1}})
		add(Call{Op: "AEntry", O: alg, I: []int{2, 2, 2}})
		add(Call{Op: "AEntry", O: alg, I: []int{2, 3, 1}})
	}
	for _, alg := range []int{13, 14, 15, 16} {
		for r := 0; r <= 3; r++ {
			for c := 0; c <= 3; c++ {
				add(Call{Op: "AEntry", O: alg, I: []int{r, c, 0}})
			}
		}
		add(Call{Op: "AEntry", O: alg, I: []int{2, 2, 1}})
	}
	// seeded random calls with larger shapes
	for q := 0; q < nrand; q++ {
		k := kinds[rng.Intn(2)]
		n := rng.Range(0, 6)
		pert := func(x int) int {
			if rng.Intn(3) == 0 {
				return x + rng.Range(-2, 2)
			}
			return x
		}
		ix := func(n int) int { return rng.Range(-2, n+2) }
		switch rng.Intn(12) {
		case 0:
			add(Call{Op: "VewV", O: rng.Intn(4), R: vd(k, n), A: vd(k, max0(pert(n))), B: vd(k, max0(pert(n)))})
		case 1:
			add(Call{Op: "VewS", O: rng.Intn(4), R: vd(k, n), A: vd(k, max0(pert(n)))})
		case 2:
			m := rng.Range(0, 5)
			add(Call{Op: "VMdotV", R: vd(k, max0(pert(n))), MA: md(k, n, m), B: vd(k, max0(pert(m)))})
		case 3:
			m := rng.Range(0, 5)
			add(Call{Op: "VVdotM", R: vd(k, max0(pert(m))), A: vd(k, max0(pert(n))), MB: md(k, n, m)})
		case 4:
			pi := make([]int, max0(pert(n)))
			for i := range pi {
				pi[i] = i
			}
			for i := len(pi) - 1; i > 0; i-- {
				j := rng.Intn(i + 1)
				pi[i], pi[j] = pi[j], pi[i]
			}
			if len(pi) > 0 && rng.Intn(2) == 0 {
				pi[rng.Intn(len(pi))] = ix(n)
			}
			op := []string{"VPermute", "MPermRows", "MPermCols", "MSymPerm"}[rng.Intn(4)]
			if op == "VPermute" {
				add(Call{Op: op, R: vd(k, n), Pi: pi})
			} else {
				add(Call{Op: op, MR: md(k, n, n), Pi: pi})
			}
		case 5:
			m := rng.Range(0, 5)
			add(Call{Op: "MewM", O: rng.Intn(4), MR: md(k, n, m), MA: md(k, max0(pert(n)), m), MB: md(k, n, max0(pert(m)))})
		case 6:
			m, l := rng.Range(0, 4), rng.Range(0, 4)
			add(Call{Op: "MdotM", MR: md(k, max0(pert(n)), max0(pert(m))), MA: md(k, n, l), MB: md(k, max0(pert(l)), m)})
		case 7:
			m := rng.Range(0, 5)
			add(Call{Op: "MSlice", O: rng.Intn(2), MR: md(k, n, m), I: []int{ix(n), ix(n), ix(m), ix(m)}})
		case 8:
			m := rng.Range(1, 5)
			mm := &M{K: "dense", L: (n + 1) * m, R: n + 1, C: m, Ops: []MOp{{Op: "slice", A: ix(n + 1), B: ix(n + 1), C: ix(m), D: ix(m)}}}
			if rng.Intn(2) == 0 {
				mm.Ops = append(mm.Ops, MOp{Op: "T"})
			}
			h := mhdr(mm)
			add(Call{Op: "MAt", O: rng.Intn(3), MR: mm, I: []int{ix(h.rows), ix(h.cols)}})
		case 9:
			add(Call{Op: "VSlice", O: rng.Intn(2), R: &V{K: k, N: n, Cap: n + rng.Intn(3)}, I: []int{ix(n), ix(n + 2)}})
		case 10:
			m := rng.Range(0, 5)
			add(Call{Op: "MOuter", MR: md(k, n, m), A: vd(k, max0(pert(n))), B: vd(k, max0(pert(m)))})
		default:
			m := rng.Range(0, 5)
			add(Call{Op: "MSwap", MR: md(k, n, m), I: []int{ix(n), ix(m), ix(n), ix(m)}})
		}
	}
	// sparse vectors have no capacity: normalise
	for i := range cs {
		for _, v := range []*V{cs[i].R, cs[i].A, cs[i].B} {
			if v != nil && v.K == "sparse" {
				v.Cap = v.N
			}
		}
	}
	return cs
}
// viewIndexCalls: the out-of-view index stream.  Proper sub-views (nested slices, transposes of
// slices, slices of transposes) of a 4x5 and a 5x5 dense parent; every index pair in
// -1 .. parent extent, so that every index that is OUTSIDE THE VIEW BUT INSIDE THE PARENT'S STORAGE
// occurs, for At / ConstAt / Float64At, Swap (either argument pair), SwapRows and SwapColumns
// (square views), Row and Col.  The observable is (panic or not, parent storage unchanged); the
// model says index() fails exactly outside [0,rows) x [0,cols) of the VIEW (Props.index_guard_exact).
func viewIndexCalls() []Call {
	var cs []Call
	add := func(c Call) { cs = append(cs, c) }
	sl := func(a, b, c, d int) MOp { return MOp{Op: "slice", A: a, B: b, C: c, D: d} }
	T := MOp{Op: "T"}
	type pv struct {
		r, c int
		ops  []MOp
	}
	views := []pv{
		{4, 5, []MOp{sl(1, 3, 1, 4)}},                    // interior 2x3
		{4, 5, []MOp{sl(0, 2, 0, 2)}},                    // leading 2x2
		{4, 5, []MOp{sl(2, 4, 3, 5)}},                    // trailing 2x2
		{4, 5, []MOp{sl(0, 4, 1, 3)}},                    // all rows, inner columns
		{4, 5, []MOp{sl(1, 3, 0, 5)}},                    // inner rows, all columns
		{4, 5, []MOp{sl(0, 3, 0, 4), sl(1, 3, 1, 3)}},    // nested slice 2x2
		{4, 5, []MOp{sl(1, 4, 1, 5), sl(0, 2, 1, 3), sl(0, 1, 0, 2)}}, // triple nesting 1x2
		{4, 5, []MOp{sl(1, 3, 1, 4), T}},                 // transpose of a slice 3x2
		{4, 5, []MOp{T, sl(1, 4, 1, 3)}},                 // slice of the transpose 3x2
		{4, 5, []MOp{T, sl(0, 3, 0, 3), T, sl(1, 3, 0, 2)}}, // slice / transpose alternating 2x2
		{5, 5, []MOp{sl(1, 4, 1, 4)}},                    // interior 3x3 (square: SwapRows/SwapColumns)
		{5, 5, []MOp{sl(0, 3, 2, 5), T}},                 // square, transposed
		{5, 5, []MOp{sl(0, 4, 0, 4), sl(1, 3, 1, 3)}},    // square, nested
		{5, 5, []MOp{sl(2, 2, 1, 4)}},                    // empty row extent
		{5, 5, []MOp{T}},                                 // the whole parent, transposed (no proper view)
	}
	for _, v := range views {
		m := &M{K: "dense", L: v.r * v.c, R: v.r, C: v.c, Ops: v.ops}
		h := mhdr(m)
		hi := v.r
		if v.c > hi {
			hi = v.c
		}
		for i := -1; i <= hi; i++ {
			for j := -1; j <= hi; j++ {
				for o := 0; o < 3; o++ {
					add(Call{Op: "MAt", O: o, MR: m, I: []int{i, j}})
				}
				if h.rows > 0 && h.cols > 0 {
					add(Call{Op: "MSwap", MR: m, I: []int{i, j, 0, 0}})
					add(Call{Op: "MSwap", MR: m, I: []int{h.rows - 1, h.cols - 1, i, j}})
				}
				if h.rows == h.cols {
					add(Call{Op: "MSwapRows", MR: m, I: []int{i, j}})
					add(Call{Op: "MSwapCols", MR: m, I: []int{i, j}})
				}
			}
			add(Call{Op: "MRow", MR: m, I: []int{i}})
			add(Call{Op: "MCol", MR: m, I: []int{i}})
		}
	}
	return cs
}

func max0(x int) int {
	if x < 0 {
		return 0
	}
	return x
}

// typesFor: the element types / variants each call is executed with
func typesFor(c *Call) []string {
	switch c.Op {
	case "SSetVar":
		return []string{"r64"}
	case "SDyadic":
		return []string{"add", "mul", "sub", "div"}
	case "AEntry":
		return []string{"f64"}
	}
	// dense Real matrices panic while *building* a view of negative extent: not usable as an operand
	for _, m := range []*M{c.MR, c.MA, c.MB} {
		if m != nil && m.K == "dense" {
			h := hdr{m.R, m.C, true}
			for _, o := range m.Ops {
				if o.Op == "T" {
					h.rows, h.cols = h.cols, h.rows
				} else {
					h.rows, h.cols = o.B-o.A, o.D-o.C
					if h.rows < 0 || h.cols < 0 {
						return nonRealTypes()
					}
				}
			}
		}
	}
	return typeOrder
}

func nonRealTypes() []string {
	var ts []string
	for _, t := range typeOrder {
		if !isRealType(t) {
			ts = append(ts, t)
		}
	}
	return ts
}

// subclass refines an anomaly site so that known findings can be matched narrowly
func subclass(c *Call) string {
	switch c.Op {
	case "SSetVar":
		switch {
		case c.I[4] < 0:
			return "neg-order"
		case c.I[4] > 2:
			return "order>2"
		}
		return "index"
	case "SDyadic":
		return fmt.Sprintf("alias=%d", c.O)
	case "VPermute":
		return fmt.Sprintf("len%+d", sign(len(c.Pi)-c.R.N))
	case "MPermRows", "MPermCols", "MSymPerm":
		return fmt.Sprintf("len%+d", sign(len(c.Pi)-c.MR.R))
	case "MRow":
		// Row(i) on a matrix without columns performs no element access at all
		if mhdr(c.MR).cols == 0 {
			return "empty-extent"
		}
		return "nonempty"
	case "MCol":
		if mhdr(c.MR).rows == 0 {
			return "empty-extent"
		}
		return "nonempty"
	case "MSwapRows", "MSwapCols":
		if h := mhdr(c.MR); h.rows == 0 && h.cols == 0 {
			return "empty-extent"
		}
		return "nonempty"
	case "VAsMatrix":
		if c.I[0] < 0 || c.I[1] < 0 {
			return "negative-dim"
		}
		return "other"
	case "VNewSparse":
		if len(c.Pi) != c.I[0] {
			return "length"
		}
		for _, x := range c.Pi {
			if x >= c.I[1] {
				return "index>=n"
			}
		}
		if !distinct(c.Pi) {
			return "repeated"
		}
		return "negative-index"
	case "MdotM":
		ha, hb, hr := mhdr(c.MA), mhdr(c.MB), mhdr(c.MR)
		if ha.rows == 0 || ha.cols == 0 || hb.cols == 0 || hr.rows == 0 || hr.cols == 0 {
			return "empty"
		}
		return "nonempty"
	case "AEntry":
		if c.I[2] != 0 {
			return "option"
		}
		return "shape"
	}
	return ""
}
func sign(x int) int {
	switch {
	case x < 0:
		return -1
	case x > 0:
		return 1
	}
	return 0
}

type Anomaly struct {
	Sub   string `json:"sub"`
	Site  string `json:"site"`
	What  string `json:"what"`
	Type  string `json:"type"`
	Call  Call   `json:"call"`
	Obs   Obs    `json:"obs"`
	Count int    `json:"count"`
}

// runGuard executes the calls, writes the Coq case shards and the anomaly report.
func runGuard(opts Opts, calls []Call, name string) {
	w := NewCaseWriter(opts.Out, name,
		"From Coq Require Import ZArith List Bool.\nFrom ADV Require Import C20.Model C20.Corr.\nImport ListNotations.\nOpen Scope Z_scope.\n",
		"ADV.C20.Corr.mism", 400)
	w.Type = "ADV.C20.Corr.case"
	w.Rule = "a guard case is non-trivial iff the call is an invalid use (precondition false or an operand obtained by an unchecked slice/constructor), or has a degenerate size 0/1 operand"
	anom := map[string]*Anomaly{}
	disagreements := []Case{}
	for i := range calls {
		c := &calls[i]
		// execute with every element type; types whose printed case (call, observation) coincide are merged
		groups := map[string]*Case{}
		var order []string
		for _, tn := range typesFor(c) {
			var o Obs
			if c.Op == "SDyadic" {
				o = execDyadic(c, tn)
			} else {
				o = execCall(c, tn)
			}
			curType = tn
			cc := Case{Call: *c, Obs: o, Types: []string{tn}}
			s := coqCase(&cc)
			if g, ok := groups[s]; ok {
				g.Types = append(g.Types, tn)
			} else {
				groups[s] = &cc
				order = append(order, s)
			}
		}
		first := &groups[order[0]].Obs
		for _, s := range order[1:] {
			g := groups[s]
			curType = g.Types[0]
			w.Add(coqCase(g), *g, fmt.Sprint(*g), true)
			w.Count("type-variant")
			if a := classify(c, g.Obs); a != "" && fmt.Sprint(g.Obs) != fmt.Sprint(*first) {
				k := site(c) + "[" + g.Types[0] + "]|" + a + "|" + subclass(c)
				if anom[k] == nil {
					anom[k] = &Anomaly{Site: site(c) + "[" + g.Types[0] + "]", Sub: subclass(c), Type: a, Call: *c, Obs: g.Obs}
				}
				anom[k].Count++
			}
		}
		curType = groups[order[0]].Types[0]
		cc := *groups[order[0]]
		wf, v := valid(c)
		key, _ := json.Marshal(c)
		nontriv := !wf || !v || degenerate(c)
		w.Add(coqCase(&cc), cc, string(key), nontriv)
		w.Count("op:" + c.Op)
		w.Count(fmt.Sprintf("kind:%d", first.Kind))
		switch {
		case !wf:
			w.Count("class:nonwf-operand")
		case v:
			w.Count("class:valid")
		default:
			w.Count("class:invalid")
		}
		w.CountN("executions", len(typesFor(c)))
		for _, tn := range typesFor(c) {
			w.Count("type:" + tn)
		}
		// the out-of-view index stream: a proper sub-view, an index pair outside it, an operation that goes through index()
		if c.MR != nil && len(c.MR.Ops) > 0 && wf && !v {
			switch c.Op {
			case "MAt", "MSwap", "MSwapRows", "MSwapCols", "MRow", "MCol":
				w.Count("out-of-view:" + c.Op)
				for _, tn := range typesFor(c) {
					w.Count("out-of-view-exec:" + tn)
				}
			}
		}
		if a := classify(c, *first); a != "" {
			k := site(c) + "|" + a + "|" + subclass(c)
			if anom[k] == nil {
				anom[k] = &Anomaly{Site: site(c), Sub: subclass(c), Type: a, Call: *c, Obs: *first}
			}
			anom[k].Count++
		}
	}
	if err := w.Flush(); err != nil {
		Die("flush: %v", err)
	}
	keys := make([]string, 0, len(anom))
	for k := range anom {
		keys = append(keys, k)
	}
	sort.Strings(keys)
	out := []*Anomaly{}
	for _, k := range keys {
		out = append(out, anom[k])
	}
	b, _ := json.MarshalIndent(map[string]interface{}{"anomalies": out, "type_disagreements": disagreements}, "", " ")
	os.WriteFile(filepath.Join(opts.Out, name+".anomalies.json"), b, 0644)
}

func degenerate(c *Call) bool {
	for _, v := range []*V{c.R, c.A, c.B} {
		if v != nil && v.N <= 1 {
			return true
		}
	}
	for _, m := range []*M{c.MR, c.MA, c.MB} {
		if m != nil && (m.R <= 1 || m.C <= 1) {
			return true
		}
	}
	return false
}

func execDyadic(c *Call, variant string) Obs {
	var o Obs
	o.Out = []int{}
	cc := mkReal(c.I[0], c.I[1], 3)
	a := mkReal(c.I[2], c.I[3], 4)
	b := mkReal(c.I[4], c.I[5], 6)
	switch c.O {
	case 1:
		cc = a
	case 2:
		cc = b
	}
	s0 := snap(cc)
	o.Kind = protect(func() error {
		switch variant {
		case "add":
			cc.Add(a, b)
		case "mul":
			cc.Mul(a, b)
		case "sub":
			cc.Sub(a, b)
		default:
			cc.Div(a, b)
		}
		return nil
	})
	o.Changed = snap(cc) != s0
	return o
}
