// C20 recycle stream (round 6): algorithm entry points called with a RECYCLED InSitu / workspace.
//
// One InSitu object is carried through a SEQUENCE of calls on inputs of different sizes and with
// different option combinations (compute-vectors on/off, initialise flags), nested algorithms included
// (eigensystem -> qrAlgorithm -> hessenbergReduction / householderTridiagonalization, svd ->
// householderBidiagonalization, matrixInverse -> cholesky / gaussJordan, determinant -> cholesky).
// Before and after every call the shape of every buffer of the workspace is read by reflection; the call
// is repeated on the same input with a FRESH workspace.  Observables per step:
//   pre-state shapes, outcome kind, output shapes, post-state shapes   -> replayed by coq/C20/ModelRecycle.v
//   recycled vs fresh: shapes and values                              -> property-level oracle (anomalies)
// The property: a call ends in an error/panic or returns outputs of the right shape computed from the new
// input - never a stale or wrongly sized result with err == nil.
package main

import (
	"encoding/json"
	"fmt"
	"math"
	"os"
	"path/filepath"
	"reflect"
	"runtime"
	"sort"
	"strings"
	"time"

	. "adharness/common"

	ad "github.com/pbenner/autodiff"
	"github.com/pbenner/autodiff/algorithm/backSubstitution"
	"github.com/pbenner/autodiff/algorithm/cholesky"
	"github.com/pbenner/autodiff/algorithm/determinant"
	"github.com/pbenner/autodiff/algorithm/eigensystem"
	"github.com/pbenner/autodiff/algorithm/gramSchmidt"
	"github.com/pbenner/autodiff/algorithm/hessenbergReduction"
	"github.com/pbenner/autodiff/algorithm/householderBidiagonalization"
	"github.com/pbenner/autodiff/algorithm/householderTridiagonalization"
	"github.com/pbenner/autodiff/algorithm/matrixInverse"
	"github.com/pbenner/autodiff/algorithm/qrAlgorithm"
	"github.com/pbenner/autodiff/algorithm/svd"
)

// ---------------------------------------------------------------- descriptors

type RStep struct {
	N    int `json:"n"`
	M    int `json:"m"`
	Opt  int `json:"opt"`
	Seed int `json:"seed"`
	// Craft: buffers of the workspace REPLACED by caller-built ones just before this call (a "foreign" workspace:
	// the states the for-every-workspace theorems quantify over and no call sequence reaches)
	Craft []CraftItem `json:"craft,omitempty"`
}
type CraftItem struct {
	Path  string `json:"path"`
	Shape []int  `json:"shape"` // [d] vector, [r, c] matrix, [-1] nil
}
type RSeq struct {
	Alg   string  `json:"alg"`
	Type  string  `json:"type"` // element type: f64 | r64 | f32
	Steps []RStep `json:"steps"`
}
type RObs struct {
	Pre       map[string][]int `json:"pre"`
	Post      map[string][]int `json:"post"`
	Kind      int              `json:"kind"` // 0 ok, 1 explicit panic, 2 runtime panic, 3 error, 4 deadline
	Out       [][]int          `json:"out"`
	FreshKind int              `json:"fresh_kind"`
	FreshOut  [][]int          `json:"fresh_out"`
	Same      bool             `json:"same"` // recycled outputs equal the fresh ones (values)
	MaxDiff   float64          `json:"maxdiff"`
	Msg       string           `json:"msg,omitempty"`
}
type RCase struct {
	Seq  RSeq   `json:"rseq"` // the sequence up to and including this step
	Step int    `json:"step"`
	Obs  RObs   `json:"obs"`
	Anom string `json:"anomaly,omitempty"` // property-level oracle on the implementation (classifyR)
	Sub  string `json:"sub,omitempty"`
	Coq  string `json:"-"`
}
type RAnomaly struct {
	Site  string `json:"site"`
	Sub   string `json:"sub"`
	Type  string `json:"type"`
	Seq   RSeq   `json:"rseq"`
	Step  int    `json:"step"`
	Obs   RObs   `json:"obs"`
	Count int    `json:"count"`
}

// ---------------------------------------------------------------- workspace reflection

var (
	tMatrix = reflect.TypeOf((*ad.Matrix)(nil)).Elem()
	tVector = reflect.TypeOf((*ad.Vector)(nil)).Elem()
	tScalar = reflect.TypeOf((*ad.Scalar)(nil)).Elem()
)

// dumpState: path -> shape.  nil -> [-1]; scalar -> []; vector -> [d]; matrix -> [r, c]; bool -> [0|1]
func dumpState(v reflect.Value, prefix string, out map[string][]int) {
	if v.Kind() == reflect.Ptr {
		v = v.Elem()
	}
	for i := 0; i < v.NumField(); i++ {
		f := v.Field(i)
		name := prefix + v.Type().Field(i).Name
		switch {
		case f.Kind() == reflect.Struct:
			dumpState(f, name+".", out)
		case f.Kind() == reflect.Bool:
			if f.Bool() {
				out[name] = []int{1}
			} else {
				out[name] = []int{0}
			}
		case f.Kind() == reflect.Interface:
			if f.IsNil() {
				out[name] = []int{-1}
				continue
			}
			switch x := f.Interface().(type) {
			case ad.Matrix:
				r, c := x.Dims()
				out[name] = []int{r, c}
			case ad.Vector:
				out[name] = []int{x.Dim()}
			default:
				out[name] = []int{}
			}
		}
	}
}

// bufferPaths: the Matrix / Vector fields of a workspace struct (nested structs included)
func bufferPaths(v reflect.Value, prefix string, out *[]CraftItem) {
	if v.Kind() == reflect.Ptr {
		v = v.Elem()
	}
	for i := 0; i < v.NumField(); i++ {
		f := v.Field(i)
		name := prefix + v.Type().Field(i).Name
		switch {
		case f.Kind() == reflect.Struct:
			bufferPaths(f, name+".", out)
		case f.Type() == tMatrix:
			*out = append(*out, CraftItem{Path: name, Shape: []int{0, 0}})
		case f.Type() == tVector:
			*out = append(*out, CraftItem{Path: name, Shape: []int{0}})
		}
	}
}

func applyCraft(v reflect.Value, ci CraftItem, t ad.ScalarType) {
	if v.Kind() == reflect.Ptr {
		v = v.Elem()
	}
	parts := strings.Split(ci.Path, ".")
	for _, p := range parts[:len(parts)-1] {
		v = v.FieldByName(p)
	}
	f := v.FieldByName(parts[len(parts)-1])
	switch {
	case len(ci.Shape) == 1 && ci.Shape[0] == -1:
		f.Set(reflect.Zero(f.Type()))
	case len(ci.Shape) == 1:
		x := ad.NullDenseVector(t, ci.Shape[0])
		for i := 0; i < ci.Shape[0]; i++ {
			x.At(i).SetFloat64(0.25 * float64(i+1))
		}
		f.Set(reflect.ValueOf(x))
	case len(ci.Shape) == 2:
		x := ad.NullDenseMatrix(t, ci.Shape[0], ci.Shape[1])
		for i := 0; i < ci.Shape[0]; i++ {
			for j := 0; j < ci.Shape[1]; j++ {
				x.At(i, j).SetFloat64(0.5 + 0.125*float64(i*ci.Shape[1]+j))
			}
		}
		f.Set(reflect.ValueOf(x))
	}
}

// ---------------------------------------------------------------- inputs

func rtype(tn string) ad.ScalarType {
	switch tn {
	case "r64":
		return ad.Real64Type
	case "f32":
		return ad.Float32Type
	}
	return ad.Float64Type
}

// genB: n x m matrix of small dyadic values, deterministic in seed
func genB(n, m, seed int) [][]float64 {
	rng := NewRng(uint64(seed)*7919 + uint64(n)*131 + uint64(m))
	b := make([][]float64, n)
	for i := range b {
		b[i] = make([]float64, m)
		for j := range b[i] {
			b[i][j] = float64(rng.Range(-8, 8)) / 4
		}
	}
	return b
}

// spd: B B^T + diag(n+1+2i): symmetric positive definite, distinct well separated eigenvalues
func spd(n, seed int) [][]float64 {
	b := genB(n, n, seed)
	a := make([][]float64, n)
	for i := range a {
		a[i] = make([]float64, n)
		for j := range a[i] {
			for k := 0; k < n; k++ {
				a[i][j] += b[i][k] * b[j][k]
			}
			a[i][j] /= 8
			if i == j {
				a[i][j] += float64(n + 1 + 3*i)
			}
		}
	}
	return a
}

func toMat(t ad.ScalarType, v [][]float64, n, m int) ad.Matrix {
	a := ad.NullDenseMatrix(t, n, m)
	for i := 0; i < n; i++ {
		for j := 0; j < m; j++ {
			a.At(i, j).SetFloat64(v[i][j])
		}
	}
	return a
}

// rinput: the input matrix of a step.  kind: "spd" (square algorithms; non-square shapes get a generic
// matrix: the call must fail), "upper" (upper triangle of an spd matrix), "gen" (generic full-rank m x n)
func rinput(kind string, t ad.ScalarType, n, m, seed int) ad.Matrix {
	if n != m || kind == "gen" {
		b := genB(n, m, seed)
		for i := 0; i < n && i < m; i++ {
			b[i][i] += float64(3 + i)
		}
		return toMat(t, b, n, m)
	}
	a := spd(n, seed)
	if kind == "upper" {
		for i := 0; i < n; i++ {
			for j := 0; j < i; j++ {
				a[i][j] = 0
			}
		}
	}
	return toMat(t, a, n, n)
}

// ---------------------------------------------------------------- algorithms

type ralg struct {
	name   string
	nopt   int
	square bool // admissible inputs are square (else rows >= cols)
	fresh  func() interface{}
	// run executes one call; returns the outputs (Matrix / Vector / Scalar / nil)
	run func(st interface{}, t ad.ScalarType, s RStep) ([]interface{}, error)
	// order of the workspace paths in the Coq record
	coqState func(st map[string][]int) string
}

func bit(o, k int) bool { return o>>uint(k)&1 == 1 }

var ralgs = []*ralg{
	{name: "cholesky", nopt: 4, square: true, fresh: func() interface{} { return &cholesky.InSitu{} },
		run: func(st interface{}, t ad.ScalarType, s RStep) ([]interface{}, error) {
			a := rinput("spd", t, s.N, s.M, s.Seed)
			l, d, err := cholesky.Run(a, st.(*cholesky.InSitu), cholesky.LDL{Value: bit(s.Opt, 0)}, cholesky.ForcePD{Value: bit(s.Opt, 1)})
			return []interface{}{l, d}, err
		},
		coqState: func(m map[string][]int) string { return "(StChol " + coqChol(m, "") + ")" }},
	{name: "hessenberg", nopt: 4, square: true, fresh: func() interface{} { return &hessenbergReduction.InSitu{} },
		run: func(st interface{}, t ad.ScalarType, s RStep) ([]interface{}, error) {
			a := rinput("spd", t, s.N, s.M, s.Seed)
			h, u, err := hessenbergReduction.Run(a, st.(*hessenbergReduction.InSitu), hessenbergReduction.ComputeU{Value: bit(s.Opt, 0)},
				hessenbergReduction.SetZero{Value: !bit(s.Opt, 1)})
			return []interface{}{h, u}, err
		},
		coqState: func(m map[string][]int) string { return "(StHess " + coqHess(m, "") + ")" }},
	{name: "tridiag", nopt: 2, square: true, fresh: func() interface{} { return &householderTridiagonalization.InSitu{} },
		run: func(st interface{}, t ad.ScalarType, s RStep) ([]interface{}, error) {
			a := rinput("spd", t, s.N, s.M, s.Seed)
			h, u, err := householderTridiagonalization.Run(a, st.(*householderTridiagonalization.InSitu),
				householderTridiagonalization.ComputeU{Value: bit(s.Opt, 0)})
			return []interface{}{h, u}, err
		},
		coqState: func(m map[string][]int) string { return "(StTri " + coqTri(m, "") + ")" }},
	{name: "bidiag", nopt: 4, square: false, fresh: func() interface{} { return &householderBidiagonalization.InSitu{} },
		run: func(st interface{}, t ad.ScalarType, s RStep) ([]interface{}, error) {
			a := rinput("gen", t, s.N, s.M, s.Seed)
			h, u, v, err := householderBidiagonalization.Run(a, st.(*householderBidiagonalization.InSitu),
				householderBidiagonalization.ComputeU{Value: bit(s.Opt, 0)}, householderBidiagonalization.ComputeV{Value: bit(s.Opt, 1)})
			return []interface{}{h, u, v}, err
		},
		coqState: func(m map[string][]int) string { return "(StBid " + coqBid(m, "") + ")" }},
	{name: "qr", nopt: 16, square: true, fresh: func() interface{} { return &qrAlgorithm.InSitu{} },
		run: func(st interface{}, t ad.ScalarType, s RStep) ([]interface{}, error) {
			a := rinput("spd", t, s.N, s.M, s.Seed)
			is := st.(*qrAlgorithm.InSitu)
			is.InitializeH = bit(s.Opt, 2)
			is.InitializeU = bit(s.Opt, 3)
			h, u, err := qrAlgorithm.Run(a, is, qrAlgorithm.ComputeU{Value: bit(s.Opt, 0)}, qrAlgorithm.Symmetric{Value: bit(s.Opt, 1)})
			return []interface{}{h, u}, err
		},
		coqState: func(m map[string][]int) string { return "(StQr " + coqQr(m, "") + ")" }},
	{name: "eigen", nopt: 8, square: true, fresh: func() interface{} { return &eigensystem.InSitu{} },
		run: func(st interface{}, t ad.ScalarType, s RStep) ([]interface{}, error) {
			a := rinput("spd", t, s.N, s.M, s.Seed)
			is := st.(*eigensystem.InSitu)
			is.QrAlgorithm.InitializeH = bit(s.Opt, 2)
			ev, evec, err := eigensystem.Run(a, is, eigensystem.ComputeEigenvectors{Value: bit(s.Opt, 0)}, eigensystem.Symmetric{Value: bit(s.Opt, 1)})
			return []interface{}{ev, evec}, err
		},
		coqState: func(m map[string][]int) string {
			return fmt.Sprintf("(StEig (mk_eig_st %s %s %s %s))", coqQr(m, "QrAlgorithm."), shp(m["Eigenvalues"]), shp(m["Eigenvectors"]), bl(m["AliasU"]))
		}},
	{name: "svd", nopt: 4, square: false, fresh: func() interface{} { return &svd.InSitu{} },
		run: func(st interface{}, t ad.ScalarType, s RStep) ([]interface{}, error) {
			a := rinput("gen", t, s.N, s.M, s.Seed)
			h, u, v, err := svd.Run(a, st.(*svd.InSitu), svd.ComputeU{Value: bit(s.Opt, 0)}, svd.ComputeV{Value: bit(s.Opt, 1)})
			return []interface{}{h, u, v}, err
		},
		coqState: func(m map[string][]int) string {
			return fmt.Sprintf("(StSvd (mk_svd_st %s %s %s %s))", coqBid(m, "HouseholderBidiagonalization."), shp(m["A"]), shp(m["U"]), shp(m["V"]))
		}},
	{name: "matinv", nopt: 4, square: true, fresh: func() interface{} { return &matrixInverse.InSitu{} },
		run: func(st interface{}, t ad.ScalarType, s RStep) ([]interface{}, error) {
			kind := "spd"
			if bit(s.Opt, 1) && !bit(s.Opt, 0) {
				kind = "upper"
			}
			a := rinput(kind, t, s.N, s.M, s.Seed)
			r, err := matrixInverse.Run(a, st.(*matrixInverse.InSitu), matrixInverse.PositiveDefinite{Value: bit(s.Opt, 0)},
				matrixInverse.UpperTriangular{Value: bit(s.Opt, 1)})
			return []interface{}{r}, err
		},
		coqState: func(m map[string][]int) string {
			return fmt.Sprintf("(StInv (mk_inv_st %s %s %s %s))", shp(m["Id"]), shp(m["A"]), shp(m["B"]), coqChol(m, "Cholesky."))
		}},
	{name: "det", nopt: 3, square: true, fresh: func() interface{} { return &determinant.InSitu{} },
		run: func(st interface{}, t ad.ScalarType, s RStep) ([]interface{}, error) {
			a := rinput("spd", t, s.N, s.M, s.Seed)
			r, err := determinant.Run(a, st.(*determinant.InSitu), determinant.PositiveDefinite{Value: s.Opt >= 1},
				determinant.LogScale{Value: s.Opt == 2})
			return []interface{}{r}, err
		},
		coqState: func(m map[string][]int) string { return "(StDet " + coqChol(m, "Cholesky.") + ")" }},
	{name: "backsub", nopt: 2, square: true, fresh: func() interface{} { return &backSubstitution.InSitu{} },
		run: func(st interface{}, t ad.ScalarType, s RStep) ([]interface{}, error) {
			a := rinput("upper", t, s.N, s.M, s.Seed)
			var b ad.Vector
			if bit(s.Opt, 0) {
				b = ad.NullDenseVector(t, s.N)
				for i := 0; i < s.N; i++ {
					b.At(i).SetFloat64(float64(i + 1))
				}
			}
			x, err := backSubstitution.Run(a, b, st.(*backSubstitution.InSitu))
			return []interface{}{x}, err
		},
		coqState: func(m map[string][]int) string { return fmt.Sprintf("(StBs (mk_bs_st %s %s))", shp(m["A"]), shp(m["X"])) }},
	// gramSchmidt takes its InSitu BY VALUE; the recycled buffers are the Q, R returned by the previous call
	{name: "gramschmidt", nopt: 1, square: false, fresh: func() interface{} { return &gramSchmidt.InSitu{} },
		run: func(st interface{}, t ad.ScalarType, s RStep) ([]interface{}, error) {
			a := rinput("gen", t, s.N, s.M, s.Seed)
			is := st.(*gramSchmidt.InSitu)
			q, r, err := gramSchmidt.Run(a, *is)
			if err == nil {
				is.Q, is.R = q, r
			}
			return []interface{}{q, r}, err
		},
		coqState: func(m map[string][]int) string { return fmt.Sprintf("(StGs (mk_gs_st %s %s))", shp(m["Q"]), shp(m["R"])) }},
}

func findAlg(name string) *ralg {
	for _, a := range ralgs {
		if a.name == name {
			return a
		}
	}
	return nil
}

// ---------------------------------------------------------------- Coq printing

func shp(s []int) string {
	switch {
	case s == nil || (len(s) == 1 && s[0] == -1):
		return "SNil"
	case len(s) == 1:
		return fmt.Sprintf("(SV %s)", ZI(s[0]))
	case len(s) == 2:
		return fmt.Sprintf("(SM %s %s)", ZI(s[0]), ZI(s[1]))
	}
	return "SS"
}
func bl(s []int) string { return B(len(s) == 1 && s[0] == 1) }
func coqChol(m map[string][]int, p string) string {
	return fmt.Sprintf("(mk_chol_st %s %s)", shp(m[p+"L"]), shp(m[p+"D"]))
}
func coqHess(m map[string][]int, p string) string {
	return fmt.Sprintf("(mk_hess_st %s %s %s %s %s)", shp(m[p+"H"]), shp(m[p+"U"]), shp(m[p+"X"]), shp(m[p+"Nu"]), shp(m[p+"T4"]))
}
func coqTri(m map[string][]int, p string) string {
	return fmt.Sprintf("(mk_tri_st %s %s %s %s %s)", shp(m[p+"A"]), shp(m[p+"U"]), shp(m[p+"X"]), shp(m[p+"Nu"]), shp(m[p+"T4"]))
}
func coqBid(m map[string][]int, p string) string {
	return fmt.Sprintf("(mk_bid_st %s %s %s %s %s %s)", shp(m[p+"A"]), shp(m[p+"U"]), shp(m[p+"V"]), shp(m[p+"X"]), shp(m[p+"Nu"]), shp(m[p+"T4"]))
}
func coqQr(m map[string][]int, p string) string {
	return fmt.Sprintf("(mk_qr_st %s %s %s %s %s %s %s %s %s)", bl(m[p+"InitializeH"]), bl(m[p+"InitializeU"]),
		shp(m[p+"H"]), shp(m[p+"U"]), shp(m[p+"X"]), shp(m[p+"Nu"]), shp(m[p+"T4"]), coqHess(m, p+"Hessenberg."), coqTri(m, p+"Householder."))
}
func coqShapes(o [][]int) string {
	xs := make([]string, len(o))
	for i, s := range o {
		xs[i] = shp(s)
	}
	return List(xs)
}

var ralgID = map[string]int{"cholesky": 0, "hessenberg": 1, "tridiag": 2, "bidiag": 3, "qr": 4, "eigen": 5, "svd": 6, "matinv": 7,
	"det": 8, "backsub": 9, "gramschmidt": 10}

// ---------------------------------------------------------------- execution

type rout struct {
	kind   int
	shapes [][]int
	vals   [][]float64
	msg    string
}

func flatten(x interface{}) ([]int, []float64) {
	if x == nil {
		return []int{-1}, nil
	}
	rv := reflect.ValueOf(x)
	if (rv.Kind() == reflect.Ptr || rv.Kind() == reflect.Interface || rv.Kind() == reflect.Slice) && rv.IsNil() {
		return []int{-1}, nil
	}
	switch y := x.(type) {
	case ad.Matrix:
		r, c := y.Dims()
		v := make([]float64, 0, r*c)
		for i := 0; i < r; i++ {
			for j := 0; j < c; j++ {
				v = append(v, y.ConstAt(i, j).GetFloat64())
			}
		}
		return []int{r, c}, v
	case ad.Vector:
		v := make([]float64, y.Dim())
		for i := range v {
			v[i] = y.ConstAt(i).GetFloat64()
		}
		return []int{y.Dim()}, v
	case ad.Scalar:
		return []int{}, []float64{y.GetFloat64()}
	}
	return []int{-2}, nil
}

func runStep(a *ralg, st interface{}, t ad.ScalarType, s RStep) rout {
	ch := make(chan rout, 1)
	go func() {
		var o rout
		defer func() {
			if r := recover(); r != nil {
				o = rout{kind: 1, msg: fmt.Sprint(r)}
				if _, ok := r.(runtime.Error); ok {
					o.kind = 2
				}
				if len(o.msg) > 120 {
					o.msg = o.msg[:120]
				}
			}
			ch <- o
		}()
		outs, err := a.run(st, t, s)
		if err != nil {
			o = rout{kind: 3, msg: err.Error()}
			return
		}
		for _, x := range outs {
			sh, v := flatten(x)
			o.shapes = append(o.shapes, sh)
			o.vals = append(o.vals, v)
		}
	}()
	select {
	case o := <-ch:
		return o
	case <-time.After(60 * time.Second): // generous: the whole stream needs < 1 s of CPU
		return rout{kind: 4, msg: "deadline"}
	}
}

func sameVals(a, b rout) (bool, float64) {
	if len(a.vals) != len(b.vals) {
		return false, math.Inf(1)
	}
	worst := 0.0
	ok := true
	for i := range a.vals {
		if len(a.vals[i]) != len(b.vals[i]) {
			return false, math.Inf(1)
		}
		for j := range a.vals[i] {
			x, y := a.vals[i][j], b.vals[i][j]
			if math.IsNaN(x) && math.IsNaN(y) {
				continue
			}
			d := math.Abs(x - y)
			if !(d <= 1e-9*(1+math.Abs(y))) {
				ok = false
			}
			if d > worst || math.IsNaN(d) {
				worst = d
			}
		}
	}
	return ok, worst
}

func shapesEq(a, b [][]int) bool { return fmt.Sprint(a) == fmt.Sprint(b) }

// execSeq runs the sequence on one workspace; one RCase per step
func execSeq(q RSeq) []RCase {
	a := findAlg(q.Alg)
	if a == nil {
		Die("recycle: unknown algorithm %s", q.Alg)
	}
	t := rtype(q.Type)
	st := a.fresh()
	var cases []RCase
	for k, s := range q.Steps {
		var o RObs
		o.Pre = map[string][]int{}
		o.Post = map[string][]int{}
		for _, ci := range s.Craft {
			applyCraft(reflect.ValueOf(st), ci, t)
		}
		// option flags stored in the workspace are part of the call: set them before reading the pre-state
		dumpState(reflect.ValueOf(st), "", o.Pre)
		aliasObs(st, o.Pre)
		setFlags(q.Alg, o.Pre, s.Opt)
		r := runStep(a, st, t, s)
		o.Kind, o.Out, o.Msg = r.kind, r.shapes, r.msg
		if r.kind != 4 {
			dumpState(reflect.ValueOf(st), "", o.Post)
			aliasObs(st, o.Post)
		}
		f := runStep(a, a.fresh(), t, s)
		o.FreshKind, o.FreshOut = f.kind, f.shapes
		if r.kind == 0 && f.kind == 0 {
			o.Same, o.MaxDiff = sameVals(r, f)
			if math.IsInf(o.MaxDiff, 0) || math.IsNaN(o.MaxDiff) {
				o.MaxDiff = -1
			}
		}
		if o.Out == nil {
			o.Out = [][]int{}
		}
		if o.FreshOut == nil {
			o.FreshOut = [][]int{}
		}
		c := RCase{Seq: RSeq{Alg: q.Alg, Type: q.Type, Steps: append([]RStep{}, q.Steps[:k+1]...)}, Step: k, Obs: o}
		c.Coq = fmt.Sprintf("(RC %s %s %s %s, (%d, %s, %s, %s))", a.coqState(o.Pre), ZI(s.Opt), ZI(s.N), ZI(s.M),
			o.Kind, coqShapes(o.Out), a.coqState(o.Post), B(o.Same))
		cases = append(cases, c)
		if r.kind == 4 {
			break // the abandoned goroutine may still write to the workspace
		}
	}
	return cases
}

// aliasObs: object identities between buffers that the model's state carries (eigensystem: QrAlgorithm.U is Eigenvectors)
func aliasObs(st interface{}, m map[string][]int) {
	if is, ok := st.(*eigensystem.InSitu); ok {
		m["AliasU"] = []int{0}
		if is.Eigenvectors != nil && is.QrAlgorithm.U != nil && is.QrAlgorithm.U == is.Eigenvectors {
			m["AliasU"] = []int{1}
		}
	}
}

// the Initialize* flags of qrAlgorithm.InSitu are written by the runner just before the call
func setFlags(alg string, pre map[string][]int, opt int) {
	b := func(k int) []int {
		if bit(opt, k) {
			return []int{1}
		}
		return []int{0}
	}
	switch alg {
	case "qr":
		pre["InitializeH"], pre["InitializeU"] = b(2), b(3)
	case "eigen":
		pre["QrAlgorithm.InitializeH"] = b(2)
	}
}

// classifyR: the property-level oracle on the implementation
func classifyR(c *RCase) string {
	o := &c.Obs
	switch {
	case o.Kind == 4:
		return "deadline"
	case o.Kind == 0 && o.FreshKind != 0:
		return "accepted-where-fresh-fails"
	case o.Kind == 0 && !shapesEq(o.Out, o.FreshOut):
		return "wrong-shape"
	case o.Kind == 0 && !o.Same:
		return "stale-values"
	}
	return ""
}

// subR: refines an anomaly so that findings can be matched narrowly: option bits + which buffers had a shape
// different from what a fresh call allocates (grow / shrink / same size)
func subR(c *RCase) string {
	s := c.Seq.Steps[c.Step]
	rel := "first"
	if c.Step > 0 {
		p := c.Seq.Steps[c.Step-1]
		// the size of the last call that left buffers behind is what matters; use the largest earlier size
		big, small := false, false
		for _, e := range c.Seq.Steps[:c.Step] {
			if e.N > s.N || e.M > s.M {
				big = true
			}
			if e.N < s.N || e.M < s.M {
				small = true
			}
		}
		_ = p
		switch {
		case big && small:
			rel = "mixed"
		case big:
			rel = "shrink"
		case small:
			rel = "grow"
		default:
			rel = "same"
		}
	}
	// a buffer replaced by a caller-built one in this or an earlier call of the sequence
	for _, e := range c.Seq.Steps[:c.Step+1] {
		if len(e.Craft) > 0 {
			return fmt.Sprintf("opt=%d,%s,foreign:%s", s.Opt, rel, e.Craft[0].Path)
		}
	}
	return fmt.Sprintf("opt=%d,%s", s.Opt, rel)
}

// ---------------------------------------------------------------- generation

func sizesFor(a *ralg, rng *Rng) (int, int) {
	n := rng.Range(1, 5)
	if a.square {
		if rng.Intn(12) == 0 { // inadmissible: not square
			return n, n + 1
		}
		return n, n
	}
	m := rng.Range(1, n)
	if rng.Intn(12) == 0 {
		return m, n + 1 // rows < cols: inadmissible for svd / bidiag
	}
	return n, m
}

func genSeqs(rng *Rng, n int, tier string) []RSeq {
	var out []RSeq
	types := []string{"f64", "r64"}
	// directed: every algorithm, every option pair (first call o1, second call o2), sizes big->small, small->big, same;
	// the third call goes back to the first size with the first options
	pairs := [][2]int{{4, 2}, {2, 4}, {3, 3}, {3, 2}, {1, 3}, {3, 1}}
	for _, a := range ralgs {
		for o1 := 0; o1 < a.nopt; o1++ {
			for o2 := 0; o2 < a.nopt; o2++ {
				for pi, p := range pairs {
					// quick tier: algorithms with many option combinations get two of the six size pairs per option pair
					if tier == "quick" && a.nopt > 4 && (pi+o1+2*o2)%3 != 0 {
						continue
					}
					q := RSeq{Alg: a.name, Type: types[(o1+o2+pi)%2]}
					for k, sz := range p {
						o := o1
						if k == 1 {
							o = o2
						}
						m := sz
						if !a.square && sz > 1 {
							m = sz - 1 + (pi+k)%2
						}
						q.Steps = append(q.Steps, RStep{N: sz, M: m, Opt: o, Seed: 1 + k + pi})
					}
					q.Steps = append(q.Steps, RStep{N: q.Steps[0].N, M: q.Steps[0].M, Opt: o1, Seed: 9})
					out = append(out, q)
				}
			}
			// an INADMISSIBLE first call (not square / fewer rows than columns) may leave buffers behind
			for o2 := 0; o2 < a.nopt; o2++ {
				if tier == "quick" && a.nopt > 4 && (o1+o2)%4 != 0 {
					continue
				}
				for _, sz := range [][2]int{{3, 2}, {2, 4}} {
					q := RSeq{Alg: a.name, Type: types[(o1+o2)%2]}
					q.Steps = append(q.Steps, RStep{N: sz[0], M: sz[0] + 1, Opt: o1, Seed: 3})
					q.Steps = append(q.Steps, RStep{N: sz[1], M: sz[1], Opt: o2, Seed: 4})
					out = append(out, q)
				}
			}
		}
	}
	// foreign workspaces: one real call at size k, then ONE buffer replaced by a caller-built one of another
	// shape, then a call at size k (the guards behind the first dimension test) or at the size of the foreign buffer
	ncraft := n
	if tier != "quick" {
		ncraft = n / 2
	}
	for i := 0; i < ncraft; i++ {
		a := ralgs[i%len(ralgs)]
		var paths []CraftItem
		bufferPaths(reflect.ValueOf(a.fresh()), "", &paths)
		if len(paths) == 0 {
			continue
		}
		q := RSeq{Alg: a.name, Type: types[rng.Intn(2)]}
		k := rng.Range(1, 4)
		m := k
		if !a.square && k > 1 {
			m = k - rng.Intn(2)
		}
		o1, o2 := rng.Intn(a.nopt), rng.Intn(a.nopt)
		if rng.Intn(3) > 0 { // the options that allocate the most buffers
			o1 = a.nopt - 1
			if a.name == "qr" {
				o1 = []int{5, 7, 13, 15}[rng.Intn(4)]
			}
			if a.name == "det" {
				o1 = 1 + rng.Intn(2)
			}
		}
		q.Steps = append(q.Steps, RStep{N: k, M: m, Opt: o1, Seed: rng.Range(1, 50)})
		ci := paths[rng.Intn(len(paths))]
		d := rng.Range(1, 5)
		if len(ci.Shape) == 2 {
			ci.Shape = []int{d, d}
			if rng.Intn(3) == 0 {
				ci.Shape = []int{d, rng.Range(1, 5)}
			}
		} else {
			ci.Shape = []int{d}
		}
		if rng.Intn(10) == 0 {
			ci.Shape = []int{-1}
		}
		n2, m2 := k, m
		if rng.Intn(3) == 0 {
			n2, m2 = d, d
			if !a.square && d > 1 {
				m2 = d - rng.Intn(2)
			}
		}
		if rng.Intn(2) == 0 {
			o2 = o1
		}
		q.Steps = append(q.Steps, RStep{N: n2, M: m2, Opt: o2, Seed: rng.Range(1, 50), Craft: []CraftItem{ci}})
		out = append(out, q)
	}
	// directed foreign workspaces: every buffer of every workspace once larger and once smaller than the input needs,
	// after a real call with the options that allocate the most; small n (the loops may not touch the buffer) and n = 3
	for ai, a := range ralgs {
		var paths []CraftItem
		bufferPaths(reflect.ValueOf(a.fresh()), "", &paths)
		omax := a.nopt - 1
		if a.name == "qr" {
			omax = 5
		}
		for pi, ci := range paths {
			for vi, dk := range [][2]int{{5, 2}, {1, 3}, {5, 3}, {1, 2}, {5, 1}} {
				d, k := dk[0], dk[1]
				if tier == "quick" && len(paths) > 8 && vi >= 2 {
					continue
				}
				_ = ai
				c := CraftItem{Path: ci.Path, Shape: []int{d}}
				if len(ci.Shape) == 2 {
					c.Shape = []int{d, d}
				}
				q := RSeq{Alg: a.name, Type: types[(pi+vi)%2]}
				q.Steps = append(q.Steps, RStep{N: k, M: k, Opt: omax, Seed: 5})
				q.Steps = append(q.Steps, RStep{N: k, M: k, Opt: omax, Seed: 6, Craft: []CraftItem{c}})
				out = append(out, q)
			}
		}
	}
	// random sequences of 2..5 calls
	for i := 0; i < n; i++ {
		a := ralgs[rng.Intn(len(ralgs))]
		q := RSeq{Alg: a.name, Type: types[rng.Intn(2)]}
		if a.name == "cholesky" && rng.Intn(4) == 0 {
			q.Type = "f32"
		}
		k := rng.Range(2, 5)
		for j := 0; j < k; j++ {
			r, c := sizesFor(a, rng)
			q.Steps = append(q.Steps, RStep{N: r, M: c, Opt: rng.Intn(a.nopt), Seed: rng.Range(1, 50)})
		}
		out = append(out, q)
	}
	return out
}

// ---------------------------------------------------------------- driver

func loadRCorpus(path string) []RSeq {
	var qs []RSeq
	b, err := os.ReadFile(path)
	if err != nil {
		return qs
	}
	for _, l := range strings.Split(string(b), "\n") {
		l = strings.TrimSpace(l)
		if l == "" || strings.HasPrefix(l, "#") {
			continue
		}
		var c struct {
			Seq *RSeq `json:"rseq"`
		}
		if err := json.Unmarshal([]byte(l), &c); err == nil && c.Seq != nil {
			qs = append(qs, *c.Seq)
		}
	}
	return qs
}

func runRecycle(opts Opts, seqs []RSeq, name string) {
	w := NewCaseWriter(opts.Out, name,
		"From Coq Require Import ZArith List Bool.\nFrom ADV Require Import C20.ModelRecycle C20.CorrRecycle.\nImport ListNotations.\nOpen Scope Z_scope.\n",
		"ADV.C20.CorrRecycle.rmism", 300)
	w.Type = "ADV.C20.CorrRecycle.rcase"
	w.Rule = "a recycle case is non-trivial iff the workspace is not empty before the call (step >= 1)"
	anom := map[string]*RAnomaly{}
	for _, q := range seqs {
		cs := execSeq(q)
		for i := range cs {
			c := &cs[i]
			key, _ := json.Marshal(c.Seq)
			c.Anom, c.Sub = classifyR(c), subR(c)
			w.Add(c.Coq, c, string(key), c.Step > 0)
			w.Count("alg:" + q.Alg)
			w.Count(fmt.Sprintf("kind:%d", c.Obs.Kind))
			w.Count("type:" + q.Type)
			w.Count(fmt.Sprintf("step:%d", c.Step))
			if c.Step > 0 {
				w.Count("rel:" + strings.SplitN(subR(c), ",", 3)[1])
				if len(c.Seq.Steps[c.Step].Craft) > 0 {
					w.Count("foreign-buffer:" + q.Alg + "." + c.Seq.Steps[c.Step].Craft[0].Path)
				}
			}
			if a := classifyR(c); a != "" {
				k := q.Alg + "|" + a + "|" + subR(c)
				if anom[k] == nil {
					anom[k] = &RAnomaly{Site: "recycle:" + q.Alg, Sub: subR(c), Type: a, Seq: c.Seq, Step: c.Step, Obs: c.Obs}
				} else if len(c.Seq.Steps) < len(anom[k].Seq.Steps) {
					cnt := anom[k].Count
					anom[k] = &RAnomaly{Site: "recycle:" + q.Alg, Sub: subR(c), Type: a, Seq: c.Seq, Step: c.Step, Obs: c.Obs, Count: cnt}
				}
				anom[k].Count++
			}
		}
	}
	if err := w.Flush(); err != nil {
		Die("flush: %v", err)
	}
	for _, an := range anom {
		shrinkAnomaly(an)
	}
	keys := make([]string, 0, len(anom))
	for k := range anom {
		keys = append(keys, k)
	}
	sort.Strings(keys)
	out := []*RAnomaly{}
	for _, k := range keys {
		out = append(out, anom[k])
	}
	b, _ := json.MarshalIndent(map[string]interface{}{"anomalies": out}, "", " ")
	os.WriteFile(filepath.Join(opts.Out, name+".anomalies.json"), b, 0644)
}

// shrinkAnomaly: drop calls from the prefix of the witness sequence while the last call still shows the same
// anomaly type (hunt: a search on the implementation, never the decision)
func shrinkAnomaly(an *RAnomaly) {
	q := an.Seq
	for changed := true; changed && len(q.Steps) > 1; {
		changed = false
		for j := 0; j < len(q.Steps)-1; j++ {
			cand := RSeq{Alg: q.Alg, Type: q.Type}
			cand.Steps = append(cand.Steps, q.Steps[:j]...)
			cand.Steps = append(cand.Steps, q.Steps[j+1:]...)
			cs := execSeq(cand)
			if len(cs) == len(cand.Steps) && classifyR(&cs[len(cs)-1]) == an.Type {
				q = cand
				an.Seq, an.Step, an.Obs = cs[len(cs)-1].Seq, len(cs)-1, cs[len(cs)-1].Obs
				changed = true
				break
			}
		}
	}
}
