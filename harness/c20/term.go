// C20 termination half: every iterative routine on degenerate inputs, each case in
// a SUBPROCESS under a deadline (a hang must not hang the check).  Iteration counts
// are observed through caller-owned closures (hooks / objectives) and compared with
// the explicit caps.
package main

import (
	"context"
	"encoding/json"
	"errors"
	"fmt"
	"math"
	"os"
	"os/exec"
	"path/filepath"
	"runtime"
	"sort"
	"strings"
	"sync"
	"time"

	. "adharness/common"

	ad "github.com/pbenner/autodiff"
	"github.com/pbenner/autodiff/algorithm/adam"
	"github.com/pbenner/autodiff/algorithm/bfgs"
	"github.com/pbenner/autodiff/algorithm/blahut"
	"github.com/pbenner/autodiff/algorithm/eigensystem"
	"github.com/pbenner/autodiff/algorithm/gradientDescent"
	"github.com/pbenner/autodiff/algorithm/householderBidiagonalization"
	"github.com/pbenner/autodiff/algorithm/lineSearch"
	"github.com/pbenner/autodiff/algorithm/msqrt"
	"github.com/pbenner/autodiff/algorithm/msqrtInv"
	"github.com/pbenner/autodiff/algorithm/newton"
	"github.com/pbenner/autodiff/algorithm/qrAlgorithm"
	"github.com/pbenner/autodiff/algorithm/svd"
	"github.com/pbenner/autodiff/special"
)

// caller-owned series / continued fraction that never converge: Eval calls are counted
type constSeries struct{ cnt *counter }

func (s constSeries) Eval() float64 { s.cnt.evals++; return 1.0 }

type altFraction struct{ cnt *counter }

func (s altFraction) Eval() (float64, float64) {
	s.cnt.evals++
	if s.cnt.evals%2 == 0 {
		return 1.0, 2.0
	}
	return -3.0, 0.5
}

var specialArgs = []float64{0, 1e-300, 0.5, 1, 2.5, 3.5, 7.25, 170.5, 1e6, 1e15, 1e300, -0.5, -2.5, -1e15, -1e300}
var specialFns = []string{"Digamma", "Trigamma", "Polygamma2", "Zeta", "GammaP", "GammaQ", "LogErfc", "BesselI", "LogBesselI", "Mlgamma", "GammaPd1"}

type TCase struct {
	Id      int       `json:"id"`
	Routine string    `json:"routine"`
	Family  string    `json:"family"`
	N       int       `json:"n"`
	Mat     []float64 `json:"mat,omitempty"`   // row major n x n (matrix routines)
	Obj     string    `json:"obj,omitempty"`   // objective / oracle name (optimisers)
	Cap     int       `json:"cap"`             // explicit cap handed to the routine (-1: none exists)
	P       []float64 `json:"p,omitempty"`     // step sizes, eta, ...
	Flags   []string  `json:"flags,omitempty"` // structural facts about the input, computed by the parent before the run (narrow finding matching)
	X0      []float64 `json:"x0,omitempty"`    // start point (round 3: zero-partial stream); default 1.5 - i
	Probe   int       `json:"probe,omitempty"` // > 0: deterministic fuel (passes of one inner retry loop) — classification re-run of a hung case
}
type TRes struct {
	Case    TCase    `json:"case"`
	Outcome string   `json:"outcome"` // returned | error | panic | rtpanic | deadline | crash
	Iters   int      `json:"iters"`   // observed iterations (hook calls), -1 if not observable
	Evals   int      `json:"evals"`   // objective evaluations, -1 if not observable
	Secs    float64  `json:"secs"`
	Msg     string   `json:"msg,omitempty"`
	Prog    string   `json:"prog,omitempty"`  // rprop: first failure of the progress predicate of the inner loop (retry.go), "" if none
	Inner   []string `json:"inner,omitempty"` // rprop: Coq text of inner-loop traces (ModelRetry replay)
	MaxPass int      `json:"maxpass,omitempty"`
	Stall   string   `json:"stall,omitempty"` // round 7: Coq text of the logged trajectory of an unconstrained newton run (CorrNewton.NS)
}

// ---------------------------------------------------------------- matrix families

func matFamilies(n int, rng *Rng) map[string][]float64 {
	z := func() []float64 { return make([]float64, n*n) }
	fam := map[string][]float64{}
	fam["zero"] = z()
	id := z()
	two := z()
	neg := z()
	nil_ := z()
	jord := z()
	ones := z()
	cyc := z()
	swp := z()
	rdef := z()
	rot := z()
	symr := z()
	gen := z()
	nan := z()
	inf := z()
	for i := 0; i < n; i++ {
		id[i*n+i] = 1
		two[i*n+i] = 2
		neg[i*n+i] = -3
		jord[i*n+i] = 1
		if i+1 < n {
			nil_[i*n+i+1] = 1
			jord[i*n+i+1] = 1
		}
		cyc[((i+1)%n)*n+i] = 1 // P e_i = e_{i+1}
		for j := 0; j < n; j++ {
			ones[i*n+j] = 1
			rdef[i*n+j] = float64(j + 1) // all rows equal: rank 1
			v := float64(rng.Range(-4, 4))
			gen[i*n+j] = v
			nan[i*n+j] = float64(i + 2*j + 1)
			inf[i*n+j] = float64(i + 2*j + 1)
		}
	}
	for i := 0; i < n; i++ {
		for j := 0; j <= i; j++ {
			v := float64(rng.Range(-3, 3))
			symr[i*n+j] = v
			symr[j*n+i] = v
		}
	}
	// block diagonal of [[0,1],[1,0]] swaps / [[0,-1],[1,0]] rotations (odd n: trailing 1)
	for i := 0; i+1 < n; i += 2 {
		swp[i*n+i+1] = 1
		swp[(i+1)*n+i] = 1
		rot[i*n+i+1] = -1
		rot[(i+1)*n+i] = 1
	}
	if n%2 == 1 {
		swp[n*n-1] = 1
		rot[n*n-1] = 1
	}
	// the NaN / +Inf entry itself is patched in by the child (JSON cannot carry it): see fixNonFinite
	toep := z()
	for i := 0; i < n; i++ {
		toep[i*n+i] = 2
		if i+1 < n {
			toep[i*n+i+1] = 1
			toep[(i+1)*n+i] = 1
		}
	}
	fam["toeplitz-121"] = toep // symmetric positive definite, equal diagonal entries
	fam["identity"] = id
	fam["repeated-2I"] = two
	fam["negdiag"] = neg
	fam["nilpotent"] = nil_
	fam["jordan"] = jord
	fam["ones-rank1"] = ones
	fam["cyclic-perm"] = cyc
	fam["swap-perm"] = swp
	fam["rank-deficient"] = rdef
	fam["rotation"] = rot
	fam["sym-random"] = symr
	fam["random"] = gen
	fam["nan-entry"] = nan
	fam["inf-entry"] = inf
	return fam
}

// zeroFamilies: exact zeros at EVERY position of the diagonal (svd) / sub-diagonal (QR) of
// bidiagonal, triangular, Hessenberg and tridiagonal inputs.  Family names carry the position
// ("@k") so that a hang is attributed to one position.  kind "svd" families go to svd only,
// "qr" families to qr/eig (+ qrsym/eigsym when symmetric).
type zfam struct {
	name, kind string
	mat        []float64
}

func zeroFamilies(n int, rng *Rng) []zfam {
	var out []zfam
	z := func() []float64 { return make([]float64, n*n) }
	bidiag := func(v int) []float64 {
		m := z()
		for i := 0; i < n; i++ {
			m[i*n+i] = float64(i + 2 + v)
			if i+1 < n {
				m[i*n+i+1] = float64(2*i + 1 + v)
			}
		}
		return m
	}
	upper := func() []float64 {
		m := z()
		for i := 0; i < n; i++ {
			for j := i; j < n; j++ {
				m[i*n+j] = float64(1 + (i*3+j*5)%7)
			}
		}
		return m
	}
	full := func() []float64 {
		m := z()
		for i := 0; i < n; i++ {
			for j := 0; j < n; j++ {
				m[i*n+j] = float64(1 + (i*i+3*j+i*j)%7)
			}
		}
		return m
	}
	for k := 0; k < n; k++ {
		// already bidiagonal, one exact zero on the diagonal at position k (two value sets)
		for v := 0; v < 2; v++ {
			m := bidiag(3 * v)
			m[k*n+k] = 0
			out = append(out, zfam{fmt.Sprintf("bidiag%d-zero@%d", v, k), "svd", m})
		}
		// bidiagonal with unit super-diagonal and a zero at k: nilpotent-like block structure
		m := z()
		for i := 0; i < n; i++ {
			m[i*n+i] = 1
			if i+1 < n {
				m[i*n+i+1] = 1
			}
		}
		m[k*n+k] = 0
		out = append(out, zfam{fmt.Sprintf("unit-bidiag-zero@%d", k), "svd", m})
		// upper triangular with a zero diagonal entry at k
		m = upper()
		m[k*n+k] = 0
		out = append(out, zfam{fmt.Sprintf("triu-zero@%d", k), "svd", m})
		// rank deficient by a zero column / a zero row at k
		m = full()
		for i := 0; i < n; i++ {
			m[i*n+k] = 0
		}
		out = append(out, zfam{fmt.Sprintf("zero-col@%d", k), "svd", m})
		m = full()
		for j := 0; j < n; j++ {
			m[k*n+j] = 0
		}
		out = append(out, zfam{fmt.Sprintf("zero-row@%d", k), "svd", m})
		// two zeros on the diagonal: k and the last position
		if k < n-1 {
			m = bidiag(0)
			m[k*n+k] = 0
			m[n*n-1] = 0
			out = append(out, zfam{fmt.Sprintf("bidiag0-zero@%d+last", k), "svd", m})
		}
	}
	// the integrator's witness of F-SVD-ZERODIAG-HANG, embedded as trailing block
	if n >= 3 {
		m := z()
		for i := 0; i < n-3; i++ {
			m[i*n+i] = float64(i + 5)
		}
		o := n - 3
		w := []float64{3, 1, 0, 0, 2, 4, 0, 0, 0}
		for i := 0; i < 3; i++ {
			for j := 0; j < 3; j++ {
				m[(o+i)*n+o+j] = w[i*3+j]
			}
		}
		out = append(out, zfam{"witness-3140", "svd", m})
	}
	for k := 0; k+1 < n; k++ {
		// upper Hessenberg, exact zero on the sub-diagonal at (k+1, k)
		m := z()
		for i := 0; i < n; i++ {
			for j := 0; j < n; j++ {
				if i <= j+1 {
					m[i*n+j] = float64(1 + (2*i+3*j+i*j)%5)
				}
			}
		}
		m[(k+1)*n+k] = 0
		out = append(out, zfam{fmt.Sprintf("hess-zero@%d", k), "qr", m})
		// symmetric tridiagonal with distinct diagonal, exact zero off-diagonal pair at k
		m = z()
		for i := 0; i < n; i++ {
			m[i*n+i] = float64(2*i + 1)
			if i+1 < n {
				m[i*n+i+1] = float64(i + 1)
				m[(i+1)*n+i] = float64(i + 1)
			}
		}
		m[(k+1)*n+k] = 0
		m[k*n+k+1] = 0
		out = append(out, zfam{fmt.Sprintf("tridiag-zero@%d", k), "qr", m})
		// symmetric, full, but block diagonal (zero coupling between rows <= k and > k)
		m = z()
		for i := 0; i < n; i++ {
			for j := 0; j <= i; j++ {
				if (i <= k) == (j <= k) {
					v := float64(1 + (i+2*j+i*j)%4)
					if i == j {
						v += float64(3 * i)
					}
					m[i*n+j] = v
					m[j*n+i] = v
				}
			}
		}
		out = append(out, zfam{fmt.Sprintf("sym-block-zero@%d", k), "qr", m})
		// lower sub-diagonal only (nilpotent shift with one link removed)
		m = z()
		for i := 0; i+1 < n; i++ {
			m[(i+1)*n+i] = 1
		}
		m[(k+1)*n+k] = 0
		out = append(out, zfam{fmt.Sprintf("lower-shift-zero@%d", k), "qr", m})
	}
	return out
}

// svdFlags: structural facts about the bidiagonal form of the input (computed with the library's
// own householderBidiagonalization in the parent: a finite counting loop), used to match
// F-SVD-ZERODIAG-HANG narrowly: the ONLY exactly-zero diagonal entry is the last one.
func svdFlags(c TCase) (flags []string) {
	defer func() {
		if r := recover(); r != nil {
			flags = []string{"bidiag-failed"}
		}
	}()
	n := c.N
	if n < 2 || len(c.Mat) != n*n {
		return nil
	}
	for _, v := range c.Mat {
		if math.IsNaN(v) || math.IsInf(v, 0) {
			return []string{"non-finite"}
		}
	}
	if c.Family == "nan-entry" || c.Family == "inf-entry" {
		return []string{"non-finite"}
	}
	v := make([]float64, len(c.Mat))
	copy(v, c.Mat)
	H, _, _, err := householderBidiagonalization.Run(ad.NewDenseFloat64Matrix(v, n, n))
	if err != nil {
		return []string{"bidiag-failed"}
	}
	last := H.ConstAt(n-1, n-1).GetFloat64() == 0.0
	other := 0
	for i := 0; i+1 < n; i++ {
		if H.ConstAt(i, i).GetFloat64() == 0.0 {
			other++
		}
	}
	switch {
	case last && other == 0:
		flags = append(flags, "bidiag-zero-last-only")
	case last:
		flags = append(flags, "bidiag-zero-last-and-other")
	case other > 0:
		flags = append(flags, "bidiag-zero-not-last")
	default:
		flags = append(flags, "bidiag-diag-nonzero")
	}
	return flags
}

func isSym(m []float64, n int) bool {
	for i := 0; i < n; i++ {
		for j := 0; j < i; j++ {
			a, b := m[i*n+j], m[j*n+i]
			if a != b {
				return false
			}
		}
	}
	return true
}

func termCases(opts Opts) []TCase {
	rng := NewRng(opts.Seed ^ 0xC20)
	var cs []TCase
	add := func(c TCase) { c.Id = len(cs); cs = append(cs, c) }
	sizes := []int{1, 2, 3, 4, 5}
	if opts.Tier == "thorough" {
		sizes = []int{1, 2, 3, 4, 5, 6, 8, 12}
	}
	for _, n := range sizes {
		fam := matFamilies(n, rng.Split())
		names := make([]string, 0, len(fam))
		for k := range fam {
			names = append(names, k)
		}
		sort.Strings(names)
		for _, f := range names {
			m := fam[f]
			for _, r := range []string{"qr", "eig", "svd", "msqrt", "msqrtInv"} {
				if (r == "msqrt" || r == "msqrtInv") && n > 4 && opts.Tier != "thorough" {
					continue
				}
				add(TCase{Routine: r, Family: f, N: n, Mat: m, Cap: -1})
			}
			if isSym(m, n) {
				add(TCase{Routine: "qrsym", Family: f, N: n, Mat: m, Cap: -1})
				add(TCase{Routine: "eigsym", Family: f, N: n, Mat: m, Cap: -1})
			}
		}
		if n >= 2 {
			for _, zf := range zeroFamilies(n, rng.Split()) {
				if zf.kind == "svd" {
					add(TCase{Routine: "svd", Family: zf.name, N: n, Mat: zf.mat, Cap: -1})
					continue
				}
				add(TCase{Routine: "qr", Family: zf.name, N: n, Mat: zf.mat, Cap: -1})
				add(TCase{Routine: "eig", Family: zf.name, N: n, Mat: zf.mat, Cap: -1})
				if isSym(zf.mat, n) {
					add(TCase{Routine: "qrsym", Family: zf.name, N: n, Mat: zf.mat, Cap: -1})
					add(TCase{Routine: "eigsym", Family: zf.name, N: n, Mat: zf.mat, Cap: -1})
				}
			}
		}
		// in-place transposition of a view (cycle-following loop)
		add(TCase{Routine: "tip-full", Family: "full", N: n, Cap: -1})
		if n >= 2 {
			add(TCase{Routine: "tip-view", Family: "slice", N: n, Cap: -1})
		}
	}
	// optimisers: objectives x caps
	objs := []string{"quadratic", "linear", "abs-kink", "nan-value", "nan-after-first", "error-after-first", "error-always", "rosenbrock"}
	caps := []int{0, 1, 3, 17}
	for _, ob := range objs {
		for _, cp := range caps {
			for _, r := range []string{"rprop", "bfgs", "adam", "newton-root"} {
				add(TCase{Routine: r, Family: ob, N: 2, Obj: ob, Cap: cp, P: []float64{0.1, 1.2, 0.5}})
			}
		}
		// rprop with the inadmissible option eta[1] >= 1 (step never shrinks in the backtracking loop)
		add(TCase{Routine: "rprop", Family: ob + "/eta1=1", N: 2, Obj: ob, Cap: 5, P: []float64{0.1, 1.2, 1.0}})
		// gradient descent has no iteration cap at all
		for _, st := range []float64{0.25, 1.0, 1.5} {
			add(TCase{Routine: "gd", Family: fmt.Sprintf("%s/step=%g", ob, st), N: 1, Obj: ob, Cap: -1, P: []float64{st}})
		}
		// line search: MaxEval caps
		for _, cp := range []int{0, 1, 5, 20} {
			add(TCase{Routine: "linesearch", Family: ob, N: 1, Obj: ob, Cap: cp})
		}
	}
	// backtracking loops driven by a constraints callback (round 2): never satisfied / satisfied only for
	// tiny steps / satisfied at the start point only.  newton's `for { x2 = x1 - t1; if Vequals(x1, x2) {
	// return error }; ...; t1 *= c }` must end by the Vequals exit (step underflow, ~1100 halvings).
	for _, r := range []string{"newton-root", "newton-min", "newton-crit", "bfgs", "rprop", "adam"} {
		for _, fam := range []string{"constraints-never", "constraints-tiny-step", "constraints-x0-only", "constraints-x0-point"} {
			for _, cp := range []int{1, 5} {
				add(TCase{Routine: r, Family: fam, N: 2, Obj: "quadratic", Cap: cp, P: []float64{0.1, 1.2, 0.5}})
			}
		}
	}
	// round 3: the dense entry point of rprop on the old objective / constraint families, and the zero-partial stream
	for _, ob := range objs {
		for _, cp := range []int{1, 17} {
			add(TCase{Routine: "rprop-dense", Family: ob, N: 2, Obj: ob, Cap: cp, P: []float64{0.1, 1.2, 0.5}})
		}
		add(TCase{Routine: "rprop-dense", Family: ob + "/eta1=1", N: 2, Obj: ob, Cap: 5, P: []float64{0.1, 1.2, 1.0}})
	}
	for _, fam := range []string{"constraints-never", "constraints-tiny-step", "constraints-x0-only", "constraints-x0-point"} {
		add(TCase{Routine: "rprop-dense", Family: fam, N: 2, Obj: "quadratic", Cap: 5, P: []float64{0.1, 1.2, 0.5}})
	}
	zpCases(add)
	stallCases(add)
	add(TCase{Routine: "linesearch", Family: "constraints-never", N: 1, Obj: "quadratic", Cap: 20, P: []float64{1}})
	add(TCase{Routine: "linesearch", Family: "constraints-small", N: 1, Obj: "quadratic", Cap: 20, P: []float64{2}})
	for _, cp := range []int{0, 1, 7, 1000} {
		add(TCase{Routine: "sumseries", Family: "constant-terms", N: 1, Cap: cp})
		add(TCase{Routine: "sumlogseries", Family: "constant-terms", N: 1, Cap: cp})
		add(TCase{Routine: "contfrac", Family: "alternating", N: 1, Cap: cp})
	}
	for _, fn := range specialFns {
		for _, x := range specialArgs {
			for _, y := range []float64{0.5, 3, 1e4} {
				add(TCase{Routine: "special", Family: fn, N: 1, Cap: -1, P: []float64{x, y}})
				if fn != "GammaP" && fn != "GammaQ" && fn != "BesselI" && fn != "LogBesselI" && fn != "GammaPd1" {
					break
				}
			}
		}
		add(TCase{Routine: "special", Family: fn, N: 1, Cap: -1, Obj: "nan"})
		add(TCase{Routine: "special", Family: fn, N: 1, Cap: -1, Obj: "inf"})
	}
	specialNFCases(add)
	for _, st := range []int{0, 1, 10} {
		add(TCase{Routine: "blahut", Family: "uniform", N: 3, Cap: st})
		add(TCase{Routine: "blahut", Family: "zero-channel", N: 3, Cap: st})
	}
	for i := range cs {
		if cs[i].Routine == "svd" {
			cs[i].Flags = svdFlags(cs[i])
		}
	}
	return cs
}

// ---------------------------------------------------------------- objectives

type counter struct{ evals, iters int }

func objective(name string, cnt *counter) func(ad.ConstVector) (ad.MagicScalar, error) {
	return func(x ad.ConstVector) (ad.MagicScalar, error) {
		cnt.evals++
		r := ad.NewReal64(0.0)
		t := ad.NewReal64(0.0)
		switch name {
		case "quadratic":
			for i := 0; i < x.Dim(); i++ {
				t.Mul(x.ConstAt(i), x.ConstAt(i))
				r.Add(r, t)
			}
		case "linear":
			for i := 0; i < x.Dim(); i++ {
				r.Add(r, x.ConstAt(i))
			}
		case "abs-kink":
			for i := 0; i < x.Dim(); i++ {
				t.Abs(x.ConstAt(i))
				r.Add(r, t)
			}
		case "nan-value":
			for i := 0; i < x.Dim(); i++ {
				t.Mul(x.ConstAt(i), ad.ConstFloat64(math.NaN()))
				r.Add(r, t)
			}
		case "nan-after-first":
			for i := 0; i < x.Dim(); i++ {
				t.Mul(x.ConstAt(i), x.ConstAt(i))
				if cnt.evals > 1 {
					t.Mul(t, ad.ConstFloat64(math.NaN()))
				}
				r.Add(r, t)
			}
		case "error-after-first":
			if cnt.evals > 1 {
				return nil, errors.New("objective failed")
			}
			for i := 0; i < x.Dim(); i++ {
				t.Mul(x.ConstAt(i), x.ConstAt(i))
				r.Add(r, t)
			}
		case "error-always":
			return nil, errors.New("objective failed")
		case "rosenbrock":
			// (1-x0)^2 + 100 (x1 - x0^2)^2 ; one-dimensional: (1-x0)^2
			a := ad.NewReal64(0.0)
			a.Sub(ad.ConstFloat64(1.0), x.ConstAt(0))
			a.Mul(a, a)
			r.Add(r, a)
			if x.Dim() > 1 {
				b := ad.NewReal64(0.0)
				b.Mul(x.ConstAt(0), x.ConstAt(0))
				b.Sub(x.ConstAt(1), b)
				b.Mul(b, b)
				b.Mul(b, ad.ConstFloat64(100.0))
				r.Add(r, b)
			}
		}
		return r, nil
	}
}

// ---------------------------------------------------------------- child: run one case

func runTermCase(c TCase) (res TRes) {
	res.Case = c
	res.Iters, res.Evals = -1, -1
	cnt := &counter{}
	lg := &rpLog{}
	cl := &consLog{probe: c.Probe, scalar: c.Routine == "linesearch"}
	defer func() {
		if r := recover(); r != nil {
			if st, ok := r.(stallStop); ok {
				// counting hook: the run used up its evaluation budget without returning
				res.Outcome = "deadline"
				res.Iters, res.Evals = cnt.iters, cnt.evals
				res.Msg = fmt.Sprintf("%s counting hook: %d objective evaluations, %d iterations without returning (default MaxIterations)", st.state, st.evals, cnt.iters)
				return
			}
			if _, ok := r.(fuelStop); ok {
				res.Outcome = "returned"
				if c.Routine == "rprop" || c.Routine == "rprop-dense" {
					res.Msg = lg.hangState()
				} else {
					res.Msg = cl.hangState()
				}
				if len(res.Msg) > 400 {
					res.Msg = res.Msg[:400]
				}
				return
			}
			if _, ok := r.(runtime.Error); ok {
				res.Outcome = "rtpanic"
			} else {
				res.Outcome = "panic"
			}
			res.Msg = fmt.Sprint(r)
			if len(res.Msg) > 160 {
				res.Msg = res.Msg[:160]
			}
		}
	}()
	var err error
	mat := func() *ad.DenseFloat64Matrix {
		v := make([]float64, len(c.Mat))
		copy(v, c.Mat)
		cc := c
		cc.Mat = v
		fixNonFinite(&cc)
		return ad.NewDenseFloat64Matrix(v, c.N, c.N)
	}
	x0 := func() ad.DenseFloat64Vector {
		v := ad.NullDenseFloat64Vector(c.N)
		for i := range v {
			v[i] = 1.5 - float64(i)
			if len(c.X0) == c.N {
				v[i] = c.X0[i]
			}
		}
		return v
	}
	// constraints callback for the "constraints-*" families; the start point is x0()
	ccalls := 0
	var constr0 func(x ad.ConstVector) bool
	constr := func(x ad.ConstVector) bool {
		ok := constr0(x)
		xs := make([]float64, x.Dim())
		for i := range xs {
			xs[i] = x.ConstAt(i).GetFloat64()
		}
		cl.on(xs, ok)
		return ok
	}
	constr0 = func(x ad.ConstVector) bool {
		ccalls++
		switch c.Family {
		case "constraints-never":
			return false
		case "constraints-x0-only":
			return ccalls == 1
		case "constraints-x0-point": // only the start point itself is admissible: every loop must end by step underflow
			for i := 0; i < x.Dim(); i++ {
				if x.ConstAt(i).GetFloat64() != 1.5-float64(i) {
					return false
				}
			}
			return true
		case "constraints-tiny-step":
			d := 0.0
			for i := 0; i < x.Dim(); i++ {
				d += math.Abs(x.ConstAt(i).GetFloat64() - (1.5 - float64(i)))
			}
			return d < 1e-9
		}
		return true
	}
	hasC := len(c.Family) > 12 && c.Family[:12] == "constraints-"
	switch c.Routine {
	case "qr":
		_, _, err = qrAlgorithm.Run(mat(), qrAlgorithm.ComputeU{Value: true})
	case "qrsym":
		_, _, err = qrAlgorithm.Run(mat(), qrAlgorithm.ComputeU{Value: true}, qrAlgorithm.Symmetric{Value: true})
	case "eig":
		_, _, err = eigensystem.Run(mat())
	case "eigsym":
		_, _, err = eigensystem.Run(mat(), eigensystem.Symmetric{Value: true})
	case "svd":
		_, _, _, err = svd.Run(mat(), svd.ComputeU{Value: true}, svd.ComputeV{Value: true})
	case "msqrt":
		_, err = msqrt.Run(mat())
	case "msqrtInv":
		_, err = msqrtInv.Run(mat())
	case "tip-full":
		m := ad.NullDenseFloat64Matrix(c.N, c.N+1)
		m.Tip()
	case "tip-view":
		m := ad.NullDenseFloat64Matrix(c.N+1, c.N+1)
		m.Slice(0, c.N, 0, c.N).(*ad.DenseFloat64Matrix).Tip()
	case "rprop", "rprop-dense":
		err = runRprop(c, cnt, lg, constr, hasC, objective(c.Obj, cnt), x0())
		res.Iters, res.Evals = cnt.iters, cnt.evals
		res.Prog, res.MaxPass = lg.state, lg.maxPass
		lg.closeRec(err == nil)
		for _, r := range lg.recs {
			res.Inner = append(res.Inner, r.coq(lg.dense, lg.eta1))
		}
	case "bfgs":
		f := objective(c.Obj, cnt)
		h := bfgs.Hook{Value: func(x, g ad.ConstVector, y ad.ConstScalar) bool { cnt.iters++; return false }}
		args := []interface{}{h, bfgs.MaxIterations{Value: c.Cap}}
		if hasC {
			args = append(args, bfgs.Constraints{Value: func(x ad.Vector) bool { return constr(x) }})
		}
		_, err = bfgs.Run(bfgs.Objective(f), x0(), args...)
		res.Iters, res.Evals = cnt.iters, cnt.evals
	case "adam":
		f := objective(c.Obj, cnt)
		h := adam.Hook{Value: func(ad.ConstVector, ad.ConstVector, ad.ConstScalar) bool { cnt.iters++; return false }}
		args := []interface{}{h, adam.MaxIterations{Value: c.Cap}}
		if hasC {
			args = append(args, adam.Constraints{Value: func(x ad.Vector) bool { return constr(x) }})
		}
		_, err = adam.Run(f, x0(), args...)
		res.Iters, res.Evals = cnt.iters, cnt.evals
	case "newton-root":
		f := objective(c.Obj, cnt)
		g := func(x ad.ConstVector) (ad.MagicVector, error) {
			y, e := f(x)
			if e != nil {
				return nil, e
			}
			// root of the (scalar) objective replicated to a square system
			r := ad.NullDenseReal64Vector(x.Dim())
			for i := 0; i < x.Dim(); i++ {
				r.At(i).Add(y, x.ConstAt(i))
			}
			return r, nil
		}
		h := newton.HookRoot{Value: func(ad.ConstVector, ad.ConstMatrix, ad.ConstVector) bool { cnt.iters++; return false }}
		args := []interface{}{h, newton.MaxIterations{Value: c.Cap}}
		if hasC {
			args = append(args, newton.Constraints{Value: func(x ad.Vector) bool { return constr(x) }})
		}
		_, err = newton.RunRoot(g, x0(), args...)
		res.Iters, res.Evals = cnt.iters, cnt.evals
	case "newton-min", "newton-crit":
		f := objective(c.Obj, cnt)
		args := []interface{}{newton.MaxIterations{Value: c.Cap}}
		if hasC {
			args = append(args, newton.Constraints{Value: func(x ad.Vector) bool { return constr(x) }})
		}
		if c.Routine == "newton-min" {
			args = append(args, newton.HookMin{Value: func(ad.ConstVector, ad.ConstVector, ad.ConstMatrix, ad.ConstScalar) bool { cnt.iters++; return false }})
			_, err = newton.RunMin(f, x0(), args...)
		} else {
			args = append(args, newton.HookCrit{Value: func(ad.ConstVector, ad.ConstMatrix, ad.ConstVector) bool { cnt.iters++; return false }})
			_, err = newton.RunCrit(f, x0(), args...)
		}
		res.Iters, res.Evals = cnt.iters, cnt.evals
	case "newton-root-stall", "newton-min-stall", "newton-crit-stall", "newton-minplain-stall":
		err, res.Stall = runStall(c, cnt)
		res.Iters, res.Evals = cnt.iters, cnt.evals
	case "gd":
		f := objective(c.Obj, cnt)
		h := gradientDescent.Hook{Value: func([]float64, ad.ConstVector, ad.ConstScalar) bool { cnt.iters++; return false }}
		_, err = gradientDescent.Run(f, x0(), c.P[0], h)
		res.Iters, res.Evals = cnt.iters, cnt.evals
	case "linesearch":
		f := objective(c.Obj, cnt)
		phi := func(a ad.ConstScalar) (ad.MagicScalar, error) {
			// phi(alpha) = f(x0 - alpha * 1) along a descent direction of the quadratic
			x := ad.NullDenseReal64Vector(1)
			x.At(0).Sub(ad.ConstFloat64(1.5), a)
			return f(x)
		}
		args := []interface{}{lineSearch.Parameters{Alpha1: 1, MaxEval: c.Cap}}
		if len(c.P) > 0 && c.P[0] == 1 {
			args = append(args, lineSearch.Constraints{Value: func(a ad.ConstScalar) bool {
				cnt.iters++
				cl.on([]float64{a.GetFloat64()}, false)
				return false
			}})
		}
		if len(c.P) > 0 && c.P[0] == 2 {
			args = append(args, lineSearch.Constraints{Value: func(a ad.ConstScalar) bool {
				cnt.iters++
				ok := a.GetFloat64() < 1e-3
				cl.on([]float64{a.GetFloat64()}, ok)
				return ok
			}})
		}
		_, err = lineSearch.Run(phi, ad.Float64Type, args...)
		res.Evals = cnt.evals
	case "sumseries":
		special.SumSeries(constSeries{cnt}, 0.0, 1e-300, c.Cap)
		res.Iters, res.Evals = cnt.evals, cnt.evals
	case "sumlogseries":
		special.SumLogSeries(constSeries{cnt}, 0.0, -1e300, c.Cap)
		res.Iters, res.Evals = cnt.evals, cnt.evals
	case "contfrac":
		special.EvalContinuedFraction(altFraction{cnt}, 0.0, c.Cap)
		res.Iters, res.Evals = cnt.evals-1, cnt.evals
	case "special":
		x, y := 0.0, 0.0
		switch c.Obj {
		case "nan":
			x, y = math.NaN(), math.NaN()
		case "inf":
			x, y = math.Inf(1), math.Inf(1)
		default:
			x, y = c.P[0], c.P[1]
		}
		switch c.Family {
		case "Digamma":
			special.Digamma(x)
		case "Trigamma":
			special.Trigamma(x)
		case "Polygamma2":
			special.Polygamma(2, x)
		case "Zeta":
			special.Zeta(x)
		case "GammaP":
			special.GammaP(y, x)
		case "GammaQ":
			special.GammaQ(y, x)
		case "GammaPd1":
			special.GammaPfirstDerivative(y, x)
		case "LogErfc":
			special.LogErfc(x)
		case "BesselI":
			special.BesselI(y, x)
		case "LogBesselI":
			special.LogBesselI(y, x)
		case "Mlgamma":
			special.Mlgamma(x, 3)
		}
	case "specialnf":
		runSpecialNF(c, cnt)
	case "svdprobe":
		st, det := svdHangState(c, c.Cap)
		res.Msg = st + " " + det
		if len(res.Msg) > 400 {
			res.Msg = res.Msg[:400]
		}
		res.Outcome = "returned"
		return res
	case "blahut":
		ch := ad.NullDenseFloat64Matrix(c.N, c.N)
		if c.Family == "uniform" {
			for i := 0; i < c.N; i++ {
				for j := 0; j < c.N; j++ {
					ch.At(i, j).SetFloat64(1.0 / float64(c.N))
				}
			}
		}
		p := ad.NullDenseFloat64Vector(c.N)
		for i := range p {
			p[i] = 1.0 / float64(c.N)
		}
		h := blahut.Hook{Value: func(ad.Vector, ad.Scalar) bool { cnt.iters++; return false }}
		blahut.Run(ch, p, c.Cap, h)
		res.Iters = cnt.iters
	default:
		Die("unknown routine %s", c.Routine)
	}
	if err != nil {
		res.Outcome = "error"
		res.Msg = err.Error()
		if len(res.Msg) > 160 {
			res.Msg = res.Msg[:160]
		}
	} else {
		res.Outcome = "returned"
	}
	return res
}

// ---------------------------------------------------------------- parent

// routines whose non-returning runs are re-executed with fuel and classified by state (retry.go)
var probeable = map[string]bool{"rprop": true, "rprop-dense": true, "linesearch": true, "bfgs": true,
	"newton-root": true, "newton-min": true, "newton-crit": true, "adam": true}

func deadlineFor(c TCase, tier string) time.Duration {
	d := 1500 * time.Millisecond
	if tier == "thorough" {
		d = 4 * time.Second
	}
	if tier == "recheck" {
		// a deadline hit that no finding explains is re-run ALONE before it counts: a hang is infinite, a slow
		// start of the child process on a loaded machine is not (load averages above 150 have been seen)
		d = 45 * time.Second
	}
	return d + time.Duration(c.N*c.N*c.N)*2*time.Millisecond
}

func runTermParent(opts Opts, cases []TCase, outName string) {
	self, _ := os.Executable()
	os.MkdirAll(opts.Out, 0755)
	cf := filepath.Join(opts.Out, outName+".cases.json")
	b, _ := json.Marshal(cases)
	os.WriteFile(cf, b, 0644)
	results := make([]TRes, len(cases))
	sem := make(chan struct{}, 16)
	var wg sync.WaitGroup
	for i := range cases {
		wg.Add(1)
		sem <- struct{}{}
		go func(i int) {
			defer wg.Done()
			defer func() { <-sem }()
			c := cases[i]
			dl := deadlineFor(c, opts.Tier)
			ctx, cancel := context.WithTimeout(context.Background(), dl)
			defer cancel()
			t0 := time.Now()
			cmd := exec.CommandContext(ctx, self, "--extra", fmt.Sprintf("termchild:%d", i), "--replay", cf)
			out, err := cmd.Output()
			r := TRes{Case: c, Iters: -1, Evals: -1}
			if ctx.Err() == context.DeadlineExceeded {
				r.Outcome = "deadline"
			} else if err != nil || json.Unmarshal(out, &r) != nil {
				r.Outcome = "crash"
				r.Msg = fmt.Sprintf("%v %s", err, string(out))
				if len(r.Msg) > 300 {
					r.Msg = r.Msg[:300]
				}
			}
			r.Case = c
			r.Secs = math.Round(time.Since(t0).Seconds()*100) / 100
			if isStallRoutine(c.Routine) {
				if r.Outcome == "deadline" && !strings.HasPrefix(r.Msg, "hangstate:") {
					// wall-clock deadline (loaded machine): the counting hook of the child decides, re-run it with a long deadline
					ctx2, cancel2 := context.WithTimeout(context.Background(), 120*time.Second)
					out2, err2 := exec.CommandContext(ctx2, self, "--extra", fmt.Sprintf("termchild:%d", i), "--replay", cf).Output()
					cancel2()
					var r2 TRes
					if err2 == nil && json.Unmarshal(out2, &r2) == nil {
						r = r2
						r.Case = c
					}
				}
				if r.Outcome == "deadline" && strings.HasPrefix(r.Msg, "hangstate:") {
					cf2 := c
					cf2.Flags = append(append([]string{}, c.Flags...), strings.SplitN(r.Msg, " ", 2)[0])
					r.Case = cf2
				}
			}
			if c.Routine == "svd" && r.Outcome == "deadline" {
				// classify the state the run spins in: deterministic fuel (Golub-Kahan steps), see svdprobe.go
				pf := filepath.Join(opts.Out, fmt.Sprintf("%s.probe_%d.json", outName, i))
				pc := c
				pc.Routine = "svdprobe"
				pc.Cap = 40000
				pb, _ := json.Marshal([]TCase{pc})
				os.WriteFile(pf, pb, 0644)
				ctx2, cancel2 := context.WithTimeout(context.Background(), 20*time.Second)
				out2, err2 := exec.CommandContext(ctx2, self, "--extra", "termchild:0", "--replay", pf).Output()
				cancel2()
				var pr TRes
				state := "hangstate:no-step"
				if err2 == nil && json.Unmarshal(out2, &pr) == nil && len(pr.Msg) > 0 {
					state = pr.Msg
				}
				os.Remove(pf)
				r.Msg = state
				fl := state
				for k := 0; k < len(state); k++ {
					if state[k] == ' ' {
						fl = state[:k]
						break
					}
				}
				cf2 := c
				cf2.Flags = append(append([]string{}, c.Flags...), fl)
				r.Case = cf2
			}
			if probeable[c.Routine] && r.Outcome == "deadline" {
				// classify the state the run spins in: deterministic fuel on the inner retry loop (retry.go)
				pf := filepath.Join(opts.Out, fmt.Sprintf("%s.probe_%d.json", outName, i))
				pc := c
				pc.Probe = 30000
				pb, _ := json.Marshal([]TCase{pc})
				os.WriteFile(pf, pb, 0644)
				ctx2, cancel2 := context.WithTimeout(context.Background(), 30*time.Second)
				out2, err2 := exec.CommandContext(ctx2, self, "--extra", "termchild:0", "--replay", pf).Output()
				cancel2()
				var pr TRes
				state := "hangstate:no-pass"
				if err2 == nil && json.Unmarshal(out2, &pr) == nil {
					if strings.HasPrefix(pr.Msg, "hangstate:") {
						state = pr.Msg
					} else {
						state = "hangstate:probe-" + pr.Outcome
					}
				}
				os.Remove(pf)
				r.Msg = state
				cf2 := c
				cf2.Flags = append(append([]string{}, c.Flags...), strings.SplitN(state, " ", 2)[0])
				r.Case = cf2
			}
			results[i] = r
		}(i)
	}
	wg.Wait()
	hist := map[string]int{}
	for _, r := range results {
		hist["routine:"+r.Case.Routine]++
		hist["outcome:"+r.Outcome]++
	}
	ob, _ := json.MarshalIndent(map[string]interface{}{"results": results, "histogram": hist, "special_covered": specialCovered()}, "", " ")
	os.WriteFile(filepath.Join(opts.Out, outName+".json"), ob, 0644)
}

func runTermChild(opts Opts, idx int) {
	b, err := os.ReadFile(opts.Replay)
	if err != nil {
		Die("termchild: %v", err)
	}
	var cases []TCase
	if err := json.Unmarshal(b, &cases); err != nil {
		Die("termchild: %v", err)
	}
	// NaN/Inf do not survive JSON: the families are regenerated from (family, n)
	c := cases[idx]
	r := runTermCase(c)
	r.Case.Mat = nil
	ob, _ := json.Marshal(r)
	os.Stdout.Write(ob)
}

func fixNonFinite(c *TCase) {
	n := c.N
	if n == 0 {
		return
	}
	switch c.Family {
	case "nan-entry":
		c.Mat[(n/2)*n+n/2] = math.NaN()
	case "inf-entry":
		c.Mat[(n/2)*n+n/2] = math.Inf(1)
	}
}
