// C20 harness.  Modes (--extra):
//   (default)        guard stream: corpus + exhaustive small shapes + seeded random calls -> cases_*.v, cases.anomalies.json
//   term             termination stream: every iterative routine on degenerate inputs, subprocess + deadline -> term.json
//   termchild:<i>    (internal) run case i of the file given by --replay, print the result as JSON
//   recycle[:corpus] recycled-InSitu call sequences (round 6) -> recycle_*.v, recycle.anomalies.json
//   gj               round 7: gaussJordan.Run shape guards on both paths -> gj_*.v, gj.anomalies.json
//   qrstep           bit-exact traces of the public qrAlgorithm.QRstep on 2x2 blocks -> qr_*.v
//   --replay <file>  re-execute the call / termination case stored in a replay file
package main

import (
	"encoding/json"
	"fmt"
	"os"
	"path/filepath"
	"strconv"
	"strings"

	. "adharness/common"
)

func main() {
	opts := ParseFlags()
	initTypes()
	switch {
	case strings.HasPrefix(opts.Extra, "termchild:"):
		i, _ := strconv.Atoi(strings.TrimPrefix(opts.Extra, "termchild:"))
		runTermChild(opts, i)
	case opts.Extra == "term":
		runTermParent(opts, termCases(opts), "term")
	case opts.Extra == "gj":
		runGJStream(opts, gjCalls(), "gj")
	case opts.Extra == "qrstep":
		runQRTrace(opts)
	case strings.HasPrefix(opts.Extra, "recycle") && opts.Replay == "":
		rng := NewRng(opts.Seed ^ 0x5ec1c1e)
		seqs := loadRCorpus(strings.TrimPrefix(strings.TrimPrefix(opts.Extra, "recycle"), ":"))
		seqs = append(seqs, genSeqs(rng, opts.N, opts.Tier)...)
		runRecycle(opts, seqs, "recycle")
	case opts.Replay != "":
		replay(opts)
	default:
		rng := NewRng(opts.Seed)
		calls := loadCorpus(opts.Extra)
		calls = append(calls, genCalls(rng, opts.N)...)
		runGuard(opts, calls, "cases")
	}
}

func loadCorpus(path string) []Call {
	var cs []Call
	if path == "" {
		return cs
	}
	b, err := os.ReadFile(path)
	if err != nil {
		return cs
	}
	for _, l := range strings.Split(string(b), "\n") {
		l = strings.TrimSpace(l)
		if l == "" || strings.HasPrefix(l, "#") {
			continue
		}
		var c struct {
			Call *Call `json:"call"`
		}
		if err := json.Unmarshal([]byte(l), &c); err == nil && c.Call != nil {
			cs = append(cs, *c.Call)
		}
	}
	return cs
}

// replay: the file holds either {"call": ...} (guard case) or {"tcase": ...} (termination case)
func replay(opts Opts) {
	b, err := os.ReadFile(opts.Replay)
	if err != nil {
		Die("replay: %v", err)
	}
	var rp struct {
		Call  *Call  `json:"call"`
		TCase *TCase `json:"tcase"`
		RSeq  *RSeq  `json:"rseq"`
		GJ    *GJCall `json:"gjcall"`
	}
	if err := json.Unmarshal(b, &rp); err != nil {
		Die("replay: %v", err)
	}
	switch {
	case rp.Call != nil:
		runGuard(opts, []Call{*rp.Call}, "replay")
		ab, _ := os.ReadFile(filepath.Join(opts.Out, "replay.anomalies.json"))
		fmt.Println(string(ab))
	case rp.TCase != nil:
		runTermParent(opts, []TCase{*rp.TCase}, "replay_term")
		ab, _ := os.ReadFile(filepath.Join(opts.Out, "replay_term.json"))
		fmt.Println(string(ab))
	case rp.GJ != nil:
		runGJStream(opts, []GJCall{*rp.GJ}, "replay_gj")
		ab, _ := os.ReadFile(filepath.Join(opts.Out, "replay_gj.anomalies.json"))
		fmt.Println(string(ab))
	case rp.RSeq != nil:
		runRecycle(opts, []RSeq{*rp.RSeq}, "replay_recycle")
		ab, _ := os.ReadFile(filepath.Join(opts.Out, "replay_recycle.anomalies.json"))
		fmt.Println(string(ab))
	default:
		Die("replay file has neither call, tcase nor rseq")
	}
}
