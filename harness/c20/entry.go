// C20: algorithm entry points called with admissible and inadmissible shapes / options.
package main

import (
	"errors"
	"time"

	ad "github.com/pbenner/autodiff"
	"github.com/pbenner/autodiff/algorithm/adam"
	"github.com/pbenner/autodiff/algorithm/bfgs"
	"github.com/pbenner/autodiff/algorithm/cholesky"
	"github.com/pbenner/autodiff/algorithm/determinant"
	"github.com/pbenner/autodiff/algorithm/gradientDescent"
	"github.com/pbenner/autodiff/algorithm/hessenbergReduction"
	"github.com/pbenner/autodiff/algorithm/householderBidiagonalization"
	"github.com/pbenner/autodiff/algorithm/householderTridiagonalization"
	"github.com/pbenner/autodiff/algorithm/matrixInverse"
	"github.com/pbenner/autodiff/algorithm/msqrt"
	"github.com/pbenner/autodiff/algorithm/msqrtInv"
	"github.com/pbenner/autodiff/algorithm/qrAlgorithm"
	"github.com/pbenner/autodiff/algorithm/rprop"
	"github.com/pbenner/autodiff/algorithm/svd"
)

type bogusOption struct{ Value int }

func eye(r, c int) *ad.DenseFloat64Matrix {
	m := ad.NullDenseFloat64Matrix(r, c)
	for i := 0; i < r && i < c; i++ {
		m.At(i, i).SetFloat64(2.0)
	}
	return m
}

func sumSquares(x ad.ConstVector) (ad.MagicScalar, error) {
	r := ad.NewReal64(0.0)
	t := ad.NewReal64(0.0)
	for i := 0; i < x.Dim(); i++ {
		t.Mul(x.ConstAt(i), x.ConstAt(i))
		r.Add(r, t)
	}
	return r, nil
}

// runEntry: alg id c.O, I = [rows, cols, opt]; opt 0 none, 1 an argument of an unknown type, 2 InSitu by value
func runEntry(c *Call, tn string) error {
	type res struct {
		err error
		pan interface{}
	}
	ch := make(chan res, 1)
	go func() {
		defer func() {
			if r := recover(); r != nil {
				ch <- res{nil, r}
			}
		}()
		ch <- res{entryBody(c.O, c.I[0], c.I[1], c.I[2]), nil}
	}()
	select {
	case r := <-ch:
		if r.pan != nil {
			panic(r.pan)
		}
		return r.err
	case <-time.After(5 * time.Second):
		panic(errors.New("C20-DEADLINE")) // reported as an explicit panic; never expected for identity inputs
	}
}

func entryBody(alg, r, c, opt int) error {
	var args []interface{}
	a := eye(r, c)
	var err error
	switch alg {
	case 0, 1:
		if alg == 1 {
			args = append(args, qrAlgorithm.Symmetric{Value: true})
		}
		switch opt {
		case 1:
			args = append(args, bogusOption{1})
		case 2:
			args = append(args, qrAlgorithm.InSitu{})
		}
		_, _, err = qrAlgorithm.Run(a, args...)
	case 2:
		switch opt {
		case 1:
			args = append(args, bogusOption{1})
		case 2:
			args = append(args, svd.InSitu{})
		}
		_, _, _, err = svd.Run(a, args...)
	case 3:
		if opt != 0 {
			args = append(args, bogusOption{1})
		}
		_, err = msqrt.Run(a, args...)
	case 4:
		if opt != 0 {
			args = append(args, bogusOption{1})
		}
		_, err = msqrtInv.Run(a, args...)
	case 5:
		switch opt {
		case 1:
			args = append(args, bogusOption{1})
		case 2:
			args = append(args, cholesky.InSitu{})
		}
		_, _, err = cholesky.Run(a, args...)
	case 6:
		switch opt {
		case 1:
			args = append(args, bogusOption{1})
		case 2:
			args = append(args, determinant.InSitu{})
		}
		_, err = determinant.Run(a, args...)
	case 7:
		switch opt {
		case 1:
			args = append(args, bogusOption{1})
		case 2:
			args = append(args, matrixInverse.InSitu{})
		}
		_, err = matrixInverse.Run(a, args...)
	case 8:
		switch opt {
		case 1:
			args = append(args, bogusOption{1})
		case 2:
			args = append(args, hessenbergReduction.InSitu{})
		}
		_, _, err = hessenbergReduction.Run(a, args...)
	case 9:
		switch opt {
		case 1:
			args = append(args, bogusOption{1})
		case 2:
			args = append(args, householderBidiagonalization.InSitu{})
		}
		_, _, _, err = householderBidiagonalization.Run(a, args...)
	case 10:
		switch opt {
		case 1:
			args = append(args, bogusOption{1})
		case 2:
			args = append(args, householderTridiagonalization.InSitu{})
		}
		_, _, err = householderTridiagonalization.Run(a, args...)
	case 13: // rprop: x0 of dim r, eta of length c
		x0 := ad.NullDenseFloat64Vector(r)
		for i := 0; i < r; i++ {
			x0[i] = 1
		}
		eta := make([]float64, c)
		for i := range eta {
			eta[i] = []float64{1.2, 0.5, 0.5, 0.5}[i%4]
		}
		args = append(args, rprop.MaxIterations{Value: 3})
		if opt != 0 {
			args = append(args, bogusOption{1})
		}
		_, err = rprop.Run(sumSquares, x0, 0.1, eta, args...)
	case 14:
		x0 := ad.NullDenseFloat64Vector(r)
		n := 0
		args = append(args, gradientDescent.Hook{Value: func([]float64, ad.ConstVector, ad.ConstScalar) bool { n++; return n > 3 }})
		if opt != 0 {
			args = append(args, bogusOption{1})
		}
		_, err = gradientDescent.Run(sumSquares, x0, 0.1, args...)
	case 15: // bfgs: x0 of dim r, Hessian c x c
		x0 := ad.NullDenseFloat64Vector(r)
		for i := 0; i < r; i++ {
			x0[i] = 1
		}
		args = append(args, bfgs.Hessian{Value: eye(c, c)}, bfgs.MaxIterations{Value: 3})
		if opt != 0 {
			args = append(args, bogusOption{1})
		}
		_, err = bfgs.Run(bfgs.Objective(sumSquares), x0, args...)
	case 16:
		x0 := ad.NullDenseFloat64Vector(r)
		for i := 0; i < r; i++ {
			x0[i] = 1
		}
		args = append(args, adam.MaxIterations{Value: 3})
		if opt != 0 {
			args = append(args, bogusOption{1})
		}
		_, err = adam.Run(sumSquares, x0, args...)
	}
	return err
}
