package main

// Property-level oracle for C19, used by the hunt: checks the implementation
// directly against the mathematical-set semantics stated by the property
// (no Coq model involved), and shrinks a failing history.

import (
	"fmt"
	"math"
	"sort"
	"strings"

	ad "github.com/pbenner/autodiff"
)

type refIter struct {
	tree  int
	ended bool
	value int64
}

func sortedKeys(s map[int64]bool) []int64 {
	ks := make([]int64, 0, len(s))
	for k := range s {
		ks = append(ks, k)
	}
	sort.Slice(ks, func(i, j int) bool { return ks[i] < ks[j] })
	return ks
}
func minGE(s map[int64]bool, i int64) (int64, bool) {
	found := false
	var best int64
	for k := range s {
		if k >= i && (!found || k < best) {
			best, found = k, true
		}
	}
	return best, found
}
func minGT(s map[int64]bool, i int64) (int64, bool) {
	if i == math.MaxInt64 {
		return 0, false
	}
	return minGE(s, i+1)
}

// structural check of one tree: BST order, balance factors = height difference
// in {-1,0,1}, parent links, no tombstone reachable; returns height.
func checkNode(n, parent *ad.AvlNode, lo, hi *int64, msg *string) int64 {
	return checkNodeD(n, parent, lo, hi, msg, 0)
}
func checkNodeD(n, parent *ad.AvlNode, lo, hi *int64, msg *string, depth int) int64 {
	if n == nil {
		return 0
	}
	if depth > maxDepth {
		if *msg == "" {
			*msg = "tree deeper than any AVL tree can be (cycle)"
		}
		return 0
	}
	if n.Parent != parent && *msg == "" {
		*msg = fmt.Sprintf("node %d: stored parent differs from structural parent", n.Value)
	}
	if n.Deleted && *msg == "" {
		*msg = fmt.Sprintf("node %d: reachable node flagged Deleted", n.Value)
	}
	v := int64(n.Value)
	if ((lo != nil && v <= *lo) || (hi != nil && v >= *hi)) && *msg == "" {
		*msg = fmt.Sprintf("node %d: search-tree order violated", n.Value)
	}
	hl := checkNodeD(n.Left, n, lo, &v, msg, depth+1)
	hr := checkNodeD(n.Right, n, &v, hi, msg, depth+1)
	if int64(n.Balance) != hr-hl && *msg == "" {
		*msg = fmt.Sprintf("node %d: balance factor %d but height difference %d", n.Value, n.Balance, hr-hl)
	}
	if (hr-hl > 1 || hr-hl < -1) && *msg == "" {
		*msg = fmt.Sprintf("node %d: not height balanced (%d)", n.Value, hr-hl)
	}
	if hl > hr {
		return hl + 1
	}
	return hr + 1
}

// valid reports whether every op refers to an existing tree / iterator.
func valid(ops []Op) bool {
	nt, ni := 1, 0
	for _, o := range ops {
		switch o.Op {
		case "Ins", "Del", "Find", "FindLE", "Elems":
			if o.T >= nt {
				return false
			}
		case "Clone":
			if o.T >= nt {
				return false
			}
			nt++
		case "ItBegin", "ItFrom":
			if o.T >= nt {
				return false
			}
			ni++
		case "SafeIt", "SafeItFrom":
			if o.T >= nt {
				return false
			}
			nt++
			ni++
		case "ItClone":
			if o.T >= ni {
				return false
			}
			ni++
		case "Next":
			if o.T >= ni {
				return false
			}
		}
	}
	return true
}

// propCheck runs the history on the implementation and compares every
// observation with the set semantics. Returns "" if the property held,
// otherwise (description, index of the failing op).
func propCheck(ops []Op) (fail string, at int) {
	defer func() {
		if r := recover(); r != nil {
			fail = fmt.Sprintf("panic: %v", r)
		}
	}()
	outs := []Out{}
	trees := newWorld()
	sets := []map[int64]bool{{}}
	var iters []*ad.AvlIterator
	var rits []refIter
	ho := newHeapOracle()
	for idx, o := range ops {
		at = idx
		one, broke := safeExecOne(o, &trees, &iters)
		if broke {
			if one.H == -778 {
				return "operation does not terminate: " + o.Op + fmt.Sprintf("(%d)", o.I), idx
			}
			return "panic in " + o.Op + fmt.Sprintf("(%d)", o.I), idx
		}
		outs = append(outs, one)
		if msg := ho.check(o, trees); msg != "" {
			return "after " + o.Op + fmt.Sprintf("(%d): ", o.I) + msg, idx
		}
		switch o.Op {
		case "Ins":
			exp := !sets[o.T][o.I]
			sets[o.T][o.I] = true
			if one.F != exp {
				return fmt.Sprintf("Insert(%d) returned %v, set semantics %v", o.I, one.F, exp), idx
			}
		case "Del":
			exp := sets[o.T][o.I]
			delete(sets[o.T], o.I)
			if one.F != exp {
				return fmt.Sprintf("Delete(%d) returned %v, set semantics %v", o.I, one.F, exp), idx
			}
		case "Find":
			if one.F != sets[o.T][o.I] {
				return fmt.Sprintf("FindNode(%d) found=%v, membership %v", o.I, one.F, sets[o.T][o.I]), idx
			}
		case "FindLE":
			v, ok := minGE(sets[o.T], o.I)
			if one.F != ok || (ok && one.V != v) {
				return fmt.Sprintf("FindNodeLE(%d) = (%v,%d), expected (%v,%d)", o.I, one.F, one.V, ok, v), idx
			}
		case "Clone":
			c := map[int64]bool{}
			for k := range sets[o.T] {
				c[k] = true
			}
			sets = append(sets, c)
		case "ItBegin", "ItFrom", "SafeIt", "SafeItFrom":
			lo := int64(math.MinInt64)
			if o.Op == "ItFrom" || o.Op == "SafeItFrom" {
				lo = o.I
			}
			v, ok := minGE(sets[o.T], lo)
			on := o.T
			if o.Op == "SafeIt" || o.Op == "SafeItFrom" {
				// a Safe iterator walks a snapshot: a set of its own that later mutations of the
				// source do not reach
				c := map[int64]bool{}
				for k := range sets[o.T] {
					c[k] = true
				}
				sets = append(sets, c)
				on = len(sets) - 1
			}
			rits = append(rits, refIter{on, !ok, v})
			if one.F != ok || (ok && one.V != v) {
				return fmt.Sprintf("%s(%d) positioned at (%v,%d), expected (%v,%d)", o.Op, o.I, one.F, one.V, ok, v), idx
			}
		case "ItClone":
			rits = append(rits, rits[o.T])
			if one.F != !rits[o.T].ended || (one.F && one.V != rits[o.T].value) {
				return "iterator clone differs from its source", idx
			}
		case "Next":
			ri := &rits[o.T]
			if !ri.ended {
				v, ok := minGT(sets[ri.tree], ri.value)
				if ok {
					ri.value = v
				} else {
					ri.ended = true
				}
			}
			if one.F != !ri.ended || (one.F && one.V != ri.value) {
				return fmt.Sprintf("Next() moved to (%v,%d); the smallest surviving larger element is (%v,%d)", one.F, one.V, !ri.ended, ri.value), idx
			}
		case "Elems":
			ks := sortedKeys(sets[o.T])
			if fmt.Sprint(ks) != fmt.Sprint(one.L) {
				return fmt.Sprintf("iteration %v differs from sorted set %v", one.L, ks), idx
			}
		}
		if o.Op == "Ins" || o.Op == "Del" || o.Op == "Clone" || o.Op == "SafeIt" || o.Op == "SafeItFrom" {
			t := trees[o.T]
			st := sets[o.T]
			if o.Op != "Ins" && o.Op != "Del" {
				t = trees[len(trees)-1]
				st = sets[len(sets)-1]
			}
			msg := ""
			// root accessors against the set: Emtpy iff empty; Value is a key; Left / Right split the rest
			if t.Emtpy() != (len(st) == 0) {
				msg = fmt.Sprintf("Emtpy() = %v on a set of %d keys", t.Emtpy(), len(st))
			} else if !t.Emtpy() {
				v := int64(t.Value())
				l, r := t.Left(), t.Right()
				nl, nr := 0, 0
				// (walked through the child links: an Iterator() on these views would climb out
				// of the subtree through the Parent link of its root)
				budget := walkGuard
				preorder(l.Root, func(n *ad.AvlNode) {
					if int64(n.Value) >= v || !st[int64(n.Value)] {
						msg = "Left() holds a key that is not a smaller key of the set"
					}
					nl++
				}, &budget)
				preorder(r.Root, func(n *ad.AvlNode) {
					if int64(n.Value) <= v || !st[int64(n.Value)] {
						msg = "Right() holds a key that is not a larger key of the set"
					}
					nr++
				}, &budget)
				if !st[v] || nl+nr+1 != len(st) {
					msg = "Value() / Left() / Right() do not partition the set"
				}
			}
			if msg != "" {
				return "after " + o.Op + fmt.Sprintf("(%d): ", o.I) + msg, idx
			}
			if t.Root != nil && t.Root.Parent != nil {
				msg = "root has a parent"
			}
			checkNode(t.Root, nil, nil, nil, &msg)
			if msg != "" {
				return "after " + o.Op + fmt.Sprintf("(%d): ", o.I) + msg, idx
			}
		}
	}
	return "", -1
}

// ddmin-style shrinking of a failing history
func shrink(ops []Op) []Op {
	fails := func(c []Op) bool {
		if !valid(c) {
			return false
		}
		f, _ := propCheck(c)
		return f != ""
	}
	// truncate after the failing op
	f0, at0 := propCheck(ops)
	if f0 != "" && at0 >= 0 && at0+1 < len(ops) {
		ops = ops[:at0+1]
	}
	if strings.HasPrefix(f0, "operation does not terminate") {
		return ops // every further probe would cost a timeout and an abandoned spinning goroutine
	}
	chunk := len(ops) / 2
	for chunk >= 1 {
		changed := false
		for start := 0; start+chunk <= len(ops); {
			cand := append(append([]Op{}, ops[:start]...), ops[start+chunk:]...)
			if fails(cand) {
				ops = cand
				changed = true
			} else {
				start += chunk
			}
		}
		if !changed || chunk == 1 {
			if chunk == 1 && !changed {
				break
			}
		}
		if chunk > 1 {
			chunk /= 2
		} else if !changed {
			break
		}
	}
	return ops
}

// ---- pointer-level oracle (model independent) ------------------------------------
// Tracks every node object ever reachable from a tree and checks, after every step:
// no object is reachable from two trees; Clone creates only new objects and Insert at
// most one; every pointer stored in a reachable object stays inside its tree; an
// object that is no longer reachable is flagged Deleted (and reachable ones are not);
// a step leaves every object of the trees it does not mutate bit-for-bit unchanged.
type nodeSnap struct {
	value, balance      int
	deleted             bool
	left, right, parent *ad.AvlNode
}

func snapOf(n *ad.AvlNode) nodeSnap {
	return nodeSnap{n.Value, n.Balance, n.Deleted, n.Left, n.Right, n.Parent}
}

type heapOracle struct {
	region map[*ad.AvlNode]int
	snap   map[*ad.AvlNode]nodeSnap
	order  []*ad.AvlNode // registration order (deterministic reports)
}

func newHeapOracle() *heapOracle {
	return &heapOracle{map[*ad.AvlNode]int{}, map[*ad.AvlNode]nodeSnap{}, nil}
}

func (h *heapOracle) check(o Op, trees []*ad.AvlTree) string {
	mutated := -1 // the tree whose objects the step may write
	switch o.Op {
	case "Ins", "Del":
		mutated = o.T
	case "Clone", "SafeIt", "SafeItFrom":
		mutated = len(trees) - 1
	}
	isClone := o.Op == "Clone" || o.Op == "SafeIt" || o.Op == "SafeItFrom"
	reach := make([]map[*ad.AvlNode]bool, len(trees))
	for j, t := range trees {
		reach[j] = map[*ad.AvlNode]bool{}
		budget := walkGuard
		fresh := 0
		msg := ""
		preorder(t.Root, func(n *ad.AvlNode) {
			if reach[j][n] && msg == "" {
				msg = fmt.Sprintf("node %d reachable twice in tree %d", n.Value, j)
			}
			reach[j][n] = true
			if r, ok := h.region[n]; ok {
				if r != j && msg == "" {
					msg = fmt.Sprintf("node %d: object shared between trees %d and %d", n.Value, r, j)
				}
				if isClone && j == mutated && msg == "" {
					msg = fmt.Sprintf("node %d: Clone reused an existing node object", n.Value)
				}
			} else {
				fresh++
				h.region[n] = j
				h.order = append(h.order, n)
			}
		}, &budget)
		if budget <= 0 {
			return fmt.Sprintf("tree %d: walk does not terminate (cycle)", j)
		}
		if msg != "" {
			return msg
		}
		if fresh > 0 && !(j == mutated && (isClone || (o.Op == "Ins" && fresh == 1))) {
			return fmt.Sprintf("tree %d: %d unexpected new node objects after %s", j, fresh, o.Op)
		}
		for _, n := range h.order {
			if !reach[j][n] {
				continue
			}
			for _, q := range []*ad.AvlNode{n.Left, n.Right, n.Parent} {
				if q != nil && !reach[j][q] {
					return fmt.Sprintf("node %d of tree %d stores a pointer to an object outside the tree", n.Value, j)
				}
			}
			if n.Deleted {
				return fmt.Sprintf("node %d: reachable node flagged Deleted", n.Value)
			}
		}
	}
	for _, n := range h.order {
		r := h.region[n]
		if r < len(trees) && !reach[r][n] && !n.Deleted {
			return fmt.Sprintf("node %d: unlinked from tree %d but not flagged Deleted", n.Value, r)
		}
		if old, ok := h.snap[n]; ok && r != mutated && old != snapOf(n) {
			return fmt.Sprintf("node %d of tree %d changed by %s on another tree / by a read-only step", n.Value, r, o.Op)
		}
		h.snap[n] = snapOf(n)
	}
	return ""
}
